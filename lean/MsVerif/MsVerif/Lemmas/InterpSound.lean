/-
Soundness of the interpreter's evaluation (`Model/Interp.interp`) against the structured Script
semantics (`Spec/Frag.frag`): a simulation, fragment by fragment, typed by the library's own
type rules.  The statement per base type is `Post`.
-/
import MsVerif.Lemmas.InterpBasic
import MsVerif.Lemmas.InterpTyping

namespace MsVerif.InterpSound
open MsVerif Script Interp

/-- result of a `K` fragment: key and signature on the stack make CHECKSIG produce exactly the
interpreter's result -/
structure KRes (env : Env) (r : Elem) (pk sg : Bytes) : Prop where
  bool : r = .sat ∨ r = .dissat
  sat : r = .sat → checkSig env sg pk = .ok true
  dis : r = .dissat → checkSig env sg pk = .ok false

/-- what soundness means for a fragment of base type `b` (unit flag `u`) evaluated by the
interpreter on the abstraction of `c` with outcome `a'` -/
def Post (env : Env) (ke : KeyEnv) (ctx : Ctx) (ms : Ms) (b : Base) (u : Bool) (c : List Bytes)
    (a' : AStack) : Prop :=
  match b with
  | .B => ∃ r c0, a' = r :: absS c0 ∧ ∀ rest alt ops, ∃ v ops',
      frag env ke ctx ms ⟨c ++ rest, alt, ops⟩ = .ok ⟨v :: (c0 ++ rest), alt, ops'⟩ ∧ Res env u r v
  | .V => ∃ c0, a' = absS c0 ∧ ∀ rest alt ops, ∃ ops',
      frag env ke ctx ms ⟨c ++ rest, alt, ops⟩ = .ok ⟨c0 ++ rest, alt, ops'⟩
  | .K => ∃ r c0, a' = r :: absS c0 ∧ ∀ rest alt ops, ∃ pk sg ops',
      frag env ke ctx ms ⟨c ++ rest, alt, ops⟩ = .ok ⟨pk :: sg :: (c0 ++ rest), alt, ops'⟩ ∧ KRes env r pk sg
  | .W => ∃ r c0, a' = r :: absS c0 ∧ ∀ t rest alt ops, ∃ v ops',
      frag env ke ctx ms ⟨t :: (c ++ rest), alt, ops⟩ = .ok ⟨t :: v :: (c0 ++ rest), alt, ops'⟩ ∧ Res env u r v

/-- the fragments covered by the proof, with their side conditions: keys of the script are
well-formed for the context, lock values round-trip through the script-number codec -/
def Sup (env : Env) (ke : KeyEnv) : Ms → Prop
  | .tru | .fls => True
  | .pkK k => pubkeyOk env (ke.ser k) = true
  | .pkH _ | .rawPkH _ => True
  | .after n | .older n => LockOk env n
  | .hash _ _ => True
  | .alt x | .check x | .verify x | .zeroNotEqual x => Sup env ke x
  | .andV l r | .andB l r | .orB l r | .orC l r | .orD l r | .orI l r => Sup env ke l ∧ Sup env ke r
  | .andOr a b c => Sup env ke a ∧ Sup env ke b ∧ Sup env ke c
  | .nonZero _ | .swap _ | .dupIf _ | .thresh _ _ | .multi _ _ | .sortedMulti _ _ | .multiA _ _
  | .sortedMultiA _ _ => False

variable {env : Env} {ke : KeyEnv} {ie : IEnv} {ctx : Ctx}

@[simp] theorem bindOk {α β : Type} (a : α) (f : α → Except Err β) : (Except.ok a >>= f) = f a := rfl
@[simp] theorem bindErr {α β : Type} (e : Err) (f : α → Except Err β) :
    ((Except.error e : Except Err α) >>= f) = .error e := rfl

/-! ### signatures -/

theorem checkSig_empty {pk : Bytes} (hk : pubkeyOk env pk = true) : checkSig env [] pk = .ok false := by
  simp [checkSig, hk]

theorem checkSig_valid (ag : Agree env ie) {pk sg : Bytes} (hv : ie.verifySig pk sg = true)
    (hne : sg ≠ []) : checkSig env sg pk = .ok true := by
  obtain ⟨h1, h2⟩ := ag.sig pk sg hv
  have : sg.isEmpty = false := by cases sg <;> simp_all
  simp [checkSig, h1, h2, this]

/-- `evalSig` against a key that is already on the concrete stack -/
theorem evalSig_sound (ag : Agree env ie) {pk : Bytes} (hk : pubkeyOk env pk = true)
    {mk : Bytes → Constraint} {c : List Bytes} {a' : AStack} {cs : List Constraint}
    (h : evalSig ie pk mk (absS c) = .ok (a', cs)) :
    ∃ r sg c0, c = sg :: c0 ∧ a' = r :: absS c0 ∧ KRes env r pk sg := by
  cases c with
  | nil => simp [evalSig] at h
  | cons sg c0 =>
    simp only [absS_cons] at h
    cases he : Elem.ofBytes sg with
    | sat => simp [he, evalSig] at h
    | dissat =>
      simp [he, evalSig] at h
      have := ofBytes_dissat he
      subst this
      exact ⟨.dissat, [], c0, rfl, h.1.symm, ⟨Or.inr rfl, fun x => by simp at x, fun _ => checkSig_empty hk⟩⟩
    | push b =>
      obtain ⟨e1, e2, _⟩ := ofBytes_push he
      subst e1
      simp only [he, evalSig] at h
      split at h
      · rename_i hv
        simp at h
        exact ⟨.sat, sg, c0, rfl, h.1.symm,
          ⟨Or.inl rfl, fun _ => checkSig_valid ag hv e2, fun x => by simp at x⟩⟩
      · simp at h

/-! ### leaves -/

theorem sound_tru (h : NoLimits env) {c : List Bytes} {a' : AStack} {cs : List Constraint}
    (hi : interp ke ie .tru (absS c) = .ok (a', cs)) : Post env ke ctx .tru .B true c a' := by
  simp [interp] at hi
  refine ⟨.sat, c, hi.1.symm, fun rest alt ops => ⟨[1], ops, ?_, Res.ofBool env true true⟩⟩
  simp [frag, pshOp, pushElem_nl h]

theorem sound_fls (h : NoLimits env) {c : List Bytes} {a' : AStack} {cs : List Constraint}
    (hi : interp ke ie .fls (absS c) = .ok (a', cs)) : Post env ke ctx .fls .B true c a' := by
  simp [interp] at hi
  refine ⟨.dissat, c, hi.1.symm, fun rest alt ops => ⟨[], ops, ?_, Res.ofBool env true false⟩⟩
  simp [frag, pshOp, pushElem_nl h]

theorem sound_pkK (h : NoLimits env) (ag : Agree env ie) {k : Key} (hk : pubkeyOk env (ke.ser k) = true)
    {c : List Bytes} {a' : AStack} {cs : List Constraint}
    (hi : interp ke ie (.pkK k) (absS c) = .ok (a', cs)) : Post env ke ctx (.pkK k) .K false c a' := by
  simp only [interp, evaluatePk] at hi
  obtain ⟨r, sg, c0, hc, ha, hres⟩ := evalSig_sound ag hk hi
  subst hc
  exact ⟨r, c0, ha, fun rest alt ops => ⟨ke.ser k, sg, ops, by simp [frag, psh_nl h], hres⟩⟩

/-- `pk_h` / `raw_pkh`: the four opcodes `DUP HASH160 <h> EQUALVERIFY` -/
theorem pkh_ops (h : NoLimits env) (hv pk : Bytes) (r : List Bytes) (alt : List Bytes) (ops : Nat)
    (heq : (env.hash .hash160 pk == hv) = true) :
    seqOps env [.code .dup, .code .hash160, .push hv, .code .equalverify] ⟨pk :: r, alt, ops⟩
      = .ok ⟨pk :: r, alt, ops + 3⟩ := by
  have e : env.hash .hash160 pk = hv := by simpa using heq
  simp [seqOps, List.foldlM, pshOp, opc_nl h, psh_nl h, execOpc, pushElem_nl h, e]

theorem evaluatePkh_sound (h : NoLimits env) (ag : Agree env ie) {hv : Bytes}
    {c : List Bytes} {a' : AStack} {cs : List Constraint}
    (hi : evaluatePkh ie hv (absS c) = .ok (a', cs)) :
    ∃ r c0, a' = r :: absS c0 ∧ ∀ rest alt ops, ∃ pk sg ops',
      seqOps env [.code .dup, .code .hash160, .push hv, .code .equalverify] ⟨c ++ rest, alt, ops⟩
        = .ok ⟨pk :: sg :: (c0 ++ rest), alt, ops'⟩ ∧ KRes env r pk sg := by
  cases c with
  | nil => simp [evaluatePkh] at hi
  | cons v c1 =>
    simp only [absS_cons] at hi
    cases he : Elem.ofBytes v with
    | sat => simp [he, evaluatePkh] at hi
    | dissat => simp [he, evaluatePkh] at hi
    | push pk =>
      obtain ⟨e1, _, _⟩ := ofBytes_push he
      subst e1
      simp only [he, evaluatePkh] at hi
      split at hi
      · simp at hi
      · rename_i hh
        split at hi
        · simp at hi
        · rename_i hkp
          have hk : pubkeyOk env v = true := ag.key v (by simpa using hkp)
          obtain ⟨r, sg, c0, hc, ha, hres⟩ := evalSig_sound ag hk hi
          subst hc
          refine ⟨r, c0, ha, fun rest alt ops => ⟨v, sg, ops + 3, ?_, hres⟩⟩
          have heq : (env.hash .hash160 v == hv) = true := by
            rw [← ag.h160]; simpa using hh
          simpa using pkh_ops h hv v (sg :: (c0 ++ rest)) alt ops heq

theorem sound_pkH (h : NoLimits env) (ag : Agree env ie) {k : Key}
    {c : List Bytes} {a' : AStack} {cs : List Constraint}
    (hi : interp ke ie (.pkH k) (absS c) = .ok (a', cs)) : Post env ke ctx (.pkH k) .K false c a' := by
  simp only [interp] at hi
  simpa [Post, frag] using evaluatePkh_sound h ag hi

theorem sound_rawPkH (h : NoLimits env) (ag : Agree env ie) {k : Nat}
    {c : List Bytes} {a' : AStack} {cs : List Constraint}
    (hi : interp ke ie (.rawPkH k) (absS c) = .ok (a', cs)) : Post env ke ctx (.rawPkH k) .K false c a' := by
  simp only [interp] at hi
  simpa [Post, frag] using evaluatePkh_sound h ag hi

/-- the value `pushInt n` puts on the stack -/
theorem pshOp_pushInt (h : NoLimits env) (n : Nat) (c : Core) :
    pshOp env (pushInt n) c = .ok { c with stack := lockVal n :: c.stack } := by
  unfold pushInt lockVal
  split
  · simp [pshOp, pushElem_nl h]
  · simp [pshOp, psh_nl h]

theorem Res.ofLock {n : Nat} (lk : LockOk env n) : Res env false .sat (lockVal n) :=
  ⟨Or.inl rfl, fun x => by simp at x, fun _ => ⟨lk.truthy, fun x => by simp at x, Int.ofNat n, lk.dec4,
    by have := lk.pos; simp; omega⟩⟩

theorem cltv_ops (h : NoLimits env) {n : Nat} (lk : LockOk env n) (hl : checkLockTime env n = true)
    (st alt : List Bytes) (ops : Nat) :
    seqOps env [pushInt n, .code .cltv] ⟨st, alt, ops⟩ = .ok ⟨lockVal n :: st, alt, ops + 1⟩ := by
  have hp := lk.pos
  have hneg : ¬ ((Int.ofNat n) < 0) := by simp
  simp only [seqOps, List.foldlM_cons, List.foldlM_nil, pshOp_pushInt h, bindOk]
  simp [pshOp, opc_nl h, execOpc, lk.dec5, hl]

theorem csv_ops (h : NoLimits env) {n : Nat} (lk : LockOk env n) (hl : checkSequence env n = true)
    (st alt : List Bytes) (ops : Nat) :
    seqOps env [pushInt n, .code .csv] ⟨st, alt, ops⟩ = .ok ⟨lockVal n :: st, alt, ops + 1⟩ := by
  have hp := lk.pos
  simp only [seqOps, List.foldlM_cons, List.foldlM_nil, pshOp_pushInt h, bindOk]
  simp [pshOp, opc_nl h, execOpc, lk.dec5, hl]

theorem sound_after (h : NoLimits env) (ag : Agree env ie) {n : Nat} (lk : LockOk env n)
    {c : List Bytes} {a' : AStack} {cs : List Constraint}
    (hi : interp ke ie (.after n) (absS c) = .ok (a', cs)) : Post env ke ctx (.after n) .B false c a' := by
  simp only [interp, evaluateAfter] at hi
  split at hi
  · simp at hi
  · rename_i h0
    split at hi
    · rename_i h1
      split at hi
      · rename_i h2
        simp at hi
        have hl := after_ok ag (by simpa using h0) h1 h2
        exact ⟨.sat, c, hi.1.symm, fun rest alt ops =>
          ⟨lockVal n, ops + 1, by simp [frag, cltv_ops h lk hl], Res.ofLock lk⟩⟩
      · simp at hi
    · simp at hi

theorem sound_older (h : NoLimits env) (ag : Agree env ie) {n : Nat} (lk : LockOk env n)
    {c : List Bytes} {a' : AStack} {cs : List Constraint}
    (hi : interp ke ie (.older n) (absS c) = .ok (a', cs)) : Post env ke ctx (.older n) .B false c a' := by
  simp only [interp, evaluateOlder] at hi
  split at hi
  · simp at hi
  · rename_i h0
    split at hi
    · rename_i h1
      simp at hi
      have hl := older_ok ag (by simpa using h0) h1
      exact ⟨.sat, c, hi.1.symm, fun rest alt ops =>
        ⟨lockVal n, ops + 1, by simp [frag, csv_ops h lk hl], Res.ofLock lk⟩⟩
    · simp at hi

/-! ### hash locks -/

theorem hash_ops (h : NoLimits env) (k : HashKind) (hv pre : Bytes) (hlen : pre.length = 32)
    (st alt : List Bytes) (ops : Nat) :
    seqOps env [.code .size, pushInt 32, .code .equalverify, .code (hashOpc k), .push hv, .code .equal]
      ⟨pre :: st, alt, ops⟩ = .ok ⟨boolBytes (hv == env.hash (hkOp k) pre) :: st, alt, ops + 4⟩ := by
  have e32 : pushInt 32 = Op.push (numEncode (Int.ofNat 32)) := by unfold pushInt; simp
  rw [e32]
  cases k <;>
    simp [seqOps, List.foldlM_cons, pshOp, opc_nl h, psh_nl h, execOpc, pushElem_nl h, hlen, hashOpc, hkOp]

theorem sound_hash (h : NoLimits env) (ag : Agree env ie) {k : HashKind} {n : Nat}
    {c : List Bytes} {a' : AStack} {cs : List Constraint}
    (hi : interp ke ie (.hash k n) (absS c) = .ok (a', cs)) : Post env ke ctx (.hash k n) .B true c a' := by
  simp only [interp] at hi
  cases c with
  | nil => simp [evaluateHash] at hi
  | cons v c1 =>
    simp only [absS_cons] at hi
    cases he : Elem.ofBytes v with
    | sat => simp [he, evaluateHash] at hi
    | dissat => simp [he, evaluateHash] at hi
    | push pre =>
      obtain ⟨e1, _, _⟩ := ofBytes_push he
      subst e1
      simp only [he, evaluateHash] at hi
      split at hi
      · simp at hi
      · rename_i hlen
        have hlen' : v.length = 32 := by simpa using hlen
        rw [ag.hash] at hi
        by_cases heq : env.hash (hkOp k) v = ke.hashVal k n
        · simp [heq] at hi
          refine ⟨.sat, c1, hi.1.symm, fun rest alt ops => ⟨[1], ops + 4, ?_, Res.ofBool env true true⟩⟩
          simp [frag, hash_ops h k _ v hlen', heq, boolBytes]
        · have hne : (env.hash (hkOp k) v == ke.hashVal k n) = false := by simpa using heq
          simp [hne] at hi
          refine ⟨.dissat, c1, hi.1.symm, fun rest alt ops => ⟨[], ops + 4, ?_, Res.ofBool env true false⟩⟩
          have hne' : (ke.hashVal k n == env.hash (hkOp k) v) = false := by
            simpa using fun x => heq x.symm
          simp [frag, hash_ops h k _ v hlen', hne', boolBytes]

/-! ### monotonicity in the unit flag, transport along an ops-only difference -/

theorem Res.mono {u u' : Bool} {r : Elem} {v : Bytes} (huu : u = true → u' = true) (h : Res env u' r v) :
    Res env u r v :=
  ⟨h.bool, h.dis, fun hs => ⟨(h.sat hs).1, fun hu => (h.sat hs).2.1 (huu hu), (h.sat hs).2.2⟩⟩

theorem Post.mono {ms : Ms} {b : Base} {u u' : Bool} {c : List Bytes} {a' : AStack}
    (huu : u = true → u' = true) (P : Post env ke ctx ms b u' c a') : Post env ke ctx ms b u c a' := by
  cases b with
  | B =>
    obtain ⟨r, c0, ha, F⟩ := P
    exact ⟨r, c0, ha, fun rest alt ops => by
      obtain ⟨v, o, hf, hr⟩ := F rest alt ops; exact ⟨v, o, hf, hr.mono huu⟩⟩
  | V => exact P
  | K => exact P
  | W =>
    obtain ⟨r, c0, ha, F⟩ := P
    exact ⟨r, c0, ha, fun t rest alt ops => by
      obtain ⟨v, o, hf, hr⟩ := F t rest alt ops; exact ⟨v, o, hf, hr.mono huu⟩⟩

/-- if running `ms2` on `c2` amounts to running `ms1` on `c1` up to the opcode counter, soundness
of `ms1` carries over -/
theorem Post.transport {ms1 ms2 : Ms} {b : Base} {u : Bool} {c1 c2 : List Bytes} {a' : AStack}
    (hb : b ≠ .W)
    (H : ∀ rest alt ops, ∃ k, ∀ s, frag env ke ctx ms1 ⟨c1 ++ rest, alt, k⟩ = .ok s →
      ∃ j, frag env ke ctx ms2 ⟨c2 ++ rest, alt, ops⟩ = .ok { s with ops := j })
    (P : Post env ke ctx ms1 b u c1 a') : Post env ke ctx ms2 b u c2 a' := by
  cases b with
  | B =>
    obtain ⟨r, c0, ha, F⟩ := P
    refine ⟨r, c0, ha, fun rest alt ops => ?_⟩
    obtain ⟨k, Hk⟩ := H rest alt ops
    obtain ⟨v, o, hf, hr⟩ := F rest alt k
    obtain ⟨j, hj⟩ := Hk _ hf
    exact ⟨v, j, hj, hr⟩
  | V =>
    obtain ⟨c0, ha, F⟩ := P
    refine ⟨c0, ha, fun rest alt ops => ?_⟩
    obtain ⟨k, Hk⟩ := H rest alt ops
    obtain ⟨o, hf⟩ := F rest alt k
    obtain ⟨j, hj⟩ := Hk _ hf
    exact ⟨j, hj⟩
  | K =>
    obtain ⟨r, c0, ha, F⟩ := P
    refine ⟨r, c0, ha, fun rest alt ops => ?_⟩
    obtain ⟨k, Hk⟩ := H rest alt ops
    obtain ⟨pk, sg, o, hf, hr⟩ := F rest alt k
    obtain ⟨j, hj⟩ := Hk _ hf
    exact ⟨pk, sg, j, hj, hr⟩
  | W => exact absurd rfl hb

/-! ### wrappers -/

theorem sound_alt (h : NoLimits env) {x : Ms} {u : Bool} {c : List Bytes} {a' : AStack}
    (P : Post env ke ctx x .B u c a') : Post env ke ctx (.alt x) .W u c a' := by
  obtain ⟨r, c0, ha, F⟩ := P
  refine ⟨r, c0, ha, fun t rest alt ops => ?_⟩
  obtain ⟨v, o, hf, hr⟩ := F rest (t :: alt) (ops + 1)
  exact ⟨v, o + 1, by simp [frag, opc_nl h, execOpc, hf, pushElem_nl h], hr⟩

theorem sound_check (h : NoLimits env) {x : Ms} {u : Bool} {c : List Bytes} {a' : AStack}
    (P : Post env ke ctx x .K u c a') : Post env ke ctx (.check x) .B true c a' := by
  obtain ⟨r, c0, ha, F⟩ := P
  refine ⟨r, c0, ha, fun rest alt ops => ?_⟩
  obtain ⟨pk, sg, o, hf, hk⟩ := F rest alt ops
  rcases hk.bool with hr | hr
  · refine ⟨[1], o + 1, ?_, by subst hr; exact Res.ofBool env true true⟩
    simp [frag, hf, opc_nl h, execOpc, hk.sat hr, pushElem_nl h, boolBytes]
  · refine ⟨[], o + 1, ?_, by subst hr; exact Res.ofBool env true false⟩
    simp [frag, hf, opc_nl h, execOpc, hk.dis hr, pushElem_nl h, boolBytes]

theorem sound_verify (h : NoLimits env) {x : Ms} {u : Bool} {c : List Bytes} {ax a' : AStack}
    {csx cs : List Constraint} (hx : interp ke ie x (absS c) = .ok (ax, csx))
    (hi : interp ke ie (.verify x) (absS c) = .ok (a', cs))
    (P : Post env ke ctx x .B u c ax) : Post env ke ctx (.verify x) .V false c a' := by
  obtain ⟨r, c0, ha, F⟩ := P
  subst ha
  simp only [interp, hx] at hi
  cases r with
  | dissat => simp at hi
  | push b => simp at hi
  | sat =>
    simp at hi
    refine ⟨c0, hi.1.symm, fun rest alt ops => ?_⟩
    obtain ⟨v, o, hf, hr⟩ := F rest alt ops
    have hv := (hr.sat rfl).1
    by_cases hfu : endsFusable (encode ke ctx x) = true
    · exact ⟨o, by simp [frag, hf, hfu, hv]⟩
    · exact ⟨o + 1, by simp [frag, hf, hfu, hv, opc_nl h, execOpc]⟩

theorem sound_zeroNotEqual (h : NoLimits env) {x : Ms} {u : Bool} {c : List Bytes} {ax a' : AStack}
    {csx cs : List Constraint} (hx : interp ke ie x (absS c) = .ok (ax, csx))
    (hi : interp ke ie (.zeroNotEqual x) (absS c) = .ok (a', cs))
    (P : Post env ke ctx x .B u c ax) : Post env ke ctx (.zeroNotEqual x) .B true c a' := by
  obtain ⟨r, c0, ha, F⟩ := P
  subst ha
  simp only [interp, hx] at hi
  have key : ∀ rest alt ops, ∃ v o, frag env ke ctx (.zeroNotEqual x) ⟨c ++ rest, alt, ops⟩
      = .ok ⟨v :: (c0 ++ rest), alt, o⟩ ∧ Res env true r v := by
    intro rest alt ops
    obtain ⟨v, o, hf, hr⟩ := F rest alt ops
    obtain ⟨z, hz, hzr⟩ := hr.num
    rcases hr.bool with e | e
    · subst e
      have : z ≠ 0 := hzr.mpr rfl
      exact ⟨[1], o + 1, by simp [frag, hf, opc_nl h, execOpc, hz, pushElem_nl h, boolBytes, this],
        Res.ofBool env true true⟩
    · subst e
      have : z = 0 := by
        by_cases hz0 : z = 0
        · exact hz0
        · have := hzr.mp hz0; simp at this
      exact ⟨[], o + 1, by simp [frag, hf, opc_nl h, execOpc, hz, pushElem_nl h, boolBytes, this],
        Res.ofBool env true false⟩
  cases r with
  | dissat => simp at hi; exact ⟨.dissat, c0, hi.1.symm, key⟩
  | sat => simp at hi; exact ⟨.sat, c0, hi.1.symm, key⟩
  | push b =>
    obtain ⟨v, o, hf, hr⟩ := F [] [] 0
    rcases hr.bool with e | e <;> simp at e

/-! ### combinators -/

/-- `and_v(l, r)`: `l` leaves nothing, then `r` -/
theorem sound_andV {l r : Ms} {b : Base} {ul u : Bool} {c : List Bytes} {a1 a' : AStack} (hb : b ≠ .W)
    (Pl : Post env ke ctx l .V ul c a1)
    (Pr : ∀ c1, a1 = absS c1 → Post env ke ctx r b u c1 a') : Post env ke ctx (.andV l r) b u c a' := by
  obtain ⟨c1, ha, F⟩ := Pl
  refine Post.transport hb (fun rest alt ops => ?_) (Pr c1 ha)
  obtain ⟨o, hf⟩ := F rest alt ops
  exact ⟨o, fun s hs => ⟨s.ops, by simp [frag, hf, hs]⟩⟩

theorem sound_andB (h : NoLimits env) {l r : Ms} {ul ur : Bool} {c : List Bytes} {a1 a' : AStack}
    {cs1 cs : List Constraint} (hl : interp ke ie l (absS c) = .ok (a1, cs1))
    (hi : interp ke ie (.andB l r) (absS c) = .ok (a', cs))
    (Pl : Post env ke ctx l .B ul c a1)
    (Pr : ∀ c1 a2 cs2, interp ke ie r (absS c1) = .ok (a2, cs2) → Post env ke ctx r .W ur c1 a2) :
    Post env ke ctx (.andB l r) .B true c a' := by
  obtain ⟨rl, c1, ha, Fl⟩ := Pl
  subst ha
  simp only [interp, hl] at hi
  have hbl : rl = .sat ∨ rl = .dissat := by
    obtain ⟨_, _, _, hr⟩ := Fl [] [] 0; exact hr.bool
  cases hr : interp ke ie r (absS c1) with
  | error e => rcases hbl with e1 | e1 <;> subst e1 <;> simp [hr] at hi
  | ok p =>
    obtain ⟨a2, cs2⟩ := p
    obtain ⟨rr, c2, ha2, Fr⟩ := Pr c1 a2 cs2 hr
    subst ha2
    have hi' : (if rr == .sat && rl == .sat then Elem.sat else Elem.dissat) :: absS c2 = a' := by
      rcases hbl with e1 | e1 <;> subst e1 <;> simp [hr] at hi <;> simp [hi.1]
    refine ⟨_, c2, hi'.symm, fun rest alt ops => ?_⟩
    obtain ⟨vl, o1, hf1, hr1⟩ := Fl rest alt ops
    obtain ⟨vr, o2, hf2, hr2⟩ := Fr vl rest alt o1
    obtain ⟨zl, hzl, hzl'⟩ := hr1.num
    obtain ⟨zr, hzr, hzr'⟩ := hr2.num
    refine ⟨boolBytes (zl != 0 && zr != 0), o2 + 1, ?_, ?_⟩
    · simp [frag, hf1, hf2, opc_nl h, execOpc, hzl, hzr, pushElem_nl h]
    · have e : (zl != 0 && zr != 0) = (rr == .sat && rl == .sat) := by
        rcases hbl with e1 | e1 <;> rcases hr2.bool with e2 | e2 <;> subst e1 <;> subst e2 <;>
          simp_all
      rw [e]
      exact Res.ofBool env true _

theorem sound_orB (h : NoLimits env) {l r : Ms} {ul ur : Bool} {c : List Bytes} {a1 a' : AStack}
    {cs1 cs : List Constraint} (hl : interp ke ie l (absS c) = .ok (a1, cs1))
    (hi : interp ke ie (.orB l r) (absS c) = .ok (a', cs))
    (Pl : Post env ke ctx l .B ul c a1)
    (Pr : ∀ c1 a2 cs2, interp ke ie r (absS c1) = .ok (a2, cs2) → Post env ke ctx r .W ur c1 a2) :
    Post env ke ctx (.orB l r) .B true c a' := by
  obtain ⟨rl, c1, ha, Fl⟩ := Pl
  subst ha
  simp only [interp, hl] at hi
  have hbl : rl = .sat ∨ rl = .dissat := by
    obtain ⟨_, _, _, hr⟩ := Fl [] [] 0; exact hr.bool
  cases hr : interp ke ie r (absS c1) with
  | error e => rcases hbl with e1 | e1 <;> subst e1 <;> simp [hr] at hi
  | ok p =>
    obtain ⟨a2, cs2⟩ := p
    obtain ⟨rr, c2, ha2, Fr⟩ := Pr c1 a2 cs2 hr
    subst ha2
    have hi' : (if rr == .dissat && rl == .dissat then Elem.dissat else Elem.sat) :: absS c2 = a' := by
      rcases hbl with e1 | e1 <;> subst e1 <;> simp [hr] at hi <;> simp [hi.1]
    refine ⟨_, c2, hi'.symm, fun rest alt ops => ?_⟩
    obtain ⟨vl, o1, hf1, hr1⟩ := Fl rest alt ops
    obtain ⟨vr, o2, hf2, hr2⟩ := Fr vl rest alt o1
    obtain ⟨zl, hzl, hzl'⟩ := hr1.num
    obtain ⟨zr, hzr, hzr'⟩ := hr2.num
    refine ⟨boolBytes (zl != 0 || zr != 0), o2 + 1, ?_, ?_⟩
    · simp [frag, hf1, hf2, opc_nl h, execOpc, hzl, hzr, pushElem_nl h]
    · have e : (if rr == .dissat && rl == .dissat then Elem.dissat else Elem.sat)
          = (if (zl != 0 || zr != 0) then Elem.sat else Elem.dissat) := by
        rcases hbl with e1 | e1 <;> rcases hr2.bool with e2 | e2 <;> subst e1 <;> subst e2 <;>
          simp_all
      rw [e]
      exact Res.ofBool env true _

/-- MINIMALIF accepts `[]` and `[1]` -/
theorem condPop_nil (notif : Bool) (st alt : List Bytes) (ops : Nat) :
    condPop env notif ⟨[] :: st, alt, ops⟩ = .ok (notif, ⟨st, alt, ops⟩) := by
  cases notif <;> simp [condPop, castToBool]

theorem condPop_one (notif : Bool) (st alt : List Bytes) (ops : Nat) :
    condPop env notif ⟨[1] :: st, alt, ops⟩ = .ok (!notif, ⟨st, alt, ops⟩) := by
  cases notif <;> simp [condPop, castToBool]

theorem sound_orD (h : NoLimits env) {l r : Ms} {u : Bool} {c : List Bytes} {a1 a' : AStack}
    {cs1 cs : List Constraint} (hl : interp ke ie l (absS c) = .ok (a1, cs1))
    (hi : interp ke ie (.orD l r) (absS c) = .ok (a', cs))
    (Pl : Post env ke ctx l .B true c a1)
    (Pr : ∀ c1 a2 cs2, interp ke ie r (absS c1) = .ok (a2, cs2) → Post env ke ctx r .B u c1 a2) :
    Post env ke ctx (.orD l r) .B u c a' := by
  obtain ⟨rl, c1, ha, Fl⟩ := Pl
  subst ha
  simp only [interp, hl] at hi
  cases rl with
  | push b => simp at hi
  | sat =>
    simp at hi
    refine ⟨.sat, c1, hi.1.symm, fun rest alt ops => ?_⟩
    obtain ⟨vl, o1, hf1, hr1⟩ := Fl rest alt ops
    have hv : vl = [1] := (hr1.sat rfl).2.1 rfl
    subst hv
    refine ⟨[1], o1 + 1 + 1 + codeCount (encode ke ctx r) + 1, ?_, (Res.ofBool env true true).mono (fun _ => rfl)⟩
    simp [frag, hf1, opc_nl h, execOpc, castToBool, pushElem_nl h, cnd_nl h, condPop_one, skipCount_nl h,
      countOp_nl h]
  | dissat =>
    cases hr : interp ke ie r (absS c1) with
    | error e => simp [hr] at hi
    | ok p =>
      obtain ⟨a2, cs2⟩ := p
      simp [hr] at hi
      have P := Pr c1 a2 cs2 hr
      rw [hi.1] at P
      refine Post.transport (by simp) (fun rest alt ops => ?_) P
      obtain ⟨vl, o1, hf1, hr1⟩ := Fl rest alt ops
      have hv : vl = [] := hr1.dis rfl
      subst hv
      refine ⟨o1 + 1 + 1, fun s hs => ⟨s.ops + 1, ?_⟩⟩
      simp [frag, hf1, opc_nl h, execOpc, castToBool, cnd_nl h, condPop_nil, hs, countOp_nl h]

theorem sound_orC (h : NoLimits env) {l r : Ms} {u : Bool} {c : List Bytes} {a1 a' : AStack}
    {cs1 cs : List Constraint} (hl : interp ke ie l (absS c) = .ok (a1, cs1))
    (hi : interp ke ie (.orC l r) (absS c) = .ok (a', cs))
    (Pl : Post env ke ctx l .B true c a1)
    (Pr : ∀ c1 a2 cs2, interp ke ie r (absS c1) = .ok (a2, cs2) → Post env ke ctx r .V u c1 a2) :
    Post env ke ctx (.orC l r) .V u c a' := by
  obtain ⟨rl, c1, ha, Fl⟩ := Pl
  subst ha
  simp only [interp, hl] at hi
  cases rl with
  | push b => simp at hi
  | sat =>
    simp at hi
    refine ⟨c1, hi.1.symm, fun rest alt ops => ?_⟩
    obtain ⟨vl, o1, hf1, hr1⟩ := Fl rest alt ops
    have hv : vl = [1] := (hr1.sat rfl).2.1 rfl
    subst hv
    refine ⟨o1 + 1 + codeCount (encode ke ctx r) + 1, ?_⟩
    simp [frag, hf1, cnd_nl h, condPop_one, skipCount_nl h, countOp_nl h]
  | dissat =>
    cases hr : interp ke ie r (absS c1) with
    | error e => simp [hr] at hi
    | ok p =>
      obtain ⟨a2, cs2⟩ := p
      simp [hr] at hi
      have P := Pr c1 a2 cs2 hr
      rw [hi.1] at P
      refine Post.transport (by simp) (fun rest alt ops => ?_) P
      obtain ⟨vl, o1, hf1, hr1⟩ := Fl rest alt ops
      have hv : vl = [] := hr1.dis rfl
      subst hv
      refine ⟨o1 + 1, fun s hs => ⟨s.ops + 1, ?_⟩⟩
      simp [frag, hf1, cnd_nl h, condPop_nil, hs, countOp_nl h]

theorem sound_orI (h : NoLimits env) {l r : Ms} {b : Base} {u : Bool} {c : List Bytes} {a' : AStack}
    {cs : List Constraint} (hb : b ≠ .W)
    (hi : interp ke ie (.orI l r) (absS c) = .ok (a', cs))
    (Pl : ∀ c1 a2 cs2, interp ke ie l (absS c1) = .ok (a2, cs2) → Post env ke ctx l b u c1 a2)
    (Pr : ∀ c1 a2 cs2, interp ke ie r (absS c1) = .ok (a2, cs2) → Post env ke ctx r b u c1 a2) :
    Post env ke ctx (.orI l r) b u c a' := by
  cases c with
  | nil => simp [interp] at hi
  | cons e c1 =>
    simp only [interp, absS_cons] at hi
    cases he : Elem.ofBytes e with
    | push x => simp [he] at hi
    | sat =>
      have := ofBytes_sat he
      subst this
      simp only [he] at hi
      refine Post.transport hb (fun rest alt ops => ?_) (Pl c1 a' cs hi)
      refine ⟨ops + 1, fun s hs => ⟨s.ops + 1 + codeCount (encode ke ctx r) + 1, ?_⟩⟩
      simp [frag, cnd_nl h, condPop_one, hs, skipCount_nl h, countOp_nl h]
    | dissat =>
      have := ofBytes_dissat he
      subst this
      simp only [he] at hi
      refine Post.transport hb (fun rest alt ops => ?_) (Pr c1 a' cs hi)
      refine ⟨ops + 1 + codeCount (encode ke ctx l) + 1, fun s hs => ⟨s.ops + 1, ?_⟩⟩
      simp [frag, cnd_nl h, condPop_nil, hs, skipCount_nl h, countOp_nl h]

theorem sound_andOr (h : NoLimits env) {x y z : Ms} {b : Base} {u : Bool} {c : List Bytes} {a1 a' : AStack}
    {cs1 cs : List Constraint} (hb : b ≠ .W) (hx : interp ke ie x (absS c) = .ok (a1, cs1))
    (hi : interp ke ie (.andOr x y z) (absS c) = .ok (a', cs))
    (Px : Post env ke ctx x .B true c a1)
    (Py : ∀ c1 a2 cs2, interp ke ie y (absS c1) = .ok (a2, cs2) → Post env ke ctx y b u c1 a2)
    (Pz : ∀ c1 a2 cs2, interp ke ie z (absS c1) = .ok (a2, cs2) → Post env ke ctx z b u c1 a2) :
    Post env ke ctx (.andOr x y z) b u c a' := by
  obtain ⟨rx, c1, ha, Fx⟩ := Px
  subst ha
  simp only [interp, hx] at hi
  cases rx with
  | push q => simp at hi
  | sat =>
    cases hy : interp ke ie y (absS c1) with
    | error e => simp [hy] at hi
    | ok p =>
      obtain ⟨a2, cs2⟩ := p
      simp [hy] at hi
      have P := Py c1 a2 cs2 hy
      rw [hi.1] at P
      refine Post.transport hb (fun rest alt ops => ?_) P
      obtain ⟨vx, o1, hf1, hr1⟩ := Fx rest alt ops
      have hv : vx = [1] := (hr1.sat rfl).2.1 rfl
      subst hv
      refine ⟨o1 + 1 + codeCount (encode ke ctx z) + 1, fun s hs => ⟨s.ops + 1, ?_⟩⟩
      simp [frag, hf1, cnd_nl h, condPop_one, hs, skipCount_nl h, countOp_nl h]
  | dissat =>
    cases hz : interp ke ie z (absS c1) with
    | error e => simp [hz] at hi
    | ok p =>
      obtain ⟨a2, cs2⟩ := p
      simp [hz] at hi
      have P := Pz c1 a2 cs2 hz
      rw [hi.1] at P
      refine Post.transport hb (fun rest alt ops => ?_) P
      obtain ⟨vx, o1, hf1, hr1⟩ := Fx rest alt ops
      have hv : vx = [] := hr1.dis rfl
      subst hv
      refine ⟨o1 + 1, fun s hs => ⟨s.ops + 1 + codeCount (encode ke ctx y) + 1, ?_⟩⟩
      simp [frag, hf1, cnd_nl h, condPop_nil, hs, skipCount_nl h, countOp_nl h]

/-! ### the simulation, by recursion on the AST -/

theorem sound (h : NoLimits env) (ag : Agree env ie) :
    (ms : Ms) → (ty : Ty) → typeOf ms = some ty → Sup env ke ms →
    ∀ (c : List Bytes) (a' : AStack) (cs : List Constraint), interp ke ie ms (absS c) = .ok (a', cs) →
      Post env ke ctx ms ty.corr.base ty.corr.unit c a'
  | .tru, ty, hty, _, c, a', cs, hi => by
    obtain ⟨hb, hu⟩ := typeOf_tru hty; rw [hb, hu]; exact sound_tru h hi
  | .fls, ty, hty, _, c, a', cs, hi => by
    obtain ⟨hb, hu⟩ := typeOf_fls hty; rw [hb, hu]; exact sound_fls h hi
  | .pkK k, ty, hty, hs, c, a', cs, hi => by
    rw [typeOf_pkK hty]
    have P := sound_pkK (ctx := ctx) h ag hs hi
    cases hu : ty.corr.unit <;> simpa [Post] using P
  | .pkH k, ty, hty, _, c, a', cs, hi => by
    rw [typeOf_pkH hty]
    have P := sound_pkH (ctx := ctx) h ag hi
    cases hu : ty.corr.unit <;> simpa [Post] using P
  | .rawPkH k, ty, hty, _, c, a', cs, hi => by
    rw [typeOf_rawPkH hty]
    have P := sound_rawPkH (ctx := ctx) h ag hi
    cases hu : ty.corr.unit <;> simpa [Post] using P
  | .after n, ty, hty, hs, c, a', cs, hi => by
    obtain ⟨hb, hu⟩ := typeOf_after hty; rw [hb, hu]; exact sound_after h ag hs hi
  | .older n, ty, hty, hs, c, a', cs, hi => by
    obtain ⟨hb, hu⟩ := typeOf_older hty; rw [hb, hu]; exact sound_older h ag hs hi
  | .hash k n, ty, hty, _, c, a', cs, hi => by
    obtain ⟨hb, hu⟩ := typeOf_hash hty; rw [hb, hu]; exact sound_hash h ag hi
  | .alt x, ty, hty, hs, c, a', cs, hi => by
    obtain ⟨tx, htx, hbx, hb, hu⟩ := typeOf_alt hty
    have P := sound h ag x tx htx hs c a' cs (by simpa [interp] using hi)
    rw [hbx] at P; rw [hb, hu]; exact sound_alt h P
  | .check x, ty, hty, hs, c, a', cs, hi => by
    obtain ⟨tx, htx, hbx, hb, hu⟩ := typeOf_check hty
    have P := sound h ag x tx htx hs c a' cs (by simpa [interp] using hi)
    rw [hbx] at P; rw [hb, hu]; exact sound_check h P
  | .verify x, ty, hty, hs, c, a', cs, hi => by
    obtain ⟨tx, htx, hbx, hb⟩ := typeOf_verify hty
    cases hx : interp ke ie x (absS c) with
    | error e => simp [interp, hx] at hi
    | ok p =>
      obtain ⟨ax, csx⟩ := p
      have P := sound h ag x tx htx hs c ax csx hx
      rw [hbx] at P; rw [hb]
      have Q := sound_verify h hx hi P
      cases hu : ty.corr.unit <;> simpa [Post] using Q
  | .zeroNotEqual x, ty, hty, hs, c, a', cs, hi => by
    obtain ⟨tx, htx, hbx, hb, hu⟩ := typeOf_zeroNotEqual hty
    cases hx : interp ke ie x (absS c) with
    | error e => simp [interp, hx] at hi
    | ok p =>
      obtain ⟨ax, csx⟩ := p
      have P := sound h ag x tx htx hs c ax csx hx
      rw [hbx] at P; rw [hb, hu]
      exact sound_zeroNotEqual h hx hi P
  | .andV l r, ty, hty, hs, c, a', cs, hi => by
    obtain ⟨tl, tr, htl, htr, hbl, hb, hnw, hu⟩ := typeOf_andV hty
    cases hl : interp ke ie l (absS c) with
    | error e => simp [interp, hl] at hi
    | ok p =>
      obtain ⟨a1, cs1⟩ := p
      have Pl := sound h ag l tl htl hs.1 c a1 cs1 hl
      rw [hbl] at Pl; rw [hb, hu]
      refine sound_andV hnw Pl (fun c1 ha1 => ?_)
      subst ha1
      cases hr : interp ke ie r (absS c1) with
      | error e => simp [interp, hl, hr] at hi
      | ok q =>
        obtain ⟨a2, cs2⟩ := q
        simp [interp, hl, hr] at hi
        rw [← hi.1]
        exact sound h ag r tr htr hs.2 c1 a2 cs2 hr
  | .andB l r, ty, hty, hs, c, a', cs, hi => by
    obtain ⟨tl, tr, htl, htr, hbl, hbr, hb, hu⟩ := typeOf_andB hty
    cases hl : interp ke ie l (absS c) with
    | error e => simp [interp, hl] at hi
    | ok p =>
      obtain ⟨a1, cs1⟩ := p
      have Pl := sound h ag l tl htl hs.1 c a1 cs1 hl
      rw [hbl] at Pl; rw [hb, hu]
      exact sound_andB h hl hi Pl (fun c1 a2 cs2 hr => by
        have := sound h ag r tr htr hs.2 c1 a2 cs2 hr; rwa [hbr] at this)
  | .orB l r, ty, hty, hs, c, a', cs, hi => by
    obtain ⟨tl, tr, htl, htr, hbl, hbr, hb, hu⟩ := typeOf_orB hty
    cases hl : interp ke ie l (absS c) with
    | error e => simp [interp, hl] at hi
    | ok p =>
      obtain ⟨a1, cs1⟩ := p
      have Pl := sound h ag l tl htl hs.1 c a1 cs1 hl
      rw [hbl] at Pl; rw [hb, hu]
      exact sound_orB h hl hi Pl (fun c1 a2 cs2 hr => by
        have := sound h ag r tr htr hs.2 c1 a2 cs2 hr; rwa [hbr] at this)
  | .orD l r, ty, hty, hs, c, a', cs, hi => by
    obtain ⟨tl, tr, htl, htr, hbl, hul, hbr, hb, hu⟩ := typeOf_orD hty
    cases hl : interp ke ie l (absS c) with
    | error e => simp [interp, hl] at hi
    | ok p =>
      obtain ⟨a1, cs1⟩ := p
      have Pl := sound h ag l tl htl hs.1 c a1 cs1 hl
      rw [hbl, hul] at Pl; rw [hb, hu]
      exact sound_orD h hl hi Pl (fun c1 a2 cs2 hr => by
        have := sound h ag r tr htr hs.2 c1 a2 cs2 hr; rwa [hbr] at this)
  | .orC l r, ty, hty, hs, c, a', cs, hi => by
    obtain ⟨tl, tr, htl, htr, hbl, hul, hbr, hb⟩ := typeOf_orC hty
    cases hl : interp ke ie l (absS c) with
    | error e => simp [interp, hl] at hi
    | ok p =>
      obtain ⟨a1, cs1⟩ := p
      have Pl := sound h ag l tl htl hs.1 c a1 cs1 hl
      rw [hbl, hul] at Pl; rw [hb]
      have Q := sound_orC (u := tr.corr.unit) h hl hi Pl (fun c1 a2 cs2 hr => by
        have := sound h ag r tr htr hs.2 c1 a2 cs2 hr; rwa [hbr] at this)
      cases hu : ty.corr.unit <;> simpa [Post] using Q
  | .orI l r, ty, hty, hs, c, a', cs, hi => by
    obtain ⟨tl, tr, htl, htr, hbl, hbr, hnw, hu⟩ := typeOf_orI hty
    exact sound_orI h hnw hi
      (fun c1 a2 cs2 hl => by
        have := sound h ag l tl htl hs.1 c1 a2 cs2 hl
        rw [hbl] at this; exact this.mono (fun x => (hu x).1))
      (fun c1 a2 cs2 hr => by
        have := sound h ag r tr htr hs.2 c1 a2 cs2 hr
        rw [hbr] at this; exact this.mono (fun x => (hu x).2))
  | .andOr x y z, ty, hty, hs, c, a', cs, hi => by
    obtain ⟨tx, ty', tz, htx, hty', htz, hbx, hux, hby, hbz, hnw, hu⟩ := typeOf_andOr hty
    cases hx : interp ke ie x (absS c) with
    | error e => simp [interp, hx] at hi
    | ok p =>
      obtain ⟨a1, cs1⟩ := p
      have Px := sound h ag x tx htx hs.1 c a1 cs1 hx
      rw [hbx, hux] at Px
      exact sound_andOr h hnw hx hi Px
        (fun c1 a2 cs2 hy => by
          have := sound h ag y ty' hty' hs.2.1 c1 a2 cs2 hy
          rw [hby] at this; exact this.mono (fun q => (hu q).1))
        (fun c1 a2 cs2 hz => by
          have := sound h ag z tz htz hs.2.2 c1 a2 cs2 hz
          rw [hbz] at this; exact this.mono (fun q => (hu q).2))
  | .nonZero _, _, _, hs, _, _, _, _ => hs.elim
  | .swap _, _, _, hs, _, _, _, _ => hs.elim
  | .dupIf _, _, _, hs, _, _, _, _ => hs.elim
  | .thresh _ _, _, _, hs, _, _, _, _ => hs.elim
  | .multi _ _, _, _, hs, _, _, _, _ => hs.elim
  | .sortedMulti _ _, _, _, hs, _, _, _, _ => hs.elim
  | .multiA _ _, _, _, hs, _, _, _, _ => hs.elim
  | .sortedMultiA _ _, _, _, hs, _, _, _, _ => hs.elim

end MsVerif.InterpSound

/-
Parse / serialise round trips for the byte parser of `Spec/Script.lean`:

* `parse (serialize ops) = some ops` for canonical elements (`OP_0`..`OP_16`, direct pushes of
  1..75 bytes, opcodes of the subset), hence `parse (encodeBytes ke ctx ms) = some (encode ke ctx ms)`
  for key environments whose atoms have 1..75 bytes;
* the scriptSig `util::witness_to_scriptsig` builds from satisfier items parses to push-only
  elements with minimal pushes whose evaluation leaves exactly the items.

Core Lean only.
-/
import MsVerif.Lemmas.BridgeExtra
import MsVerif.Lemmas.SatNum
import MsVerif.Model.Plan
import MsVerif.Spec.Spend

namespace MsVerif.SatSpec
open MsVerif Script

/-! ### one parser step -/

theorem opc_byte_ge (o : Opc) : 0x61 ≤ o.byte.toNat := by cases o <;> decide

theorem opc_ofByte (o : Opc) : Opc.ofByte? o.byte = some o := by cases o <;> decide

theorem parseAux_code (o : Opc) (fuel : Nat) (rest : Bytes) :
    parseAux (fuel + 1) ((Op.code o).bytes ++ rest)
      = (parseAux fuel rest).map (fun t => (Op.code o, true) :: t) := by
  have h1 := opc_byte_ge o
  have h2 := opc_ofByte o
  simp only [Op.bytes, List.cons_append, List.nil_append, parseAux]
  rw [if_neg (by omega), if_neg (by omega), if_neg (by omega), if_neg (by omega),
    if_neg (by omega), if_neg (by omega), h2]

theorem parseAux_small (n : Nat) (h : n ≤ 16) (fuel : Nat) (rest : Bytes) :
    parseAux (fuel + 1) ((Op.small n).bytes ++ rest)
      = (parseAux fuel rest).map (fun t => (Op.small n, true) :: t) := by
  cases n with
  | zero => simp [Op.bytes, parseAux]
  | succ k =>
    have hb : (UInt8.ofNat (0x50 + (k + 1))).toNat = 0x50 + (k + 1) := by
      rw [UInt8.toNat_ofNat']; omega
    simp only [Op.bytes, List.cons_append, List.nil_append, parseAux, hb]
    rw [if_neg (by omega), if_neg (by omega), if_neg (by omega), if_neg (by omega),
      if_neg (by omega), if_pos (by omega)]
    have : 0x50 + (k + 1) - 0x50 = k + 1 := by omega
    rw [this]

/-- a push of 1..65535 bytes with the shortest push opcode parses back with flag `true` -/
theorem parseAux_push (bs : Bytes) (h1 : 1 ≤ bs.length) (h2 : bs.length ≤ 0xffff)
    (fuel : Nat) (rest : Bytes) :
    parseAux (fuel + 1) ((Op.push bs).bytes ++ rest)
      = (parseAux fuel rest).map (fun t => (Op.push bs, true) :: t) := by
  show parseAux (fuel + 1) (pushPrefix bs.length ++ bs ++ rest) = _
  unfold pushPrefix
  split
  · rename_i hl
    have hb : (UInt8.ofNat bs.length).toNat = bs.length := by
      rw [UInt8.toNat_ofNat']; omega
    simp only [List.cons_append, List.nil_append, parseAux, hb]
    rw [if_neg (by omega), if_pos (by omega), if_neg (by simp)]
    rw [List.take_left', List.drop_left'] <;> rfl
  · rename_i hl
    split
    · rename_i hl2
      have hb : (UInt8.ofNat bs.length).toNat = bs.length := by
        rw [UInt8.toNat_ofNat']; omega
      have h76 : (76 : UInt8).toNat = 76 := rfl
      have hd : decide (bs.length ≥ 76) = true := by simp; omega
      simp [parseAux, hb, h76, hd]
      intro h; omega
    · rename_i hl2
      have hb0 : (UInt8.ofNat (bs.length % 256)).toNat = bs.length % 256 := by
        rw [UInt8.toNat_ofNat']; omega
      have hb1 : (UInt8.ofNat (bs.length / 256)).toNat = bs.length / 256 := by
        rw [UInt8.toNat_ofNat']; omega
      have hlen : bs.length % 256 + 256 * (bs.length / 256) = bs.length := by omega
      have h77 : (77 : UInt8).toNat = 77 := rfl
      have hd : decide (bs.length > 255) = true := by simp; omega
      simp [parseAux, hb0, hb1, h77, hlen, hd]
      intro h; omega

/-! ### round trip for lists of elements -/

/-- elements that parse back to themselves with flag `true` (pushes up to 65535 bytes) -/
def goodOp : Op → Bool
  | .small n => decide (n ≤ 16)
  | .push bs => decide (1 ≤ bs.length) && decide (bs.length ≤ 0xffff)
  | .code _ => true
  | .bad _ => false

theorem parseAux_good (o : Op) (h : goodOp o = true) (fuel : Nat) (rest : Bytes) :
    parseAux (fuel + 1) (o.bytes ++ rest)
      = (parseAux fuel rest).map (fun t => (o, true) :: t) := by
  cases o with
  | small n => exact parseAux_small n (by simpa [goodOp] using h) fuel rest
  | push bs =>
    simp only [goodOp, Bool.and_eq_true, decide_eq_true_eq] at h
    exact parseAux_push bs h.1 h.2 fuel rest
  | code o => exact parseAux_code o fuel rest
  | bad b => simp [goodOp] at h

theorem pushPrefix_length_pos (n : Nat) : 1 ≤ (pushPrefix n).length := by
  unfold pushPrefix
  split
  · simp
  · split
    · simp
    · split <;> simp

theorem Op.bytes_length_pos (o : Op) : 1 ≤ o.bytes.length := by
  cases o with
  | small n => cases n <;> simp [Op.bytes]
  | push bs =>
    show 1 ≤ (pushPrefix bs.length ++ bs).length
    have := pushPrefix_length_pos bs.length
    rw [List.length_append]; omega
  | code o => simp [Op.bytes]
  | bad b => simp [Op.bytes]

theorem serialize_cons (o : Op) (ops : List Op) : serialize (o :: ops) = o.bytes ++ serialize ops := by
  simp [serialize]

theorem parseAux_serialize_good (ops : List Op) (h : ops.all goodOp = true) :
    ∀ fuel, (serialize ops).length ≤ fuel →
      parseAux fuel (serialize ops) = some (ops.map (fun o => (o, true))) := by
  induction ops with
  | nil => intro fuel _; cases fuel <;> simp [serialize, parseAux]
  | cons o ops ih =>
    intro fuel hf
    rw [List.all_cons, Bool.and_eq_true] at h
    rw [serialize_cons] at hf ⊢
    have hp := Op.bytes_length_pos o
    rw [List.length_append] at hf
    cases fuel with
    | zero => omega
    | succ f =>
      rw [parseAux_good o h.1 f, ih h.2 f (by omega)]
      rfl

theorem parseFlagged_serialize_good (ops : List Op) (h : ops.all goodOp = true) :
    parseFlagged (serialize ops) = some (ops.map (fun o => (o, true))) :=
  parseAux_serialize_good ops h _ (Nat.le_refl _)

/-- script elements whose serialisation parses back to themselves with the parser of
Spec/Script.lean: OP_0..OP_16, direct pushes of 1..75 bytes, opcodes of the subset -/
def canonOp : Op → Bool
  | .small n => decide (n ≤ 16)
  | .push bs => decide (1 ≤ bs.length) && decide (bs.length < 76)
  | .code _ => true
  | .bad _ => false

theorem goodOp_of_canonOp (o : Op) (h : canonOp o = true) : goodOp o = true := by
  cases o with
  | small n => exact h
  | push bs =>
    simp only [canonOp, Bool.and_eq_true, decide_eq_true_eq] at h
    simp only [goodOp, Bool.and_eq_true, decide_eq_true_eq]
    omega
  | code o => rfl
  | bad b => exact h

theorem all_good_of_all_canon (ops : List Op) (h : ops.all canonOp = true) :
    ops.all goodOp = true := by
  rw [List.all_eq_true] at h ⊢
  intro o ho; exact goodOp_of_canonOp o (h o ho)

theorem parseFlagged_serialize (ops : List Op) (h : ops.all canonOp = true) :
    parseFlagged (serialize ops) = some (ops.map (fun o => (o, true))) :=
  parseFlagged_serialize_good ops (all_good_of_all_canon ops h)

theorem parse_serialize (ops : List Op) (h : ops.all canonOp = true) :
    parse (serialize ops) = some ops := by
  unfold parse
  rw [parseFlagged_serialize ops h]
  simp [Function.comp_def]

/-! ### encodings are canonical -/

/-- byte strings of the atoms have between 1 and 75 bytes (keys 32/33/65, hashes 20/32) -/
def KeyEnv.Std (ke : KeyEnv) : Prop :=
  (∀ k, 1 ≤ (ke.ser k).length ∧ (ke.ser k).length < 76) ∧
  (∀ k, 1 ≤ (ke.pkh k).length ∧ (ke.pkh k).length < 76) ∧
  (∀ h, 1 ≤ (ke.rawPkh h).length ∧ (ke.rawPkh h).length < 76) ∧
  (∀ kind h, 1 ≤ (ke.hashVal kind h).length ∧ (ke.hashVal kind h).length < 76)

theorem canonOp_push (bs : Bytes) (h : 1 ≤ bs.length ∧ bs.length < 76) :
    canonOp (.push bs) = true := by
  simp only [canonOp, Bool.and_eq_true, decide_eq_true_eq]; exact h

theorem canonOp_code (o : Opc) : canonOp (.code o) = true := rfl

theorem numEncode_nat_length_pos {n : Nat} (h : n ≠ 0) : 1 ≤ (numEncode (n : Int)).length := by
  rw [numEncode_pos h, leBytes_succ h]
  split
  · rename_i he; simp at he
  · split <;> simp

theorem canonOp_pushInt (n : Nat) : canonOp (pushInt n) = true := by
  unfold pushInt
  split
  · rename_i h; simp [canonOp, h]
  · rename_i h
    apply canonOp_push
    have h1 := numEncode_nat_length_pos (n := n) (by omega)
    have h2 := Bridge.numEncode_length (Int.ofNat n)
    exact ⟨h1, by omega⟩

theorem all_canon_dropLast (s : List Op) (h : s.all canonOp = true) :
    s.dropLast.all canonOp = true := by
  rw [List.all_eq_true] at h ⊢
  intro o ho; exact h o (List.dropLast_subset s ho)

theorem all_canon_pushVerify (s : List Op) (h : s.all canonOp = true) :
    (pushVerify s).all canonOp = true := by
  have hd := all_canon_dropLast s h
  unfold pushVerify
  split <;> simp [List.all_append, hd, h, canonOp_code]

theorem all_canon_pushes (ke : KeyEnv) (hs : KeyEnv.Std ke) (ks : List Key) :
    (ks.map (fun pk => Op.push (ke.ser pk))).all canonOp = true := by
  rw [List.all_eq_true]
  intro o ho
  rw [List.mem_map] at ho
  obtain ⟨k, _, rfl⟩ := ho
  exact canonOp_push _ (hs.1 k)

theorem all_canon_multiA (ke : KeyEnv) (hs : KeyEnv.Std ke) (ks : List Key) :
    (encodeMultiA ke ks).all canonOp = true := by
  cases ks with
  | nil => rfl
  | cons k ks =>
    simp only [encodeMultiA, List.all_append, List.all_cons, List.all_nil, canonOp_code,
      canonOp_push _ (hs.1 k), Bool.and_true, Bool.true_and]
    rw [List.all_flatMap, List.all_eq_true]
    intro k' _
    simp only [List.all_cons, List.all_nil, canonOp_code, canonOp_push _ (hs.1 k'), Bool.and_true]

set_option linter.unusedSimpArgs false

mutual
/-- every encoding consists of canonical elements -/
theorem encode_canon (ke : KeyEnv) (ctx : Ctx) (hs : KeyEnv.Std ke) :
    (ms : Ms) → (encode ke ctx ms).all canonOp = true
  | .pkK k => by
    simp only [encode, List.all_cons, List.all_nil, canonOp_push _ (hs.1 k), Bool.and_true]
  | .pkH k => by
    simp only [encode, List.all_cons, List.all_nil, canonOp_code, canonOp_push _ (hs.2.1 k),
      Bool.and_true]
  | .rawPkH h => by
    simp only [encode, List.all_cons, List.all_nil, canonOp_code, canonOp_push _ (hs.2.2.1 h),
      Bool.and_true]
  | .after n => by
    simp only [encode, List.all_cons, List.all_nil, canonOp_code, canonOp_pushInt, Bool.and_true]
  | .older n => by
    simp only [encode, List.all_cons, List.all_nil, canonOp_code, canonOp_pushInt, Bool.and_true]
  | .hash kind h => by
    simp only [encode, List.all_cons, List.all_nil, canonOp_code, canonOp_pushInt,
      canonOp_push _ (hs.2.2.2 kind h), Bool.and_true]
  | .tru => rfl
  | .fls => rfl
  | .alt x => by
    have hx := encode_canon ke ctx hs x
    simp only [encode, List.all_append, List.all_cons, List.all_nil, canonOp_code, hx, Bool.and_true]
  | .swap x => by
    have hx := encode_canon ke ctx hs x
    simp only [encode, List.all_append, List.all_cons, List.all_nil, canonOp_code, hx, Bool.and_true]
  | .check x => by
    have hx := encode_canon ke ctx hs x
    simp only [encode, List.all_append, List.all_cons, List.all_nil, canonOp_code, hx, Bool.and_true]
  | .dupIf x => by
    have hx := encode_canon ke ctx hs x
    simp only [encode, List.all_append, List.all_cons, List.all_nil, canonOp_code, hx, Bool.and_true]
  | .verify x => by
    have hx := encode_canon ke ctx hs x
    rw [encode]; exact all_canon_pushVerify _ hx
  | .nonZero x => by
    have hx := encode_canon ke ctx hs x
    simp only [encode, List.all_append, List.all_cons, List.all_nil, canonOp_code, hx, Bool.and_true]
  | .zeroNotEqual x => by
    have hx := encode_canon ke ctx hs x
    simp only [encode, List.all_append, List.all_cons, List.all_nil, canonOp_code, hx, Bool.and_true]
  | .andV l r => by
    have hl := encode_canon ke ctx hs l
    have hr := encode_canon ke ctx hs r
    simp only [encode, List.all_append, List.all_cons, List.all_nil, canonOp_code, hl, hr,
      Bool.and_true]
  | .andB l r => by
    have hl := encode_canon ke ctx hs l
    have hr := encode_canon ke ctx hs r
    simp only [encode, List.all_append, List.all_cons, List.all_nil, canonOp_code, hl, hr,
      Bool.and_true]
  | .andOr a b z => by
    have ha := encode_canon ke ctx hs a
    have hb := encode_canon ke ctx hs b
    have hz := encode_canon ke ctx hs z
    simp only [encode, List.all_append, List.all_cons, List.all_nil, canonOp_code, ha, hb, hz,
      Bool.and_true]
  | .orB l r => by
    have hl := encode_canon ke ctx hs l
    have hr := encode_canon ke ctx hs r
    simp only [encode, List.all_append, List.all_cons, List.all_nil, canonOp_code, hl, hr,
      Bool.and_true]
  | .orD l r => by
    have hl := encode_canon ke ctx hs l
    have hr := encode_canon ke ctx hs r
    simp only [encode, List.all_append, List.all_cons, List.all_nil, canonOp_code, hl, hr,
      Bool.and_true]
  | .orC l r => by
    have hl := encode_canon ke ctx hs l
    have hr := encode_canon ke ctx hs r
    simp only [encode, List.all_append, List.all_cons, List.all_nil, canonOp_code, hl, hr,
      Bool.and_true]
  | .orI l r => by
    have hl := encode_canon ke ctx hs l
    have hr := encode_canon ke ctx hs r
    simp only [encode, List.all_append, List.all_cons, List.all_nil, canonOp_code, hl, hr,
      Bool.and_true]
  | .thresh k xs => by
    have hxs := encodeThresh_canon ke ctx hs true xs
    simp only [encode, List.all_append, List.all_cons, List.all_nil, canonOp_code, canonOp_pushInt,
      hxs, Bool.and_true]
  | .multi k ks => by
    simp only [encode, List.all_append, List.all_cons, List.all_nil, canonOp_code, canonOp_pushInt,
      all_canon_pushes ke hs, Bool.and_true]
  | .sortedMulti k ks => by
    simp only [encode, List.all_append, List.all_cons, List.all_nil, canonOp_code, canonOp_pushInt,
      all_canon_pushes ke hs, Bool.and_true]
  | .multiA k ks => by
    simp only [encode, List.all_append, List.all_cons, List.all_nil, canonOp_code, canonOp_pushInt,
      all_canon_multiA ke hs, Bool.and_true]
  | .sortedMultiA k ks => by
    simp only [encode, List.all_append, List.all_cons, List.all_nil, canonOp_code, canonOp_pushInt,
      all_canon_multiA ke hs, Bool.and_true]
theorem encodeThresh_canon (ke : KeyEnv) (ctx : Ctx) (hs : KeyEnv.Std ke) (first : Bool) :
    (xs : MsList) → (encodeThresh ke ctx first xs).all canonOp = true
  | .nil => rfl
  | .cons x xs => by
    have hx := encode_canon ke ctx hs x
    have hxs := encodeThresh_canon ke ctx hs false xs
    cases first <;>
      simp only [encodeThresh, List.all_append, List.all_cons, List.all_nil, canonOp_code, hx, hxs,
        Bool.and_true, if_true, Bool.false_eq_true, if_false]
end

theorem parse_encodeBytes (ke : KeyEnv) (ctx : Ctx) (hs : KeyEnv.Std ke) (ms : Ms) :
    parse (encodeBytes ke ctx ms) = some (encode ke ctx ms) :=
  parse_serialize _ (encode_canon ke ctx hs ms)

/-! ### scriptSigs built by `util::witness_to_scriptsig` -/

/-- stack elements as the satisfier produces them: empty, `[1]`, or longer than 4 bytes
(signatures, keys, preimages, scripts) and at most 520 bytes -/
def ssItemOk (x : Bytes) : Prop := x = [] ∨ x = [1] ∨ (4 < x.length ∧ x.length ≤ 520)

theorem w2ssItem_long (x : Bytes) (h : 4 < x.length) : Plan.w2ssItem x = Plan.pushSlice x := by
  simp [Plan.w2ssItem, Plan.readScriptInt, numDecode, h]

theorem w2ssItem_nil : Plan.w2ssItem [] = [0x00] := by decide

theorem w2ssItem_one : Plan.w2ssItem [1] = [0x51] := by decide

/-- the script element `witness_to_scriptsig` emits for an item -/
def ssOp (x : Bytes) : Op :=
  if x = [] then .small 0 else if x = [1] then .small 1 else .push x

theorem ssOp_long (x : Bytes) (h : 4 < x.length) : ssOp x = .push x := by
  have h1 : x ≠ [] := by intro e; rw [e] at h; simp at h
  have h2 : x ≠ [1] := by intro e; rw [e] at h; simp at h
  simp [ssOp, h1, h2]

theorem w2ssItem_ssOp (x : Bytes) (h : ssItemOk x) : Plan.w2ssItem x = (ssOp x).bytes := by
  rcases h with rfl | rfl | ⟨h, _⟩
  · exact w2ssItem_nil
  · exact w2ssItem_one
  · rw [w2ssItem_long x h, ssOp_long x h]; rfl

theorem goodOp_ssOp (x : Bytes) (h : ssItemOk x) : goodOp (ssOp x) = true := by
  rcases h with rfl | rfl | ⟨h, h'⟩
  · rfl
  · rfl
  · rw [ssOp_long x h]
    simp only [goodOp, Bool.and_eq_true, decide_eq_true_eq]; omega

theorem pushed_ssOp (x : Bytes) (h : ssItemOk x) : (ssOp x).pushed? = some x := by
  rcases h with rfl | rfl | ⟨h, _⟩
  · rfl
  · rfl
  · rw [ssOp_long x h]; rfl

theorem pushMinimal_long (bs : Bytes) (h : 2 ≤ bs.length) : pushMinimal bs true = true := by
  match bs, h with
  | _ :: _ :: _, _ => rfl

theorem ssOp_shape (x : Bytes) (h : ssItemOk x) :
    (∃ n, ssOp x = .small n) ∨ (∃ bs, ssOp x = .push bs ∧ pushMinimal bs true = true) := by
  rcases h with rfl | rfl | ⟨h, _⟩
  · exact Or.inl ⟨0, rfl⟩
  · exact Or.inl ⟨1, rfl⟩
  · exact Or.inr ⟨x, ssOp_long x h, pushMinimal_long x (by omega)⟩

theorem w2ss_serialize (items : List Bytes) (h : ∀ x ∈ items, ssItemOk x) :
    Plan.witnessToScriptSig items = serialize (items.map ssOp) := by
  induction items with
  | nil => rfl
  | cons x xs ih =>
    have hx := h x (List.mem_cons_self ..)
    have hxs : ∀ y ∈ xs, ssItemOk y := fun y hy => h y (List.mem_cons_of_mem _ hy)
    rw [List.map_cons, serialize_cons, ← ih hxs, ← w2ssItem_ssOp x hx]
    simp [Plan.witnessToScriptSig]

/-- match-free form of `parseFlagged_w2ss` -/
theorem parseFlagged_w2ss' (items : List Bytes) (h : ∀ x ∈ items, ssItemOk x) :
    ∃ l, parseFlagged (Plan.witnessToScriptSig items) = some l ∧
      (∀ p ∈ l, (∃ n, p.1 = .small n) ∨ (∃ bs, p.1 = .push bs ∧ pushMinimal bs p.2 = true)) ∧
      (l.map (·.1)).filterMap Op.pushed? = items := by
  refine ⟨(items.map ssOp).map (fun o => (o, true)), ?_, ?_, ?_⟩
  · rw [w2ss_serialize items h]
    apply parseFlagged_serialize_good
    rw [List.all_map, List.all_eq_true]
    intro x hx; exact goodOp_ssOp x (h x hx)
  · intro p hp
    rw [List.map_map, List.mem_map] at hp
    obtain ⟨x, hx, rfl⟩ := hp
    exact ssOp_shape x (h x hx)
  · have e : ((items.map ssOp).map (fun o => (o, true))).map (·.1) = items.map ssOp := by
      simp [Function.comp_def]
    rw [e]
    clear e
    induction items with
    | nil => rfl
    | cons x xs ih =>
      have hx := h x (List.mem_cons_self ..)
      have hxs : ∀ y ∈ xs, ssItemOk y := fun y hy => h y (List.mem_cons_of_mem _ hy)
      rw [List.map_cons, List.filterMap_cons, pushed_ssOp x hx, ih hxs]

/-- the scriptSig `witness_to_scriptsig` builds parses to push-only elements, every push minimal,
and evaluating it leaves exactly the items (last item on top) -/
theorem parseFlagged_w2ss (items : List Bytes) (h : ∀ x ∈ items, ssItemOk x) :
    ∃ l, parseFlagged (Plan.witnessToScriptSig items) = some l ∧
      Spend.isPushOnly (l.map (·.1)) = true ∧
      l.any (fun p => match p.1 with | .push bs => !pushMinimal bs p.2 | _ => false) = false ∧
      Spend.pushedStack (l.map (·.1)) = items.reverse := by
  obtain ⟨l, h1, h2, h3⟩ := parseFlagged_w2ss' items h
  refine ⟨l, h1, ?_, ?_, ?_⟩
  · unfold Spend.isPushOnly
    rw [List.all_eq_true]
    intro o ho
    rw [List.mem_map] at ho
    obtain ⟨p, hp, rfl⟩ := ho
    rcases h2 p hp with ⟨n, hn⟩ | ⟨bs, hbs, _⟩
    · rw [hn]
    · rw [hbs]
  · rw [List.any_eq_false]
    intro p hp
    rcases h2 p hp with ⟨n, hn⟩ | ⟨bs, hbs, hm⟩
    · rw [hn]; simp
    · rw [hbs]; simp [hm]
  · unfold Spend.pushedStack
    rw [h3]

end MsVerif.SatSpec

/-
C10: two engines fed two strings that differ in at most two characters, in lock-step.
`One` = exactly one differing character so far (its error pattern known symbolically),
`Two` = two differing characters so far (the engines can never meet again — by `Sep`, or by the
two-character table `pair_table` once the second group's class symbol is emitted).
-/
import MsVerif.Lemmas.ChecksumPair
import MsVerif.Lemmas.ChecksumString

namespace MsVerif.Checksum

/-! ## error patterns -/

/-- low-symbol difference `lo`, and class-symbol difference `bs` arriving `δ` symbols later -/
def pat (δ lo bs : Nat) : W := (BitVec.ofNat 40 lo <<< (5 * δ)) ^^^ BitVec.ofNat 40 bs

structure PatOk (δ lo bs : Nat) : Prop where
  d1 : 1 ≤ δ
  d3 : δ ≤ 3
  lo32 : lo < 32
  bs32 : bs < 32
  ne : lo ≠ 0 ∨ bs ≠ 0

theorem L_shift : ∀ lo, lo < 32 → ∀ d, d < 7 →
    L (BitVec.ofNat 40 lo <<< (5 * d)) = BitVec.ofNat 40 lo <<< (5 * (d + 1)) := by decide +kernel

theorem L_ofNat (lo : Nat) (hlo : lo < 32) :
    L (BitVec.ofNat 40 lo) = BitVec.ofNat 40 lo <<< (5 * 1) := by
  have := L_shift lo hlo 0 (by omega)
  simpa using this

theorem Lpow_shift (lo : Nat) (hlo : lo < 32) (k d : Nat) (h : d + k ≤ 7) :
    Lpow k (BitVec.ofNat 40 lo <<< (5 * d)) = BitVec.ofNat 40 lo <<< (5 * (d + k)) := by
  induction k with
  | zero => rfl
  | succ k ih =>
    show L (Lpow k _) = _
    rw [ih (by omega), L_shift lo hlo (d + k) (by omega)]
    rfl

theorem Lpow_ofNat (lo : Nat) (hlo : lo < 32) (k : Nat) (h : k ≤ 7) :
    Lpow k (BitVec.ofNat 40 lo) = BitVec.ofNat 40 lo <<< (5 * k) := by
  have := Lpow_shift lo hlo k 0 (by omega)
  simpa using this

theorem pat_eq (δ lo bs : Nat) (hlo : lo < 32) (hδ : δ ≤ 7) :
    pat δ lo bs = Lpow δ (BitVec.ofNat 40 lo) ^^^ BitVec.ofNat 40 bs := by
  unfold pat; rw [Lpow_ofNat lo hlo δ hδ]

theorem pat_ne_zero' : ∀ δ, δ < 4 → ∀ lo, lo < 32 → ∀ bs, bs < 32 →
    (1 ≤ δ ∧ pat δ lo bs = 0#40) → (lo = 0 ∧ bs = 0) := by
  unfold pat; decide +kernel

theorem pat_ne_zero {δ lo bs : Nat} (h : PatOk δ lo bs) : pat δ lo bs ≠ 0#40 := by
  intro e
  have := pat_ne_zero' δ (by have := h.d3; omega) lo h.lo32 bs h.bs32 ⟨h.d1, e⟩
  rcases h.ne with h1 | h1
  · exact h1 this.1
  · exact h1 this.2

/-- **no clash**: a pattern moved `g` symbols on never equals another pattern -/
theorem no_clash {δ1 a1 b1 δ2 a2 b2 g : Nat} (h1 : PatOk δ1 a1 b1) (hδ2 : 1 ≤ δ2 ∧ δ2 ≤ 3)
    (ha2 : a2 < 32) (hb2 : b2 < 32) (hg1 : 1 ≤ g) (hg : g ≤ 1040) (hlt : δ2 < g) :
    Lpow g (pat δ1 a1 b1) ≠ pat δ2 a2 b2 := by
  intro e
  rw [pat_eq δ1 a1 b1 h1.lo32 (by have := h1.d3; omega), Lpow_xor, ← Lpow_add] at e
  have := pair_table hg1 hg ⟨h1.d1, h1.d3⟩ hδ2 hlt h1.lo32 h1.bs32 ha2 hb2 e
  rcases h1.ne with h | h
  · exact h this.1
  · exact h this.2

/-! ## symbol differences -/

theorem xor_inputFe2 (ra rb : W) (e f : Nat) (he : e < 32) (hf : f < 32) :
    inputFe ra e ^^^ inputFe rb f = L (ra ^^^ rb) ^^^ BitVec.ofNat 40 (e ^^^ f) := by
  rw [inputFe_eq ra e he, inputFe_eq rb f hf, L_xor, xor4, BitVec.ofNat_xor]

theorem xor_lt32 {e f : Nat} (he : e < 32) (hf : f < 32) : e ^^^ f < 32 :=
  Nat.xor_lt_two_pow (n := 5) he hf

theorem xor_ne_zero {e f : Nat} (h : e ≠ f) : e ^^^ f ≠ 0 := by
  intro hz; apply h
  have := congrArg (· ^^^ f) hz
  simpa [Nat.xor_assoc] using this

theorem xor_eq_zero_iff' {e f : Nat} : e ^^^ f = 0 ↔ e = f := by
  constructor
  · intro hz; exact Classical.byContradiction fun h => xor_ne_zero h hz
  · intro h; rw [h, Nat.xor_self]

theorem next_noemit {a : Engine} {p : Nat} (h : ¬ a.clscount + 1 = 3) :
    next a p = ⟨inputFe a.residue (p % 32), a.cls * 3 + p / 32, a.clscount + 1⟩ := by
  unfold next; simp [h]

theorem next_emit {a : Engine} {p : Nat} (h : a.clscount + 1 = 3) :
    next a p = ⟨inputFe (inputFe a.residue (p % 32)) (a.cls * 3 + p / 32), 0, 0⟩ := by
  unfold next; simp [h]

/-! ## twins: identical class accumulators, residues differ by `δ` -/

structure Tw (a b : Engine) (δ : W) : Prop where
  cnt : a.clscount = b.clscount
  cls : a.cls = b.cls
  wa : WF a
  wb : WF b
  res : a.residue ^^^ b.residue = δ

def stepSyms (cnt : Nat) : Nat := if cnt + 1 = 3 then 2 else 1

theorem Tw_next {a b : Engine} {δ : W} (h : Tw a b δ) {pos : Nat} (hp : pos < 95) :
    Tw (next a pos) (next b pos) (Lpow (stepSyms a.clscount) δ) := by
  have hlo : pos % 32 < 32 := Nat.mod_lt _ (by decide)
  have ca := cls_bound27 h.wa hp
  have hx := xor_inputFe a.residue b.residue (pos % 32) hlo
  rw [h.res] at hx
  refine ⟨?_, ?_, WF_next h.wa hp, WF_next h.wb hp, ?_⟩
  · unfold next; rw [h.cnt]; by_cases h3 : b.clscount + 1 = 3 <;> simp [h3]
  · unfold next; rw [h.cnt, h.cls]; by_cases h3 : b.clscount + 1 = 3 <;> simp [h3]
  · unfold next stepSyms
    rw [← h.cnt, ← h.cls]
    by_cases h3 : a.clscount + 1 = 3
    · simp only [h3, if_true]
      rw [xor_inputFe _ _ _ (by omega), hx]; rfl
    · simp only [h3, if_false]; rw [hx]; rfl

theorem next_clscount (a : Engine) (pos : Nat) :
    (next a pos).clscount = if a.clscount + 1 = 3 then 0 else a.clscount + 1 := by
  unfold next; by_cases h3 : a.clscount + 1 = 3 <;> simp [h3]

/-! ## a differing character whose class symbol is still pending -/

/-- `Z` = residue difference before the differing character, `lo` its low-symbol difference,
`d` = number of symbols consumed since -/
structure PendG (a b : Engine) (Z : W) (lo d : Nat) : Prop where
  cnt : a.clscount = b.clscount
  wa : WF a
  wb : WF b
  pos : d + 1 ≤ a.clscount
  res : a.residue ^^^ b.residue = Lpow (d + 1) Z ^^^ (BitVec.ofNat 40 lo <<< (5 * d))
  lo32 : lo < 32
  ne : lo ≠ 0 ∨ a.cls ≠ b.cls

/-- the first/second differing character arrives on twins -/
theorem diverge {a b : Engine} {Z : W} (h : Tw a b Z) {p q : Nat} (hp : p < 95) (hq : q < 95)
    (hne : p ≠ q) :
    (a.clscount + 1 = 3 ∧ ∃ lo bs, PatOk 1 lo bs ∧
        Tw (next a p) (next b q) (Lpow 2 Z ^^^ pat 1 lo bs)) ∨
    (a.clscount + 1 ≠ 3 ∧ ∃ lo, PendG (next a p) (next b q) Z lo 0) := by
  have hlo : p % 32 < 32 := Nat.mod_lt _ (by decide)
  have hlo' : q % 32 < 32 := Nat.mod_lt _ (by decide)
  have ca := cls_bound27 h.wa hp
  have cb := cls_bound27 h.wb hq
  have hx := xor_inputFe2 a.residue b.residue _ _ hlo hlo'
  rw [h.res] at hx
  by_cases h3 : a.clscount + 1 = 3
  · left
    have h3b : b.clscount + 1 = 3 := by rw [← h.cnt]; exact h3
    refine ⟨h3, p % 32 ^^^ q % 32, (a.cls * 3 + p / 32) ^^^ (b.cls * 3 + q / 32), ?_, ?_⟩
    · refine ⟨by omega, by omega, xor_lt32 hlo hlo', xor_lt32 (by omega) (by omega), ?_⟩
      by_cases hl : p % 32 = q % 32
      · right; apply xor_ne_zero; rw [h.cls]; omega
      · left; exact xor_ne_zero hl
    · refine ⟨?_, ?_, WF_next h.wa hp, WF_next h.wb hq, ?_⟩
      · rw [next_emit h3, next_emit h3b]
      · rw [next_emit h3, next_emit h3b]
      · rw [next_emit h3, next_emit h3b]
        show inputFe _ _ ^^^ inputFe _ _ = _
        rw [xor_inputFe2 _ _ _ _ (by omega) (by omega), hx, L_xor]
        unfold pat
        rw [L_ofNat _ (xor_lt32 hlo hlo'), BitVec.xor_assoc]
        rfl
  · right
    have h3b : ¬ b.clscount + 1 = 3 := by rw [← h.cnt]; exact h3
    refine ⟨h3, p % 32 ^^^ q % 32, ?_⟩
    refine ⟨?_, WF_next h.wa hp, WF_next h.wb hq, ?_, ?_, xor_lt32 hlo hlo', ?_⟩
    · rw [next_noemit h3, next_noemit h3b]; show a.clscount + 1 = b.clscount + 1; rw [h.cnt]
    · rw [next_noemit h3]; show 0 + 1 ≤ a.clscount + 1; omega
    · rw [next_noemit h3, next_noemit h3b]
      show inputFe _ _ ^^^ inputFe _ _ = _
      rw [hx]; simp [Lpow]
    · rw [next_noemit h3, next_noemit h3b]
      show _ ∨ a.cls * 3 + p / 32 ≠ b.cls * 3 + q / 32
      by_cases hl : p % 32 = q % 32
      · right; rw [h.cls]; omega
      · left; exact xor_ne_zero hl

/-- one more common character after a pending differing one -/
theorem pend_next {a b : Engine} {Z : W} {lo d : Nat} (h : PendG a b Z lo d) {r : Nat}
    (hr : r < 95) :
    (a.clscount + 1 = 3 ∧ ∃ bs, PatOk (d + 2) lo bs ∧
        Tw (next a r) (next b r) (Lpow (d + 3) Z ^^^ pat (d + 2) lo bs)) ∨
    (a.clscount + 1 ≠ 3 ∧ PendG (next a r) (next b r) Z lo (d + 1)) := by
  have hlo : r % 32 < 32 := Nat.mod_lt _ (by decide)
  have ca := cls_bound27 h.wa hr
  have cb := cls_bound27 h.wb hr
  have hcnt : a.clscount < 3 := h.wa.1
  have hpos := h.pos
  have hx := xor_inputFe a.residue b.residue _ hlo
  rw [h.res, L_xor, L_shift lo h.lo32 d (by omega)] at hx
  have hx' : inputFe a.residue (r % 32) ^^^ inputFe b.residue (r % 32)
      = Lpow (d + 2) Z ^^^ (BitVec.ofNat 40 lo <<< (5 * (d + 1))) := hx
  by_cases h3 : a.clscount + 1 = 3
  · left
    have h3b : b.clscount + 1 = 3 := by rw [← h.cnt]; exact h3
    refine ⟨h3, (a.cls * 3 + r / 32) ^^^ (b.cls * 3 + r / 32), ?_, ?_⟩
    · refine ⟨by omega, by omega, h.lo32, xor_lt32 (by omega) (by omega), ?_⟩
      rcases h.ne with hl | hc
      · left; exact hl
      · right; apply xor_ne_zero; omega
    · refine ⟨?_, ?_, WF_next h.wa hr, WF_next h.wb hr, ?_⟩
      · rw [next_emit h3, next_emit h3b]
      · rw [next_emit h3, next_emit h3b]
      · rw [next_emit h3, next_emit h3b]
        show inputFe _ _ ^^^ inputFe _ _ = _
        rw [xor_inputFe2 _ _ _ _ (by omega) (by omega), hx', L_xor,
          L_shift lo h.lo32 (d + 1) (by omega)]
        unfold pat
        rw [BitVec.xor_assoc]
        rfl
  · right
    have h3b : ¬ b.clscount + 1 = 3 := by rw [← h.cnt]; exact h3
    refine ⟨h3, ?_, WF_next h.wa hr, WF_next h.wb hr, ?_, ?_, h.lo32, ?_⟩
    · rw [next_noemit h3, next_noemit h3b]; show a.clscount + 1 = b.clscount + 1; rw [h.cnt]
    · rw [next_noemit h3]; show d + 1 + 1 ≤ a.clscount + 1; omega
    · rw [next_noemit h3, next_noemit h3b]; exact hx'
    · rw [next_noemit h3, next_noemit h3b]
      show _ ∨ a.cls * 3 + r / 32 ≠ b.cls * 3 + r / 32
      rcases h.ne with hl | hc
      · left; exact hl
      · right; omega

/-! ## finalisation -/

theorem tail8_xor (x y : W) : tail8 x ^^^ tail8 y = Lpow 8 (x ^^^ y) := by
  unfold tail8
  simp only [List.foldl]
  have h0 : (0 : Nat) < 32 := by decide
  have h1 : (1 : Nat) < 32 := by decide
  rw [xor_inputFe _ _ _ h1, xor_inputFe _ _ _ h0, xor_inputFe _ _ _ h0, xor_inputFe _ _ _ h0,
    xor_inputFe _ _ _ h0, xor_inputFe _ _ _ h0, xor_inputFe _ _ _ h0, xor_inputFe _ _ _ h0]
  rfl

theorem tw_final {a b : Engine} {T : W} (h : Tw a b T) :
    ∃ ra rb, a.finalResidue = some ra ∧ b.finalResidue = some rb ∧
      ra ^^^ rb = Lpow (8 + (if a.clscount > 0 then 1 else 0)) T := by
  have la := WF_cls_lt h.wa
  have lb := WF_cls_lt h.wb
  unfold Engine.finalResidue
  by_cases h0 : a.clscount > 0
  · have h0b : b.clscount > 0 := by rw [← h.cnt]; exact h0
    simp only [h0, h0b, if_true, inputFeChecked, la, lb]
    refine ⟨_, _, rfl, rfl, ?_⟩
    show tail8 _ ^^^ tail8 _ = _
    rw [tail8_xor, ← h.cls, xor_inputFe _ _ _ la, h.res]
    rfl
  · have h0b : ¬ b.clscount > 0 := by rw [← h.cnt]; exact h0
    simp only [h0, h0b, if_false]
    refine ⟨_, _, rfl, rfl, ?_⟩
    show tail8 _ ^^^ tail8 _ = _
    rw [tail8_xor, h.res]

theorem pend_final {a b : Engine} {Z : W} {lo d : Nat} (h : PendG a b Z lo d) :
    ∃ ra rb bs, a.finalResidue = some ra ∧ b.finalResidue = some rb ∧ PatOk (d + 1) lo bs ∧
      ra ^^^ rb = Lpow 8 (Lpow (d + 2) Z ^^^ pat (d + 1) lo bs) := by
  have la := WF_cls_lt h.wa
  have lb := WF_cls_lt h.wb
  have hcnt : a.clscount < 3 := h.wa.1
  have hpos := h.pos
  have h0 : a.clscount > 0 := by omega
  have h0b : b.clscount > 0 := by rw [← h.cnt]; exact h0
  unfold Engine.finalResidue
  simp only [h0, h0b, if_true, inputFeChecked, la, lb]
  refine ⟨_, _, a.cls ^^^ b.cls, rfl, rfl, ?_, ?_⟩
  · refine ⟨by omega, by omega, h.lo32, xor_lt32 la lb, ?_⟩
    rcases h.ne with hl | hc
    · left; exact hl
    · right; exact xor_ne_zero hc
  · show tail8 _ ^^^ tail8 _ = _
    rw [tail8_xor, xor_inputFe2 _ _ _ _ la lb, h.res, L_xor, L_shift lo h.lo32 d (by omega)]
    unfold pat
    rw [BitVec.xor_assoc]
    rfl

/-! ## the two phases -/

/-- exactly one differing character so far; `K` bounds the number of characters consumed since
its class symbol was emitted -/
inductive One (K : Nat) (a b : Engine) : Prop
  | pend (lo d : Nat) (h : PendG a b 0#40 lo d)
  | res (n δ lo bs : Nat) (h : Tw a b (Lpow (n + n / 3) (pat δ lo bs))) (hp : PatOk δ lo bs)
      (hc : a.clscount = n % 3) (hn : n ≤ K)

/-- two differing characters so far -/
inductive Two (a b : Engine) : Prop
  | done (h : Sep a b)
  | pend (m δ lo bs lo2 d : Nat) (h : PendG a b (Lpow m (pat δ lo bs)) lo2 d) (hp : PatOk δ lo bs)
      (hm : m + 4 ≤ 1040)

theorem Sep_of_Tw_ne {a b : Engine} {T : W} (h : Tw a b T) (hT : T ≠ 0#40) : Sep a b := by
  refine ⟨h.cnt, h.wa, h.wb, Or.inl ⟨h.cls, ?_⟩⟩
  intro e
  apply hT
  rw [← h.res, e, BitVec.xor_self]

theorem Tw_refl {en : Engine} (w : WF en) : Tw en en 0#40 :=
  ⟨rfl, rfl, w, w, BitVec.xor_self⟩

theorem zero_diff {en : Engine} (w : WF en) {p q : Nat} (hp : p < 95) (hq : q < 95) (hne : p ≠ q) :
    One 0 (next en p) (next en q) := by
  rcases diverge (Tw_refl w) hp hq hne with ⟨h3, lo, bs, hpat, htw⟩ | ⟨_, lo, hpend⟩
  · refine .res 0 1 lo bs ?_ hpat ?_ (Nat.le_refl _)
    · rw [Lpow_zero', BitVec.zero_xor] at htw; exact htw
    · rw [next_clscount]; simp [h3]
  · exact .pend lo 0 hpend

theorem one_same {K : Nat} {a b : Engine} (h : One K a b) {r : Nat} (hr : r < 95) :
    One (K + 1) (next a r) (next b r) := by
  cases h with
  | pend lo d h =>
    rcases pend_next h hr with ⟨h3, bs, hpat, htw⟩ | ⟨_, hpend⟩
    · refine .res 0 (d + 2) lo bs ?_ hpat ?_ (Nat.zero_le _)
      · rw [Lpow_zero', BitVec.zero_xor] at htw; exact htw
      · rw [next_clscount]; simp [h3]
    · exact .pend lo (d + 1) hpend
  | res n δ lo bs h hp hc hn =>
    have htw := Tw_next h hr
    rw [← Lpow_add] at htw
    have hlt : n % 3 < 3 := Nat.mod_lt _ (by decide)
    refine .res (n + 1) δ lo bs ?_ hp ?_ (by omega)
    · have e : stepSyms a.clscount + (n + n / 3) = (n + 1) + (n + 1) / 3 := by
        unfold stepSyms; rw [hc]
        by_cases h3 : n % 3 + 1 = 3
        · simp only [h3, if_true]; omega
        · simp only [h3, if_false]; omega
      rw [e] at htw; exact htw
    · rw [next_clscount, hc]
      by_cases h3 : n % 3 + 1 = 3
      · simp only [h3, if_true]; omega
      · simp only [h3, if_false]; omega

theorem pat_lt : ∀ δ, δ < 4 → ∀ lo, lo < 32 → ∀ bs, bs < 32 →
    (pat δ lo bs).toNat < 2 ^ (5 * (δ + 1)) := by
  unfold pat; decide +kernel

/-- the second differing character arrives in the same group as the first -/
theorem pend_diff_sep {a b : Engine} {lo d : Nat} (h : PendG a b 0#40 lo d) {p q : Nat}
    (hp : p < 95) (hq : q < 95) : Sep (next a p) (next b q) := by
  have hlo : p % 32 < 32 := Nat.mod_lt _ (by decide)
  have hlo' : q % 32 < 32 := Nat.mod_lt _ (by decide)
  have ca := cls_bound27 h.wa hp
  have cb := cls_bound27 h.wb hq
  have hcnt : a.clscount < 3 := h.wa.1
  have hpos := h.pos
  have hl2 := xor_lt32 hlo hlo'
  have hx := xor_inputFe2 a.residue b.residue _ _ hlo hlo'
  rw [h.res, Lpow_zero', BitVec.zero_xor, L_shift lo h.lo32 d (by omega)] at hx
  have hx' : inputFe a.residue (p % 32) ^^^ inputFe b.residue (q % 32)
      = pat (d + 1) lo (p % 32 ^^^ q % 32) := hx
  have hsmall := pat_lt (d + 1) (by omega) lo h.lo32 _ hl2
  -- the residues differ whenever the class accumulators agree
  have hres : a.cls * 3 + p / 32 = b.cls * 3 + q / 32 →
      inputFe a.residue (p % 32) ≠ inputFe b.residue (q % 32) := by
    intro hc e
    have hz : pat (d + 1) lo (p % 32 ^^^ q % 32) = 0#40 := by rw [← hx', e, BitVec.xor_self]
    have := pat_ne_zero' (d + 1) (by omega) lo h.lo32 _ hl2 ⟨by omega, hz⟩
    have h2 : p % 32 = q % 32 := xor_eq_zero_iff'.mp this.2
    rcases h.ne with hl | hcl
    · exact hl this.1
    · omega
  refine ⟨?_, WF_next h.wa hp, WF_next h.wb hq, ?_⟩
  · rw [next_clscount, next_clscount, h.cnt]
  · by_cases h3 : a.clscount + 1 = 3
    · have h3b : b.clscount + 1 = 3 := by rw [← h.cnt]; exact h3
      left
      rw [next_emit h3, next_emit h3b]
      refine ⟨rfl, ?_⟩
      show inputFe _ _ ≠ inputFe _ _
      by_cases hc : a.cls * 3 + p / 32 = b.cls * 3 + q / 32
      · rw [hc]; exact fun e => hres hc (inputFe_inj (by omega) e)
      · apply emit_ne _ (by omega) (by omega) hc
        rw [hx']
        have : 2 ^ (5 * (d + 1 + 1)) ≤ 2 ^ 35 := Nat.pow_le_pow_right (by decide) (by omega)
        omega
    · have h3b : ¬ b.clscount + 1 = 3 := by rw [← h.cnt]; exact h3
      rw [next_noemit h3, next_noemit h3b]
      by_cases hc : a.cls * 3 + p / 32 = b.cls * 3 + q / 32
      · left; exact ⟨hc, hres hc⟩
      · right
        refine ⟨hc, ?_⟩
        show (inputFe _ _ ^^^ inputFe _ _).toNat < 2 ^ (5 * (a.clscount + 1))
        rw [hx']
        have : 2 ^ (5 * (d + 1 + 1)) ≤ 2 ^ (5 * (a.clscount + 1)) :=
          Nat.pow_le_pow_right (by decide) (by omega)
        omega

theorem one_diff {K : Nat} {a b : Engine} (h : One K a b) {p q : Nat} (hp : p < 95) (hq : q < 95)
    (hne : p ≠ q) (hK : K + K / 3 + 4 ≤ 1040) : Two (next a p) (next b q) := by
  cases h with
  | pend lo d h => exact .done (pend_diff_sep h hp hq)
  | res n δ lo bs h hpat hc hn =>
    have hm : n + n / 3 + 4 ≤ 1040 := by omega
    rcases diverge h hp hq hne with ⟨_, lo2, bs2, hpat2, htw⟩ | ⟨_, lo2, hpend⟩
    · apply Two.done
      apply Sep_of_Tw_ne htw
      intro e
      rw [← Lpow_add] at e
      have e' := BitVec.xor_eq_zero_iff.mp e
      exact no_clash hpat ⟨by omega, by omega⟩ hpat2.lo32 hpat2.bs32 (by omega) (by omega) (by omega) e'
    · exact .pend (n + n / 3) δ lo bs lo2 0 hpend hpat hm

theorem two_same {a b : Engine} (h : Two a b) {r : Nat} (hr : r < 95) :
    Two (next a r) (next b r) := by
  cases h with
  | done h => exact .done (Sep_next h hr)
  | pend m δ lo bs lo2 d h hpat hm =>
    have hd : d + 1 ≤ 2 := by have := h.pos; have := h.wa.1; omega
    rcases pend_next h hr with ⟨_, bs2, hpat2, htw⟩ | ⟨_, hpend⟩
    · apply Two.done
      apply Sep_of_Tw_ne htw
      intro e
      rw [← Lpow_add] at e
      have e' := BitVec.xor_eq_zero_iff.mp e
      exact no_clash hpat ⟨hpat2.d1, hpat2.d3⟩ hpat2.lo32 hpat2.bs32 (by omega) (by omega) (by omega) e'
    · exact .pend m δ lo bs lo2 (d + 1) hpend hpat hm

theorem two_final {a b : Engine} (h : Two a b) :
    ∃ ra rb, a.finalResidue = some ra ∧ b.finalResidue = some rb ∧ ra ≠ rb := by
  cases h with
  | done h => exact Sep_final h
  | pend m δ lo bs lo2 d h hpat hm =>
    have hd : d + 1 ≤ 2 := by have := h.pos; have := h.wa.1; omega
    obtain ⟨ra, rb, bs2, ha, hb, hpat2, hx⟩ := pend_final h
    refine ⟨ra, rb, ha, hb, ?_⟩
    intro e
    rw [e, BitVec.xor_self] at hx
    have hz := Lpow_eq_zero 8 hx.symm
    rw [← Lpow_add] at hz
    have e' := BitVec.xor_eq_zero_iff.mp hz
    exact no_clash hpat ⟨hpat2.d1, hpat2.d3⟩ hpat2.lo32 hpat2.bs32 (by omega) (by omega) (by omega) e'

/-- the syndrome of a single differing character, in closed form -/
theorem one_final {K : Nat} {a b : Engine} (h : One K a b) :
    ∃ ra rb M δ lo bs, a.finalResidue = some ra ∧ b.finalResidue = some rb ∧ PatOk δ lo bs ∧
      ra ^^^ rb = Lpow M (pat δ lo bs) ∧ 8 ≤ M ∧ M ≤ K + K / 3 + 9 := by
  cases h with
  | pend lo d h =>
    obtain ⟨ra, rb, bs, ha, hb, hpat, hx⟩ := pend_final h
    rw [Lpow_zero', BitVec.zero_xor] at hx
    exact ⟨ra, rb, 8, d + 1, lo, bs, ha, hb, hpat, hx, Nat.le_refl _, by omega⟩
  | res n δ lo bs h hpat hc hn =>
    obtain ⟨ra, rb, ha, hb, hx⟩ := tw_final h
    rw [← Lpow_add] at hx
    refine ⟨ra, rb, _, δ, lo, bs, ha, hb, hpat, hx, by omega, ?_⟩
    split <;> omega

end MsVerif.Checksum

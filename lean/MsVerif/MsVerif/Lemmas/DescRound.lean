/- Round trip of the descriptor wrappers (Model/DescDisplay.lean) at tree level. -/
import MsVerif.Model.DescDisplay
import MsVerif.Lemmas.DisplayPlain

namespace MsVerif.DescDisplay
open MsVerif MsVerif.Display
open MsVerif.Expr (Tree Parens)

/-- the miniscript round trip (tree level), as a lemma -/
theorem msRound (c : Codec) (m : Ms) (h : Ms.all (nodeOk c) m = true) :
    Display.fromTree c (Display.toTree c m) = .ok m := by
  unfold Display.fromTree Display.toTree
  rw [toTreeW_noCurly c m []]
  have := rtW c m [] h
  simp only [List.map_nil] at this
  rw [this]
  have hg : Ms.all c.gv m = true :=
    all_mono (nodeOk c) c.gv (fun x hx => ((nodeOk_iff c x).1 hx).2.2.1) m h
  simp [wrapAll, hg]

/-! ### the root of a printed miniscript -/

theorem rootName_core (pre : List Char) (f : Frag) (cs : List Tree) :
    rootName (core pre f cs) = joinName pre f.name := rfl

/-- the root name is `prefix:fragment`; without a prefix it is `pkh` only for `c:pk_h(K)` -/
theorem rootName_toTreeW (c : Codec) : ∀ (m : Ms) (pre : List Char),
    ∃ p f, rootName (toTreeW c pre m) = joinName (pre ++ p) f.name
      ∧ (p = [] → f = Frag.pkh → ∃ k, m = .check (.pkH k))
  | .tru, pre => ⟨[], .tru, by rw [toTreeW]; simp [rootName_core], by intro _ h; cases h⟩
  | .fls, pre => ⟨[], .fls, by rw [toTreeW]; simp [rootName_core], by intro _ h; cases h⟩
  | .pkK _, pre => ⟨[], .pk_k, by rw [toTreeW]; simp [rootName_core], by intro _ h; cases h⟩
  | .pkH _, pre => ⟨[], .pk_h, by rw [toTreeW]; simp [rootName_core], by intro _ h; cases h⟩
  | .rawPkH _, pre => ⟨[], .rawPkh, by rw [toTreeW]; simp [rootName_core], by intro _ h; cases h⟩
  | .after _, pre => ⟨[], .after, by rw [toTreeW]; simp [rootName_core], by intro _ h; cases h⟩
  | .older _, pre => ⟨[], .older, by rw [toTreeW]; simp [rootName_core], by intro _ h; cases h⟩
  | .hash kind _, pre => ⟨[], hashFrag kind, by rw [toTreeW]; simp [rootName_core],
      by intro _ h; cases kind <;> cases h⟩
  | .alt x, pre => by
    obtain ⟨p, f, h1, _⟩ := rootName_toTreeW c x (pre ++ ['a'])
    exact ⟨'a' :: p, f, by rw [toTreeW, h1]; simp, by intro h; cases h⟩
  | .swap x, pre => by
    obtain ⟨p, f, h1, _⟩ := rootName_toTreeW c x (pre ++ ['s'])
    exact ⟨'s' :: p, f, by rw [toTreeW, h1]; simp, by intro h; cases h⟩
  | .dupIf x, pre => by
    obtain ⟨p, f, h1, _⟩ := rootName_toTreeW c x (pre ++ ['d'])
    exact ⟨'d' :: p, f, by rw [toTreeW, h1]; simp, by intro h; cases h⟩
  | .verify x, pre => by
    obtain ⟨p, f, h1, _⟩ := rootName_toTreeW c x (pre ++ ['v'])
    exact ⟨'v' :: p, f, by rw [toTreeW, h1]; simp, by intro h; cases h⟩
  | .nonZero x, pre => by
    obtain ⟨p, f, h1, _⟩ := rootName_toTreeW c x (pre ++ ['j'])
    exact ⟨'j' :: p, f, by rw [toTreeW, h1]; simp, by intro h; cases h⟩
  | .zeroNotEqual x, pre => by
    obtain ⟨p, f, h1, _⟩ := rootName_toTreeW c x (pre ++ ['n'])
    exact ⟨'n' :: p, f, by rw [toTreeW, h1]; simp, by intro h; cases h⟩
  | .check x, pre => by
    rcases sugarCheck_cases c x with hnone | ⟨k, rfl⟩ | ⟨k, rfl⟩
    · obtain ⟨p, f, h1, _⟩ := rootName_toTreeW c x (pre ++ ['c'])
      exact ⟨'c' :: p, f, by rw [toTreeW, hnone]; simp only; rw [h1]; simp, by intro h; cases h⟩
    · exact ⟨[], .pk, by rw [toTreeW]; simp [sugarCheck, rootName_core], by intro _ h; cases h⟩
    · exact ⟨[], .pkh, by rw [toTreeW]; simp [sugarCheck, rootName_core], fun _ _ => ⟨k, rfl⟩⟩
  | .andV l r, pre => by
    by_cases hr : r = .tru
    · obtain ⟨p, f, h1, _⟩ := rootName_toTreeW c l (pre ++ ['t'])
      exact ⟨'t' :: p, f, by rw [toTreeW]; simp only [hr, if_true]; rw [h1]; simp, by intro h; cases h⟩
    · exact ⟨[], .and_v, by rw [toTreeW]; simp [hr, rootName_core], by intro _ h; cases h⟩
  | .andB _ _, pre => ⟨[], .and_b, by rw [toTreeW]; simp [rootName_core], by intro _ h; cases h⟩
  | .orB _ _, pre => ⟨[], .or_b, by rw [toTreeW]; simp [rootName_core], by intro _ h; cases h⟩
  | .orD _ _, pre => ⟨[], .or_d, by rw [toTreeW]; simp [rootName_core], by intro _ h; cases h⟩
  | .orC _ _, pre => ⟨[], .or_c, by rw [toTreeW]; simp [rootName_core], by intro _ h; cases h⟩
  | .orI l r, pre => by
    by_cases hr : r = .fls
    · by_cases hl : l = .fls
      · obtain ⟨p, f, h1, _⟩ := rootName_toTreeW c r (pre ++ ['u'])
        exact ⟨'u' :: p, f, by rw [toTreeW]; simp only [hr, hl, if_true]; rw [← hr, h1]; simp, by intro h; cases h⟩
      · obtain ⟨p, f, h1, _⟩ := rootName_toTreeW c l (pre ++ ['u'])
        exact ⟨'u' :: p, f, by rw [toTreeW]; simp only [hr, hl, if_true, if_false]; rw [h1]; simp, by intro h; cases h⟩
    · by_cases hl : l = .fls
      · obtain ⟨p, f, h1, _⟩ := rootName_toTreeW c r (pre ++ ['l'])
        exact ⟨'l' :: p, f, by rw [toTreeW]; simp only [hr, hl, if_true, if_false]; rw [h1]; simp, by intro h; cases h⟩
      · exact ⟨[], .or_i, by rw [toTreeW]; simp [hr, hl, rootName_core], by intro _ h; cases h⟩
  | .andOr _ _ z, pre => by
    by_cases hz : z = .fls
    · exact ⟨[], .and_n, by rw [toTreeW]; simp [hz, rootName_core], by intro _ h; cases h⟩
    · exact ⟨[], .andor, by rw [toTreeW]; simp [hz, rootName_core], by intro _ h; cases h⟩
  | .thresh _ _, pre => ⟨[], .thresh, by rw [toTreeW]; simp [rootName_core], by intro _ h; cases h⟩
  | .multi _ _, pre => ⟨[], .multi, by rw [toTreeW]; simp [rootName_core], by intro _ h; cases h⟩
  | .sortedMulti _ _, pre => ⟨[], .sortedmulti, by rw [toTreeW]; simp [rootName_core], by intro _ h; cases h⟩
  | .multiA _ _, pre => ⟨[], .multi_a, by rw [toTreeW]; simp [rootName_core], by intro _ h; cases h⟩
  | .sortedMultiA _ _, pre => ⟨[], .sortedmulti_a, by rw [toTreeW]; simp [rootName_core], by intro _ h; cases h⟩

def isWrapperName (n : List Char) : Bool := n == nPkh || n == nWpkh || n == nSh || n == nWsh || n == nTr

theorem joinName_wrapper (q : List Char) (f : Frag) (h : isWrapperName (joinName q f.name) = true) :
    q = [] ∧ f = .pkh := by
  cases q with
  | nil =>
    refine ⟨rfl, ?_⟩
    simp only [joinName, List.isEmpty_nil, if_true] at h
    revert h; cases f <;> decide
  | cons x xs =>
    exfalso
    have hc : ':' ∈ joinName (x :: xs) f.name := by simp [joinName]
    have hn : ∀ n, isWrapperName n = true → ':' ∉ n := by
      intro n hn
      simp only [isWrapperName, Bool.or_eq_true, beq_iff_eq] at hn
      rcases hn with ((((e | e) | e) | e) | e) <;> subst e <;> decide
    exact hn _ h hc

/-- a printed miniscript other than `c:pk_h(K)` does not start with a descriptor wrapper name -/
theorem toTree_not_wrapper (c : Codec) (m : Ms) (hm : ∀ k, m ≠ .check (.pkH k)) :
    isWrapperName (rootName (Display.toTree c m)) = false := by
  obtain ⟨p, f, h1, h2⟩ := rootName_toTreeW c m []
  unfold Display.toTree
  rw [h1]
  cases hw : isWrapperName (joinName ([] ++ p) f.name) with
  | false => rfl
  | true =>
    obtain ⟨hq, hf⟩ := joinName_wrapper _ f hw
    simp only [List.nil_append] at hq
    obtain ⟨k, hk⟩ := h2 hq hf
    exact absurd hk (hm k)

/-- … and never with `wsh` / `wpkh` (the dispatch inside `sh(…)`) -/
theorem toTree_not_wsh_wpkh (c : Codec) (m : Ms) :
    rootName (Display.toTree c m) ≠ nWsh ∧ rootName (Display.toTree c m) ≠ nWpkh := by
  obtain ⟨p, f, h1, _⟩ := rootName_toTreeW c m []
  unfold Display.toTree
  rw [h1]
  constructor <;> intro e
  · have := joinName_wrapper ([] ++ p) f (by rw [e]; decide)
    rw [this.1, this.2] at e; revert e; decide
  · have := joinName_wrapper ([] ++ p) f (by rw [e]; decide)
    rw [this.1, this.2] at e; revert e; decide

theorem toTree_parens (c : Codec) (m : Ms) : rootParens (Display.toTree c m) ≠ .curly := by
  have h := toTreeW_noCurly c m []
  unfold Display.toTree
  cases ht : toTreeW c [] m with
  | node nm p cs =>
    rw [ht] at h
    simp only [hasCurly, Bool.or_eq_false_iff, beq_eq_false_iff_ne] at h
    exact h.1

/-! ### the wrappers -/

@[simp] theorem rootName_node (a : List Char) (p : Parens) (cs : List Tree) : rootName (.node a p cs) = a := rfl
@[simp] theorem rootParens_node (a : List Char) (p : Parens) (cs : List Tree) : rootParens (.node a p cs) = p := rfl
@[simp] theorem children_node (a : List Char) (p : Parens) (cs : List Tree) : children (.node a p cs) = cs := rfl

/-- tap tree below depth `d`: leaves admissible and accepted by `validate(&Tap::CONSENSUS)`, inner
nodes at depth < 128 -/
def tapOk (c : DCodec) : Nat → TapT → Prop
  | _, .leaf m => Ms.all (nodeOk (c.ms .tap)) m = true ∧ c.leafOk m = true
  | d, .node l r => d < MAX_TAP_DEPTH ∧ tapOk c (d + 1) l ∧ tapOk c (d + 1) r

/-- a descriptor value the library can hold -/
def DescOk (c : DCodec) : Desc → Prop
  | .bare m => Ms.all (nodeOk (c.ms .bare)) m = true ∧ c.wrapOk (.bare m) = true ∧ ∀ k, m ≠ .check (.pkH k)
  | .pkh k => c.readKey (c.showKey k) = some k ∧ c.wrapOk (.pkh k) = true
  | .wpkh k => c.readKey (c.showKey k) = some k ∧ c.wrapOk (.wpkh k) = true
  | .sh m => Ms.all (nodeOk (c.ms .legacy)) m = true ∧ c.wrapOk (.sh m) = true
  | .shWpkh k => c.readKey (c.showKey k) = some k ∧ c.wrapOk (.wpkh k) = true
  | .shWsh m => Ms.all (nodeOk (c.ms .segwitv0)) m = true ∧ c.wrapOk (.wsh m) = true
  | .wsh m => Ms.all (nodeOk (c.ms .segwitv0)) m = true ∧ c.wrapOk (.wsh m) = true
  | .tr ik none => c.readKey (c.showKey ik) = some ik ∧ c.wrapOk (.tr ik none) = true
  | .tr ik (some t) => c.readKey (c.showKey ik) = some ik ∧ c.wrapOk (.tr ik (some t)) = true ∧ tapOk c 0 t

theorem parseTap_tapTree (c : DCodec) : ∀ (t : TapT) (d : Nat), tapOk c d t → parseTap c d (tapTree c t) = .ok t
  | .leaf m, d, h => by
    obtain ⟨hm, hl⟩ := h
    have hp := toTree_parens (c.ms .tap) m
    have hr := msRound (c.ms .tap) m hm
    rw [show tapTree c (.leaf m) = Display.toTree (c.ms .tap) m from rfl]
    cases ht : Display.toTree (c.ms .tap) m with
    | node nm p cs =>
      rw [ht] at hp hr
      simp only [rootParens_node] at hp
      have hpc : (p == Parens.curly) = false := by cases p <;> simp_all
      unfold parseTap
      simp only [hpc, Bool.false_eq_true, if_false, msIn, hr, hl, if_true]
  | .node l r, d, h => by
    obtain ⟨hd, hl, hr⟩ := h
    have h1 := parseTap_tapTree c l (d + 1) hl
    have h2 := parseTap_tapTree c r (d + 1) hr
    have hd' : ¬ d ≥ MAX_TAP_DEPTH := by omega
    simp [tapTree, parseTap, h1, h2, hd']

theorem len1 (a : Tree) : ([a] : List Tree).length = 1 := rfl

/-- the descriptor wrappers: parsing the printed tree gives back the same descriptor -/
theorem fromTree_toTree (c : DCodec) (d : Desc) (h : DescOk c d) : fromTree c (toTree c d) = .ok d := by
  cases d with
  | pkh k =>
    obtain ⟨hk, hw⟩ := h
    simp [fromTree, toTree, keyParent, leaf, leafName, hk, wrap, hw]
  | wpkh k =>
    obtain ⟨hk, hw⟩ := h
    have e : ¬ (nWpkh = nPkh) := by decide
    simp [fromTree, toTree, keyParent, leaf, leafName, hk, wrap, hw, e]
  | shWpkh k =>
    obtain ⟨hk, hw⟩ := h
    have e1 : ¬ (nSh = nPkh) := by decide
    have e2 : ¬ (nSh = nWpkh) := by decide
    have e3 : ¬ (nWpkh = nWsh) := by decide
    simp [fromTree, toTree, topLevel1, keyParent, leaf, leafName, hk, wrap, hw,
      e1, e2, e3, bind, Except.bind]
  | shWsh m =>
    obtain ⟨hm, hw⟩ := h
    have e1 : ¬ (nSh = nPkh) := by decide
    have e2 : ¬ (nSh = nWpkh) := by decide
    simp [fromTree, toTree, topLevel1, wshFromTree, msIn,
      msRound _ m hm, wrap, hw, e1, e2, bind, Except.bind]
  | wsh m =>
    obtain ⟨hm, hw⟩ := h
    have e1 : ¬ (nWsh = nPkh) := by decide
    have e2 : ¬ (nWsh = nWpkh) := by decide
    have e3 : ¬ (nWsh = nSh) := by decide
    simp [fromTree, toTree, topLevel1, wshFromTree, msIn,
      msRound _ m hm, wrap, hw, e1, e2, e3]
  | sh m =>
    obtain ⟨hm, hw⟩ := h
    have e1 : ¬ (nSh = nPkh) := by decide
    have e2 : ¬ (nSh = nWpkh) := by decide
    obtain ⟨n1, n2⟩ := toTree_not_wsh_wpkh (c.ms .legacy) m
    simp [fromTree, toTree, topLevel1, msIn, msRound _ m hm, wrap, hw,
      e1, e2, n1, n2]
  | tr ik t =>
    have e1 : ¬ (nTr = nPkh) := by decide
    have e2 : ¬ (nTr = nWpkh) := by decide
    have e3 : ¬ (nTr = nSh) := by decide
    have e4 : ¬ (nTr = nWsh) := by decide
    cases t with
    | none =>
      obtain ⟨hk, hw⟩ := h
      simp [fromTree, toTree, leaf, leafName, hk, wrap, hw, e1, e2, e3, e4]
    | some tt =>
      obtain ⟨hk, hw, ht⟩ := h
      simp [fromTree, toTree, leaf, leafName, hk, wrap, hw, e1, e2, e3, e4,
        parseTap_tapTree c tt 0 ht]
  | bare m =>
    obtain ⟨hm, hw, hne⟩ := h
    have hnw := toTree_not_wrapper (c.ms .bare) m hne
    simp only [isWrapperName, Bool.or_eq_false_iff, beq_eq_false_iff_ne] at hnw
    obtain ⟨⟨⟨⟨a1, a2⟩, a3⟩, a4⟩, a5⟩ := hnw
    simp [fromTree, toTree, a1, a2, a3, a4, a5, msIn, msRound _ m hm, wrap, hw]

/-- F15: a bare `c:pk_h(K)` prints as `pkh(K)` and is read back as the `pkh()` DESCRIPTOR -/
theorem bare_pkh_reads_as_pkh (c : DCodec) (k : Key)
    (hk : (c.ms .bare).showKey k = c.showKey k) (hr : c.readKey (c.showKey k) = some k)
    (hw : c.wrapOk (.pkh k) = true) :
    fromTree c (toTree c (.bare (.check (.pkH k)))) = .ok (.pkh k) := by
  have e : toTree c (.bare (.check (.pkH k))) = toTree c (.pkh k) := by
    simp only [toTree, Display.toTree]
    rw [toTreeW]
    simp [sugarCheck, core, joinName, Frag.name, nPkh, hk]
  rw [e]
  exact fromTree_toTree c (.pkh k) ⟨hr, hw⟩

end MsVerif.DescDisplay

/-
The two-character table of C10, in the form used by the engine proof:
`L^(g+δ₁) a₁ + L^g b₁ = a₂·x^δ₂ + b₂` has only the trivial solution for every distance
`1 ≤ g ≤ 1040`, `δ₁, δ₂ ∈ {1,2,3}`, `δ₂ < g` and all 5-bit values.
-/
import MsVerif.Lemmas.ChecksumPairData

namespace MsVerif.Checksum
open Rank

theorem table_all (g : Nat) (h1 : 1 ≤ g) (h2 : g ≤ 1040) :
    checkG g (basisN g) (basisN (g + 1)) (basisN (g + 2)) (basisN (g + 3)) = true := by
  have e0 := win0_eq
  have c0 := pairChunk0
  rw [e0] at c0
  obtain ⟨w1, a0⟩ := tabRun_sound 260 1 win1 c0
  have c1 := pairChunk1
  rw [w1] at c1
  obtain ⟨w2, a1⟩ := tabRun_sound 260 261 win2 c1
  have c2 := pairChunk2
  rw [w2] at c2
  obtain ⟨w3, a2⟩ := tabRun_sound 260 521 win3 c2
  have c3 := pairChunk3
  rw [w3] at c3
  obtain ⟨_, a3⟩ := tabRun_sound 260 781 win4 c3
  by_cases k0 : g < 261
  · exact a0 g h1 (by omega)
  by_cases k1 : g < 521
  · exact a1 g (by omega) (by omega)
  by_cases k2 : g < 781
  · exact a2 g (by omega) (by omega)
  exact a3 g (by omega) (by omega)

/-! ## from bit vectors to combinations -/

def bits (a : Nat) : List Bool := [a.testBit 0, a.testBit 1, a.testBit 2, a.testBit 3, a.testBit 4]

theorem ofNat_bits : ∀ a, a < 32 → BitVec.ofNat 40 a =
    sel (a.testBit 0) 1#40 ^^^ sel (a.testBit 1) 2#40 ^^^ sel (a.testBit 2) 4#40
      ^^^ sel (a.testBit 3) 8#40 ^^^ sel (a.testBit 4) 16#40 := by decide

theorem bits_zero : ∀ a, a < 32 → (∀ c ∈ bits a, c = false) → a = 0 := by decide

theorem Lpow_sel (n : Nat) (b : Bool) (x : W) : Lpow n (sel b x) = sel b (Lpow n x) := by
  cases b
  · simp only [sel, Bool.false_eq_true, if_false]; exact Lpow_zero n
  · simp [sel]

theorem comb_append : ∀ (cs1 cs2 : List Bool) (vs1 vs2 : List Nat), cs1.length = vs1.length →
    comb (cs1 ++ cs2) (vs1 ++ vs2) = comb cs1 vs1 ^^^ comb cs2 vs2
  | [], _, [], _, _ => by simp [comb]
  | [], _, _ :: _, _, h => by simp at h
  | _ :: _, _, [], _, h => by simp at h
  | c :: cs1, cs2, v :: vs1, vs2, h => by
    simp only [List.cons_append, comb]
    rw [comb_append cs1 cs2 vs1 vs2 (by simpa using h), Nat.xor_assoc]

theorem Lpow_ofNat_toNat (n a : Nat) (ha : a < 32) :
    (Lpow n (BitVec.ofNat 40 a)).toNat = comb (bits a) (basisN n) := by
  rw [ofNat_bits a ha]
  simp only [Lpow_xor, Lpow_sel, BitVec.toNat_xor, sel_toNat, Lpow_toNat, bits, basisN, comb, selN]
  have e1 : (1#40).toNat = 1 := rfl
  have e2 : (2#40).toNat = 2 := rfl
  have e4 : (4#40).toNat = 4 := rfl
  have e8 : (8#40).toNat = 8 := rfl
  have e16 : (16#40).toNat = 16 := rfl
  rw [e1, e2, e4, e8, e16]
  simp only [Nat.xor_assoc, Nat.xor_zero]

theorem comb_map_shr (k : Nat) : ∀ (cs : List Bool) (vs : List Nat),
    comb cs (vs.map (· >>> k)) = comb cs vs >>> k
  | [], _ => by simp [comb]
  | _ :: _, [] => by simp [comb]
  | c :: cs, v :: vs => by
    simp only [List.map, comb]
    rw [comb_map_shr k cs vs, Nat.shiftRight_xor_distrib]
    cases c <;> simp

theorem comb_map_and (m : Nat) : ∀ (cs : List Bool) (vs : List Nat),
    comb cs (vs.map (· &&& m)) = comb cs vs &&& m
  | [], _ => by simp [comb]
  | _ :: _, [] => by simp [comb]
  | c :: cs, v :: vs => by
    simp only [List.map, comb]
    rw [comb_map_and m cs vs, Nat.and_xor_distrib_right]
    cases c <;> simp

/-- the right-hand side patterns vanish under the masks -/
theorem pat_shr : ∀ a, a < 32 → ∀ b, b < 32 → ∀ d, d < 4 → ((a <<< (5 * d)) ^^^ b) >>> 20 = 0 := by
  decide +kernel

theorem pat_msk : ∀ a, a < 32 → ∀ b, b < 32 → ∀ d, d < 4 → 1 ≤ d →
    ((a <<< (5 * d)) ^^^ b) &&& MSK d = 0 := by decide +kernel

theorem pat_toNat (a b d : Nat) (ha : a < 32) (hb : b < 32) (hd : d < 4) :
    ((BitVec.ofNat 40 a <<< (5 * d)) ^^^ BitVec.ofNat 40 b).toNat = (a <<< (5 * d)) ^^^ b := by
  rw [BitVec.toNat_xor, BitVec.toNat_shiftLeft, BitVec.toNat_ofNat, BitVec.toNat_ofNat,
    Nat.mod_eq_of_lt (show a < 2 ^ 40 by omega), Nat.mod_eq_of_lt (show b < 2 ^ 40 by omega)]
  congr 1
  apply Nat.mod_eq_of_lt
  have : d = 0 ∨ d = 1 ∨ d = 2 ∨ d = 3 := by omega
  rcases this with rfl | rfl | rfl | rfl <;> simp only [Nat.shiftLeft_eq] <;> omega

theorem chk1_sound {g δ1 : Nat} (h : chk1 g (basisN (g + δ1)) (basisN g) = true)
    {δ2 a1 b1 a2 b2 : Nat} (hδ2 : 1 ≤ δ2 ∧ δ2 ≤ 3) (hlt : δ2 < g)
    (ha1 : a1 < 32) (hb1 : b1 < 32) (ha2 : a2 < 32) (hb2 : b2 < 32)
    (heq : Lpow (g + δ1) (BitVec.ofNat 40 a1) ^^^ Lpow g (BitVec.ofNat 40 b1)
      = (BitVec.ofNat 40 a2 <<< (5 * δ2)) ^^^ BitVec.ofNat 40 b2) : a1 = 0 ∧ b1 = 0 := by
  have hN := congrArg BitVec.toNat heq
  rw [BitVec.toNat_xor, Lpow_ofNat_toNat _ _ ha1, Lpow_ofNat_toNat _ _ hb1,
    pat_toNat a2 b2 δ2 ha2 hb2 (by omega),
    ← comb_append (bits a1) (bits b1) (basisN (g + δ1)) (basisN g) rfl] at hN
  have hlen : (bits a1 ++ bits b1).length = (basisN (g + δ1) ++ basisN g).length := rfl
  have hall : ∀ c ∈ bits a1 ++ bits b1, c = false := by
    unfold chk1 at h
    simp only [mapK_eq, Bool.or_eq_true, Bool.and_eq_true] at h
    rcases h with h | h
    · apply indep_sound 10 _ h (bits a1 ++ bits b1) (by simp [hlen])
      rw [comb_map_shr, hN]
      exact pat_shr a2 ha2 b2 hb2 δ2 (by omega)
    · have hm : chkMask g δ2 (basisN (g + δ1) ++ basisN g) = true := by
        have : δ2 = 1 ∨ δ2 = 2 ∨ δ2 = 3 := by omega
        rcases this with rfl | rfl | rfl
        · exact h.1.1
        · exact h.1.2
        · exact h.2
      unfold chkMask at hm
      simp only [mapK_eq, Bool.or_eq_true, decide_eq_true_eq] at hm
      rcases hm with hm | hm
      · omega
      · apply indep_sound 10 _ hm (bits a1 ++ bits b1) (by simp [hlen])
        rw [comb_map_and, hN]
        exact pat_msk a2 ha2 b2 hb2 δ2 (by omega) hδ2.1
  exact ⟨bits_zero a1 ha1 (fun c hc => hall c (List.mem_append_left _ hc)),
    bits_zero b1 hb1 (fun c hc => hall c (List.mem_append_right _ hc))⟩

/-- **the table**: an error pattern of one corrupted character (`a₁` in the low symbol, `b₁` in the
class symbol `δ₁` places later) can never be cancelled by the pattern of a second corrupted
character whose class symbol lies `g ≤ 1040` symbols after the first one's. -/
theorem pair_table {g δ1 δ2 a1 b1 a2 b2 : Nat} (hg1 : 1 ≤ g) (hg : g ≤ 1040)
    (hδ1 : 1 ≤ δ1 ∧ δ1 ≤ 3) (hδ2 : 1 ≤ δ2 ∧ δ2 ≤ 3) (hlt : δ2 < g)
    (ha1 : a1 < 32) (hb1 : b1 < 32) (ha2 : a2 < 32) (hb2 : b2 < 32)
    (heq : Lpow (g + δ1) (BitVec.ofNat 40 a1) ^^^ Lpow g (BitVec.ofNat 40 b1)
      = (BitVec.ofNat 40 a2 <<< (5 * δ2)) ^^^ BitVec.ofNat 40 b2) : a1 = 0 ∧ b1 = 0 := by
  have h := table_all g hg1 hg
  unfold checkG at h
  simp only [Bool.and_eq_true] at h
  have : δ1 = 1 ∨ δ1 = 2 ∨ δ1 = 3 := by omega
  rcases this with rfl | rfl | rfl
  · exact chk1_sound h.1.1 hδ2 hlt ha1 hb1 ha2 hb2 heq
  · exact chk1_sound h.1.2 hδ2 hlt ha1 hb1 ha2 hb2 heq
  · exact chk1_sound h.2 hδ2 hlt ha1 hb1 ha2 hb2 heq

end MsVerif.Checksum

/-
`Tree::from_str (print t)` succeeds and its node table decodes to `t` itself — the expression
grammar round trip for every well-formed tree of nesting ≤ 403 (any names free of `(){},#`, round
and curly brackets, any arity).
-/
import MsVerif.Lemmas.ExprTable
import MsVerif.Thm.C11

namespace MsVerif.Expr

mutual
theorem flat_length : ∀ t : Tree, (flat t).length = t.size
  | .node _ _ cs => by simp [flat, Tree.size, flatList_length cs]; omega
theorem flatList_length : ∀ cs : List Tree, (flatList cs).length = Tree.sizeList cs
  | [] => rfl
  | t :: ts => by simp [flatList, Tree.sizeList, flat_length t, flatList_length ts]
end

mutual
theorem decodeTree_flat : ∀ (t : Tree) (fuel : Nat) (ns rest : List Node),
    ns.map key = flat t → 2 * t.size ≤ fuel → decodeTree fuel (ns ++ rest) = some (t, rest)
  | .node name p cs, fuel, ns, rest, hk, hf => by
    simp only [flat] at hk
    cases ns with
    | nil => simp at hk
    | cons n ns' =>
      simp only [List.map_cons, List.cons.injEq] at hk
      obtain ⟨hn, hrest⟩ := hk
      have hsz : 2 * (1 + Tree.sizeList cs) ≤ fuel := by simpa [Tree.size] using hf
      cases fuel with
      | zero => omega
      | succ f =>
        simp only [List.cons_append, decodeTree]
        have hnc : n.nChildren = cs.length := by
          have := congrArg (fun k : K => k.2.2) hn; simpa [key] using this
        have hnm : n.name = name := by have := congrArg (fun k : K => k.1) hn; simpa [key] using this
        have hpp : n.parens = p := by have := congrArg (fun k : K => k.2.1) hn; simpa [key] using this
        rw [hnc, decodeKids_flat cs f ns' rest hrest (by omega), hnm, hpp]
theorem decodeKids_flat : ∀ (cs : List Tree) (fuel : Nat) (ns rest : List Node),
    ns.map key = flatList cs → 2 * Tree.sizeList cs + 1 ≤ fuel →
    decodeKids fuel cs.length (ns ++ rest) = some (cs, rest)
  | [], fuel, ns, rest, hk, hf => by
    simp only [flatList, List.map_eq_nil_iff] at hk
    subst hk
    cases fuel with
    | zero => omega
    | succ f => simp [decodeKids]
  | t :: ts, fuel, ns, rest, hk, hf => by
    simp only [flatList] at hk
    obtain ⟨n1, n2, hns, h1, h2⟩ := List.map_eq_append_iff.mp hk
    subst hns
    have hsz : 2 * (t.size + Tree.sizeList ts) + 1 ≤ fuel := by simpa [Tree.sizeList] using hf
    have hpos := size_pos t
    cases fuel with
    | zero => omega
    | succ f =>
      simp only [List.length_cons, decodeKids, List.append_assoc]
      rw [decodeTree_flat t f n1 (n2 ++ rest) h1 (by omega)]
      simp only
      rw [decodeKids_flat ts f n2 rest h2 (by omega)]
end

/-- the builder's initial state -/
def initSt (n d : Nat) : BSt :=
  { nodes := #[], nodesCap := n, stack := [], stackCap := d, current := some (Node.null 0) }

theorem initSt_inv (n d : Nat) : Inv (initSt n d) := by
  intro c hc
  simp only [initSt, Option.some.injEq] at hc
  subst hc; simp [Node.null]

theorem initSt_abs (n d : Nat) : absSt (initSt n d) = ⟨[], [], some 0⟩ := by
  simp [absSt, initSt, Node.null]

/-- **the expression grammar round trip**: for every well-formed tree of nesting ≤ 403,
`Tree::from_str (print t)` succeeds and the table it builds is the table of `t` -/
theorem fromStr_print (t : Tree) (hw : t.WF) (hd : t.depth ≤ 403) :
    ∃ nodes, fromStrInner t.print = .ok nodes ∧ toTree nodes = some t := by
  obtain ⟨nodes, hok, _, _⟩ := MsVerif.C11.printed_tree_accepted_partial t hw hd
  refine ⟨nodes, hok, ?_⟩
  unfold fromStrInner at hok
  rw [parsePreCheck_print t hw hd] at hok
  simp only at hok
  unfold build at hok
  simp only at hok
  cases hl : buildLoop t.print.toArray 0 t.print (initSt t.size t.depth) with
  | error e => unfold initSt at hl; rw [hl] at hok; simp [throw, throwThe, MonadExceptOf.throw] at hok
  | ok st =>
    have hl' := hl
    unfold initSt at hl'
    rw [hl'] at hok
    simp only at hok
    cases hf : flushCurrent t.print.toArray t.print.toArray.size st with
    | error e => rw [hf] at hok; simp [throw, throwThe, MonadExceptOf.throw] at hok
    | ok st2 =>
      rw [hf] at hok
      simp only at hok
      have hnodes : nodes = st2.nodes := by
        by_cases h1 : st2.stackCap ≠ t.depth
        · simp [h1, throw, throwThe, MonadExceptOf.throw] at hok
        · by_cases h2 : st2.nodesCap ≠ t.size
          · simp [h1, h2, throw, throwThe, MonadExceptOf.throw] at hok
          · by_cases h3 : st2.nodes.size ≠ st2.nodesCap
            · simp [h1, h2, h3, throw, throwThe, MonadExceptOf.throw] at hok
            · simp only [h1, h2, h3, if_false, pure, Except.pure, Except.ok.injEq] at hok
              exact hok.symm
      -- the abstract run
      obtain ⟨hsim, hinv⟩ := buildLoop_sim t.print 0 _ st (initSt_inv _ _) hl
      obtain ⟨hfl, _, _⟩ := flushCurrent_sim hinv hf
      have hs : t.print.toArray.toList = ([] : List Char) ++ (t.print ++ []) := by simp
      obtain ⟨a', c', hrun, hafl⟩ := aloop_tree t.print.toArray t hw [] [] hs
        ⟨[], [], some 0⟩ rfl
      simp only [List.append_nil, List.length_nil, Nat.zero_add, aloop] at hrun
      rw [initSt_abs, hrun] at hsim
      simp only [Option.some.injEq] at hsim
      subst hsim
      simp only [List.length_nil, Nat.zero_add, List.nil_append] at hafl
      have hsz : t.print.toArray.size = t.print.length := by simp
      rw [hsz, hafl] at hfl
      simp only [Option.some.injEq, AS.mk.injEq] at hfl
      have hkeys : st2.nodes.toList.map key = flat t := hfl.1.symm
      -- decoding
      subst hnodes
      unfold toTree
      have hlen : st2.nodes.size = t.size := by
        rw [← Array.length_toList, ← List.length_map (f := key), hkeys, flat_length]
      have := decodeTree_flat t (2 * st2.nodes.size + 2) st2.nodes.toList [] hkeys (by omega)
      simp only [List.append_nil] at this
      rw [this]

end MsVerif.Expr

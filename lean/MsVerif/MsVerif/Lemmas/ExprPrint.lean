/-
The pre-check accepts everything the printer emits: running pass 1 over `print t` adds
`size t - 1` to the node count, raises the maximal depth to `stack height + depth t` and leaves
the paren stack unchanged.
-/
import MsVerif.Lemmas.ExprPre
import MsVerif.Lemmas.ChecksumString

namespace MsVerif.Expr
open MsVerif.Checksum

/-- the characters with a meaning in the expression grammar -/
def special (c : Char) : Prop := c = '(' ∨ c = ')' ∨ c = '{' ∨ c = '}' ∨ c = ',' ∨ c = '#'

def NameOk (name : List Char) : Prop := ∀ c ∈ name, validChar c = true ∧ ¬ special c

mutual
/-- well-formed: clean names, and a node has brackets iff it has children -/
def Tree.WF : Tree → Prop
  | .node name p cs => NameOk name ∧ (p = .none ↔ cs = []) ∧ Tree.WFList cs
def Tree.WFList : List Tree → Prop
  | [] => True
  | t :: ts => t.WF ∧ Tree.WFList ts
end

theorem preLoop_cons_ok {len pos : Nat} {ch : Char} {tail : List Char} {st st' : PreSt}
    (h : preStep len st pos ch tail = .ok st') :
    preLoop len pos (ch :: tail) st = preLoop len (pos + 1) tail st' := by
  rw [preLoop, h]

theorem preLoop_name {len : Nat} (name : List Char) (hn : NameOk name) (pos : Nat)
    (rest : List Char) (st : PreSt) :
    preLoop len pos (name ++ rest) st = preLoop len (pos + name.length) rest st := by
  induction name generalizing pos with
  | nil => simp
  | cons c cs ih =>
    have hc := (hn c List.mem_cons_self).2
    have h1 : ¬ isOpen c := fun h => hc (by unfold special; unfold isOpen at h; rcases h with h | h <;> simp [h])
    have h2 : ¬ isClose c := fun h => hc (by unfold special; unfold isClose at h; rcases h with h | h <;> simp [h])
    have h3 : c ≠ ',' := fun h => hc (by unfold special; simp [h])
    have hs : preStep len st pos c (cs ++ rest) = .ok st := by
      unfold preStep; unfold isOpen at h1; unfold isClose at h2
      simp only [h1, h2, h3, if_false]; rfl
    rw [List.cons_append, preLoop_cons_ok hs, ih (fun d hd => hn d (List.mem_cons_of_mem _ hd))]
    simp only [List.length_cons]; congr 1; omega

theorem ite_max (a b : Nat) : (if a < b then b else a) = max a b := by
  simp only [Nat.max_def]; split <;> split <;> omega

/-- state after a complete subtree -/
def adv (st : PreSt) (size depth : Nat) : PreSt :=
  { nNodes := st.nNodes + (size - 1)
    maxDepth := max st.maxDepth (st.stack.length + depth)
    stack := st.stack }

def openCh : Parens → Char | .curly => '{' | _ => '('
def closeCh : Parens → Char | .curly => '}' | _ => ')'

theorem print_node (name : List Char) (p : Parens) (cs : List Tree) (hp : p ≠ .none) :
    (Tree.node name p cs).print = name ++ openCh p :: (Tree.printList cs ++ [closeCh p]) := by
  cases p with
  | none => exact absurd rfl hp
  | round => simp [Tree.print, openCh, closeCh]
  | curly => simp [Tree.print, openCh, closeCh]

theorem Tree.sizeList_pos (cs : List Tree) (h : cs ≠ []) : 0 < Tree.sizeList cs := by
  cases cs with
  | nil => exact absurd rfl h
  | cons t ts => cases t; simp [Tree.sizeList, Tree.size]; omega

theorem Tree.depthList_pos (cs : List Tree) (h : cs ≠ []) : 0 < Tree.depthList cs := by
  cases cs with
  | nil => exact absurd rfl h
  | cons t ts => simp only [Tree.depthList, Nat.max_def]; split <;> omega

theorem size_pos (t : Tree) : 0 < t.size := by cases t; simp [Tree.size]; omega

/-- what must follow a bracketed subtree for the pre-check to continue -/
def Follow (stack : List (Char × Nat)) (rest : List Char) : Prop :=
  if stack = [] then rest = [] else ∃ c, rest.head? = some c ∧ isSep c

theorem preStep_closer {len pos : Nat} {p : Parens} (hp : p ≠ .none) {opos : Nat}
    {stack : List (Char × Nat)} {n m : Nat} {rest : List Char}
    (hlen : len = pos + 1 + rest.length) (hf : Follow stack rest) :
    preStep len ⟨n, m, (openCh p, opos) :: stack⟩ pos (closeCh p) rest = .ok ⟨n + 1, m, stack⟩ := by
  have hno : ¬ (closeCh p = '(' ∨ closeCh p = '{') := by cases p <;> simp [closeCh]
  have hcl : closeCh p = ')' ∨ closeCh p = '}' := by cases p <;> simp [closeCh]
  have hmm : ¬ ((openCh p = '(' ∧ closeCh p = '}') ∨ (openCh p = '{' ∧ closeCh p = ')')) := by
    cases p <;> simp [openCh, closeCh]
  unfold preStep
  simp only [hno, if_false, hcl, if_true, hmm]
  have hac : afterClose len pos rest stack = .ok () := by
    unfold afterClose Follow at *
    cases stack with
    | nil =>
      simp only [if_true] at hf
      subst hf
      simp only [List.length_nil] at hlen
      have : ¬ pos < len - 1 := by omega
      simp [this, pure, Except.pure]
    | cons s ss =>
      simp only [reduceCtorEq, if_false] at hf
      obtain ⟨c, hc, hsep⟩ := hf
      obtain ⟨sc, sp⟩ := s
      have hne : rest ≠ [] := by intro e; rw [e] at hc; cases hc
      have : rest.length ≠ 0 := fun e => hne (List.eq_nil_of_length_eq_zero e)
      have hpos : ¬ pos = len - 1 := by omega
      simp only [hpos, if_false, hc]
      unfold isSep at hsep
      have : ¬ (c ≠ ')' ∧ c ≠ '}' ∧ c ≠ ',') := by
        rcases hsep with h | h | h <;> simp [h]
      simp [this, pure, Except.pure]
  rw [hac]; rfl

theorem preStep_opener {len pos : Nat} {p : Parens} (st : PreSt) (tail : List Char) :
    preStep len st pos (openCh p) tail =
      .ok { st with stack := (openCh p, pos) :: st.stack
                    maxDepth := max st.maxDepth (st.stack.length + 1) } := by
  have ho : openCh p = '(' ∨ openCh p = '{' := by cases p <;> simp [openCh]
  unfold preStep
  simp only [ho, if_true, List.length_cons, ite_max]; rfl

theorem preStep_comma_ok {len pos : Nat} (st : PreSt) (tail : List Char) (h : st.stack ≠ []) :
    preStep len st pos ',' tail = .ok { st with nNodes := st.nNodes + 1 } := by
  unfold preStep
  have h1 : ¬ (',' = '(' ∨ ',' = '{') := by decide
  have h2 : ¬ (',' = ')' ∨ ',' = '}') := by decide
  have h3 : st.stack.isEmpty = false := by cases hs : st.stack <;> simp_all
  simp only [h1, h2, if_false, if_true, h3, Bool.false_eq_true]; rfl

theorem isSep_comma : isSep ',' := Or.inl rfl
theorem isSep_close (p : Parens) : isSep (closeCh p) := by cases p <;> simp [isSep, closeCh]

mutual
theorem preLoop_tree (t : Tree) (hw : t.WF) (len pos : Nat) (rest : List Char) (st : PreSt)
    (hlen : len = pos + (t.print ++ rest).length) (hd : st.stack.length ≤ st.maxDepth)
    (hf : Follow st.stack rest) :
    preLoop len pos (t.print ++ rest) st
      = preLoop len (pos + t.print.length) rest (adv st t.size t.depth) := by
  match t, hw with
  | .node name p cs, hw =>
    unfold Tree.WF at hw
    obtain ⟨hn, hpc, hcs⟩ := hw
    by_cases hp : p = .none
    · -- leaf
      have hc := hpc.mp hp
      subst hp; subst hc
      simp only [Tree.print]
      rw [preLoop_name name hn]
      congr 1
      have : max st.maxDepth st.stack.length = st.maxDepth := by omega
      simp [adv, Tree.size, Tree.sizeList, Tree.depth, Tree.depthList, this]
    · have hne : cs ≠ [] := fun e => hp (hpc.mpr e)
      rw [print_node name p cs hp] at hlen ⊢
      have e1 : name ++ openCh p :: (Tree.printList cs ++ [closeCh p]) ++ rest
          = name ++ (openCh p :: (Tree.printList cs ++ closeCh p :: rest)) := by simp
      rw [e1] at hlen ⊢
      rw [preLoop_name name hn, preLoop_cons_ok (preStep_opener st _)]
      have hlen1 : len = pos + name.length + 1 + (Tree.printList cs ++ closeCh p :: rest).length := by
        simp only [List.length_append, List.length_cons] at hlen ⊢; omega
      rw [preLoop_list cs hne hcs len (pos + name.length + 1) (closeCh p :: rest)
        { st with stack := (openCh p, pos + name.length) :: st.stack
                  maxDepth := max st.maxDepth (st.stack.length + 1) }
        hlen1 (by simp) (by simp only [List.length_cons]; omega)
        ⟨closeCh p, rfl, isSep_close p⟩]
      have hlen2 : len = pos + name.length + 1 + (Tree.printList cs).length + 1 + rest.length := by
        simp only [List.length_append, List.length_cons] at hlen ⊢; omega
      rw [preLoop_cons_ok (preStep_closer hp hlen2 hf)]
      have hsz := Tree.sizeList_pos cs hne
      have hdp := Tree.depthList_pos cs hne
      congr 1
      · simp only [List.length_append, List.length_cons, List.length_nil]; omega
      · simp only [adv, Tree.size, Tree.depth, List.length_cons]
        congr 1
        · omega
        · simp only [Nat.add_sub_cancel]; omega
theorem preLoop_list (cs : List Tree) (hne : cs ≠ []) (hw : Tree.WFList cs) (len pos : Nat)
    (rest : List Char) (st : PreSt) (hlen : len = pos + (Tree.printList cs ++ rest).length)
    (hst : st.stack ≠ []) (hd : st.stack.length ≤ st.maxDepth)
    (hf : ∃ c, rest.head? = some c ∧ isSep c) :
    preLoop len pos (Tree.printList cs ++ rest) st
      = preLoop len (pos + (Tree.printList cs).length) rest
          { nNodes := st.nNodes + (Tree.sizeList cs - 1)
            maxDepth := max st.maxDepth (st.stack.length - 1 + Tree.depthList cs)
            stack := st.stack } := by
  match cs, hne, hw with
  | [t], _, hw =>
    unfold Tree.WFList at hw
    simp only [Tree.printList]
    have hfol : Follow st.stack rest := by unfold Follow; simp only [hst, if_false]; exact hf
    rw [preLoop_tree t hw.1 len pos rest st hlen hd hfol]
    have := size_pos t
    have : st.stack.length ≠ 0 := fun e => hst (List.eq_nil_of_length_eq_zero e)
    congr 1
    simp only [adv, Tree.sizeList, Tree.depthList, Nat.add_zero]
    congr 1
    omega
  | t :: t2 :: ts, _, hw =>
    unfold Tree.WFList at hw
    obtain ⟨hw1, hw2⟩ := hw
    have hpl : Tree.printList (t :: t2 :: ts) = t.print ++ ',' :: Tree.printList (t2 :: ts) := by
      simp [Tree.printList]
    rw [hpl] at hlen ⊢
    have e1 : t.print ++ ',' :: Tree.printList (t2 :: ts) ++ rest
        = t.print ++ (',' :: (Tree.printList (t2 :: ts) ++ rest)) := by simp
    rw [e1] at hlen ⊢
    have hfol : Follow st.stack (',' :: (Tree.printList (t2 :: ts) ++ rest)) := by
      unfold Follow; simp only [hst, if_false]; exact ⟨',', rfl, isSep_comma⟩
    rw [preLoop_tree t hw1 len pos _ st hlen hd hfol]
    have hst' : (adv st t.size t.depth).stack ≠ [] := hst
    rw [preLoop_cons_ok (preStep_comma_ok _ _ hst')]
    have hlen1 : len = pos + t.print.length + 1 + (Tree.printList (t2 :: ts) ++ rest).length := by
      simp only [List.length_append, List.length_cons] at hlen ⊢; omega
    have hd' : (adv st t.size t.depth).stack.length ≤ (adv st t.size t.depth).maxDepth := by
      simp only [adv]; omega
    rw [preLoop_list (t2 :: ts) (by simp) hw2 len _ rest
      { adv st t.size t.depth with nNodes := (adv st t.size t.depth).nNodes + 1 } hlen1 hst' hd' hf]
    have h1 := size_pos t
    have h2 := Tree.sizeList_pos (t2 :: ts) (by simp)
    have : st.stack.length ≠ 0 := fun e => hst (List.eq_nil_of_length_eq_zero e)
    congr 1
    · simp only [List.length_append, List.length_cons]; omega
    · simp only [adv]
      congr 1
      · rw [show Tree.sizeList (t :: t2 :: ts) = t.size + Tree.sizeList (t2 :: ts) by simp [Tree.sizeList]]
        omega
      · rw [show Tree.depthList (t :: t2 :: ts) = max (t.depth + 1) (Tree.depthList (t2 :: ts)) by
          simp [Tree.depthList]]
        omega
end

def Clean (l : List Char) : Prop := ∀ c ∈ l, validChar c = true ∧ c ≠ '#'

theorem Clean.append {a b : List Char} (ha : Clean a) (hb : Clean b) : Clean (a ++ b) := by
  intro c hc; rcases List.mem_append.mp hc with h | h
  · exact ha c h
  · exact hb c h

theorem Clean.cons {c : Char} {l : List Char} (hc : validChar c = true ∧ c ≠ '#') (hl : Clean l) :
    Clean (c :: l) := by
  intro d hd; rcases List.mem_cons.mp hd with h | h
  · rw [h]; exact hc
  · exact hl d h

theorem Clean.name {name : List Char} (h : NameOk name) : Clean name := by
  intro c hc
  obtain ⟨h1, h2⟩ := h c hc
  exact ⟨h1, fun e => h2 (by unfold special; simp [e])⟩

theorem clean_open (p : Parens) : validChar (openCh p) = true ∧ openCh p ≠ '#' := by
  cases p <;> decide
theorem clean_close (p : Parens) : validChar (closeCh p) = true ∧ closeCh p ≠ '#' := by
  cases p <;> decide

mutual
theorem print_clean (t : Tree) (hw : t.WF) : Clean t.print := by
  match t, hw with
  | .node name p cs, hw =>
    unfold Tree.WF at hw
    obtain ⟨hn, hpc, hcs⟩ := hw
    by_cases hp : p = .none
    · subst hp; simp only [Tree.print]; exact Clean.name hn
    · rw [print_node name p cs hp]
      exact (Clean.name hn).append (Clean.cons (clean_open p)
        ((printList_clean cs hcs).append (Clean.cons (clean_close p) (fun _ h => by cases h))))
theorem printList_clean (cs : List Tree) (hw : Tree.WFList cs) : Clean (Tree.printList cs) := by
  match cs, hw with
  | [], _ => intro c hc; simp [Tree.printList] at hc
  | [t], hw => unfold Tree.WFList at hw; simp only [Tree.printList]; exact print_clean t hw.1
  | t :: t2 :: ts, hw =>
    unfold Tree.WFList at hw
    have : Tree.printList (t :: t2 :: ts) = t.print ++ ',' :: Tree.printList (t2 :: ts) := by
      simp [Tree.printList]
    rw [this]
    exact (print_clean t hw.1).append (Clean.cons (by decide) (printList_clean (t2 :: ts) hw.2))
end

/-- a `#`-free string of valid characters passes `verify_checksum` unchanged -/
theorem verify_clean {l : List Char} (h : Clean l) : verifyChecksumL l = .ok l := by
  unfold verifyChecksumL
  rw [scanHash_nohash (fun c hc => (h c hc).1) (fun hc => (h _ hc).2 rfl)]
  simp

/-- pass 1 on a printed tree -/
theorem parsePreCheck_print (t : Tree) (hw : t.WF) (hd : t.depth ≤ MAX_RECURSION_DEPTH + 1) :
    parsePreCheck t.print = .ok (t.print, t.depth, t.size) := by
  unfold parsePreCheck
  rw [verify_clean (print_clean t hw)]
  simp only
  have h := preLoop_tree t hw t.print.length 0 [] ⟨1, 0, []⟩ (by simp) (Nat.le_refl _)
    (by simp [Follow])
  rw [List.append_nil] at h
  rw [h]
  have hs := size_pos t
  simp only [preLoop, adv, pure, Except.pure, List.length_nil, Nat.zero_add]
  have : ¬ (max 0 t.depth > MAX_RECURSION_DEPTH + 1) := by omega
  simp only [this, if_false]
  have e1 : max 0 t.depth = t.depth := by omega
  have e2 : 1 + (t.size - 1) = t.size := by omega
  rw [e1, e2]

end MsVerif.Expr

/-
String-level lemmas for C10: whole-string engine runs, finalisation, the output characters,
the `#` scan of `verify_checksum`.
-/
import MsVerif.Lemmas.ChecksumEngine

namespace MsVerif.Checksum

def AllValid (s : List Char) : Prop := ∀ c ∈ s, validChar c = true

theorem allValid_iff (s : List Char) : s.all validChar = true ↔ AllValid s := by
  simp [AllValid, List.all_eq_true]

theorem AllValid.append {s t : List Char} (hs : AllValid s) (ht : AllValid t) : AllValid (s ++ t) := by
  intro c hc; rcases List.mem_append.mp hc with h | h
  · exact hs c h
  · exact ht c h

theorem AllValid.cons {c : Char} {t : List Char} (hc : validChar c = true) (ht : AllValid t) :
    AllValid (c :: t) := by
  intro d hd; rcases List.mem_cons.mp hd with h | h
  · rw [h]; exact hc
  · exact ht d h

theorem AllValid.of_cons {c : Char} {t : List Char} (h : AllValid (c :: t)) :
    validChar c = true ∧ AllValid t :=
  ⟨h c (List.mem_cons_self), fun d hd => h d (List.mem_cons_of_mem _ hd)⟩

theorem AllValid.of_append {s t : List Char} (h : AllValid (s ++ t)) : AllValid s ∧ AllValid t :=
  ⟨fun c hc => h c (List.mem_append_left _ hc), fun c hc => h c (List.mem_append_right _ hc)⟩

/-- CHAR_MAP value of a valid character -/
theorem pos_of_valid (c : Char) (h : validChar c = true) : ∃ p, charMap? c.toNat = some p ∧ p < 95 :=
  charMap?_valid _ ((validChar_iff c).mp h)

theorem pos_inj {x y : Char} (hx : validChar x = true) (hy : validChar y = true)
    (h : charMap? x.toNat = charMap? y.toNat) : x = y := by
  have := charMap?_inj _ _ ((validChar_iff x).mp hx) ((validChar_iff y).mp hy) h
  exact Char.toNat_inj.mp this

/-! ## whole strings -/

theorem inputUnchecked_append (en : Engine) (s t : List Char) :
    en.inputUnchecked (s ++ t) = (en.inputUnchecked s).bind (·.inputUnchecked t) := by
  induction s generalizing en with
  | nil => rfl
  | cons c cs ih =>
    simp only [List.cons_append, Engine.inputUnchecked]
    cases en.inputByte c.toNat with
    | none => rfl
    | some e' => exact ih e'

theorem inputUnchecked_valid {en : Engine} (w : WF en) {s : List Char} (hs : AllValid s) :
    ∃ en', en.inputUnchecked s = some en' ∧ WF en' := by
  induction s generalizing en with
  | nil => exact ⟨en, rfl, w⟩
  | cons c cs ih =>
    obtain ⟨hc, hcs⟩ := hs.of_cons
    obtain ⟨p, hp, hlt⟩ := pos_of_valid c hc
    simp only [Engine.inputUnchecked, inputByte_eq w hp hlt]
    exact ih (WF_next w hlt) hcs

theorem Sep_inputUnchecked {a b : Engine} (h : Sep a b) {s : List Char} (hs : AllValid s) :
    ∃ a' b', a.inputUnchecked s = some a' ∧ b.inputUnchecked s = some b' ∧ Sep a' b' := by
  induction s generalizing a b with
  | nil => exact ⟨a, b, rfl, rfl, h⟩
  | cons c cs ih =>
    obtain ⟨hc, hcs⟩ := hs.of_cons
    obtain ⟨p, hp, hlt⟩ := pos_of_valid c hc
    simp only [Engine.inputUnchecked, inputByte_eq h.2.1 hp hlt, inputByte_eq h.2.2.1 hp hlt]
    exact ih (Sep_next h hlt) hcs

/-! ## finalisation -/

theorem WF_cls_lt {en : Engine} (w : WF en) : en.cls < 32 := by
  obtain ⟨h1, h2⟩ := w
  have h3 : en.clscount = 0 ∨ en.clscount = 1 ∨ en.clscount = 2 := by omega
  rcases h3 with h3 | h3 | h3 <;> rw [h3] at h2 <;> simp at h2 <;> omega

def tail8 (r : W) : W := [0, 0, 0, 0, 0, 0, 0, 1].foldl inputFe r

theorem tail8_inj {a b : W} (h : tail8 a = tail8 b) : a = b := by
  unfold tail8 at h
  simp only [List.foldl] at h
  have h0 : (0 : Nat) < 32 := by decide
  have h1 : (1 : Nat) < 32 := by decide
  exact inputFe_inj h0 (inputFe_inj h0 (inputFe_inj h0 (inputFe_inj h0 (inputFe_inj h0
    (inputFe_inj h0 (inputFe_inj h0 (inputFe_inj h1 h)))))))

theorem finalResidue_WF {en : Engine} (w : WF en) : ∃ r, en.finalResidue = some r := by
  unfold Engine.finalResidue
  by_cases h : en.clscount > 0
  · simp [h, inputFeChecked, WF_cls_lt w]
  · simp [h]

theorem Sep_final {a b : Engine} (h : Sep a b) :
    ∃ ra rb, a.finalResidue = some ra ∧ b.finalResidue = some rb ∧ ra ≠ rb := by
  obtain ⟨hc, wa, wb, hd⟩ := h
  have la := WF_cls_lt wa
  have lb := WF_cls_lt wb
  unfold Engine.finalResidue
  by_cases h0 : a.clscount > 0
  · have h0b : b.clscount > 0 := by omega
    simp only [h0, h0b, if_true, inputFeChecked, la, lb]
    refine ⟨_, _, rfl, rfl, ?_⟩
    intro e
    have e' := tail8_inj e
    rcases hd with ⟨hcls, hres⟩ | ⟨hcls, hsmall⟩
    · rw [hcls] at e'; exact hres (inputFe_inj lb e')
    · refine emit_ne ?_ la lb hcls e'
      have := pow_le_35 wa.1; omega
  · have h0b : ¬ b.clscount > 0 := by omega
    simp only [h0, h0b, if_false]
    refine ⟨_, _, rfl, rfl, ?_⟩
    intro e
    have e' := tail8_inj e
    rcases hd with ⟨_, hres⟩ | ⟨hcls, _⟩
    · exact hres e'
    · have z : a.clscount = 0 := by omega
      have zb : b.clscount = 0 := by omega
      have := wa.2; have := wb.2
      rw [z] at *; rw [zb] at *
      omega

/-! ## output characters -/

theorem charsLower_inj : ∀ i, i < 32 → ∀ j, j < 32 →
    CHARS_LOWER.getD i 'q' = CHARS_LOWER.getD j 'q' → i = j := by decide +kernel

theorem charsLower_ok : ∀ i, i < 32 →
    (validChar (CHARS_LOWER.getD i 'q') = true ∧ CHARS_LOWER.getD i 'q' ≠ '#') := by decide +kernel

theorem unpack_lt (r : W) (n : Nat) : unpack r n < 32 := Nat.mod_lt _ (by decide)

theorem unpack_eq (r : W) (n : Nat) : unpack r n = r.toNat / 2 ^ (n * 5) % 32 := by
  unfold unpack
  rw [BitVec.toNat_ushiftRight, Nat.shiftRight_eq_div_pow]

theorem residueChars_inj {a b : W} (h : residueChars a = residueChars b) : a = b := by
  unfold residueChars at h
  simp only [List.map, List.cons.injEq, and_true] at h
  obtain ⟨h7, h6, h5, h4, h3, h2, h1, h0⟩ := h
  have g := fun n (e : CHARS_LOWER.getD (unpack a n) 'q' = CHARS_LOWER.getD (unpack b n) 'q') =>
    charsLower_inj _ (unpack_lt a n) _ (unpack_lt b n) e
  have e7 := g 7 h7; have e6 := g 6 h6; have e5 := g 5 h5; have e4 := g 4 h4
  have e3 := g 3 h3; have e2 := g 2 h2; have e1 := g 1 h1; have e0 := g 0 h0
  rw [unpack_eq, unpack_eq] at e0 e1 e2 e3 e4 e5 e6 e7
  apply BitVec.eq_of_toNat_eq
  have ha := a.isLt
  have hb := b.isLt
  simp only [Nat.reducePow, Nat.reduceMul] at e0 e1 e2 e3 e4 e5 e6 e7 ha hb
  omega

theorem residueChars_length (r : W) : (residueChars r).length = 8 := by
  simp [residueChars]

theorem residueChars_ok (r : W) : ∀ c ∈ residueChars r, validChar c = true ∧ c ≠ '#' := by
  intro c hc
  unfold residueChars at hc
  simp only [List.map, List.mem_cons, List.not_mem_nil, or_false] at hc
  rcases hc with h | h | h | h | h | h | h | h <;> rw [h] <;> exact charsLower_ok _ (unpack_lt _ _)

/-! ## `checksumOf` -/

theorem input_eq {en : Engine} {s : List Char} (hs : AllValid s) :
    en.input s = en.inputUnchecked s := by
  unfold Engine.input
  rw [(allValid_iff s).mpr hs]; rfl

/-- valid strings always have a checksum: the engine never panics on validated input -/
theorem checksumOf_valid {s : List Char} (hs : AllValid s) :
    ∃ en r, Engine.new.inputUnchecked s = some en ∧ WF en ∧ en.finalResidue = some r ∧
      checksumOf s = some (residueChars r) := by
  obtain ⟨en, he, w⟩ := inputUnchecked_valid WF_new hs
  obtain ⟨r, hr⟩ := finalResidue_WF w
  refine ⟨en, r, he, w, hr, ?_⟩
  unfold checksumOf
  rw [input_eq hs, he]
  simp [Engine.checksumChars, hr]

theorem checksumOf_invalid {s : List Char} (hs : ¬ AllValid s) : checksumOf s = none := by
  unfold checksumOf Engine.input
  have : ¬ (s.all validChar = true) := fun h => hs ((allValid_iff s).mp h)
  simp [this]

/-- the core of T2: changing one character changes the checksum -/
theorem checksum_differs {pre post : List Char} {x y : Char} (hpre : AllValid pre)
    (hpost : AllValid post) (hx : validChar x = true) (hy : validChar y = true) (hne : x ≠ y) :
    ∃ c1 c2, checksumOf (pre ++ x :: post) = some c1 ∧ checksumOf (pre ++ y :: post) = some c2 ∧
      c1 ≠ c2 := by
  obtain ⟨en, he, w⟩ := inputUnchecked_valid WF_new hpre
  obtain ⟨p, hp, hpl⟩ := pos_of_valid x hx
  obtain ⟨q, hq, hql⟩ := pos_of_valid y hy
  have hpq : p ≠ q := by
    intro e; apply hne; apply pos_inj hx hy; rw [hp, hq, e]
  have sep := Sep_diverge w hpl hql hpq
  obtain ⟨a', b', ha, hb, sep'⟩ := Sep_inputUnchecked sep hpost
  obtain ⟨ra, rb, hra, hrb, hr⟩ := Sep_final sep'
  have v1 : AllValid (pre ++ x :: post) := hpre.append (AllValid.cons hx hpost)
  have v2 : AllValid (pre ++ y :: post) := hpre.append (AllValid.cons hy hpost)
  have r1 : Engine.new.inputUnchecked (pre ++ x :: post) = some a' := by
    rw [inputUnchecked_append, he]
    simp only [Option.bind, Engine.inputUnchecked, inputByte_eq w hp hpl]; exact ha
  have r2 : Engine.new.inputUnchecked (pre ++ y :: post) = some b' := by
    rw [inputUnchecked_append, he]
    simp only [Option.bind, Engine.inputUnchecked, inputByte_eq w hq hql]; exact hb
  refine ⟨residueChars ra, residueChars rb, ?_, ?_, fun e => hr (residueChars_inj e)⟩
  · unfold checksumOf; rw [input_eq v1, r1]; simp [Engine.checksumChars, hra]
  · unfold checksumOf; rw [input_eq v2, r2]; simp [Engine.checksumChars, hrb]

/-! ## the `#` scan -/

theorem scanHash_invalid {l : List Char} (h : ¬ AllValid l) (pos last : Nat) :
    scanHash l pos last = none := by
  induction l generalizing pos last with
  | nil => exact absurd (fun c hc => by cases hc) h
  | cons c cs ih =>
    unfold scanHash
    by_cases hc : validChar c = true
    · simp only [hc, Bool.not_true, Bool.false_eq_true, if_false]
      apply ih
      intro hcs; exact h (AllValid.cons hc hcs)
    · simp [hc]

theorem scanHash_nohash {l : List Char} (hv : AllValid l) (hn : '#' ∉ l) (pos last : Nat) :
    scanHash l pos last = some last := by
  induction l generalizing pos last with
  | nil => rfl
  | cons c cs ih =>
    obtain ⟨hc, hcs⟩ := hv.of_cons
    unfold scanHash
    have : c ≠ '#' := fun e => hn (e ▸ List.mem_cons_self)
    simp only [hc, Bool.not_true, Bool.false_eq_true, if_false, this]
    exact ih hcs (fun h => hn (List.mem_cons_of_mem _ h)) _ _

/-- the scan finds the `#` that is followed by `#`-free text -/
theorem scanHash_append {a b : List Char} (ha : AllValid a) (hb : AllValid b) (hn : '#' ∉ b)
    (pos last : Nat) : scanHash (a ++ '#' :: b) pos last = some (pos + a.length) := by
  induction a generalizing pos last with
  | nil =>
    simp only [List.nil_append, scanHash, List.length_nil, Nat.add_zero]
    have : validChar '#' = true := by decide
    simp only [this, Bool.not_true, Bool.false_eq_true, if_false, if_true]
    exact scanHash_nohash hb hn _ _
  | cons c cs ih =>
    obtain ⟨hc, hcs⟩ := ha.of_cons
    simp only [List.cons_append, scanHash, hc, Bool.not_true, Bool.false_eq_true, if_false]
    rw [ih hcs]
    simp only [List.length_cons]
    congr 1; omega

/-- whatever the scan returns is the initial value or the position of a `#` -/
theorem scanHash_spec {l : List Char} {pos last k : Nat} (h : scanHash l pos last = some k) :
    k = last ∨ (pos ≤ k ∧ l[k - pos]? = some '#') := by
  induction l generalizing pos last with
  | nil => left; simp only [scanHash] at h; cases h; rfl
  | cons c cs ih =>
    unfold scanHash at h
    by_cases hc : validChar c = true
    · simp only [hc, Bool.not_true, Bool.false_eq_true, if_false] at h
      rcases ih h with h1 | ⟨h1, h2⟩
      · by_cases hh : c = '#'
        · right; simp only [hh, if_true] at h1
          subst h1; simp [hh]
        · left; simp only [hh, if_false] at h1; exact h1
      · right
        refine ⟨by omega, ?_⟩
        have : k - pos = (k - (pos + 1)) + 1 := by omega
        rw [this, List.getElem?_cons_succ]; exact h2
    · simp [hc] at h

/-- `verify_checksum` never panics -/
theorem verifyChecksumL_ne_panic (s : List Char) : verifyChecksumL s ≠ .panic := by
  unfold verifyChecksumL
  cases hsc : scanHash s 0 s.length with
  | none => simp
  | some lastHash =>
    simp only
    by_cases hv : AllValid s
    · split
      · split
        · simp
        · have hv' : AllValid (s.take lastHash) := fun c hc => hv c (List.mem_of_mem_take hc)
          obtain ⟨en, r, he, _, hr, _⟩ := checksumOf_valid hv'
          rw [he]
          simp only [Option.bind, Engine.checksumChars, hr, Option.map]
          split <;> simp
      · simp
    · rw [scanHash_invalid hv] at hsc; cases hsc

end MsVerif.Checksum

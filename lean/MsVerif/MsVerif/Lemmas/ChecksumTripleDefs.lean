/-
Three-symbol-error table of C10, definitions: the projective normal form of the upper seven
symbols of `x^d mod g`.  `e₁·x^d₁ + e₂·x^d₂ = e₃` (a weight-3 code word) forces the upper symbols of
`x^d₁` and `x^d₂` to be GF(32)-proportional, i.e. to have the same normal form.
-/
import MsVerif.Lemmas.ChecksumGF32
import MsVerif.Lemmas.ChecksumPairDefs

namespace MsVerif.Checksum
open Rank

/-- symbols 1..7 of a 40-bit value -/
def digitsU (v : Nat) : List Nat :=
  [(v >>> 5) % 32, (v >>> 10) % 32, (v >>> 15) % 32, (v >>> 20) % 32, (v >>> 25) % 32,
   (v >>> 30) % 32, (v >>> 35) % 32]

/-- first non-zero entry (0 if there is none) -/
def lead : List Nat → Nat
  | [] => 0
  | d :: ds => if d = 0 then lead ds else d

/-- divide by the leading entry -/
def repL (ds : List Nat) : List Nat := ds.map (gmul (ginv (lead ds)))

def pack : List Nat → Nat
  | [] => 0
  | d :: ds => d + 32 * pack ds

def repN (v : Nat) : Nat := pack (repL (digitsU v))

/-- the normal forms of `x^(i+1)·v`, `i < n`, and the last power -/
def repsFrom : Nat → Nat → List Nat × Nat
  | 0, v => ([], v)
  | n + 1, v => seqNat (LN v) fun v' => seqNat (repN v') fun r =>
      let (rs, vf) := repsFrom n v'
      (r :: rs, vf)

theorem repsFrom_eq : ∀ (n v : Nat),
    repsFrom n v = ((List.range n).map (fun i => repN (LNpow (i + 1) v)), LNpow n v)
  | 0, v => rfl
  | n + 1, v => by
    simp only [repsFrom, seqNat_eq, repsFrom_eq n (LN v)]
    have hp : ∀ k, LNpow k (LN v) = LNpow (k + 1) v := by
      intro k; induction k with
      | zero => rfl
      | succ j ih => show LN _ = LN _; rw [ih]
    rw [List.range_succ_eq_map]
    simp only [List.map_cons, List.map_map, hp]
    rfl

/-! ## normal form of proportional vectors -/

def All32 (l : List Nat) : Prop := ∀ d ∈ l, d < 32

theorem lead_lt {l : List Nat} (h : All32 l) : lead l < 32 := by
  induction l with
  | nil => simp [lead]
  | cons d ds ih =>
    simp only [lead]
    split
    · exact ih (fun x hx => h x (List.mem_cons_of_mem _ hx))
    · exact h d List.mem_cons_self

theorem lead_map (l : Nat) (hl : l < 32) (h0 : l ≠ 0) {C : List Nat} (hC : All32 C) :
    lead (C.map (gmul l)) = gmul l (lead C) := by
  induction C with
  | nil => simp [lead, gmul_zero_right l hl]
  | cons d ds ih =>
    have hd : d < 32 := hC d List.mem_cons_self
    simp only [List.map_cons, lead]
    by_cases hz : d = 0
    · subst hz
      have : gmul l 0 = 0 := gmul_zero_right l hl
      simp only [this, if_true]
      exact ih (fun x hx => hC x (List.mem_cons_of_mem _ hx))
    · have : gmul l d ≠ 0 := by
        intro e
        rcases (gmul_zero_iff l hl d hd).mp e with h | h
        · exact h0 h
        · exact hz h
      simp [hz, this]

theorem lead_zero_all {C : List Nat} (h : lead C = 0) : ∀ d ∈ C, d = 0 := by
  induction C with
  | nil => intro d hd; cases hd
  | cons d ds ih =>
    simp only [lead] at h
    by_cases hz : d = 0
    · simp only [hz, if_true] at h
      intro x hx
      rcases List.mem_cons.mp hx with e | e
      · rw [e, hz]
      · exact ih h x e
    · simp only [hz, if_false] at h

/-- scaling a vector does not change its normal form -/
theorem repL_map (l : Nat) (hl : l < 32) (h0 : l ≠ 0) {C : List Nat} (hC : All32 C) :
    repL (C.map (gmul l)) = repL C := by
  unfold repL
  rw [lead_map l hl h0 hC, List.map_map]
  apply List.map_congr_left
  intro y hy
  have hy32 := hC y hy
  have hx32 := lead_lt hC
  simp only [Function.comp]
  by_cases hx : lead C = 0
  · have hyz : y = 0 := lead_zero_all hx y hy
    rw [hyz, gmul_zero_right l hl, gmul_zero_right _ (ginv_lt _ (gmul_lt l hl _ hx32)),
      gmul_zero_right _ (ginv_lt _ hx32)]
  · -- y = x · w with w = x⁻¹ · y
    have hw := gmul_lt _ (ginv_lt _ hx32) y hy32
    have e1 : y = gmul (lead C) (gmul (ginv (lead C)) y) := (mul_ginv _ hx32 hx y hy32).symm
    have hu : gmul l (lead C) ≠ 0 := by
      intro e
      rcases (gmul_zero_iff l hl _ hx32).mp e with h | h
      · exact h0 h
      · exact hx h
    have hu32 := gmul_lt l hl _ hx32
    calc gmul (ginv (gmul l (lead C))) (gmul l y)
        = gmul (ginv (gmul l (lead C))) (gmul l (gmul (lead C) (gmul (ginv (lead C)) y))) := by
          rw [← e1]
      _ = gmul (ginv (gmul l (lead C))) (gmul (gmul l (lead C)) (gmul (ginv (lead C)) y)) := by
          rw [gmul_assoc l hl _ hx32 _ hw]
      _ = gmul (ginv (lead C)) y := ginv_mul _ hu32 hu _ hw

end MsVerif.Checksum

/-
Pass 2 of the expression parser on printed trees: the node table built from `print t` carries,
in pre-order, exactly the names, bracket kinds and child counts of `t`.
(Success of the run is known from `C11.printed_tree_accepted_partial`; the lemmas here take a
successful run apart.)
-/
import MsVerif.Lemmas.ExprPrint
import MsVerif.Lemmas.ExprDecode

namespace MsVerif.Expr
open MsVerif.Checksum

abbrev P := List Char × Parens × Nat

def bump (k : Nat) : P → P | (a, b, n) => (a, b, n + k)

/-- add `k` to the child count of entry `i` -/
def bumpAt : Nat → Nat → List P → List P
  | _, _, [] => []
  | 0, k, x :: L => bump k x :: L
  | i + 1, k, x :: L => x :: bumpAt i k L

theorem bumpAt_length (i k : Nat) (L : List P) : (bumpAt i k L).length = L.length := by
  induction L generalizing i with
  | nil => cases i <;> rfl
  | cons x L ih => cases i <;> simp [bumpAt, ih]

theorem bumpAt_getElem? (i k : Nat) (L : List P) (j : Nat) :
    (bumpAt i k L)[j]? = if i = j then L[j]?.map (bump k) else L[j]? := by
  induction L generalizing i j with
  | nil => cases i <;> simp [bumpAt]
  | cons x L ih =>
    cases i with
    | zero => cases j <;> simp [bumpAt]
    | succ i =>
      cases j with
      | zero => simp [bumpAt]
      | succ j => simp only [bumpAt, List.getElem?_cons_succ, ih]; simp

theorem bumpAt_zero (i : Nat) (L : List P) : bumpAt i 0 L = L := by
  induction L generalizing i with
  | nil => cases i <;> rfl
  | cons x L ih =>
    cases i with
    | zero => obtain ⟨a, b, n⟩ := x; simp [bumpAt, bump]
    | succ i => simp [bumpAt, ih]

theorem bumpAt_bumpAt (i k l : Nat) (L : List P) : bumpAt i k (bumpAt i l L) = bumpAt i (l + k) L := by
  induction L generalizing i with
  | nil => cases i <;> rfl
  | cons x L ih =>
    cases i with
    | zero => obtain ⟨a, b, n⟩ := x; simp [bumpAt, bump, Nat.add_assoc]
    | succ i => simp [bumpAt, ih]

theorem bumpAt_append_left (i k : Nat) (L1 L2 : List P) (h : i < L1.length) :
    bumpAt i k (L1 ++ L2) = bumpAt i k L1 ++ L2 := by
  induction L1 generalizing i with
  | nil => simp at h
  | cons x L ih =>
    cases i with
    | zero => rfl
    | succ i => simp only [List.cons_append, bumpAt]; rw [ih i (by simpa using h)]

theorem bumpAt_append_at (k : Nat) (L1 : List P) (x : P) (L2 : List P) :
    bumpAt L1.length k (L1 ++ x :: L2) = L1 ++ bump k x :: L2 := by
  induction L1 with
  | nil => rfl
  | cons y L ih => simp only [List.length_cons, List.cons_append, bumpAt, ih]

/-- `nodes[i].n_children += 1` (and any change of the link fields) on the projected table -/
theorem map_proj_modify (a : Array Node) (i : Nat) (f : Node → Node) (k : Nat)
    (hf : ∀ n, proj (f n) = bump k (proj n)) :
    (a.modify i f).toList.map proj = bumpAt i k (a.toList.map proj) := by
  apply List.ext_getElem?
  intro j
  rw [bumpAt_getElem?, List.getElem?_map, List.getElem?_map, Array.getElem?_toList,
    Array.getElem?_toList, Array.getElem?_modify]
  by_cases e : i = j
  · simp only [e, if_true]
    cases a[j]? with
    | none => rfl
    | some n => simp [hf]
  · simp [e]

theorem map_proj_modify_same (a : Array Node) (i : Nat) (f : Node → Node)
    (hf : ∀ n, proj (f n) = proj n) :
    (a.modify i f).toList.map proj = a.toList.map proj := by
  have := map_proj_modify a i f 0 (fun n => by rw [hf]; obtain ⟨x, y, z⟩ := proj n; rfl)
  rw [bumpAt_zero] at this; exact this

/-! ## the loop -/

theorem buildLoop_cons (s : Array Char) (pos : Nat) (ch : Char) (tail : List Char) (st : BSt) :
    buildLoop s pos (ch :: tail) st =
      match buildStep s st pos ch with
      | .error e => .error e
      | .ok st' => buildLoop s (pos + 1) tail st' := rfl

theorem buildLoop_name (s : Array Char) (name : List Char) (hn : NameOk name) (pos : Nat)
    (rest : List Char) (st : BSt) :
    buildLoop s pos (name ++ rest) st = buildLoop s (pos + name.length) rest st := by
  induction name generalizing pos with
  | nil => simp
  | cons c cs ih =>
    have hc := (hn c List.mem_cons_self).2
    have h1 : ¬ (c = '(' ∨ c = '{') := fun h => hc (by unfold special; rcases h with h | h <;> simp [h])
    have h2 : ¬ (c = ')' ∨ c = '}') := fun h => hc (by unfold special; rcases h with h | h <;> simp [h])
    have h3 : c ≠ ',' := fun h => hc (by unfold special; simp [h])
    have hs : buildStep s st pos c = .ok st := by
      unfold buildStep; simp only [h1, h2, h3, if_false]; rfl
    rw [List.cons_append, buildLoop_cons, hs]
    simp only
    rw [ih (fun d hd => hn d (List.mem_cons_of_mem _ hd))]
    simp only [List.length_cons]; congr 1; omega

/-- the name of the node that starts right after `pre` -/
theorem slice_name (pre name r : List Char) :
    slice (pre ++ (name ++ r)).toArray pre.length (pre.length + name.length) = some name := by
  unfold slice
  have hle : pre.length + name.length ≤ (pre ++ (name ++ r)).length := by
    simp only [List.length_append]; omega
  simp only [List.size_toArray, Nat.le_add_right, hle, and_self, if_true, Option.some.injEq]
  rw [List.extract_toArray]
  simp only [List.extract, Nat.add_sub_cancel_left]
  show List.take name.length (List.drop pre.length (pre ++ (name ++ r))) = name
  rw [List.drop_left, List.take_left]

theorem flush_none {s : Array Char} {pos : Nat} {st : BSt} (h : st.current = none) :
    flushCurrent s pos st = .ok st := by
  unfold flushCurrent; rw [h]; rfl

theorem flush_some {s : Array Char} {pos : Nat} {st : BSt} {c : Node} {nm : List Char}
    (h : st.current = some c) (hs : slice s c.namePos pos = some nm) :
    flushCurrent s pos st = .ok (st.pushNode { c with name := nm }) := by
  unfold flushCurrent; rw [h]; simp only [hs]; rfl

theorem flush_stack {s : Array Char} {pos : Nat} {st stB : BSt}
    (h : flushCurrent s pos st = .ok stB) : stB.stack = st.stack := by
  unfold flushCurrent at h
  cases hc : st.current with
  | none => rw [hc] at h; cases h; rfl
  | some c =>
    rw [hc] at h
    simp only at h
    cases hsl : slice s c.namePos pos with
    | none => rw [hsl] at h; cases h
    | some nm => rw [hsl] at h; cases h; rfl

/-! ## the three structural steps -/

/-- a freshly created node: no name yet, no children, no brackets -/
structure Fresh (n : Node) (pos : Nat) : Prop where
  namePos : n.namePos = pos
  kids : n.nChildren = 0
  parens : n.parens = .none

theorem buildStep_open_eq (s : Array Char) (st : BSt) (pos : Nat) (p : Parens) (hp : p ≠ .none)
    (c : Node) (nm : List Char) (hc : st.current = some c) (hs : slice s c.namePos pos = some nm) :
    ∃ st', buildStep s st pos (openCh p) = .ok st' ∧ st'.stack = st.nodes.size :: st.stack ∧
      st'.nodes.toList.map proj = st.nodes.toList.map proj ++ [(nm, p, c.nChildren + 1)] ∧
      ∃ nn, st'.current = some nn ∧ Fresh nn (pos + 1) := by
  have ho : openCh p = '(' ∨ openCh p = '{' := by cases p <;> simp [openCh]
  have hpar : (if openCh p = '(' then Parens.round else Parens.curly) = p := by
    cases p with
    | none => exact absurd rfl hp
    | round => simp [openCh]
    | curly => simp [openCh]
  unfold buildStep
  simp only [ho, if_true, hc, hs, hpar]
  have hlt : st.nodes.size < (st.pushNode { c with name := nm, parens := p }).nodes.size := by
    simp [BSt.pushNode]
  unfold newNode
  simp only [List.head?_cons, hlt, if_true]
  refine ⟨_, rfl, rfl, ?_, _, rfl, ⟨rfl, rfl, rfl⟩⟩
  show (Array.modify _ _ _).toList.map proj = _
  rw [map_proj_modify _ _ _ 1 (fun n => rfl)]
  simp only [BSt.pushNode, Array.toList_push, List.map_append, List.map_cons, List.map_nil]
  have hl : st.nodes.size = (st.nodes.toList.map proj).length := by simp
  rw [hl, bumpAt_append_at]
  rfl

theorem buildStep_comma_inv {s : Array Char} {st st' : BSt} {pos p : Nat} {stk : List Nat}
    (h : buildStep s st pos ',' = .ok st') (hstk : st.stack = p :: stk) :
    ∃ stB, flushCurrent s pos st = .ok stB ∧ st'.stack = st.stack ∧
      st'.nodes.toList.map proj = bumpAt p 1 (stB.nodes.toList.map proj) ∧
      ∃ nn, st'.current = some nn ∧ Fresh nn (pos + 1) := by
  unfold buildStep at h
  have h1 : ¬ (',' = '(' ∨ ',' = '{') := by decide
  simp only [h1, if_false, if_true] at h
  cases hf : flushCurrent s pos st with
  | error e => rw [hf] at h; cases h
  | ok stB =>
    rw [hf] at h
    simp only at h
    have hsb : stB.stack = p :: stk := by rw [flush_stack hf, hstk]
    unfold lastSibOf at h
    simp only [hsb, List.head?_cons] at h
    cases hnd : stB.nodes[p]? with
    | none => rw [hnd] at h; cases h
    | some nd =>
      rw [hnd] at h
      simp only [pure, Except.pure] at h
      -- linkSibling
      obtain ⟨nodes1, hl1, hp1⟩ : ∃ nodes1, linkSibling stB.nodes nd.lastChildIdx = .ok nodes1 ∧
          nodes1.toList.map proj = stB.nodes.toList.map proj ∧ nodes1.size = stB.nodes.size := by
        unfold linkSibling
        cases hls : nd.lastChildIdx with
        | none => exact ⟨stB.nodes, rfl, rfl, rfl⟩
        | some i =>
          by_cases hi : i < stB.nodes.size
          · simp only [hi, if_true]
            exact ⟨_, rfl, map_proj_modify_same _ _ _ (fun n => rfl), Array.size_modify⟩
          · rw [hls] at h
            unfold linkSibling at h
            simp only [hi, if_false] at h
            cases h
      rw [hl1] at h
      simp only at h
      unfold newNode at h
      simp only [List.head?_cons] at h
      have hps : p < stB.nodes.size := (Array.getElem?_eq_some_iff.mp hnd).1
      simp only [hp1.2, hps, if_true, pure, Except.pure] at h
      cases h
      refine ⟨stB, rfl, by show p :: stk = st.stack; rw [hstk], ?_, _, rfl, ⟨rfl, rfl, rfl⟩⟩
      show (Array.modify _ _ _).toList.map proj = _
      rw [map_proj_modify _ _ _ 1 (fun n => rfl), hp1.1]

theorem buildStep_close_inv {s : Array Char} {st st' : BSt} {pos : Nat} {p : Parens}
    (h : buildStep s st pos (closeCh p) = .ok st') :
    ∃ stB, flushCurrent s pos st = .ok stB ∧ st'.nodes = stB.nodes ∧ st'.current = none ∧
      st'.stack = stB.stack.tail := by
  have h1 : ¬ (closeCh p = '(' ∨ closeCh p = '{') := by cases p <;> simp [closeCh]
  have h2 : closeCh p ≠ ',' := by cases p <;> simp [closeCh]
  have h3 : closeCh p = ')' ∨ closeCh p = '}' := by cases p <;> simp [closeCh]
  unfold buildStep at h
  simp only [h1, h2, h3, if_false, if_true] at h
  cases hf : flushCurrent s pos st with
  | error e => rw [hf] at h; cases h
  | ok stB =>
    rw [hf] at h
    simp only [pure, Except.pure] at h
    cases h
    exact ⟨stB, rfl, rfl, rfl, rfl⟩

/-! ## subtrees and child lists -/

theorem ok_of_cons {s : Array Char} {pos : Nat} {ch : Char} {tail : List Char} {st stF : BSt}
    (h : buildLoop s pos (ch :: tail) st = .ok stF) :
    ∃ st', buildStep s st pos ch = .ok st' ∧ buildLoop s (pos + 1) tail st' = .ok stF := by
  rw [buildLoop_cons] at h
  cases hs : buildStep s st pos ch with
  | error e => rw [hs] at h; cases h
  | ok st' => rw [hs] at h; exact ⟨st', rfl, h⟩

theorem size_eq_len (a : Array Node) : a.size = (a.toList.map proj).length := by simp

mutual
theorem build_tree (t : Tree) (hw : t.WF) (body pre rest : List Char)
    (hb : body = pre ++ (t.print ++ rest)) (st stF : BSt) (c : Node)
    (hc : st.current = some c) (hf : Fresh c pre.length)
    (h : buildLoop body.toArray pre.length (t.print ++ rest) st = .ok stF) :
    ∃ stA, buildLoop body.toArray (pre.length + t.print.length) rest stA = .ok stF ∧
      stA.stack = st.stack ∧
      ∀ stB, flushCurrent body.toArray (pre.length + t.print.length) stA = .ok stB →
        stB.nodes.toList.map proj = st.nodes.toList.map proj ++ preorder t := by
  match t, hw with
  | .node name p cs, hw =>
    unfold Tree.WF at hw
    obtain ⟨hn, hpc, hcs⟩ := hw
    by_cases hp : p = .none
    · -- leaf: nothing happens until the flush
      have hcs0 := hpc.mp hp
      subst hp; subst hcs0
      simp only [Tree.print] at hb h ⊢
      rw [buildLoop_name _ name hn] at h
      refine ⟨st, h, rfl, ?_⟩
      intro stB hfl
      have hsl : slice body.toArray c.namePos (pre.length + name.length) = some name := by
        rw [hf.namePos, hb]; exact slice_name pre name rest
      rw [flush_some hc hsl] at hfl
      cases hfl
      simp only [BSt.pushNode, Array.toList_push, List.map_append, List.map_cons, List.map_nil,
        preorder, preorderList, List.length_nil, proj, hf.kids, hf.parens]
    · have hne : cs ≠ [] := fun e => hp (hpc.mpr e)
      rw [print_node name p cs hp] at hb h ⊢
      have e1 : name ++ openCh p :: (Tree.printList cs ++ [closeCh p]) ++ rest
          = name ++ (openCh p :: (Tree.printList cs ++ closeCh p :: rest)) := by simp
      rw [e1] at hb h
      rw [buildLoop_name _ name hn] at h
      have hsl : slice body.toArray c.namePos (pre.length + name.length) = some name := by
        rw [hf.namePos, hb]; exact slice_name pre name _
      obtain ⟨st1, hs1, hstk1, hn1, nn, hnn, hfr⟩ :=
        buildStep_open_eq body.toArray st (pre.length + name.length) p hp c name hc hsl
      obtain ⟨st1', hs1', h1⟩ := ok_of_cons h
      rw [hs1] at hs1'; cases hs1'
      -- the children
      have hb2 : body = (pre ++ name ++ [openCh p]) ++ (Tree.printList cs ++ (closeCh p :: rest)) := by
        rw [hb]; simp
      have hl2 : (pre ++ name ++ [openCh p]).length = pre.length + name.length + 1 := by
        simp only [List.length_append, List.length_cons, List.length_nil]
      rw [← hl2] at h1 hfr
      obtain ⟨stA1, hA1, hstkA1, hflA1⟩ := build_list cs hne hcs body (pre ++ name ++ [openCh p])
        (closeCh p :: rest) hb2 st1 stF nn st.nodes.size st.stack hstk1
        (by rw [size_eq_len st1.nodes, hn1]; simp) hnn hfr h1
      -- the closing bracket
      obtain ⟨st2, hs2, h2⟩ := ok_of_cons hA1
      obtain ⟨stB, hflB, hnB, hcB, hstB⟩ := buildStep_close_inv hs2
      have hpos : (pre ++ name ++ [openCh p]).length + (Tree.printList cs).length + 1
          = pre.length + (name ++ openCh p :: (Tree.printList cs ++ [closeCh p])).length := by
        simp only [List.length_append, List.length_cons, List.length_nil]; omega
      rw [hpos] at h2
      refine ⟨st2, h2, ?_, ?_⟩
      · rw [hstB, flush_stack hflB, hstkA1, hstk1]; rfl
      · intro stB' hfl'
        rw [flush_none hcB] at hfl'
        cases hfl'
        rw [hnB, hflA1 stB hflB, hn1, size_eq_len, bumpAt_append_at]
        have hk : cs.length - 1 + 1 = cs.length := by
          have : 0 < cs.length := List.length_pos_iff.mpr hne
          omega
        simp only [hf.kids, bump, preorder, List.append_assoc, List.cons_append, List.nil_append]
        rw [Nat.zero_add, Nat.add_comm 1, hk]
theorem build_list (cs : List Tree) (hne : cs ≠ []) (hw : Tree.WFList cs) (body pre rest : List Char)
    (hb : body = pre ++ (Tree.printList cs ++ rest)) (st stF : BSt) (c : Node) (p : Nat)
    (stk : List Nat) (hstk : st.stack = p :: stk) (hp : p < st.nodes.size)
    (hc : st.current = some c) (hf : Fresh c pre.length)
    (h : buildLoop body.toArray pre.length (Tree.printList cs ++ rest) st = .ok stF) :
    ∃ stA, buildLoop body.toArray (pre.length + (Tree.printList cs).length) rest stA = .ok stF ∧
      stA.stack = st.stack ∧
      ∀ stB, flushCurrent body.toArray (pre.length + (Tree.printList cs).length) stA = .ok stB →
        stB.nodes.toList.map proj
          = bumpAt p (cs.length - 1) (st.nodes.toList.map proj) ++ preorderList cs := by
  match cs, hne, hw with
  | [t], _, hw =>
    unfold Tree.WFList at hw
    simp only [Tree.printList] at hb h ⊢
    obtain ⟨stA, hA, hstkA, hflA⟩ := build_tree t hw.1 body pre rest hb st stF c hc hf h
    refine ⟨stA, hA, hstkA, ?_⟩
    intro stB hfl
    rw [hflA stB hfl]
    simp [bumpAt_zero, preorderList]
  | t :: t2 :: ts, _, hw =>
    unfold Tree.WFList at hw
    obtain ⟨hw1, hw2⟩ := hw
    have hpl : Tree.printList (t :: t2 :: ts) = t.print ++ ',' :: Tree.printList (t2 :: ts) := by
      simp [Tree.printList]
    rw [hpl] at hb h ⊢
    have e1 : t.print ++ ',' :: Tree.printList (t2 :: ts) ++ rest
        = t.print ++ (',' :: (Tree.printList (t2 :: ts) ++ rest)) := by simp
    rw [e1] at hb h
    obtain ⟨stA0, hA0, hstkA0, hflA0⟩ := build_tree t hw1 body pre _ hb st stF c hc hf h
    obtain ⟨st1, hs1, h1⟩ := ok_of_cons hA0
    obtain ⟨stB, hflB, hstk1, hn1, nn, hnn, hfr⟩ :=
      buildStep_comma_inv hs1 (by rw [hstkA0, hstk])
    have hb2 : body = (pre ++ t.print ++ [',']) ++ (Tree.printList (t2 :: ts) ++ rest) := by
      rw [hb]; simp
    have hl2 : (pre ++ t.print ++ [',']).length = pre.length + t.print.length + 1 := by
      simp only [List.length_append, List.length_cons, List.length_nil]
    rw [← hl2] at h1 hfr
    have hold := hflA0 stB hflB
    have hp1 : p < st1.nodes.size := by
      rw [size_eq_len, hn1, bumpAt_length, hold, List.length_append, ← size_eq_len]; omega
    obtain ⟨stA, hA, hstkA, hflA⟩ := build_list (t2 :: ts) (by simp) hw2 body
      (pre ++ t.print ++ [',']) rest hb2 st1 stF nn p stk (by rw [hstk1, hstkA0, hstk]) hp1 hnn hfr h1
    have hpos : (pre ++ t.print ++ [',']).length + (Tree.printList (t2 :: ts)).length
        = pre.length + (t.print ++ ',' :: Tree.printList (t2 :: ts)).length := by
      simp only [List.length_append, List.length_cons, List.length_nil]; omega
    rw [hpos] at hA hflA
    refine ⟨stA, hA, by rw [hstkA, hstk1, hstkA0], ?_⟩
    intro stB' hfl'
    rw [hflA stB' hfl', hn1, hold, bumpAt_bumpAt,
      bumpAt_append_left _ _ _ _ (by rw [← size_eq_len]; exact hp)]
    simp only [preorderList, List.length_cons, List.append_assoc]
    congr 2
    omega
end

/-- **the node table of a printed tree**: if pass 2 succeeds on `print t` (it does:
`C11.printed_tree_accepted_partial`), the columns (name, brackets, child count) of the table are
the pre-order of `t`. -/
theorem build_print (t : Tree) (hw : t.WF) (D N : Nat) (nodes : Array Node)
    (h : build t.print D N = .ok nodes) : nodes.toList.map proj = preorder t := by
  unfold build at h
  simp only at h
  cases hl : buildLoop t.print.toArray 0 t.print
      { nodes := #[], nodesCap := N, stack := [], stackCap := D, current := some (Node.null 0) } with
  | error e => rw [hl] at h; cases h
  | ok st =>
    rw [hl] at h
    simp only at h
    cases hfl : flushCurrent t.print.toArray t.print.toArray.size st with
    | error e => rw [hfl] at h; cases h
    | ok stB =>
      rw [hfl] at h
      simp only at h
      have hnodes : nodes = stB.nodes := by
        split at h
        · cases h
        · split at h
          · cases h
          · split at h
            · cases h
            · simp only [pure, Except.pure, Except.ok.injEq] at h; exact h.symm
      have hb : t.print = [] ++ (t.print ++ []) := by simp
      have hl' : buildLoop t.print.toArray ([] : List Char).length (t.print ++ [])
          { nodes := #[], nodesCap := N, stack := [], stackCap := D, current := some (Node.null 0) }
          = .ok st := by simpa using hl
      obtain ⟨stA, hA, _, hflA⟩ := build_tree t hw t.print [] [] hb _ st (Node.null 0) rfl
        ⟨rfl, rfl, rfl⟩ hl'
      simp only [buildLoop, pure, Except.pure, Except.ok.injEq] at hA
      subst hA
      have := hflA stB (by simpa using hfl)
      rw [hnodes, this]
      simp

end MsVerif.Expr

/- `fromTreeI (toTreeW ws m) = wrapAll ws (ok m)`: the parser inverts the printer, by mutual
structural recursion over `Ms` / `MsList`. -/
import MsVerif.Lemmas.DisplayNames

namespace MsVerif.Display
open MsVerif.Expr

/-- the key type's `FromStr` inverts its `Display` (keys, the four hash types, raw key hashes) -/
structure CodecOk (c : Codec) : Prop where
  key : ∀ k, c.readKey (c.showKey k) = some k
  hash : ∀ kind h, c.readHash kind (c.showHash kind h) = some h
  raw : ∀ h, c.readRaw (c.showRaw h) = some h

/-- invariants of the Rust TYPES at one node (`AbsLockTime`, `RelLockTime`, `Threshold<_, MAX>`) -/
def localOk : Ms → Bool
  | .after n => decide (1 ≤ n ∧ n ≤ 2147483647)
  | .older n => decide (1 ≤ n ∧ n ≤ 2147483647)
  | .thresh k xs => decide (1 ≤ k ∧ k ≤ xs.length ∧ k ≤ 4294967295)
  | .multi k ks => decide (1 ≤ k ∧ k ≤ ks.length ∧ ks.length ≤ 20)
  | .sortedMulti k ks => decide (1 ≤ k ∧ k ≤ ks.length ∧ ks.length ≤ 20)
  | .multiA k ks => decide (1 ≤ k ∧ k ≤ ks.length ∧ ks.length ≤ 999)
  | .sortedMultiA k ks => decide (1 ≤ k ∧ k ≤ ks.length ∧ ks.length ≤ 999)
  | _ => true

/-- the atoms occurring AT this node are read back from their printed form -/
def atomsOk (c : Codec) : Ms → Bool
  | .pkK k => c.readKey (c.showKey k) == some k
  | .pkH k => c.readKey (c.showKey k) == some k
  | .rawPkH h => c.readRaw (c.showRaw h) == some h
  | .hash kind h => c.readHash kind (c.showHash kind h) == some h
  | .multi _ ks => ks.all (fun k => c.readKey (c.showKey k) == some k)
  | .sortedMulti _ ks => ks.all (fun k => c.readKey (c.showKey k) == some k)
  | .multiA _ ks => ks.all (fun k => c.readKey (c.showKey k) == some k)
  | .sortedMultiA _ ks => ks.all (fun k => c.readKey (c.showKey k) == some k)
  | _ => true

/-- what `Miniscript::from_ast` guarantees for a node, plus `localOk` and `atomsOk` -/
def nodeOk (c : Codec) (m : Ms) : Bool :=
  (typeOf m).isSome && decide (height m ≤ MAX_RECURSION_DEPTH) && c.gv m && localOk m && atomsOk c m

theorem nodeOk_iff (c : Codec) (m : Ms) :
    nodeOk c m = true ↔
      (typeOf m).isSome = true ∧ height m ≤ MAX_RECURSION_DEPTH ∧ c.gv m = true ∧ localOk m = true
        ∧ atomsOk c m = true := by
  simp [nodeOk, and_assoc]

theorem mk_ok (c : Codec) (m : Ms) (h : nodeOk c m = true) : mk c m = .ok m := by
  obtain ⟨ht, hh, hg, _, _⟩ := (nodeOk_iff c m).1 h
  unfold mk
  cases hty : typeOf m with
  | none => rw [hty] at ht; cases ht
  | some _ =>
    have : ¬ height m > MAX_RECURSION_DEPTH := by omega
    simp [this, hg]

/-! ### pieces of `parseCore` on printed children -/

theorem termParent_leaf (s : List Char) (read : List Char → Option Nat) (f : Nat → Ms) (a : Nat)
    (h : read s = some a) : termParent [leaf s] read f = .ok (f a) := by
  simp [termParent, leaf, leafName, h]

theorem lockParent_leaf (n : Nat) (f : Nat → Ms) (h : 1 ≤ n ∧ n ≤ 2147483647) :
    lockParent [leaf (showNat n)] f = .ok (f n) := by
  simp [lockParent, leaf, leafName, parseNum_showNat n (by omega), h]

theorem threshK_ok (max k : Nat) (rest : List Tree)
    (h1 : 1 ≤ k) (h2 : k ≤ rest.length) (h3 : k ≤ 4294967295) (h4 : max = 0 ∨ rest.length ≤ max) :
    threshK max (leaf (showNat k) :: rest) = .ok k := by
  have hc : ¬ (k = 0 ∨ k > rest.length ∨ (max > 0 ∧ rest.length > max)) := by omega
  simp only [threshK, leaf, leafName, parseNum_showNat k h3]
  simp [hc]

theorem readKeys_map (c : Codec) (ks : List Nat)
    (hc : ks.all (fun k => c.readKey (c.showKey k) == some k) = true) :
    readKeys c (ks.map (fun k => leaf (c.showKey k))) = .ok ks := by
  induction ks with
  | nil => rfl
  | cons k ks ih =>
    simp only [List.all_cons, Bool.and_eq_true, beq_iff_eq] at hc
    have ih' := ih hc.2
    simp only [List.map_cons, readKeys, leaf, leafName, hc.1] at ih' ⊢
    rw [ih']

theorem collect_map_ok (l : List Ms) : collect (l.map Except.ok) = .ok l := by
  induction l with
  | nil => rfl
  | cons m ms ih => simp [collect, ih]

theorem toTreeList_length (c : Codec) : ∀ xs : MsList, (toTreeList c xs).length = xs.length
  | .nil => rfl
  | .cons _ xs => by simp [toTreeList, MsList.length, toTreeList_length c xs]

theorem ofList_toList : ∀ xs : MsList, MsList.ofList xs.toList = xs
  | .nil => rfl
  | .cons x xs => by simp [MsList.toList, MsList.ofList, ofList_toList xs]

theorem keysThresh_ok (c : Codec) (max k : Nat) (ks : List Nat) (f : Nat → List Nat → Ms)
    (h1 : 1 ≤ k) (h2 : k ≤ ks.length) (h4 : ks.length ≤ max) (h5 : max ≤ 999)
    (hc : ks.all (fun k => c.readKey (c.showKey k) == some k) = true) (hmk : mk c (f k ks) = .ok (f k ks)) :
    keysThresh c max (leaf (showNat k) :: ks.map (fun k => leaf (c.showKey k))) f = .ok (f k ks) := by
  unfold keysThresh
  rw [threshK_ok max k _ h1 (by simpa using h2) (by omega) (Or.inr (by simpa using h4))]
  simp only [List.tail_cons, readKeys_map c ks hc, hmk]

theorem binary_ok (c : Codec) (x y : Ms) (f : Ms → Ms → Ms) (hmk : mk c (f x y) = .ok (f x y)) :
    binary c [.ok x, .ok y] f = .ok (f x y) := by
  simp [binary, hmk]

/-- one wrapper step of the induction -/
theorem wrap_step (c : Codec) (ws : List W) (w : W) (x : Ms)
    (hmk : nodeOk c (w.apply x) = true)
    (ih : fromTreeI c (toTreeW c ((ws ++ [w]).map W.char) x) = wrapAll c (ws ++ [w]) (.ok x)) :
    fromTreeI c (toTreeW c (ws.map W.char ++ [w.char]) x) = wrapAll c ws (.ok (w.apply x)) := by
  have e : (ws ++ [w]).map W.char = ws.map W.char ++ [w.char] := by simp
  rw [e, wrapAll_snoc] at ih
  rw [ih]
  simp only [mk_ok c _ hmk]

theorem sugarCheck_cases (c : Codec) (x : Ms) :
    sugarCheck c x = none ∨ (∃ k, x = .pkK k) ∨ (∃ k, x = .pkH k) := by
  cases x <;> simp [sugarCheck]

theorem atomsOk_of_codecOk (c : Codec) (hc : CodecOk c) (m : Ms) : atomsOk c m = true := by
  cases m <;> simp [atomsOk, hc.key, hc.hash, hc.raw]

end MsVerif.Display


/-
C06 helper lemmas, part 7: the stack shape every base type promises (`Post`), with the unit
property (`u`: a true result is exactly `[1]`) carried along, proved for every well-typed
fragment by induction over the typing rules (`shape`).  Limits off.  Core Lean only.
-/
import MsVerif.Lemmas.TypeSoundArgsThm
import MsVerif.Lemmas.TypeSoundNum

namespace MsVerif.TypeSound
open MsVerif MsVerif.Script

/-- what a successful run of a fragment of correctness type `t` does to the stack `s ↦ s'` -/
def Post (t : Corr) (s s' : List Bytes) : Prop :=
  match t.base with
  | .B => ∃ v n, s' = v :: s.drop n ∧ (t.unit = true → castToBool v = true → v = [1])
  | .V => ∃ n, s' = s.drop n
  | .K => ∃ k n, s' = k :: s.drop n
  | .W => ∃ x tl v n, s = x :: tl ∧ (s' = x :: v :: tl.drop n ∨ s' = v :: x :: tl.drop n) ∧
      (t.unit = true → castToBool v = true → v = [1])

theorem Post.B {t : Corr} {s s' : List Bytes} (hb : t.base = .B) :
    Post t s s' ↔ ∃ v n, s' = v :: s.drop n ∧ (t.unit = true → castToBool v = true → v = [1]) := by
  simp only [Post, hb]
theorem Post.V {t : Corr} {s s' : List Bytes} (hb : t.base = .V) : Post t s s' ↔ ∃ n, s' = s.drop n := by
  simp only [Post, hb]
theorem Post.K {t : Corr} {s s' : List Bytes} (hb : t.base = .K) : Post t s s' ↔ ∃ k n, s' = k :: s.drop n := by
  simp only [Post, hb]
theorem Post.W {t : Corr} {s s' : List Bytes} (hb : t.base = .W) :
    Post t s s' ↔ ∃ x tl v n, s = x :: tl ∧ (s' = x :: v :: tl.drop n ∨ s' = v :: x :: tl.drop n) ∧
      (t.unit = true → castToBool v = true → v = [1]) := by
  simp only [Post, hb]

/-- `Post` with an explicit bound `N` on the number `n` of input elements that were removed -/
def PostN (t : Corr) (N : Nat) (s s' : List Bytes) : Prop :=
  match t.base with
  | .B => ∃ v n, n ≤ N ∧ s' = v :: s.drop n ∧ (t.unit = true → castToBool v = true → v = [1])
  | .V => ∃ n, n ≤ N ∧ s' = s.drop n
  | .K => ∃ k n, n ≤ N ∧ s' = k :: s.drop n
  | .W => ∃ x tl v n, n ≤ N ∧ s = x :: tl ∧ (s' = x :: v :: tl.drop n ∨ s' = v :: x :: tl.drop n) ∧
      (t.unit = true → castToBool v = true → v = [1])

theorem PostN.B {t : Corr} {N : Nat} {s s' : List Bytes} (hb : t.base = .B) :
    PostN t N s s' ↔ ∃ v n, n ≤ N ∧ s' = v :: s.drop n ∧ (t.unit = true → castToBool v = true → v = [1]) := by
  simp only [PostN, hb]
theorem PostN.V {t : Corr} {N : Nat} {s s' : List Bytes} (hb : t.base = .V) :
    PostN t N s s' ↔ ∃ n, n ≤ N ∧ s' = s.drop n := by
  simp only [PostN, hb]
theorem PostN.K {t : Corr} {N : Nat} {s s' : List Bytes} (hb : t.base = .K) :
    PostN t N s s' ↔ ∃ k n, n ≤ N ∧ s' = k :: s.drop n := by
  simp only [PostN, hb]
theorem PostN.W {t : Corr} {N : Nat} {s s' : List Bytes} (hb : t.base = .W) :
    PostN t N s s' ↔ ∃ x tl v n, n ≤ N ∧ s = x :: tl ∧ (s' = x :: v :: tl.drop n ∨ s' = v :: x :: tl.drop n) ∧
      (t.unit = true → castToBool v = true → v = [1]) := by
  simp only [PostN, hb]

theorem PostN.toPost {t : Corr} {N : Nat} {s s' : List Bytes} (h : PostN t N s s') : Post t s s' := by
  cases hb : t.base with
  | B => obtain ⟨v, n, _, e, u⟩ := (PostN.B hb).1 h; exact (Post.B hb).2 ⟨v, n, e, u⟩
  | V => obtain ⟨n, _, e⟩ := (PostN.V hb).1 h; exact (Post.V hb).2 ⟨n, e⟩
  | K => obtain ⟨k, n, _, e⟩ := (PostN.K hb).1 h; exact (Post.K hb).2 ⟨k, n, e⟩
  | W => obtain ⟨x, tl, v, n, _, e1, e2, u⟩ := (PostN.W hb).1 h; exact (Post.W hb).2 ⟨x, tl, v, n, e1, e2, u⟩

mutual
/-- an upper bound, computable from the AST, on the number of input elements a fragment removes
(for a W fragment: below the element it finds on top) -/
def maxArgs : Ms → Nat
  | .tru | .fls | .after _ | .older _ | .pkK _ => 0
  | .pkH _ | .rawPkH _ | .hash _ _ => 1
  | .multi k _ | .sortedMulti k _ => k + 1
  | .multiA _ ks | .sortedMultiA _ ks => max 1 ks.length
  | .alt x | .verify x | .zeroNotEqual x => maxArgs x
  | .swap _ | .dupIf _ => 1
  | .check x => maxArgs x + 1
  | .nonZero x => max 1 (maxArgs x)
  | .andV l r | .andB l r | .orB l r | .orD l r | .orC l r => maxArgs l + maxArgs r
  | .andOr a b c => maxArgs a + max (maxArgs b) (maxArgs c)
  | .orI l r => 1 + max (maxArgs l) (maxArgs r)
  | .thresh _ xs => maxArgsL xs
def maxArgsL : MsList → Nat
  | .nil => 0
  | .cons x xs => maxArgs x + maxArgsL xs
end

/-- `pushInt k` always pushes the minimal encoding of `k` -/
theorem intBytes_eq_numEncode (k : Nat) : intBytes k = numEncode (k : Int) := by
  unfold intBytes
  split
  · rename_i h
    have : ∀ j : Fin 17, (if j.val = 0 then ([] : Bytes) else [UInt8.ofNat j.val]) = numEncode ((j.val : Nat) : Int) := by
      decide
    exact this ⟨k, by omega⟩
  · rfl

theorem drop_drop' (s : List Bytes) (n m : Nat) : (s.drop n).drop m = s.drop (n + m) := by
  rw [List.drop_drop]

/-! ### small numbers: `pushInt n` decodes back to `n` (needed for CHECKMULTISIG's key count) -/

theorem decode_intBytes : ∀ (b : Bool) (n : Fin 21), numDecode b 4 (intBytes n.val) = some (Int.ofNat n.val) := by
  decide +kernel

theorem insertByKey_length (ke : KeyEnv) (k : Key) (l : List Key) : (insertByKey ke k l).length = l.length + 1 := by
  induction l with
  | nil => rfl
  | cons x xs ih =>
    simp only [insertByKey]
    split
    · simp only [List.length_cons, ih]
    · simp only [List.length_cons]

theorem sortKeys_length (ke : KeyEnv) (ks : List Key) : (sortKeys ke ks).length = ks.length := by
  unfold sortKeys
  have : ∀ (acc : List Key), (ks.foldl (fun acc k => insertByKey ke k acc) acc).length = acc.length + ks.length := by
    induction ks with
    | nil => intro acc; rfl
    | cons k ks ih =>
      intro acc
      simp only [List.foldl_cons, List.length_cons]
      rw [ih, insertByKey_length]
      omega
  simpa using this []

/-- pushing a list of data elements -/
theorem seqOps_pushes_ok {env : Env} (bs : List Bytes) {c c' : Core}
    (h : seqOps env (bs.map Op.push) c = .ok c') : c'.stack = bs.reverse ++ c.stack ∧ c'.alt = c.alt := by
  induction bs generalizing c with
  | nil => rw [List.map_nil] at h; cases seqOps_nil_ok h; exact ⟨rfl, rfl⟩
  | cons b bs ih =>
    rw [List.map_cons] at h
    obtain ⟨c1, h1, h2⟩ := seqOps_cons_ok h
    obtain ⟨hs1, ha1⟩ := pushData_ok h1
    obtain ⟨hs2, ha2⟩ := ih h2
    exact ⟨by rw [hs2, hs1, List.reverse_cons, List.append_assoc]; rfl, ha2.trans ha1⟩

/-- a successful CHECKMULTISIG(VERIFY): it removed key count, keys, signature count, signatures
and the dummy, and pushed a boolean (resp. nothing) -/
theorem multisig_ok {env : Env} {c c' : Core} {v : Bool} (h : multisig env c v = .ok c') :
    ∃ nB r nI mB r1 mI dummy r2, c.stack = nB :: r ∧ numDecode env.flags.minimalNum 4 nB = some nI ∧
      0 ≤ nI ∧ r.drop nI.toNat = mB :: r1 ∧ numDecode env.flags.minimalNum 4 mB = some mI ∧
      r1.drop mI.toNat = dummy :: r2 ∧ c'.alt = c.alt ∧
      (if v then c'.stack = r2 else ∃ b, c'.stack = boolBytes b :: r2) := by
  unfold multisig at h
  dsimp only at h
  split at h
  · cases h
  · split at h
    · rename_i nB r hstk
      split at h
      · cases h
      · rename_i nI hnd
        split at h
        · cases h
        · rename_i hrange
          split at h
          · cases h
          · rename_i s hcnt
            have hs := countOp_ok hcnt
            split at h
            · cases h
            · split at h
              · rename_i mB r1 hr1
                split at h
                · cases h
                · rename_i mI hmd
                  split at h
                  · cases h
                  · split at h
                    · cases h
                    · split at h
                      · rename_i dummy r2 hr2
                        split at h
                        · cases h
                        · rename_i ok _
                          split at h
                          · cases h
                          · split at h
                            · cases h
                            · refine ⟨nB, r, nI, mB, r1, mI, dummy, r2, hstk, hnd, by omega, hr1, hmd, hr2, ?_, ?_⟩
                              · split at h
                                · split at h
                                  · cases h; exact hs.2
                                  · cases h
                                · exact (pushElem_ok h).2.trans hs.2
                              · split at h
                                · rename_i hv
                                  split at h
                                  · cases h; simp [hv]
                                  · cases h
                                · rename_i hv
                                  have := (pushElem_ok h).1
                                  simp only [hv]
                                  exact ⟨ok, this⟩
                      · cases h
              · cases h
    · cases h


theorem cms_ok {env : Env} {c c' : Core} (h : opc env .checkmultisig c = .ok c') :
    ∃ (nB : Bytes) (r : List Bytes) (nI : Int) (mB : Bytes) (r1 : List Bytes) (mI : Int) (dummy : Bytes) (r2 : List Bytes) (b : Bool), c.stack = nB :: r ∧ numDecode env.flags.minimalNum 4 nB = some nI ∧
      0 ≤ nI ∧ r.drop nI.toNat = mB :: r1 ∧ r1.drop mI.toNat = dummy :: r2 ∧ c'.alt = c.alt ∧
      c'.stack = boolBytes b :: r2 ∧ numDecode env.flags.minimalNum 4 mB = some mI := by
  obtain ⟨c1, hs, ha, h⟩ := opc_ok h
  rw [execOpc_cms] at h
  obtain ⟨nB, r, nI, mB, r1, mI, dummy, r2, h1, h2, h3, h4, h5, h6, h7, h8⟩ := multisig_ok h
  simp only [Bool.false_eq_true, if_false] at h8
  obtain ⟨b, hb⟩ := h8
  exact ⟨nB, r, nI, mB, r1, mI, dummy, r2, b, by rw [← hs, h1], h2, h3, h4, h6, h7.trans ha, hb, h5⟩

theorem drop_succ_of_drop_cons {s : List Bytes} {m : Nat} {d : Bytes} {r : List Bytes}
    (h : s.drop m = d :: r) : s.drop (m + 1) = r := by
  rw [← drop_drop', h]; rfl

/-- `multi` / `sortedmulti` with key list `kl` (at most 20 keys) -/
theorem multi_shape {env : Env} (ke : KeyEnv) (k : Nat) (kl : List Key) (hk : kl.length ≤ 20) {c c' : Core}
    (h : seqOps env ([pushInt k] ++ kl.map (fun pk => Op.push (ke.ser pk)) ++ [pushInt kl.length, .code .checkmultisig]) c
      = .ok c') :
    c'.alt = c.alt ∧ ∃ b m, m ≤ k + 1 ∧ c'.stack = boolBytes b :: c.stack.drop m := by
  obtain ⟨c2, h12, h3⟩ := seqOps_append_ok h
  obtain ⟨c1, h1, h2⟩ := seqOps_cons_ok (show seqOps env (pushInt k :: kl.map (fun pk => Op.push (ke.ser pk))) c = .ok c2 from h12)
  obtain ⟨hs1, ha1⟩ := pushInt_ok h1
  have hmm : kl.map (fun pk => Op.push (ke.ser pk)) = (kl.map ke.ser).map Op.push := by
    rw [List.map_map]; rfl
  rw [hmm] at h2
  obtain ⟨hs2, ha2⟩ := seqOps_pushes_ok _ h2
  obtain ⟨c3, h4, h5⟩ := seqOps_cons_ok h3
  obtain ⟨hs3, ha3⟩ := pushInt_ok h4
  obtain ⟨c4, h6, h7⟩ := seqOps_cons_ok h5
  cases seqOps_nil_ok h7
  obtain ⟨nB, r, nI, mB, r1, mI, dummy, r2, b, e1, e2, e3, e4, e5, e6, e7, e8⟩ := cms_ok h6
  rw [hs3, hs2, hs1] at e1
  simp only [List.cons.injEq] at e1
  obtain ⟨rfl, rfl⟩ := e1
  have hdec := decode_intBytes env.flags.minimalNum ⟨kl.length, by omega⟩
  simp only at hdec
  rw [hdec] at e2
  cases e2
  have hlen : ((kl.map ke.ser).reverse).length = kl.length := by simp
  rw [show (Int.ofNat kl.length).toNat = ((kl.map ke.ser).reverse).length from by rw [hlen]; rfl,
    List.drop_left] at e4
  simp only [List.cons.injEq] at e4
  obtain ⟨rfl, rfl⟩ := e4
  have hmk : mI = (k : Int) := by
    rw [intBytes_eq_numEncode] at e8
    exact decode_encode_nat e8
  refine ⟨by rw [e6, ha3, ha2, ha1], b, mI.toNat + 1, by omega, ?_⟩
  rw [e7, drop_succ_of_drop_cons e5]

/-- the `<pk> OP_CHECKSIGADD` repetitions of `multi_a` -/
theorem csa_loop_ok {env : Env} (ke : KeyEnv) (ks : List Key) {c c' : Core}
    (h : seqOps env (ks.flatMap fun pk => [Op.push (ke.ser pk), .code .checksigadd]) c = .ok c')
    {acc : Bytes} {tl : List Bytes} (hs : c.stack = acc :: tl) :
    ∃ acc', c'.stack = acc' :: tl.drop ks.length ∧ c'.alt = c.alt := by
  induction ks generalizing c acc tl with
  | nil => rw [List.flatMap_nil] at h; cases seqOps_nil_ok h; exact ⟨acc, hs, rfl⟩
  | cons k ks ih =>
    rw [List.flatMap_cons] at h
    obtain ⟨c1, h1, h2⟩ := seqOps_cons_ok (show seqOps env (Op.push (ke.ser k) :: .code .checksigadd ::
      ks.flatMap fun pk => [Op.push (ke.ser pk), .code .checksigadd]) c = .ok c' from h)
    obtain ⟨c2, h3, h4⟩ := seqOps_cons_ok h2
    obtain ⟨hs1, ha1⟩ := pushData_ok h1
    obtain ⟨a, b, d, r, v, e1, e2, e3⟩ := checksigadd_ok h3
    rw [hs1, hs] at e1
    simp only [List.cons.injEq] at e1
    obtain ⟨_, _, rfl⟩ := e1
    obtain ⟨acc', e4, e5⟩ := ih h4 e2
    exact ⟨acc', by rw [e4]; rfl, by rw [e5, e3, ha1]⟩

theorem multiA_shape {env : Env} (ke : KeyEnv) (k : Nat) (kl : List Key) {c c' : Core}
    (h : seqOps env (encodeMultiA ke kl ++ [pushInt k, .code .numequal]) c = .ok c') :
    c'.alt = c.alt ∧ ∃ b m, m ≤ max 1 kl.length ∧ c'.stack = boolBytes b :: c.stack.drop m := by
  obtain ⟨c2, h1, h2⟩ := seqOps_append_ok h
  obtain ⟨c3, h3, h4⟩ := seqOps_cons_ok h2
  obtain ⟨hs3, ha3⟩ := pushInt_ok h3
  obtain ⟨c4, h5, h6⟩ := seqOps_cons_ok h4
  cases seqOps_nil_ok h6
  obtain ⟨a, b, r, v, e1, e2, e3⟩ := bool2_ok (o := .numequal) (by simp) h5
  rw [hs3] at e1
  simp only [List.cons.injEq] at e1
  obtain ⟨_, e1⟩ := e1
  cases kl with
  | nil =>
    simp only [encodeMultiA] at h1
    cases seqOps_nil_ok h1
    exact ⟨by rw [e3, ha3], v, 1, by simp, by rw [e2, e1]; rfl⟩
  | cons k0 ks =>
    simp only [encodeMultiA] at h1
    obtain ⟨c5, h7, h8⟩ := seqOps_cons_ok (show seqOps env (Op.push (ke.ser k0) :: .code .checksig ::
      ks.flatMap fun pk => [Op.push (ke.ser pk), .code .checksigadd]) c = .ok c2 from h1)
    obtain ⟨c6, h9, h10⟩ := seqOps_cons_ok h8
    obtain ⟨hs5, ha5⟩ := pushData_ok h7
    obtain ⟨a', b', r', v', f1, f2, f3⟩ := bool2_ok (o := .checksig) (by simp) h9
    rw [hs5] at f1
    simp only [List.cons.injEq] at f1
    obtain ⟨_, f1⟩ := f1
    obtain ⟨acc', g1, g2⟩ := csa_loop_ok ke ks h10 f2
    rw [g1] at e1
    simp only [List.cons.injEq] at e1
    obtain ⟨_, e1⟩ := e1
    refine ⟨by rw [e3, ha3, g2, f3, ha5], v, ks.length + 1, by simp only [List.length_cons]; omega, ?_⟩
    rw [e2, ← e1, f1]
    rfl

theorem verifyTail_ok {env : Env} {fused : Bool} {c c' : Core} (h : verifyTail env fused c = .ok c') :
    ∃ a, c.stack = a :: c'.stack ∧ castToBool a = true ∧ c'.alt = c.alt := by
  cases fused
  · exact verify_ok h
  · simp only [verifyTail, if_true] at h
    split at h
    · rename_i a r hs
      split at h
      · rename_i hb; cases h; exact ⟨a, hs, hb, rfl⟩
      · cases h
    · cases h

theorem ifThen_ok {env : Env} {nf : Bool} {X : List Op} {f : Core → Except Err Core} {c c' : Core}
    (h : ifThen env nf X f c = .ok c') :
    ∃ a c1, c.stack = a :: c1.stack ∧ c1.alt = c.alt ∧
      ((condFlag nf a = true ∧ ∃ c2, f c1 = .ok c2 ∧ c'.stack = c2.stack ∧ c'.alt = c2.alt) ∨
       (condFlag nf a = false ∧ c'.stack = c1.stack ∧ c'.alt = c1.alt)) := by
  rw [ifThen_eq] at h
  obtain ⟨p, hp, h⟩ := bind_ok h
  obtain ⟨v, c1⟩ := p
  obtain ⟨a, hs, ha, hv⟩ := cnd_ok hp
  obtain ⟨c2, h2, h3⟩ := bind_ok h
  have h3' := countOp_ok h3
  refine ⟨a, c1, hs, ha, ?_⟩
  cases v with
  | true =>
    left
    exact ⟨hv.symm, c2, h2, h3'.1, h3'.2⟩
  | false =>
    right
    have := skipCount_ok h2
    exact ⟨hv.symm, h3'.1.trans this.1, h3'.2.trans this.2⟩

theorem ifElse_ok {env : Env} {nf : Bool} {X Y : List Op} {f g : Core → Except Err Core} {c c' : Core}
    (h : ifElse env nf X Y f g c = .ok c') :
    ∃ a c1 c2, c.stack = a :: c1.stack ∧ c1.alt = c.alt ∧ c'.stack = c2.stack ∧ c'.alt = c2.alt ∧
      ((condFlag nf a = true ∧ f c1 = .ok c2) ∨
       (condFlag nf a = false ∧ ∃ c1', c1'.stack = c1.stack ∧ c1'.alt = c1.alt ∧ g c1' = .ok c2)) := by
  rw [ifElse_eq] at h
  obtain ⟨p, hp, h⟩ := bind_ok h
  obtain ⟨v, c1⟩ := p
  obtain ⟨a, hs, ha, hv⟩ := cnd_ok hp
  obtain ⟨c2, h2, h⟩ := bind_ok h
  obtain ⟨c3, h3, h⟩ := bind_ok h
  obtain ⟨c4, h4, h5⟩ := bind_ok h
  have h3' := countOp_ok h3
  have h5' := countOp_ok h5
  cases v with
  | true =>
    have h4' := skipCount_ok h4
    exact ⟨a, c1, c2, hs, ha, by rw [h5'.1, h4'.1, h3'.1], by rw [h5'.2, h4'.2, h3'.2], Or.inl ⟨hv.symm, h2⟩⟩
  | false =>
    have h2' := skipCount_ok h2
    exact ⟨a, c1, c4, hs, ha, h5'.1, h5'.2,
      Or.inr ⟨hv.symm, c3, by rw [h3'.1, h2'.1], by rw [h3'.2, h2'.2], h4⟩⟩

end MsVerif.TypeSound

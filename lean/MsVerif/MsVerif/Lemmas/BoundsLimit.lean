/-
C09 helper lemmas, part 11: switching the 201-opcode limit ON does not change the run of a
script without CHECKMULTISIG whose opcode total stays within the limit.
-/
import MsVerif.Lemmas.BoundsOps

namespace MsVerif.C09
open MsVerif Script

/-- the same environment with the opcode limit enforced -/
def withOpLimit (env : Env) : Env := { env with flags := { env.flags with opLimit := true } }

theorem countOp_opLimit (env : Env) (c : Core) (n : Nat) (h : c.ops + n ≤ 201) :
    countOp (withOpLimit env) c n = countOp env c n := by
  have hd : decide (c.ops + n > 201) = false := by simp; omega
  simp [countOp, withOpLimit, hd]

theorem execOpc_opLimit (env : Env) (o : Opc) (c : Core)
    (ho : o ≠ .checkmultisig ∧ o ≠ .checkmultisigverify) :
    execOpc (withOpLimit env) o c = execOpc env o c := by
  obtain ⟨st, al, ops⟩ := c
  cases o
  all_goals first
    | exact absurd rfl ho.1
    | exact absurd rfl ho.2
    | (rcases st with _ | ⟨a, _ | ⟨b, _ | ⟨d, r⟩⟩⟩ <;> rfl)

theorem step_opLimit (env : Env) (s : State) (op : Op) (hm : isMultisig op = false)
    (h : s.core.ops + (if isCode op then 1 else 0) ≤ 201) :
    step (withOpLimit env) s op = step env s op := by
  cases op with
  | bad b => rfl
  | small n => rfl
  | push bs => rfl
  | code o =>
    have ho : o ≠ .checkmultisig ∧ o ≠ .checkmultisigverify := by
      constructor <;> (intro he; subst he; simp [isMultisig] at hm)
    have hc := countOp_opLimit env s.core 1 (by simpa [isCode] using h)
    unfold step
    simp only [hc]
    cases countOp env s.core 1 with
    | error e => rfl
    | ok c =>
      simp only
      have he := execOpc_opLimit env o c ho
      cases o <;> first
        | rfl
        | (simp only [he])
        | (exact absurd rfl ho.1)
        | (exact absurd rfl ho.2)

/-- a script without CHECKMULTISIG whose start counter plus opcode total is ≤ 201 runs
identically with the opcode limit on and off (errors included) -/
theorem run_opLimit (env : Env) : ∀ (script : List Op) (s : State),
    script.all (fun op => !isMultisig op) = true → s.core.ops + codeCount script ≤ 201 →
    run (withOpLimit env) script s = run env script s := by
  intro script
  induction script with
  | nil => intro s _ _; rfl
  | cons op rest ih =>
    intro s hm hle
    simp only [List.all_cons, Bool.and_eq_true, Bool.not_eq_true'] at hm
    have hcc : codeCount (op :: rest) = (if isCode op then 1 else 0) + codeCount rest := by
      cases op <;> simp [isCode, codeCount, List.filter_cons] <;> omega
    rw [hcc] at hle
    have hs := step_opLimit env s op hm.1 (by omega)
    simp only [run, List.foldlM_cons, hs]
    cases hst : step env s op with
    | error e => rfl
    | ok s1 =>
      have h1 := step_ops hm.1 hst
      exact ih s1 hm.2 (by omega)

end MsVerif.C09

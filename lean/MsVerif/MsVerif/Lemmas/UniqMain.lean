/-
C03 (uniqueness), part 3: the induction over the typing derivation.

For a script of non-malleable type whose keys are pairwise distinct, the NON-malleable satisfier
(`satDissat`, `mall = false`, `root_has_sig = true`, all preimages known to the caller, lock units
compatible) and an adversary `adv` who holds at most the caller's signatures and faces the same
transaction: the satisfaction (and, for type `dissat = unique`, the dissatisfaction) satisfies
`AltInv` w.r.t. the table's complete enumeration `SatAll.allSat` / `allDsat`.
-/
import MsVerif.Lemmas.UniqAlt
import MsVerif.Lemmas.UniqMulti
import MsVerif.Lemmas.UniqThresh

set_option linter.unusedSimpArgs false
set_option linter.unusedVariables false

namespace MsVerif.Uniq
open MsVerif Sat SatTable SatAll MalleLattice Complete

variable {adv : Avail} {sortK : List Key → List Key}

section
variable (c : SatCfg) (ua ur : Bool)

/-- `nm_inv` for the model's own satisfier -/
theorem nmInv' (hm : c.mall = false) (hr : c.rootHasSig = true) (ms : Ms) (τ : Ty)
    (hτ : typeOf ms = some τ) (hnm : τ.mall.nonMall = true)
    (hP : allNodes (nmP MODEL_NZ c.assets ua ur) ms = true) :
    NMInv ua ur (availOf c.assets c.ctx) ms τ.mall (satDissat c ms) := by
  have := nm_inv MODEL_NZ c ua ur hm hr ms τ hτ hnm hP
  rwa [satDissatG_model] at this

theorem nodup_left {a b : List Key} (h : (a ++ b).Nodup) : a.Nodup := (List.nodup_append.mp h).1
theorem nodup_right {a b : List Key} (h : (a ++ b).Nodup) : b.Nodup := (List.nodup_append.mp h).2.1

theorem mem_append_comm {α : Type} (a b : List α) (t : α) : t ∈ a ++ b ↔ t ∈ b ++ a := by
  simp [List.mem_append, or_comm]

mutual
theorem uinv (hm : c.mall = false) (hr : c.rootHasSig = true)
    (hadv : AdvOK adv (availOf c.assets c.ctx)) :
    (ms : Ms) → (τ : Ty) → typeOf ms = some τ → τ.mall.nonMall = true →
      allNodes (nmP MODEL_NZ c.assets ua ur) ms = true → allNodes (uP c.ctx) ms = true →
      (keysOf ms).Nodup →
      UInv adv (sortKeys' c.env) ms τ.mall (satDissat c ms)
  | .fls, τ, hτ, _, _, _, _ => by
    simp only [typeOf, Option.some.injEq] at hτ; subst hτ
    exact uinv_fls c
  | .tru, τ, hτ, _, _, _, _ => by
    simp only [typeOf, Option.some.injEq] at hτ; subst hτ
    exact uinv_tru c
  | .pkK k, τ, hτ, _, _, _, _ => by
    simp only [typeOf, Option.some.injEq] at hτ; subst hτ
    exact uinv_pkK c hm hadv k
  | .pkH k, τ, hτ, _, _, _, _ => by
    simp only [typeOf, Option.some.injEq] at hτ; subst hτ
    exact uinv_pkH c hm hadv k
  | .rawPkH h, τ, _, _, hP, _, _ => by
    simp [allNodes, subterms, nmP, isNotRawPkH] at hP
  | .multi k ks, τ, hτ, _, _, hU, hnd => by
    simp only [typeOf, Option.some.injEq] at hτ; subst hτ
    simp only [allNodes, subterms, List.all_cons, List.all_nil, uP, Bool.and_eq_true, decide_eq_true_eq,
      bne_iff_ne, ne_eq] at hU
    exact uinv_multi c hm hadv k ks hU.1.1 hU.1.2 hnd
  | .sortedMulti k ks, τ, hτ, _, _, hU, hnd => by
    simp only [typeOf, Option.some.injEq] at hτ; subst hτ
    simp only [allNodes, subterms, List.all_cons, List.all_nil, uP, Bool.and_eq_true, decide_eq_true_eq,
      bne_iff_ne, ne_eq] at hU
    exact uinv_sortedMulti c hm hadv k ks hU.1.1 hU.1.2 hnd
  | .multiA k ks, τ, hτ, _, _, hU, hnd => by
    simp only [typeOf, Option.some.injEq] at hτ; subst hτ
    simp only [allNodes, subterms, List.all_cons, List.all_nil, uP, Bool.and_eq_true, decide_eq_true_eq,
      beq_iff_eq] at hU
    exact uinv_multiA c hm hadv k ks hU.1.1 hU.1.2 hnd
  | .sortedMultiA k ks, τ, hτ, _, _, hU, hnd => by
    simp only [typeOf, Option.some.injEq] at hτ; subst hτ
    simp only [allNodes, subterms, List.all_cons, List.all_nil, uP, Bool.and_eq_true, decide_eq_true_eq,
      beq_iff_eq] at hU
    exact uinv_sortedMultiA c hm hadv k ks hU.1.1 hU.1.2 hnd
  | .after n, τ, hτ, _, _, _, _ => by
    simp only [typeOf, Option.some.injEq] at hτ; subst hτ
    exact uinv_after c hm hr hadv n
  | .older n, τ, hτ, _, _, _, _ => by
    simp only [typeOf, Option.some.injEq] at hτ; subst hτ
    exact uinv_older c hm hr hadv n
  | .hash kind h, τ, hτ, _, hP, _, _ => by
    simp only [typeOf, Option.some.injEq] at hτ; subst hτ
    simp only [allNodes, subterms, List.all_cons, List.all_nil, nmP, preKnown, Bool.and_eq_true] at hP
    exact uinv_hash c hm kind h hP.1.1.2
  | .alt x, τ, hτ, hnm, hP, hU, hnd => by
    simp only [allNodes, subterms, List.all_cons, Bool.and_eq_true] at hP hU
    simp only [typeOf] at hτ
    obtain ⟨t, ht, hg⟩ := unary_type hτ
    have hM : τ.mall = t.mall := lift1_mall hg
    rw [hM] at hnm ⊢
    have ih := uinv hm hr hadv x t ht hnm hP.2 hU.2 hnd
    exact ⟨by simpa only [satDissat, keysOf, allSat] using ih.sat,
      fun h => by simpa only [satDissat, keysOf, allDsat] using ih.du h,
      fun h => by simpa only [allDsat] using ih.dn h⟩
  | .swap x, τ, hτ, hnm, hP, hU, hnd => by
    simp only [allNodes, subterms, List.all_cons, Bool.and_eq_true] at hP hU
    simp only [typeOf] at hτ
    obtain ⟨t, ht, hg⟩ := unary_type hτ
    have hM : τ.mall = t.mall := lift1_mall hg
    rw [hM] at hnm ⊢
    have ih := uinv hm hr hadv x t ht hnm hP.2 hU.2 hnd
    exact ⟨by simpa only [satDissat, keysOf, allSat] using ih.sat,
      fun h => by simpa only [satDissat, keysOf, allDsat] using ih.du h,
      fun h => by simpa only [allDsat] using ih.dn h⟩
  | .check x, τ, hτ, hnm, hP, hU, hnd => by
    simp only [allNodes, subterms, List.all_cons, Bool.and_eq_true] at hP hU
    simp only [typeOf] at hτ
    obtain ⟨t, ht, hg⟩ := unary_type hτ
    have hM : τ.mall = t.mall := lift1_mall hg
    rw [hM] at hnm ⊢
    have ih := uinv hm hr hadv x t ht hnm hP.2 hU.2 hnd
    exact ⟨by simpa only [satDissat, keysOf, allSat] using ih.sat,
      fun h => by simpa only [satDissat, keysOf, allDsat] using ih.du h,
      fun h => by simpa only [allDsat] using ih.dn h⟩
  | .zeroNotEqual x, τ, hτ, hnm, hP, hU, hnd => by
    simp only [allNodes, subterms, List.all_cons, Bool.and_eq_true] at hP hU
    simp only [typeOf] at hτ
    obtain ⟨t, ht, hg⟩ := unary_type hτ
    have hM : τ.mall = t.mall := lift1_mall hg
    rw [hM] at hnm ⊢
    have ih := uinv hm hr hadv x t ht hnm hP.2 hU.2 hnd
    exact ⟨by simpa only [satDissat, keysOf, allSat] using ih.sat,
      fun h => by simpa only [satDissat, keysOf, allDsat] using ih.du h,
      fun h => by simpa only [allDsat] using ih.dn h⟩
  | .dupIf x, τ, hτ, hnm, hP, hU, hnd => by
    simp only [allNodes, subterms, List.all_cons, Bool.and_eq_true] at hP hU
    simp only [typeOf] at hτ
    obtain ⟨t, ht, hg⟩ := unary_type hτ
    have hM : τ.mall = Mall.castDupIf t.mall := lift1_mall hg
    rw [hM] at hnm ⊢
    have ih := uinv hm hr hadv x t ht (by simpa [Mall.castDupIf] using hnm) hP.2 hU.2 hnd
    refine ⟨?_, fun _ => ?_, fun h => absurd h (wrapD_not_none _)⟩
    · simp only [satDissat, keysOf, allSat]
      exact altInv_push ih.sat .pushOne (fun _ h => by cases h)
    · simp only [satDissat, keysOf, allDsat]
      exact altInv_lit _ [.pushZero] (fun k h => by simp [items, phItem] at h) _ _
  | .verify x, τ, hτ, hnm, hP, hU, hnd => by
    simp only [allNodes, subterms, List.all_cons, Bool.and_eq_true] at hP hU
    simp only [typeOf] at hτ
    obtain ⟨t, ht, hg⟩ := unary_type hτ
    have hM : τ.mall = Mall.castVerify t.mall := lift1_mall hg
    rw [hM] at hnm ⊢
    have ih := uinv hm hr hadv x t ht (by simpa [Mall.castVerify] using hnm) hP.2 hU.2 hnd
    refine ⟨?_, fun h => by simp [Mall.castVerify] at h, fun _ => by simp only [allDsat]⟩
    simpa only [satDissat, keysOf, allSat] using ih.sat
  | .nonZero x, τ, hτ, hnm, hP, hU, hnd => by
    simp only [allNodes, subterms, List.all_cons, Bool.and_eq_true] at hP hU
    simp only [typeOf] at hτ
    obtain ⟨t, ht, hg⟩ := unary_type hτ
    have hM : τ.mall = Mall.castNonZero t.mall := lift1_mall hg
    rw [hM] at hnm ⊢
    have ih := uinv hm hr hadv x t ht (by simpa [Mall.castNonZero] using hnm) hP.2 hU.2 hnd
    refine ⟨?_, fun _ => ?_, fun h => absurd h (wrapD_not_none _)⟩
    · simpa only [satDissat, keysOf, allSat] using ih.sat
    · simp only [satDissat, keysOf, allDsat]
      exact altInv_lit _ [.pushZero] (fun k h => by simp [items, phItem] at h) _ _
  | .andB l r, τ, hτ, hnm, hP, hU, hnd => by
    simp only [allNodes, subterms, List.all_cons, List.all_append, Bool.and_eq_true] at hP hU
    simp only [typeOf] at hτ
    cases htl : typeOf l with
    | none => simp [htl] at hτ
    | some tl =>
    cases htr : typeOf r with
    | none => simp [htl, htr] at hτ
    | some tr =>
    simp only [htl, htr] at hτ
    have hM : τ.mall = Mall.andB tl.mall tr.mall := lift2_mall hτ
    rw [hM] at hnm ⊢
    simp only [Mall.andB, Bool.and_eq_true] at hnm
    simp only [keysOf] at hnd
    have nl := nmInv' c ua ur hm hr l tl htl hnm.1 hP.2.1
    have nr := nmInv' c ua ur hm hr r tr htr hnm.2 hP.2.2
    have il := uinv hm hr hadv l tl htl hnm.1 hP.2.1 hU.2.1 (nodup_left hnd)
    have ir := uinv hm hr hadv r tr htr hnm.2 hP.2.2 hU.2.2 (nodup_right hnd)
    have hd := disj_of_nodup hnd
    refine ⟨?_, fun h => ?_, fun h => ?_⟩
    · simp only [satDissat, keysOf, allSat]
      exact altInv_concat il.sat ir.sat nl.lockS nr.lockS hd
    · obtain ⟨ul, ur'⟩ := andB_unique _ _ h
      simp only [satDissat, keysOf, allDsat]
      exact altInv_concat (il.du ul) (ir.du ur') nl.lockD nr.lockD (disj_nil_left _)
    · simp only [allDsat]
      rcases andB_none _ _ h with h' | h'
      · rw [il.dn h']; exact cat_nil_right _
      · rw [ir.dn h']; rfl
  | .andV l r, τ, hτ, hnm, hP, hU, hnd => by
    simp only [allNodes, subterms, List.all_cons, List.all_append, Bool.and_eq_true] at hP hU
    simp only [typeOf] at hτ
    cases htl : typeOf l with
    | none => simp [htl] at hτ
    | some tl =>
    cases htr : typeOf r with
    | none => simp [htl, htr] at hτ
    | some tr =>
    simp only [htl, htr] at hτ
    have hM : τ.mall = Mall.andV tl.mall tr.mall := lift2_mall hτ
    rw [hM] at hnm ⊢
    simp only [Mall.andV, Bool.and_eq_true] at hnm
    simp only [keysOf] at hnd
    have nl := nmInv' c ua ur hm hr l tl htl hnm.1 hP.2.1
    have nr := nmInv' c ua ur hm hr r tr htr hnm.2 hP.2.2
    have il := uinv hm hr hadv l tl htl hnm.1 hP.2.1 hU.2.1 (nodup_left hnd)
    have ir := uinv hm hr hadv r tr htr hnm.2 hP.2.2 hU.2.2 (nodup_right hnd)
    refine ⟨?_, fun h => absurd h (andV_not_unique _ _), fun _ => by simp only [allDsat]⟩
    simp only [satDissat, keysOf, allSat]
    exact altInv_concat il.sat ir.sat nl.lockS nr.lockS (disj_of_nodup hnd)
  | .andOr a b z, τ, hτ, hnm, hP, hU, hnd => by
    simp only [allNodes, subterms, List.all_cons, List.all_append, Bool.and_eq_true] at hP hU
    simp only [typeOf] at hτ
    cases hta : typeOf a with
    | none => simp [hta] at hτ
    | some ta =>
    cases htb : typeOf b with
    | none => simp [hta, htb] at hτ
    | some tb =>
    cases htz : typeOf z with
    | none => simp [hta, htb, htz] at hτ
    | some tz =>
    simp only [hta, htb, htz] at hτ
    have hM : τ.mall = Mall.andOr ta.mall tb.mall tz.mall := andOr_mall hτ
    rw [hM] at hnm ⊢
    simp only [Mall.andOr, Bool.and_eq_true, beq_iff_eq] at hnm
    obtain ⟨⟨⟨⟨hma, hmz⟩, hda⟩, hmb⟩, _⟩ := hnm
    simp only [keysOf] at hnd
    have hnda := nodup_left hnd
    have hndbz := nodup_right hnd
    have na := nmInv' c ua ur hm hr a ta hta hma hP.2.1.1
    have nb := nmInv' c ua ur hm hr b tb htb hmb hP.2.1.2
    have nz := nmInv' c ua ur hm hr z tz htz hmz hP.2.2
    have ia := uinv hm hr hadv a ta hta hma hP.2.1.1 hU.2.1.1 hnda
    have ib := uinv hm hr hadv b tb htb hmb hP.2.1.2 hU.2.1.2 (nodup_left hndbz)
    have iz := uinv hm hr hadv z tz htz hmz hP.2.2 hU.2.2 (nodup_right hndbz)
    have dab : Disj (keysOf a) (keysOf b) := fun k h1 h2 => disj_of_nodup hnd k h1 (by simp [h2])
    have daz : Disj (keysOf a) (keysOf z) := fun k h1 h2 => disj_of_nodup hnd k h1 (by simp [h2])
    have dbz : Disj (keysOf b) (keysOf z) := disj_of_nodup hndbz
    refine ⟨?_, fun h => ?_, fun h => ?_⟩
    · simp only [satDissat, keysOf, allSat, minFn_nonmall c hm]
      have alt1 := altInv_concat ia.sat ib.sat na.lockS nb.lockS dab
      have alt2' := altInv_concat (ia.du hda) iz.sat na.lockD nz.lockS (disj_nil_left _)
      simp only [List.nil_append] at alt2'
      have hdisj : Disj (keysOf a ++ keysOf b) (keysOf z) := fun k h1 h2 => by
        rcases List.mem_append.mp h1 with h | h
        · exact daz k h h2
        · exact dbz k h h2
      exact (altInv_min alt1 alt2' hdisj).congr (fun k => by simp [List.mem_append, or_assoc])
        (fun t ht => ht) (fun h0 => h0)
    · simp only [satDissat, keysOf, allDsat]
      exact altInv_concat (ia.du hda) (iz.du (andOr_unique _ _ _ h)) na.lockD nz.lockD (disj_nil_left _)
    · simp only [allDsat]
      rw [iz.dn (andOr_none _ _ _ h)]; rfl
  | .orB l r, τ, hτ, hnm, hP, hU, hnd => by
    simp only [allNodes, subterms, List.all_cons, List.all_append, Bool.and_eq_true] at hP hU
    simp only [typeOf] at hτ
    cases htl : typeOf l with
    | none => simp [htl] at hτ
    | some tl =>
    cases htr : typeOf r with
    | none => simp [htl, htr] at hτ
    | some tr =>
    simp only [htl, htr] at hτ
    have hM : τ.mall = Mall.orB tl.mall tr.mall := lift2_mall hτ
    rw [hM] at hnm ⊢
    simp only [Mall.orB, Bool.and_eq_true, beq_iff_eq] at hnm
    obtain ⟨⟨⟨⟨hml, hdl⟩, hmr⟩, hdr⟩, _⟩ := hnm
    simp only [keysOf] at hnd
    have nl := nmInv' c ua ur hm hr l tl htl hml hP.2.1
    have nr := nmInv' c ua ur hm hr r tr htr hmr hP.2.2
    have il := uinv hm hr hadv l tl htl hml hP.2.1 hU.2.1 (nodup_left hnd)
    have ir := uinv hm hr hadv r tr htr hmr hP.2.2 hU.2.2 (nodup_right hnd)
    have hd := disj_of_nodup hnd
    refine ⟨?_, fun _ => ?_, fun h => by simp [Mall.orB] at h⟩
    · simp only [satDissat, keysOf, allSat, minFn_nonmall c hm]
      have alt1' := altInv_concat (il.du hdl) ir.sat nl.lockD nr.lockS (disj_nil_left _)
      have alt2' := altInv_concat il.sat (ir.du hdr) nl.lockS nr.lockD (disj_nil_right _)
      simp only [List.nil_append, List.append_nil] at alt1' alt2'
      have hd' : Disj (keysOf r) (keysOf l) := fun k h1 h2 => hd k h2 h1
      exact (altInv_min alt1' alt2' hd').congr (fun k => by simp [List.mem_append, or_comm])
        (fun t ht => (mem_append_comm _ _ t).mp ht)
        (fun h0 => by
          have h1 := List.append_eq_nil_iff.mp h0
          rw [h1.1, h1.2]; rfl)
    · simp only [satDissat, keysOf, allDsat]
      exact altInv_concat (il.du hdl) (ir.du hdr) nl.lockD nr.lockD (disj_nil_left _)
  | .orC l r, τ, hτ, hnm, hP, hU, hnd => by
    simp only [allNodes, subterms, List.all_cons, List.all_append, Bool.and_eq_true] at hP hU
    simp only [typeOf] at hτ
    cases htl : typeOf l with
    | none => simp [htl] at hτ
    | some tl =>
    cases htr : typeOf r with
    | none => simp [htl, htr] at hτ
    | some tr =>
    simp only [htl, htr] at hτ
    have hM : τ.mall = Mall.orC tl.mall tr.mall := lift2_mall hτ
    rw [hM] at hnm ⊢
    simp only [Mall.orC, Bool.and_eq_true, beq_iff_eq] at hnm
    obtain ⟨⟨⟨hml, hdl⟩, hmr⟩, _⟩ := hnm
    simp only [keysOf] at hnd
    have nl := nmInv' c ua ur hm hr l tl htl hml hP.2.1
    have nr := nmInv' c ua ur hm hr r tr htr hmr hP.2.2
    have il := uinv hm hr hadv l tl htl hml hP.2.1 hU.2.1 (nodup_left hnd)
    have ir := uinv hm hr hadv r tr htr hmr hP.2.2 hU.2.2 (nodup_right hnd)
    have hd := disj_of_nodup hnd
    refine ⟨?_, fun h => by simp [Mall.orC] at h, fun _ => by simp only [allDsat]⟩
    simp only [satDissat, keysOf, allSat, minFn_nonmall c hm]
    have alt2' := altInv_concat (il.du hdl) ir.sat nl.lockD nr.lockS (disj_nil_left _)
    simp only [List.nil_append] at alt2'
    exact altInv_min il.sat alt2' hd
  | .orD l r, τ, hτ, hnm, hP, hU, hnd => by
    simp only [allNodes, subterms, List.all_cons, List.all_append, Bool.and_eq_true] at hP hU
    simp only [typeOf] at hτ
    cases htl : typeOf l with
    | none => simp [htl] at hτ
    | some tl =>
    cases htr : typeOf r with
    | none => simp [htl, htr] at hτ
    | some tr =>
    simp only [htl, htr] at hτ
    have hM : τ.mall = Mall.orD tl.mall tr.mall := lift2_mall hτ
    rw [hM] at hnm ⊢
    simp only [Mall.orD, Bool.and_eq_true, beq_iff_eq] at hnm
    obtain ⟨⟨⟨hml, hdl⟩, hmr⟩, _⟩ := hnm
    simp only [keysOf] at hnd
    have nl := nmInv' c ua ur hm hr l tl htl hml hP.2.1
    have nr := nmInv' c ua ur hm hr r tr htr hmr hP.2.2
    have il := uinv hm hr hadv l tl htl hml hP.2.1 hU.2.1 (nodup_left hnd)
    have ir := uinv hm hr hadv r tr htr hmr hP.2.2 hU.2.2 (nodup_right hnd)
    have hd := disj_of_nodup hnd
    refine ⟨?_, fun h => ?_, fun h => ?_⟩
    · simp only [satDissat, keysOf, allSat, minFn_nonmall c hm]
      have alt2' := altInv_concat (il.du hdl) ir.sat nl.lockD nr.lockS (disj_nil_left _)
      simp only [List.nil_append] at alt2'
      exact altInv_min il.sat alt2' hd
    · simp only [satDissat, keysOf, allDsat]
      exact altInv_concat (il.du hdl) (ir.du (by simpa [Mall.orD] using h)) nl.lockD nr.lockD (disj_nil_left _)
    · simp only [allDsat]
      rw [ir.dn (by simpa [Mall.orD] using h)]; rfl
  | .orI l r, τ, hτ, hnm, hP, hU, hnd => by
    simp only [allNodes, subterms, List.all_cons, List.all_append, Bool.and_eq_true] at hP hU
    simp only [typeOf] at hτ
    cases htl : typeOf l with
    | none => simp [htl] at hτ
    | some tl =>
    cases htr : typeOf r with
    | none => simp [htl, htr] at hτ
    | some tr =>
    simp only [htl, htr] at hτ
    have hM : τ.mall = Mall.orI tl.mall tr.mall := lift2_mall hτ
    rw [hM] at hnm ⊢
    simp only [Mall.orI, Bool.and_eq_true] at hnm
    obtain ⟨⟨hml, hmr⟩, _⟩ := hnm
    simp only [keysOf] at hnd
    have nl := nmInv' c ua ur hm hr l tl htl hml hP.2.1
    have nr := nmInv' c ua ur hm hr r tr htr hmr hP.2.2
    have il := uinv hm hr hadv l tl htl hml hP.2.1 hU.2.1 (nodup_left hnd)
    have ir := uinv hm hr hadv r tr htr hmr hP.2.2 hU.2.2 (nodup_right hnd)
    have hd := disj_of_nodup hnd
    refine ⟨?_, fun h => ?_, fun h => ?_⟩
    · simp only [satDissat, keysOf, allSat, minFn_nonmall c hm]
      exact altInv_min (altInv_push il.sat .pushOne (fun _ h => by cases h))
        (altInv_push ir.sat .pushZero (fun _ h => by cases h)) hd
    · simp only [satDissat, keysOf, allDsat, minFn_nonmall c hm]
      rcases orI_unique _ _ h with ⟨h1, h2⟩ | ⟨h1, h2⟩
      · rw [ir.dn h2, cat_nil_left, List.append_nil]
        have a1 := altInv_push (il.du h1) .pushOne (fun _ h => by cases h)
        have hst := min_left_stack
          (s1 := { (satDissat c l).dissat with stack := Wit.combine (satDissat c l).dissat.stack (.stack [.pushOne]) })
          (s2 := { (satDissat c r).dissat with stack := Wit.combine (satDissat c r).dissat.stack (.stack [.pushZero]) })
          (by rw [push_isStk rfl]; exact (nl.du h1).1) (nl.du h1).2
          (push_sigOrImp rfl rfl (nr.dn h2))
        exact altInv_stackEq a1 hst.1 hst.2
      · rw [il.dn h1, cat_nil_left, List.nil_append]
        have a2 := altInv_push (ir.du h2) .pushZero (fun _ h => by cases h)
        have hst := min_right_stack
          (s1 := { (satDissat c l).dissat with stack := Wit.combine (satDissat c l).dissat.stack (.stack [.pushOne]) })
          (s2 := { (satDissat c r).dissat with stack := Wit.combine (satDissat c r).dissat.stack (.stack [.pushZero]) })
          (by rw [push_isStk rfl]; exact (nr.du h2).1) (nr.du h2).2
          (push_sigOrImp rfl rfl (nl.dn h1))
        exact altInv_stackEq a2 hst.1 hst.2
    · simp only [allDsat]
      obtain ⟨h1, h2⟩ := orI_none _ _ h
      rw [il.dn h1, ir.dn h2]; rfl
  | .thresh k xs, τ, hτ, hnm, hP, hU, hnd => by
    simp only [allNodes, subterms, List.all_cons, Bool.and_eq_true] at hP hU
    simp only [typeOf] at hτ
    obtain ⟨ts, hts, hth⟩ := Option.bind_eq_some_iff.mp hτ
    have hM : τ.mall = Mall.threshold k (ts.map (·.mall)) := threshold_mall hth
    obtain ⟨htsEq, htyx⟩ := typesOf_eq xs ts hts
    have hmap : ts.map (·.mall) = xs.toList.map (fun x => (tyOf x).mall) := by
      rw [htsEq, List.map_map]; rfl
    rw [hM] at hnm ⊢
    rw [hmap] at hnm ⊢
    obtain ⟨hallM, hallU, hcnt, hsgn, hdnn⟩ := threshold_facts k _ hnm
    rw [List.all_map, List.all_eq_true] at hallM hallU
    simp only [keysOf] at hnd
    have hkk : 1 ≤ k ∧ k ≤ xs.length := by
      have := hP.1
      simp only [nmP, threshKOK, Bool.and_eq_true, decide_eq_true_eq] at this
      exact this.2
    have ihs := uinvs hm hr hadv xs hP.2 hU.2 hnd
    have nms : ∀ x ∈ xs.toList, NMInv ua ur (availOf c.assets c.ctx) x (tyOf x).mall (satDissat c x) :=
      fun x hx => nmInv' c ua ur hm hr x (tyOf x) (htyx x hx) (by simpa using hallM x hx)
        (allNodesL_mem xs hP.2 x hx)
    have := thresh_uinv (adv := adv) c hm k xs (fun x => (tyOf x).mall) _ ua ur
      (fun x hx => ihs x hx (tyOf x) (htyx x hx) (by simpa using hallM x hx))
      nms (fun x hx => by simpa using hallU x hx) hkk.1 (by rw [MsList.length_toList]; exact hkk.2)
      hnd hdnn
    simpa only [satDissat, hm, satDissats_eq_map, keysOf, allSat, allDsat, Bool.false_eq_true, if_false] using this
theorem uinvs (hm : c.mall = false) (hr : c.rootHasSig = true)
    (hadv : AdvOK adv (availOf c.assets c.ctx)) :
    (xs : MsList) → allNodesL (nmP MODEL_NZ c.assets ua ur) xs = true →
      allNodesL (uP c.ctx) xs = true → (keysOfL xs).Nodup →
      ∀ x ∈ xs.toList, ∀ t, typeOf x = some t → t.mall.nonMall = true →
        UInv adv (sortKeys' c.env) x t.mall (satDissat c x)
  | .nil, _, _, _ => by simp [MsList.toList]
  | .cons y ys, hP, hU, hnd => by
    rw [allNodesL_cons, Bool.and_eq_true] at hP hU
    simp only [keysOfL] at hnd
    intro x hx
    simp only [MsList.toList, List.mem_cons] at hx
    rcases hx with h | hx
    · rw [h]; exact fun t ht hnm => uinv hm hr hadv y t ht hnm hP.1 hU.1 (nodup_left hnd)
    · exact uinvs hm hr hadv ys hP.2 hU.2 (nodup_right hnd) x hx
end

end

end MsVerif.Uniq

/-
C03 (uniqueness), part 4: the statements without the induction's bookkeeping parameters, and
the link of the complete enumeration to the trusted first-match table (`dsatWit ∈ allDsat`).
-/
import MsVerif.Lemmas.UniqMain
import MsVerif.Model.Validate

set_option linter.unusedSimpArgs false
set_option linter.unusedVariables false

namespace MsVerif.Uniq
open MsVerif Sat SatTable SatAll MalleLattice Complete

theorem sortKeys'_fun (ke : KeyEnv) : sortKeys' ke = sortKeys ke :=
  funext (SatSpec.sortKeys'_eq ke)

/-- the side conditions of the uniqueness theorems, as in C02's `nonmall_complete`, plus:
pairwise distinct keys, multisig thresholds ≥ 1 and fragments of the right context -/
structure SideOK (ctx : Ctx) (a : Assets) (ms : Ms) : Prop where
  keys : (keysOf ms).Nodup
  raw : allNodes isNotRawPkH ms = true
  pre : allNodes (preKnown a) ms = true
  kok : allNodes threshKOK ms = true
  locks : ∀ s ∈ subterms ms, ∀ t ∈ subterms ms, lockCompat a s t = true
  frag : allNodes (uP ctx) ms = true

theorem uinv_top (ke : KeyEnv) (ctx : Ctx) (a : Assets) (ms : Ms) (τ : Ty) (adv : Avail)
    (hτ : typeOf ms = some τ) (hm : τ.mall.nonMall = true) (hside : SideOK ctx a ms)
    (hadv : AdvOK adv (availOf a ctx)) :
    UInv adv (sortKeys ke) ms τ.mall (satDissat ⟨ke, ctx, false, true, a⟩ ms) := by
  obtain ⟨ua, ur, hu⟩ := exists_units a ms hside.locks
  have hP : allNodes (nmP MODEL_NZ a ua ur) ms = true := by
    unfold nmP allNodes
    rw [all_and, all_and, all_and, all_and]
    simp only [Bool.and_eq_true]
    exact ⟨⟨⟨⟨hu, nzOK (.inl rfl)⟩, hside.raw⟩, hside.pre⟩, hside.kok⟩
  have := uinv (adv := adv) ⟨ke, ctx, false, true, a⟩ ua ur rfl rfl hadv ms τ hτ hm hP hside.frag hside.keys
  rwa [sortKeys'_fun] at this

/-! ### the first-match table row is one of the enumerated rows -/

theorem mem_cat_of {ys xs : List (List Item)} {y x : List Item} (hy : y ∈ ys) (hx : x ∈ xs) :
    y ++ x ∈ cat ys xs := mem_cat.mpr ⟨y, hy, x, hx, rfl⟩

mutual
theorem dsatWit_mem (a : Avail) (sortK : List Key → List Key) :
    ∀ (ms : Ms) (its : List Item), dsatWit a sortK ms = some its → its ∈ allDsat a sortK ms
  | .fls, its, h => by simp only [dsatWit, Option.some.injEq] at h; subst h; simp [allDsat]
  | .tru, its, h => by simp [dsatWit] at h
  | .pkK _, its, h => by simp only [dsatWit, Option.some.injEq] at h; subst h; simp [allDsat]
  | .pkH k, its, h => by simp only [dsatWit, Option.some.injEq] at h; subst h; simp [allDsat]
  | .rawPkH hh, its, h => by
    simp only [dsatWit] at h
    split at h
    · rename_i hk; simp only [Option.some.injEq] at h; subst h; simp [allDsat, hk]
    · cases h
  | .after _, its, h => by simp [dsatWit] at h
  | .older _, its, h => by simp [dsatWit] at h
  | .hash _ _, its, h => by simp only [dsatWit, Option.some.injEq] at h; subst h; simp [allDsat]
  | .alt x, its, h => by simp only [dsatWit] at h; simpa only [allDsat] using dsatWit_mem a sortK x its h
  | .swap x, its, h => by simp only [dsatWit] at h; simpa only [allDsat] using dsatWit_mem a sortK x its h
  | .check x, its, h => by simp only [dsatWit] at h; simpa only [allDsat] using dsatWit_mem a sortK x its h
  | .zeroNotEqual x, its, h => by
    simp only [dsatWit] at h; simpa only [allDsat] using dsatWit_mem a sortK x its h
  | .dupIf _, its, h => by simp only [dsatWit, Option.some.injEq] at h; subst h; simp [allDsat]
  | .nonZero _, its, h => by simp only [dsatWit, Option.some.injEq] at h; subst h; simp [allDsat]
  | .verify _, its, h => by simp [dsatWit] at h
  | .andV _ _, its, h => by simp [dsatWit] at h
  | .andB x y, its, h => by
    simp only [dsatWit, cat2] at h
    cases hy : dsatWit a sortK y with
    | none => simp [hy] at h
    | some dy =>
      cases hx : dsatWit a sortK x with
      | none => simp [hy, hx] at h
      | some dx =>
        simp only [hy, hx, Option.some.injEq] at h; subst h
        simp only [allDsat]
        exact mem_cat_of (dsatWit_mem a sortK y dy hy) (dsatWit_mem a sortK x dx hx)
  | .andOr x _ z, its, h => by
    simp only [dsatWit, cat2] at h
    cases hz : dsatWit a sortK z with
    | none => simp [hz] at h
    | some dz =>
      cases hx : dsatWit a sortK x with
      | none => simp [hz, hx] at h
      | some dx =>
        simp only [hz, hx, Option.some.injEq] at h; subst h
        simp only [allDsat]
        exact mem_cat_of (dsatWit_mem a sortK z dz hz) (dsatWit_mem a sortK x dx hx)
  | .orB x z, its, h => by
    simp only [dsatWit, cat2] at h
    cases hz : dsatWit a sortK z with
    | none => simp [hz] at h
    | some dz =>
      cases hx : dsatWit a sortK x with
      | none => simp [hz, hx] at h
      | some dx =>
        simp only [hz, hx, Option.some.injEq] at h; subst h
        simp only [allDsat]
        exact mem_cat_of (dsatWit_mem a sortK z dz hz) (dsatWit_mem a sortK x dx hx)
  | .orD x z, its, h => by
    simp only [dsatWit, cat2] at h
    cases hz : dsatWit a sortK z with
    | none => simp [hz] at h
    | some dz =>
      cases hx : dsatWit a sortK x with
      | none => simp [hz, hx] at h
      | some dx =>
        simp only [hz, hx, Option.some.injEq] at h; subst h
        simp only [allDsat]
        exact mem_cat_of (dsatWit_mem a sortK z dz hz) (dsatWit_mem a sortK x dx hx)
  | .orC _ _, its, h => by simp [dsatWit] at h
  | .orI x z, its, h => by
    simp only [dsatWit, orElse, cat2] at h
    simp only [allDsat, List.mem_append]
    cases hx : dsatWit a sortK x with
    | some dx =>
      simp only [hx, Option.some.injEq] at h; subst h
      exact .inl (mem_cat_of (dsatWit_mem a sortK x dx hx) (by simp))
    | none =>
      cases hz : dsatWit a sortK z with
      | none => simp [hx, hz] at h
      | some dz =>
        simp only [hx, hz, Option.some.injEq] at h; subst h
        exact .inr (mem_cat_of (dsatWit_mem a sortK z dz hz) (by simp))
  | .thresh _ xs, its, h => by
    simp only [dsatWit] at h
    simp only [allDsat]
    exact allDsatWit_mem a sortK xs its h
  | .multi k _, its, h => by simp only [dsatWit, Option.some.injEq] at h; subst h; simp [allDsat]
  | .sortedMulti k _, its, h => by simp only [dsatWit, Option.some.injEq] at h; subst h; simp [allDsat]
  | .multiA _ ks, its, h => by simp only [dsatWit, Option.some.injEq] at h; subst h; simp [allDsat]
  | .sortedMultiA _ ks, its, h => by simp only [dsatWit, Option.some.injEq] at h; subst h; simp [allDsat]
theorem allDsatWit_mem (a : Avail) (sortK : List Key → List Key) :
    ∀ (xs : MsList) (its : List Item), allDsatWit a sortK xs = some its → its ∈ threshAll a sortK 0 xs
  | .nil, its, h => by simp only [allDsatWit, Option.some.injEq] at h; subst h; simp [threshAll]
  | .cons x xs, its, h => by
    simp only [allDsatWit, cat2] at h
    cases hr : allDsatWit a sortK xs with
    | none => simp [hr] at h
    | some dr =>
      cases hx : dsatWit a sortK x with
      | none => simp [hr, hx] at h
      | some dx =>
        simp only [hr, hx, Option.some.injEq] at h; subst h
        simp only [threshAll, List.nil_append]
        exact mem_cat_of (allDsatWit_mem a sortK xs dr hr) (dsatWit_mem a sortK x dx hx)
end

/-! ### `has_repeated_keys` (the library's test) vs pairwise distinct `keysOf` -/

theorem distinctCount_le : ∀ l : List Key, distinctCount l ≤ l.length
  | [] => by simp [distinctCount]
  | k :: ks => by
    have := distinctCount_le ks
    simp only [distinctCount, List.length_cons]
    split <;> omega

theorem nodup_of_distinctCount : ∀ l : List Key, distinctCount l = l.length → l.Nodup
  | [], _ => List.nodup_nil
  | k :: ks, h => by
    have hle := distinctCount_le ks
    simp only [distinctCount, List.length_cons] at h
    split at h
    · omega
    · rename_i hc
      exact List.nodup_cons.mpr ⟨by simpa using hc, nodup_of_distinctCount ks (by omega)⟩

mutual
theorem flatMap_preorder : (ms : Ms) → ms.preorder.flatMap Ms.nodeKeys = keysOf ms
  | .tru | .fls | .rawPkH _ | .after _ | .older _ | .hash _ _ => by simp [Ms.preorder, Ms.nodeKeys, keysOf]
  | .pkK k | .pkH k => by simp [Ms.preorder, Ms.nodeKeys, keysOf]
  | .multi _ ks | .sortedMulti _ ks | .multiA _ ks | .sortedMultiA _ ks => by
    simp [Ms.preorder, Ms.nodeKeys, keysOf]
  | .alt x | .swap x | .check x | .dupIf x | .verify x | .nonZero x | .zeroNotEqual x => by
    simp [Ms.preorder, Ms.nodeKeys, keysOf, flatMap_preorder x]
  | .andV l r | .andB l r | .orB l r | .orD l r | .orC l r | .orI l r => by
    simp [Ms.preorder, Ms.nodeKeys, keysOf, List.flatMap_append, flatMap_preorder l, flatMap_preorder r]
  | .andOr a b c => by
    simp [Ms.preorder, Ms.nodeKeys, keysOf, List.flatMap_append, flatMap_preorder a, flatMap_preorder b,
      flatMap_preorder c]
  | .thresh _ xs => by
    simp [Ms.preorder, Ms.nodeKeys, keysOf, flatMap_preorderL xs]
theorem flatMap_preorderL : (xs : MsList) → xs.preorder.flatMap Ms.nodeKeys = keysOfL xs
  | .nil => by simp [MsList.preorder, keysOfL]
  | .cons x xs => by
    simp [MsList.preorder, keysOfL, List.flatMap_append, flatMap_preorder x, flatMap_preorderL xs]
end

/-- the library's `has_repeated_keys() == false` gives pairwise distinct keys -/
theorem nodup_of_not_repeated (ms : Ms) (h : hasRepeatedKeys ms = false) : (keysOf ms).Nodup := by
  unfold hasRepeatedKeys Ms.iterPk at h
  rw [flatMap_preorder] at h
  exact nodup_of_distinctCount _ (by simpa using h)

end MsVerif.Uniq

/-
`entails`: Shannon expansion on the first constraint; terminal counts; fuel.
-/
import MsVerif.Lemmas.PolicyNorm

set_option linter.unusedSimpArgs false
namespace MsVerif.Pol
open Sem

/-! ## terminal counts never grow -/

def nTl (l : List Policy) : Nat := (l.map nTerminals).sum

theorem nTerminals_thresh (k : Nat) (subs : List Policy) :
    nTerminals (.thresh k subs) = nTl subs := by
  rw [nTerminals, nTerminalsList_eq]; rfl

theorem nTl_cons (x : Policy) (xs : List Policy) : nTl (x :: xs) = nTerminals x + nTl xs := by
  simp [nTl]

theorem nTl_append (xs ys : List Policy) : nTl (xs ++ ys) = nTl xs + nTl ys := by
  simp [nTl]

theorem nTl_normSub (a o : Bool) (x : Policy) : nTl (normSub a o x) ≤ nTerminals x := by
  cases x with
  | thresh k' ss =>
    cases a <;> cases o <;> simp only [normSub]
    · simp [nTl]
    · split <;> simp [nTl, nTerminals_thresh]
    · split <;> simp [nTl, nTerminals_thresh]
    · simp [nTl]
  | unsat => simp [normSub, nTl]
  | trivial => simp [normSub, nTl]
  | atom b => simp [normSub, nTl]

theorem nTl_flatMap_normSub (a o : Bool) (subs : List Policy) :
    nTl (subs.flatMap (normSub a o)) ≤ nTl subs := by
  induction subs with
  | nil => simp [nTl]
  | cons x xs ih =>
    rw [List.flatMap_cons, nTl_append, nTl_cons]
    have := nTl_normSub a o x
    omega

theorem nTerminals_normFinish (m : Nat) (a o : Bool) (ret : List Policy) :
    nTerminals (normFinish m a o ret) ≤ nTl ret := by
  unfold normFinish
  split
  · simp [nTerminals]
  split
  · simp [nTerminals]
  split
  · simp [nTl]
  · split
    · simp [nTerminals_thresh]
    · split <;> simp [nTerminals_thresh]

theorem nTerminals_normThresh (k : Nat) (subs : List Policy) :
    nTerminals (normThresh k subs) ≤ nTl subs := by
  unfold normThresh
  exact Nat.le_trans (nTerminals_normFinish _ _ _ _) (nTl_flatMap_normSub _ _ _)

theorem nTl_map_le (f : Policy → Policy) (l : List Policy)
    (h : ∀ x ∈ l, nTerminals (f x) ≤ nTerminals x) : nTl (l.map f) ≤ nTl l := by
  induction l with
  | nil => simp [nTl]
  | cons x xs ih =>
    rw [List.map_cons, nTl_cons, nTl_cons]
    have := h x (by simp)
    have := ih (fun y hy => h y (by simp [hy]))
    omega

theorem nTerminals_normalized : ∀ p, nTerminals (normalized p) ≤ nTerminals p := by
  intro p
  induction p using Policy.induct' with
  | unsat => simp [normalized]
  | trivial => simp [normalized]
  | atom a => simp [normalized]
  | thresh k subs ih =>
    rw [normalized, normalizedList_eq, nTerminals_thresh]
    exact Nat.le_trans (nTerminals_normThresh _ _) (nTl_map_le _ _ ih)

theorem normalized_leaf {p : Policy} (h : ∀ k ss, p ≠ .thresh k ss) : normalized p = p := by
  cases p with
  | thresh k ss => exact absurd rfl (h k ss)
  | _ => simp [normalized]

theorem satisfyConstraint_thresh (w : Policy) (β : Bool) (k : Nat) (subs : List Policy) :
    satisfyConstraint w β (.thresh k subs)
      = normalized (.thresh k (subs.map (satisfyConstraint w β))) := by
  rw [satisfyConstraint, satisfyConstraintList_eq]

theorem nTerminals_satisfyConstraint (w : Policy) (β : Bool) :
    ∀ p, nTerminals (satisfyConstraint w β p) ≤ nTerminals p := by
  intro p
  induction p using Policy.induct' with
  | unsat => simp [satisfyConstraint]; split <;> (try split) <;> simp [normalized, nTerminals]
  | trivial => simp [satisfyConstraint]; split <;> (try split) <;> simp [normalized, nTerminals]
  | atom a => simp [satisfyConstraint]; split <;> (try split) <;> simp [normalized, nTerminals]
  | thresh k subs ih =>
    rw [satisfyConstraint_thresh]
    refine Nat.le_trans (nTerminals_normalized _) ?_
    rw [nTerminals_thresh, nTerminals_thresh]
    exact nTl_map_le _ _ ih

/-! ## the first constraint of a normal form -/

theorem firstConstraint_thresh_cons (k : Nat) (x : Policy) (xs : List Policy) :
    firstConstraint (.thresh k (x :: xs)) = firstConstraint x := by
  rw [firstConstraint, firstConstraint.go]

theorem firstConstraint_atom : ∀ p, NF p = true → isConst p = false →
    ∃ w, firstConstraint p = .atom w := by
  intro p
  induction p using Policy.induct' with
  | unsat => intro _ h; simp [isConst, isUnsat] at h
  | trivial => intro _ h; simp [isConst, isTrivial] at h
  | atom a => intro _ _; exact ⟨a, by simp [firstConstraint]⟩
  | thresh k subs ih =>
    intro hnf _
    obtain ⟨h2, _, _, hch⟩ := (NF_thresh k subs).mp hnf
    cases subs with
    | nil => simp at h2
    | cons x xs =>
      rw [firstConstraint_thresh_cons]
      obtain ⟨h1, hc, _, _⟩ := hch x (by simp)
      exact ih x (by simp) h1 hc

theorem nTerminals_satisfyConstraint_lt (β : Bool) :
    ∀ p, NF p = true → isConst p = false →
      nTerminals (satisfyConstraint (firstConstraint p) β p) < nTerminals p := by
  intro p
  induction p using Policy.induct' with
  | unsat => intro _ h; simp [isConst, isUnsat] at h
  | trivial => intro _ h; simp [isConst, isTrivial] at h
  | atom a =>
    intro _ _
    cases β <;> simp [firstConstraint, satisfyConstraint, leafEq, normalized, nTerminals]
  | thresh k subs ih =>
    intro hnf _
    obtain ⟨h2, _, _, hch⟩ := (NF_thresh k subs).mp hnf
    cases subs with
    | nil => simp at h2
    | cons x xs =>
      rw [firstConstraint_thresh_cons, satisfyConstraint_thresh]
      refine Nat.lt_of_le_of_lt (nTerminals_normalized _) ?_
      rw [nTerminals_thresh, nTerminals_thresh, List.map_cons, nTl_cons, nTl_cons]
      obtain ⟨h1, hc, _, _⟩ := hch x (by simp)
      have := ih x (by simp) h1 hc
      have := nTl_map_le (satisfyConstraint (firstConstraint x) β) xs
        (fun y _ => nTerminals_satisfyConstraint _ _ y)
      omega

/-! ## semantics of `satisfy_constraint` -/

/-- the assignment with atom `w` forced to `β` -/
def setAtom (w : Atom) (β : Bool) (v : Atom → Bool) : Atom → Bool :=
  fun a => if a = w then β else v a

theorem satisfyConstraint_holdsA (w : Atom) (β : Bool) (v : Atom → Bool) :
    ∀ p, holdsA v (satisfyConstraint (.atom w) β p) = holdsA (setAtom w β v) p := by
  intro p
  induction p using Policy.induct' with
  | unsat => simp [satisfyConstraint, leafEq, normalized, holdsA]
  | trivial => simp [satisfyConstraint, leafEq, normalized, holdsA]
  | atom a =>
    by_cases h : a = w
    · subst h; cases β <;> simp [satisfyConstraint, leafEq, normalized, holdsA, setAtom]
    · simp [satisfyConstraint, leafEq, normalized, holdsA, setAtom, h]
  | thresh k subs ih =>
    rw [satisfyConstraint_thresh, normalized_holdsA, holdsA_thresh, holdsA_thresh,
      countP_map_congr _ (holdsA (setAtom w β v)) (holdsA v) subs ih]

theorem satisfyConstraint_NF (w : Policy) (β : Bool) (p : Policy) :
    NF (satisfyConstraint w β p) = true := by
  cases p with
  | thresh k ss => rw [satisfyConstraint]; exact normalized_NF _
  | _ => simp only [satisfyConstraint]; exact normalized_NF _

/-! ## normal forms are neither valid nor contradictory unless they are the constants -/

theorem NF_all_false : ∀ p, NF p = true → isTrivial p = false →
    holdsA (fun _ => false) p = false := by
  intro p
  induction p using Policy.induct' with
  | unsat => intro _ _; rfl
  | trivial => intro _ h; simp [isTrivial] at h
  | atom a => intro _ _; rfl
  | thresh k subs ih =>
    intro hnf _
    obtain ⟨_, hk1, _, hch⟩ := (NF_thresh k subs).mp hnf
    rw [holdsA_thresh]
    have : subs.countP (holdsA (fun _ => false)) = 0 := by
      apply List.countP_eq_zero.mpr
      intro x hx
      obtain ⟨h1, hc, _, _⟩ := hch x hx
      simp only [isConst, Bool.or_eq_false_iff] at hc
      simp [ih x hx h1 hc.1]
    rw [this]; simp; omega

theorem NF_all_true : ∀ p, NF p = true → isUnsat p = false →
    holdsA (fun _ => true) p = true := by
  intro p
  induction p using Policy.induct' with
  | unsat => intro _ h; simp [isUnsat] at h
  | trivial => intro _ _; rfl
  | atom a => intro _ _; rfl
  | thresh k subs ih =>
    intro hnf _
    obtain ⟨_, _, hkn, hch⟩ := (NF_thresh k subs).mp hnf
    rw [holdsA_thresh]
    have : subs.countP (holdsA (fun _ => true)) = subs.length := by
      apply List.countP_eq_length.mpr
      intro x hx
      obtain ⟨h1, hc, _, _⟩ := hch x hx
      simp only [isConst, Bool.or_eq_false_iff] at hc
      exact ih x hx h1 hc.2
    rw [this]; simpa using hkn

/-! ## the recursion -/

theorem implies_shannon (w : Atom) (a b : Policy) :
    Implies a b ↔
      Implies (satisfyConstraint (.atom w) true a) (satisfyConstraint (.atom w) true b)
      ∧ Implies (satisfyConstraint (.atom w) false a) (satisfyConstraint (.atom w) false b) := by
  constructor
  · intro h
    constructor <;>
    · intro v hv
      rw [satisfyConstraint_holdsA] at hv ⊢
      exact h _ hv
  · intro ⟨h1, h2⟩ v hv
    have hset : ∀ β, v w = β → setAtom w β v = v := by
      intro β hβ
      funext a; unfold setAtom; split
      · rename_i h; rw [h, hβ]
      · rfl
    cases hw : v w
    · have := h2 v (by rw [satisfyConstraint_holdsA, hset _ hw]; exact hv)
      rwa [satisfyConstraint_holdsA, hset _ hw] at this
    · have := h1 v (by rw [satisfyConstraint_holdsA, hset _ hw]; exact hv)
      rwa [satisfyConstraint_holdsA, hset _ hw] at this

end MsVerif.Pol

namespace MsVerif.Pol
open Sem

/-! ## unfolding `entailsF` -/

theorem entailsF_big (fuel : Nat) (a b : Policy) (h : nTerminals a > 20) :
    entailsF (fuel + 1) a b = .none := by
  simp [entailsF, ENTAILMENT_MAX_TERMINALS, h]

theorem entailsF_small (fuel : Nat) (a b : Policy) (h : nTerminals a ≤ 20) :
    entailsF (fuel + 1) a b = entailsStep (entailsF fuel) (normalized a) (normalized b) := by
  have hn : ¬ (nTerminals a > ENTAILMENT_MAX_TERMINALS) := by
    simp only [ENTAILMENT_MAX_TERMINALS]; omega
  simp only [entailsF, if_neg hn]

theorem entailsStep_unsat (rec : Policy → Policy → EntRes) (b : Policy) :
    entailsStep rec .unsat b = .some true := by
  simp [entailsStep]

theorem entailsStep_trivial (rec : Policy → Policy → EntRes) (b : Policy) :
    entailsStep rec .trivial b = .some (isTrivial b) := by
  cases b <;> simp [entailsStep, isTrivial]

theorem entailsStep_to_unsat (rec : Policy → Policy → EntRes) (a : Policy)
    (ha : isConst a = false) : entailsStep rec a .unsat = .some false := by
  cases a <;> simp_all [entailsStep, isConst, isTrivial, isUnsat]

theorem entailsStep_rec (rec : Policy → Policy → EntRes) (a b : Policy) (ha : isConst a = false)
    (hb : isUnsat b = false) :
    entailsStep rec a b =
      (rec (satisfyConstraint (firstConstraint a) true a)
          (satisfyConstraint (firstConstraint a) true b)).andThen
        (fun _ => rec (satisfyConstraint (firstConstraint a) false a)
          (satisfyConstraint (firstConstraint a) false b)) := by
  cases a <;> cases b <;> simp [isConst, isTrivial, isUnsat] at ha hb <;> simp only [entailsStep]

theorem isConst_satisfyConstraint (w : Policy) (β : Bool) {p : Policy} (h : isConst p = true) :
    isConst (satisfyConstraint w β p) = true := by
  cases p with
  | unsat => simp only [satisfyConstraint]; split <;> (try split) <;> simp [normalized, isConst, isTrivial, isUnsat]
  | trivial => simp only [satisfyConstraint]; split <;> (try split) <;> simp [normalized, isConst, isTrivial, isUnsat]
  | atom a => simp [isConst, isTrivial, isUnsat] at h
  | thresh k ss => simp [isConst, isTrivial, isUnsat] at h

/-! ## fuel suffices -/

theorem entailsF_some : ∀ (fuel : Nat) (a b : Policy), nTerminals a ≤ 20 →
    ((isConst (normalized a) = true ∧ 1 ≤ fuel) ∨ nTerminals (normalized a) + 2 ≤ fuel) →
    ∃ r, entailsF fuel a b = .some r := by
  intro fuel
  induction fuel with
  | zero => intro a b _ h; rcases h with ⟨_, h⟩ | h <;> omega
  | succ fuel ih =>
    intro a b hsz hf
    rw [entailsF_small _ _ _ hsz]
    have hnf := normalized_NF a
    have hle := nTerminals_normalized a
    generalize normalized a = aN at hf hnf hle
    by_cases hca : isConst aN = true
    · cases aN with
      | unsat => exact ⟨_, entailsStep_unsat _ _⟩
      | trivial => exact ⟨_, entailsStep_trivial _ _⟩
      | atom x => simp [isConst, isTrivial, isUnsat] at hca
      | thresh k ss => simp [isConst, isTrivial, isUnsat] at hca
    · have hca : isConst aN = false := by simpa using hca
      have hf : nTerminals aN + 2 ≤ fuel + 1 := by
        rcases hf with ⟨h, _⟩ | h
        · rw [hca] at h; simp at h
        · exact h
      by_cases hub : isUnsat (normalized b) = true
      · have : normalized b = .unsat := by
          cases hb : normalized b <;> simp [hb, isUnsat] at hub
          rfl
        rw [this]
        exact ⟨_, entailsStep_to_unsat _ _ hca⟩
      · have hub : isUnsat (normalized b) = false := by simpa using hub
        rw [entailsStep_rec _ _ _ hca hub]
        -- both recursive calls have enough fuel
        have hrec : ∀ β b', ∃ r, entailsF fuel
            (satisfyConstraint (firstConstraint aN) β aN) b' = .some r := by
          intro β b'
          have hfix := normalized_of_NF _ (satisfyConstraint_NF (firstConstraint aN) β aN)
          apply ih
          · have := nTerminals_satisfyConstraint (firstConstraint aN) β aN
            omega
          · rw [hfix]
            by_cases hc1 : isConst (satisfyConstraint (firstConstraint aN) β aN) = true
            · left; exact ⟨hc1, by omega⟩
            · right
              have := nTerminals_satisfyConstraint_lt β aN hnf hca
              omega
        obtain ⟨r1, h1⟩ := hrec true (satisfyConstraint (firstConstraint aN) true (normalized b))
        rw [h1]
        cases r1
        · exact ⟨false, rfl⟩
        · simp only [EntRes.andThen]; exact hrec false _

theorem entails_fuel_ok (a b : Policy) : entails a b ≠ .outOfFuel := by
  unfold entails
  by_cases h : nTerminals a > 20
  · rw [entailsF_big _ _ _ h]; simp
  · obtain ⟨r, hr⟩ := entailsF_some (nTerminals a + 2) a b (by omega)
      (Or.inr (by have := nTerminals_normalized a; omega))
    rw [hr]; simp

theorem entails_none_iff (a b : Policy) : entails a b = .none ↔ nTerminals a > 20 := by
  unfold entails
  constructor
  · intro h
    by_cases h' : nTerminals a > 20
    · exact h'
    · obtain ⟨r, hr⟩ := entailsF_some (nTerminals a + 2) a b (by omega)
        (Or.inr (by have := nTerminals_normalized a; omega))
      rw [hr] at h; simp at h
  · intro h; exact entailsF_big _ _ _ h

/-! ## correctness, all inputs -/

theorem implies_normalized (a b : Policy) : Implies (normalized a) (normalized b) ↔ Implies a b := by
  simp only [Implies, normalized_holdsA]

theorem entailsF_correct : ∀ (fuel : Nat) (a b : Policy) (r : Bool),
    entailsF fuel a b = .some r → (r = true ↔ Implies a b) := by
  intro fuel
  induction fuel with
  | zero => intro a b r h; simp [entailsF] at h
  | succ fuel ih =>
    intro a b r h
    by_cases hbig : nTerminals a > 20
    · rw [entailsF_big _ _ _ hbig] at h; simp at h
    have hsz : nTerminals a ≤ 20 := by omega
    rw [entailsF_small _ _ _ hsz] at h
    rw [← implies_normalized]
    have hna := normalized_NF a
    have hnb := normalized_NF b
    generalize normalized a = a at h hna
    generalize normalized b = b at h hnb
    by_cases hca : isConst a = true
    · cases a with
      | unsat =>
        rw [entailsStep_unsat] at h
        simp only [EntRes.some.injEq] at h
        subst h
        simp [Implies, holdsA]
      | trivial =>
        rw [entailsStep_trivial] at h
        simp only [EntRes.some.injEq] at h
        subst h
        cases hb : isTrivial b
        · simp only [Bool.false_eq_true, false_iff]
          intro himp
          have := himp (fun _ => false) rfl
          rw [NF_all_false b hnb hb] at this
          simp at this
        · cases b <;> simp [isTrivial] at hb
          simp [Implies]
      | atom x => simp [isConst, isTrivial, isUnsat] at hca
      | thresh k ss => simp [isConst, isTrivial, isUnsat] at hca
    · have hca : isConst a = false := by simpa using hca
      by_cases hub : isUnsat b = true
      · cases b <;> simp [isUnsat] at hub
        rw [entailsStep_to_unsat _ _ hca] at h
        simp only [EntRes.some.injEq] at h
        subst h
        simp only [Bool.false_eq_true, false_iff]
        intro himp
        simp only [isConst, Bool.or_eq_false_iff] at hca
        have := himp (fun _ => true) (NF_all_true a hna hca.2)
        simp [holdsA] at this
      · have hub : isUnsat b = false := by simpa using hub
        rw [entailsStep_rec _ _ _ hca hub] at h
        obtain ⟨w, hw⟩ := firstConstraint_atom a hna hca
        rw [hw] at h
        rw [implies_shannon w a b]
        cases h1 : entailsF fuel (satisfyConstraint (.atom w) true a)
            (satisfyConstraint (.atom w) true b) with
        | none => rw [h1] at h; simp [EntRes.andThen] at h
        | outOfFuel => rw [h1] at h; simp [EntRes.andThen] at h
        | some r1 =>
          rw [h1] at h
          have i1 := ih _ _ r1 h1
          cases r1
          · simp only [EntRes.andThen, EntRes.some.injEq] at h
            subst h
            simp only [Bool.false_eq_true, false_iff] at i1 ⊢
            exact fun hh => i1 hh.1
          · simp only [EntRes.andThen] at h
            have i2 := ih _ _ r h
            rw [i2]
            have := i1.mp rfl
            exact ⟨fun hh => ⟨this, hh⟩, fun hh => hh.2⟩

end MsVerif.Pol

/-
T4, parser half: whatever `decode` accepts is the token list of the miniscript it returns.

`decodeToks toks = ok (ms, rest)  ⇒  toks.reverse = (tokens ms).reverse ++ rest`

Method: every nonterminal `X` has a SPECIFICATION `SpecOf X term C term'`: started with `X` on top
of the nonterminal stack and `term` as terminal stack, by the time `X` and everything it pushed
are gone the machine has consumed exactly the tokens `C`, and `term'` is `term` with X's operands
replaced by ONE miniscript `y` whose reversed token list is an explicit function of the operands'
token lists and `C`.  `step_info` shows that one loop iteration refines the specification of the
popped nonterminal into those of the nonterminals it pushes; `seg` chains this along any
successful run (induction on the fuel).

Hypotheses: the atom tables are sound (`DecSound`: a byte string that `dec` maps to an atom is
that atom's serialisation in `env`) and the tokens are well-formed (`Token.wf`: a `Bytes33` token
carries 33 bytes, …, numbers are below 2^31) — which every lexer output is.
-/
import MsVerif.Lemmas.DecodeEncode
import MsVerif.Lemmas.DecodeNoPanic

namespace MsVerif
namespace DecodeL

/-- shape guaranteed by the lexer: byte tokens have the length of their constructor -/
def Token.wf : Token → Bool
  | .num n => decide (n < 2147483648)
  | .hash20 b => b.length == 20
  | .bytes32 b => b.length == 32
  | .bytes33 b => b.length == 33
  | .bytes65 b => b.length == 65
  | _ => true

def WfAll (ts : List Token) : Prop := ∀ t ∈ ts, Token.wf t = true

/-- the reverse lookup `dec` is sound for the serialisations of `env` -/
structure DecSound (dec : AtomDec) (env : KeyEnv) (ctx : Ctx) : Prop where
  key : ∀ bs k, parseKey dec ctx bs = .ok k → env.ser k = bs
  rawPkh : ∀ bs h, dec.rawPkh bs = some h → env.rawPkh h = bs
  hash : ∀ kind bs h, dec.hash kind bs = some h → env.hashVal kind h = bs

section
variable (env : KeyEnv) (ctx : Ctx)

/-- reversed tokens of `W` children lying on the terminal stack (top = leftmost child) -/
def rtW : List Ms → List Token
  | [] => []
  | w :: ws => rtW ws ++ (.add :: rt env ctx w)

theorem rtW_eq (ws : List Ms) :
    rtW env ctx ws = (threshTokens env ctx false (MsList.ofList ws)).reverse := by
  induction ws with
  | nil => simp [rtW, MsList.ofList, threshTokens]
  | cons w ws ih => simp [rtW, MsList.ofList, threshTokens, ih, rt]

/-- see the file header -/
def SpecOf : NonTerm → List Ms → List Token → List Ms → Prop
  | .expression, t, C, t' => ∃ y, t' = y :: t ∧ rt env ctx y = C
  | .wExpression, t, C, t' => ∃ y, t' = y :: t ∧ rt env ctx y = C
  | .maybeAndV, x :: t, C, t' => ∃ y, t' = y :: t ∧ rt env ctx y = rt env ctx x ++ C
  | .swap, x :: t, C, t' => ∃ y, t' = y :: t ∧ rt env ctx y = rt env ctx x ++ C
  | .alt, x :: t, C, t' => ∃ y, t' = y :: t ∧ rt env ctx y = .fromAlt :: (rt env ctx x ++ C)
  | .check, x :: t, C, t' => ∃ y, t' = y :: t ∧ rt env ctx y = .checkSig :: (rt env ctx x ++ C)
  | .dupIf, x :: t, C, t' =>
    ∃ y, t' = y :: t ∧ rt env ctx y = .endIf :: (rt env ctx x ++ (.if_ :: .dup :: C))
  | .verify, x :: t, C, t' => ∃ y, t' = y :: t ∧ rt env ctx y = .verify :: (rt env ctx x ++ C)
  | .nonZero, x :: t, C, t' =>
    ∃ y, t' = y :: t ∧ rt env ctx y = .endIf :: (rt env ctx x ++ (.if_ :: .zeroNotEqual :: .size :: C))
  | .zeroNotEqual, x :: t, C, t' =>
    ∃ y, t' = y :: t ∧ rt env ctx y = .zeroNotEqual :: (rt env ctx x ++ C)
  | .andV, l :: r :: t, C, t' => ∃ y, t' = y :: t ∧ rt env ctx y = rt env ctx r ++ (rt env ctx l ++ C)
  | .andB, l :: r :: t, C, t' =>
    ∃ y, t' = y :: t ∧ rt env ctx y = .boolAnd :: (rt env ctx r ++ (rt env ctx l ++ C))
  | .orB, l :: r :: t, C, t' =>
    ∃ y, t' = y :: t ∧ rt env ctx y = .boolOr :: (rt env ctx r ++ (rt env ctx l ++ C))
  | .orD, l :: r :: t, C, t' =>
    ∃ y, t' = y :: t ∧ rt env ctx y = .endIf :: (rt env ctx r ++ (.notIf :: .ifDup :: (rt env ctx l ++ C)))
  | .orC, l :: r :: t, C, t' =>
    ∃ y, t' = y :: t ∧ rt env ctx y = .endIf :: (rt env ctx r ++ (.notIf :: (rt env ctx l ++ C)))
  | .tern, a :: c :: b :: t, C, t' =>
    ∃ y, t' = y :: t ∧
      rt env ctx y = .endIf :: (rt env ctx b ++ (.else_ :: (rt env ctx c ++ (.notIf :: (rt env ctx a ++ C)))))
  | .threshW k n, term, C, t' =>
    n ≤ term.length ∧
      ∃ y, t' = y :: term.drop n ∧ rt env ctx y = .equal :: .num k :: (rtW env ctx (term.take n) ++ C)
  | .threshE k n, term, C, t' =>
    n ≤ term.length ∧ ∃ e ws, term.take n = e :: ws ∧
      ∃ y, t' = y :: term.drop n ∧
        rt env ctx y = .equal :: .num k :: (rtW env ctx ws ++ (rt env ctx e ++ C))
  | .endIf, x :: t, C, t' => ∃ y, t' = y :: t ∧ rt env ctx y = .endIf :: (rt env ctx x ++ C)
  | .endIfNotIf, x :: t, C, t' =>
    ∃ y, t' = y :: t ∧ rt env ctx y = .endIf :: (rt env ctx x ++ (.notIf :: C))
  | .endIfElse, l :: x :: t, C, t' =>
    ∃ y, t' = y :: t ∧ rt env ctx y = .endIf :: (rt env ctx x ++ (.else_ :: (rt env ctx l ++ C)))
  | _, _, _, _ => False

/-- the specifications of a stack segment, chained -/
def SpecList : List NonTerm → List Ms → List Token → List Ms → Prop
  | [], t, C, t' => C = [] ∧ t' = t
  | Y :: Ys, t, C, t' =>
    ∃ C1 C2 mid, C = C1 ++ C2 ∧ SpecOf env ctx Y t C1 mid ∧ SpecList Ys mid C2 t'

theorem SpecList_append (a b : List NonTerm) : ∀ (t : List Ms) (C : List Token) (t' : List Ms),
    SpecList env ctx (a ++ b) t C t' →
    ∃ C1 C2 mid, C = C1 ++ C2 ∧ SpecList env ctx a t C1 mid ∧ SpecList env ctx b mid C2 t' := by
  induction a with
  | nil => intro t C t' h; exact ⟨[], C, t, rfl, ⟨rfl, rfl⟩, h⟩
  | cons Y a ih =>
    intro t C t' h
    obtain ⟨C1, C2, mid, rfl, hY, hrest⟩ := h
    obtain ⟨D1, D2, mid2, rfl, ha, hb⟩ := ih mid C2 t' hrest
    exact ⟨C1 ++ D1, D2, mid2, by simp, ⟨C1, D1, mid, rfl, hY, ha⟩, hb⟩

end
/-! ### one loop iteration refines the specification -/

section
variable {dec : AtomDec} {env : KeyEnv} {ctx : Ctx}

theorem popN_spec : ∀ (n : Nat) (term a r : List Ms), popN n term = some (a, r) →
    n ≤ term.length ∧ a = term.take n ∧ r = term.drop n
  | 0, term, a, r, h => by simp [popN] at h; obtain ⟨rfl, rfl⟩ := h; simp
  | n + 1, [], a, r, h => by simp [popN] at h
  | n + 1, x :: t, a, r, h => by
    simp only [popN, Option.map_eq_some_iff] at h
    obtain ⟨⟨a', r'⟩, h1, h2⟩ := h
    obtain ⟨h3, rfl, rfl⟩ := popN_spec n t a' r' h1
    simp only [Prod.mk.injEq] at h2
    obtain ⟨rfl, rfl⟩ := h2
    simp; omega

/-- what `step_info` promises for a step from `⟨toks, Y :: rest, term⟩` to `s1` -/
def Info (env : KeyEnv) (ctx : Ctx) (Y : NonTerm) (toks : List Token) (rest : List NonTerm)
    (term : List Ms) (s1 : DState) : Prop :=
  ∃ Ps C0, s1.nt = Ps ++ rest ∧ toks = C0 ++ s1.toks ∧
    ∀ C t', SpecList env ctx Ps s1.term C t' → SpecOf env ctx Y term (C0 ++ C) t'

/-- a step that pushes nothing and consumes `C0`: the new terminal stack must meet the spec -/
theorem Info.plain {Y : NonTerm} {toks : List Token} {rest : List NonTerm} {term : List Ms} {s1 : DState}
    (C0 : List Token) (hnt : s1.nt = rest) (htoks : toks = C0 ++ s1.toks)
    (h : SpecOf env ctx Y term C0 s1.term) : Info env ctx Y toks rest term s1 :=
  ⟨[], C0, by simp [hnt], htoks, by rintro C t' ⟨rfl, rfl⟩; simpa using h⟩

theorem reduce1_info {wrap : Ms → Ms} {s s1 : DState} (h : reduce1 env ctx wrap s = .ok s1) :
    ∃ x t, s.term = x :: t ∧ s1 = { s with term := wrap x :: t } := by
  unfold reduce1 at h
  split at h
  · cases h
  · rename_i x t ht
    split at h
    · cases h
    · rename_i m hm
      cases h
      exact ⟨x, t, ht, by rw [fromAst_ok hm]⟩

theorem reduce2_info {wrap : Ms → Ms → Ms} {s s1 : DState} (h : reduce2 env ctx wrap s = .ok s1) :
    ∃ l r t, s.term = l :: r :: t ∧ s1 = { s with term := wrap l r :: t } := by
  unfold reduce2 at h
  split at h
  · rename_i l r t ht
    split at h
    · cases h
    · rename_i m hm
      cases h
      exact ⟨l, r, t, ht, by rw [fromAst_ok hm]⟩
  · cases h

/-- close `SpecOf …` goals of the form `∃ y, t' = y :: t ∧ rt y = …` after the hypotheses have
been destructured: the witness is forced, the token equation is list arithmetic -/
macro "spec_close" : tactic => `(tactic| (refine ⟨_, rfl, ?_⟩; simp_all [rt, tokens]))

/-- every nonterminal except `Expression` (`hneed`: the stack-height invariant of
Lemmas/DecodeNoPanic.lean, which holds along every run from the initial state) -/
theorem step_info_other {Y : NonTerm} (hY : Y ≠ .expression) {toks : List Token} {rest : List NonTerm}
    {term : List Ms} {s1 : DState} (hneed : need Y ≤ term.length)
    (h : stepNT dec env ctx Y ⟨toks, rest, term⟩ = .ok s1) :
    Info env ctx Y toks rest term s1 := by
  cases Y
  case expression => exact absurd rfl hY
  case maybeAndV =>
    match term, hneed with
    | x :: t, _ =>
      simp only [stepNT] at h
      split at h
      · cases h
        refine ⟨[.expression, .andV], [], rfl, rfl, ?_⟩
        rintro C t' ⟨C1, C2, mid, rfl, ⟨z, rfl, hz⟩, D1, D2, mid2, rfl, ⟨y, rfl, hr⟩, rfl, rfl⟩
        exact ⟨y, rfl, by simp [hr, hz]⟩
      · cases h
        exact Info.plain [] rfl rfl ⟨x, rfl, by simp⟩
  case andV =>
    simp only [stepNT] at h
    split at h
    · cases h
      match term, hneed with
      | l :: r :: t, _ =>
        refine ⟨[.maybeAndV, .andV], [], rfl, rfl, ?_⟩
        rintro C t' ⟨C1, C2, mid, rfl, ⟨l', rfl, hl⟩, D1, D2, mid2, rfl, ⟨y, rfl, hr⟩, rfl, rfl⟩
        exact ⟨y, rfl, by simp [hr, hl]⟩
    · obtain ⟨l, r, t, ht, rfl⟩ := reduce2_info h
      simp only at ht; subst ht
      exact Info.plain [] rfl rfl (by spec_close)
  case check | dupIf | verify | nonZero | zeroNotEqual =>
    simp only [stepNT] at h
    obtain ⟨x, t, ht, rfl⟩ := reduce1_info h
    simp only at ht; subst ht
    exact Info.plain [] rfl rfl (by spec_close)
  case andB | orB | orC | orD =>
    simp only [stepNT] at h
    obtain ⟨l, r, t, ht, rfl⟩ := reduce2_info h
    simp only at ht; subst ht
    exact Info.plain [] rfl rfl (by spec_close)
  case swap =>
    simp only [stepNT] at h
    split at h
    · cases h
    · rename_i ts
      obtain ⟨x, t, ht, rfl⟩ := reduce1_info h
      simp only at ht; subst ht
      exact Info.plain [.swap] rfl rfl (by spec_close)
    · cases h
  case alt =>
    simp only [stepNT] at h
    split at h
    · cases h
    · rename_i ts
      obtain ⟨x, t, ht, rfl⟩ := reduce1_info h
      simp only at ht; subst ht
      exact Info.plain [.toAlt] rfl rfl (by spec_close)
    · cases h
  case tern =>
    simp only [stepNT] at h
    split at h
    · rename_i a c b t
      split at h
      · cases h
      · rename_i m hm
        cases h
        rw [fromAst_ok hm]
        exact Info.plain [] rfl rfl (by spec_close)
    · cases h
  case wExpression =>
    simp only [stepNT] at h
    split at h
    · cases h
    · cases h
      refine ⟨[.expression, .maybeAndV, .alt], [.fromAlt], rfl, rfl, ?_⟩
      rintro C t' ⟨C1, C2, mid, rfl, ⟨x0, rfl, h0⟩, D1, D2, mid2, rfl, ⟨x, rfl, hx⟩,
        E1, E2, mid3, rfl, ⟨y, rfl, hy⟩, rfl, rfl⟩
      exact ⟨y, rfl, by simp [hy, hx, h0]⟩
    · cases h
      refine ⟨[.expression, .maybeAndV, .swap], [], rfl, rfl, ?_⟩
      rintro C t' ⟨C1, C2, mid, rfl, ⟨x0, rfl, h0⟩, D1, D2, mid2, rfl, ⟨x, rfl, hx⟩,
        E1, E2, mid3, rfl, ⟨y, rfl, hy⟩, rfl, rfl⟩
      exact ⟨y, rfl, by simp [hy, hx, h0]⟩
  case endIf =>
    match term, hneed with
    | x :: t, _ =>
      simp only [stepNT] at h
      repeat' split at h
      all_goals first
        | (cases h; done)
        | skip
      · -- ELSE
        cases h
        refine ⟨[.expression, .maybeAndV, .endIfElse], [.else_], rfl, rfl, ?_⟩
        rintro C t' ⟨C1, C2, mid, rfl, ⟨l0, rfl, h0⟩, D1, D2, mid2, rfl, ⟨l, rfl, hl⟩,
          E1, E2, mid3, rfl, ⟨y, rfl, hy⟩, rfl, rfl⟩
        exact ⟨y, rfl, by simp [hy, hl, h0]⟩
      · -- IF DUP
        cases h
        refine ⟨[.dupIf], [.if_, .dup], rfl, rfl, ?_⟩
        rintro C t' ⟨C1, C2, mid, rfl, ⟨y, rfl, hy⟩, rfl, rfl⟩
        exact ⟨y, rfl, by simp [hy]⟩
      · -- IF 0NOTEQUAL SIZE
        cases h
        refine ⟨[.nonZero], [.if_, .zeroNotEqual, .size], rfl, rfl, ?_⟩
        rintro C t' ⟨C1, C2, mid, rfl, ⟨y, rfl, hy⟩, rfl, rfl⟩
        exact ⟨y, rfl, by simp [hy]⟩
      · -- NOTIF
        cases h
        refine ⟨[.endIfNotIf], [.notIf], rfl, rfl, ?_⟩
        rintro C t' ⟨C1, C2, mid, rfl, ⟨y, rfl, hy⟩, rfl, rfl⟩
        exact ⟨y, rfl, by simp [hy]⟩
  case endIfNotIf =>
    match term, hneed with
    | x :: t, _ =>
      simp only [stepNT] at h
      split at h
      · cases h
      · cases h
        refine ⟨[.expression, .orD], [.ifDup], rfl, rfl, ?_⟩
        rintro C t' ⟨C1, C2, mid, rfl, ⟨l, rfl, hl⟩, D1, D2, mid2, rfl, ⟨y, rfl, hy⟩, rfl, rfl⟩
        exact ⟨y, rfl, by simp [hy, hl]⟩
      · cases h
        refine ⟨[.expression, .orC], [], rfl, rfl, ?_⟩
        rintro C t' ⟨C1, C2, mid, rfl, ⟨l, rfl, hl⟩, D1, D2, mid2, rfl, ⟨y, rfl, hy⟩, rfl, rfl⟩
        exact ⟨y, rfl, by simp [hy, hl]⟩
  case endIfElse =>
    match term, hneed with
    | l :: x :: t, _ =>
      simp only [stepNT] at h
      split at h
      · cases h
      · rename_i ts
        obtain ⟨l', r', t'', ht, rfl⟩ := reduce2_info h
        simp only [List.cons.injEq] at ht
        obtain ⟨rfl, rfl, rfl⟩ := ht
        exact Info.plain [.if_] rfl rfl (by spec_close)
      · cases h
        refine ⟨[.expression, .tern], [.notIf], rfl, rfl, ?_⟩
        rintro C t' ⟨C1, C2, mid, rfl, ⟨a, rfl, ha⟩, D1, D2, mid2, rfl, ⟨y, rfl, hy⟩, rfl, rfl⟩
        exact ⟨y, rfl, by simp [hy, ha]⟩
      · cases h
  case threshW k n =>
    simp only [need] at hneed
    simp only [stepNT] at h
    split at h
    · cases h
    · cases h
      refine ⟨[.wExpression, .threshW k (n + 1)], [.add], rfl, rfl, ?_⟩
      rintro C t' ⟨C1, C2, mid, rfl, ⟨w, rfl, hw⟩, D1, D2, mid2, rfl, ⟨hn, y, rfl, hy⟩, rfl, rfl⟩
      refine ⟨hneed, y, by simp, ?_⟩
      simp only [List.take_succ_cons, rtW, hw] at hy
      simp [hy]
    · cases h
      refine ⟨[.expression, .threshE k (n + 1)], [], rfl, rfl, ?_⟩
      rintro C t' ⟨C1, C2, mid, rfl, ⟨e, rfl, he⟩, D1, D2, mid2, rfl, ⟨hn, e', ws, htk, y, rfl, hy⟩, rfl, rfl⟩
      simp only [List.take_succ_cons, List.cons.injEq] at htk
      obtain ⟨rfl, rfl⟩ := htk
      refine ⟨hneed, y, by simp, ?_⟩
      simp [hy, he]
  case threshE k n =>
    simp only [stepNT] at h
    split at h
    · cases h
    · rename_i subs t hp
      obtain ⟨hn, rfl, rfl⟩ := popN_spec _ _ _ _ hp
      split at h
      · cases h
      · rename_i hk
        split at h
        · cases h
        · rename_i m hm
          cases h
          rw [fromAst_ok hm]
          cases hs : List.take n term with
          | nil => rw [hs] at hk; simp at hk
          | cons e ws =>
            refine Info.plain [] rfl rfl ⟨hn, e, ws, hs, _, rfl, ?_⟩
            simp [rt, tokens, MsList.ofList, threshTokens, rtW_eq]

end
/-! ### the `Expression` arms -/

section
variable {dec : AtomDec} {env : KeyEnv} {ctx : Ctx}

theorem expectSeq_eq : ∀ (es ts ts' : List Token), expectSeq es ts = .ok ts' → ts = es ++ ts'
  | [], ts, ts', h => by simp [expectSeq] at h; simp [h]
  | e :: es, [], ts', h => by simp [expectSeq] at h
  | e :: es, t :: ts, ts', h => by
    simp only [expectSeq] at h
    split at h
    · rename_i he; rw [he, expectSeq_eq es ts ts' h]; rfl
    · cases h

/-- what an arm promises, `pre` being the tokens its caller consumed before handing over -/
def EInfo (env : KeyEnv) (ctx : Ctx) (pre ts : List Token) (o : ExprOut) : Prop :=
  ∃ C0, ts = C0 ++ o.toks ∧
    ∀ term C t', SpecList env ctx o.pushNt (o.pushTerm ++ term) C t' →
      SpecOf env ctx .expression term (pre ++ C0 ++ C) t'

theorem EInfo.leaf {pre ts ts' : List Token} (m : Ms) (C0 : List Token) (hts : ts = C0 ++ ts')
    (hr : rt env ctx m = pre ++ C0) : EInfo env ctx pre ts ⟨ts', [], [m]⟩ :=
  ⟨C0, hts, by rintro term C t' ⟨rfl, rfl⟩; exact ⟨m, rfl, by simp [hr]⟩⟩

theorem EInfo.shift {pre ts : List Token} {o : ExprOut} (t : Token) (h : EInfo env ctx (pre ++ [t]) ts o) :
    EInfo env ctx pre (t :: ts) o := by
  obtain ⟨C0, h1, h2⟩ := h
  exact ⟨t :: C0, by simp [h1], fun term C t' hs => by simpa using h2 term C t' hs⟩

/-- tokens of a parsed key: the consumed token, when it is well-formed -/
theorem keyTok_of_parse (hs : DecSound dec env ctx) {pk : Bytes} {k : Key} {tok : Token}
    (hp : parseKey dec ctx pk = .ok k)
    (htok : (tok = .bytes33 pk ∧ pk.length = 33) ∨ (tok = .bytes65 pk ∧ pk.length = 65) ∨
      (tok = .bytes32 pk ∧ pk.length = 32)) :
    keyTok (env.ser k) = tok := by
  rw [hs.key pk k hp]
  rcases htok with ⟨rfl, hl⟩ | ⟨rfl, hl⟩ | ⟨rfl, hl⟩ <;> simp [keyTok, hl]

theorem wf_head {t : Token} {ts : List Token} (h : WfAll (t :: ts)) : Token.wf t = true ∧ WfAll ts :=
  ⟨h t (by simp), fun x hx => h x (by simp [hx])⟩

theorem lookupHash_ok {kind : HashKind} {bs : Bytes} {a : Nat} (h : lookupHash dec kind bs = .ok a) :
    dec.hash kind bs = some a := by
  unfold lookupHash at h; split at h
  · rename_i h' hh; cases h; exact hh
  · cases h

theorem lookupRawPkh_ok {bs : Bytes} {a : Nat} (h : lookupRawPkh dec bs = .ok a) :
    dec.rawPkh bs = some a := by
  unfold lookupRawPkh at h; split at h
  · rename_i h' hh; cases h; exact hh
  · cases h

theorem afterEqual_false (hs : DecSound dec env ctx) {ts : List Token} {o : ExprOut}
    (h : exprAfterEqual dec false ts = .ok o) : EInfo env ctx [.equal] ts o := by
  unfold exprAfterEqual at h
  simp only [Bool.false_eq_true, if_false] at h
  repeat' split at h
  all_goals first
    | (cases h; done)
    | (cases h
       have he := expectSeq_eq _ _ _ ‹expectSeq _ _ = _›
       have hl := hs.hash _ _ _ (lookupHash_ok ‹lookupHash _ _ _ = _›)
       exact EInfo.leaf _ (_ :: _ :: hashTail) (by rw [he]; rfl)
         (by simp [rt, tokens, hashValTok, hashOpTok, hl, hashTail]))
    | skip
  -- thresh
  cases h
  refine ⟨[.num _], rfl, ?_⟩
  rintro term C t' ⟨C1, C2, mid, rfl, ⟨_, y, rfl, hy⟩, rfl, rfl⟩
  exact ⟨y, by simp, by simp [hy, rtW]⟩

theorem EInfo.vhash {ts ts' : List Token} (m : Ms) (C0 : List Token) (hts : ts = C0 ++ ts')
    (hr : rt env ctx m = .equal :: C0) : EInfo env ctx [.verify, .equal] ts ⟨ts', [.verify], [m]⟩ := by
  refine ⟨C0, hts, ?_⟩
  rintro term C t' ⟨C1, C2, mid, rfl, ⟨y, rfl, hy⟩, rfl, rfl⟩
  exact ⟨y, rfl, by simp [hy, hr]⟩

theorem afterEqual_true (hs : DecSound dec env ctx) {ts : List Token} {o : ExprOut}
    (h : exprAfterEqual dec true ts = .ok o) : EInfo env ctx [.verify, .equal] ts o := by
  unfold exprAfterEqual at h
  simp only [if_true] at h
  repeat' split at h
  all_goals first
    | (cases h; done)
    | (cases h
       have hl := hs.rawPkh _ _ (lookupRawPkh_ok ‹lookupRawPkh _ _ = _›)
       exact EInfo.leaf _ [_, _, _] rfl (by simp [rt, tokens, hl]))
    | (cases h
       have he := expectSeq_eq _ _ _ ‹expectSeq _ _ = _›
       have hl := hs.hash _ _ _ (lookupHash_ok ‹lookupHash _ _ _ = _›)
       exact EInfo.vhash _ (_ :: _ :: hashTail) (by rw [he]; rfl)
         (by simp [rt, tokens, hashValTok, hashOpTok, hl, hashTail]))
    | skip
  -- v:thresh
  cases h
  refine ⟨[.num _], rfl, ?_⟩
  rintro term C t' ⟨C1, C2, mid, rfl, ⟨_, x, rfl, hx⟩, D1, D2, mid2, rfl, ⟨y, rfl, hy⟩, rfl, rfl⟩
  exact ⟨y, by simp, by simp [hy, hx, rtW]⟩

theorem wf_append {a b : List Token} (h : WfAll (a ++ b)) : WfAll a ∧ WfAll b :=
  ⟨fun x hx => h x (by simp [hx]), fun x hx => h x (by simp [hx])⟩

theorem readMultiKeys_spec (hs : DecSound dec env ctx) (n : Nat) (ts : List Token) (acc : List Key) :
    ∀ ks ts', readMultiKeys dec ctx n ts acc = .ok (ks, ts') → WfAll ts →
      ∃ new, ks = acc ++ new ∧ new.length = n ∧ ts = new.map (fun k => keyTok (env.ser k)) ++ ts' := by
  fun_induction readMultiKeys dec ctx n ts acc <;> intro ks ts' h hw
  · simp at h; obtain ⟨rfl, rfl⟩ := h; exact ⟨[], by simp, rfl, rfl⟩
  · cases h
  · cases h
  · rename_i n pk ts acc k hp ih
    obtain ⟨hw1, hw2⟩ := wf_head hw
    obtain ⟨new, rfl, hl, rfl⟩ := ih ks ts' h hw2
    have hk := keyTok_of_parse hs hp (tok := .bytes33 pk) (.inl ⟨rfl, by simpa [Token.wf] using hw1⟩)
    exact ⟨k :: new, by simp, by simp [hl], by simp [hk]⟩
  · cases h
  · rename_i n pk ts acc k hp ih
    obtain ⟨hw1, hw2⟩ := wf_head hw
    obtain ⟨new, rfl, hl, rfl⟩ := ih ks ts' h hw2
    have hk := keyTok_of_parse hs hp (tok := .bytes65 pk) (.inr (.inl ⟨rfl, by simpa [Token.wf] using hw1⟩))
    exact ⟨k :: new, by simp, by simp [hl], by simp [hk]⟩
  · cases h

theorem readCsaKeys_spec (hs : DecSound dec env ctx) (ts : List Token) (acc : List Key) :
    ∀ ks ts', readCsaKeys dec ctx ts acc = .ok (ks, ts') → WfAll ts →
      ∃ new, ks = acc ++ new ∧
        ts = new.flatMap (fun k => [.checkSigAdd, keyTok (env.ser k)]) ++ ts' := by
  fun_induction readCsaKeys dec ctx ts acc <;> intro ks ts' h hw
  · cases h
  · rename_i pk ts acc k hp ih
    obtain ⟨_, hw1⟩ := wf_head hw
    obtain ⟨hw2, hw3⟩ := wf_head hw1
    obtain ⟨new, rfl, rfl⟩ := ih ks ts' h hw3
    have hk := keyTok_of_parse hs hp (tok := .bytes32 pk) (.inr (.inr ⟨rfl, by simpa [Token.wf] using hw2⟩))
    exact ⟨k :: new, by simp, by simp [hk]⟩
  · cases h
  · cases h
  · simp at h; obtain ⟨rfl, rfl⟩ := h; exact ⟨[], by simp, rfl⟩

theorem exprMulti_info (hs : DecSound dec env ctx) {ts : List Token} {o : ExprOut} (hw : WfAll ts)
    (h : exprMulti dec ctx ts = .ok o) : EInfo env ctx [.checkMultiSig] ts o := by
  unfold exprMulti at h
  repeat' (first | split at h | (dsimp only at h))
  all_goals first
    | (cases h; done)
    | skip
  cases h
  rename_i n ts1 hn _ keys ts2 k ts' hr hk
  obtain ⟨_, hw1⟩ := wf_head hw
  obtain ⟨new, rfl, hl, rfl⟩ := readMultiKeys_spec hs _ _ _ _ _ hr hw1
  refine EInfo.leaf _ (.num n :: (keys.map (fun k => keyTok (env.ser k)) ++ [.num k])) (by simp) ?_
  simp [rt, tokens, hl, List.map_reverse]

theorem exprMultiA_info (hs : DecSound dec env ctx) {ts : List Token} {o : ExprOut} (hw : WfAll ts)
    (h : exprMultiA dec ctx ts = .ok o) : EInfo env ctx [.numEqual] ts o := by
  unfold exprMultiA at h
  repeat' (first | split at h | (dsimp only at h))
  all_goals first
    | (cases h; done)
    | skip
  cases h
  rename_i k ts1 hk0 _ keys ts2 ts3 pk ts' hr _ key hp hk
  obtain ⟨_, hw1⟩ := wf_head hw
  obtain ⟨new, rfl, rfl⟩ := readCsaKeys_spec hs _ _ _ _ hr hw1
  obtain ⟨_, hw2⟩ := wf_append hw1
  obtain ⟨_, hw3⟩ := wf_head hw2
  obtain ⟨hw4, _⟩ := wf_head hw3
  have hkt := keyTok_of_parse hs hp (tok := .bytes32 pk) (.inr (.inr ⟨rfl, by simpa [Token.wf] using hw4⟩))
  refine EInfo.leaf _ (.num k :: (keys.flatMap (fun k => [.checkSigAdd, keyTok (env.ser k)]) ++
    [.checkSig, .bytes32 pk])) (by simp) ?_
  have := multiATokens_rev env key keys.reverse
  simp only [List.reverse_reverse] at this
  simp [rt, tokens, this, hkt]

theorem EInfo.wrap {ts : List Token} (t : Token) (W : NonTerm)
    (hW : ∀ (x : Ms) (term : List Ms) (C : List Token) (t' : List Ms),
      SpecOf env ctx W (x :: term) C t' → ∃ y, t' = y :: term ∧ rt env ctx y = t :: (rt env ctx x ++ C)) :
    EInfo env ctx [] (t :: ts) ⟨ts, [.expression, W], []⟩ := by
  refine ⟨[t], rfl, ?_⟩
  rintro term C t' ⟨C1, C2, mid, rfl, ⟨x, rfl, hx⟩, D1, D2, mid2, rfl, hWs, rfl, rfl⟩
  obtain ⟨y, rfl, hy⟩ := hW x term D1 _ hWs
  exact ⟨y, rfl, by simp [hy, hx]⟩

theorem expr_info (hs : DecSound dec env ctx) {ts : List Token} {o : ExprOut} (hw : WfAll ts)
    (h : stepExpr dec ctx ts = .ok o) : EInfo env ctx [] ts o := by
  unfold stepExpr at h
  split at h
  · cases h
  · -- Bytes33
    rename_i pk ts'
    split at h
    · cases h
    · rename_i k hp
      cases h
      have := keyTok_of_parse hs hp (tok := .bytes33 pk)
        (.inl ⟨rfl, by simpa [Token.wf] using (wf_head hw).1⟩)
      exact EInfo.leaf _ [_] rfl (by simp [rt, tokens, this])
  · rename_i pk ts'
    split at h
    · cases h
    · rename_i k hp
      cases h
      have := keyTok_of_parse hs hp (tok := .bytes65 pk)
        (.inr (.inl ⟨rfl, by simpa [Token.wf] using (wf_head hw).1⟩))
      exact EInfo.leaf _ [_] rfl (by simp [rt, tokens, this])
  · rename_i pk ts'
    split at h
    · cases h
    · rename_i k hp
      cases h
      have := keyTok_of_parse hs hp (tok := .bytes32 pk)
        (.inr (.inr ⟨rfl, by simpa [Token.wf] using (wf_head hw).1⟩))
      exact EInfo.leaf _ [_] rfl (by simp [rt, tokens, this])
  · -- CheckSig
    cases h
    exact EInfo.wrap .checkSig .check (fun x term C t' h => h)
  · -- Verify
    split at h
    · cases h
    · exact EInfo.shift _ (EInfo.shift (pre := [.verify]) _ (afterEqual_true hs h))
    · cases h
      refine ⟨[.verify], rfl, ?_⟩
      rintro term C t' ⟨C1, C2, mid, rfl, ⟨x, rfl, hx⟩, D1, D2, mid2, rfl, ⟨y, rfl, hy⟩, rfl, rfl⟩
      exact ⟨y, rfl, by simp [hy, hx]⟩
  · -- 0NOTEQUAL
    cases h
    exact EInfo.wrap .zeroNotEqual .zeroNotEqual (fun x term C t' h => h)
  · -- CSV
    repeat' split at h
    all_goals first
      | (cases h; done)
      | (cases h; exact EInfo.leaf _ [_, _] rfl (by simp [rt, tokens]))
  · -- CLTV
    repeat' split at h
    all_goals first
      | (cases h; done)
      | (cases h; exact EInfo.leaf _ [_, _] rfl (by simp [rt, tokens]))
  · -- Equal
    exact EInfo.shift _ (afterEqual_false hs h)
  · cases h; exact EInfo.leaf _ [_] rfl (by simp [rt, tokens])
  · cases h; exact EInfo.leaf _ [_] rfl (by simp [rt, tokens])
  · -- EndIf
    cases h
    refine ⟨[.endIf], rfl, ?_⟩
    rintro term C t' ⟨C1, C2, mid, rfl, ⟨x0, rfl, h0⟩, D1, D2, mid2, rfl, ⟨x, rfl, hx⟩,
      E1, E2, mid3, rfl, ⟨y, rfl, hy⟩, rfl, rfl⟩
    exact ⟨y, rfl, by simp [hy, hx, h0]⟩
  · -- BoolAnd
    cases h
    refine ⟨[.boolAnd], rfl, ?_⟩
    rintro term C t' ⟨C1, C2, mid, rfl, ⟨w, rfl, hw'⟩, D1, D2, mid2, rfl, ⟨l, rfl, hl⟩,
      E1, E2, mid3, rfl, ⟨y, rfl, hy⟩, rfl, rfl⟩
    exact ⟨y, rfl, by simp [hy, hl, hw']⟩
  · -- BoolOr
    cases h
    refine ⟨[.boolOr], rfl, ?_⟩
    rintro term C t' ⟨C1, C2, mid, rfl, ⟨w, rfl, hw'⟩, D1, D2, mid2, rfl, ⟨l, rfl, hl⟩,
      E1, E2, mid3, rfl, ⟨y, rfl, hy⟩, rfl, rfl⟩
    exact ⟨y, rfl, by simp [hy, hl, hw']⟩
  · exact EInfo.shift _ (exprMulti_info hs (wf_head hw).2 h)
  · exact EInfo.shift _ (exprMultiA_info hs (wf_head hw).2 h)
  · cases h

/-- one iteration, any nonterminal -/
theorem step_info (hs : DecSound dec env ctx) {Y : NonTerm} {toks : List Token} {rest : List NonTerm}
    {term : List Ms} {s1 : DState} (hw : WfAll toks) (hneed : need Y ≤ term.length)
    (h : stepNT dec env ctx Y ⟨toks, rest, term⟩ = .ok s1) : Info env ctx Y toks rest term s1 := by
  by_cases hY : Y = .expression
  · subst hY
    simp only [stepNT] at h
    split at h
    · cases h
    · rename_i o ho
      cases h
      obtain ⟨C0, h1, h2⟩ := expr_info hs hw ho
      exact ⟨o.pushNt, C0, rfl, h1, fun C t' hsl => by simpa using h2 term C t' hsl⟩
  · exact step_info_other hY hneed h

/-! ### chaining along a successful run -/

/-- a successful run from `⟨toks, Ys ++ nt, term⟩` passes through `⟨toks', nt, term'⟩` having
consumed exactly `C`, with the chained specification of the segment `Ys` -/
theorem seg (hs : DecSound dec env ctx) : ∀ (f : Nat) (Ys nt : List NonTerm) (term : List Ms)
    (toks : List Token) (r : Ms × List Token), WfAll toks → Inv ⟨toks, Ys ++ nt, term⟩ →
    decodeLoop dec env ctx f ⟨toks, Ys ++ nt, term⟩ = some (.ok r) →
    ∃ f' toks' term' C, decodeLoop dec env ctx f' ⟨toks', nt, term'⟩ = some (.ok r) ∧
      toks = C ++ toks' ∧ SpecList env ctx Ys term C term' := by
  intro f
  induction f with
  | zero => intro Ys nt term toks r _ _ h; simp [decodeLoop] at h
  | succ f ih =>
    intro Ys nt term toks r hw hinv h
    cases Ys with
    | nil => exact ⟨f + 1, toks, term, [], by simpa using h, rfl, rfl, rfl⟩
    | cons Y Ys' =>
      simp only [List.cons_append, decodeLoop] at h
      have hneed : need Y ≤ term.length := by
        simp only [Inv, List.cons_append, sim] at hinv
        split at hinv
        · assumption
        · cases hinv
      have hgood := stepNT_inv (dec := dec) (env := env) (ctx := ctx) (toks := toks)
        (top := Y) (nt := Ys' ++ nt) (term := term) (by simpa [Inv] using hinv)
      cases hst : stepNT dec env ctx Y ⟨toks, Ys' ++ nt, term⟩ with
      | error e => rw [hst] at h; simp at h
      | ok s1 =>
        rw [hst] at h hgood
        simp only at h
        obtain ⟨Ps, C0, hnt, htoks, hspec⟩ := step_info hs hw hneed hst
        obtain ⟨toks1, nt1, term1⟩ := s1
        simp only at hnt htoks hspec
        subst hnt
        have hw1 : WfAll toks1 := by
          intro t ht; exact hw t (by rw [htoks]; simp [ht])
        have hinv1 : Inv ⟨toks1, (Ps ++ Ys') ++ nt, term1⟩ := by
          simpa [Good, List.append_assoc] using hgood
        have h' : decodeLoop dec env ctx f ⟨toks1, (Ps ++ Ys') ++ nt, term1⟩ = some (.ok r) := by
          simpa [List.append_assoc] using h
        obtain ⟨f', toks', term', C, hrun, hC, hsl⟩ := ih (Ps ++ Ys') nt term1 toks1 r hw1 hinv1 h'
        obtain ⟨Ca, Cb, mid, rfl, hPs, hYs⟩ := SpecList_append env ctx Ps Ys' _ _ _ hsl
        refine ⟨f', toks', term', C0 ++ Ca ++ Cb, hrun, by rw [htoks, hC]; simp, ?_⟩
        exact ⟨C0 ++ Ca, Cb, mid, rfl, hspec Ca mid hPs, hYs⟩

/-- T4, parser half: `decode` consumed exactly the tokens of the miniscript it returns -/
theorem decodeToks_canonical (hs : DecSound dec env ctx) {toks : List Token} {ms : Ms}
    {rest : List Token} (hw : WfAll toks) (h : decodeToks dec env ctx toks = .ok (ms, rest)) :
    toks.reverse = rt env ctx ms ++ rest := by
  unfold decodeToks at h
  cases hl : decodeLoop dec env ctx (decodeFuel toks) (initState toks.reverse) with
  | none => rw [hl] at h; cases h
  | some r0 =>
    rw [hl] at h
    simp only at h
    subst h
    have hw' : WfAll toks.reverse := fun t ht => hw t (by simpa using ht)
    obtain ⟨f', toks', term', C, hrun, hC, hsl⟩ :=
      seg hs (decodeFuel toks) [.expression, .maybeAndV] [] [] toks.reverse (ms, rest) hw'
        (inv_init toks.reverse) (by simpa [initState] using hl)
    -- the run ends here: the nonterminal stack is empty
    cases f' with
    | zero => simp [decodeLoop] at hrun
    | succ f' =>
      simp only [decodeLoop] at hrun
      obtain ⟨C1, C2, mid, rfl, ⟨y0, rfl, h0⟩, D1, D2, mid2, rfl, ⟨y, rfl, hy⟩, rfl, rfl⟩ := hsl
      simp only at hrun
      simp only [Option.some.injEq, Except.ok.injEq, Prod.mk.injEq] at hrun
      obtain ⟨rfl, rfl⟩ := hrun
      rw [hC, hy, h0]; simp

end
end DecodeL
end MsVerif

/- The mutual induction: parsing the printed tree of `m` under the wrapper prefix `ws`. -/
import MsVerif.Lemmas.DisplayRound

namespace MsVerif.Display
open MsVerif.Expr

theorem fromTreeL_two (c : Codec) (a b : Tree) :
    fromTreeL c [a, b] = [fromTreeI c a, fromTreeI c b] := by simp [fromTreeL]

theorem fromTreeL_three (c : Codec) (a b z : Tree) :
    fromTreeL c [a, b, z] = [fromTreeI c a, fromTreeI c b, fromTreeI c z] := by simp [fromTreeL]

mutual
theorem rtW (c : Codec) :
    ∀ (m : Ms) (ws : List W), Ms.all (nodeOk c) m = true →
      fromTreeI c (toTreeW c (ws.map W.char) m) = wrapAll c ws (.ok m)
  | .tru, ws, _ => by
    rw [toTreeW]; exact fromTreeI_core c ws .tru [] .tru rfl
  | .fls, ws, _ => by
    rw [toTreeW]; exact fromTreeI_core c ws .fls [] .fls rfl
  | .pkK k, ws, hall => by
    have ha := ((nodeOk_iff c _).1 (by simpa [Ms.all] using hall)).2.2.2.2
    simp only [atomsOk, beq_iff_eq] at ha
    rw [toTreeW]
    exact fromTreeI_core c ws .pk_k _ _ (termParent_leaf _ _ _ k ha)
  | .pkH k, ws, hall => by
    have ha := ((nodeOk_iff c _).1 (by simpa [Ms.all] using hall)).2.2.2.2
    simp only [atomsOk, beq_iff_eq] at ha
    rw [toTreeW]
    exact fromTreeI_core c ws .pk_h _ _ (termParent_leaf _ _ _ k ha)
  | .rawPkH h, ws, hall => by
    have ha := ((nodeOk_iff c _).1 (by simpa [Ms.all] using hall)).2.2.2.2
    simp only [atomsOk, beq_iff_eq] at ha
    rw [toTreeW]
    exact fromTreeI_core c ws .rawPkh _ _ (termParent_leaf _ _ _ h ha)
  | .after n, ws, hall => by
    rw [toTreeW]
    have hn : 1 ≤ n ∧ n ≤ 2147483647 := by
      have := ((nodeOk_iff c _).1 (by simpa [Ms.all] using hall)).2.2.2.1
      simpa [localOk] using this
    exact fromTreeI_core c ws .after _ _ (lockParent_leaf n _ hn)
  | .older n, ws, hall => by
    rw [toTreeW]
    have hn : 1 ≤ n ∧ n ≤ 2147483647 := by
      have := ((nodeOk_iff c _).1 (by simpa [Ms.all] using hall)).2.2.2.1
      simpa [localOk] using this
    exact fromTreeI_core c ws .older _ _ (lockParent_leaf n _ hn)
  | .hash kind h, ws, hall => by
    have ha := ((nodeOk_iff c _).1 (by simpa [Ms.all] using hall)).2.2.2.2
    simp only [atomsOk, beq_iff_eq] at ha
    rw [toTreeW]
    cases kind <;>
      exact fromTreeI_core c ws _ _ _ (termParent_leaf _ _ _ h ha)
  | .alt x, ws, hall => by
    simp only [Ms.all, Bool.and_eq_true] at hall
    rw [toTreeW]; exact wrap_step c ws .a x hall.1 (rtW c x (ws ++ [.a]) hall.2)
  | .swap x, ws, hall => by
    simp only [Ms.all, Bool.and_eq_true] at hall
    rw [toTreeW]; exact wrap_step c ws .s x hall.1 (rtW c x (ws ++ [.s]) hall.2)
  | .dupIf x, ws, hall => by
    simp only [Ms.all, Bool.and_eq_true] at hall
    rw [toTreeW]; exact wrap_step c ws .d x hall.1 (rtW c x (ws ++ [.d]) hall.2)
  | .verify x, ws, hall => by
    simp only [Ms.all, Bool.and_eq_true] at hall
    rw [toTreeW]; exact wrap_step c ws .v x hall.1 (rtW c x (ws ++ [.v]) hall.2)
  | .nonZero x, ws, hall => by
    simp only [Ms.all, Bool.and_eq_true] at hall
    rw [toTreeW]; exact wrap_step c ws .j x hall.1 (rtW c x (ws ++ [.j]) hall.2)
  | .zeroNotEqual x, ws, hall => by
    simp only [Ms.all, Bool.and_eq_true] at hall
    rw [toTreeW]; exact wrap_step c ws .n x hall.1 (rtW c x (ws ++ [.n]) hall.2)
  | .check x, ws, hall => by
    simp only [Ms.all, Bool.and_eq_true] at hall
    have ih := rtW c x (ws ++ [.c]) hall.2
    rw [toTreeW]
    rcases sugarCheck_cases c x with hnone | ⟨k, rfl⟩ | ⟨k, rfl⟩
    · rw [hnone]; exact wrap_step c ws .c x hall.1 ih
    · have ha := ((nodeOk_iff c _).1 (by simpa [Ms.all] using hall.2)).2.2.2.2
      simp only [atomsOk, beq_iff_eq] at ha
      simp only [sugarCheck]
      exact fromTreeI_core c ws .pk _ _ (termParent_leaf _ _ _ k ha)
    · have ha := ((nodeOk_iff c _).1 (by simpa [Ms.all] using hall.2)).2.2.2.2
      simp only [atomsOk, beq_iff_eq] at ha
      simp only [sugarCheck]
      exact fromTreeI_core c ws .pkh _ _ (termParent_leaf _ _ _ k ha)
  | .andV l r, ws, hall => by
    simp only [Ms.all, Bool.and_eq_true] at hall
    have ihl := rtW c l [] hall.1.2
    have ihr := rtW c r [] hall.2
    have ihw := rtW c l (ws ++ [.t]) hall.1.2
    rw [toTreeW]
    by_cases hr : r = .tru
    · subst hr; simp only [if_true]
      exact wrap_step c ws .t l hall.1.1 ihw
    · simp only [hr, if_false]
      refine fromTreeI_core c ws .and_v _ _ ?_
      simp only [parseCore, fromTreeL_two]
      rw [show ([] : List Char) = ([] : List W).map W.char from rfl, ihl, ihr]
      exact binary_ok c l r .andV (mk_ok c _ hall.1.1)
  | .andB l r, ws, hall => by
    simp only [Ms.all, Bool.and_eq_true] at hall
    have ihl := rtW c l [] hall.1.2
    have ihr := rtW c r [] hall.2
    rw [toTreeW]
    refine fromTreeI_core c ws .and_b _ _ ?_
    simp only [parseCore, fromTreeL_two]
    rw [show ([] : List Char) = ([] : List W).map W.char from rfl, ihl, ihr]
    exact binary_ok c l r .andB (mk_ok c _ hall.1.1)
  | .orB l r, ws, hall => by
    simp only [Ms.all, Bool.and_eq_true] at hall
    have ihl := rtW c l [] hall.1.2
    have ihr := rtW c r [] hall.2
    rw [toTreeW]
    refine fromTreeI_core c ws .or_b _ _ ?_
    simp only [parseCore, fromTreeL_two]
    rw [show ([] : List Char) = ([] : List W).map W.char from rfl, ihl, ihr]
    exact binary_ok c l r .orB (mk_ok c _ hall.1.1)
  | .orD l r, ws, hall => by
    simp only [Ms.all, Bool.and_eq_true] at hall
    have ihl := rtW c l [] hall.1.2
    have ihr := rtW c r [] hall.2
    rw [toTreeW]
    refine fromTreeI_core c ws .or_d _ _ ?_
    simp only [parseCore, fromTreeL_two]
    rw [show ([] : List Char) = ([] : List W).map W.char from rfl, ihl, ihr]
    exact binary_ok c l r .orD (mk_ok c _ hall.1.1)
  | .orC l r, ws, hall => by
    simp only [Ms.all, Bool.and_eq_true] at hall
    have ihl := rtW c l [] hall.1.2
    have ihr := rtW c r [] hall.2
    rw [toTreeW]
    refine fromTreeI_core c ws .or_c _ _ ?_
    simp only [parseCore, fromTreeL_two]
    rw [show ([] : List Char) = ([] : List W).map W.char from rfl, ihl, ihr]
    exact binary_ok c l r .orC (mk_ok c _ hall.1.1)
  | .orI l r, ws, hall => by
    simp only [Ms.all, Bool.and_eq_true] at hall
    have ihl := rtW c l [] hall.1.2
    have ihr := rtW c r [] hall.2
    have ihu := rtW c l (ws ++ [.u]) hall.1.2
    have ihur := rtW c r (ws ++ [.u]) hall.2
    have ihlr := rtW c r (ws ++ [.l]) hall.2
    rw [toTreeW]
    by_cases hr : r = .fls
    · by_cases hl : l = .fls
      · subst hr; subst hl; simp only [if_true]
        exact wrap_step c ws .u .fls hall.1.1 ihur
      · subst hr; simp only [if_true, hl, if_false]
        exact wrap_step c ws .u l hall.1.1 ihu
    · by_cases hl : l = .fls
      · subst hl; simp only [hr, if_false, if_true]
        exact wrap_step c ws .l r hall.1.1 ihlr
      · simp only [hr, hl, if_false]
        refine fromTreeI_core c ws .or_i _ _ ?_
        simp only [parseCore, fromTreeL_two]
        rw [show ([] : List Char) = ([] : List W).map W.char from rfl, ihl, ihr]
        exact binary_ok c l r .orI (mk_ok c _ hall.1.1)
  | .andOr a b z, ws, hall => by
    simp only [Ms.all, Bool.and_eq_true] at hall
    have iha := rtW c a [] hall.1.1.2
    have ihb := rtW c b [] hall.1.2
    have ihz := rtW c z [] hall.2
    rw [toTreeW]
    by_cases hz : z = .fls
    · subst hz; simp only [if_true]
      refine fromTreeI_core c ws .and_n _ _ ?_
      simp only [parseCore, fromTreeL_two]
      rw [show ([] : List Char) = ([] : List W).map W.char from rfl, iha, ihb]
      exact binary_ok c a b (fun x y => .andOr x y .fls) (mk_ok c _ hall.1.1.1)
    · simp only [hz, if_false]
      refine fromTreeI_core c ws .andor _ _ ?_
      simp only [parseCore, fromTreeL_three]
      rw [show ([] : List Char) = ([] : List W).map W.char from rfl, iha, ihb, ihz]
      simp [wrapAll, mk_ok c _ hall.1.1.1]
  | .thresh k xs, ws, hall => by
    simp only [Ms.all, Bool.and_eq_true] at hall
    have ihxs := rtL c xs hall.2
    have hloc := ((nodeOk_iff c _).1 hall.1).2.2.2.1
    simp only [localOk, decide_eq_true_eq] at hloc
    rw [toTreeW]
    refine fromTreeI_core c ws .thresh _ _ ?_
    simp only [parseCore]
    rw [threshK_ok 0 k _ hloc.1 (by rw [toTreeList_length]; exact hloc.2.1) hloc.2.2 (Or.inl rfl)]
    simp only [fromTreeL, List.tail_cons, ihxs, collect_map_ok, ofList_toList]
    exact mk_ok c _ hall.1
  | .multi k ks, ws, hall => by
    have hn : nodeOk c (.multi k ks) = true := by simpa [Ms.all] using hall
    have hloc := ((nodeOk_iff c _).1 hn).2.2.2.1
    have hat := ((nodeOk_iff c _).1 hn).2.2.2.2
    simp only [atomsOk] at hat
    simp only [localOk, decide_eq_true_eq] at hloc
    rw [toTreeW]
    refine fromTreeI_core c ws .multi _ _ ?_
    simp only [parseCore]
    exact keysThresh_ok c 20 k ks .multi hloc.1 hloc.2.1 hloc.2.2 (by omega) hat (mk_ok c _ hn)
  | .sortedMulti k ks, ws, hall => by
    have hn : nodeOk c (.sortedMulti k ks) = true := by simpa [Ms.all] using hall
    have hloc := ((nodeOk_iff c _).1 hn).2.2.2.1
    have hat := ((nodeOk_iff c _).1 hn).2.2.2.2
    simp only [atomsOk] at hat
    simp only [localOk, decide_eq_true_eq] at hloc
    rw [toTreeW]
    refine fromTreeI_core c ws .sortedmulti _ _ ?_
    simp only [parseCore]
    exact keysThresh_ok c 20 k ks .sortedMulti hloc.1 hloc.2.1 hloc.2.2 (by omega) hat (mk_ok c _ hn)
  | .multiA k ks, ws, hall => by
    have hn : nodeOk c (.multiA k ks) = true := by simpa [Ms.all] using hall
    have hloc := ((nodeOk_iff c _).1 hn).2.2.2.1
    have hat := ((nodeOk_iff c _).1 hn).2.2.2.2
    simp only [atomsOk] at hat
    simp only [localOk, decide_eq_true_eq] at hloc
    rw [toTreeW]
    refine fromTreeI_core c ws .multi_a _ _ ?_
    simp only [parseCore]
    exact keysThresh_ok c 999 k ks .multiA hloc.1 hloc.2.1 hloc.2.2 (by omega) hat (mk_ok c _ hn)
  | .sortedMultiA k ks, ws, hall => by
    have hn : nodeOk c (.sortedMultiA k ks) = true := by simpa [Ms.all] using hall
    have hloc := ((nodeOk_iff c _).1 hn).2.2.2.1
    have hat := ((nodeOk_iff c _).1 hn).2.2.2.2
    simp only [atomsOk] at hat
    simp only [localOk, decide_eq_true_eq] at hloc
    rw [toTreeW]
    refine fromTreeI_core c ws .sortedmulti_a _ _ ?_
    simp only [parseCore]
    exact keysThresh_ok c 999 k ks .sortedMultiA hloc.1 hloc.2.1 hloc.2.2 (by omega) hat (mk_ok c _ hn)
theorem rtL (c : Codec) :
    ∀ (xs : MsList), MsList.all (nodeOk c) xs = true →
      fromTreeL c (toTreeList c xs) = xs.toList.map Except.ok
  | .nil, _ => by simp [toTreeList, fromTreeL, MsList.toList]
  | .cons x xs, hall => by
    simp only [MsList.all, Bool.and_eq_true] at hall
    have ihx := rtW c x [] hall.1
    have ihxs := rtL c xs hall.2
    simp only [toTreeList, fromTreeL, MsList.toList, List.map_cons]
    rw [show ([] : List Char) = ([] : List W).map W.char from rfl, ihx, ihxs]
    rfl
end

end MsVerif.Display

/-
Helper lemmas for C03: the selection lattice of the satisfier model (`Model/Satisfy.lean`):
`minimum`, `concatenateRev`, `foldConcat`, the multisig loops and the signature-placeholder
invariant `SigInv`.
-/
import MsVerif.Model.Satisfy

namespace MsVerif.MalleLattice
open MsVerif Sat

/-! ### signature placeholders -/

/-- the placeholders that stand for a signature -/
def isSig : Ph → Bool
  | .ecdsaSig _ | .ecdsaSigPkh _ | .schnorrSig _ _ | .schnorrSigPkh _ _ => true
  | _ => false

def hasSigPh (l : List Ph) : Bool := l.any isSig

/-- `Wit` level: a stack witness contains a signature placeholder -/
def Wit.hasSigPh : Wit → Bool
  | .stack l => MalleLattice.hasSigPh l
  | _ => false

/-- the invariant: a result flagged `hasSig` that is a stack contains a signature placeholder -/
def SigInv (s : Sat) : Prop := s.hasSig = true → ∀ l, s.stack = .stack l → hasSigPh l = true

theorem hasSigPh_append (a b : List Ph) : hasSigPh (a ++ b) = (hasSigPh a || hasSigPh b) := by
  simp [hasSigPh, List.any_append]

theorem sigInv_of_noSig {s : Sat} (h : s.hasSig = false) : SigInv s := by
  intro h'; rw [h] at h'; cases h'

theorem sigInv_IMPOSSIBLE : SigInv Sat.IMPOSSIBLE := sigInv_of_noSig rfl
theorem sigInv_UNAVAILABLE : SigInv Sat.UNAVAILABLE := sigInv_of_noSig rfl
theorem sigInv_TRIVIAL : SigInv Sat.TRIVIAL := sigInv_of_noSig rfl
theorem sigInv_empty : SigInv Sat.empty := sigInv_of_noSig rfl
theorem sigInv_push0 : SigInv Sat.push0 := sigInv_of_noSig rfl
theorem sigInv_default : SigInv (default : Sat) := sigInv_of_noSig rfl

theorem combine_stack {a b : Wit} {l : List Ph} (h : Wit.combine a b = .stack l) :
    ∃ la lb, a = .stack la ∧ b = .stack lb ∧ l = la ++ lb := by
  cases a <;> cases b <;> simp [Wit.combine] at h
  exact ⟨_, _, rfl, rfl, h.symm⟩

/-- auxiliary shape of the tail of `concatenate_rev` -/
def shapeOf (w : Wit) (hs : Bool) (rel abs : Option (Option Nat)) : Sat :=
  match rel with
  | none => IMPOSSIBLE
  | some rel => match abs with
    | none => IMPOSSIBLE
    | some abs => ⟨w, hs, abs, rel⟩

theorem shapeOf_cases (w : Wit) (hs : Bool) (rel abs : Option (Option Nat)) :
    shapeOf w hs rel abs = IMPOSSIBLE ∨ ∃ (a r : Option Nat), shapeOf w hs rel abs = ⟨w, hs, a, r⟩ := by
  cases rel <;> cases abs <;> simp [shapeOf]

/-- `concatenate_rev` is `IMPOSSIBLE` or the concatenation (other's stack first) with the
`has_sig` flags or-ed -/
theorem concatenateRev_cases (s o : Sat) :
    s.concatenateRev o = IMPOSSIBLE ∨
    ∃ abs rel, s.concatenateRev o = ⟨Wit.combine o.stack s.stack, s.hasSig || o.hasSig, abs, rel⟩ := by
  unfold Sat.concatenateRev
  by_cases h : s.stack = .impossible ∨ o.stack = .impossible
  · simp [h]
  · simp only [h, if_false]
    exact shapeOf_cases _ _ _ _

/-- `concatenate_rev` keeps the invariant -/
theorem sigInv_concatenateRev {s o : Sat} (hs : SigInv s) (ho : SigInv o) :
    SigInv (s.concatenateRev o) := by
  rcases concatenateRev_cases s o with e | ⟨abs, rel, e⟩
  · rw [e]; exact sigInv_IMPOSSIBLE
  · rw [e]
    intro hsig l hl
    simp only at hsig hl
    obtain ⟨lo, ls, ho', hs', rfl⟩ := combine_stack hl
    rw [hasSigPh_append]
    rcases Bool.or_eq_true _ _ |>.mp hsig with h | h
    · rw [hs h ls hs']; simp
    · rw [ho h lo ho']; simp

theorem sigInv_foldl (l : List Sat) (init : Sat) (hi : SigInv init) (hl : ∀ s ∈ l, SigInv s) :
    SigInv (l.foldl Sat.concatenateRev init) := by
  induction l generalizing init with
  | nil => exact hi
  | cons x xs ih =>
    simp only [List.foldl_cons]
    exact ih _ (sigInv_concatenateRev hi (hl x (by simp))) (fun s hs => hl s (by simp [hs]))

theorem sigInv_foldConcat (l : List Sat) (hl : ∀ s ∈ l, SigInv s) : SigInv (foldConcat l) :=
  sigInv_foldl l _ sigInv_empty hl

/-! ### `minimum` -/

/-- complete case description of `Satisfaction::minimum` -/
theorem minimum_cases (s1 s2 : Sat) :
    (s1.stack = .impossible ∧ minimum s1 s2 = s2) ∨
    (s1.stack ≠ .impossible ∧ s2.stack = .impossible ∧ minimum s1 s2 = s1) ∨
    (s1.stack ≠ .impossible ∧ s2.stack ≠ .impossible ∧
      ((s1.hasSig = false ∧ s2.hasSig = false ∧ minimum s1 s2 = UNAVAILABLE) ∨
       (s1.hasSig = false ∧ s2.hasSig = true ∧ minimum s1 s2 = ⟨s1.stack, false, s1.abs, s1.rel⟩) ∨
       (s1.hasSig = true ∧ s2.hasSig = false ∧ minimum s1 s2 = ⟨s2.stack, false, s2.abs, s2.rel⟩) ∨
       (s1.hasSig = true ∧ s2.hasSig = true ∧
         (minimum s1 s2 = ⟨s1.stack, true, s1.abs, s1.rel⟩ ∨
          minimum s1 s2 = ⟨s2.stack, true, s2.abs, s2.rel⟩)))) := by
  unfold minimum
  by_cases h1 : s1.stack = .impossible
  · left; simp [h1]
  · by_cases h2 : s2.stack = .impossible
    · right; left; simp [h1, h2]
    · right; right
      refine ⟨h1, h2, ?_⟩
      simp only [h1, h2, if_false]
      cases hs1 : s1.hasSig <;> cases hs2 : s2.hasSig <;> simp
      by_cases hlt : s1.stack.lt s2.stack = true <;> simp [hlt]

theorem sigInv_minimum {s1 s2 : Sat} (h1 : SigInv s1) (h2 : SigInv s2) : SigInv (minimum s1 s2) := by
  rcases minimum_cases s1 s2 with ⟨_, e⟩ | ⟨_, _, e⟩ | ⟨_, _, h⟩
  · rw [e]; exact h2
  · rw [e]; exact h1
  · rcases h with ⟨_, _, e⟩ | ⟨_, _, e⟩ | ⟨_, _, e⟩ | ⟨a, b, e | e⟩
    · rw [e]; exact sigInv_UNAVAILABLE
    · rw [e]; exact sigInv_of_noSig rfl
    · rw [e]; exact sigInv_of_noSig rfl
    · rw [e]; intro _ l hl; exact h1 a l hl
    · rw [e]; intro _ l hl; exact h2 b l hl

theorem sigInv_minimumMall {s1 s2 : Sat} (h1 : SigInv s1) (h2 : SigInv s2) :
    SigInv (minimumMall s1 s2) := by
  unfold minimumMall
  split
  · exact h2
  · split
    · exact h1
    · intro hsig l hl
      simp only [Bool.and_eq_true] at hsig
      simp only at hl
      split at hl
      · exact h1 hsig.1 l hl
      · exact h2 hsig.2 l hl

theorem sigInv_minFn (c : SatCfg) {s1 s2 : Sat} (h1 : SigInv s1) (h2 : SigInv s2) :
    SigInv (c.minFn s1 s2) := by
  unfold SatCfg.minFn
  split
  · exact sigInv_minimumMall h1 h2
  · exact sigInv_minimum h1 h2

/-! ### leaves -/

/-- `Witness::signature` is a single signature placeholder or `Impossible` -/
theorem sigWit_cases (ctx : Ctx) (a : Assets) (k : Key) :
    sigWit ctx a k = .impossible ∨ ∃ p, isSig p = true ∧ sigWit ctx a k = .stack [p] := by
  unfold sigWit
  split
  · split
    · exact .inr ⟨_, rfl, rfl⟩
    · exact .inl rfl
  · split
    · exact .inr ⟨_, rfl, rfl⟩
    · exact .inl rfl

theorem sigInv_sigWit (ctx : Ctx) (a : Assets) (k : Key) :
    SigInv ⟨sigWit ctx a k, true, none, none⟩ := by
  intro _ l hl
  rcases sigWit_cases ctx a k with h | ⟨p, hp, h⟩
  · simp only at hl; rw [h] at hl; cases hl
  · simp only at hl; rw [h] at hl; cases hl; simp [hasSigPh, hp]

theorem sigInv_sigWit_combine (ctx : Ctx) (a : Assets) (k : Key) (w : Wit) :
    SigInv ⟨Wit.combine (sigWit ctx a k) w, true, none, none⟩ := by
  intro _ l hl
  simp only at hl
  obtain ⟨la, lb, h1, _, rfl⟩ := combine_stack hl
  rcases sigWit_cases ctx a k with h | ⟨p, hp, h⟩
  · rw [h] at h1; cases h1
  · rw [h] at h1; cases h1; simp [hasSigPh, hp]

/-! ### `multi`: dropping the most expensive signatures keeps at least `k` of them -/

/-- every entry is empty or one signature placeholder -/
def SigEntries (l : List (List Ph)) : Prop := ∀ e ∈ l, e = [] ∨ ∃ p, isSig p = true ∧ e = [p]

theorem sigEntries_set_nil {l : List (List Ph)} (h : SigEntries l) (i : Nat) :
    SigEntries (l.set i []) := by
  intro e he
  rcases List.mem_or_eq_of_mem_set he with h' | h'
  · exact h e h'
  · exact .inl h'

theorem flatten_set_nil_length (l : List (List Ph)) (h : SigEntries l) (i : Nat) :
    l.flatten.length ≤ (l.set i []).flatten.length + 1 := by
  induction l generalizing i with
  | nil => simp
  | cons x xs ih =>
    have hx : x.length ≤ 1 := by
      rcases h x (by simp) with rfl | ⟨p, _, rfl⟩ <;> simp
    have hxs : SigEntries xs := fun e he => h e (by simp [he])
    cases i with
    | zero => simp; omega
    | succ j =>
      have := ih hxs j
      simp only [List.set_cons_succ, List.flatten_cons, List.length_append]
      omega

theorem dropMostExpensive_spec (n : Nat) (l : List (List Ph)) (h : SigEntries l) :
    SigEntries (dropMostExpensive n l) ∧ l.flatten.length ≤ (dropMostExpensive n l).flatten.length + n := by
  induction n generalizing l with
  | zero => exact ⟨h, by simp [dropMostExpensive]⟩
  | succ m ih =>
    simp only [dropMostExpensive]
    have h' := sigEntries_set_nil h (maxIdxLast l)
    obtain ⟨a, b⟩ := ih _ h'
    refine ⟨a, ?_⟩
    have := flatten_set_nil_length l h (maxIdxLast l)
    omega

theorem foldl_combine_stack (sigs : List (List Ph)) (init : List Ph) :
    sigs.foldl (fun acc s => Wit.combine acc (.stack s)) (.stack init) = .stack (init ++ sigs.flatten) := by
  induction sigs generalizing init with
  | nil => simp
  | cons x xs ih =>
    simp only [List.foldl_cons, List.flatten_cons]
    have : Wit.combine (.stack init) (.stack x) = .stack (init ++ x) := rfl
    rw [this, ih, List.append_assoc]

theorem sigEntries_flatten {l : List (List Ph)} (h : SigEntries l) : ∀ p ∈ l.flatten, isSig p = true := by
  intro p hp
  obtain ⟨e, he, hpe⟩ := List.mem_flatten.mp hp
  rcases h e he with rfl | ⟨q, hq, rfl⟩
  · cases hpe
  · simp at hpe; rw [hpe]; exact hq

theorem hasSigPh_of_flatten {l : List (List Ph)} (h : SigEntries l) (hn : 0 < l.flatten.length)
    (init : List Ph) : hasSigPh (init ++ l.flatten) = true := by
  rw [hasSigPh_append]
  have : ∃ p, p ∈ l.flatten := by
    cases hf : l.flatten with
    | nil => rw [hf] at hn; cases hn
    | cons p _ => exact ⟨p, by simp⟩
  obtain ⟨p, hp⟩ := this
  have : hasSigPh l.flatten = true := by
    simp only [hasSigPh, List.any_eq_true]
    exact ⟨p, hp, sigEntries_flatten h p hp⟩
  simp [this]

theorem sigEntries_filterMap (f : Key → Option (List Ph))
    (hf : ∀ k s, f k = some s → ∃ p, isSig p = true ∧ s = [p]) (ks : List Key) :
    SigEntries (ks.filterMap f) ∧ (ks.filterMap f).flatten.length = (ks.filterMap f).length := by
  induction ks with
  | nil => simp [SigEntries]
  | cons k ks ih =>
    cases hk : f k with
    | none => simp only [List.filterMap_cons, hk]; exact ih
    | some s =>
      obtain ⟨p, hp, rfl⟩ := hf k s hk
      simp only [List.filterMap_cons, hk]
      refine ⟨?_, ?_⟩
      · intro e he
        rcases List.mem_cons.mp he with rfl | he
        · exact .inr ⟨p, hp, rfl⟩
        · exact ih.1 e he
      · simp [ih.2]

theorem dropped_has_sig (f : Key → Option (List Ph))
    (hf : ∀ k s, f k = some s → ∃ p, isSig p = true ∧ s = [p]) (ks : List Key) (k : Nat)
    (hk : 1 ≤ k) (hlen : ¬ (ks.filterMap f).length < k) (init : List Ph) :
    hasSigPh (init ++ (dropMostExpensive ((ks.filterMap f).length - k) (ks.filterMap f)).flatten) = true := by
  obtain ⟨he, hfl⟩ := sigEntries_filterMap f hf ks
  obtain ⟨he', hlen'⟩ := dropMostExpensive_spec ((ks.filterMap f).length - k) _ he
  apply hasSigPh_of_flatten he'
  rw [hfl] at hlen'
  omega

/-- `multi` / `sortedmulti`: for `k ≥ 1` the satisfaction contains a signature placeholder -/
theorem sigInv_multiSD (ctx : Ctx) (a : Assets) (k : Nat) (ks : List Key) (hk : 1 ≤ k) :
    SigInv (multiSD ctx a k ks).sat ∧ SigInv (multiSD ctx a k ks).dissat := by
  unfold multiSD
  simp only
  split
  · exact ⟨sigInv_IMPOSSIBLE, sigInv_of_noSig rfl⟩
  · rename_i hlen
    refine ⟨?_, sigInv_of_noSig rfl⟩
    intro _ l hl
    simp only at hl
    rw [foldl_combine_stack] at hl
    cases hl
    refine dropped_has_sig _ ?hf ks k hk hlen _
    intro k' s h
    rcases sigWit_cases ctx a k' with hw | ⟨p, hp, hw⟩
    · simp only [hw] at h; cases h
    · simp only [hw] at h; cases h; exact ⟨p, hp, rfl⟩

/-! ### `multi_a`: the loop records at least one signature when it counts one -/

/-- some entry is a signature -/
def HasSigEntry (l : List (List Ph)) : Prop := ∃ e ∈ l, ∃ p, isSig p = true ∧ e = [p]

theorem hasSigEntry_set {l : List (List Ph)} (h : HasSigEntry l) (i : Nat) (p : Ph) (hp : isSig p = true) :
    HasSigEntry (l.set i [p]) := by
  by_cases hi : i < l.length
  · exact ⟨[p], List.mem_set hi _, p, hp, rfl⟩
  · rw [List.set_eq_of_length_le (by omega)]; exact h

theorem hasSigEntry_set_lt (l : List (List Ph)) (i : Nat) (hi : i < l.length) (p : Ph) (hp : isSig p = true) :
    HasSigEntry (l.set i [p]) :=
  ⟨[p], List.mem_set hi _, p, hp, rfl⟩

theorem multiALoop_keeps (ctx : Ctx) (a : Assets) (k : Nat) (ks : List Key) (i cnt : Nat)
    (sigs : List (List Ph)) (h : HasSigEntry sigs) :
    HasSigEntry (multiALoop ctx a k ks i cnt sigs).2 := by
  induction ks generalizing i cnt sigs with
  | nil => exact h
  | cons pk rest ih =>
    unfold multiALoop
    rcases sigWit_cases ctx a pk with hw | ⟨p, hp, hw⟩
    · simp only [hw]; exact ih _ _ _ h
    · simp only [hw]
      split
      · exact hasSigEntry_set h i p hp
      · exact ih _ _ _ (hasSigEntry_set h i p hp)

theorem multiALoop_counts (ctx : Ctx) (a : Assets) (k : Nat) (ks : List Key) (i cnt : Nat)
    (sigs : List (List Ph)) (hb : i + ks.length ≤ sigs.length)
    (hc : cnt < (multiALoop ctx a k ks i cnt sigs).1) :
    HasSigEntry (multiALoop ctx a k ks i cnt sigs).2 := by
  induction ks generalizing i cnt sigs with
  | nil => simp [multiALoop] at hc
  | cons pk rest ih =>
    unfold multiALoop at hc ⊢
    simp only [List.length_cons] at hb
    rcases sigWit_cases ctx a pk with hw | ⟨p, hp, hw⟩
    · simp only [hw] at hc ⊢
      exact ih _ _ _ (by omega) hc
    · simp only [hw] at hc ⊢
      split
      · exact hasSigEntry_set_lt sigs i (by omega) p hp
      · exact multiALoop_keeps ctx a k rest _ _ _ (hasSigEntry_set_lt sigs i (by omega) p hp)

theorem hasSigPh_of_hasSigEntry {l : List (List Ph)} (h : HasSigEntry l) : hasSigPh l.flatten = true := by
  obtain ⟨e, he, p, hp, rfl⟩ := h
  simp only [hasSigPh, List.any_eq_true]
  exact ⟨p, List.mem_flatten.mpr ⟨[p], he, by simp⟩, hp⟩

/-- `multi_a` / `sortedmulti_a`: for `k ≥ 1` the satisfaction contains a signature placeholder -/
theorem sigInv_multiASD (ctx : Ctx) (a : Assets) (k : Nat) (ks : List Key) (hk : 1 ≤ k) :
    SigInv (multiASD ctx a k ks).sat ∧ SigInv (multiASD ctx a k ks).dissat := by
  unfold multiASD
  simp only
  split
  · exact ⟨sigInv_IMPOSSIBLE, sigInv_of_noSig rfl⟩
  · rename_i hcnt
    refine ⟨?_, sigInv_of_noSig rfl⟩
    intro _ l hl
    simp only at hl
    rw [foldl_combine_stack] at hl
    cases hl
    simp only [List.nil_append]
    apply hasSigPh_of_hasSigEntry
    apply multiALoop_counts
    · simp
    · omega

/-! ### thresholds -/

theorem sigInv_getElem! (l : List Sat) (h : ∀ s ∈ l, SigInv s) (i : Nat) : SigInv l[i]! := by
  by_cases hi : i < l.length
  · rw [getElem!_pos l i hi]; exact h _ (List.getElem_mem hi)
  · rw [getElem!_neg l i hi]; exact sigInv_default

theorem sigInv_swapped (k : Nat) (idx : List Nat) (dissats sats : List Sat)
    (hd : ∀ s ∈ dissats, SigInv s) (hs : ∀ s ∈ sats, SigInv s) :
    ∀ s ∈ (swapped k idx dissats sats).1, SigInv s := by
  intro s hmem
  simp only [swapped, List.mem_map] at hmem
  obtain ⟨i, _, rfl⟩ := hmem
  split
  · exact sigInv_getElem! sats hs i
  · exact sigInv_getElem! dissats hd i

theorem sigInv_threshMall (k : Nat) (dissats sats : List Sat)
    (hd : ∀ s ∈ dissats, SigInv s) (hs : ∀ s ∈ sats, SigInv s) :
    SigInv (threshMall k dissats sats) := by
  unfold threshMall
  exact sigInv_foldConcat _ (sigInv_swapped k _ dissats sats hd hs)

/-- the three possible outcomes of the non-malleable threshold -/
theorem threshNonMall_cases (k : Nat) (dissats sats : List Sat) :
    threshNonMall k dissats sats = Sat.IMPOSSIBLE ∨ threshNonMall k dissats sats = Sat.UNAVAILABLE ∨
    ∃ idx, threshNonMall k dissats sats = foldConcat (swapped k idx dissats sats).1 := by
  unfold threshNonMall
  simp only
  split
  · exact .inl rfl
  · split
    · exact .inr (.inl rfl)
    · exact .inr (.inr ⟨_, rfl⟩)

theorem sigInv_threshNonMall (k : Nat) (dissats sats : List Sat)
    (hd : ∀ s ∈ dissats, SigInv s) (hs : ∀ s ∈ sats, SigInv s) :
    SigInv (threshNonMall k dissats sats) := by
  rcases threshNonMall_cases k dissats sats with e | e | ⟨idx, e⟩
  · rw [e]; exact sigInv_IMPOSSIBLE
  · rw [e]; exact sigInv_UNAVAILABLE
  · rw [e]; exact sigInv_foldConcat _ (sigInv_swapped k idx dissats sats hd hs)

/-! ### the whole satisfier -/

mutual
/-- thresholds of the multisig fragments are at least 1 (`Threshold::new` guarantees it) -/
def kPos : Ms → Bool
  | .multi k _ | .sortedMulti k _ | .multiA k _ | .sortedMultiA k _ => decide (1 ≤ k)
  | .alt x | .swap x | .check x | .dupIf x | .verify x | .nonZero x | .zeroNotEqual x => kPos x
  | .andV l r | .andB l r | .orB l r | .orD l r | .orC l r | .orI l r => kPos l && kPos r
  | .andOr a b c => kPos a && kPos b && kPos c
  | .thresh _ xs => kPosL xs
  | _ => true
def kPosL : MsList → Bool
  | .nil => true
  | .cons x xs => kPos x && kPosL xs
end

theorem sigInv_withStack {s : Sat} (h : SigInv s) (extra : List Ph) :
    SigInv { s with stack := Wit.combine s.stack (.stack extra) } := by
  intro hsig l hl
  simp only at hsig hl
  obtain ⟨la, lb, h1, _, rfl⟩ := combine_stack hl
  rw [hasSigPh_append, h hsig la h1]; simp

mutual
theorem sigInv_satDissat (c : SatCfg) :
    ∀ ms : Ms, kPos ms = true → SigInv (satDissat c ms).sat ∧ SigInv (satDissat c ms).dissat
  | .fls, _ => by simp only [satDissat]; exact ⟨sigInv_IMPOSSIBLE, sigInv_TRIVIAL⟩
  | .tru, _ => by simp only [satDissat]; exact ⟨sigInv_TRIVIAL, sigInv_IMPOSSIBLE⟩
  | .pkK k, _ => by simp only [satDissat]; exact ⟨sigInv_sigWit _ _ _, sigInv_push0⟩
  | .pkH k, _ => by
    simp only [satDissat]; exact ⟨sigInv_sigWit_combine _ _ _ _, sigInv_of_noSig rfl⟩
  | .rawPkH h, _ => by
    simp only [satDissat]
    refine ⟨?_, sigInv_of_noSig rfl⟩
    intro _ l hl
    simp only at hl
    split at hl
    · split at hl
      · cases hl; rfl
      · cases hl
    · split at hl
      · cases hl; rfl
      · cases hl
  | .multi k ks, h => by
    simp only [satDissat]; exact sigInv_multiSD _ _ _ _ (by simpa [kPos] using h)
  | .sortedMulti k ks, h => by
    simp only [satDissat]; exact sigInv_multiSD _ _ _ _ (by simpa [kPos] using h)
  | .multiA k ks, h => by
    simp only [satDissat]; exact sigInv_multiASD _ _ _ _ (by simpa [kPos] using h)
  | .sortedMultiA k ks, h => by
    simp only [satDissat]; exact sigInv_multiASD _ _ _ _ (by simpa [kPos] using h)
  | .after n, _ => by
    simp only [satDissat]; exact ⟨sigInv_of_noSig rfl, sigInv_IMPOSSIBLE⟩
  | .older n, _ => by
    simp only [satDissat]; exact ⟨sigInv_of_noSig rfl, sigInv_IMPOSSIBLE⟩
  | .hash kind h, _ => by
    simp only [satDissat]; exact ⟨sigInv_of_noSig rfl, sigInv_of_noSig rfl⟩
  | .alt x, h => by simp only [satDissat]; exact sigInv_satDissat c x (by simpa [kPos] using h)
  | .swap x, h => by simp only [satDissat]; exact sigInv_satDissat c x (by simpa [kPos] using h)
  | .check x, h => by simp only [satDissat]; exact sigInv_satDissat c x (by simpa [kPos] using h)
  | .zeroNotEqual x, h => by simp only [satDissat]; exact sigInv_satDissat c x (by simpa [kPos] using h)
  | .dupIf x, h => by
    simp only [satDissat]
    exact ⟨sigInv_withStack (sigInv_satDissat c x (by simpa [kPos] using h)).1 _, sigInv_push0⟩
  | .verify x, h => by
    simp only [satDissat]
    exact ⟨(sigInv_satDissat c x (by simpa [kPos] using h)).1, sigInv_IMPOSSIBLE⟩
  | .nonZero x, h => by
    simp only [satDissat]
    exact ⟨(sigInv_satDissat c x (by simpa [kPos] using h)).1, sigInv_push0⟩
  | .andB l r, h => by
    have h' : kPos l = true ∧ kPos r = true := by simpa [kPos] using h
    have hl := sigInv_satDissat c l h'.1; have hr := sigInv_satDissat c r h'.2
    simp only [satDissat]
    exact ⟨sigInv_concatenateRev hl.1 hr.1, sigInv_concatenateRev hl.2 hr.2⟩
  | .andV l r, h => by
    have h' : kPos l = true ∧ kPos r = true := by simpa [kPos] using h
    have hl := sigInv_satDissat c l h'.1; have hr := sigInv_satDissat c r h'.2
    simp only [satDissat]
    exact ⟨sigInv_concatenateRev hl.1 hr.1, sigInv_concatenateRev hl.1 hr.2⟩
  | .andOr a b z, h => by
    have h' : (kPos a = true ∧ kPos b = true) ∧ kPos z = true := by simpa [kPos] using h
    have ha := sigInv_satDissat c a h'.1.1; have hb := sigInv_satDissat c b h'.1.2
    have hz := sigInv_satDissat c z h'.2
    simp only [satDissat]
    exact ⟨sigInv_minFn c (sigInv_concatenateRev ha.1 hb.1) (sigInv_concatenateRev ha.2 hz.1),
      sigInv_concatenateRev ha.2 hz.2⟩
  | .orB l r, h => by
    have h' : kPos l = true ∧ kPos r = true := by simpa [kPos] using h
    have hl := sigInv_satDissat c l h'.1; have hr := sigInv_satDissat c r h'.2
    simp only [satDissat]
    exact ⟨sigInv_minFn c (sigInv_concatenateRev hl.2 hr.1) (sigInv_concatenateRev hl.1 hr.2),
      sigInv_concatenateRev hl.2 hr.2⟩
  | .orC l r, h => by
    have h' : kPos l = true ∧ kPos r = true := by simpa [kPos] using h
    have hl := sigInv_satDissat c l h'.1; have hr := sigInv_satDissat c r h'.2
    simp only [satDissat]
    exact ⟨sigInv_minFn c hl.1 (sigInv_concatenateRev hl.2 hr.1), sigInv_IMPOSSIBLE⟩
  | .orD l r, h => by
    have h' : kPos l = true ∧ kPos r = true := by simpa [kPos] using h
    have hl := sigInv_satDissat c l h'.1; have hr := sigInv_satDissat c r h'.2
    simp only [satDissat]
    exact ⟨sigInv_minFn c hl.1 (sigInv_concatenateRev hl.2 hr.1), sigInv_concatenateRev hl.2 hr.2⟩
  | .orI l r, h => by
    have h' : kPos l = true ∧ kPos r = true := by simpa [kPos] using h
    have hl := sigInv_satDissat c l h'.1; have hr := sigInv_satDissat c r h'.2
    simp only [satDissat]
    exact ⟨sigInv_minFn c (sigInv_withStack hl.1 _) (sigInv_withStack hr.1 _),
      sigInv_minFn c (sigInv_withStack hl.2 _) (sigInv_withStack hr.2 _)⟩
  | .thresh k xs, h => by
    have hx := sigInv_satDissats c xs (by simpa [kPos] using h)
    have hd : ∀ s ∈ (satDissats c xs).map (·.dissat), SigInv s := by
      intro s hs; obtain ⟨sd, hsd, rfl⟩ := List.mem_map.mp hs; exact (hx sd hsd).2
    have hs : ∀ s ∈ (satDissats c xs).map (·.sat), SigInv s := by
      intro s hs; obtain ⟨sd, hsd, rfl⟩ := List.mem_map.mp hs; exact (hx sd hsd).1
    simp only [satDissat]
    refine ⟨?_, sigInv_foldConcat _ hd⟩
    split
    · exact sigInv_foldConcat _ hs
    · split
      · exact sigInv_threshMall _ _ _ hd hs
      · exact sigInv_threshNonMall _ _ _ hd hs
theorem sigInv_satDissats (c : SatCfg) :
    ∀ xs : MsList, kPosL xs = true → ∀ sd ∈ satDissats c xs, SigInv sd.sat ∧ SigInv sd.dissat
  | .nil, _ => by simp [satDissats]
  | .cons x xs, h => by
    have h' : kPos x = true ∧ kPosL xs = true := by simpa [kPosL] using h
    intro sd hsd
    simp only [satDissats, List.mem_cons] at hsd
    rcases hsd with rfl | hsd
    · exact sigInv_satDissat c x h'.1
    · exact sigInv_satDissats c xs h'.2 sd hsd
end

/-! ### the converse invariant (non-malleable mode only): no flag, no signature -/

/-- a result NOT flagged `hasSig` that is a stack contains no signature placeholder -/
def NoSigInv (s : Sat) : Prop := s.hasSig = false → ∀ l, s.stack = .stack l → hasSigPh l = false

theorem noSigInv_of_hasSig {s : Sat} (h : s.hasSig = true) : NoSigInv s := by
  intro h'; rw [h] at h'; cases h'

theorem noSigInv_of_notStack {s : Sat} (h : ∀ l, s.stack ≠ .stack l) : NoSigInv s :=
  fun _ l hl => absurd hl (h l)

theorem noSigInv_IMPOSSIBLE : NoSigInv Sat.IMPOSSIBLE := noSigInv_of_notStack (fun _ h => by cases h)
theorem noSigInv_UNAVAILABLE : NoSigInv Sat.UNAVAILABLE := noSigInv_of_notStack (fun _ h => by cases h)

theorem noSigInv_lit (l : List Ph) (h : hasSigPh l = false) (a r : Option Nat) :
    NoSigInv ⟨.stack l, false, a, r⟩ := by
  intro _ l' hl; cases hl; exact h

theorem noSigInv_default : NoSigInv (default : Sat) := by
  show NoSigInv ⟨.stack [], false, none, none⟩
  exact noSigInv_lit [] rfl none none

theorem noSigInv_concatenateRev {s o : Sat} (hs : NoSigInv s) (ho : NoSigInv o) :
    NoSigInv (s.concatenateRev o) := by
  rcases concatenateRev_cases s o with e | ⟨abs, rel, e⟩
  · rw [e]; exact noSigInv_IMPOSSIBLE
  · rw [e]
    intro hsig l hl
    simp only [Bool.or_eq_false_iff] at hsig
    simp only at hl
    obtain ⟨lo, ls, ho', hs', rfl⟩ := combine_stack hl
    rw [hasSigPh_append, hs hsig.1 ls hs', ho hsig.2 lo ho']; rfl

theorem noSigInv_foldl (l : List Sat) (init : Sat) (hi : NoSigInv init) (hl : ∀ s ∈ l, NoSigInv s) :
    NoSigInv (l.foldl Sat.concatenateRev init) := by
  induction l generalizing init with
  | nil => exact hi
  | cons x xs ih =>
    simp only [List.foldl_cons]
    exact ih _ (noSigInv_concatenateRev hi (hl x (by simp))) (fun s hs => hl s (by simp [hs]))

theorem noSigInv_foldConcat (l : List Sat) (hl : ∀ s ∈ l, NoSigInv s) : NoSigInv (foldConcat l) :=
  noSigInv_foldl l _ (noSigInv_lit [] rfl none none) hl

theorem noSigInv_minimum {s1 s2 : Sat} (h1 : NoSigInv s1) (h2 : NoSigInv s2) :
    NoSigInv (minimum s1 s2) := by
  rcases minimum_cases s1 s2 with ⟨_, e⟩ | ⟨_, _, e⟩ | ⟨_, _, h⟩
  · rw [e]; exact h2
  · rw [e]; exact h1
  · rcases h with ⟨_, _, e⟩ | ⟨a, _, e⟩ | ⟨_, b, e⟩ | ⟨_, _, e | e⟩
    · rw [e]; exact noSigInv_UNAVAILABLE
    · rw [e]; intro _ l hl; exact h1 a l hl
    · rw [e]; intro _ l hl; exact h2 b l hl
    · rw [e]; exact noSigInv_of_hasSig rfl
    · rw [e]; exact noSigInv_of_hasSig rfl

theorem noSigInv_withStack {s : Sat} (h : NoSigInv s) (extra : List Ph) (he : hasSigPh extra = false) :
    NoSigInv { s with stack := Wit.combine s.stack (.stack extra) } := by
  intro hsig l hl
  simp only at hsig hl
  obtain ⟨la, lb, h1, h2, rfl⟩ := combine_stack hl
  cases h2
  rw [hasSigPh_append, h hsig la h1, he]; rfl

theorem hasSigPh_replicate_pushZero (n : Nat) : hasSigPh (List.replicate n Ph.pushZero) = false := by
  induction n with
  | zero => rfl
  | succ m ih => simp [hasSigPh, List.replicate_succ, isSig]

theorem noSigInv_getElem! (l : List Sat) (h : ∀ s ∈ l, NoSigInv s) (i : Nat) : NoSigInv l[i]! := by
  by_cases hi : i < l.length
  · rw [getElem!_pos l i hi]; exact h _ (List.getElem_mem hi)
  · rw [getElem!_neg l i hi]; exact noSigInv_default

theorem noSigInv_swapped (k : Nat) (idx : List Nat) (dissats sats : List Sat)
    (hd : ∀ s ∈ dissats, NoSigInv s) (hs : ∀ s ∈ sats, NoSigInv s) :
    ∀ s ∈ (swapped k idx dissats sats).1, NoSigInv s := by
  intro s hmem
  simp only [swapped, List.mem_map] at hmem
  obtain ⟨i, _, rfl⟩ := hmem
  split
  · exact noSigInv_getElem! sats hs i
  · exact noSigInv_getElem! dissats hd i

theorem noSigInv_threshNonMall (k : Nat) (dissats sats : List Sat)
    (hd : ∀ s ∈ dissats, NoSigInv s) (hs : ∀ s ∈ sats, NoSigInv s) :
    NoSigInv (threshNonMall k dissats sats) := by
  rcases threshNonMall_cases k dissats sats with e | e | ⟨idx, e⟩
  · rw [e]; exact noSigInv_IMPOSSIBLE
  · rw [e]; exact noSigInv_UNAVAILABLE
  · rw [e]; exact noSigInv_foldConcat _ (noSigInv_swapped k idx dissats sats hd hs)

theorem minFn_nonmall (c : SatCfg) (hc : c.mall = false) : c.minFn = Sat.minimum := by
  simp [SatCfg.minFn, hc]

mutual
theorem noSigInv_satDissat (c : SatCfg) (hc : c.mall = false) :
    ∀ ms : Ms, NoSigInv (satDissat c ms).sat ∧ NoSigInv (satDissat c ms).dissat
  | .fls => by
    simp only [satDissat]; exact ⟨noSigInv_IMPOSSIBLE, noSigInv_lit [] rfl none none⟩
  | .tru => by
    simp only [satDissat]; exact ⟨noSigInv_lit [] rfl none none, noSigInv_IMPOSSIBLE⟩
  | .pkK k => by
    simp only [satDissat]; exact ⟨noSigInv_of_hasSig rfl, noSigInv_lit _ rfl none none⟩
  | .pkH k => by
    simp only [satDissat]; exact ⟨noSigInv_of_hasSig rfl, noSigInv_lit _ rfl none none⟩
  | .rawPkH h => by
    simp only [satDissat]
    refine ⟨noSigInv_of_hasSig rfl, ?_⟩
    intro _ l hl
    simp only at hl
    split at hl
    · cases hl; rfl
    · cases hl
  | .multi k ks => by
    simp only [satDissat, multiSD]
    split
    · exact ⟨noSigInv_IMPOSSIBLE, noSigInv_lit _ (hasSigPh_replicate_pushZero _) none none⟩
    · exact ⟨noSigInv_of_hasSig rfl, noSigInv_lit _ (hasSigPh_replicate_pushZero _) none none⟩
  | .sortedMulti k ks => by
    simp only [satDissat, multiSD]
    split
    · exact ⟨noSigInv_IMPOSSIBLE, noSigInv_lit _ (hasSigPh_replicate_pushZero _) none none⟩
    · exact ⟨noSigInv_of_hasSig rfl, noSigInv_lit _ (hasSigPh_replicate_pushZero _) none none⟩
  | .multiA k ks => by
    simp only [satDissat, multiASD]
    split
    · exact ⟨noSigInv_IMPOSSIBLE, noSigInv_lit _ (hasSigPh_replicate_pushZero _) none none⟩
    · exact ⟨noSigInv_of_hasSig rfl, noSigInv_lit _ (hasSigPh_replicate_pushZero _) none none⟩
  | .sortedMultiA k ks => by
    simp only [satDissat, multiASD]
    split
    · exact ⟨noSigInv_IMPOSSIBLE, noSigInv_lit _ (hasSigPh_replicate_pushZero _) none none⟩
    · exact ⟨noSigInv_of_hasSig rfl, noSigInv_lit _ (hasSigPh_replicate_pushZero _) none none⟩
  | .after n => by
    simp only [satDissat]
    refine ⟨?_, noSigInv_IMPOSSIBLE⟩
    intro _ l hl
    simp only at hl
    split at hl
    · cases hl; rfl
    · split at hl <;> cases hl
  | .older n => by
    simp only [satDissat]
    refine ⟨?_, noSigInv_IMPOSSIBLE⟩
    intro _ l hl
    simp only at hl
    split at hl
    · cases hl; rfl
    · split at hl <;> cases hl
  | .hash kind h => by
    simp only [satDissat]
    refine ⟨?_, noSigInv_lit _ rfl none none⟩
    intro _ l hl
    simp only at hl
    split at hl
    · cases hl; rfl
    · cases hl
  | .alt x => by simp only [satDissat]; exact noSigInv_satDissat c hc x
  | .swap x => by simp only [satDissat]; exact noSigInv_satDissat c hc x
  | .check x => by simp only [satDissat]; exact noSigInv_satDissat c hc x
  | .zeroNotEqual x => by simp only [satDissat]; exact noSigInv_satDissat c hc x
  | .dupIf x => by
    simp only [satDissat]
    exact ⟨noSigInv_withStack (noSigInv_satDissat c hc x).1 _ rfl, noSigInv_lit _ rfl none none⟩
  | .verify x => by
    simp only [satDissat]; exact ⟨(noSigInv_satDissat c hc x).1, noSigInv_IMPOSSIBLE⟩
  | .nonZero x => by
    simp only [satDissat]; exact ⟨(noSigInv_satDissat c hc x).1, noSigInv_lit _ rfl none none⟩
  | .andB l r => by
    have hl := noSigInv_satDissat c hc l; have hr := noSigInv_satDissat c hc r
    simp only [satDissat]
    exact ⟨noSigInv_concatenateRev hl.1 hr.1, noSigInv_concatenateRev hl.2 hr.2⟩
  | .andV l r => by
    have hl := noSigInv_satDissat c hc l; have hr := noSigInv_satDissat c hc r
    simp only [satDissat]
    exact ⟨noSigInv_concatenateRev hl.1 hr.1, noSigInv_concatenateRev hl.1 hr.2⟩
  | .andOr a b z => by
    have ha := noSigInv_satDissat c hc a; have hb := noSigInv_satDissat c hc b
    have hz := noSigInv_satDissat c hc z
    simp only [satDissat, minFn_nonmall c hc]
    exact ⟨noSigInv_minimum (noSigInv_concatenateRev ha.1 hb.1) (noSigInv_concatenateRev ha.2 hz.1),
      noSigInv_concatenateRev ha.2 hz.2⟩
  | .orB l r => by
    have hl := noSigInv_satDissat c hc l; have hr := noSigInv_satDissat c hc r
    simp only [satDissat, minFn_nonmall c hc]
    exact ⟨noSigInv_minimum (noSigInv_concatenateRev hl.2 hr.1) (noSigInv_concatenateRev hl.1 hr.2),
      noSigInv_concatenateRev hl.2 hr.2⟩
  | .orC l r => by
    have hl := noSigInv_satDissat c hc l; have hr := noSigInv_satDissat c hc r
    simp only [satDissat, minFn_nonmall c hc]
    exact ⟨noSigInv_minimum hl.1 (noSigInv_concatenateRev hl.2 hr.1), noSigInv_IMPOSSIBLE⟩
  | .orD l r => by
    have hl := noSigInv_satDissat c hc l; have hr := noSigInv_satDissat c hc r
    simp only [satDissat, minFn_nonmall c hc]
    exact ⟨noSigInv_minimum hl.1 (noSigInv_concatenateRev hl.2 hr.1), noSigInv_concatenateRev hl.2 hr.2⟩
  | .orI l r => by
    have hl := noSigInv_satDissat c hc l; have hr := noSigInv_satDissat c hc r
    simp only [satDissat, minFn_nonmall c hc]
    exact ⟨noSigInv_minimum (noSigInv_withStack hl.1 _ rfl) (noSigInv_withStack hr.1 _ rfl),
      noSigInv_minimum (noSigInv_withStack hl.2 _ rfl) (noSigInv_withStack hr.2 _ rfl)⟩
  | .thresh k xs => by
    have hx := noSigInv_satDissats c hc xs
    have hd : ∀ s ∈ (satDissats c xs).map (·.dissat), NoSigInv s := by
      intro s hs; obtain ⟨sd, hsd, rfl⟩ := List.mem_map.mp hs; exact (hx sd hsd).2
    have hs : ∀ s ∈ (satDissats c xs).map (·.sat), NoSigInv s := by
      intro s hs; obtain ⟨sd, hsd, rfl⟩ := List.mem_map.mp hs; exact (hx sd hsd).1
    simp only [satDissat, hc]
    refine ⟨?_, noSigInv_foldConcat _ hd⟩
    split
    · exact noSigInv_foldConcat _ hs
    · exact noSigInv_threshNonMall _ _ _ hd hs
theorem noSigInv_satDissats (c : SatCfg) (hc : c.mall = false) :
    ∀ xs : MsList, ∀ sd ∈ satDissats c xs, NoSigInv sd.sat ∧ NoSigInv sd.dissat
  | .nil => by simp [satDissats]
  | .cons x xs => by
    intro sd hsd
    simp only [satDissats, List.mem_cons] at hsd
    rcases hsd with rfl | hsd
    · exact noSigInv_satDissat c hc x
    · exact noSigInv_satDissats c hc xs sd hsd
end

end MsVerif.MalleLattice

/-
C03 (uniqueness), part 2c: the multisig leaves.  The table offers every `k`-subset of the
adversary's signatures; the adversary's signatures are among the `k` the satisfier used, and
the keys are pairwise distinct — so there is exactly one subset, the satisfier's.
-/
import MsVerif.Lemmas.UniqLeaf
import MsVerif.Lemmas.SatMulti

set_option linter.unusedSimpArgs false
set_option linter.unusedVariables false

namespace MsVerif.Uniq
open MsVerif Sat SatTable SatAll MalleLattice Complete SatSpec

/-! ### `chooseK` -/

theorem chooseK_nil : ∀ (k : Nat) (fl : List Bool), fl.count true < k → chooseK k fl = []
  | 0, _, h => by omega
  | k + 1, [], _ => rfl
  | k + 1, true :: r, h => by
    simp only [List.count_cons_self] at h
    simp only [chooseK]
    rw [chooseK_nil k r (by omega), chooseK_nil (k + 1) r (by omega)]; rfl
  | k + 1, false :: r, h => by
    simp only [List.count_cons, beq_iff_eq, Bool.false_eq_true, if_false, Nat.add_zero] at h
    simp only [chooseK]
    rw [chooseK_nil (k + 1) r h]; rfl

theorem count_map_le {α : Type} (l : List α) (f g : α → Bool) (h : ∀ x ∈ l, f x = true → g x = true) :
    (l.map f).count true ≤ (l.filter g).length := by
  induction l with
  | nil => simp
  | cons a t ih =>
    have iht := ih (fun x hx => h x (by simp [hx]))
    simp only [List.map_cons, List.filter_cons]
    cases hf : f a with
    | false =>
      simp only [List.count_cons, beq_iff_eq, Bool.false_eq_true, if_false, Nat.add_zero]
      split <;> simp <;> omega
    | true =>
      rw [h a (by simp) hf]
      simp only [List.count_cons_self, if_true, List.length_cons]; omega

theorem pickSigs_allFalse (ks : List Key) : pickSigs ks (ks.map fun _ => false) = [] := by
  induction ks with
  | nil => rfl
  | cons x t ih => simpa [pickSigs] using ih

/-- `multi`: a table choice of `m` of the adversary's signatures, all of which belong to the
satisfier's sub-sequence `ss`, has `m ≤ |ss|`, and for `m = |ss|` it IS `ss` -/
theorem choose_pick (g : Key → Bool) : ∀ (ks ss : List Key) (m : Nat) (fl : List Bool),
    ks.Nodup → ss.Sublist ks → (∀ y ∈ ks, g y = true → y ∈ ss) → fl ∈ chooseK m (ks.map g) →
    m ≤ ss.length ∧ (m = ss.length → pickSigs ks fl = ss.map Item.sig)
  | [], ss, m, fl, _, hss, _, hfl => by
    have : ss = [] := List.sublist_nil.mp hss
    subst this
    cases m with
    | zero => simp only [List.map_nil, chooseK, List.mem_singleton] at hfl; subst hfl; simp [pickSigs]
    | succ m => simp [chooseK] at hfl
  | x :: ks, ss, m, fl, hnd, hss, hg, hfl => by
    have hx : x ∉ ks := (List.nodup_cons.mp hnd).1
    have hnd' : ks.Nodup := (List.nodup_cons.mp hnd).2
    cases hss with
    | cons _ hss' =>
      -- `x` is not among the satisfier's keys
      have hxs : x ∉ ss := fun h => hx (hss'.subset h)
      have hgx : g x = false := by
        cases h : g x with
        | false => rfl
        | true => exact absurd (hg x (by simp) h) hxs
      have hg' : ∀ y ∈ ks, g y = true → y ∈ ss := fun y hy h => hg y (by simp [hy]) h
      cases m with
      | zero =>
        simp only [List.map_cons, chooseK, List.mem_singleton] at hfl
        subst hfl
        refine ⟨Nat.zero_le _, fun h => ?_⟩
        have : ss = [] := List.eq_nil_of_length_eq_zero h.symm
        subst this
        simpa [pickSigs] using pickSigs_allFalse ks
      | succ m =>
        simp only [List.map_cons, hgx, chooseK, List.mem_map] at hfl
        obtain ⟨fl', hfl', rfl⟩ := hfl
        have ih := choose_pick g ks ss (m + 1) fl' hnd' hss' hg' hfl'
        refine ⟨ih.1, fun h => ?_⟩
        simpa [pickSigs] using ih.2 h
    | cons_cons _ hss' =>
      rename_i ss'
      have hg' : ∀ y ∈ ks, g y = true → y ∈ ss' := by
        intro y hy h
        rcases List.mem_cons.mp (hg y (by simp [hy]) h) with e | e
        · exact absurd (e ▸ hy) hx
        · exact e
      cases m with
      | zero => exact ⟨Nat.zero_le _, fun h => by simp at h⟩
      | succ m =>
        cases hgx : g x with
        | false =>
          simp only [List.map_cons, hgx, chooseK, List.mem_map] at hfl
          obtain ⟨fl', hfl', rfl⟩ := hfl
          have ih := choose_pick g ks ss' (m + 1) fl' hnd' hss' hg' hfl'
          simp only [List.length_cons]
          exact ⟨by omega, fun h => by omega⟩
        | true =>
          simp only [List.map_cons, hgx, chooseK, List.mem_append, List.mem_map] at hfl
          rcases hfl with ⟨fl', hfl', rfl⟩ | ⟨fl', hfl', rfl⟩
          · have ih := choose_pick g ks ss' m fl' hnd' hss' hg' hfl'
            simp only [List.length_cons]
            refine ⟨by omega, fun h => ?_⟩
            have := ih.2 (by omega)
            simp [pickSigs] at this ⊢
            exact this
          · have ih := choose_pick g ks ss' (m + 1) fl' hnd' hss' hg' hfl'
            simp only [List.length_cons]
            exact ⟨by omega, fun h => by omega⟩

/-! ### `multi` / `sortedmulti` -/

theorem items_replicate_zero (n : Nat) : items (List.replicate n Ph.pushZero) = List.replicate n Item.empty := by
  simp [items, phItem]

theorem no_sig_replicate (n : Nat) (k : Key) : Item.sig k ∉ items (List.replicate n Ph.pushZero) := by
  rw [items_replicate_zero]; intro h; cases List.eq_of_mem_replicate h

/-- the core for a key list `kk` as the model passes it to `multiSD` -/
theorem altInv_multiSD {adv : Avail} (ctx : Ctx) (a : Assets) (hadv : AdvOK adv (availOf a ctx))
    (k : Nat) (kk : List Key) (hk : 1 ≤ k) (hctx : ctx ≠ .tap) (hnd : kk.Nodup)
    (kin : ∀ w, (multiSD ctx a k kk).sat.stack = .stack w → ∀ x, Item.sig x ∈ items w → x ∈ kk) :
    AltInv adv kk ((chooseK k (kk.map adv.sig)).map fun fl => Item.empty :: pickSigs kk fl)
      (multiSD ctx a k kk).sat := by
  have hf := multiSD_facts ctx a k kk
  refine ⟨?_, ?_, ?_, kin, ?_⟩
  · intro hi
    have hns : isStk (multiSD ctx a k kk).sat.stack = false := by rw [hi]; rfl
    rw [hf.sStk] at hns
    simp only [decide_eq_false_iff_not, ge_iff_le, Nat.not_le] at hns
    have := count_map_le kk adv.sig (sigAvail ctx a) (fun x _ h => by
      have := hadv.sig_le x h; simpa [availOf] using this)
    rw [chooseK_nil k _ (by omega)]; rfl
  · intro _ hn
    have : (kk.map adv.sig).count true = 0 := by
      rw [List.count_eq_zero]
      intro hmem
      obtain ⟨x, hx, hxs⟩ := List.mem_map.mp hmem
      rw [hn x hx] at hxs; cases hxs
    rw [chooseK_nil k _ (by omega)]; rfl
  · intro w hw hv t ht
    obtain ⟨ss, hss, hlen, _, rfl⟩ := multiSD_sat hctx a k kk hw
    obtain ⟨fl, hfl, rfl⟩ := List.mem_map.mp ht
    have hg : ∀ y ∈ kk, adv.sig y = true → y ∈ ss := by
      intro y hy hs
      have := hv y hy hs
      simp only [items, List.map_cons, List.map_map, List.mem_cons, List.mem_map, Function.comp,
        phItem] at this
      rcases this with h | ⟨z, hz, h⟩
      · cases h
      · cases h; exact hz
    have := (choose_pick adv.sig kk ss k fl hnd hss hg hfl).2 hlen.symm
    rw [this]
    simp [items, phItem, Function.comp]
  · intro hfalse
    intro w hw
    have : (multiSD ctx a k kk).sat.hasSig = true := hf.sSig (by rw [hw]; simp)
    rw [hfalse] at this; cases this

section
variable (c : SatCfg) {adv : Avail}

theorem du_multiSD (K : List Key) (k : Nat) (kk : List Key) :
    AltInv adv K [List.replicate (k + 1) Item.empty] (multiSD c.ctx c.assets k kk).dissat := by
  rw [multiSD_dis, ← items_replicate_zero]
  exact altInv_lit K _ (no_sig_replicate _) none none

theorem uinv_multi (hm : c.mall = false) (hadv : AdvOK adv (availOf c.assets c.ctx)) (k : Nat) (ks : List Key)
    (hk : 1 ≤ k) (hctx : ¬ c.ctx = .tap) (hnd : (keysOf (.multi k ks)).Nodup) :
    UInv adv (sortKeys' c.env) (.multi k ks) Ty.multi.mall (satDissat c (.multi k ks)) := by
  simp only [keysOf] at hnd
  refine ⟨?_, fun _ => ?_, fun h => by simp [Ty.multi, Mall.multi] at h⟩
  · simp only [satDissat, keysOf, allSat]
    exact altInv_multiSD c.ctx c.assets hadv k ks hk hctx hnd
      (by have := (sig_in_keys c hm (.multi k ks)).1; simpa only [satDissat, keysOf] using this)
  · simp only [satDissat, allDsat]; exact du_multiSD c [] k ks

theorem uinv_sortedMulti (hm : c.mall = false) (hadv : AdvOK adv (availOf c.assets c.ctx)) (k : Nat) (ks : List Key)
    (hk : 1 ≤ k) (hctx : ¬ c.ctx = .tap) (hnd : (keysOf (.sortedMulti k ks)).Nodup) :
    UInv adv (sortKeys' c.env) (.sortedMulti k ks) Ty.sortedmulti.mall (satDissat c (.sortedMulti k ks)) := by
  simp only [keysOf] at hnd
  have hperm := sortKeys'_perm c.env ks
  refine ⟨?_, fun _ => ?_, fun h => by simp [Ty.sortedmulti, Mall.sortedmulti] at h⟩
  · simp only [satDissat, keysOf, allSat]
    have := altInv_multiSD c.ctx c.assets hadv k (sortKeys' c.env ks) hk hctx (hperm.nodup_iff.mpr hnd)
      (by
        have := (sig_in_keys c hm (.sortedMulti k ks)).1
        simp only [satDissat, keysOf] at this
        exact fun w hw x hx => hperm.mem_iff.mpr (this w hw x hx))
    exact this.congr (fun x => hperm.mem_iff) (fun t ht => ht) (fun h0 => h0)
  · simp only [satDissat, allDsat]; exact du_multiSD c [] k _

end

/-! ### `multi_a` / `sortedmulti_a` -/

theorem slotSigs_allFalse (ks : List Key) :
    slotSigs ks (ks.map fun _ => false) = List.replicate ks.length Item.empty := by
  induction ks with
  | nil => rfl
  | cons x t ih => simpa [slotSigs, List.replicate_succ] using ih

/-- a signature item among the slots names one of the keys -/
theorem slot_sig_mem {a : Assets} : ∀ (ks : List Key) (slots : List (List Ph)),
    All2 (SlotOk a) ks slots → ∀ y, Item.sig y ∈ items slots.flatten → y ∈ ks
  | _, _, .nil, y, h => by simp [items] at h
  | _, _, .cons (a := x) (b := s) (l := ks) (m := slots) hs hrest, y, h => by
    simp only [List.flatten_cons, items_append, List.mem_append] at h
    rcases h with h | h
    · rcases hs with rfl | ⟨sz, _, rfl⟩
      · simp [items, phItem] at h
      · simp only [items, List.map_cons, List.map_nil, phItem, List.mem_singleton] at h
        cases h; simp
    · simp [slot_sig_mem ks slots hrest y h]

theorem choose_slots {a : Assets} (g : Key → Bool) (ks : List Key) (slots : List (List Ph))
    (hall : All2 (SlotOk a) ks slots) : ∀ (m : Nat) (fl : List Bool), ks.Nodup →
    (∀ y ∈ ks, g y = true → Item.sig y ∈ items slots.flatten) → fl ∈ chooseK m (ks.map g) →
    m ≤ sigSlots slots ∧ (m = sigSlots slots → slotSigs ks fl = items slots.flatten) := by
  induction hall with
  | nil =>
    intro m fl _ _ hfl
    cases m with
    | zero => simp only [List.map_nil, chooseK, List.mem_singleton] at hfl; subst hfl; simp [slotSigs, sigSlots_nil]
    | succ m => simp [chooseK] at hfl
  | cons hs hrest ih =>
    rename_i x s ks slots
    intro m fl hnd hg hfl
    have hx : x ∉ ks := (List.nodup_cons.mp hnd).1
    have hnd' : ks.Nodup := (List.nodup_cons.mp hnd).2
    rcases hs with rfl | ⟨sz, _, rfl⟩
    · -- empty slot: the adversary has no signature for `x`
      have hgx : g x = false := by
        cases h : g x with
        | false => rfl
        | true =>
          have := hg x (by simp) h
          simp only [List.flatten_cons, items_append, List.mem_append] at this
          rcases this with h' | h'
          · simp [items, phItem] at h'
          · exact absurd (slot_sig_mem ks slots hrest x h') hx
      have hg' : ∀ y ∈ ks, g y = true → Item.sig y ∈ items slots.flatten := by
        intro y hy h
        have := hg y (by simp [hy]) h
        simp only [List.flatten_cons, items_append, List.mem_append] at this
        rcases this with h' | h'
        · simp [items, phItem] at h'
        · exact h'
      rw [sigSlots_cons_zero]
      cases m with
      | zero =>
        simp only [List.map_cons, chooseK, List.mem_singleton] at hfl
        subst hfl
        have ih := ih 0 (ks.map fun _ => false) hnd' hg'
          (by simp [chooseK])
        refine ⟨Nat.zero_le _, fun h => ?_⟩
        have := ih.2 h
        simp only [List.flatten_cons, items_append]
        simpa [slotSigs, items, phItem] using this
      | succ m =>
        simp only [List.map_cons, hgx, chooseK, List.mem_map] at hfl
        obtain ⟨fl', hfl', rfl⟩ := hfl
        have ih := ih (m + 1) fl' hnd' hg' hfl'
        refine ⟨ih.1, fun h => ?_⟩
        have := ih.2 h
        simp only [List.flatten_cons, items_append]
        simpa [slotSigs, items, phItem] using this
    · -- signature slot
      have hg' : ∀ y ∈ ks, g y = true → Item.sig y ∈ items slots.flatten := by
        intro y hy h
        have := hg y (by simp [hy]) h
        simp only [List.flatten_cons, items_append, List.mem_append] at this
        rcases this with h' | h'
        · simp only [items, List.map_cons, List.map_nil, phItem, List.mem_singleton] at h'
          cases h'; exact absurd hy hx
        · exact h'
      rw [sigSlots_cons_sig]
      cases m with
      | zero => exact ⟨Nat.zero_le _, fun h => by omega⟩
      | succ m =>
        cases hgx : g x with
        | false =>
          simp only [List.map_cons, hgx, chooseK, List.mem_map] at hfl
          obtain ⟨fl', hfl', rfl⟩ := hfl
          have ih := ih (m + 1) fl' hnd' hg' hfl'
          exact ⟨by omega, fun h => by omega⟩
        | true =>
          simp only [List.map_cons, hgx, chooseK, List.mem_append, List.mem_map] at hfl
          rcases hfl with ⟨fl', hfl', rfl⟩ | ⟨fl', hfl', rfl⟩
          · have ih := ih m fl' hnd' hg' hfl'
            refine ⟨by omega, fun h => ?_⟩
            have := ih.2 (by omega)
            simp only [List.flatten_cons, items_append]
            simpa [slotSigs, items, phItem] using this
          · have ih := ih (m + 1) fl' hnd' hg' hfl'
            exact ⟨by omega, fun h => by omega⟩

theorem slots_flatten_reverse {a : Assets} (ks : List Key) (slots : List (List Ph))
    (h : All2 (SlotOk a) ks slots) : slots.reverse.flatten = slots.flatten.reverse := by
  induction h with
  | nil => rfl
  | cons hs hrest ih =>
    rename_i x s ks' slots'
    have hsr : s.reverse = s := by
      rcases hs with rfl | ⟨sz, _, rfl⟩ <;> rfl
    simp [ih, hsr]

theorem sigSlots_reverse (l : List (List Ph)) : sigSlots l.reverse = sigSlots l := by
  simp [sigSlots, List.filter_reverse]

theorem altInv_multiASD {adv : Avail} (a : Assets) (hadv : AdvOK adv (availOf a .tap))
    (k : Nat) (kk : List Key) (hk : 1 ≤ k) (hnd : kk.Nodup)
    (kin : ∀ w, (multiASD .tap a k kk).sat.stack = .stack w → ∀ x, Item.sig x ∈ items w → x ∈ kk) :
    AltInv adv kk ((chooseK k (kk.map adv.sig)).map fun fl => (slotSigs kk fl).reverse)
      (multiASD .tap a k kk).sat := by
  have hf := multiASD_facts .tap a k kk
  refine ⟨?_, ?_, ?_, kin, ?_⟩
  · intro hi
    have hns : isStk (multiASD .tap a k kk).sat.stack = false := by rw [hi]; rfl
    rw [hf.sStk] at hns
    simp only [decide_eq_false_iff_not, ge_iff_le, Nat.not_le] at hns
    have := count_map_le kk adv.sig (sigAvail .tap a) (fun x _ h => by
      have := hadv.sig_le x h; simpa [availOf] using this)
    rw [chooseK_nil k _ (by omega)]; rfl
  · intro _ hn
    have : (kk.map adv.sig).count true = 0 := by
      rw [List.count_eq_zero]
      intro hmem
      obtain ⟨x, hx, hxs⟩ := List.mem_map.mp hmem
      rw [hn x hx] at hxs; cases hxs
    rw [chooseK_nil k _ (by omega)]; rfl
  · intro w hw hv t ht
    obtain ⟨sigs', hall, hcnt, rfl⟩ := multiASD_sat a k kk hk hw
    obtain ⟨fl, hfl, rfl⟩ := List.mem_map.mp ht
    -- slots aligned with the keys
    have hall' : All2 (SlotOk a) kk sigs'.reverse := by
      have := All2.reverse hall; simpa using this
    have hfr : sigs'.flatten = sigs'.reverse.flatten.reverse := by
      have := slots_flatten_reverse kk sigs'.reverse hall'
      simp only [List.reverse_reverse] at this
      rw [this]
    have hg : ∀ y ∈ kk, adv.sig y = true → Item.sig y ∈ items sigs'.reverse.flatten := by
      intro y hy hs
      have := hv y hy hs
      rw [hfr] at this
      simpa [items] using this
    have := (choose_slots adv.sig kk sigs'.reverse hall' k fl hnd hg hfl).2
      (by rw [sigSlots_reverse]; exact hcnt.symm)
    rw [this, hfr]
    simp [items]
  · intro hfalse w hw
    have : (multiASD .tap a k kk).sat.hasSig = true := hf.sSig (by rw [hw]; simp)
    rw [hfalse] at this; cases this

section
variable (c : SatCfg) {adv : Avail}

theorem du_multiASD (K : List Key) (k : Nat) (kk : List Key) (n : Nat) (hn : n = kk.length) :
    AltInv adv K [List.replicate n Item.empty] (multiASD c.ctx c.assets k kk).dissat := by
  rw [multiASD_dis, ← hn, ← items_replicate_zero]
  exact altInv_lit K _ (no_sig_replicate _) none none

theorem uinv_multiA (hm : c.mall = false) (hadv : AdvOK adv (availOf c.assets c.ctx)) (k : Nat) (ks : List Key)
    (hk : 1 ≤ k) (hctx : c.ctx = .tap) (hnd : (keysOf (.multiA k ks)).Nodup) :
    UInv adv (sortKeys' c.env) (.multiA k ks) Ty.multiA.mall (satDissat c (.multiA k ks)) := by
  simp only [keysOf] at hnd
  refine ⟨?_, fun _ => ?_, fun h => by simp [Ty.multiA, Mall.multiA] at h⟩
  · have kin := (sig_in_keys c hm (.multiA k ks)).1
    simp only [satDissat, keysOf] at kin ⊢
    simp only [allSat]
    rw [hctx] at hadv kin ⊢
    exact altInv_multiASD c.assets hadv k ks hk hnd kin
  · simp only [satDissat, allDsat]; exact du_multiASD c [] k ks _ rfl

theorem uinv_sortedMultiA (hm : c.mall = false) (hadv : AdvOK adv (availOf c.assets c.ctx)) (k : Nat) (ks : List Key)
    (hk : 1 ≤ k) (hctx : c.ctx = .tap) (hnd : (keysOf (.sortedMultiA k ks)).Nodup) :
    UInv adv (sortKeys' c.env) (.sortedMultiA k ks) Ty.sortedmultiA.mall (satDissat c (.sortedMultiA k ks)) := by
  simp only [keysOf] at hnd
  have hperm := sortKeys'_perm c.env ks
  refine ⟨?_, fun _ => ?_, fun h => by simp [Ty.sortedmultiA, Mall.sortedmultiA] at h⟩
  · have kin := (sig_in_keys c hm (.sortedMultiA k ks)).1
    simp only [satDissat, keysOf] at kin ⊢
    simp only [allSat]
    rw [hctx] at hadv kin ⊢
    have := altInv_multiASD c.assets hadv k (sortKeys' c.env ks) hk (hperm.nodup_iff.mpr hnd)
      (fun w hw x hx => hperm.mem_iff.mpr (kin w hw x hx))
    exact this.congr (fun x => hperm.mem_iff) (fun t ht => ht) (fun h0 => h0)
  · simp only [satDissat, allDsat]
    exact du_multiASD c [] k _ _ (sortKeys'_length c.env ks).symm

end

end MsVerif.Uniq

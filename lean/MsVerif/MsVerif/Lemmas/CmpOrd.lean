/-
Lemmas for C19 (ordering): `Ord for Terminal` walks two display trees in lock step.  Since the
number of children is compared at every node, the walk is the lexicographic order of the
pre-order TOKEN sequences, which is a lawful total order and — by the prefix code lemma —
`Equal` exactly on identical trees; the two walks never fall out of step (no `unreachable!`).
-/
import MsVerif.Lemmas.CmpEq

-- many `simp` calls below close several constructor cases at once; an argument unused in one case is used in another
set_option linter.unusedSimpArgs false

namespace MsVerif.CmpOrd
open MsVerif MsVerif.TreeWalk MsVerif.CmpEq

/-! ## lawful three-way comparisons -/

structure LawfulCmp {α : Type} (c : α → α → Ordering) : Prop where
  eq_iff : ∀ a b, c a b = .eq ↔ a = b
  swap : ∀ a b, c b a = (c a b).swap
  trans_lt : ∀ a b d, c a b = .lt → c b d = .lt → c a d = .lt

theorem natCmp_lawful : LawfulCmp natCmp where
  eq_iff a b := by
    unfold natCmp
    by_cases h1 : a < b <;> by_cases h3 : a = b <;> simp [h1, h3] <;> omega
  swap a b := by
    unfold natCmp
    by_cases h1 : a < b <;> by_cases h2 : b < a <;> by_cases h3 : a = b <;>
      simp [h1, h2, h3, Ordering.swap] <;> omega
  trans_lt a b d := by
    unfold natCmp
    by_cases h1 : a < b <;> by_cases h2 : b < d <;> by_cases h3 : a < d <;> simp [h1, h2, h3] <;>
      (try split) <;> simp <;> omega

/-- lexicographic order of lists (a proper prefix is smaller) -/
def lexCmp {α : Type} (c : α → α → Ordering) : List α → List α → Ordering
  | [], [] => .eq
  | [], _ :: _ => .lt
  | _ :: _, [] => .gt
  | a :: as, b :: bs =>
    match c a b with
    | .lt => .lt
    | .gt => .gt
    | .eq => lexCmp c as bs

theorem lexCmp_lawful {α : Type} {c : α → α → Ordering} (h : LawfulCmp c) : LawfulCmp (lexCmp c) where
  eq_iff := by
    intro a
    induction a with
    | nil => intro b; cases b <;> simp [lexCmp]
    | cons x xs ih =>
      intro b
      cases b with
      | nil => simp [lexCmp]
      | cons y ys =>
        simp only [lexCmp, List.cons.injEq]
        cases hc : c x y with
        | lt => simp; intro e; rw [(h.eq_iff x y).2 e] at hc; cases hc
        | gt => simp; intro e; rw [(h.eq_iff x y).2 e] at hc; cases hc
        | eq => simp [ih ys, (h.eq_iff x y).1 hc]
  swap := by
    intro a
    induction a with
    | nil => intro b; cases b <;> simp [lexCmp, Ordering.swap]
    | cons x xs ih =>
      intro b
      cases b with
      | nil => simp [lexCmp, Ordering.swap]
      | cons y ys =>
        simp only [lexCmp]
        rw [h.swap x y]
        cases hc : c x y <;> simp [Ordering.swap, ih ys]
  trans_lt := by
    intro a
    induction a with
    | nil =>
      intro b d h1 h2
      cases b with
      | nil => simp [lexCmp] at h1
      | cons y ys => cases d <;> simp [lexCmp] at h2 ⊢
    | cons x xs ih =>
      intro b d h1 h2
      cases b with
      | nil => simp [lexCmp] at h1
      | cons y ys =>
        cases d with
        | nil => simp [lexCmp] at h2
        | cons z zs =>
          simp only [lexCmp] at h1 h2 ⊢
          cases hxy : c x y with
          | gt => simp [hxy] at h1
          | lt =>
            cases hyz : c y z with
            | gt => simp [hyz] at h2
            | lt => simp [h.trans_lt x y z hxy hyz]
            | eq => rw [(h.eq_iff y z).1 hyz] at hxy; simp [hxy]
          | eq =>
            rw [(h.eq_iff x y).1 hxy]
            simp only [hxy] at h1
            cases hyz : c y z with
            | gt => simp [hyz] at h2
            | lt => simp
            | eq => simp only [hyz] at h2; simp [ih ys zs h1 h2]

/-- `a.then b` of two lawful orders (lexicographic pair) -/
theorem then_lawful {α β : Type} {c1 : α → α → Ordering} {c2 : β → β → Ordering}
    (h1 : LawfulCmp c1) (h2 : LawfulCmp c2) :
    LawfulCmp (fun (p q : α × β) => (c1 p.1 q.1).then (c2 p.2 q.2)) where
  eq_iff := by
    rintro ⟨a, b⟩ ⟨a', b'⟩
    simp only [Prod.mk.injEq]
    cases hc : c1 a a' with
    | lt => simp [Ordering.then]; intro e; rw [(h1.eq_iff a a').2 e] at hc; cases hc
    | gt => simp [Ordering.then]; intro e; rw [(h1.eq_iff a a').2 e] at hc; cases hc
    | eq => simp [Ordering.then, (h1.eq_iff a a').1 hc, h2.eq_iff]
  swap := by
    rintro ⟨a, b⟩ ⟨a', b'⟩
    simp only
    rw [h1.swap a a', h2.swap b b']
    cases c1 a a' <;> simp [Ordering.then, Ordering.swap]
  trans_lt := by
    rintro ⟨a, b⟩ ⟨a', b'⟩ ⟨a'', b''⟩
    simp only
    intro p q
    cases hab : c1 a a' with
    | gt => simp [hab, Ordering.then] at p
    | lt =>
      cases hbc : c1 a' a'' with
      | gt => simp [hbc, Ordering.then] at q
      | lt => simp [h1.trans_lt _ _ _ hab hbc, Ordering.then]
      | eq => rw [(h1.eq_iff _ _).1 hbc] at hab; simp [hab, Ordering.then]
    | eq =>
      rw [(h1.eq_iff _ _).1 hab]
      simp only [hab, Ordering.then] at p
      cases hbc : c1 a' a'' with
      | gt => simp [hbc, Ordering.then] at q
      | lt => simp [Ordering.then]
      | eq => simp only [hbc, Ordering.then] at q; simp [Ordering.then, h2.trans_lt _ _ _ p q]

/-! ## the display tree, structurally -/

/-- children of a display node -/
def kids (d : DNode) : List DNode := (DNode.asNode d).children

mutual
/-- pre-order of the display tree below `DisplayNode::Node(_, t)` -/
def dpreMs : Ms → List DNode
  | .tru => [.node .tru]
  | .fls => [.node .fls]
  | .pkK k => [.node (.pkK k), .key k]
  | .pkH k => [.node (.pkH k), .key k]
  | .rawPkH h => [.node (.rawPkH h), .rawKeyHash h]
  | .after n => [.node (.after n), .after n]
  | .older n => [.node (.older n), .older n]
  | .hash kind h => [.node (.hash kind h), .hash kind h]
  | .check sub =>
    .node (.check sub) ::
      (match sub with
       | .pkK k | .pkH k => [.key k]
       | _ => dpreMs sub)
  | .alt x => .node (.alt x) :: dpreMs x
  | .swap x => .node (.swap x) :: dpreMs x
  | .dupIf x => .node (.dupIf x) :: dpreMs x
  | .verify x => .node (.verify x) :: dpreMs x
  | .nonZero x => .node (.nonZero x) :: dpreMs x
  | .zeroNotEqual x => .node (.zeroNotEqual x) :: dpreMs x
  | .andV l r => .node (.andV l r) :: (if r.isTrue then dpreMs l else dpreMs l ++ dpreMs r)
  | .orI l r =>
    .node (.orI l r) ::
      (if l.isFalse then dpreMs r else if r.isFalse then dpreMs l else dpreMs l ++ dpreMs r)
  | .andB l r => .node (.andB l r) :: (dpreMs l ++ dpreMs r)
  | .orB l r => .node (.orB l r) :: (dpreMs l ++ dpreMs r)
  | .orD l r => .node (.orD l r) :: (dpreMs l ++ dpreMs r)
  | .orC l r => .node (.orC l r) :: (dpreMs l ++ dpreMs r)
  | .andOr a b c =>
    .node (.andOr a b c) ::
      (if c.isFalse then dpreMs a ++ dpreMs b else dpreMs a ++ (dpreMs b ++ dpreMs c))
  | .thresh k xs => .node (.thresh k xs) :: .thresholdK k :: dpreList xs
  | .multi k ks => .node (.multi k ks) :: .thresholdK k :: ks.map .key
  | .sortedMulti k ks => .node (.sortedMulti k ks) :: .thresholdK k :: ks.map .key
  | .multiA k ks => .node (.multiA k ks) :: .thresholdK k :: ks.map .key
  | .sortedMultiA k ks => .node (.sortedMultiA k ks) :: .thresholdK k :: ks.map .key
def dpreList : MsList → List DNode
  | .nil => []
  | .cons x xs => dpreMs x ++ dpreList xs
end

/-- pre-order of the display tree below any display node -/
def dpre : DNode → List DNode
  | .node t => dpreMs t
  | d => [d]

theorem dpreList_eq : (xs : MsList) → dpreList xs = (xs.toList.map DNode.node).flatMap dpre
  | .nil => rfl
  | .cons x xs => by simp [dpreList, MsList.toList, dpre, dpreList_eq xs]

theorem keys_flat (ks : List Key) : (ks.map DNode.key).flatMap dpre = ks.map DNode.key := by
  induction ks with
  | nil => rfl
  | cons k ks ih => simp [dpre, ih]

theorem dpre_eq (d : DNode) : dpre d = d :: (kids d).flatMap dpre := by
  cases d
  case node t =>
    cases t <;>
      simp [dpre, dpreMs, kids, DNode.asNode, Tree.children, naryNodes, naryKeys, dpreList_eq,
        keys_flat]
    case check sub => cases sub <;> simp [dpre, dpreMs, Tree.children]
    case andV l r => by_cases h : r.isTrue = true <;> simp [h, Tree.children, dpre]
    case orI l r =>
      by_cases h1 : l.isFalse = true <;> by_cases h2 : r.isFalse = true <;>
        simp [h1, h2, Tree.children, dpre]
    case andOr a b c => by_cases h : c.isFalse = true <;> simp [h, Tree.children, dpre]
  all_goals simp [dpre, kids, DNode.asNode, Tree.children]

/-! ## tokens -/

/-- what `cmp` reads from a display node: for `Node` the fragment name and the
number of children -/
inductive Tok where
  | node (name : FragName) (n : Nat)
  | thresholdK (k : Nat)
  | key (k : Key)
  | rawKeyHash (h : Nat)
  | after (n : Nat)
  | older (n : Nat)
  | hash (kind : HashKind) (h : Nat)
  deriving DecidableEq, Repr

def tok : DNode → Tok
  | .node t => .node t.fragName (kids (.node t)).length
  | .thresholdK k => .thresholdK k
  | .key k => .key k
  | .rawKeyHash h => .rawKeyHash h
  | .after n => .after n
  | .older n => .older n
  | .hash kind h => .hash kind h

/-- the variant of a display node / token -/
def Tok.kind : Tok → Nat
  | .node _ _ => 0 | .thresholdK _ => 1 | .key _ => 2 | .rawKeyHash _ => 3 | .after _ => 4
  | .older _ => 5 | .hash kind _ => 6 + kind.idx

def kind (d : DNode) : Nat := (tok d).kind

/-- the children's variants are a function of the fragment name and the number of children -/
def kidKinds (name : FragName) (n : Nat) : List Nat :=
  match name with
  | .one | .zero => []
  | .pk_k | .pk_h | .pk | .pkh => [2]
  | .expr_raw_pkh => [3]
  | .after => [4]
  | .older => [5]
  | .sha256 => [6] | .hash256 => [7] | .ripemd160 => [8] | .hash160 => [9]
  | .thresh => 1 :: List.replicate (n - 1) 0
  | .multi | .sortedmulti | .multi_a | .sortedmulti_a => 1 :: List.replicate (n - 1) 2
  | _ => List.replicate n 0

theorem map_kind_node (l : List Ms) : l.map (kind ∘ DNode.node) = List.replicate l.length 0 := by
  induction l with
  | nil => rfl
  | cons x xs ih => simp [kind, tok, Tok.kind, List.replicate_succ, ih]

theorem map_kind_key (l : List Key) : l.map (kind ∘ DNode.key) = List.replicate l.length 2 := by
  induction l with
  | nil => rfl
  | cons x xs ih => simp [kind, tok, Tok.kind, List.replicate_succ, ih]

theorem kids_kinds (t : Ms) :
    (kids (.node t)).map kind = kidKinds t.fragName (kids (.node t)).length := by
  cases t <;>
    simp [kids, DNode.asNode, Tree.children, Ms.fragName, kidKinds, kind, tok, Tok.kind,
      naryNodes, naryKeys, map_kind_node, map_kind_key]
  case hash hk h => cases hk <;> simp [FragName.ofHash, HashKind.idx]
  case check sub => cases sub <;> simp [Tree.children, kind, tok, Tok.kind]
  case andV l r => by_cases h : r.isTrue = true <;> simp [h, Tree.children, kind, tok, Tok.kind]
  case orI l r =>
    by_cases h1 : l.isFalse = true <;> by_cases h2 : r.isFalse = true <;>
      simp [h1, h2, Tree.children, kind, tok, Tok.kind]
  case andOr a b c => by_cases h : c.isFalse = true <;> simp [h, Tree.children, kind, tok, Tok.kind]

/-- equal tokens ⇒ the children have the same variants, position by position -/
theorem tok_kids_kinds (x y : DNode) (h : tok x = tok y) : (kids x).map kind = (kids y).map kind := by
  cases x <;> cases y <;> simp [tok] at h
  case node.node t u => rw [kids_kinds, kids_kinds, h.1, h.2]
  all_goals simp [kids, DNode.asNode, Tree.children]

theorem tok_arity (x y : DNode) (h : tok x = tok y) : (kids x).length = (kids y).length := by
  have := congrArg List.length (tok_kids_kinds x y h)
  simpa using this

/-! ### a node is determined by its token and its children -/

def getNodes : List DNode → Option (List Ms)
  | [] => some []
  | .node t :: ds => (getNodes ds).map (t :: ·)
  | _ :: _ => none

def getKeys : List DNode → Option (List Key)
  | [] => some []
  | .key k :: ds => (getKeys ds).map (k :: ·)
  | _ :: _ => none

theorem getNodes_map (l : List Ms) : getNodes (l.map .node) = some l := by
  induction l with
  | nil => rfl
  | cons x xs ih => simp [getNodes, ih]

theorem getKeys_map (l : List Key) : getKeys (l.map .key) = some l := by
  induction l with
  | nil => rfl
  | cons x xs ih => simp [getKeys, ih]

/-- rebuild a `Terminal` from its fragment name and display children -/
def unview : FragName → List DNode → Option Ms
  | .one, [] => some .tru
  | .zero, [] => some .fls
  | .pk_k, [.key k] => some (.pkK k)
  | .pk_h, [.key k] => some (.pkH k)
  | .expr_raw_pkh, [.rawKeyHash h] => some (.rawPkH h)
  | .after, [.after n] => some (.after n)
  | .older, [.older n] => some (.older n)
  | .sha256, [.hash kind h] => some (.hash kind h)
  | .hash256, [.hash kind h] => some (.hash kind h)
  | .ripemd160, [.hash kind h] => some (.hash kind h)
  | .hash160, [.hash kind h] => some (.hash kind h)
  | .a, [.node x] => some (.alt x)
  | .s, [.node x] => some (.swap x)
  | .pk, [.key k] => some (.check (.pkK k))
  | .pkh, [.key k] => some (.check (.pkH k))
  | .c, [.node x] => some (.check x)
  | .d, [.node x] => some (.dupIf x)
  | .v, [.node x] => some (.verify x)
  | .j, [.node x] => some (.nonZero x)
  | .n, [.node x] => some (.zeroNotEqual x)
  | .t, [.node x] => some (.andV x .tru)
  | .and_v, [.node l, .node r] => some (.andV l r)
  | .and_n, [.node a, .node b] => some (.andOr a b .fls)
  | .and_b, [.node l, .node r] => some (.andB l r)
  | .andor, [.node a, .node b, .node c] => some (.andOr a b c)
  | .or_b, [.node l, .node r] => some (.orB l r)
  | .or_d, [.node l, .node r] => some (.orD l r)
  | .or_c, [.node l, .node r] => some (.orC l r)
  | .u, [.node x] => some (.orI x .fls)
  | .l, [.node x] => some (.orI .fls x)
  | .or_i, [.node l, .node r] => some (.orI l r)
  | .thresh, .thresholdK k :: ds => (getNodes ds).map (fun l => .thresh k (MsList.ofList l))
  | .multi, .thresholdK k :: ds => (getKeys ds).map (.multi k)
  | .sortedmulti, .thresholdK k :: ds => (getKeys ds).map (.sortedMulti k)
  | .multi_a, .thresholdK k :: ds => (getKeys ds).map (.multiA k)
  | .sortedmulti_a, .thresholdK k :: ds => (getKeys ds).map (.sortedMultiA k)
  | _, _ => none

theorem isTrue_eq (r : Ms) (h : r.isTrue = true) : r = .tru := by cases r <;> simp [Ms.isTrue] at h <;> rfl
theorem isFalse_eq (r : Ms) (h : r.isFalse = true) : r = .fls := by cases r <;> simp [Ms.isFalse] at h <;> rfl

@[simp] theorem isFalse_fls : Ms.fls.isFalse = true := rfl
@[simp] theorem isTrue_tru : Ms.tru.isTrue = true := rfl

theorem unview_view (t : Ms) : unview t.fragName (kids (.node t)) = some t := by
  cases t <;>
    simp [kids, DNode.asNode, Tree.children, Ms.fragName, unview, naryNodes, naryKeys,
      getNodes_map, getKeys_map, MsList.ofList_toList]
  case hash hk h => cases hk <;> simp [FragName.ofHash, unview]
  case check sub => cases sub <;> simp [Tree.children, unview]
  case andV l r =>
    by_cases h : r.isTrue = true
    · have := isTrue_eq r h; subst this; simp [Tree.children, unview]
    · simp [h, Tree.children, unview]
  case orI l r =>
    by_cases h1 : l.isFalse = true <;> by_cases h2 : r.isFalse = true
    · have := isFalse_eq l h1; subst this; have := isFalse_eq r h2; subst this
      simp [Tree.children, unview]
    · have := isFalse_eq l h1; subst this; simp [h2, Tree.children, unview]
    · have := isFalse_eq r h2; subst this; simp [h1, Tree.children, unview]
    · simp [h1, h2, Tree.children, unview]
  case andOr a b c =>
    by_cases h : c.isFalse = true
    · have := isFalse_eq c h; subst this; simp [Tree.children, unview]
    · simp [h, Tree.children, unview]

theorem tok_inj (x y : DNode) (h : tok x = tok y) (hk : kids x = kids y) : x = y := by
  cases x <;> cases y <;> simp [tok] at h
  case node.node t u =>
    have h1 := unview_view t
    have h2 := unview_view u
    rw [h.1, hk, h2] at h1
    rw [(Option.some.inj h1)]
  all_goals simp_all

theorem dsize_eq (x : DNode) : (dpre x).length = 1 + ((kids x).map (fun c => (dpre c).length)).sum := by
  rw [dpre_eq x]
  simp [List.length_flatMap]
  omega

/-- equal-length stacks of display nodes with prefix-related token sequences are equal -/
theorem dpre_prefix_code (sa sb : List DNode) (hl : sa.length = sb.length)
    (hp : (sa.flatMap dpre).map tok <+: (sb.flatMap dpre).map tok) : sa = sb :=
  prefix_code kids dpre tok (fun d => (dpre d).length) dpre_eq dsize_eq tok_arity tok_inj
    _ sa sb (Nat.le_refl _) hl hp

/-! ## the token order -/

/-- the atom orders are lawful total orders (an assumption about `Pk: Ord`, `hash160::Hash: Ord`, …) -/
structure LawfulAtoms (o : AtomOrd) : Prop where
  key : LawfulCmp o.key
  rawPkh : LawfulCmp o.rawPkh
  hash : ∀ kind, LawfulCmp (o.hash kind)

/-- total order on tokens: same variant ⇒ what `cmp` computes; different variants
(never compared by a lock-step walk) ⇒ by variant -/
def tokCmp (o : AtomOrd) : Tok → Tok → Ordering
  | .node n1 k1, .node n2 k2 => (natCmp n1.rank n2.rank).then (natCmp k1 k2)
  | .thresholdK a, .thresholdK b => natCmp a b
  | .key a, .key b => o.key a b
  | .rawKeyHash a, .rawKeyHash b => o.rawPkh a b
  | .after a, .after b => natCmp a b
  | .older a, .older b => natCmp a b
  | .hash k1 a, .hash k2 b => if k1 = k2 then o.hash k1 a b else natCmp (6 + k1.idx) (6 + k2.idx)
  | a, b => natCmp a.kind b.kind

theorem rank_inj (x y : FragName) (h : x.rank = y.rank) : x = y := by
  cases x <;> cases y <;> simp [FragName.rank] at h <;> rfl

theorem nodePair_lawful :
    LawfulCmp (fun (p q : Nat × Nat) => (natCmp p.1 q.1).then (natCmp p.2 q.2)) :=
  then_lawful natCmp_lawful natCmp_lawful

theorem natCmp_lt (a b : Nat) : natCmp a b = .lt ↔ a < b := by
  unfold natCmp; by_cases h1 : a < b <;> by_cases h3 : a = b <;> simp [h1, h3]
theorem natCmp_eq (a b : Nat) : natCmp a b = .eq ↔ a = b := natCmp_lawful.eq_iff a b
theorem natCmp_gt (a b : Nat) : natCmp a b = .gt ↔ b < a := by
  unfold natCmp; by_cases h1 : a < b <;> by_cases h3 : a = b <;> simp [h1, h3] <;> omega

theorem tokCmp_lawful (o : AtomOrd) (ho : LawfulAtoms o) : LawfulCmp (tokCmp o) where
  eq_iff := by
    intro a b
    cases a <;> cases b <;> simp [tokCmp, Tok.kind, natCmp_eq] <;>
      try (have := idx_lt ‹HashKind›; omega)
    case node.node n1 k1 n2 k2 =>
      intro _; exact ⟨rank_inj _ _, fun h => by rw [h]⟩
    case key.key a b => exact ho.key.eq_iff a b
    case rawKeyHash.rawKeyHash a b => exact ho.rawPkh.eq_iff a b
    case hash.hash k1 a k2 b =>
      by_cases hk : k1 = k2
      · subst hk; simp [(ho.hash k1).eq_iff]
      · simp [hk, natCmp_eq]; intro h; exact absurd (idx_inj _ _ h) hk
  swap := by
    intro a b
    cases a <;> cases b <;> simp only [tokCmp, Tok.kind] <;>
      try (exact natCmp_lawful.swap _ _)
    case node.node n1 k1 n2 k2 => exact nodePair_lawful.swap (n1.rank, k1) (n2.rank, k2)
    case key.key a b => exact ho.key.swap a b
    case rawKeyHash.rawKeyHash a b => exact ho.rawPkh.swap a b
    case hash.hash k1 a k2 b =>
      by_cases hk : k1 = k2
      · subst hk; simp only [if_true]; exact (ho.hash k1).swap _ _
      · have hk' : ¬k2 = k1 := fun e => hk e.symm
        simp only [hk, hk', if_false]; exact natCmp_lawful.swap _ _
  trans_lt := by
    intro a b d
    cases a <;> cases b <;> cases d <;>
      simp only [tokCmp, Tok.kind, natCmp_lt] <;>
      try (first
        | (intros; have := idx_lt ‹HashKind›; omega)
        | omega
        | exact natCmp_lawful.trans_lt _ _ _)
    case node.node.node n1 k1 n2 k2 n3 k3 =>
      exact nodePair_lawful.trans_lt (n1.rank, k1) (n2.rank, k2) (n3.rank, k3)
    case key.key.key a b c => exact ho.key.trans_lt a b c
    case rawKeyHash.rawKeyHash.rawKeyHash a b c => exact ho.rawPkh.trans_lt a b c
    case hash.hash.hash k1 a k2 b k3 c =>
      by_cases h12 : k1 = k2
      · subst h12
        by_cases h23 : k1 = k3
        · subst h23; simp only [if_true]; exact (ho.hash k1).trans_lt _ _ _
        · simp only [h23, if_true, if_false]; intro _ q; exact q
      · by_cases h23 : k2 = k3
        · subst h23; simp only [h12, if_true, if_false]; intro p _; exact p
        · by_cases h13 : k1 = k3
          · subst h13
            have h21 : ¬k2 = k1 := fun e => h12 e.symm
            simp only [h12, h21, if_false, natCmp_lt]; intro p q; omega
          · simp only [h12, h23, h13, if_false, natCmp_lt]; intro p q; omega

/-! ## the lock-step walk -/

theorem dnodeCmp_same (o : AtomOrd) (x y : DNode) (h : kind x = kind y) :
    dnodeCmp o x y = .ok (tokCmp o (tok x) (tok y)) := by
  cases x <;> cases y <;> simp [kind, tok, Tok.kind] at h <;>
    try (have := idx_lt ‹HashKind›; omega)
  case node.node t u => simp [dnodeCmp, tokCmp, tok, fragCmp, kids]
  case hash.hash k1 a k2 b =>
    have := idx_inj _ _ h; subst this
    simp [dnodeCmp, tokCmp, tok]
  all_goals simp [dnodeCmp, tokCmp, tok]

theorem flat_cons (x : DNode) (ra : List DNode) :
    (x :: ra).flatMap dpre = x :: (kids x ++ ra).flatMap dpre := by
  simp [List.flatMap_cons, dpre_eq x, List.flatMap_append]

/-- on stacks with the same variants position by position, the loop never reaches
`unreachable!` and computes the lexicographic order of the token sequences -/
theorem cmpZip_lockstep (o : AtomOrd) (ho : LawfulAtoms o) :
    ∀ (n : Nat) (sa sb : List DNode), (sa.flatMap dpre).length ≤ n → sa.map kind = sb.map kind →
      cmpZip (dnodeCmp o) (sa.flatMap dpre) (sb.flatMap dpre) =
        .ok (lexCmp (tokCmp o) ((sa.flatMap dpre).map tok) ((sb.flatMap dpre).map tok)) := by
  intro n
  induction n with
  | zero =>
    intro sa sb hn hk
    cases sa with
    | nil => cases sb with
      | nil => simp [cmpZip, lexCmp]
      | cons y ys => simp at hk
    | cons x xs => rw [flat_cons] at hn; simp at hn
  | succ n ih =>
    intro sa sb hn hk
    cases sa with
    | nil => cases sb with
      | nil => simp [cmpZip, lexCmp]
      | cons y ys => simp at hk
    | cons x xs =>
      cases sb with
      | nil => simp at hk
      | cons y ys =>
        simp only [List.map_cons, List.cons.injEq] at hk
        rw [flat_cons x xs, flat_cons y ys] at *
        simp only [cmpZip, List.map_cons, lexCmp, dnodeCmp_same o x y hk.1]
        cases hc : tokCmp o (tok x) (tok y) with
        | lt => rfl
        | gt => rfl
        | eq =>
          have ht := ((tokCmp_lawful o ho).eq_iff _ _).1 hc
          apply ih
          · simp only [List.length_cons] at hn; omega
          · simp [List.map_append, tok_kids_kinds x y ht, hk.2]

/-! ### `displayPreOrder` is the structural pre-order -/

mutual
theorem dpreMs_le : (t : Ms) → (dpreMs t).length ≤ t.dsize
  | .tru | .fls | .pkK _ | .pkH _ | .rawPkH _ | .after _ | .older _ | .hash _ _ => by
    simp [dpreMs, Ms.dsize]
  | .multi _ _ | .sortedMulti _ _ | .multiA _ _ | .sortedMultiA _ _ => by simp [dpreMs, Ms.dsize]
  | .check sub => by
    have := dpreMs_le sub
    cases sub <;> simp [dpreMs, Ms.dsize] at this ⊢ <;> omega
  | .alt x | .swap x | .dupIf x | .verify x | .nonZero x | .zeroNotEqual x => by
    have := dpreMs_le x; simp [dpreMs, Ms.dsize]; omega
  | .andV l r => by
    have := dpreMs_le l; have := dpreMs_le r
    simp only [dpreMs, Ms.dsize]; split <;> simp <;> omega
  | .orI l r => by
    have := dpreMs_le l; have := dpreMs_le r
    simp only [dpreMs, Ms.dsize]; split <;> (try split) <;> simp <;> omega
  | .andB l r | .orB l r | .orD l r | .orC l r => by
    have := dpreMs_le l; have := dpreMs_le r
    simp [dpreMs, Ms.dsize]; omega
  | .andOr a b c => by
    have := dpreMs_le a; have := dpreMs_le b; have := dpreMs_le c
    simp only [dpreMs, Ms.dsize]; split <;> simp <;> omega
  | .thresh _ xs => by have := dpreList_le xs; simp [dpreMs, Ms.dsize]; omega
theorem dpreList_le : (xs : MsList) → (dpreList xs).length ≤ xs.dsize
  | .nil => by simp [dpreList, MsList.dsize]
  | .cons x xs => by
    have := dpreMs_le x; have := dpreList_le xs
    simp [dpreList, MsList.dsize]; omega
end

theorem displayPreOrder_eq (t : Ms) : t.displayPreOrder = dpreMs t := by
  unfold Ms.displayPreOrder preOrderIter
  rw [preCollect_eq DNode.asNode dpre dpre_eq]
  simp only [List.flatMap_cons, List.flatMap_nil, List.append_nil, dpre]
  exact List.take_of_length_le (dpreMs_le t)

/-! ## `cmp` is the lexicographic token order -/

/-- the token sequence of a miniscript -/
def toks (a : Ms) : List Tok := (dpreMs a).map tok

theorem dpreMs_head (a : Ms) : ∃ rest, dpreMs a = .node a :: rest := by
  have := dpre_eq (.node a)
  exact ⟨_, this⟩

theorem msCmp_eq_lex (o : AtomOrd) (ho : LawfulAtoms o) (a b : Ms) :
    msCmp o a b = .ok (lexCmp (tokCmp o) (toks a) (toks b)) := by
  unfold msCmp toks
  rw [displayPreOrder_eq, displayPreOrder_eq]
  have hl := cmpZip_lockstep o ho _ [.node a] [.node b] (Nat.le_refl _) (by simp [kind, tok, Tok.kind])
  simp only [List.flatMap_cons, List.flatMap_nil, List.append_nil, dpre] at hl
  cases hc : fragCmp a b with
  | eq => simpa using hl
  | lt =>
    obtain ⟨ra, ea⟩ := dpreMs_head a
    obtain ⟨rb, eb⟩ := dpreMs_head b
    simp only [ea, eb, List.map_cons, lexCmp, tok, tokCmp]
    unfold fragCmp at hc
    simp [hc, Ordering.then]
  | gt =>
    obtain ⟨ra, ea⟩ := dpreMs_head a
    obtain ⟨rb, eb⟩ := dpreMs_head b
    simp only [ea, eb, List.map_cons, lexCmp, tok, tokCmp]
    unfold fragCmp at hc
    simp [hc, Ordering.then]

theorem toks_inj (a b : Ms) (h : toks a = toks b) : a = b := by
  have := dpre_prefix_code [.node a] [.node b] rfl
    (by simp only [List.flatMap_cons, List.flatMap_nil, List.append_nil, dpre]
        unfold toks at h; rw [h]; exact List.prefix_refl _)
  simpa using this

/-- decidable equality of outcomes (for `decide` on concrete witnesses) -/
instance instDecEqOutcome {ε α : Type} [DecidableEq ε] [DecidableEq α] : DecidableEq (Except ε α) :=
  fun a b =>
    match a, b with
    | .ok x, .ok y => if h : x = y then isTrue (by rw [h]) else isFalse (fun e => h (by injection e))
    | .error x, .error y => if h : x = y then isTrue (by rw [h]) else isFalse (fun e => h (by injection e))
    | .ok _, .error _ => isFalse (fun e => by cases e)
    | .error _, .ok _ => isFalse (fun e => by cases e)

end MsVerif.CmpOrd

/-
Helper lemmas for C15: `fmt_helper` prints the depth list of a tree as the tree's own
`{l,r}` text.
-/
import MsVerif.Model.TapTree
import MsVerif.Lemmas.TapTreeSpec

set_option linter.unusedSimpArgs false

namespace MsVerif.Tap
open MsVerif.Spec MsVerif.Spec.Tree

variable {α : Type}

theorem fmt_subtree (t : Tree α) : ∀ (j : Nat) (out : List (Tok α)) (cc : List Nat),
    (depthsFrom (cc.length + j) t).foldl fmtStep (out, cc) =
      (out ++ (if cc.isEmpty then [] else [Tok.comma]) ++ List.replicate j Tok.lbrace ++ tokens t ++
          (fmtBump (List.replicate j 0 ++ cc)).1,
        (fmtBump (α := α) (List.replicate j 0 ++ cc)).2) := by
  induction t with
  | leaf s =>
    intro j out cc
    cases cc <;> simp [depthsFrom, fmtStep, tokens, List.append_assoc]
  | node l r ihl ihr =>
    intro j out cc
    simp only [depthsFrom, List.foldl_append]
    rw [Nat.add_assoc, ihl (j + 1) out cc]
    have hb : fmtBump (α := α) (List.replicate (j + 1) 0 ++ cc) =
        ([], 1 :: (List.replicate j 0 ++ cc)) := by
      simp [List.replicate_succ, fmtBump]
    rw [hb]
    have hlen : cc.length + (j + 1) = (1 :: (List.replicate j 0 ++ cc)).length + 0 := by
      simp; omega
    rw [hlen, ihr 0]
    simp [fmtBump, tokens, List.replicate_succ', List.append_assoc]

theorem fmt_tree (t : Tree α) : TapTree.fmt (depths t) = tokens t := by
  have := fmt_subtree t 0 [] []
  simp only [List.length_nil, Nat.add_zero, List.replicate_zero, List.nil_append, fmtBump,
    List.append_nil, List.isEmpty_nil, if_true] at this
  simp [TapTree.fmt, depths, this]

end MsVerif.Tap

/-
Decoding the flat pre-order node table back into a tree: `decodeTree` inverts `preorder`.
-/
import MsVerif.Model.Expr

namespace MsVerif.Expr

/-- what `decodeTree` reads of a node -/
def proj (n : Node) : List Char × Parens × Nat := (n.name, n.parens, n.nChildren)

mutual
/-- (name, bracket kind, number of children) of all nodes, in pre-order -/
def preorder : Tree → List (List Char × Parens × Nat)
  | .node name p cs => (name, p, cs.length) :: preorderList cs
def preorderList : List Tree → List (List Char × Parens × Nat)
  | [] => []
  | t :: ts => preorder t ++ preorderList ts
end

mutual
/-- fuel that `decodeTree` needs -/
def fuelT : Tree → Nat
  | .node _ _ cs => fuelK cs + 1
def fuelK : List Tree → Nat
  | [] => 1
  | t :: ts => max (fuelT t) (fuelK ts) + 1
end

mutual
theorem decodeTree_preorder (t : Tree) (fuel : Nat) (hf : fuelT t ≤ fuel) (ns rest : List Node)
    (h : ns.map proj = preorder t) : decodeTree fuel (ns ++ rest) = some (t, rest) := by
  match t with
  | .node name p cs =>
    simp only [preorder] at h
    obtain ⟨n, ns', e, hn, hns⟩ := List.map_eq_cons_iff.mp h
    subst e
    simp only [fuelT] at hf
    obtain ⟨f, rfl⟩ : ∃ f, fuel = f + 1 := ⟨fuel - 1, by omega⟩
    simp only [proj, Prod.mk.injEq] at hn
    obtain ⟨h1, h2, h3⟩ := hn
    simp only [List.cons_append, decodeTree]
    rw [h3, decodeKids_preorder cs f (by omega) ns' rest hns, h1, h2]
theorem decodeKids_preorder (cs : List Tree) (fuel : Nat) (hf : fuelK cs ≤ fuel)
    (ns rest : List Node) (h : ns.map proj = preorderList cs) :
    decodeKids fuel cs.length (ns ++ rest) = some (cs, rest) := by
  match cs with
  | [] =>
    simp only [preorderList, List.map_eq_nil_iff] at h
    subst h
    simp only [fuelK] at hf
    obtain ⟨f, rfl⟩ : ∃ f, fuel = f + 1 := ⟨fuel - 1, by omega⟩
    simp [decodeKids]
  | t :: ts =>
    simp only [preorderList] at h
    obtain ⟨l1, l2, e, h1, h2⟩ := List.map_eq_append_iff.mp h
    subst e
    simp only [fuelK] at hf
    obtain ⟨f, rfl⟩ : ∃ f, fuel = f + 1 := ⟨fuel - 1, by omega⟩
    simp only [List.length_cons, decodeKids, List.append_assoc]
    rw [decodeTree_preorder t f (by omega) l1 (l2 ++ rest) h1]
    simp only
    rw [decodeKids_preorder ts f (by omega) l2 rest h2]
end

mutual
theorem fuelT_le (t : Tree) : fuelT t ≤ 2 * t.size := by
  match t with
  | .node _ _ cs => simp only [fuelT, Tree.size]; have := fuelK_le cs; omega
theorem fuelK_le (cs : List Tree) : fuelK cs ≤ 2 * Tree.sizeList cs + 1 := by
  match cs with
  | [] => simp [fuelK, Tree.sizeList]
  | t :: ts =>
    simp only [fuelK, Tree.sizeList]
    have := fuelT_le t; have := fuelK_le ts
    have : 0 < t.size := by cases t; simp [Tree.size]; omega
    omega
end

mutual
theorem preorder_length (t : Tree) : (preorder t).length = t.size := by
  match t with
  | .node _ _ cs => simp only [preorder, Tree.size, List.length_cons]; rw [preorderList_length cs]; omega
theorem preorderList_length (cs : List Tree) : (preorderList cs).length = Tree.sizeList cs := by
  match cs with
  | [] => rfl
  | t :: ts =>
    simp only [preorderList, Tree.sizeList, List.length_append]
    rw [preorder_length t, preorderList_length ts]
end

/-- a node table whose (name, brackets, child count) columns are the pre-order of `t` decodes to `t` -/
theorem toTree_of_preorder (nodes : Array Node) (t : Tree)
    (h : nodes.toList.map proj = preorder t) : toTree nodes = some t := by
  unfold toTree
  have hsz : nodes.size = t.size := by
    have := congrArg List.length h
    rw [List.length_map, preorder_length] at this
    simpa using this
  have := decodeTree_preorder t (2 * nodes.size + 2) (by have := fuelT_le t; omega) nodes.toList [] h
  rw [List.append_nil] at this
  rw [this]

end MsVerif.Expr

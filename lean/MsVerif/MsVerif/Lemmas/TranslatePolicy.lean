/-
Lemmas for C20 (policies): the stack-based rebuilds of `Concrete::translate_pk`,
`Semantic::translate_pk` and `translate_unsatisfiable_pk` equal the structural maps; the key
visitors walk the pre-order.
-/
import MsVerif.Lemmas.TranslateEncode
import MsVerif.Model.TranslatePolicy

-- many `simp` calls below close several constructor cases at once; an argument unused in one case is used in another
set_option linter.unusedSimpArgs false

namespace MsVerif.TranslatePolicy
open MsVerif MsVerif.TreeWalk MsVerif.TranslateLemmas MsVerif.TranslateEncode

variable {σ ε : Type}

/-! ### traversals -/

theorem PPolList.pre_eq : (xs : PPolList) → xs.pre = xs.toList.flatMap PPol.pre
  | .nil => rfl
  | .cons _ x xs => by simp [PPolList.pre, PPolList.toList, PPolList.pre_eq xs]

theorem PPol.pre_eq (x : PPol) : x.pre = x :: x.asNode.children.flatMap PPol.pre := by
  cases x <;> simp [PPol.pre, PPol.asNode, Tree.children, PPolList.pre_eq]

theorem PPolList.rtlPost_eq : (xs : PPolList) → xs.rtlPost = xs.toList.reverse.flatMap PPol.rtlPost
  | .nil => rfl
  | .cons _ x xs => by simp [PPolList.rtlPost, PPolList.toList, PPolList.rtlPost_eq xs]

theorem PPol.rtlPost_eq (x : PPol) :
    x.rtlPost = x.asNode.rtl.children.flatMap PPol.rtlPost ++ [x] := by
  cases x <;> simp [PPol.rtlPost, PPol.asNode, Tree.rtl, Tree.children, PPolList.rtlPost_eq]

theorem PPolList.nodes_eq : (xs : PPolList) → xs.nodes = (xs.toList.map PPol.nodes).sum
  | .nil => rfl
  | .cons _ x xs => by simp [PPolList.nodes, PPolList.toList, PPolList.nodes_eq xs]

theorem PPol.nodes_rtl (x : PPol) : x.nodes = 1 + (x.asNode.rtl.children.map PPol.nodes).sum := by
  cases x <;> simp [PPol.nodes, PPol.asNode, Tree.rtl, Tree.children, PPolList.nodes_eq,
    List.sum_reverse] <;> omega

mutual
theorem PPol.pre_length : (x : PPol) → x.pre.length = x.nodes
  | .unsat | .trivial | .key _ | .after _ | .older _ | .hash _ _ => by simp [PPol.pre, PPol.nodes]
  | .and xs | .or xs | .thresh _ xs => by simp [PPol.pre, PPol.nodes, PPolList.pre_length xs]
theorem PPolList.pre_length : (xs : PPolList) → xs.pre.length = xs.nodes
  | .nil => rfl
  | .cons _ x xs => by simp [PPolList.pre, PPolList.nodes, PPol.pre_length x, PPolList.pre_length xs]
end

theorem preOrder_eq (p : PPol) : p.preOrder = p.pre := by
  unfold PPol.preOrder preOrderIter
  rw [preCollect_eq PPol.asNode PPol.pre PPol.pre_eq]
  simp only [List.flatMap_cons, List.flatMap_nil, List.append_nil]
  rw [← PPol.pre_length p, List.take_length]

theorem rtlPostOrder_eq (p : PPol) : p.rtlPostOrder = p.rtlPost := by
  unfold PPol.rtlPostOrder rtlPostOrderIter
  rw [postCollect_eq (fun x => (PPol.asNode x).rtl) PPol.rtlPost PPol.nodes PPol.rtlPost_eq PPol.nodes_rtl]
  · simp [entryOut]
  · simp [cost]

/-! ### the stack -/

theorem ppopEach_eq : ∀ (xs ys : PPolList) (st : List PPol), ys.weights = xs.weights →
    ppopEach xs (ys.toList ++ st) = some (ys, st)
  | .nil, .nil, st, _ => rfl
  | .nil, .cons _ _ _, _, h => by simp [PPolList.weights] at h
  | .cons _ _ _, .nil, _, h => by simp [PPolList.weights] at h
  | .cons w x xs, .cons w' y ys, st, h => by
    simp only [PPolList.weights, List.cons.injEq] at h
    simp [ppopEach, PPolList.toList, ppopEach_eq xs ys st h.2, h.1]

theorem ppopEachM_eq (xs ys : PPolList) (st : List PPol) (h : ys.weights = xs.weights) :
    (ppopEachM xs (ys.toList ++ st) : TrM σ ε (PPolList × List PPol)) = pure (ys, st) := by
  simp [ppopEachM, ppopEach_eq xs ys st h]

theorem polLoop_cons (t : Translator σ ε) (x : PPol) (rest st : List PPol) :
    polLoop t (x :: rest) st = (polStep t st x >>= fun st' => polLoop t rest st') := by
  simp [polLoop]

/-- continuations after `xs.trRtl` only matter on child lists with the same weights -/
theorem trRtl_list_congr {β : Type} (t : Translator σ ε) :
    (xs : PPolList) → ∀ (f g : PPolList → TrM σ ε β), (∀ ys, ys.weights = xs.weights → f ys = g ys) →
      (xs.trRtl t >>= f) = (xs.trRtl t >>= g)
  | .nil, f, g, h => by simp [PPolList.trRtl, h .nil rfl]
  | .cons w x xs, f, g, h => by
    simp only [PPolList.trRtl, bind_assoc, pure_bind]
    apply trRtl_list_congr t xs
    intro ys hy
    congr 1; funext x'
    exact h _ (by simp [PPolList.weights, hy])

mutual
theorem polLoop_pol (t : Translator σ ε) : (p : PPol) → ∀ (rest st : List PPol),
    polLoop t (p.rtlPost ++ rest) st = (p.trRtl t >>= fun p' => polLoop t rest (p' :: st))
  | .unsat, _, _ | .trivial, _, _ | .after _, _, _ | .older _, _, _ | .key _, _, _ | .hash _ _, _, _ => by
    simp [PPol.rtlPost, polLoop_cons, polStep, PPol.trRtl]
  | .and xs, rest, st => by
    simp only [PPol.rtlPost, List.append_assoc, polLoop_list t xs, PPol.trRtl, bind_assoc]
    apply trRtl_list_congr t xs
    intro ys hy
    simp [polLoop_cons, polStep, ppopEachM_eq xs ys st hy]
  | .or xs, rest, st => by
    simp only [PPol.rtlPost, List.append_assoc, polLoop_list t xs, PPol.trRtl, bind_assoc]
    apply trRtl_list_congr t xs
    intro ys hy
    simp [polLoop_cons, polStep, ppopEachM_eq xs ys st hy]
  | .thresh k xs, rest, st => by
    simp only [PPol.rtlPost, List.append_assoc, polLoop_list t xs, PPol.trRtl, bind_assoc]
    apply trRtl_list_congr t xs
    intro ys hy
    simp [polLoop_cons, polStep, ppopEachM_eq xs ys st hy]
theorem polLoop_list (t : Translator σ ε) : (xs : PPolList) → ∀ (rest st : List PPol),
    polLoop t (xs.rtlPost ++ rest) st = (xs.trRtl t >>= fun ys => polLoop t rest (ys.toList ++ st))
  | .nil, _, _ => by simp [PPolList.rtlPost, PPolList.trRtl, PPolList.toList]
  | .cons w x xs, rest, st => by
    simp [PPolList.rtlPost, List.append_assoc, polLoop_list t xs, polLoop_pol t x, PPolList.trRtl,
      PPolList.toList]
end

theorem polTranslate_eq (t : Translator σ ε) (p : PPol) : polTranslate t p = p.trRtl t := by
  unfold polTranslate
  rw [rtlPostOrder_eq]
  have := polLoop_pol t p [] []
  simp only [List.append_nil] at this
  rw [this]
  simp [polLoop, ppop]

/-! ### pure and stateless translators -/

mutual
theorem trRtl_pure (f : Key → Key) (g : HashKind → Nat → Nat) : (p : PPol) →
    p.trRtl (pureT (σ := σ) (ε := ε) f g) = pure (p.mapKeys f g)
  | .unsat | .trivial | .after _ | .older _ => by simp [PPol.trRtl, PPol.mapKeys]
  | .key _ | .hash _ _ => by simp [PPol.trRtl, PPol.mapKeys, pureT]
  | .and xs | .or xs | .thresh _ xs => by simp [PPol.trRtl, PPol.mapKeys, trRtl_pure_list f g xs]
theorem trRtl_pure_list (f : Key → Key) (g : HashKind → Nat → Nat) : (xs : PPolList) →
    xs.trRtl (pureT (σ := σ) (ε := ε) f g) = pure (xs.mapKeys f g)
  | .nil => by simp [PPolList.trRtl, PPolList.mapKeys]
  | .cons _ x xs => by simp [PPolList.trRtl, PPolList.mapKeys, trRtl_pure f g x, trRtl_pure_list f g xs]
end

mutual
theorem trRtl_stateless (f : Key → Except ε Key) (g : HashKind → Nat → Except ε Nat) : (p : PPol) →
    p.trRtl (statelessT (σ := σ) f g) = outE f g p.atomsRtl (p.mapKeys (fOr f) (gOr g))
  | .unsat | .trivial | .after _ | .older _ => by
    simp [PPol.trRtl, PPol.atomsRtl, PPol.rtlPost, PPol.nodeAtoms, outE_nil, PPol.mapKeys]
  | .key k => by
    simp only [PPol.trRtl, statelessT, liftE_key f g]
    simp [PPol.atomsRtl, PPol.rtlPost, PPol.nodeAtoms, PPol.mapKeys]
  | .hash kind x => by
    simp only [PPol.trRtl, statelessT, liftE_hash f g]
    simp [PPol.atomsRtl, PPol.rtlPost, PPol.nodeAtoms, PPol.mapKeys]
  | .and xs | .or xs | .thresh _ xs => by
    simp only [PPol.trRtl, trRtl_stateless_list f g xs, outE_bind_pure]
    simp [PPol.atomsRtl, PPol.rtlPost, PPol.nodeAtoms, PPol.mapKeys, List.flatMap_append]
theorem trRtl_stateless_list (f : Key → Except ε Key) (g : HashKind → Nat → Except ε Nat) : (xs : PPolList) →
    xs.trRtl (statelessT (σ := σ) f g)
      = outE f g (xs.rtlPost.flatMap PPol.nodeAtoms) (xs.mapKeys (fOr f) (gOr g))
  | .nil => by simp [PPolList.trRtl, PPolList.rtlPost, outE_nil, PPolList.mapKeys]
  | .cons w x xs => by
    simp only [PPolList.trRtl, trRtl_stateless_list f g xs, trRtl_stateless f g x, outE_bind_pure,
      outE_bind]
    simp [PPolList.rtlPost, PPolList.mapKeys, List.flatMap_append, PPol.atomsRtl]
end

/-! ### functor laws, structure -/

mutual
theorem mapKeys_id : (p : PPol) → p.mapKeys id (fun _ h => h) = p
  | .unsat | .trivial | .after _ | .older _ | .key _ | .hash _ _ => by simp [PPol.mapKeys]
  | .and xs | .or xs | .thresh _ xs => by simp [PPol.mapKeys, mapKeys_id_list xs]
theorem mapKeys_id_list : (xs : PPolList) → xs.mapKeys id (fun _ h => h) = xs
  | .nil => rfl
  | .cons _ x xs => by simp [PPolList.mapKeys, mapKeys_id x, mapKeys_id_list xs]
end

mutual
theorem mapKeys_comp (f f' : Key → Key) (g g' : HashKind → Nat → Nat) : (p : PPol) →
    (p.mapKeys f g).mapKeys f' g' = p.mapKeys (f' ∘ f) (fun kind h => g' kind (g kind h))
  | .unsat | .trivial | .after _ | .older _ | .key _ | .hash _ _ => by simp [PPol.mapKeys]
  | .and xs | .or xs | .thresh _ xs => by simp [PPol.mapKeys, mapKeys_comp_list f f' g g' xs]
theorem mapKeys_comp_list (f f' : Key → Key) (g g' : HashKind → Nat → Nat) : (xs : PPolList) →
    (xs.mapKeys f g).mapKeys f' g' = xs.mapKeys (f' ∘ f) (fun kind h => g' kind (g kind h))
  | .nil => rfl
  | .cons _ x xs => by simp [PPolList.mapKeys, mapKeys_comp f f' g g' x, mapKeys_comp_list f f' g g' xs]
end

mutual
theorem keysPre_mapKeys (f : Key → Key) (g : HashKind → Nat → Nat) : (p : PPol) →
    (p.mapKeys f g).pre.flatMap PPol.keysAt = (p.pre.flatMap PPol.keysAt).map f
  | .unsat | .trivial | .after _ | .older _ | .key _ | .hash _ _ => by
    simp [PPol.mapKeys, PPol.pre, PPol.keysAt]
  | .and xs | .or xs | .thresh _ xs => by
    simp [PPol.mapKeys, PPol.pre, PPol.keysAt, keysPre_mapKeys_list f g xs]
theorem keysPre_mapKeys_list (f : Key → Key) (g : HashKind → Nat → Nat) : (xs : PPolList) →
    (xs.mapKeys f g).pre.flatMap PPol.keysAt = (xs.pre.flatMap PPol.keysAt).map f
  | .nil => rfl
  | .cons _ x xs => by
    simp [PPolList.mapKeys, PPolList.pre, List.flatMap_append, keysPre_mapKeys f g x,
      keysPre_mapKeys_list f g xs]
end

mutual
theorem isSemantic_mapKeys (f : Key → Key) (g : HashKind → Nat → Nat) : (p : PPol) →
    (p.mapKeys f g).isSemantic = p.isSemantic
  | .unsat | .trivial | .after _ | .older _ | .key _ | .hash _ _ => by simp [PPol.mapKeys, PPol.isSemantic]
  | .and _ | .or _ => by simp [PPol.mapKeys, PPol.isSemantic]
  | .thresh _ xs => by simp [PPol.mapKeys, PPol.isSemantic, isSemantic_mapKeys_list f g xs]
theorem isSemantic_mapKeys_list (f : Key → Key) (g : HashKind → Nat → Nat) : (xs : PPolList) →
    (xs.mapKeys f g).isSemantic = xs.isSemantic
  | .nil => rfl
  | .cons _ x xs => by
    simp [PPolList.mapKeys, PPolList.isSemantic, isSemantic_mapKeys f g x, isSemantic_mapKeys_list f g xs]
end

/-! ### `translate_unsatisfiable_pk` -/

theorem PPolList.replaceKey_weights (key : Key) : (xs : PPolList) →
    (xs.replaceKey key).weights = xs.weights
  | .nil => rfl
  | .cons _ _ xs => by simp [PPolList.replaceKey, PPolList.weights, PPolList.replaceKey_weights key xs]

mutual
theorem unsatLoop_pol (key : Key) : (p : PPol) → ∀ (rest st : List PPol),
    unsatLoop key (p.rtlPost ++ rest) st = unsatLoop key rest (p.replaceKey key :: st)
  | .unsat, _, _ | .trivial, _, _ | .after _, _, _ | .older _, _, _ | .hash _ _, _, _ => by
    simp [PPol.rtlPost, unsatLoop, unsatStep, PPol.replaceKey]
  | .key k, _, _ => by
    by_cases h : k = key <;> simp [PPol.rtlPost, unsatLoop, unsatStep, PPol.replaceKey, h]
  | .and xs, rest, st | .or xs, rest, st | .thresh _ xs, rest, st => by
    simp [PPol.rtlPost, List.append_assoc, unsatLoop_list key xs, unsatLoop, unsatStep,
      ppopEach_eq xs _ st (PPolList.replaceKey_weights key xs), PPol.replaceKey]
theorem unsatLoop_list (key : Key) : (xs : PPolList) → ∀ (rest st : List PPol),
    unsatLoop key (xs.rtlPost ++ rest) st = unsatLoop key rest ((xs.replaceKey key).toList ++ st)
  | .nil, _, _ => by simp [PPolList.rtlPost, PPolList.toList, PPolList.replaceKey]
  | .cons _ x xs, rest, st => by
    simp [PPolList.rtlPost, List.append_assoc, unsatLoop_list key xs, unsatLoop_pol key x,
      PPolList.toList, PPolList.replaceKey]
end

theorem translateUnsat_eq (key : Key) (p : PPol) : translateUnsat key p = .ok (p.replaceKey key) := by
  unfold translateUnsat
  rw [rtlPostOrder_eq]
  have := unsatLoop_pol key p [] []
  simp only [List.append_nil] at this
  rw [this]
  simp [unsatLoop]

/-! ### key visitors -/

theorem polAllLoop_eq (pred : Key → Bool) : (l : List PPol) →
    polAllLoop pred l = allVisit pred (l.flatMap PPol.keysAt)
  | [] => rfl
  | x :: xs => by
    cases x <;> simp [polAllLoop, PPol.keysAt, allVisit, polAllLoop_eq pred xs]

theorem polKeys_eq (p : PPol) : polKeys p = p.keys := by
  unfold polKeys PPol.keys
  rw [preOrder_eq]
  generalize p.pre = l
  induction l with
  | nil => rfl
  | cons x xs ih => cases x <;> simp [List.filterMap_cons, PPol.keysAt, ih]

end MsVerif.TranslatePolicy

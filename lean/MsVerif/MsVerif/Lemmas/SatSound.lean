/-
The mutual induction over the AST: every well-typed, well-formed fragment is `Sound`.
A thin dispatcher over the per-constructor lemmas of SatCases / SatCasesN / SatThresh.
-/
import MsVerif.Lemmas.SatThresh
import MsVerif.Lemmas.SatShape

namespace MsVerif.SatSpec
open MsVerif Script

variable {env : Env} {σ : Ph → Bytes} {cfg : SatCfg}

theorem lift1_corr {fc : Corr → Option Corr} {fm : Mall → Mall} {t τ : Ty}
    (h : Ty.lift1 fc fm t = some τ) : fc t.corr = some τ.corr := by
  unfold Ty.lift1 at h
  split at h <;> simp at h
  subst h; assumption

theorem lift2_corr {fc : Corr → Corr → Option Corr} {fm : Mall → Mall → Mall} {l r τ : Ty}
    (h : Ty.lift2 fc fm l r = some τ) : fc l.corr r.corr = some τ.corr := by
  unfold Ty.lift2 at h
  split at h <;> simp at h
  subst h; assumption

theorem bind_some {α β : Type} {o : Option α} {f : α → Option β} {b : β}
    (h : o.bind f = some b) : ∃ a, o = some a ∧ f a = some b := by
  cases o <;> simp at h; exact ⟨_, rfl, h⟩

theorem match2_some {α β : Type} {o1 o2 : Option α} {f : α → α → Option β} {b : β}
    (h : (match o1, o2 with | some a, some b => f a b | _, _ => none) = some b) :
    ∃ a1 a2, o1 = some a1 ∧ o2 = some a2 ∧ f a1 a2 = some b := by
  cases o1 <;> cases o2 <;> simp at h; exact ⟨_, _, rfl, rfl, h⟩

theorem match3_some {α β : Type} {o1 o2 o3 : Option α} {f : α → α → α → Option β} {b : β}
    (h : (match o1, o2, o3 with | some a, some b, some c => f a b c | _, _, _ => none) = some b) :
    ∃ a1 a2 a3, o1 = some a1 ∧ o2 = some a2 ∧ o3 = some a3 ∧ f a1 a2 a3 = some b := by
  cases o1 <;> cases o2 <;> cases o3 <;> simp at h; exact ⟨_, _, _, rfl, rfl, rfl, h⟩

mutual
theorem sound_all (h : EnvOk env cfg.ctx) (hag : Agrees env cfg.env cfg.assets σ) :
    (ms : Ms) → (τ : Ty) → WF cfg.ctx ms → typeOf ms = some τ →
    Sound env cfg.env cfg.ctx σ τ.corr ms (satDissat cfg ms)
  | .fls, τ, _, hty => by
    simp only [typeOf, Option.some.injEq] at hty; subst hty
    simp only [satDissat]; exact fls_case h
  | .tru, τ, _, hty => by
    simp only [typeOf, Option.some.injEq] at hty; subst hty
    simp only [satDissat]; exact tru_case h
  | .pkK k, τ, _, hty => by
    simp only [typeOf, Option.some.injEq] at hty; subst hty
    simp only [satDissat]; exact pkK_case h hag k
  | .pkH k, τ, _, hty => by
    simp only [typeOf, Option.some.injEq] at hty; subst hty
    simp only [satDissat]; exact pkH_case h hag k (pkLen cfg.env cfg.ctx k)
  | .rawPkH x, τ, _, hty => by
    simp only [typeOf, Option.some.injEq] at hty; subst hty
    exact rawPkH_case h hag x
  | .after n, τ, hwf, hty => by
    simp only [typeOf, Option.some.injEq] at hty; subst hty
    exact after_case h n hwf
  | .older n, τ, hwf, hty => by
    simp only [typeOf, Option.some.injEq] at hty; subst hty
    exact older_case h n hwf
  | .hash kind x, τ, _, hty => by
    simp only [typeOf, Option.some.injEq] at hty; subst hty
    exact hash_case h hag kind x
  | .multi k ks, τ, hwf, hty => by
    simp only [typeOf, Option.some.injEq] at hty; subst hty
    exact multi_case h hag k ks hwf
  | .sortedMulti k ks, τ, hwf, hty => by
    simp only [typeOf, Option.some.injEq] at hty; subst hty
    exact sortedMulti_case h hag k ks hwf
  | .multiA k ks, τ, hwf, hty => by
    simp only [typeOf, Option.some.injEq] at hty; subst hty
    exact multiA_case h hag k ks hwf
  | .sortedMultiA k ks, τ, hwf, hty => by
    simp only [typeOf, Option.some.injEq] at hty; subst hty
    exact sortedMultiA_case h hag k ks hwf
  | .alt x, τ, hwf, hty => by
    simp only [typeOf] at hty; simp only [WF] at hwf
    obtain ⟨tx, hx, hc⟩ := bind_some hty
    exact alt_case h (lift1_corr hc) (sound_all h hag x tx hwf hx)
  | .swap x, τ, hwf, hty => by
    simp only [typeOf] at hty; simp only [WF] at hwf
    obtain ⟨tx, hx, hc⟩ := bind_some hty
    exact swap_case h (lift1_corr hc) (sound_all h hag x tx hwf hx) (shape_sound cfg hag x tx hwf hx)
  | .check x, τ, hwf, hty => by
    simp only [typeOf] at hty; simp only [WF] at hwf
    obtain ⟨tx, hx, hc⟩ := bind_some hty
    exact check_case h (lift1_corr hc) (sound_all h hag x tx hwf hx)
  | .dupIf x, τ, hwf, hty => by
    simp only [typeOf] at hty; simp only [WF] at hwf
    obtain ⟨tx, hx, hc⟩ := bind_some hty
    exact dupIf_case h hag (lift1_corr hc) (sound_all h hag x tx hwf hx)
      (shape_sound cfg hag x tx hwf hx)
  | .verify x, τ, hwf, hty => by
    simp only [typeOf] at hty; simp only [WF] at hwf
    obtain ⟨tx, hx, hc⟩ := bind_some hty
    exact verify_case h (lift1_corr hc) (sound_all h hag x tx hwf hx)
  | .nonZero x, τ, hwf, hty => by
    simp only [typeOf] at hty; simp only [WF] at hwf
    obtain ⟨tx, hx, hc⟩ := bind_some hty
    exact nonZero_case h hag (lift1_corr hc) (sound_all h hag x tx hwf hx)
      (shape_sound cfg hag x tx hwf hx)
  | .zeroNotEqual x, τ, hwf, hty => by
    simp only [typeOf] at hty; simp only [WF] at hwf
    obtain ⟨tx, hx, hc⟩ := bind_some hty
    exact zeroNotEqual_case h (lift1_corr hc) (sound_all h hag x tx hwf hx)
  | .andV l r, τ, hwf, hty => by
    simp only [typeOf] at hty; simp only [WF] at hwf
    cases hl : typeOf l with
    | none => simp [hl] at hty
    | some tl =>
      cases hr : typeOf r with
      | none => simp [hl, hr] at hty
      | some tr =>
        simp only [hl, hr] at hty
        exact andV_case h (lift2_corr hty) (sound_all h hag l tl hwf.1 hl)
          (sound_all h hag r tr hwf.2 hr)
  | .andB l r, τ, hwf, hty => by
    simp only [typeOf] at hty; simp only [WF] at hwf
    cases hl : typeOf l with
    | none => simp [hl] at hty
    | some tl =>
      cases hr : typeOf r with
      | none => simp [hl, hr] at hty
      | some tr =>
        simp only [hl, hr] at hty
        exact andB_case h (lift2_corr hty) (sound_all h hag l tl hwf.1 hl)
          (sound_all h hag r tr hwf.2 hr)
  | .orB l r, τ, hwf, hty => by
    simp only [typeOf] at hty; simp only [WF] at hwf
    cases hl : typeOf l with
    | none => simp [hl] at hty
    | some tl =>
      cases hr : typeOf r with
      | none => simp [hl, hr] at hty
      | some tr =>
        simp only [hl, hr] at hty
        exact orB_case h (lift2_corr hty) (sound_all h hag l tl hwf.1 hl)
          (sound_all h hag r tr hwf.2 hr)
  | .orD l r, τ, hwf, hty => by
    simp only [typeOf] at hty; simp only [WF] at hwf
    cases hl : typeOf l with
    | none => simp [hl] at hty
    | some tl =>
      cases hr : typeOf r with
      | none => simp [hl, hr] at hty
      | some tr =>
        simp only [hl, hr] at hty
        exact orD_case h (lift2_corr hty) (sound_all h hag l tl hwf.1 hl)
          (sound_all h hag r tr hwf.2 hr)
  | .orC l r, τ, hwf, hty => by
    simp only [typeOf] at hty; simp only [WF] at hwf
    cases hl : typeOf l with
    | none => simp [hl] at hty
    | some tl =>
      cases hr : typeOf r with
      | none => simp [hl, hr] at hty
      | some tr =>
        simp only [hl, hr] at hty
        exact orC_case h (lift2_corr hty) (sound_all h hag l tl hwf.1 hl)
          (sound_all h hag r tr hwf.2 hr)
  | .orI l r, τ, hwf, hty => by
    simp only [typeOf] at hty; simp only [WF] at hwf
    cases hl : typeOf l with
    | none => simp [hl] at hty
    | some tl =>
      cases hr : typeOf r with
      | none => simp [hl, hr] at hty
      | some tr =>
        simp only [hl, hr] at hty
        exact orI_case h hag (lift2_corr hty) (sound_all h hag l tl hwf.1 hl)
          (sound_all h hag r tr hwf.2 hr)
  | .andOr a b c, τ, hwf, hty => by
    simp only [typeOf] at hty; simp only [WF] at hwf
    cases ha : typeOf a with
    | none => simp [ha] at hty
    | some ta =>
    cases hb : typeOf b with
    | none => simp [ha, hb] at hty
    | some tb =>
    cases hc : typeOf c with
    | none => simp [ha, hb, hc] at hty
    | some tc =>
    simp only [ha, hb, hc] at hty
    have hcc := hty
    have hcorr : Corr.andOr ta.corr tb.corr tc.corr = some τ.corr := by
      unfold Ty.andOr at hcc
      split at hcc <;> simp at hcc
      subst hcc; assumption
    exact andOr_case h hcorr (sound_all h hag a ta hwf.1 ha) (sound_all h hag b tb hwf.2.1 hb)
      (sound_all h hag c tc hwf.2.2 hc)
  | .thresh k xs, τ, hwf, hty => by
    simp only [typeOf] at hty
    obtain ⟨ts, hts, hc⟩ := bind_some hty
    have hcorr : Corr.threshold k (ts.map (·.corr)) = some τ.corr := by
      unfold Ty.threshold at hc
      split at hc <;> simp at hc
      subst hc; assumption
    have hwfs : WFs cfg.ctx xs := by simp only [WF] at hwf; exact hwf.2.2.2
    exact thresh_case h k xs _ _ hwf hcorr (sounds_all h hag xs ts hwfs hts)
theorem sounds_all (h : EnvOk env cfg.ctx) (hag : Agrees env cfg.env cfg.assets σ) :
    (xs : MsList) → (ts : List Ty) → WFs cfg.ctx xs → typesOf xs = some ts →
    SoundList env σ cfg xs (ts.map (·.corr))
  | .nil, ts, _, hty => by
    simp only [typesOf, Option.some.injEq] at hty; subst hty
    simp [SoundList]
  | .cons x xs, ts, hwf, hty => by
    simp only [typesOf] at hty; simp only [WFs] at hwf
    cases hx : typeOf x with
    | none => simp [hx] at hty
    | some t =>
      cases hxs : typesOf xs with
      | none => simp [hx, hxs] at hty
      | some ts' =>
        simp only [hx, hxs, Option.some.injEq] at hty; subst hty
        exact ⟨sound_all h hag x t hwf.1 hx, sounds_all h hag xs ts' hwf.2 hxs⟩
end

end MsVerif.SatSpec

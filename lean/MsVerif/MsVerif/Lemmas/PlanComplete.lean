/-
Helper development for C17 (b): an invariant of every stack the satisfier model can return.

For any predicate `P` on placeholder lists that holds of `[]`, is closed under `++` and holds of
the stacks the LEAVES produce from the assets (`LeafOk`), every stack of `satDissat` — sat and
dissat half, every fragment, both modes — satisfies `P`.  Instantiated in Thm/C17.lean with
"`Placeholder::satisfy_all` (`try_completing`, `Plan::satisfy`) succeeds on it".
-/
import MsVerif.Lemmas.PlanLockExec

namespace MsVerif.PlanComplete
open MsVerif MsVerif.Sat MsVerif.SatSpec MsVerif.PlanLocks MsVerif.PlanLockExec

structure Closed (P : List Ph → Prop) : Prop where
  nil : P []
  app : ∀ a b, P a → P b → P (a ++ b)

/-- every stack of `s` satisfies `P` -/
def SInv (P : List Ph → Prop) (s : Sat) : Prop := ∀ l, s.stack = .stack l → P l

/-- the stacks produced by the leaves, from what the assets offer -/
structure LeafOk (P : List Ph → Prop) (ke : KeyEnv) (ctx : Ctx) (a : Assets) : Prop where
  ecdsa : ∀ k, a.ecdsaSig k = true → P [.ecdsaSig k]
  schnorr : ∀ k sz, a.schnorrSig k = some sz → P [.schnorrSig k sz]
  pubkey : ∀ k n, P [.pubkey k n]
  rawPk : ∀ h pk, a.rawPkhPk h = some pk → P [.pubkeyHash h (pkLen ke ctx pk)]
  rawEcdsa : ∀ h pk, a.rawPkhEcdsa h = some pk → P [.ecdsaSigPkh h, .pubkeyHash h (pkLen ke ctx pk)]
  rawSchnorr : ∀ h pk sz, a.rawPkhSchnorr h = some (pk, sz) →
    P [.schnorrSigPkh h sz, .pubkeyHash h (pkLen ke ctx pk)]
  pre : ∀ kind h, a.preimage kind h = true → P [.preimage kind h]
  hashDissat : P [.hashDissat]
  pushOne : P [.pushOne]
  pushZero : P [.pushZero]

variable {P : List Ph → Prop}

theorem wit_sinv (hP : Closed P) {a b : Wit} (ha : ∀ l, a = .stack l → P l)
    (hb : ∀ l, b = .stack l → P l) : ∀ l, Wit.combine a b = .stack l → P l := by
  intro l h
  obtain ⟨la, lb, ea, eb, rfl⟩ := combine_stack h
  exact hP.app _ _ (ha _ ea) (hb _ eb)

theorem sinv_of_not_stack {s : Sat} (h : ∀ l, s.stack ≠ .stack l) : SInv P s :=
  fun l hl => absurd hl (h l)

theorem sinv_impossible : SInv P Sat.IMPOSSIBLE := sinv_of_not_stack (by simp [Sat.IMPOSSIBLE])
theorem sinv_unavailable : SInv P Sat.UNAVAILABLE := sinv_of_not_stack (by simp [Sat.UNAVAILABLE])

theorem concat_sinv (hP : Closed P) {a b : Sat} (ha : SInv P a) (hb : SInv P b) :
    SInv P (a.concatenateRev b) := by
  intro l h
  obtain ⟨wa, wb, ea, eb, rfl⟩ := SatSpec.concat_stack h
  exact hP.app _ _ (hb _ eb) (ha _ ea)

theorem minimum_sinv {a b : Sat} (ha : SInv P a) (hb : SInv P b) : SInv P (Sat.minimum a b) := by
  intro l h
  unfold Sat.minimum at h
  split at h
  · exact hb _ h
  · split at h
    · exact ha _ h
    · split at h
      · simp [Sat.UNAVAILABLE] at h
      · exact ha _ h
      · exact hb _ h
      · split at h
        · exact ha _ h
        · exact hb _ h

theorem minimumMall_sinv {a b : Sat} (ha : SInv P a) (hb : SInv P b) :
    SInv P (Sat.minimumMall a b) := by
  intro l h
  unfold Sat.minimumMall at h
  split at h
  · exact hb _ h
  · split at h
    · exact ha _ h
    · simp only at h
      split at h
      · exact ha _ h
      · exact hb _ h

theorem minFn_sinv (c : SatCfg) {a b : Sat} (ha : SInv P a) (hb : SInv P b) :
    SInv P (c.minFn a b) := by
  unfold SatCfg.minFn
  split
  · exact minimumMall_sinv ha hb
  · exact minimum_sinv ha hb

theorem withPush_sinv (hP : Closed P) {s : Sat} {p : Ph} (hs : SInv P s) (hp : P [p]) :
    SInv P { s with stack := Wit.combine s.stack (.stack [p]) } := by
  intro l h
  exact wit_sinv hP hs (fun l' e => by simp only [Wit.stack.injEq] at e; subst e; exact hp) l h

theorem foldl_concat_sinv (hP : Closed P) (l : List Sat) (acc : Sat) (hacc : SInv P acc)
    (hl : ∀ s ∈ l, SInv P s) : SInv P (l.foldl Sat.concatenateRev acc) := by
  induction l generalizing acc with
  | nil => exact hacc
  | cons x xs ih =>
    simp only [List.foldl_cons]
    exact ih _ (concat_sinv hP hacc (hl x (by simp))) (fun s hs => hl s (by simp [hs]))

theorem foldConcat_sinv (hP : Closed P) (l : List Sat) (hl : ∀ s ∈ l, SInv P s) :
    SInv P (foldConcat l) :=
  foldl_concat_sinv hP l _ (fun l' h => by simp [Sat.empty] at h; subst h; exact hP.nil) hl

theorem getElem!_sinv (hP : Closed P) (l : List Sat) (hl : ∀ s ∈ l, SInv P s) (i : Nat) :
    SInv P (l[i]!) := by
  simp only [List.getElem!_eq_getElem?_getD]
  cases h : l[i]? with
  | none =>
    intro l' hl'
    have : (default : Sat).stack = .stack [] := rfl
    simp only [Option.getD_none] at hl'
    rw [this] at hl'
    simp only [Wit.stack.injEq] at hl'
    subst hl'; exact hP.nil
  | some t => exact hl t (List.mem_of_getElem? h)

theorem ret_sinv (hP : Closed P) (chosen : List Nat) (dissats sats : List Sat)
    (hd : ∀ s ∈ dissats, SInv P s) (hs : ∀ s ∈ sats, SInv P s) (n : Nat) :
    ∀ s ∈ (List.range n).map (fun i => if chosen.contains i then sats[i]! else dissats[i]!),
      SInv P s := by
  intro s hs'
  simp only [List.mem_map, List.mem_range] at hs'
  obtain ⟨i, _, rfl⟩ := hs'
  split
  · exact getElem!_sinv hP sats hs i
  · exact getElem!_sinv hP dissats hd i

theorem threshSat_sinv (hP : Closed P) (c : SatCfg) (k : Nat) (dissats sats : List Sat)
    (hd : ∀ s ∈ dissats, SInv P s) (hs : ∀ s ∈ sats, SInv P s) :
    SInv P (threshSat c k dissats sats) := by
  unfold threshSat
  split
  · exact foldConcat_sinv hP _ hs
  · split
    · rw [threshMall_eq]
      exact foldConcat_sinv hP _ (ret_sinv hP _ _ _ hd hs _)
    · rcases threshNonMall_cases k dissats sats with h | h | h
      · rw [h]; exact sinv_impossible
      · rw [h]; exact sinv_unavailable
      · rw [h]; exact foldConcat_sinv hP _ (ret_sinv hP _ _ _ hd hs _)

/-! ### leaves -/

section leaves
variable {ke : KeyEnv} {ctx : Ctx} {a : Assets}

theorem sigWit_sinv (hL : LeafOk P ke ctx a) (k : Key) : ∀ l, sigWit ctx a k = .stack l → P l := by
  intro l h
  unfold sigWit at h
  split at h
  · split at h
    · rename_i sz hsz
      simp only [Wit.stack.injEq] at h; subst h; exact hL.schnorr k sz hsz
    · simp at h
  · split at h
    · rename_i hk
      simp only [Wit.stack.injEq] at h; subst h; exact hL.ecdsa k hk
    · simp at h

theorem replicate_zero (hP : Closed P) (hL : LeafOk P ke ctx a) (n : Nat) :
    P (List.replicate n .pushZero) := by
  induction n with
  | zero => exact hP.nil
  | succ n ih =>
    rw [List.replicate_succ]
    exact hP.app [_] _ hL.pushZero ih

theorem foldl_combine_sinv (hP : Closed P) (sigs : List (List Ph)) (acc : Wit)
    (hacc : ∀ l, acc = .stack l → P l) (hs : ∀ s ∈ sigs, P s) :
    ∀ l, sigs.foldl (fun acc s => Wit.combine acc (.stack s)) acc = .stack l → P l := by
  induction sigs generalizing acc with
  | nil => exact hacc
  | cons x xs ih =>
    simp only [List.foldl_cons]
    exact ih _ (wit_sinv hP hacc (fun l' e => by simp only [Wit.stack.injEq] at e; subst e; exact hs x (by simp)))
      (fun s hs' => hs s (by simp [hs']))

theorem set_all (hP : Closed P) (l : List (List Ph)) (i : Nat) (x : List Ph) (hx : P x)
    (hl : ∀ s ∈ l, P s) : ∀ s ∈ l.set i x, P s := by
  intro s hs
  rcases List.mem_or_eq_of_mem_set hs with h | h
  · exact hl s h
  · subst h; exact hx

theorem dropMost_all (hP : Closed P) : ∀ (n : Nat) (l : List (List Ph)), (∀ s ∈ l, P s) →
    ∀ s ∈ dropMostExpensive n l, P s
  | 0, l, hl => hl
  | n + 1, l, hl => by
    simp only [dropMostExpensive]
    exact dropMost_all hP n _ (set_all hP l _ [] hP.nil hl)

theorem multiSD_sinv (hP : Closed P) (hL : LeafOk P ke ctx a) (k : Nat) (ks : List Key) :
    SInv P (multiSD ctx a k ks).dissat ∧ SInv P (multiSD ctx a k ks).sat := by
  unfold multiSD
  simp only
  have hsigs : ∀ s ∈ ks.filterMap (fun pk => match sigWit ctx a pk with | .stack s => some s | _ => none),
      P s := by
    intro s hs
    simp only [List.mem_filterMap] at hs
    obtain ⟨pk, _, h⟩ := hs
    split at h
    · rename_i s' hs'
      simp only [Option.some.injEq] at h; subst h
      exact sigWit_sinv hL pk _ hs'
    · simp at h
  split
  · refine ⟨fun l h => ?_, sinv_impossible⟩
    simp only [Wit.stack.injEq] at h; subst h; exact replicate_zero hP hL _
  · refine ⟨fun l h => ?_, fun l h => ?_⟩
    · simp only [Wit.stack.injEq] at h; subst h; exact replicate_zero hP hL _
    · exact foldl_combine_sinv hP _ _
        (fun l' e => by simp only [Wit.stack.injEq] at e; subst e; exact hL.pushZero)
        (dropMost_all hP _ _ hsigs) l h

theorem multiALoop_all (hP : Closed P) (hL : LeafOk P ke ctx a) (k : Nat) :
    ∀ (ks : List Key) (i cnt : Nat) (sigs : List (List Ph)), (∀ s ∈ sigs, P s) →
      ∀ s ∈ (multiALoop ctx a k ks i cnt sigs).2, P s
  | [], _, _, sigs, hs => by simpa [multiALoop] using hs
  | pk :: rest, i, cnt, sigs, hs => by
    simp only [multiALoop]
    split
    · rename_i s' hs'
      have hset := set_all hP sigs i s' (sigWit_sinv hL pk _ hs') hs
      split
      · exact hset
      · exact multiALoop_all hP hL k rest _ _ _ hset
    · exact multiALoop_all hP hL k rest _ _ _ hs

theorem multiASD_sinv (hP : Closed P) (hL : LeafOk P ke ctx a) (k : Nat) (ks : List Key) :
    SInv P (multiASD ctx a k ks).dissat ∧ SInv P (multiASD ctx a k ks).sat := by
  unfold multiASD
  simp only
  have hinit : ∀ s ∈ List.replicate ks.length [Ph.pushZero], P s := by
    intro s hs
    have := List.eq_of_mem_replicate hs
    subst this; exact hL.pushZero
  have hall := multiALoop_all hP hL k ks.reverse 0 0 _ hinit
  split
  · refine ⟨fun l h => ?_, sinv_impossible⟩
    simp only [Wit.stack.injEq] at h; subst h; exact replicate_zero hP hL _
  · refine ⟨fun l h => ?_, fun l h => ?_⟩
    · simp only [Wit.stack.injEq] at h; subst h; exact replicate_zero hP hL _
    · exact foldl_combine_sinv hP _ _
        (fun l' e => by simp only [Wit.stack.injEq] at e; subst e; exact hP.nil) hall l h

end leaves

/-! ### the induction -/

section main
variable (hP : Closed P) (c : SatCfg) (hL : LeafOk P c.env c.ctx c.assets)
include hP hL

theorem sinv_stack_nil (hs : Bool) (ab rl : Option Nat) : SInv P ⟨.stack [], hs, ab, rl⟩ :=
  fun l h => by simp only [Wit.stack.injEq] at h; subst h; exact hP.nil

mutual
theorem satDissat_sinv : (ms : Ms) → SInv P (satDissat c ms).dissat ∧ SInv P (satDissat c ms).sat
  | .fls => by
    simp only [satDissat]
    exact ⟨fun l h => by simp [Sat.TRIVIAL] at h; subst h; exact hP.nil, sinv_impossible⟩
  | .tru => by
    simp only [satDissat]
    exact ⟨sinv_impossible, fun l h => by simp [Sat.TRIVIAL] at h; subst h; exact hP.nil⟩
  | .pkK k => by
    simp only [satDissat]
    exact ⟨fun l h => by simp [Sat.push0] at h; subst h; exact hL.pushZero, fun l h => sigWit_sinv hL k l h⟩
  | .pkH k => by
    simp only [satDissat]
    refine ⟨fun l h => ?_, fun l h => ?_⟩
    · simp only at h
      obtain ⟨la, lb, ea, eb, rfl⟩ := combine_stack h
      simp only [Wit.stack.injEq] at ea eb; subst ea eb
      exact hP.app _ _ hL.pushZero (hL.pubkey _ _)
    · simp only at h
      obtain ⟨la, lb, ea, eb, rfl⟩ := combine_stack h
      simp only [Wit.stack.injEq] at eb; subst eb
      exact hP.app _ _ (sigWit_sinv hL k _ ea) (hL.pubkey _ _)
  | .rawPkH x => by
    simp only [satDissat]
    refine ⟨fun l h => ?_, fun l h => ?_⟩
    · simp only at h
      obtain ⟨la, lb, ea, eb, rfl⟩ := combine_stack h
      simp only [Wit.stack.injEq] at ea; subst ea
      refine hP.app _ _ hL.pushZero ?_
      split at eb
      · rename_i pk hpk
        simp only [Wit.stack.injEq] at eb; subst eb; exact hL.rawPk _ _ hpk
      · simp at eb
    · simp only at h
      split at h
      · split at h
        · rename_i pk sz hpk
          simp only [Wit.stack.injEq] at h; subst h; exact hL.rawSchnorr _ _ _ hpk
        · simp at h
      · split at h
        · rename_i pk hpk
          simp only [Wit.stack.injEq] at h; subst h; exact hL.rawEcdsa _ _ hpk
        · simp at h
  | .multi k ks => by simp only [satDissat]; exact multiSD_sinv hP hL k ks
  | .sortedMulti k ks => by simp only [satDissat]; exact multiSD_sinv hP hL k _
  | .multiA k ks => by simp only [satDissat]; exact multiASD_sinv hP hL k ks
  | .sortedMultiA k ks => by simp only [satDissat]; exact multiASD_sinv hP hL k _
  | .after n => by
    simp only [satDissat]
    refine ⟨sinv_impossible, fun l h => ?_⟩
    split at h
    · simp only [Wit.stack.injEq] at h; subst h; exact hP.nil
    · split at h <;> simp at h
  | .older n => by
    simp only [satDissat]
    refine ⟨sinv_impossible, fun l h => ?_⟩
    split at h
    · simp only [Wit.stack.injEq] at h; subst h; exact hP.nil
    · split at h <;> simp at h
  | .hash kind x => by
    simp only [satDissat]
    refine ⟨fun l h => by simp only [Wit.stack.injEq] at h; subst h; exact hL.hashDissat, fun l h => ?_⟩
    split at h
    · rename_i hp
      simp only [Wit.stack.injEq] at h; subst h; exact hL.pre _ _ hp
    · simp at h
  | .alt x => by simpa only [satDissat] using satDissat_sinv x
  | .swap x => by simpa only [satDissat] using satDissat_sinv x
  | .check x => by simpa only [satDissat] using satDissat_sinv x
  | .zeroNotEqual x => by simpa only [satDissat] using satDissat_sinv x
  | .dupIf x => by
    have := satDissat_sinv x
    simp only [satDissat]
    exact ⟨fun l h => by simp [Sat.push0] at h; subst h; exact hL.pushZero,
      withPush_sinv hP this.2 hL.pushOne⟩
  | .verify x => by
    have := satDissat_sinv x
    simp only [satDissat]
    exact ⟨sinv_impossible, this.2⟩
  | .nonZero x => by
    have := satDissat_sinv x
    simp only [satDissat]
    exact ⟨fun l h => by simp [Sat.push0] at h; subst h; exact hL.pushZero, this.2⟩
  | .andB l r => by
    have hl := satDissat_sinv l; have hr := satDissat_sinv r
    simp only [satDissat]
    exact ⟨concat_sinv hP hl.1 hr.1, concat_sinv hP hl.2 hr.2⟩
  | .andV l r => by
    have hl := satDissat_sinv l; have hr := satDissat_sinv r
    simp only [satDissat]
    exact ⟨concat_sinv hP hl.2 hr.1, concat_sinv hP hl.2 hr.2⟩
  | .andOr a b z => by
    have ha := satDissat_sinv a; have hb := satDissat_sinv b; have hz := satDissat_sinv z
    simp only [satDissat]
    exact ⟨concat_sinv hP ha.1 hz.1,
      minFn_sinv c (concat_sinv hP ha.2 hb.2) (concat_sinv hP ha.1 hz.2)⟩
  | .orB l r => by
    have hl := satDissat_sinv l; have hr := satDissat_sinv r
    simp only [satDissat]
    exact ⟨concat_sinv hP hl.1 hr.1,
      minFn_sinv c (concat_sinv hP hl.1 hr.2) (concat_sinv hP hl.2 hr.1)⟩
  | .orC l r => by
    have hl := satDissat_sinv l; have hr := satDissat_sinv r
    simp only [satDissat]
    exact ⟨sinv_impossible, minFn_sinv c hl.2 (concat_sinv hP hl.1 hr.2)⟩
  | .orD l r => by
    have hl := satDissat_sinv l; have hr := satDissat_sinv r
    simp only [satDissat]
    exact ⟨concat_sinv hP hl.1 hr.1, minFn_sinv c hl.2 (concat_sinv hP hl.1 hr.2)⟩
  | .orI l r => by
    have hl := satDissat_sinv l; have hr := satDissat_sinv r
    simp only [satDissat]
    exact ⟨minFn_sinv c (withPush_sinv hP hl.1 hL.pushOne) (withPush_sinv hP hr.1 hL.pushZero),
      minFn_sinv c (withPush_sinv hP hl.2 hL.pushOne) (withPush_sinv hP hr.2 hL.pushZero)⟩
  | .thresh k xs => by
    have h := satDissats_sinv xs
    have hd : ∀ s ∈ (satDissats c xs).map (·.dissat), SInv P s := by
      intro s hs; simp only [List.mem_map] at hs; obtain ⟨sd, hsd, rfl⟩ := hs; exact (h sd hsd).1
    have hs : ∀ s ∈ (satDissats c xs).map (·.sat), SInv P s := by
      intro s hs; simp only [List.mem_map] at hs; obtain ⟨sd, hsd, rfl⟩ := hs; exact (h sd hsd).2
    simp only [satDissat]
    refine ⟨foldConcat_sinv hP _ hd, ?_⟩
    have := threshSat_sinv hP c k _ _ hd hs
    simpa [threshSat] using this
theorem satDissats_sinv : (xs : MsList) →
    ∀ sd ∈ satDissats c xs, SInv P sd.dissat ∧ SInv P sd.sat
  | .nil => by simp [satDissats]
  | .cons x xs => by
    intro sd hsd
    simp only [satDissats, List.mem_cons] at hsd
    rcases hsd with rfl | hsd
    · exact satDissat_sinv x
    · exact satDissats_sinv xs sd hsd
end

end main

/-! ### the two completions -/

section completion
open MsVerif.Plan
variable {r : Ph → Option Script.Bytes} {fb : Nat → Option Script.Bytes}

/-- `try_completing` succeeds in every left context -/
def TryOk (r : Ph → Option Script.Bytes) (fb : Nat → Option Script.Bytes) (l : List Ph) : Prop :=
  ∀ prev, (tryCompleting r fb prev l).isSome

theorem try_cons_some {prev : Option Ph} {p : Ph} {ps : List Ph}
    (h : (tryCompleting r fb prev (p :: ps)).isSome) : (tryCompleting r fb (some p) ps).isSome := by
  simp only [tryCompleting] at h
  split at h
  · rename_i b bs hb hbs; simp [hbs]
  · simp at h

theorem try_append {a b : List Ph} (hb : TryOk r fb b) : ∀ prev,
    (tryCompleting r fb prev a).isSome → (tryCompleting r fb prev (a ++ b)).isSome := by
  induction a with
  | nil => intro prev _; exact hb prev
  | cons p ps ih =>
    intro prev h
    have h2 := ih (some p) (try_cons_some h)
    simp only [List.cons_append, tryCompleting] at h ⊢
    split at h
    · rename_i x xs hx hxs
      obtain ⟨ys, hys⟩ := Option.isSome_iff_exists.mp h2
      simp [hx, hys]
    · simp at h

theorem tryOk_closed : Closed (TryOk r fb) where
  nil := fun _ => rfl
  app := fun a b ha hb prev => try_append hb prev (ha prev)

theorem tryOk_single {p : Ph} (h : (r p).isSome) : TryOk r fb [p] := by
  intro prev
  obtain ⟨b, hb⟩ := Option.isSome_iff_exists.mp h
  simp [tryCompleting, hb]

/-- `[SchnorrSigPkHash h, PubkeyHash h]`: the key may come from the fallback -/
theorem tryOk_rawSchnorr {h sz n : Nat} (hs : (r (.schnorrSigPkh h sz)).isSome)
    (hk : (r (.pubkeyHash h n)).isSome ∨ (fb h).isSome) :
    TryOk r fb [.schnorrSigPkh h sz, .pubkeyHash h n] := by
  intro prev
  obtain ⟨b, hb⟩ := Option.isSome_iff_exists.mp hs
  cases hr : r (.pubkeyHash h n) with
  | some k => simp [tryCompleting, hb, hr]
  | none =>
    rcases hk with hk | hk
    · simp [hr] at hk
    · obtain ⟨k, hk⟩ := Option.isSome_iff_exists.mp hk
      simp [tryCompleting, hb, hr, hk]

end completion

/-! ### the model's satisfier completes its own templates -/

section stfr
open MsVerif.Plan

theorem pkLen_tap (ke : KeyEnv) (k : Key) : pkLen ke .tap k = 33 := rfl
theorem pkLen_ne_33 (ke : KeyEnv) (ctx : Ctx) (k : Key) (h : ctx ≠ .tap) : pkLen ke ctx k ≠ 33 := by
  unfold pkLen
  cases ctx <;> simp at h ⊢ <;> split <;> omega

/-- `try_completing` with the satisfier itself -/
theorem leafOk_try (S : Stfr) (ke : KeyEnv) (ctx : Ctx) :
    LeafOk (TryOk S.realise S.fallback) ke ctx (S.assets ctx) where
  ecdsa k h := tryOk_single (by simpa [Stfr.assets, Stfr.realise] using h)
  schnorr k sz h := tryOk_single (by
    simp only [Stfr.assets, Option.map_eq_some_iff] at h
    obtain ⟨b, hb, _⟩ := h
    simp [Stfr.realise, hb])
  pubkey k n := tryOk_single (by simp [Stfr.realise])
  rawPk h pk hp := tryOk_single (by
    simp only [Stfr.assets] at hp
    by_cases ht : ctx = .tap
    · subst ht
      simp only [if_true, Option.map_eq_some_iff] at hp
      obtain ⟨q, hq, _⟩ := hp
      simp [Stfr.realise, pkLen_tap, hq]
    · simp only [ht, if_false, Option.map_eq_some_iff] at hp
      obtain ⟨q, hq, _⟩ := hp
      simp [Stfr.realise, pkLen_ne_33 ke ctx pk ht, hq])
  rawEcdsa h pk hp := by
    simp only [Stfr.assets] at hp
    by_cases ht : ctx = .tap
    · simp [ht] at hp
    · simp only [ht, if_false, Option.map_eq_some_iff] at hp
      obtain ⟨q, hq, _⟩ := hp
      refine tryOk_closed.app [_] [_] (tryOk_single (by simp [Stfr.realise, hq])) (tryOk_single ?_)
      simp only [Stfr.realise, pkLen_ne_33 ke ctx pk ht, if_false]
      cases S.rawPk h <;> simp [hq]
  rawSchnorr h pk sz hp := by
    simp only [Stfr.assets] at hp
    by_cases ht : ctx = .tap
    · simp only [ht, if_true, Option.map_eq_some_iff] at hp
      obtain ⟨q, hq, _⟩ := hp
      exact tryOk_rawSchnorr (by simp [Stfr.realise, hq]) (.inr (by simp [Stfr.fallback, hq]))
    · simp [ht] at hp
  pre kind h hp := tryOk_single (by simpa [Stfr.assets, Stfr.realise] using hp)
  hashDissat := tryOk_single (by simp [Stfr.realise])
  pushOne := tryOk_single (by simp [Stfr.realise])
  pushZero := tryOk_single (by simp [Stfr.realise])

end stfr

end MsVerif.PlanComplete

/-
Helper development for C17 (a): the link between the lock lists carried by the instrumented
satisfier (`Lemmas/PlanLocks.lean`) and what the emitted opcodes EXECUTE.

`Fails f s`: `f` started on main stack `s` (any alt stack, any opcode counter) ends in
`Err.unsatisfiedLocktime` — the error of CHECKLOCKTIMEVERIFY / CHECKSEQUENCEVERIFY.
Part 1: one "failure" companion for every execution lemma of Lemmas/SatExec.lean.
-/
import MsVerif.Lemmas.SatSound
import MsVerif.Lemmas.PlanLocks

namespace MsVerif.PlanLockExec
open MsVerif Script SatSpec PlanLocks

variable {env : Env} {ke : KeyEnv} {ctx : Ctx}

def Fails (f : Core → Except Err Core) (s : List Bytes) : Prop :=
  ∀ alt ops, f ⟨s, alt, ops⟩ = .error .unsatisfiedLocktime

/-! ### leaves -/

theorem frag_after_fail (h : EnvOk env ctx) {n : Nat} (hn : NumOk n)
    (hl : checkLockTime env n = false) (s : List Bytes) :
    Fails (frag env ke ctx (.after n)) s := by
  intro alt ops
  have h5 := numDecode_5_of_4 (hn.1 env.flags.minimalNum)
  have hneg : ¬ ((n : Int) < 0) := by omega
  simp only [frag, seqOps, List.foldlM, pshOp_pushInt h, bind, Except.bind]
  simp [pshOp, opc_eq h, execOpc, h5, hl, hneg, pure, Except.pure]

theorem frag_older_fail (h : EnvOk env ctx) {n : Nat} (hn : NumOk n) (hd : n < 2147483648)
    (hl : checkSequence env n = false) (s : List Bytes) :
    Fails (frag env ke ctx (.older n)) s := by
  intro alt ops
  have h5 := numDecode_5_of_4 (hn.1 env.flags.minimalNum)
  have hneg : ¬ ((n : Int) < 0) := by omega
  have hdis : ¬ ((n / SEQ_DISABLE) % 2 == 1) = true := by
    simp only [SEQ_DISABLE, beq_iff_eq]; omega
  simp only [frag, seqOps, List.foldlM, pshOp_pushInt h, bind, Except.bind]
  simp [pshOp, opc_eq h, execOpc, h5, hl, hdis, hneg, pure, Except.pure]

/-! ### wrappers -/

theorem frag_alt_fail (h : EnvOk env ctx) {x : Ms} {t : Bytes} {s : List Bytes}
    (hx : Fails (frag env ke ctx x) s) : Fails (frag env ke ctx (.alt x)) (t :: s) := by
  intro alt ops
  simp [frag, opc_eq h, execOpc, hx _ _, bind, Except.bind]

theorem frag_swap_fail (h : EnvOk env ctx) {x : Ms} {a t : Bytes} {s : List Bytes}
    (hx : Fails (frag env ke ctx x) (a :: t :: s)) :
    Fails (frag env ke ctx (.swap x)) (t :: a :: s) := by
  intro alt ops
  simp [frag, opc_eq h, execOpc, hx _ _, bind, Except.bind]

theorem frag_check_fail {x : Ms} {s : List Bytes}
    (hx : Fails (frag env ke ctx x) s) : Fails (frag env ke ctx (.check x)) s := by
  intro alt ops
  simp [frag, hx _ _, bind, Except.bind]

theorem frag_verify_fail {x : Ms} {s : List Bytes}
    (hx : Fails (frag env ke ctx x) s) : Fails (frag env ke ctx (.verify x)) s := by
  intro alt ops
  simp [frag, hx _ _, bind, Except.bind]

theorem frag_zeroNotEqual_fail {x : Ms} {s : List Bytes}
    (hx : Fails (frag env ke ctx x) s) : Fails (frag env ke ctx (.zeroNotEqual x)) s := by
  intro alt ops
  simp [frag, hx _ _, bind, Except.bind]

theorem frag_dupIf_fail (h : EnvOk env ctx) {x : Ms} {s : List Bytes}
    (hx : Fails (frag env ke ctx x) ([1] :: s)) :
    Fails (frag env ke ctx (.dupIf x)) ([1] :: s) := by
  intro alt ops
  simp [frag, opc_eq h, cnd_eq h, execOpc, condPop, castToBool, hx _ _, pushElem_ok h, bind, Except.bind]

theorem frag_nonZero_fail (h : EnvOk env ctx) {x : Ms} {a : Bytes} {s : List Bytes}
    (ha : a ≠ []) (hn : NumOk a.length)
    (hx : Fails (frag env ke ctx x) (a :: s)) :
    Fails (frag env ke ctx (.nonZero x)) (a :: s) := by
  intro alt ops
  have hl : a.length ≠ 0 := by simpa using ha
  have hne : ((a.length : Nat) : Int) ≠ 0 := by omega
  simp [frag, opc_eq h, cnd_eq h, execOpc, condPop, castToBool, hx _ _, pushElem_ok h,
    hn.num4 env, boolBytes, hne, ha, bind, Except.bind]

/-! ### binary / ternary fragments -/

theorem frag_andV_fail_l {l r : Ms} {s : List Bytes}
    (hl : Fails (frag env ke ctx l) s) : Fails (frag env ke ctx (.andV l r)) s := by
  intro alt ops
  simp [frag, hl _ _, bind, Except.bind]

theorem frag_andV_fail_r {l r : Ms} {s s1 : List Bytes}
    (hl : Runs (frag env ke ctx l) s s1) (hr : Fails (frag env ke ctx r) s1) :
    Fails (frag env ke ctx (.andV l r)) s := by
  obtain ⟨g1, e1⟩ := hl.sk
  intro alt ops
  simp [frag, e1, hr _ _, bind, Except.bind]

theorem frag_andB_fail_l {l r : Ms} {s : List Bytes}
    (hl : Fails (frag env ke ctx l) s) : Fails (frag env ke ctx (.andB l r)) s := by
  intro alt ops
  simp [frag, hl _ _, bind, Except.bind]

theorem frag_andB_fail_r {l r : Ms} {s s1 : List Bytes}
    (hl : Runs (frag env ke ctx l) s s1) (hr : Fails (frag env ke ctx r) s1) :
    Fails (frag env ke ctx (.andB l r)) s := by
  obtain ⟨g1, e1⟩ := hl.sk
  intro alt ops
  simp [frag, e1, hr _ _, bind, Except.bind]

theorem frag_orB_fail_l {l r : Ms} {s : List Bytes}
    (hl : Fails (frag env ke ctx l) s) : Fails (frag env ke ctx (.orB l r)) s := by
  intro alt ops
  simp [frag, hl _ _, bind, Except.bind]

theorem frag_orB_fail_r {l r : Ms} {s s1 : List Bytes}
    (hl : Runs (frag env ke ctx l) s s1) (hr : Fails (frag env ke ctx r) s1) :
    Fails (frag env ke ctx (.orB l r)) s := by
  obtain ⟨g1, e1⟩ := hl.sk
  intro alt ops
  simp [frag, e1, hr _ _, bind, Except.bind]

theorem frag_andOr_fail_a {a b c : Ms} {s : List Bytes}
    (ha : Fails (frag env ke ctx a) s) : Fails (frag env ke ctx (.andOr a b c)) s := by
  intro alt ops
  simp [frag, ha _ _, bind, Except.bind]

theorem frag_andOr_fail_b (h : EnvOk env ctx) {a b c : Ms} {s s1 : List Bytes}
    (ha : Runs (frag env ke ctx a) s ([1] :: s1)) (hb : Fails (frag env ke ctx b) s1) :
    Fails (frag env ke ctx (.andOr a b c)) s := by
  obtain ⟨g1, e1⟩ := ha.sk
  intro alt ops
  simp [frag, e1, hb _ _, cnd_eq h, condPop, castToBool, countOp_ok h, skipCount_ok h, bind, Except.bind]

theorem frag_andOr_fail_c (h : EnvOk env ctx) {a b c : Ms} {s s1 : List Bytes}
    (ha : Runs (frag env ke ctx a) s ([] :: s1)) (hc : Fails (frag env ke ctx c) s1) :
    Fails (frag env ke ctx (.andOr a b c)) s := by
  obtain ⟨g1, e1⟩ := ha.sk
  intro alt ops
  simp [frag, e1, hc _ _, cnd_eq h, condPop, castToBool, countOp_ok h, skipCount_ok h, bind, Except.bind]

theorem frag_orD_fail_l {l r : Ms} {s : List Bytes}
    (hl : Fails (frag env ke ctx l) s) : Fails (frag env ke ctx (.orD l r)) s := by
  intro alt ops
  simp [frag, hl _ _, bind, Except.bind]

theorem frag_orD_fail_r (h : EnvOk env ctx) {l r : Ms} {s s1 : List Bytes}
    (hl : Runs (frag env ke ctx l) s ([] :: s1)) (hr : Fails (frag env ke ctx r) s1) :
    Fails (frag env ke ctx (.orD l r)) s := by
  obtain ⟨g1, e1⟩ := hl.sk
  intro alt ops
  simp [frag, e1, hr _ _, opc_eq h, execOpc, pushElem_ok h, cnd_eq h, condPop, castToBool,
    countOp_ok h, skipCount_ok h, bind, Except.bind]

theorem frag_orC_fail_l {l r : Ms} {s : List Bytes}
    (hl : Fails (frag env ke ctx l) s) : Fails (frag env ke ctx (.orC l r)) s := by
  intro alt ops
  simp [frag, hl _ _, bind, Except.bind]

theorem frag_orC_fail_r (h : EnvOk env ctx) {l r : Ms} {s s1 : List Bytes}
    (hl : Runs (frag env ke ctx l) s ([] :: s1)) (hr : Fails (frag env ke ctx r) s1) :
    Fails (frag env ke ctx (.orC l r)) s := by
  obtain ⟨g1, e1⟩ := hl.sk
  intro alt ops
  simp [frag, e1, hr _ _, cnd_eq h, condPop, castToBool, countOp_ok h, skipCount_ok h, bind, Except.bind]

theorem frag_orI_fail_l (h : EnvOk env ctx) {l r : Ms} {s : List Bytes}
    (hl : Fails (frag env ke ctx l) s) : Fails (frag env ke ctx (.orI l r)) ([1] :: s) := by
  intro alt ops
  simp [frag, hl _ _, cnd_eq h, condPop, castToBool, countOp_ok h, skipCount_ok h, bind, Except.bind]

theorem frag_orI_fail_r (h : EnvOk env ctx) {l r : Ms} {s : List Bytes}
    (hr : Fails (frag env ke ctx r) s) : Fails (frag env ke ctx (.orI l r)) ([] :: s) := by
  intro alt ops
  simp [frag, hr _ _, cnd_eq h, condPop, castToBool, countOp_ok h, skipCount_ok h, bind, Except.bind]

/-! ### `thresh` -/

theorem fragThresh_first_fail_x {x : Ms} {xs : MsList} {s : List Bytes}
    (hx : Fails (frag env ke ctx x) s) : Fails (fragThresh env ke ctx true (.cons x xs)) s := by
  intro alt ops
  simp [fragThresh, hx _ _, bind, Except.bind]

theorem fragThresh_first_fail_rest {x : Ms} {xs : MsList} {s s1 : List Bytes}
    (hx : Runs (frag env ke ctx x) s s1) (hxs : Fails (fragThresh env ke ctx false xs) s1) :
    Fails (fragThresh env ke ctx true (.cons x xs)) s := by
  obtain ⟨g1, e1⟩ := hx.sk
  intro alt ops
  simp [fragThresh, e1, hxs _ _, bind, Except.bind]

theorem fragThresh_add_fail_x {x : Ms} {xs : MsList} {s : List Bytes}
    (hx : Fails (frag env ke ctx x) s) : Fails (fragThresh env ke ctx false (.cons x xs)) s := by
  intro alt ops
  simp [fragThresh, hx _ _, bind, Except.bind]

theorem fragThresh_add_fail_rest (h : EnvOk env ctx) {x : Ms} {xs : MsList} {a b : Bytes} {m n : Int}
    {s s1 : List Bytes}
    (hx : Runs (frag env ke ctx x) s (a :: b :: s1))
    (ha : num4 env a = .ok m) (hb : num4 env b = .ok n)
    (hxs : Fails (fragThresh env ke ctx false xs) (numEncode (n + m) :: s1)) :
    Fails (fragThresh env ke ctx false (.cons x xs)) s := by
  obtain ⟨g1, e1⟩ := hx.sk
  intro alt ops
  simp [fragThresh, e1, hxs _ _, opc_eq h, execOpc, ha, hb, pushElem_ok h, bind, Except.bind]

theorem frag_thresh_fail {k : Nat} {xs : MsList} {s : List Bytes}
    (hxs : Fails (fragThresh env ke ctx true xs) s) :
    Fails (frag env ke ctx (.thresh k xs)) s := by
  intro alt ops
  simp [frag, hxs _ _, bind, Except.bind]

/-! ### Part 2: the tracked lists against an environment -/

/-- some lock in the lists of `t` is not met by the transaction -/
def Blocks (env : Env) (t : TSat) : Prop :=
  (∃ n ∈ t.A, checkLockTime env n = false) ∨ (∃ n ∈ t.R, checkSequence env n = false)

theorem not_blocks_lockFree (s : Sat) : ¬ Blocks env (lockFree s) := by
  simp [Blocks, lockFree]

/-- no list lock is unmet ⇒ the REPORTED locks are met (they are members of the lists) -/
theorem good_of_not_blocks {t : TSat} {w : List Ph} (hi : t.Inv) (hs : t.s.stack = .stack w)
    (hb : ¬ Blocks env t) : Good env t.s w := by
  refine ⟨hs, ?_, ?_⟩
  · intro n hn
    have h := hi.1
    simp only [hn, AbsInv] at h
    cases hc : checkLockTime env n with
    | true => rfl
    | false => exact absurd (Or.inl ⟨n, h.1, hc⟩) hb
  · intro n hn
    have h := hi.2
    simp only [hn, RelInv] at h
    cases hc : checkSequence env n with
    | true => rfl
    | false => exact absurd (Or.inr ⟨n, h.1, hc⟩) hb

theorem concat_stack {a b : Sat} {w : List Ph} (h : (a.concatenateRev b).stack = .stack w) :
    ∃ wa wb, a.stack = .stack wa ∧ b.stack = .stack wb ∧ w = wb ++ wa := by
  rw [concatenateRev_eq] at h
  split at h
  · simp [Sat.IMPOSSIBLE] at h
  · cases hr : mergeOpt Sat.relMax a.rel b.rel with
    | none => simp [hr, Sat.IMPOSSIBLE] at h
    | some rel =>
      cases ha : mergeOpt Sat.absMax a.abs b.abs with
      | none => simp [hr, ha, Sat.IMPOSSIBLE] at h
      | some abs =>
        simp only [hr, ha] at h
        obtain ⟨wb, wa, eb, ea, rfl⟩ := combine_stack h
        exact ⟨wa, wb, ea, eb, rfl⟩

/-- `concatenate_rev` with lists: the parts are stacks, `other`'s first, and an unmet lock of
the result is an unmet lock of one of the parts -/
theorem tconcat_split {a b : TSat} {w : List Ph}
    (h : (tConcatenateRev a b).s.stack = .stack w) :
    ∃ wa wb, a.s.stack = .stack wa ∧ b.s.stack = .stack wb ∧ w = wb ++ wa ∧
      (Blocks env (tConcatenateRev a b) → Blocks env a ∨ Blocks env b) := by
  rw [tConcatenateRev_s] at h
  obtain ⟨wa, wb, ha, hb, rfl⟩ := concat_stack h
  refine ⟨wa, wb, ha, hb, rfl, ?_⟩
  intro hbl
  unfold tConcatenateRev at hbl
  simp only at hbl
  split at hbl
  · simp [Blocks] at hbl
  · rcases hbl with ⟨n, hn, hc⟩ | ⟨n, hn, hc⟩
    · simp only [List.mem_append] at hn
      rcases hn with hn | hn
      · exact .inr (.inl ⟨n, hn, hc⟩)
      · exact .inl (.inl ⟨n, hn, hc⟩)
    · simp only [List.mem_append] at hn
      rcases hn with hn | hn
      · exact .inr (.inr ⟨n, hn, hc⟩)
      · exact .inl (.inr ⟨n, hn, hc⟩)

theorem tminimum_pick {a b : TSat} {w : List Ph} (h : (tMinimum a b).s.stack = .stack w)
    (hbl : Blocks env (tMinimum a b)) :
    (a.s.stack = .stack w ∧ Blocks env a) ∨ (b.s.stack = .stack w ∧ Blocks env b) := by
  unfold tMinimum Sat.minimum at h hbl
  simp only at h hbl
  by_cases h1 : a.s.stack = .impossible
  · simp only [h1, if_true] at h hbl; exact .inr ⟨h, hbl⟩
  · by_cases h2 : b.s.stack = .impossible
    · simp only [h1, h2, if_true, if_false] at h hbl; exact .inl ⟨h, hbl⟩
    · simp only [h1, h2, if_false] at h hbl
      cases hsa : a.s.hasSig <;> cases hsb : b.s.hasSig <;> simp only [hsa, hsb] at h hbl
      · simp [Sat.UNAVAILABLE] at h
      · exact .inl ⟨h, hbl⟩
      · exact .inr ⟨h, hbl⟩
      · by_cases hl : a.s.stack.lt b.s.stack = true
        · simp only [hl, if_true] at h hbl; exact .inl ⟨h, hbl⟩
        · simp only [hl] at h hbl; exact .inr ⟨h, hbl⟩

theorem tminimumMall_pick {a b : TSat} {w : List Ph} (h : (tMinimumMall a b).s.stack = .stack w)
    (hbl : Blocks env (tMinimumMall a b)) :
    (a.s.stack = .stack w ∧ Blocks env a) ∨ (b.s.stack = .stack w ∧ Blocks env b) := by
  unfold tMinimumMall Sat.minimumMall at h hbl
  simp only at h hbl
  by_cases h1 : a.s.stack = .impossible ∨ a.s.stack = .unavailable
  · simp only [h1, if_true] at h hbl; exact .inr ⟨h, hbl⟩
  · by_cases h2 : b.s.stack = .impossible ∨ b.s.stack = .unavailable
    · simp only [h1, h2, if_true, if_false] at h hbl; exact .inl ⟨h, hbl⟩
    · simp only [h1, h2, if_false] at h hbl
      by_cases hl : a.s.stack.lt b.s.stack = true
      · simp only [hl, if_true] at h hbl; exact .inl ⟨h, hbl⟩
      · simp only [hl] at h hbl; exact .inr ⟨h, hbl⟩

theorem tminFn_pick (c : SatCfg) {a b : TSat} {w : List Ph} (h : (tMinFn c a b).s.stack = .stack w)
    (hbl : Blocks env (tMinFn c a b)) :
    (a.s.stack = .stack w ∧ Blocks env a) ∨ (b.s.stack = .stack w ∧ Blocks env b) := by
  unfold tMinFn at h hbl
  cases hm : c.mall
  · simp only [hm] at h hbl; exact tminimum_pick h hbl
  · simp only [hm, if_true] at h hbl; exact tminimumMall_pick h hbl

theorem tpush_split {p : Ph} {t : TSat} {w : List Ph} (h : (tPush p t).s.stack = .stack w) :
    ∃ w0, t.s.stack = .stack w0 ∧ w = w0 ++ [p] ∧ (Blocks env (tPush p t) → Blocks env t) := by
  simp only [tPush] at h
  obtain ⟨w0, wb, e0, eb, rfl⟩ := combine_stack h
  simp only [Wit.stack.injEq] at eb
  subst eb
  exact ⟨w0, e0, rfl, fun hb => hb⟩

/-! ### Part 3: per-fragment failure lemmas -/

section cases
variable {σ : Ph → Bytes} {cfg : SatCfg}

/-- running `ms` on the realised witness `w` ends in the lock-time error (W: with any element
on top, as in `SatRuns`) -/
def SatFails (env : Env) (ke : KeyEnv) (ctx : Ctx) (σ : Ph → Bytes) (c : Corr) (ms : Ms)
    (w : List Ph) : Prop :=
  match c.base with
  | .W => ∀ t rest, Fails (frag env ke ctx ms) (t :: (stk σ w ++ rest))
  | _ => ∀ rest, Fails (frag env ke ctx ms) (stk σ w ++ rest)

theorem satFails_nonW {c : Corr} {ms : Ms} {w : List Ph} (hb : c.base ≠ .W) :
    SatFails env ke ctx σ c ms w ↔ ∀ rest, Fails (frag env ke ctx ms) (stk σ w ++ rest) := by
  unfold SatFails
  cases h : c.base <;> simp_all

theorem satFails_W {c : Corr} {ms : Ms} {w : List Ph} (hb : c.base = .W) :
    SatFails env ke ctx σ c ms w ↔
      ∀ t rest, Fails (frag env ke ctx ms) (t :: (stk σ w ++ rest)) := by
  unfold SatFails
  simp [hb]

/-- both halves: a (dis)satisfaction whose lists contain a lock the transaction does not meet
makes the fragment fail with the lock-time error -/
structure FSound (env : Env) (ke : KeyEnv) (ctx : Ctx) (σ : Ph → Bytes) (c : Corr) (ms : Ms)
    (tsd : TSatDissat) : Prop where
  sat : ∀ w, tsd.sat.s.stack = .stack w → Blocks env tsd.sat → SatFails env ke ctx σ c ms w
  dis : ∀ w, tsd.dissat.s.stack = .stack w → Blocks env tsd.dissat → SatFails env ke ctx σ c ms w

theorem fsound_lockFree (c : Corr) (ms : Ms) (a b : Sat) :
    FSound env ke ctx σ c ms ⟨lockFree a, lockFree b⟩ :=
  ⟨fun _ _ hb => absurd hb (not_blocks_lockFree _), fun _ _ hb => absurd hb (not_blocks_lockFree _)⟩

theorem good_sat (x : Ms) {w : List Ph} (hs : (tSatDissat cfg x).sat.s.stack = .stack w)
    (hb : ¬ Blocks env (tSatDissat cfg x).sat) : Good env (satDissat cfg x).sat w := by
  have := good_of_not_blocks (tSatDissat_inv cfg x).2 hs hb
  rwa [(tSatDissat_s cfg x).2] at this

theorem good_dis (x : Ms) {w : List Ph} (hs : (tSatDissat cfg x).dissat.s.stack = .stack w)
    (hb : ¬ Blocks env (tSatDissat cfg x).dissat) : Good env (satDissat cfg x).dissat w := by
  have := good_of_not_blocks (tSatDissat_inv cfg x).1 hs hb
  rwa [(tSatDissat_s cfg x).1] at this

theorem after_fcase (h : EnvOk env cfg.ctx) (n : Nat) (hwf : WF cfg.ctx (.after n)) :
    FSound env cfg.env cfg.ctx σ Corr.time (.after n) (tSatDissat cfg (.after n)) where
  dis := fun w _ hb => by simp only [tSatDissat] at hb; exact absurd hb (not_blocks_lockFree _)
  sat := fun w hs hb => by
    simp only [tSatDissat, satDissat] at hs hb
    simp only [WF] at hwf
    rw [satFails_nonW (by simp [Corr.time])]
    intro rest
    by_cases hc : cfg.assets.checkAfter n = true
    · simp only [hc, if_true] at hs hb
      have : w = [] := by simp at hs; first | exact hs | exact hs.symm
      subst this
      have hl : checkLockTime env n = false := by
        rcases hb with ⟨m, hm, hf⟩ | ⟨m, hm, _⟩
        · simp at hm; subst hm; exact hf
        · simp at hm
      exact frag_after_fail h (numOk_of_lt n hwf.2) hl _
    · simp only [hc] at hb
      rcases hb with ⟨m, hm, _⟩ | ⟨m, hm, _⟩ <;> simp at hm

theorem older_fcase (h : EnvOk env cfg.ctx) (n : Nat) (hwf : WF cfg.ctx (.older n)) :
    FSound env cfg.env cfg.ctx σ Corr.time (.older n) (tSatDissat cfg (.older n)) where
  dis := fun w _ hb => by simp only [tSatDissat] at hb; exact absurd hb (not_blocks_lockFree _)
  sat := fun w hs hb => by
    simp only [tSatDissat, satDissat] at hs hb
    simp only [WF] at hwf
    rw [satFails_nonW (by simp [Corr.time])]
    intro rest
    by_cases hc : cfg.assets.checkOlder (relCanon n) = true
    · simp only [hc, if_true] at hs hb
      have : w = [] := by simp at hs; first | exact hs | exact hs.symm
      subst this
      have hl : checkSequence env n = false := by
        rcases hb with ⟨m, hm, _⟩ | ⟨m, hm, hf⟩
        · simp at hm
        · simp at hm; subst hm; exact hf
      exact frag_older_fail h (numOk_of_lt n hwf.2) hwf.2 hl _
    · simp only [hc] at hb
      rcases hb with ⟨m, hm, _⟩ | ⟨m, hm, _⟩ <;> simp at hm

/-! wrappers -/

variable {x : Ms} {cx c : Corr}

theorem alt_fcase (h : EnvOk env cfg.ctx) (hc : Corr.castAlt cx = some c)
    (f : FSound env cfg.env cfg.ctx σ cx x (tSatDissat cfg x)) :
    FSound env cfg.env cfg.ctx σ c (.alt x) (tSatDissat cfg (.alt x)) := by
  have hb : cx.base = .B ∧ c.base = .W := by
    unfold Corr.castAlt at hc; split at hc <;> simp at hc; subst hc; simp [*]
  constructor
  · intro w hs hbl
    simp only [tSatDissat] at hs hbl
    have := (satFails_nonW (by simp [hb.1])).mp (f.sat w hs hbl)
    rw [satFails_W hb.2]
    intro t rest
    exact frag_alt_fail h (this rest)
  · intro w hs hbl
    simp only [tSatDissat] at hs hbl
    have := (satFails_nonW (by simp [hb.1])).mp (f.dis w hs hbl)
    rw [satFails_W hb.2]
    intro t rest
    exact frag_alt_fail h (this rest)

theorem swap_fcase (h : EnvOk env cfg.ctx) (hc : Corr.castSwap cx = some c)
    (f : FSound env cfg.env cfg.ctx σ cx x (tSatDissat cfg x))
    (sh : Shape σ cx (satDissat cfg x)) :
    FSound env cfg.env cfg.ctx σ c (.swap x) (tSatDissat cfg (.swap x)) := by
  have hb : cx.base = .B ∧ c.base = .W ∧ (cx.input = .one ∨ cx.input = .oneNonZero) := by
    unfold Corr.castSwap at hc; split at hc <;> try simp at hc
    split at hc <;> simp at hc <;> subst hc <;> simp [*]
  constructor
  · intro w hs hbl
    simp only [tSatDissat] at hs hbl
    have hlen := sh.one hb.2.2 w (.inl (by rw [← (tSatDissat_s cfg x).2]; exact hs))
    obtain ⟨p, rfl⟩ : ∃ p, w = [p] := by
      match w, hlen with
      | [p], _ => exact ⟨p, rfl⟩
    have := (satFails_nonW (by simp [hb.1])).mp (f.sat _ hs hbl)
    rw [satFails_W hb.2.1]
    intro t rest
    exact frag_swap_fail h (by simpa [stk] using this (t :: rest))
  · intro w hs hbl
    simp only [tSatDissat] at hs hbl
    have hlen := sh.one hb.2.2 w (.inr (by rw [← (tSatDissat_s cfg x).1]; exact hs))
    obtain ⟨p, rfl⟩ : ∃ p, w = [p] := by
      match w, hlen with
      | [p], _ => exact ⟨p, rfl⟩
    have := (satFails_nonW (by simp [hb.1])).mp (f.dis _ hs hbl)
    rw [satFails_W hb.2.1]
    intro t rest
    exact frag_swap_fail h (by simpa [stk] using this (t :: rest))

theorem check_fcase (hc : Corr.castCheck cx = some c)
    (f : FSound env cfg.env cfg.ctx σ cx x (tSatDissat cfg x)) :
    FSound env cfg.env cfg.ctx σ c (.check x) (tSatDissat cfg (.check x)) := by
  have hb : cx.base = .K ∧ c.base = .B := by
    unfold Corr.castCheck at hc; split at hc <;> simp at hc; subst hc; simp [*]
  constructor
  · intro w hs hbl
    simp only [tSatDissat] at hs hbl
    have := (satFails_nonW (by simp [hb.1])).mp (f.sat w hs hbl)
    rw [satFails_nonW (by simp [hb.2])]
    exact fun rest => frag_check_fail (this rest)
  · intro w hs hbl
    simp only [tSatDissat] at hs hbl
    have := (satFails_nonW (by simp [hb.1])).mp (f.dis w hs hbl)
    rw [satFails_nonW (by simp [hb.2])]
    exact fun rest => frag_check_fail (this rest)

theorem zeroNotEqual_fcase (hc : Corr.castZeroNotEqual cx = some c)
    (f : FSound env cfg.env cfg.ctx σ cx x (tSatDissat cfg x)) :
    FSound env cfg.env cfg.ctx σ c (.zeroNotEqual x) (tSatDissat cfg (.zeroNotEqual x)) := by
  have hb : cx.base = .B ∧ c.base = .B := by
    unfold Corr.castZeroNotEqual at hc; split at hc <;> simp at hc; subst hc; simp [*]
  constructor
  · intro w hs hbl
    simp only [tSatDissat] at hs hbl
    have := (satFails_nonW (by simp [hb.1])).mp (f.sat w hs hbl)
    rw [satFails_nonW (by simp [hb.2])]
    exact fun rest => frag_zeroNotEqual_fail (this rest)
  · intro w hs hbl
    simp only [tSatDissat] at hs hbl
    have := (satFails_nonW (by simp [hb.1])).mp (f.dis w hs hbl)
    rw [satFails_nonW (by simp [hb.2])]
    exact fun rest => frag_zeroNotEqual_fail (this rest)

theorem verify_fcase (hc : Corr.castVerify cx = some c)
    (f : FSound env cfg.env cfg.ctx σ cx x (tSatDissat cfg x)) :
    FSound env cfg.env cfg.ctx σ c (.verify x) (tSatDissat cfg (.verify x)) := by
  have hb : cx.base = .B ∧ c.base = .V := by
    unfold Corr.castVerify at hc; split at hc <;> simp at hc; subst hc; simp [*]
  constructor
  · intro w hs hbl
    simp only [tSatDissat] at hs hbl
    have := (satFails_nonW (by simp [hb.1])).mp (f.sat w hs hbl)
    rw [satFails_nonW (by simp [hb.2])]
    exact fun rest => frag_verify_fail (this rest)
  · intro w _ hbl
    simp only [tSatDissat] at hbl
    exact absurd hbl (not_blocks_lockFree _)

theorem dupIf_fcase (h : EnvOk env cfg.ctx) (hag : Agrees env cfg.env cfg.assets σ)
    (hc : Corr.castDupIf cx = some c)
    (f : FSound env cfg.env cfg.ctx σ cx x (tSatDissat cfg x))
    (sh : Shape σ cx (satDissat cfg x)) :
    FSound env cfg.env cfg.ctx σ c (.dupIf x) (tSatDissat cfg (.dupIf x)) := by
  have hb : cx.base = .V ∧ cx.input = .zero ∧ c.base = .B := by
    unfold Corr.castDupIf at hc; split at hc <;> try simp at hc
    split at hc <;> simp at hc <;> subst hc <;> simp [*]
  constructor
  · intro w hs hbl
    simp only [tSatDissat] at hs hbl
    obtain ⟨w0, hs0, rfl, hb0⟩ := tpush_split (env := env) hs
    have : w0 = [] := sh.zero hb.2.1 w0 (.inl (by rw [← (tSatDissat_s cfg x).2]; exact hs0))
    subst this
    have := (satFails_nonW (by simp [hb.1])).mp (f.sat _ hs0 (hb0 hbl))
    rw [satFails_nonW (by simp [hb.2.2])]
    intro rest
    have hr := this ([1] :: rest)
    have := frag_dupIf_fail h (by simpa [stk] using hr)
    simpa [stk, hag.pushOne] using this
  · intro w _ hbl
    simp only [tSatDissat] at hbl
    exact absurd hbl (not_blocks_lockFree _)

theorem nonZero_fcase (h : EnvOk env cfg.ctx) (hag : Agrees env cfg.env cfg.assets σ)
    (hc : Corr.castNonZero cx = some c)
    (f : FSound env cfg.env cfg.ctx σ cx x (tSatDissat cfg x))
    (sh : Shape σ cx (satDissat cfg x)) :
    FSound env cfg.env cfg.ctx σ c (.nonZero x) (tSatDissat cfg (.nonZero x)) := by
  have hb : cx.base = .B ∧ c.base = .B ∧ (cx.input = .oneNonZero ∨ cx.input = .anyNonZero) := by
    unfold Corr.castNonZero at hc; split at hc <;> try simp at hc
    rename_i hin
    split at hc <;> simp at hc; subst hc
    refine ⟨by assumption, rfl, ?_⟩
    cases hi : cx.input <;> simp_all
  constructor
  · intro w hs hbl
    simp only [tSatDissat] at hs hbl
    obtain ⟨w', p, rfl, hp⟩ := sh.nonzero hb.2.2 w (by rw [← (tSatDissat_s cfg x).2]; exact hs)
    have := (satFails_nonW (by simp [hb.1])).mp (f.sat _ hs hbl)
    rw [satFails_nonW (by simp [hb.2.1])]
    intro rest
    have hr' : Fails (frag env cfg.env cfg.ctx x) (σ p :: (stk σ w' ++ rest)) := by
      simpa [stk] using this rest
    have := frag_nonZero_fail h hp (numOk_of_lt _ (hag.sizeOk p)) hr'
    simpa [stk] using this
  · intro w _ hbl
    simp only [tSatDissat] at hbl
    exact absurd hbl (not_blocks_lockFree _)

/-! binary and ternary fragments -/

variable {l r z : Ms} {cl cr cz : Corr}

theorem andV_fcase (hc : Corr.andV cl cr = some c)
    (ihl : Sound env cfg.env cfg.ctx σ cl l (satDissat cfg l))
    (fl : FSound env cfg.env cfg.ctx σ cl l (tSatDissat cfg l))
    (fr : FSound env cfg.env cfg.ctx σ cr r (tSatDissat cfg r)) :
    FSound env cfg.env cfg.ctx σ c (.andV l r) (tSatDissat cfg (.andV l r)) := by
  have hb : cl.base = .V ∧ cr.base ≠ .W ∧ c.base = cr.base := by
    unfold Corr.andV at hc; split at hc <;> simp at hc <;> subst hc <;> simp [*]
  have hcW : c.base ≠ .W := hb.2.2 ▸ hb.2.1
  have hlW : cl.base ≠ .W := by simp [hb.1]
  constructor
  · intro w hs hbl
    simp only [tSatDissat] at hs hbl
    obtain ⟨wl, wr, hl, hr, rfl, hsp⟩ := tconcat_split (env := env) hs
    rw [satFails_nonW hcW]
    intro rest
    rw [stk_append, List.append_assoc]
    by_cases hL : Blocks env (tSatDissat cfg l).sat
    · exact frag_andV_fail_l ((satFails_nonW hlW).mp (fl.sat _ hl hL) _)
    · have hR := (hsp hbl).resolve_left hL
      have Hl := (satRuns_V hb.1).mp (ihl.sat _ (good_sat l hl hL))
      exact frag_andV_fail_r (Hl _) ((satFails_nonW hb.2.1).mp (fr.sat _ hr hR) rest)
  · intro w hs hbl
    simp only [tSatDissat] at hs hbl
    obtain ⟨wl, wr, hl, hr, rfl, hsp⟩ := tconcat_split (env := env) hs
    rw [satFails_nonW hcW]
    intro rest
    rw [stk_append, List.append_assoc]
    by_cases hL : Blocks env (tSatDissat cfg l).sat
    · exact frag_andV_fail_l ((satFails_nonW hlW).mp (fl.sat _ hl hL) _)
    · have hR := (hsp hbl).resolve_left hL
      have Hl := (satRuns_V hb.1).mp (ihl.sat _ (good_sat l hl hL))
      exact frag_andV_fail_r (Hl _) ((satFails_nonW hb.2.1).mp (fr.dis _ hr hR) rest)

/-- common shape of `and_b` / `or_b`: left is B, right is W, the left result sits on top of
the right witness -/
theorem bw_fail {ms : Ms}
    (failL : ∀ s, Fails (frag env cfg.env cfg.ctx l) s → Fails (frag env cfg.env cfg.ctx ms) s)
    (failR : ∀ s s1, Runs (frag env cfg.env cfg.ctx l) s s1 → Fails (frag env cfg.env cfg.ctx r) s1 →
      Fails (frag env cfg.env cfg.ctx ms) s)
    (hlB : cl.base = .B) (hrW : cr.base = .W)
    {tl tr : TSat} {wl wr : List Ph}
    (hl : tl.s.stack = .stack wl) (hr : tr.s.stack = .stack wr)
    (hor : Blocks env tl ∨ Blocks env tr)
    (FL : Blocks env tl → SatFails env cfg.env cfg.ctx σ cl l wl)
    (FR : Blocks env tr → SatFails env cfg.env cfg.ctx σ cr r wr)
    (RL : ¬ Blocks env tl → ∀ rest, ∃ v, Runs (frag env cfg.env cfg.ctx l) (stk σ wl ++ rest) (v :: rest))
    (rest : List Bytes) :
    Fails (frag env cfg.env cfg.ctx ms) (stk σ (wr ++ wl) ++ rest) := by
  rw [stk_append, List.append_assoc]
  by_cases hL : Blocks env tl
  · exact failL _ ((satFails_nonW (by simp [hlB])).mp (FL hL) _)
  · have hR := hor.resolve_left hL
    obtain ⟨v, hv⟩ := RL hL (stk σ wr ++ rest)
    exact failR _ _ hv ((satFails_W hrW).mp (FR hR) v rest)

theorem andB_fcase (hc : Corr.andB cl cr = some c)
    (ihl : Sound env cfg.env cfg.ctx σ cl l (satDissat cfg l))
    (fl : FSound env cfg.env cfg.ctx σ cl l (tSatDissat cfg l))
    (fr : FSound env cfg.env cfg.ctx σ cr r (tSatDissat cfg r)) :
    FSound env cfg.env cfg.ctx σ c (.andB l r) (tSatDissat cfg (.andB l r)) := by
  have hb : cl.base = .B ∧ cr.base = .W ∧ c.base = .B := by
    unfold Corr.andB at hc; split at hc <;> simp at hc; subst hc; simp [*]
  constructor
  · intro w hs hbl
    simp only [tSatDissat] at hs hbl
    obtain ⟨wl, wr, hl, hr, rfl, hsp⟩ := tconcat_split (env := env) hs
    rw [satFails_nonW (by simp [hb.2.2])]
    exact bw_fail (fun _ => frag_andB_fail_l) (fun _ _ => frag_andB_fail_r) hb.1 hb.2.1 hl hr (hsp hbl)
      (fl.sat _ hl) (fr.sat _ hr)
      (fun hL rest => by
        obtain ⟨v, hv, _⟩ := (satRuns_B hb.1).mp (ihl.sat _ (good_sat l hl hL)) rest
        exact ⟨v, hv⟩)
  · intro w hs hbl
    simp only [tSatDissat] at hs hbl
    obtain ⟨wl, wr, hl, hr, rfl, hsp⟩ := tconcat_split (env := env) hs
    rw [satFails_nonW (by simp [hb.2.2])]
    exact bw_fail (fun _ => frag_andB_fail_l) (fun _ _ => frag_andB_fail_r) hb.1 hb.2.1 hl hr (hsp hbl)
      (fl.dis _ hl) (fr.dis _ hr)
      (fun hL rest => ⟨[], (disRuns_B hb.1).mp (ihl.dis _ (good_dis l hl hL)) rest⟩)

theorem orB_fcase (hc : Corr.orB cl cr = some c)
    (ihl : Sound env cfg.env cfg.ctx σ cl l (satDissat cfg l))
    (fl : FSound env cfg.env cfg.ctx σ cl l (tSatDissat cfg l))
    (fr : FSound env cfg.env cfg.ctx σ cr r (tSatDissat cfg r)) :
    FSound env cfg.env cfg.ctx σ c (.orB l r) (tSatDissat cfg (.orB l r)) := by
  have hb : cl.base = .B ∧ cr.base = .W ∧ c.base = .B := by
    unfold Corr.orB at hc
    split at hc <;> try (simp at hc; done)
    split at hc <;> try (simp at hc; done)
    split at hc <;> simp at hc; subst hc; simp [*]
  have RLs : ¬ Blocks env (tSatDissat cfg l).sat → ∀ wl, (tSatDissat cfg l).sat.s.stack = .stack wl →
      ∀ rest, ∃ v, Runs (frag env cfg.env cfg.ctx l) (stk σ wl ++ rest) (v :: rest) := by
    intro hL wl hl rest
    obtain ⟨v, hv, _⟩ := (satRuns_B hb.1).mp (ihl.sat _ (good_sat l hl hL)) rest
    exact ⟨v, hv⟩
  have RLd : ¬ Blocks env (tSatDissat cfg l).dissat → ∀ wl, (tSatDissat cfg l).dissat.s.stack = .stack wl →
      ∀ rest, ∃ v, Runs (frag env cfg.env cfg.ctx l) (stk σ wl ++ rest) (v :: rest) :=
    fun hL wl hl rest => ⟨[], (disRuns_B hb.1).mp (ihl.dis _ (good_dis l hl hL)) rest⟩
  constructor
  · intro w hs hbl
    simp only [tSatDissat] at hs hbl
    rw [satFails_nonW (by simp [hb.2.2])]
    rcases tminFn_pick cfg hs hbl with ⟨hs, hbl⟩ | ⟨hs, hbl⟩
    · obtain ⟨wl, wr, hl, hr, rfl, hsp⟩ := tconcat_split (env := env) hs
      exact bw_fail (fun _ => frag_orB_fail_l) (fun _ _ => frag_orB_fail_r) hb.1 hb.2.1 hl hr (hsp hbl)
        (fl.dis _ hl) (fr.sat _ hr) (fun hL => RLd hL _ hl)
    · obtain ⟨wl, wr, hl, hr, rfl, hsp⟩ := tconcat_split (env := env) hs
      exact bw_fail (fun _ => frag_orB_fail_l) (fun _ _ => frag_orB_fail_r) hb.1 hb.2.1 hl hr (hsp hbl)
        (fl.sat _ hl) (fr.dis _ hr) (fun hL => RLs hL _ hl)
  · intro w hs hbl
    simp only [tSatDissat] at hs hbl
    obtain ⟨wl, wr, hl, hr, rfl, hsp⟩ := tconcat_split (env := env) hs
    rw [satFails_nonW (by simp [hb.2.2])]
    exact bw_fail (fun _ => frag_orB_fail_l) (fun _ _ => frag_orB_fail_r) hb.1 hb.2.1 hl hr (hsp hbl)
      (fl.dis _ hl) (fr.dis _ hr) (fun hL => RLd hL _ hl)

/-- the "left dissatisfied, then right" path shared by `or_d`, `or_c`, `andor` -/
theorem disl_then {ms : Ms} {cy : Corr} {y : Ms}
    (failL : ∀ s, Fails (frag env cfg.env cfg.ctx l) s → Fails (frag env cfg.env cfg.ctx ms) s)
    (failY : ∀ s s1, Runs (frag env cfg.env cfg.ctx l) s ([] :: s1) →
      Fails (frag env cfg.env cfg.ctx y) s1 → Fails (frag env cfg.env cfg.ctx ms) s)
    (hlB : cl.base = .B) (hyW : cy.base ≠ .W)
    (ihl : Sound env cfg.env cfg.ctx σ cl l (satDissat cfg l))
    (fl : FSound env cfg.env cfg.ctx σ cl l (tSatDissat cfg l))
    {ty : TSat} {wl wy : List Ph}
    (hl : (tSatDissat cfg l).dissat.s.stack = .stack wl)
    (hor : Blocks env (tSatDissat cfg l).dissat ∨ Blocks env ty)
    (FY : Blocks env ty → SatFails env cfg.env cfg.ctx σ cy y wy)
    (rest : List Bytes) :
    Fails (frag env cfg.env cfg.ctx ms) (stk σ (wy ++ wl) ++ rest) := by
  rw [stk_append, List.append_assoc]
  by_cases hL : Blocks env (tSatDissat cfg l).dissat
  · exact failL _ ((satFails_nonW (by simp [hlB])).mp (fl.dis _ hl hL) _)
  · have hY := hor.resolve_left hL
    have Hl := (disRuns_B hlB).mp (ihl.dis _ (good_dis l hl hL))
    exact failY _ _ (Hl _) ((satFails_nonW hyW).mp (FY hY) rest)

theorem orD_fcase (h : EnvOk env cfg.ctx) (hc : Corr.orD cl cr = some c)
    (ihl : Sound env cfg.env cfg.ctx σ cl l (satDissat cfg l))
    (fl : FSound env cfg.env cfg.ctx σ cl l (tSatDissat cfg l))
    (fr : FSound env cfg.env cfg.ctx σ cr r (tSatDissat cfg r)) :
    FSound env cfg.env cfg.ctx σ c (.orD l r) (tSatDissat cfg (.orD l r)) := by
  have hb : cl.base = .B ∧ cr.base = .B ∧ c.base = .B := by
    unfold Corr.orD at hc
    split at hc <;> try (simp at hc; done)
    split at hc <;> try (simp at hc; done)
    split at hc <;> simp at hc <;> subst hc <;> simp_all
  obtain ⟨hlB, hrB, hcB⟩ := hb
  constructor
  · intro w hs hbl
    simp only [tSatDissat] at hs hbl
    rw [satFails_nonW (by simp [hcB])]
    intro rest
    rcases tminFn_pick cfg hs hbl with ⟨hs, hbl⟩ | ⟨hs, hbl⟩
    · exact frag_orD_fail_l ((satFails_nonW (by simp [hlB])).mp (fl.sat _ hs hbl) rest)
    · obtain ⟨wl, wr, hl, hr, rfl, hsp⟩ := tconcat_split (env := env) hs
      exact disl_then (fun _ => frag_orD_fail_l) (fun _ _ => frag_orD_fail_r h) hlB (by simp [hrB])
        ihl fl hl (hsp hbl) (fr.sat _ hr) rest
  · intro w hs hbl
    simp only [tSatDissat] at hs hbl
    rw [satFails_nonW (by simp [hcB])]
    intro rest
    obtain ⟨wl, wr, hl, hr, rfl, hsp⟩ := tconcat_split (env := env) hs
    exact disl_then (fun _ => frag_orD_fail_l) (fun _ _ => frag_orD_fail_r h) hlB (by simp [hrB])
      ihl fl hl (hsp hbl) (fr.dis _ hr) rest

theorem orC_fcase (h : EnvOk env cfg.ctx) (hc : Corr.orC cl cr = some c)
    (ihl : Sound env cfg.env cfg.ctx σ cl l (satDissat cfg l))
    (fl : FSound env cfg.env cfg.ctx σ cl l (tSatDissat cfg l))
    (fr : FSound env cfg.env cfg.ctx σ cr r (tSatDissat cfg r)) :
    FSound env cfg.env cfg.ctx σ c (.orC l r) (tSatDissat cfg (.orC l r)) := by
  have hb : cl.base = .B ∧ cr.base = .V ∧ c.base = .V := by
    unfold Corr.orC at hc
    split at hc <;> try (simp at hc; done)
    split at hc <;> try (simp at hc; done)
    split at hc <;> simp at hc <;> subst hc <;> simp_all
  obtain ⟨hlB, hrV, hcV⟩ := hb
  constructor
  · intro w hs hbl
    simp only [tSatDissat] at hs hbl
    rw [satFails_nonW (by simp [hcV])]
    intro rest
    rcases tminFn_pick cfg hs hbl with ⟨hs, hbl⟩ | ⟨hs, hbl⟩
    · exact frag_orC_fail_l ((satFails_nonW (by simp [hlB])).mp (fl.sat _ hs hbl) rest)
    · obtain ⟨wl, wr, hl, hr, rfl, hsp⟩ := tconcat_split (env := env) hs
      exact disl_then (fun _ => frag_orC_fail_l) (fun _ _ => frag_orC_fail_r h) hlB (by simp [hrV])
        ihl fl hl (hsp hbl) (fr.sat _ hr) rest
  · intro w _ hbl
    simp only [tSatDissat] at hbl
    exact absurd hbl (not_blocks_lockFree _)

theorem orI_fcase (h : EnvOk env cfg.ctx) (hag : Agrees env cfg.env cfg.assets σ)
    (hc : Corr.orI cl cr = some c)
    (fl : FSound env cfg.env cfg.ctx σ cl l (tSatDissat cfg l))
    (fr : FSound env cfg.env cfg.ctx σ cr r (tSatDissat cfg r)) :
    FSound env cfg.env cfg.ctx σ c (.orI l r) (tSatDissat cfg (.orI l r)) := by
  have hb : cl.base ≠ .W ∧ cr.base = cl.base ∧ c.base = cl.base := by
    unfold Corr.orI at hc
    split at hc <;> simp at hc <;> subst hc <;> simp_all
  obtain ⟨hlW, hrl, hcl⟩ := hb
  have hrW : cr.base ≠ .W := hrl ▸ hlW
  have hcW : c.base ≠ .W := hcl ▸ hlW
  have L : ∀ (t : TSat) (w : List Ph), (tPush .pushOne t).s.stack = .stack w →
      Blocks env (tPush .pushOne t) →
      (∀ w0, t.s.stack = .stack w0 → Blocks env t → SatFails env cfg.env cfg.ctx σ cl l w0) →
      ∀ rest, Fails (frag env cfg.env cfg.ctx (.orI l r)) (stk σ w ++ rest) := by
    intro t w hs hbl F rest
    obtain ⟨w0, hs0, rfl, hb0⟩ := tpush_split (env := env) hs
    have := frag_orI_fail_l (r := r) h ((satFails_nonW hlW).mp (F _ hs0 (hb0 hbl)) rest)
    simpa [stk, hag.pushOne] using this
  have R : ∀ (t : TSat) (w : List Ph), (tPush .pushZero t).s.stack = .stack w →
      Blocks env (tPush .pushZero t) →
      (∀ w0, t.s.stack = .stack w0 → Blocks env t → SatFails env cfg.env cfg.ctx σ cr r w0) →
      ∀ rest, Fails (frag env cfg.env cfg.ctx (.orI l r)) (stk σ w ++ rest) := by
    intro t w hs hbl F rest
    obtain ⟨w0, hs0, rfl, hb0⟩ := tpush_split (env := env) hs
    have := frag_orI_fail_r (l := l) h ((satFails_nonW hrW).mp (F _ hs0 (hb0 hbl)) rest)
    simpa [stk, hag.pushZero] using this
  constructor
  · intro w hs hbl
    simp only [tSatDissat] at hs hbl
    rw [satFails_nonW hcW]
    rcases tminFn_pick cfg hs hbl with ⟨hs, hbl⟩ | ⟨hs, hbl⟩
    · exact L _ _ hs hbl fl.sat
    · exact R _ _ hs hbl fr.sat
  · intro w hs hbl
    simp only [tSatDissat] at hs hbl
    rw [satFails_nonW hcW]
    rcases tminFn_pick cfg hs hbl with ⟨hs, hbl⟩ | ⟨hs, hbl⟩
    · exact L _ _ hs hbl fl.dis
    · exact R _ _ hs hbl fr.dis

theorem andOr_fcase (h : EnvOk env cfg.ctx) (hc : Corr.andOr cl cr cz = some c)
    (ihl : Sound env cfg.env cfg.ctx σ cl l (satDissat cfg l))
    (fl : FSound env cfg.env cfg.ctx σ cl l (tSatDissat cfg l))
    (fr : FSound env cfg.env cfg.ctx σ cr r (tSatDissat cfg r))
    (fz : FSound env cfg.env cfg.ctx σ cz z (tSatDissat cfg z)) :
    FSound env cfg.env cfg.ctx σ c (.andOr l r z) (tSatDissat cfg (.andOr l r z)) := by
  have hb : cl.base = .B ∧ cl.unit = true ∧ cr.base ≠ .W ∧ cz.base = cr.base ∧ c.base = cr.base := by
    unfold Corr.andOr at hc
    split at hc <;> try (simp at hc; done)
    split at hc <;> try (simp at hc; done)
    split at hc <;> simp at hc <;> subst hc <;> simp_all
  obtain ⟨hlB, hlu, hrW, hzr, hcr⟩ := hb
  have hcW : c.base ≠ .W := hcr ▸ hrW
  have hzW : cz.base ≠ .W := hzr ▸ hrW
  constructor
  · intro w hs hbl
    simp only [tSatDissat] at hs hbl
    rw [satFails_nonW hcW]
    intro rest
    rcases tminFn_pick cfg hs hbl with ⟨hs, hbl⟩ | ⟨hs, hbl⟩
    · obtain ⟨wl, wr, hl, hr, rfl, hsp⟩ := tconcat_split (env := env) hs
      rw [stk_append, List.append_assoc]
      by_cases hL : Blocks env (tSatDissat cfg l).sat
      · exact frag_andOr_fail_a ((satFails_nonW (by simp [hlB])).mp (fl.sat _ hl hL) _)
      · have hR := (hsp hbl).resolve_left hL
        obtain ⟨vl, hrl, _, hu⟩ := (satRuns_B hlB).mp (ihl.sat _ (good_sat l hl hL)) (stk σ wr ++ rest)
        have := hu hlu; subst this
        exact frag_andOr_fail_b h hrl ((satFails_nonW hrW).mp (fr.sat _ hr hR) rest)
    · obtain ⟨wl, wz, hl, hz, rfl, hsp⟩ := tconcat_split (env := env) hs
      exact disl_then (fun _ => frag_andOr_fail_a) (fun _ _ => frag_andOr_fail_c h) hlB hzW
        ihl fl hl (hsp hbl) (fz.sat _ hz) rest
  · intro w hs hbl
    simp only [tSatDissat] at hs hbl
    rw [satFails_nonW hcW]
    intro rest
    obtain ⟨wl, wz, hl, hz, rfl, hsp⟩ := tconcat_split (env := env) hs
    exact disl_then (fun _ => frag_andOr_fail_a) (fun _ _ => frag_andOr_fail_c h) hlB hzW
      ihl fl hl (hsp hbl) (fz.dis _ hz) rest

end cases

/-! ### Part 3c: `thresh` -/

section thresh
variable {σ : Ph → Bytes} {cfg : SatCfg}

/-- `ret[i]` with lists: satisfaction if chosen, else dissatisfaction -/
def tpick (ch : List Bool) (sds : List TSatDissat) : List TSat :=
  List.zipWith (fun b sd => if b then sd.sat else sd.dissat) ch sds

theorem tpick_range (sds : List TSatDissat) (f : Nat → Bool) (n : Nat) (hn : n = sds.length) :
    (List.range n).map
        (fun i => if f i then (sds.map (·.sat))[i]! else (sds.map (·.dissat))[i]!) =
      tpick ((List.range n).map f) sds := by
  subst hn
  apply List.ext_getElem
  · simp [tpick]
  · intro i h1 h2
    have hi : i < sds.length := by simpa using h1
    simp [tpick, hi]

theorem tpick_false (sds : List TSatDissat) :
    sds.map (·.dissat) = tpick (List.replicate sds.length false) sds := by
  induction sds with
  | nil => rfl
  | cons x xs ih => simp [tpick, List.replicate_succ] at ih ⊢; exact ih

theorem tpick_true (sds : List TSatDissat) :
    sds.map (·.sat) = tpick (List.replicate sds.length true) sds := by
  induction sds with
  | nil => rfl
  | cons x xs ih => simp [tpick, List.replicate_succ] at ih ⊢; exact ih

theorem tSatDissats_length (cfg : SatCfg) : (xs : MsList) → (tSatDissats cfg xs).length = xs.length
  | .nil => rfl
  | .cons _ xs => by simp [tSatDissats, MsList.length, tSatDissats_length cfg xs]

/-- the fold of `thresh` with lists: every part is a stack, last child first, and an unmet lock
of the fold is an unmet lock of a part -/
theorem tfoldl_split (l : List TSat) : ∀ (acc : TSat) (w : List Ph),
    (l.foldl tConcatenateRev acc).s.stack = .stack w →
    ∃ wacc ws, acc.s.stack = .stack wacc ∧ All2 (fun t w => t.s.stack = .stack w) l ws ∧
      w = ws.reverse.flatten ++ wacc ∧
      (Blocks env (l.foldl tConcatenateRev acc) → Blocks env acc ∨ ∃ t ∈ l, Blocks env t) := by
  induction l with
  | nil => intro acc w h; exact ⟨w, [], h, .nil, by simp, fun hb => .inl hb⟩
  | cons x xs ih =>
    intro acc w h
    rw [List.foldl_cons] at h
    obtain ⟨w1, ws, h1, hxs, rfl, hb1⟩ := ih _ _ h
    obtain ⟨wacc, wx, hacc, hx, rfl, hb2⟩ := tconcat_split (env := env) h1
    refine ⟨wacc, wx :: ws, hacc, .cons hx hxs, by simp, ?_⟩
    intro hb
    rw [List.foldl_cons] at hb
    rcases hb1 hb with hb | ⟨t, ht, hb⟩
    · rcases hb2 hb with hb | hb
      · exact .inl hb
      · exact .inr ⟨x, by simp, hb⟩
    · exact .inr ⟨t, by simp [ht], hb⟩

theorem tfoldConcat_split {l : List TSat} {w : List Ph} (h : (tFoldConcat l).s.stack = .stack w) :
    ∃ ws, All2 (fun t w => t.s.stack = .stack w) l ws ∧ w = ws.reverse.flatten ∧
      (Blocks env (tFoldConcat l) → ∃ t ∈ l, Blocks env t) := by
  obtain ⟨wacc, ws, hacc, hl, rfl, hb⟩ := tfoldl_split (env := env) l _ _ h
  have : wacc = [] := by
    simp [Sat.empty] at hacc
    first | exact hacc | exact hacc.symm
  subst this
  refine ⟨ws, hl, by simp, fun hbl => ?_⟩
  rcases hb hbl with hb | hb
  · simp [Blocks] at hb
  · exact hb

/-- every child is `FSound` at its type -/
def FSoundList (env : Env) (σ : Ph → Bytes) (cfg : SatCfg) : MsList → List Corr → Prop
  | .nil, [] => True
  | .cons x xs, c :: cs =>
    FSound env cfg.env cfg.ctx σ c x (tSatDissat cfg x) ∧ FSoundList env σ cfg xs cs
  | _, _ => False

theorem thresh_tail_fail (h : EnvOk env cfg.ctx) : (xs : MsList) → (cs : List Corr) →
    (ch : List Bool) → (ws : List (List Ph)) → (acc : Nat) → (rest : List Bytes) →
    SoundList env σ cfg xs cs → FSoundList env σ cfg xs cs →
    (∀ c ∈ cs, c.base = .W ∧ c.unit = true) → ch.length = xs.length →
    All2 (fun t w => t.s.stack = .stack w) (tpick ch (tSatDissats cfg xs)) ws →
    (∃ t ∈ tpick ch (tSatDissats cfg xs), Blocks env t) →
    (∀ j, j ≤ acc + xs.length → NumOk j) →
    Fails (fragThresh env cfg.env cfg.ctx false xs)
      (numEncode (acc : Int) :: (stk σ ws.reverse.flatten ++ rest))
  | .nil, cs, ch, ws, acc, rest, _, _, _, hch, _, hex, _ => by
    have : ch = [] := by simpa [MsList.length] using hch
    subst this
    simp [tpick, tSatDissats] at hex
  | .cons x xs, [], _, _, _, _, hs, _, _, _, _, _, _ => by simp [SoundList] at hs
  | .cons x xs, c :: cs, [], _, _, _, _, _, _, hch, _, _, _ => by simp [MsList.length] at hch
  | .cons x xs, c :: cs, b :: ch, ws, acc, rest, hs, hf, hcs, hch, hws, hex, hnum => by
    obtain ⟨hx, hxs⟩ := hs
    obtain ⟨fx, fxs⟩ := hf
    have hc := hcs c (by simp)
    simp only [tSatDissats, tpick, List.zipWith_cons_cons] at hws hex
    cases hws with
    | @cons _ w0 _ ws' hg hws' =>
    have hacc := (hnum acc (by omega)).num4 env
    have ih := fun acc' hex' hn' => thresh_tail_fail h xs cs ch ws' acc' rest hxs fxs
      (fun c' hc' => hcs c' (by simp [hc'])) (by simpa [MsList.length] using hch) hws' hex' hn'
    rw [stk_flatten_cons, List.append_assoc]
    cases b with
    | true =>
      simp only [if_true] at hg hex
      by_cases hB : Blocks env (tSatDissat cfg x).sat
      · exact fragThresh_add_fail_x ((satFails_W hc.1).mp (fx.sat _ hg hB) _ _)
      · have hex' : ∃ t ∈ tpick ch (tSatDissats cfg xs), Blocks env t := by
          obtain ⟨t, ht, hb⟩ := hex
          rcases List.mem_cons.mp ht with rfl | ht
          · exact absurd hb hB
          · exact ⟨t, ht, hb⟩
        obtain ⟨v, hv, hu, hr⟩ := (satRuns_W hc.1).mp (hx.sat _ (good_sat x hg hB))
          (numEncode (acc : Int)) (stk σ ws'.reverse.flatten ++ rest)
        have := hu hc.2; subst this
        have ih' := ih (acc + 1) hex' (fun j hj => hnum j (by simp [MsList.length] at hj ⊢; omega))
        rcases hr with hr | hr
        · refine fragThresh_add_fail_rest h hr hacc (num4_one env) ?_
          have e : (1 : Int) + (acc : Int) = ((acc + 1 : Nat) : Int) := by omega
          rw [e]; exact ih'
        · refine fragThresh_add_fail_rest h hr (num4_one env) hacc ?_
          have e : (acc : Int) + 1 = ((acc + 1 : Nat) : Int) := by omega
          rw [e]; exact ih'
    | false =>
      simp only [Bool.false_eq_true, if_false] at hg hex
      by_cases hB : Blocks env (tSatDissat cfg x).dissat
      · exact fragThresh_add_fail_x ((satFails_W hc.1).mp (fx.dis _ hg hB) _ _)
      · have hex' : ∃ t ∈ tpick ch (tSatDissats cfg xs), Blocks env t := by
          obtain ⟨t, ht, hb⟩ := hex
          rcases List.mem_cons.mp ht with rfl | ht
          · exact absurd hb hB
          · exact ⟨t, ht, hb⟩
        have hr := (disRuns_W hc.1).mp (hx.dis _ (good_dis x hg hB)) (numEncode (acc : Int))
          (stk σ ws'.reverse.flatten ++ rest)
        have ih' := ih acc hex' (fun j hj => hnum j (by simp [MsList.length] at hj ⊢; omega))
        rcases hr with hr | hr
        · refine fragThresh_add_fail_rest h hr hacc (num4_nil env) ?_
          have e : (0 : Int) + (acc : Int) = (acc : Int) := by omega
          rw [e]; exact ih'
        · refine fragThresh_add_fail_rest h hr (num4_nil env) hacc ?_
          have e : (acc : Int) + 0 = (acc : Int) := by omega
          rw [e]; exact ih'

theorem thresh_run_fail (h : EnvOk env cfg.ctx) (x : Ms) (xs : MsList) (c : Corr) (cs : List Corr)
    (ch : List Bool) (ws : List (List Ph)) (rest : List Bytes)
    (hs : SoundList env σ cfg (.cons x xs) (c :: cs))
    (hf : FSoundList env σ cfg (.cons x xs) (c :: cs)) (hc0 : c.base = .B ∧ c.unit = true)
    (hcs : ∀ c ∈ cs, c.base = .W ∧ c.unit = true)
    (hch : ch.length = (MsList.cons x xs).length)
    (hws : All2 (fun t w => t.s.stack = .stack w) (tpick ch (tSatDissats cfg (.cons x xs))) ws)
    (hex : ∃ t ∈ tpick ch (tSatDissats cfg (.cons x xs)), Blocks env t)
    (hnum : ∀ j, j ≤ (MsList.cons x xs).length → NumOk j) :
    Fails (fragThresh env cfg.env cfg.ctx true (.cons x xs)) (stk σ ws.reverse.flatten ++ rest) := by
  obtain ⟨hx, hxs⟩ := hs
  obtain ⟨fx, fxs⟩ := hf
  cases ch with
  | nil => simp [MsList.length] at hch
  | cons b ch =>
    simp only [tSatDissats, tpick, List.zipWith_cons_cons] at hws hex
    cases hws with
    | @cons _ w0 _ ws' hg hws' =>
    have tail := fun acc hex' hn' => thresh_tail_fail h xs cs ch ws' acc rest hxs fxs hcs
      (by simpa [MsList.length] using hch) hws' hex' hn'
    rw [stk_flatten_cons, List.append_assoc]
    cases b with
    | true =>
      simp only [if_true] at hg hex
      by_cases hB : Blocks env (tSatDissat cfg x).sat
      · exact fragThresh_first_fail_x ((satFails_nonW (by simp [hc0.1])).mp (fx.sat _ hg hB) _)
      · have hex' : ∃ t ∈ tpick ch (tSatDissats cfg xs), Blocks env t := by
          obtain ⟨t, ht, hb⟩ := hex
          rcases List.mem_cons.mp ht with rfl | ht
          · exact absurd hb hB
          · exact ⟨t, ht, hb⟩
        obtain ⟨v, hr, _, hu⟩ := (satRuns_B hc0.1).mp (hx.sat _ (good_sat x hg hB))
          (stk σ ws'.reverse.flatten ++ rest)
        have := hu hc0.2; subst this
        have t := tail 1 hex' (fun j hj => hnum j (by simp [MsList.length] at hj ⊢; omega))
        refine fragThresh_first_fail_rest hr ?_
        have e : numEncode ((1 : Nat) : Int) = [1] := by decide
        rw [e] at t; exact t
    | false =>
      simp only [Bool.false_eq_true, if_false] at hg hex
      by_cases hB : Blocks env (tSatDissat cfg x).dissat
      · exact fragThresh_first_fail_x ((satFails_nonW (by simp [hc0.1])).mp (fx.dis _ hg hB) _)
      · have hex' : ∃ t ∈ tpick ch (tSatDissats cfg xs), Blocks env t := by
          obtain ⟨t, ht, hb⟩ := hex
          rcases List.mem_cons.mp ht with rfl | ht
          · exact absurd hb hB
          · exact ⟨t, ht, hb⟩
        have hr := (disRuns_B hc0.1).mp (hx.dis _ (good_dis x hg hB)) (stk σ ws'.reverse.flatten ++ rest)
        have t := tail 0 hex' (fun j hj => hnum j (by simp [MsList.length] at hj ⊢; omega))
        refine fragThresh_first_fail_rest hr ?_
        have e : numEncode ((0 : Nat) : Int) = [] := by decide
        rw [e] at t; exact t

theorem tThreshSat_blocks {c : SatCfg} {k : Nat} {td ts : List TSat} {w : List Ph}
    (hst : (tThreshSat c k td ts).s.stack = .stack w) (hbl : Blocks env (tThreshSat c k td ts)) :
    (tThreshCand c k td ts).s.stack = .stack w ∧ Blocks env (tThreshCand c k td ts) := by
  unfold tThreshSat at hst hbl
  simp only at hst hbl
  by_cases heq : (tThreshCand c k td ts).s = threshSat c k (td.map (·.s)) (ts.map (·.s))
  · rw [if_pos heq] at hst hbl; exact ⟨hst, hbl⟩
  · rw [if_neg heq] at hbl; exact absurd hbl (not_blocks_lockFree _)

theorem thresh_fcase (h : EnvOk env cfg.ctx) (k : Nat) (xs : MsList) (cs : List Corr) (c : Corr)
    (hwf : WF cfg.ctx (.thresh k xs)) (hc : Corr.threshold k cs = some c)
    (hs : SoundList env σ cfg xs cs) (hf : FSoundList env σ cfg xs cs) :
    FSound env cfg.env cfg.ctx σ c (.thresh k xs) (tSatDissat cfg (.thresh k xs)) := by
  simp only [WF] at hwf
  obtain ⟨hk1, hkn, hlt, _⟩ := hwf
  have hnum : ∀ j, j ≤ xs.length → NumOk j := fun j hj => numOk_of_lt j (by omega)
  have hcB : c.base = .B := by
    unfold Corr.threshold at hc; split at hc <;> simp at hc; subst hc; rfl
  obtain ⟨n, hloop⟩ : ∃ n, Corr.threshLoop 0 0 cs = some n := by
    unfold Corr.threshold at hc; split at hc <;> simp at hc
    exact ⟨_, by assumption⟩
  obtain ⟨hunit, _, hbase⟩ := threshLoop_inv cs 0 0 n hloop
  have hlen := soundList_length xs cs hs
  cases xs with
  | nil => simp [MsList.length] at hkn; omega
  | cons x xs' =>
  cases cs with
  | nil => simp [MsList.length] at hlen
  | cons c0 cs' =>
  have hb := hbase rfl
  simp only at hb
  have hc0 : c0.base = .B ∧ c0.unit = true := ⟨hb.1, hunit c0 (by simp)⟩
  have hcs : ∀ c ∈ cs', c.base = .W ∧ c.unit = true :=
    fun c' hc' => ⟨hb.2 c' hc', hunit c' (by simp [hc'])⟩
  have tlen := tSatDissats_length cfg (.cons x xs')
  -- every fold over a choice fails when one of its parts is blocked
  have key : ∀ (ch : List Bool) (w : List Ph), ch.length = (MsList.cons x xs').length →
      (tFoldConcat (tpick ch (tSatDissats cfg (.cons x xs')))).s.stack = .stack w →
      Blocks env (tFoldConcat (tpick ch (tSatDissats cfg (.cons x xs')))) →
      ∀ rest, Fails (frag env cfg.env cfg.ctx (.thresh k (.cons x xs'))) (stk σ w ++ rest) := by
    intro ch w hch hst hbl rest
    obtain ⟨ws, hws, rfl, hex⟩ := tfoldConcat_split (env := env) hst
    exact frag_thresh_fail (thresh_run_fail h x xs' c0 cs' ch ws rest hs hf hc0 hcs hch hws (hex hbl) hnum)
  constructor
  · intro w hst hbl
    simp only [tSatDissat] at hst hbl
    rw [satFails_nonW (by simp [hcB])]
    obtain ⟨hst, hbl⟩ := tThreshSat_blocks hst hbl
    unfold tThreshCand at hst hbl
    simp only [List.map_map, List.length_map] at hst hbl
    by_cases hkn' : k = (tSatDissats cfg (MsList.cons x xs')).length
    · rw [if_pos hkn'] at hst hbl
      rw [tpick_true] at hst hbl
      exact key _ w (by simp [tlen]) hst hbl
    · rw [if_neg hkn'] at hst hbl
      have e := tpick_range (tSatDissats cfg (.cons x xs'))
        (fun i => (chosenIdx cfg.mall k ((tSatDissats cfg (.cons x xs')).map (fun t => t.dissat.s))
          ((tSatDissats cfg (.cons x xs')).map (fun t => t.sat.s))).contains i)
        (tSatDissats cfg (.cons x xs')).length rfl
      simp only [Function.comp_def] at hst hbl
      rw [e] at hst hbl
      exact key _ w (by simp [tlen]) hst hbl
  · intro w hst hbl
    simp only [tSatDissat] at hst hbl
    rw [satFails_nonW (by simp [hcB])]
    rw [tpick_false] at hst hbl
    exact key _ w (by simp [tlen]) hst hbl

end thresh

/-! ### Part 4: the induction -/

variable {σ : Ph → Bytes} {cfg : SatCfg}

mutual
theorem fsound_all (h : EnvOk env cfg.ctx) (hag : Agrees env cfg.env cfg.assets σ) :
    (ms : Ms) → (τ : Ty) → WF cfg.ctx ms → typeOf ms = some τ →
    FSound env cfg.env cfg.ctx σ τ.corr ms (tSatDissat cfg ms)
  | .fls, τ, _, _ => by simp only [tSatDissat]; exact fsound_lockFree _ _ _ _
  | .tru, τ, _, _ => by simp only [tSatDissat]; exact fsound_lockFree _ _ _ _
  | .pkK k, τ, _, _ => by simp only [tSatDissat]; exact fsound_lockFree _ _ _ _
  | .pkH k, τ, _, _ => by simp only [tSatDissat]; exact fsound_lockFree _ _ _ _
  | .rawPkH x, τ, _, _ => by simp only [tSatDissat]; exact fsound_lockFree _ _ _ _
  | .hash kind x, τ, _, _ => by simp only [tSatDissat]; exact fsound_lockFree _ _ _ _
  | .multi k ks, τ, _, _ => by simp only [tSatDissat]; exact fsound_lockFree _ _ _ _
  | .sortedMulti k ks, τ, _, _ => by simp only [tSatDissat]; exact fsound_lockFree _ _ _ _
  | .multiA k ks, τ, _, _ => by simp only [tSatDissat]; exact fsound_lockFree _ _ _ _
  | .sortedMultiA k ks, τ, _, _ => by simp only [tSatDissat]; exact fsound_lockFree _ _ _ _
  | .after n, τ, hwf, hty => by
    simp only [typeOf, Option.some.injEq] at hty; subst hty
    exact after_fcase h n hwf
  | .older n, τ, hwf, hty => by
    simp only [typeOf, Option.some.injEq] at hty; subst hty
    exact older_fcase h n hwf
  | .thresh k xs, τ, hwf, hty => by
    simp only [typeOf] at hty
    obtain ⟨ts, hts, hc⟩ := bind_some hty
    have hcorr : Corr.threshold k (ts.map (·.corr)) = some τ.corr := by
      unfold Ty.threshold at hc
      split at hc <;> simp at hc
      subst hc; assumption
    have hwfs : WFs cfg.ctx xs := by simp only [WF] at hwf; exact hwf.2.2.2
    exact thresh_fcase h k xs _ _ hwf hcorr (sounds_all h hag xs ts hwfs hts)
      (fsounds_all h hag xs ts hwfs hts)
  | .alt x, τ, hwf, hty => by
    simp only [typeOf] at hty; simp only [WF] at hwf
    obtain ⟨tx, hx, hc⟩ := bind_some hty
    exact alt_fcase h (lift1_corr hc) (fsound_all h hag x tx hwf hx)
  | .swap x, τ, hwf, hty => by
    simp only [typeOf] at hty; simp only [WF] at hwf
    obtain ⟨tx, hx, hc⟩ := bind_some hty
    exact swap_fcase h (lift1_corr hc) (fsound_all h hag x tx hwf hx) (shape_sound cfg hag x tx hwf hx)
  | .check x, τ, hwf, hty => by
    simp only [typeOf] at hty; simp only [WF] at hwf
    obtain ⟨tx, hx, hc⟩ := bind_some hty
    exact check_fcase (lift1_corr hc) (fsound_all h hag x tx hwf hx)
  | .dupIf x, τ, hwf, hty => by
    simp only [typeOf] at hty; simp only [WF] at hwf
    obtain ⟨tx, hx, hc⟩ := bind_some hty
    exact dupIf_fcase h hag (lift1_corr hc) (fsound_all h hag x tx hwf hx)
      (shape_sound cfg hag x tx hwf hx)
  | .verify x, τ, hwf, hty => by
    simp only [typeOf] at hty; simp only [WF] at hwf
    obtain ⟨tx, hx, hc⟩ := bind_some hty
    exact verify_fcase (lift1_corr hc) (fsound_all h hag x tx hwf hx)
  | .nonZero x, τ, hwf, hty => by
    simp only [typeOf] at hty; simp only [WF] at hwf
    obtain ⟨tx, hx, hc⟩ := bind_some hty
    exact nonZero_fcase h hag (lift1_corr hc) (fsound_all h hag x tx hwf hx)
      (shape_sound cfg hag x tx hwf hx)
  | .zeroNotEqual x, τ, hwf, hty => by
    simp only [typeOf] at hty; simp only [WF] at hwf
    obtain ⟨tx, hx, hc⟩ := bind_some hty
    exact zeroNotEqual_fcase (lift1_corr hc) (fsound_all h hag x tx hwf hx)
  | .andV l r, τ, hwf, hty => by
    simp only [typeOf] at hty; simp only [WF] at hwf
    cases hl : typeOf l with
    | none => simp [hl] at hty
    | some tl =>
      cases hr : typeOf r with
      | none => simp [hl, hr] at hty
      | some tr =>
        simp only [hl, hr] at hty
        exact andV_fcase (lift2_corr hty) (sound_all h hag l tl hwf.1 hl)
          (fsound_all h hag l tl hwf.1 hl) (fsound_all h hag r tr hwf.2 hr)
  | .andB l r, τ, hwf, hty => by
    simp only [typeOf] at hty; simp only [WF] at hwf
    cases hl : typeOf l with
    | none => simp [hl] at hty
    | some tl =>
      cases hr : typeOf r with
      | none => simp [hl, hr] at hty
      | some tr =>
        simp only [hl, hr] at hty
        exact andB_fcase (lift2_corr hty) (sound_all h hag l tl hwf.1 hl)
          (fsound_all h hag l tl hwf.1 hl) (fsound_all h hag r tr hwf.2 hr)
  | .orB l r, τ, hwf, hty => by
    simp only [typeOf] at hty; simp only [WF] at hwf
    cases hl : typeOf l with
    | none => simp [hl] at hty
    | some tl =>
      cases hr : typeOf r with
      | none => simp [hl, hr] at hty
      | some tr =>
        simp only [hl, hr] at hty
        exact orB_fcase (lift2_corr hty) (sound_all h hag l tl hwf.1 hl)
          (fsound_all h hag l tl hwf.1 hl) (fsound_all h hag r tr hwf.2 hr)
  | .orD l r, τ, hwf, hty => by
    simp only [typeOf] at hty; simp only [WF] at hwf
    cases hl : typeOf l with
    | none => simp [hl] at hty
    | some tl =>
      cases hr : typeOf r with
      | none => simp [hl, hr] at hty
      | some tr =>
        simp only [hl, hr] at hty
        exact orD_fcase h (lift2_corr hty) (sound_all h hag l tl hwf.1 hl)
          (fsound_all h hag l tl hwf.1 hl) (fsound_all h hag r tr hwf.2 hr)
  | .orC l r, τ, hwf, hty => by
    simp only [typeOf] at hty; simp only [WF] at hwf
    cases hl : typeOf l with
    | none => simp [hl] at hty
    | some tl =>
      cases hr : typeOf r with
      | none => simp [hl, hr] at hty
      | some tr =>
        simp only [hl, hr] at hty
        exact orC_fcase h (lift2_corr hty) (sound_all h hag l tl hwf.1 hl)
          (fsound_all h hag l tl hwf.1 hl) (fsound_all h hag r tr hwf.2 hr)
  | .orI l r, τ, hwf, hty => by
    simp only [typeOf] at hty; simp only [WF] at hwf
    cases hl : typeOf l with
    | none => simp [hl] at hty
    | some tl =>
      cases hr : typeOf r with
      | none => simp [hl, hr] at hty
      | some tr =>
        simp only [hl, hr] at hty
        exact orI_fcase h hag (lift2_corr hty)
          (fsound_all h hag l tl hwf.1 hl) (fsound_all h hag r tr hwf.2 hr)
  | .andOr a b c, τ, hwf, hty => by
    simp only [typeOf] at hty; simp only [WF] at hwf
    cases ha : typeOf a with
    | none => simp [ha] at hty
    | some ta =>
    cases hb : typeOf b with
    | none => simp [ha, hb] at hty
    | some tb =>
    cases hc : typeOf c with
    | none => simp [ha, hb, hc] at hty
    | some tc =>
    simp only [ha, hb, hc] at hty
    have hcc := hty
    have hcorr : Corr.andOr ta.corr tb.corr tc.corr = some τ.corr := by
      unfold Ty.andOr at hcc
      split at hcc <;> simp at hcc
      subst hcc; assumption
    exact andOr_fcase h hcorr (sound_all h hag a ta hwf.1 ha)
      (fsound_all h hag a ta hwf.1 ha) (fsound_all h hag b tb hwf.2.1 hb)
      (fsound_all h hag c tc hwf.2.2 hc)

theorem fsounds_all (h : EnvOk env cfg.ctx) (hag : Agrees env cfg.env cfg.assets σ) :
    (xs : MsList) → (ts : List Ty) → WFs cfg.ctx xs → typesOf xs = some ts →
    FSoundList env σ cfg xs (ts.map (·.corr))
  | .nil, ts, _, hty => by
    simp only [typesOf, Option.some.injEq] at hty; subst hty
    simp [FSoundList]
  | .cons x xs, ts, hwf, hty => by
    simp only [typesOf] at hty; simp only [WFs] at hwf
    cases hx : typeOf x with
    | none => simp [hx] at hty
    | some t =>
      cases hxs : typesOf xs with
      | none => simp [hx, hxs] at hty
      | some ts' =>
        simp only [hx, hxs, Option.some.injEq] at hty; subst hty
        exact ⟨fsound_all h hag x t hwf.1 hx, fsounds_all h hag xs ts' hwf.2 hxs⟩
end

end MsVerif.PlanLockExec

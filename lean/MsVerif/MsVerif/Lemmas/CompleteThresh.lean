/-
C02 helper lemmas, part 3: `Satisfaction::thresh_mall` and `Satisfaction::thresh` return a
stack whenever the counting condition of the specification's threshold row holds.
-/
import MsVerif.Lemmas.CompleteSort

namespace MsVerif.Complete
open MsVerif Sat

theorem getElem!_map' {α β : Type} [Inhabited α] [Inhabited β] (f : α → β) (l : List α) (i : Nat)
    (h : i < l.length) : (l.map f)[i]! = f l[i]! := by
  rw [getElem!_pos _ i (by simpa using h), getElem!_pos _ i h]; simp

/-! ### stack weights -/

/-- size bound that keeps `witness_size as i64` differences strictly between the sentinels -/
def SMALL : Nat := 2 ^ 62

theorem sw_max {s d : Sat} (h : isStk s.stack = false) : stackWeight s d = I64MAX := by
  unfold stackWeight
  cases hs : s.stack <;> simp_all [isStk]

theorem sw_min {s d : Sat} (h : isStk s.stack = true) (h' : isStk d.stack = false) :
    stackWeight s d = I64MIN := by
  unfold stackWeight
  cases hs : s.stack <;> cases hd : d.stack <;> simp_all [isStk]

theorem sw_mid {s d : Sat} (h : isStk s.stack = true) (h' : isStk d.stack = true)
    (bs : wsz s.stack < SMALL) (bd : wsz d.stack < SMALL) :
    I64MIN < stackWeight s d ∧ stackWeight s d < I64MAX := by
  unfold stackWeight
  cases hs : s.stack <;> cases hd : d.stack <;> simp_all [isStk]
  rename_i a b
  have h1 := witnessSize_le a
  have h2 := witnessSize_le b
  simp only [SMALL] at bs bd
  unfold I64MIN I64MAX
  omega

/-! ### generic facts about the selection -/

section
variable {ua ur : Bool}

theorem swapped_lockOK (k : Nat) (idx : List Nat) (sds : List SatDissat)
    (hlock : ∀ sd ∈ sds, LockOK ua ur sd.sat ∧ LockOK ua ur sd.dissat) :
    ∀ s ∈ (swapped k idx (sds.map (·.dissat)) (sds.map (·.sat))).1, LockOK ua ur s := by
  intro s hs
  obtain ⟨i, hi, h⟩ := swapped_fst_mem _ _ _ _ _ hs
  simp only [List.length_map] at hi
  rcases h with ⟨_, rfl⟩ | ⟨_, rfl⟩
  · rw [getElem!_map' _ _ _ hi]; rw [getElem!_pos _ i hi]
    exact (hlock _ (List.getElem_mem hi)).1
  · rw [getElem!_map' _ _ _ hi]; rw [getElem!_pos _ i hi]
    exact (hlock _ (List.getElem_mem hi)).2

theorem swapped_wsz (k : Nat) (idx : List Nat) (sds : List SatDissat) :
    (((swapped k idx (sds.map (·.dissat)) (sds.map (·.sat))).1).map (fun s => wsz s.stack)).sum
      ≤ (sds.map (fun sd => max (wsz sd.sat.stack) (wsz sd.dissat.stack))).sum := by
  rw [swapped_fst, List.map_map, List.length_map]
  rw [← map_range_getElem! sds (fun sd => max (wsz sd.sat.stack) (wsz sd.dissat.stack))]
  apply sum_map_le
  intro i hi
  have hi := List.mem_range.mp hi
  simp only [Function.comp]
  split
  · rw [getElem!_map' _ _ _ hi]; omega
  · rw [getElem!_map' _ _ _ hi]; omega

theorem foldConcat_lockOK (l : List Sat) (hl : ∀ s ∈ l, LockOK ua ur s) :
    LockOK ua ur (foldConcat l) :=
  foldl_concat_lockOK l _ (lockOK_empty _ _) hl

theorem foldConcat_isStk (l : List Sat) (hl : ∀ s ∈ l, LockOK ua ur s) :
    isStk (foldConcat l).stack = l.all (fun s => isStk s.stack) := by
  unfold foldConcat
  rw [foldl_concat_isStk l _ (lockOK_empty ua ur) hl]; simp [Sat.empty, isStk]

theorem foldConcat_wsz (l : List Sat) (hl : ∀ s ∈ l, LockOK ua ur s) :
    wsz (foldConcat l).stack ≤ (l.map (fun s => wsz s.stack)).sum := by
  have := foldl_concat_wsz l _ (lockOK_empty ua ur) hl
  simpa [foldConcat, Sat.empty, wsz] using this

theorem threshMall_lockOK (k : Nat) (sds : List SatDissat)
    (hlock : ∀ sd ∈ sds, LockOK ua ur sd.sat ∧ LockOK ua ur sd.dissat) :
    LockOK ua ur (threshMall k (sds.map (·.dissat)) (sds.map (·.sat))) := by
  unfold threshMall
  exact foldConcat_lockOK _ (swapped_lockOK k _ sds hlock)

theorem threshMall_wsz (k : Nat) (sds : List SatDissat)
    (hlock : ∀ sd ∈ sds, LockOK ua ur sd.sat ∧ LockOK ua ur sd.dissat) :
    wsz (threshMall k (sds.map (·.dissat)) (sds.map (·.sat))).stack
      ≤ (sds.map (fun sd => max (wsz sd.sat.stack) (wsz sd.dissat.stack))).sum := by
  unfold threshMall
  exact Nat.le_trans (foldConcat_wsz _ (swapped_lockOK k _ sds hlock)) (swapped_wsz k _ sds)

/-! ### `thresh_mall` is complete -/

theorem lowerSet_w (key : Nat → SortKey) (hk : ∀ i, (key i).imp = false ∧ (key i).sig = false)
    (P : Nat → Bool) (t : Int) (hP : ∀ i, P i = decide ((key i).w ≤ t)) : LowerSet key P := by
  constructor
  · intro i j hi hj
    rw [hP] at hi hj
    simp only [decide_eq_true_eq, decide_eq_false_iff_not] at hi hj
    simp only [SortKey.le, (hk i).1, (hk j).1, (hk i).2, (hk j).2, bne_self_eq_false]
    simp; omega
  · intro i j hj hi
    rw [hP] at hi hj
    simp only [decide_eq_true_eq, decide_eq_false_iff_not] at hi hj
    simp only [SortKey.le, (hk i).1, (hk j).1, (hk i).2, (hk j).2, bne_self_eq_false]
    simp; omega

/-- The literal `thresh_mall`: with no dead child, at most `k` children that cannot be
dissatisfied and at least `k` that can be satisfied, the `k` smallest weights select only
satisfiable children and leave only dissatisfiable ones. -/
theorem threshMall_isStk (k : Nat) (sds : List SatDissat)
    (hlock : ∀ sd ∈ sds, LockOK ua ur sd.sat ∧ LockOK ua ur sd.dissat)
    (hsmall : ∀ sd ∈ sds, wsz sd.sat.stack < SMALL ∧ wsz sd.dissat.stack < SMALL)
    (hnodead : ∀ sd ∈ sds, isStk sd.sat.stack = true ∨ isStk sd.dissat.stack = true)
    (hlo : sds.countP (fun sd => !isStk sd.dissat.stack) ≤ k)
    (hhi : k ≤ sds.countP (fun sd => isStk sd.sat.stack)) :
    isStk (threshMall k (sds.map (·.dissat)) (sds.map (·.sat))).stack = true := by
  unfold threshMall
  rw [foldConcat_isStk _ (swapped_lockOK k _ sds hlock), List.all_eq_true]
  intro s hs
  obtain ⟨i, hi, h⟩ := swapped_fst_mem _ _ _ _ _ hs
  simp only [List.length_map] at hi h
  -- the sort key
  let key : Nat → SortKey := fun i =>
    ⟨false, false, stackWeight (sds.map (·.sat))[i]! (sds.map (·.dissat))[i]!⟩
  have hkey : ∀ j, j < sds.length → (key j).w = stackWeight sds[j]!.sat sds[j]!.dissat := by
    intro j hj
    show stackWeight (sds.map (·.sat))[j]! (sds.map (·.dissat))[j]! = _
    rw [getElem!_map' _ _ _ hj, getElem!_map' _ _ _ hj]
  have hmemi : sds[i]! ∈ sds := by rw [getElem!_pos _ i hi]; exact List.getElem_mem hi
  rcases h with ⟨hin, rfl⟩ | ⟨hnin, rfl⟩
  · -- chosen: weight < MAX, so the satisfaction is a stack
    let P : Nat → Bool := fun j => decide ((key j).w ≤ I64MAX - 1)
    have hLS : LowerSet key P := lowerSet_w key (fun _ => ⟨rfl, rfl⟩) P _ (fun _ => rfl)
    have hcnt : k ≤ (List.range sds.length).countP P := by
      refine Nat.le_trans hhi ?_
      rw [← countP_range_getElem! sds (fun sd => isStk sd.sat.stack)]
      apply List.countP_mono_left
      intro j hj hst
      have hj := List.mem_range.mp hj
      have hmem : sds[j]! ∈ sds := by rw [getElem!_pos _ j hj]; exact List.getElem_mem hj
      show decide ((key j).w ≤ I64MAX - 1) = true
      rw [hkey j hj, decide_eq_true_eq]
      cases hd : isStk sds[j]!.dissat.stack with
      | false => rw [sw_min hst hd]; decide
      | true =>
        have := sw_mid hst hd (hsmall _ hmem).1 (hsmall _ hmem).2
        omega
    have hP := sortIdx_take_mem hLS sds.length k hcnt i hin
    rw [getElem!_map' _ _ _ hi]
    cases hst : isStk sds[i]!.sat.stack with
    | true => rfl
    | false =>
      have : decide ((key i).w ≤ I64MAX - 1) = true := hP
      rw [hkey i hi, sw_max hst] at this
      simp at this
      omega
  · -- not chosen: weight > MIN, so the dissatisfaction is a stack
    let P : Nat → Bool := fun j => decide ((key j).w ≤ I64MIN)
    have hLS : LowerSet key P := lowerSet_w key (fun _ => ⟨rfl, rfl⟩) P _ (fun _ => rfl)
    have hcnt : (List.range sds.length).countP P ≤ k := by
      refine Nat.le_trans ?_ hlo
      rw [← countP_range_getElem! sds (fun sd => !isStk sd.dissat.stack)]
      apply List.countP_mono_left
      intro j hj hPj
      have hj := List.mem_range.mp hj
      have hmem : sds[j]! ∈ sds := by rw [getElem!_pos _ j hj]; exact List.getElem_mem hj
      have hPj : decide ((key j).w ≤ I64MIN) = true := hPj
      rw [hkey j hj, decide_eq_true_eq] at hPj
      cases hd : isStk sds[j]!.dissat.stack with
      | false => rfl
      | true =>
        exfalso
        cases hst : isStk sds[j]!.sat.stack with
        | false => rw [sw_max hst] at hPj; revert hPj; decide
        | true =>
          have := sw_mid hst hd (hsmall _ hmem).1 (hsmall _ hmem).2
          omega
    have hd := mem_drop_of_not_take key sds.length k i hi hnin
    have hP := sortIdx_drop_mem hLS sds.length k hcnt i hd
    rw [getElem!_map' _ _ _ hi]
    cases hdst : isStk sds[i]!.dissat.stack with
    | true => rfl
    | false =>
      exfalso
      have hP : decide ((key i).w ≤ I64MIN) = false := hP
      rw [hkey i hi, decide_eq_false_iff_not] at hP
      rcases hnodead _ hmemi with hst | hst
      · rw [sw_min hst hdst] at hP; omega
      · rw [hst] at hdst; cases hdst

end

/-! ### `thresh` (non-malleable) -/

/-- a possible satisfaction without signature: what a third party could swap in -/
def freeSat (sd : SatDissat) : Bool := decide (sd.sat.stack ≠ .impossible) && !sd.sat.hasSig

def satsOf (sds : List SatDissat) : List Sat := sds.map (·.sat)
def dissatsOf (sds : List SatDissat) : List Sat := sds.map (·.dissat)

def nmKey (sds : List SatDissat) : Nat → SortKey := fun i =>
  ⟨decide ((satsOf sds)[i]!.stack = .impossible), (satsOf sds)[i]!.hasSig,
    stackWeight (satsOf sds)[i]! (dissatsOf sds)[i]!⟩

def nmIdx (sds : List SatDissat) : List Nat := sortIdx (nmKey sds) sds.length
def nmSw (k : Nat) (sds : List SatDissat) : List Sat × List Sat :=
  swapped k (nmIdx sds) (dissatsOf sds) (satsOf sds)

theorem threshNonMall_eq (k : Nat) (sds : List SatDissat) :
    threshNonMall k (sds.map (·.dissat)) (sds.map (·.sat)) =
      if (nmSw k sds).2[(nmIdx sds)[k - 1]!]!.stack = .impossible then Sat.IMPOSSIBLE
      else if (!(nmSw k sds).2[(nmIdx sds)[k]!]!.hasSig
          && decide ((nmSw k sds).2[(nmIdx sds)[k]!]!.stack ≠ .impossible)) = true then
        Sat.UNAVAILABLE
      else foldConcat (nmSw k sds).1 := by
  unfold threshNonMall nmSw nmIdx nmKey satsOf dissatsOf
  simp only [List.length_map]

theorem satsOf_get (sds : List SatDissat) (j : Nat) (hj : j < sds.length) :
    (satsOf sds)[j]! = sds[j]!.sat := getElem!_map' _ _ _ hj
theorem dissatsOf_get (sds : List SatDissat) (j : Nat) (hj : j < sds.length) :
    (dissatsOf sds)[j]! = sds[j]!.dissat := getElem!_map' _ _ _ hj

theorem lowerSet_possible (sds : List SatDissat) :
    LowerSet (nmKey sds) (fun i => !(nmKey sds i).imp) := by
  constructor
  · intro i j hi hj
    simp only [Bool.not_eq_true', Bool.not_eq_false'] at hi hj
    simp [SortKey.le, hi, hj]
  · intro i j hj hi
    simp only [Bool.not_eq_true', Bool.not_eq_false'] at hi hj
    simp [SortKey.le, hi, hj]

theorem lowerSet_free (sds : List SatDissat) :
    LowerSet (nmKey sds) (fun i => !(nmKey sds i).imp && !(nmKey sds i).sig) := by
  constructor
  · intro i j hi hj
    simp only [Bool.and_eq_true, Bool.not_eq_true', Bool.and_eq_false_iff, Bool.not_eq_false'] at hi hj
    rcases hj with hj | hj
    · simp [SortKey.le, hi.1, hj]
    · cases hji : (nmKey sds j).imp <;> simp [SortKey.le, hi.1, hi.2, hj, hji]
  · intro i j hj hi
    simp only [Bool.and_eq_true, Bool.not_eq_true', Bool.and_eq_false_iff, Bool.not_eq_false'] at hi hj
    rcases hi with hi | hi
    · simp [SortKey.le, hj.1, hi]
    · cases hii : (nmKey sds i).imp <;> simp [SortKey.le, hj.1, hj.2, hi, hii]

theorem nmKey_imp (sds : List SatDissat) (j : Nat) (hj : j < sds.length) :
    (nmKey sds j).imp = decide (sds[j]!.sat.stack = .impossible) := by
  show decide ((satsOf sds)[j]!.stack = .impossible) = _
  rw [satsOf_get _ _ hj]

theorem nmKey_sig (sds : List SatDissat) (j : Nat) (hj : j < sds.length) :
    (nmKey sds j).sig = sds[j]!.sat.hasSig := by
  show (satsOf sds)[j]!.hasSig = _
  rw [satsOf_get _ _ hj]

theorem swapped_fst_mem_of (k : Nat) (idx : List Nat) (dissats sats : List Sat) (i : Nat)
    (hi : i < dissats.length) (hin : i ∈ idx.take k) :
    sats[i]! ∈ (swapped k idx dissats sats).1 := by
  rw [swapped_fst, List.mem_map]
  refine ⟨i, List.mem_range.mpr hi, ?_⟩
  rw [if_pos (by simpa using hin)]

theorem nmIdx_length (sds : List SatDissat) : (nmIdx sds).length = sds.length :=
  sortIdx_length _ _

theorem getElem!_mem_drop (l : List Nat) (k : Nat) (hk : k < l.length) : l[k]! ∈ l.drop k := by
  rw [getElem!_pos _ k hk, List.mem_iff_getElem]
  exact ⟨0, by simp; omega, by simp⟩

theorem getElem!_mem_take (l : List Nat) (k : Nat) (hk : 1 ≤ k) (hkl : k ≤ l.length) :
    l[k - 1]! ∈ l.take k := by
  rw [getElem!_pos _ (k - 1) (by omega), List.mem_iff_getElem]
  exact ⟨k - 1, by simp; omega, by simp⟩

theorem mem_sds_get (sds : List SatDissat) (i : Nat) (hi : i < sds.length) : sds[i]! ∈ sds := by
  rw [getElem!_pos _ i hi]; exact List.getElem_mem hi

/-- the position-`k` test of `thresh` never fires when at most `k` children have a possible
signature-free satisfaction -/
theorem threshNonMall_cond_false (k : Nat) (sds : List SatDissat) (hk : k < sds.length)
    (hfree : sds.countP freeSat ≤ k) :
    (!(nmSw k sds).2[(nmIdx sds)[k]!]!.hasSig
      && decide ((nmSw k sds).2[(nmIdx sds)[k]!]!.stack ≠ .impossible)) = false := by
  have hlen := nmIdx_length sds
  have hmemd : (nmIdx sds)[k]! ∈ (nmIdx sds).drop k := getElem!_mem_drop _ _ (by omega)
  have hlt : (nmIdx sds)[k]! < sds.length :=
    (mem_sortIdx _ _ _).mp (List.mem_of_mem_drop hmemd)
  have hnt : (nmIdx sds)[k]! ∉ (nmIdx sds).take k := not_take_of_mem_drop _ _ _ _ hmemd
  have hcnt : (List.range sds.length).countP
      (fun i => !(nmKey sds i).imp && !(nmKey sds i).sig) ≤ k := by
    refine Nat.le_trans (Nat.le_of_eq ?_) hfree
    rw [← countP_range_getElem! sds freeSat]
    apply List.countP_congr
    intro j hj
    have hj := List.mem_range.mp hj
    rw [nmKey_imp _ _ hj, nmKey_sig _ _ hj]
    simp [freeSat]
  have hP := sortIdx_drop_mem (lowerSet_free sds) sds.length k hcnt _ hmemd
  have hget : (nmSw k sds).2[(nmIdx sds)[k]!]! = (satsOf sds)[(nmIdx sds)[k]!]! := by
    unfold nmSw
    rw [swapped_snd_get _ _ _ _ _ (by simpa [dissatsOf] using hlt)]
    rw [if_neg (by simpa using hnt)]
  rw [hget, satsOf_get _ _ hlt]
  simp only [nmKey_imp _ _ hlt, nmKey_sig _ _ hlt] at hP
  cases h1 : sds[(nmIdx sds)[k]!]!.sat.hasSig <;> simp_all

section
variable {ua ur : Bool}

theorem nmSw_lockOK (k : Nat) (sds : List SatDissat)
    (hlock : ∀ sd ∈ sds, LockOK ua ur sd.sat ∧ LockOK ua ur sd.dissat) :
    ∀ s ∈ (nmSw k sds).1, LockOK ua ur s := swapped_lockOK k _ sds hlock

theorem threshNonMall_lockOK (k : Nat) (sds : List SatDissat)
    (hlock : ∀ sd ∈ sds, LockOK ua ur sd.sat ∧ LockOK ua ur sd.dissat) :
    LockOK ua ur (threshNonMall k (sds.map (·.dissat)) (sds.map (·.sat))) := by
  rw [threshNonMall_eq]
  split
  · exact lockOK_IMPOSSIBLE _ _
  · split
    · exact lockOK_UNAVAILABLE _ _
    · exact foldConcat_lockOK _ (nmSw_lockOK k sds hlock)

/-- entries of the selection, in terms of the children -/
theorem nmSw_mem (k : Nat) (sds : List SatDissat) (s : Sat) (hs : s ∈ (nmSw k sds).1) :
    ∃ i, i < sds.length ∧
      ((i ∈ (nmIdx sds).take k ∧ s = sds[i]!.sat) ∨ (i ∉ (nmIdx sds).take k ∧ s = sds[i]!.dissat)) := by
  obtain ⟨i, hi, h⟩ := swapped_fst_mem _ _ _ _ _ hs
  have hi : i < sds.length := by simpa [dissatsOf] using hi
  refine ⟨i, hi, ?_⟩
  rcases h with ⟨a, rfl⟩ | ⟨a, rfl⟩
  · left; exact ⟨a, satsOf_get _ _ hi⟩
  · right; exact ⟨a, dissatsOf_get _ _ hi⟩

theorem threshNonMall_ne_unav (k : Nat) (sds : List SatDissat) (hk : k < sds.length)
    (hlock : ∀ sd ∈ sds, LockOK ua ur sd.sat ∧ LockOK ua ur sd.dissat)
    (hnu : ∀ sd ∈ sds, sd.sat.stack ≠ .unavailable ∧ sd.dissat.stack ≠ .unavailable)
    (hfree : sds.countP freeSat ≤ k) :
    (threshNonMall k (sds.map (·.dissat)) (sds.map (·.sat))).stack ≠ .unavailable := by
  rw [threshNonMall_eq, threshNonMall_cond_false k sds hk hfree]
  split
  · simp [IMPOSSIBLE]
  · rw [if_neg (by simp)]
    unfold foldConcat
    refine foldl_concat_ne_unav _ _ (lockOK_empty ua ur) (nmSw_lockOK k sds hlock)
      (by simp [Sat.empty]) ?_
    intro s hs
    obtain ⟨i, hi, h⟩ := nmSw_mem _ _ _ hs
    have hmem := mem_sds_get sds i hi
    rcases h with ⟨_, rfl⟩ | ⟨_, rfl⟩
    · exact (hnu _ hmem).1
    · exact (hnu _ hmem).2

/-- completeness of the non-malleable threshold: all dissatisfactions are stacks, at least `k`
children have a possible (hence, not being unavailable, stack) satisfaction, at most `k` have a
possible signature-free one -/
theorem threshNonMall_isStk (k : Nat) (sds : List SatDissat) (hk1 : 1 ≤ k) (hk : k < sds.length)
    (hlock : ∀ sd ∈ sds, LockOK ua ur sd.sat ∧ LockOK ua ur sd.dissat)
    (hnu : ∀ sd ∈ sds, sd.sat.stack ≠ .unavailable)
    (hds : ∀ sd ∈ sds, isStk sd.dissat.stack = true)
    (hfree : sds.countP freeSat ≤ k)
    (hposs : k ≤ sds.countP (fun sd => decide (sd.sat.stack ≠ .impossible))) :
    isStk (threshNonMall k (sds.map (·.dissat)) (sds.map (·.sat))).stack = true := by
  have hlen := nmIdx_length sds
  rw [threshNonMall_eq, threshNonMall_cond_false k sds hk hfree]
  have h1 : (nmSw k sds).2[(nmIdx sds)[k - 1]!]!.stack ≠ .impossible := by
    have hmt : (nmIdx sds)[k - 1]! ∈ (nmIdx sds).take k := getElem!_mem_take _ _ hk1 (by omega)
    have hlt : (nmIdx sds)[k - 1]! < sds.length :=
      (mem_sortIdx _ _ _).mp (List.mem_of_mem_take hmt)
    unfold nmSw
    rw [swapped_snd_get _ _ _ _ _ (by simpa [dissatsOf] using hlt)]
    rw [if_pos (by simpa using hmt), dissatsOf_get _ _ hlt]
    exact isStk_ne_imp (hds _ (mem_sds_get sds _ hlt))
  rw [if_neg h1, if_neg (by simp)]
  rw [foldConcat_isStk _ (nmSw_lockOK k sds hlock), List.all_eq_true]
  intro s hs
  obtain ⟨i, hi, h⟩ := nmSw_mem _ _ _ hs
  have hmem := mem_sds_get sds i hi
  rcases h with ⟨hin, rfl⟩ | ⟨_, rfl⟩
  · have hcnt : k ≤ (List.range sds.length).countP (fun i => !(nmKey sds i).imp) := by
      refine Nat.le_trans hposs (Nat.le_of_eq ?_)
      rw [← countP_range_getElem! sds (fun sd => decide (sd.sat.stack ≠ .impossible))]
      apply List.countP_congr
      intro j hj
      have hj := List.mem_range.mp hj
      rw [nmKey_imp _ _ hj]
      simp
    have hP := sortIdx_take_mem (lowerSet_possible sds) sds.length k hcnt i hin
    simp only [nmKey_imp _ _ hi] at hP
    exact isStk_of_ne (by simpa using hP) (hnu _ hmem)
  · exact hds _ hmem

/-- a possible result of the non-malleable threshold carries a signature when fewer than `k`
children have a possible signature-free satisfaction -/
theorem threshNonMall_sigOrImp (k : Nat) (sds : List SatDissat) (hk : k < sds.length)
    (hlock : ∀ sd ∈ sds, LockOK ua ur sd.sat ∧ LockOK ua ur sd.dissat)
    (hfree : sds.countP freeSat < k) :
    SigOrImp (threshNonMall k (sds.map (·.dissat)) (sds.map (·.sat))) := by
  have hlen := nmIdx_length sds
  unfold SigOrImp
  rw [threshNonMall_eq, threshNonMall_cond_false k sds hk (by omega)]
  split
  · simp [IMPOSSIBLE]
  · rw [if_neg (by simp)]
    intro hne
    -- some chosen child is not `freeSat`
    have hex : ∃ x ∈ (nmIdx sds).take k, freeSat sds[x]! = false := by
      apply Classical.byContradiction
      intro hno
      have hall : ∀ x ∈ (nmIdx sds).take k, (fun i => freeSat sds[i]!) x = true := by
        intro x hx
        cases hfx : freeSat sds[x]! with
        | true => exact hfx
        | false => exact absurd ⟨x, hx, hfx⟩ hno
      have h1 : ((nmIdx sds).take k).countP (fun i => freeSat sds[i]!) = k := by
        rw [List.countP_eq_length.mpr hall, List.length_take]; omega
      have h2 : ((nmIdx sds).take k).countP (fun i => freeSat sds[i]!)
          ≤ (nmIdx sds).countP (fun i => freeSat sds[i]!) :=
        (List.take_sublist k _).countP_le
      have h3 : (nmIdx sds).countP (fun i => freeSat sds[i]!) = sds.countP freeSat := by
        unfold nmIdx
        rw [(sortIdx_perm _ _).countP_eq, countP_range_getElem!]
      omega
    obtain ⟨x, hx, hfx⟩ := hex
    have hxlt : x < sds.length := (mem_sortIdx _ _ _).mp (List.mem_of_mem_take hx)
    unfold foldConcat at hne ⊢
    refine foldl_concat_hasSig _ _ (lockOK_empty ua ur) (nmSw_lockOK k sds hlock) hne
      (.inr ⟨sds[x]!.sat, ?_, ?_⟩)
    · have := swapped_fst_mem_of k (nmIdx sds) (dissatsOf sds) (satsOf sds) x
        (by simpa [dissatsOf] using hxlt) hx
      rw [satsOf_get _ _ hxlt] at this
      exact this
    · intro hni
      simp only [freeSat, Bool.and_eq_false_iff, decide_eq_false_iff_not, Bool.not_eq_false'] at hfx
      rcases hfx with h | h
      · exact absurd hni h
      · exact h

end

end MsVerif.Complete

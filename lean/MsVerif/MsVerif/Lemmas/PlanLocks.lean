/-
Helper development for C17 (time locks): the satisfier of Model/Satisfy.lean run with, next to
every (dis)satisfaction, the list of `after` values (`A`) and `older` values (`R`) of the
fragments that this (dis)satisfaction executes.

* `tSatDissat` has the same recursion as `satDissat`; every tracked combinator computes its
  `Sat` component by calling the ORIGINAL combinator on the `Sat` components, so the erasure
  theorem `tSatDissat_s` is by construction; the lists follow the combinator's choice
  (`concatenate_rev`: both; `minimum*`: the side that is returned; `thresh*`: the folded
  selection).
* `TSat.Inv`: the reported `absolute_timelock` / `relative_timelock` is `none` iff the list is
  empty, otherwise it is a MEMBER of the list, of the same unit as and ≥ every member.
* `tSatDissat_inv`: the invariant holds for every script, asset set and mode.
-/
import MsVerif.Model.Plan

set_option linter.unusedSimpArgs false

namespace MsVerif.PlanLocks
open MsVerif MsVerif.Sat

/-! ### small list / glue lemmas used by Thm/C17 -/

theorem flatMap_congr_mem {α β : Type} (f g : α → List β) (l : List α) (h : ∀ a ∈ l, f a = g a) :
    l.flatMap f = l.flatMap g := by
  induction l with
  | nil => rfl
  | cons a as ih =>
    simp only [List.flatMap_cons]
    rw [h a (by simp), ih (fun b hb => h b (by simp [hb]))]

theorem take_pred_eq_iff (pk src : List Nat) :
    (pk.length > 0 ∧ src = pk.take (pk.length - 1)) ↔ ∃ c, pk = src ++ [c] := by
  constructor
  · rintro ⟨hl, rfl⟩
    have hne : pk ≠ [] := by intro h; simp [h] at hl
    refine ⟨pk.getLast hne, ?_⟩
    rw [← List.dropLast_eq_take]
    exact (List.dropLast_concat_getLast hne).symm
  · rintro ⟨c, rfl⟩
    simp

/-- `witness_to_scriptsig` and `push_slice` agree on an item unless it is a minimally encoded
script number other than the empty vector -/
theorem w2ssItem_eq_pushSlice (b : Script.Bytes)
    (h : b = [] ∨ Plan.readScriptInt b = none) : Plan.w2ssItem b = Plan.pushSlice b := by
  rcases h with rfl | h
  · decide
  · simp [Plan.w2ssItem, h]

/-- an item longer than 4 bytes (every signature, every public key) is not a script number -/
theorem readScriptInt_long (b : Script.Bytes) (h : 4 < b.length) : Plan.readScriptInt b = none := by
  simp [Plan.readScriptInt, Script.numDecode, h]

/-! ### tracked satisfactions -/

structure TSat where
  s : Sat
  A : List Nat
  R : List Nat
  deriving Repr

instance : Inhabited TSat := ⟨⟨default, [], []⟩⟩

structure TSatDissat where
  dissat : TSat
  sat : TSat

def lockFree (s : Sat) : TSat := ⟨s, [], []⟩

def AbsInv (abs : Option Nat) (A : List Nat) : Prop :=
  match abs with
  | none => A = []
  | some m => m ∈ A ∧ ∀ n ∈ A, (n < 500000000 ↔ m < 500000000) ∧ n ≤ m

def RelInv (rel : Option Nat) (R : List Nat) : Prop :=
  match rel with
  | none => R = []
  | some m => m ∈ R ∧ ∀ n ∈ R, relIsTime n = relIsTime m ∧ relVal n ≤ relVal m

def TSat.Inv (t : TSat) : Prop := AbsInv t.s.abs t.A ∧ RelInv t.s.rel t.R

theorem lockFree_inv (s : Sat) (ha : s.abs = none) (hr : s.rel = none) : (lockFree s).Inv := by
  simp [lockFree, TSat.Inv, AbsInv, RelInv, ha, hr]

theorem default_inv : (default : TSat).Inv := by
  show AbsInv none [] ∧ RelInv none []
  exact ⟨rfl, rfl⟩

/-! ### `concatenate_rev` -/

def tConcatenateRev (self other : TSat) : TSat :=
  let r := Sat.concatenateRev self.s other.s
  if r = Sat.IMPOSSIBLE then ⟨r, [], []⟩ else ⟨r, other.A ++ self.A, other.R ++ self.R⟩

@[simp] theorem tConcatenateRev_s (a b : TSat) : (tConcatenateRev a b).s = Sat.concatenateRev a.s b.s := by
  unfold tConcatenateRev
  simp only
  split <;> rfl

def mergeAbs (a b : Option Nat) : Option (Option Nat) :=
  match a, b with
  | none, x => some x
  | x, none => some x
  | some a, some b => (absMax a b).map some

def mergeRel (a b : Option Nat) : Option (Option Nat) :=
  match a, b with
  | none, x => some x
  | x, none => some x
  | some a, some b => (relMax a b).map some

theorem concat_cases (s o : Sat) :
    Sat.concatenateRev s o = Sat.IMPOSSIBLE ∨
    (mergeAbs s.abs o.abs = some (Sat.concatenateRev s o).abs ∧
     mergeRel s.rel o.rel = some (Sat.concatenateRev s o).rel) := by
  unfold Sat.concatenateRev
  by_cases h : s.stack = .impossible ∨ o.stack = .impossible
  · left; simp [h]
  · simp only [h, if_false]
    cases hsr : s.rel <;> cases hor : o.rel <;> cases hsa : s.abs <;> cases hoa : o.abs <;>
      simp [mergeAbs, mergeRel] <;>
      (try (cases hrm : relMax _ _ <;> simp)) <;>
      (try (cases ham : absMax _ _ <;> simp))

theorem absInv_merge {a b m : Option Nat} {A B : List Nat} (ha : AbsInv a A) (hb : AbsInv b B)
    (h : mergeAbs a b = some m) : AbsInv m (B ++ A) := by
  cases a with
  | none =>
    simp only [mergeAbs, Option.some.injEq] at h
    subst h
    simp only [AbsInv] at ha
    subst ha
    simpa using hb
  | some x =>
    cases b with
    | none =>
      simp only [mergeAbs, Option.some.injEq] at h
      subst h
      simp only [AbsInv] at hb
      subst hb
      simpa using ha
    | some y =>
      simp only [mergeAbs, absMax] at h
      simp only [AbsInv] at ha hb
      by_cases hu : (decide (x < 500000000) == decide (y < 500000000)) = true
      · simp only [hu, if_true, Option.map_some, Option.some.injEq] at h
        subst h
        have hu' : x < 500000000 ↔ y < 500000000 := by simpa using hu
        simp only [AbsInv, List.mem_append]
        constructor
        · by_cases hxy : x ≥ y
          · simp [hxy, ha.1]
          · simp [hxy, hb.1]
        · intro n hn
          rcases hn with hn | hn
          · have := hb.2 n hn
            by_cases hxy : x ≥ y <;> simp only [hxy, if_true, if_false] <;> omega
          · have := ha.2 n hn
            by_cases hxy : x ≥ y <;> simp only [hxy, if_true, if_false] <;> omega
      · simp [hu] at h

theorem relInv_merge {a b m : Option Nat} {A B : List Nat} (ha : RelInv a A) (hb : RelInv b B)
    (h : mergeRel a b = some m) : RelInv m (B ++ A) := by
  cases a with
  | none =>
    simp only [mergeRel, Option.some.injEq] at h
    subst h
    simp only [RelInv] at ha
    subst ha
    simpa using hb
  | some x =>
    cases b with
    | none =>
      simp only [mergeRel, Option.some.injEq] at h
      subst h
      simp only [RelInv] at hb
      subst hb
      simpa using ha
    | some y =>
      simp only [mergeRel, relMax] at h
      simp only [RelInv] at ha hb
      by_cases hu : (relIsTime x == relIsTime y) = true
      · simp only [hu, if_true, Option.map_some, Option.some.injEq] at h
        subst h
        have hu' : relIsTime x = relIsTime y := by simpa using hu
        simp only [RelInv, List.mem_append]
        constructor
        · by_cases hxy : relVal x ≥ relVal y
          · simp [hxy, ha.1]
          · simp [hxy, hb.1]
        · intro n hn
          rcases hn with hn | hn
          · have := hb.2 n hn
            by_cases hxy : relVal x ≥ relVal y <;> simp only [hxy, if_true, if_false]
            · exact ⟨by rw [this.1, hu'], by omega⟩
            · exact this
          · have := ha.2 n hn
            by_cases hxy : relVal x ≥ relVal y <;> simp only [hxy, if_true, if_false]
            · exact this
            · exact ⟨by rw [this.1, hu'], by omega⟩
      · simp [hu] at h

theorem tConcatenateRev_inv (a b : TSat) (ha : a.Inv) (hb : b.Inv) : (tConcatenateRev a b).Inv := by
  unfold tConcatenateRev
  simp only
  by_cases h : Sat.concatenateRev a.s b.s = Sat.IMPOSSIBLE
  · simp only [h, if_true]
    exact ⟨rfl, rfl⟩
  · simp only [h, if_false]
    rcases concat_cases a.s b.s with h' | ⟨h1, h2⟩
    · exact absurd h' h
    · exact ⟨absInv_merge ha.1 hb.1 h1, relInv_merge ha.2 hb.2 h2⟩

/-! ### `minimum` / `minimum_mall` -/

def tMinimum (a b : TSat) : TSat :=
  let r := Sat.minimum a.s b.s
  if a.s.stack = .impossible then ⟨r, b.A, b.R⟩
  else if b.s.stack = .impossible then ⟨r, a.A, a.R⟩
  else match a.s.hasSig, b.s.hasSig with
    | false, false => ⟨r, [], []⟩
    | false, true => ⟨r, a.A, a.R⟩
    | true, false => ⟨r, b.A, b.R⟩
    | true, true => if a.s.stack.lt b.s.stack then ⟨r, a.A, a.R⟩ else ⟨r, b.A, b.R⟩

@[simp] theorem tMinimum_s (a b : TSat) : (tMinimum a b).s = Sat.minimum a.s b.s := by
  unfold tMinimum
  simp only
  split
  · rfl
  · split
    · rfl
    · split <;> (try split) <;> rfl

theorem tMinimum_inv (a b : TSat) (ha : a.Inv) (hb : b.Inv) : (tMinimum a b).Inv := by
  unfold tMinimum Sat.minimum
  simp only
  by_cases h1 : a.s.stack = .impossible
  · simp only [h1, if_true]; exact hb
  · by_cases h2 : b.s.stack = .impossible
    · simp only [h1, h2, if_true, if_false]; exact ha
    · simp only [h1, h2, if_false]
      cases hsa : a.s.hasSig <;> cases hsb : b.s.hasSig <;> simp only
      · exact ⟨rfl, rfl⟩
      · exact ha
      · exact hb
      · by_cases hl : a.s.stack.lt b.s.stack = true
        · simp only [hl, if_true]; exact ha
        · simp only [hl]; exact hb

def tMinimumMall (a b : TSat) : TSat :=
  let r := Sat.minimumMall a.s b.s
  if a.s.stack = .impossible ∨ a.s.stack = .unavailable then ⟨r, b.A, b.R⟩
  else if b.s.stack = .impossible ∨ b.s.stack = .unavailable then ⟨r, a.A, a.R⟩
  else if a.s.stack.lt b.s.stack then ⟨r, a.A, a.R⟩ else ⟨r, b.A, b.R⟩

@[simp] theorem tMinimumMall_s (a b : TSat) : (tMinimumMall a b).s = Sat.minimumMall a.s b.s := by
  unfold tMinimumMall
  simp only
  split
  · rfl
  · split
    · rfl
    · split <;> rfl

theorem tMinimumMall_inv (a b : TSat) (ha : a.Inv) (hb : b.Inv) : (tMinimumMall a b).Inv := by
  unfold tMinimumMall Sat.minimumMall
  simp only
  by_cases h1 : a.s.stack = .impossible ∨ a.s.stack = .unavailable
  · simp only [h1, if_true]; exact hb
  · by_cases h2 : b.s.stack = .impossible ∨ b.s.stack = .unavailable
    · simp only [h1, h2, if_true, if_false]; exact ha
    · simp only [h1, h2, if_false]
      by_cases hl : a.s.stack.lt b.s.stack = true
      · simp only [hl, if_true]; exact ha
      · simp only [hl]; exact hb

def tMinFn (c : SatCfg) : TSat → TSat → TSat := if c.mall then tMinimumMall else tMinimum

@[simp] theorem tMinFn_s (c : SatCfg) (a b : TSat) : (tMinFn c a b).s = c.minFn a.s b.s := by
  unfold tMinFn SatCfg.minFn
  cases c.mall <;> simp

theorem tMinFn_inv (c : SatCfg) (a b : TSat) (ha : a.Inv) (hb : b.Inv) : (tMinFn c a b).Inv := by
  unfold tMinFn
  cases c.mall
  · exact tMinimum_inv a b ha hb
  · exact tMinimumMall_inv a b ha hb

/-- append one element to the stack (`d:`, `or_i` selectors): locks unchanged -/
def tPush (p : Ph) (t : TSat) : TSat :=
  ⟨{ t.s with stack := Wit.combine t.s.stack (.stack [p]) }, t.A, t.R⟩

theorem tPush_inv (p : Ph) (t : TSat) (h : t.Inv) : (tPush p t).Inv := h

/-! ### thresholds -/

def tFoldConcat (l : List TSat) : TSat := l.foldl tConcatenateRev ⟨Sat.empty, [], []⟩

theorem foldl_tConcat_s (l : List TSat) (acc : TSat) :
    (l.foldl tConcatenateRev acc).s = (l.map (·.s)).foldl Sat.concatenateRev acc.s := by
  induction l generalizing acc with
  | nil => rfl
  | cons x xs ih => simp [List.foldl_cons, ih]

theorem tFoldConcat_s (l : List TSat) : (tFoldConcat l).s = foldConcat (l.map (·.s)) := by
  unfold tFoldConcat foldConcat
  rw [foldl_tConcat_s]

theorem foldl_tConcat_inv (l : List TSat) (acc : TSat) (hacc : acc.Inv) (hl : ∀ t ∈ l, t.Inv) :
    (l.foldl tConcatenateRev acc).Inv := by
  induction l generalizing acc with
  | nil => exact hacc
  | cons x xs ih =>
    simp only [List.foldl_cons]
    exact ih _ (tConcatenateRev_inv _ _ hacc (hl x (by simp))) (fun t ht => hl t (by simp [ht]))

theorem tFoldConcat_inv (l : List TSat) (hl : ∀ t ∈ l, t.Inv) : (tFoldConcat l).Inv :=
  foldl_tConcat_inv l _ ⟨rfl, rfl⟩ hl

theorem getElem!_map_s (l : List TSat) (i : Nat) : (l.map (·.s))[i]! = (l[i]!).s := by
  simp only [List.getElem!_eq_getElem?_getD, List.getElem?_map]
  cases l[i]? <;> rfl

theorem getElem!_inv (l : List TSat) (hl : ∀ t ∈ l, t.Inv) (i : Nat) : (l[i]!).Inv := by
  simp only [List.getElem!_eq_getElem?_getD]
  cases h : l[i]? with
  | none => exact default_inv
  | some t => exact hl t (List.mem_of_getElem? h)

/-- the index selection of `thresh` / `thresh_mall` (the first `k` of the stable sort) -/
def chosenIdx (mall : Bool) (k : Nat) (dissats sats : List Sat) : List Nat :=
  let key : Nat → SortKey :=
    if mall then fun i => ⟨false, false, stackWeight sats[i]! dissats[i]!⟩
    else fun i => ⟨decide (sats[i]!.stack = .impossible), sats[i]!.hasSig, stackWeight sats[i]! dissats[i]!⟩
  (sortIdx key dissats.length).take k

/-- the satisfaction half of `Terminal::Thresh` in `sat_dissat` -/
def threshSat (c : SatCfg) (k : Nat) (dissats sats : List Sat) : Sat :=
  if k = dissats.length then foldConcat sats
  else if c.mall then threshMall k dissats sats else threshNonMall k dissats sats

/-- the folded selection with its lock lists -/
def tThreshCand (c : SatCfg) (k : Nat) (td ts : List TSat) : TSat :=
  if k = (td.map (·.s)).length then tFoldConcat ts
  else
    tFoldConcat ((List.range (td.map (·.s)).length).map fun i =>
      if (chosenIdx c.mall k (td.map (·.s)) (ts.map (·.s))).contains i then ts[i]! else td[i]!)

def tThreshSat (c : SatCfg) (k : Nat) (td ts : List TSat) : TSat :=
  let r := threshSat c k (td.map (·.s)) (ts.map (·.s))
  let f := tThreshCand c k td ts
  if f.s = r then f else ⟨r, [], []⟩

@[simp] theorem tThreshSat_s (c : SatCfg) (k : Nat) (td ts : List TSat) :
    (tThreshSat c k td ts).s = threshSat c k (td.map (·.s)) (ts.map (·.s)) := by
  unfold tThreshSat
  simp only
  split
  · assumption
  · rfl

theorem ret_map_s (chosen : List Nat) (td ts : List TSat) (n : Nat) :
    ((List.range n).map fun i => if chosen.contains i then ts[i]! else td[i]!).map (·.s) =
      (List.range n).map fun i => if chosen.contains i then (ts.map (·.s))[i]! else (td.map (·.s))[i]! := by
  simp only [List.map_map]
  apply List.map_congr_left
  intro i _
  simp only [Function.comp, getElem!_map_s]
  split <;> rfl

theorem threshNonMall_cases (k : Nat) (dissats sats : List Sat) :
    threshNonMall k dissats sats = Sat.IMPOSSIBLE ∨ threshNonMall k dissats sats = Sat.UNAVAILABLE ∨
    threshNonMall k dissats sats =
      foldConcat ((List.range dissats.length).map fun i =>
        if (chosenIdx false k dissats sats).contains i then sats[i]! else dissats[i]!) := by
  unfold threshNonMall swapped chosenIdx
  simp only
  split
  · left; rfl
  · split
    · right; left; rfl
    · right; right; rfl

theorem threshMall_eq (k : Nat) (dissats sats : List Sat) :
    threshMall k dissats sats =
      foldConcat ((List.range dissats.length).map fun i =>
        if (chosenIdx true k dissats sats).contains i then sats[i]! else dissats[i]!) := by
  unfold threshMall swapped chosenIdx
  rfl

theorem tThreshCand_inv (c : SatCfg) (k : Nat) (td ts : List TSat)
    (hd : ∀ t ∈ td, t.Inv) (hs : ∀ t ∈ ts, t.Inv) : (tThreshCand c k td ts).Inv := by
  unfold tThreshCand
  split
  · exact tFoldConcat_inv ts hs
  · apply tFoldConcat_inv
    intro t ht
    simp only [List.mem_map, List.mem_range] at ht
    obtain ⟨i, _, rfl⟩ := ht
    split
    · exact getElem!_inv ts hs i
    · exact getElem!_inv td hd i

theorem threshSat_cases (c : SatCfg) (k : Nat) (td ts : List TSat) :
    threshSat c k (td.map (·.s)) (ts.map (·.s)) = Sat.IMPOSSIBLE ∨
    threshSat c k (td.map (·.s)) (ts.map (·.s)) = Sat.UNAVAILABLE ∨
    (tThreshCand c k td ts).s = threshSat c k (td.map (·.s)) (ts.map (·.s)) := by
  unfold threshSat tThreshCand
  by_cases hk : k = (td.map (·.s)).length
  · simp only [hk, if_true]
    right; right
    exact tFoldConcat_s ts
  · simp only [hk, if_false]
    cases hm : c.mall
    · simp only [Bool.false_eq_true, if_false]
      rcases threshNonMall_cases k (td.map (·.s)) (ts.map (·.s)) with h | h | h
      · left; exact h
      · right; left; exact h
      · right; right
        rw [tFoldConcat_s, ret_map_s, h]
    · simp only [if_true]
      right; right
      rw [tFoldConcat_s, ret_map_s, threshMall_eq]

theorem tThreshSat_inv (c : SatCfg) (k : Nat) (td ts : List TSat)
    (hd : ∀ t ∈ td, t.Inv) (hs : ∀ t ∈ ts, t.Inv) : (tThreshSat c k td ts).Inv := by
  unfold tThreshSat
  simp only
  split
  · exact tThreshCand_inv c k td ts hd hs
  · rename_i hne
    rcases threshSat_cases c k td ts with h | h | h
    · rw [h]; exact ⟨rfl, rfl⟩
    · rw [h]; exact ⟨rfl, rfl⟩
    · exact absurd h hne

/-! ### the tracked satisfier -/

mutual
def tSatDissat (c : SatCfg) : Ms → TSatDissat
  | .after n =>
    let sd := satDissat c (.after n)
    ⟨lockFree sd.dissat, ⟨sd.sat, if c.assets.checkAfter n then [n] else [], []⟩⟩
  | .older n =>
    let sd := satDissat c (.older n)
    ⟨lockFree sd.dissat, ⟨sd.sat, [], if c.assets.checkOlder (relCanon n) then [n] else []⟩⟩
  | .alt x | .swap x | .check x | .zeroNotEqual x => tSatDissat c x
  | .dupIf x => ⟨lockFree Sat.push0, tPush .pushOne (tSatDissat c x).sat⟩
  | .verify x => ⟨lockFree Sat.IMPOSSIBLE, (tSatDissat c x).sat⟩
  | .nonZero x => ⟨lockFree Sat.push0, (tSatDissat c x).sat⟩
  | .andB l r =>
    let l := tSatDissat c l; let r := tSatDissat c r
    ⟨tConcatenateRev l.dissat r.dissat, tConcatenateRev l.sat r.sat⟩
  | .andV l r =>
    let l := tSatDissat c l; let r := tSatDissat c r
    ⟨tConcatenateRev l.sat r.dissat, tConcatenateRev l.sat r.sat⟩
  | .andOr a b z =>
    let a := tSatDissat c a; let b := tSatDissat c b; let z := tSatDissat c z
    ⟨tConcatenateRev a.dissat z.dissat,
     tMinFn c (tConcatenateRev a.sat b.sat) (tConcatenateRev a.dissat z.sat)⟩
  | .orB l r =>
    let l := tSatDissat c l; let r := tSatDissat c r
    ⟨tConcatenateRev l.dissat r.dissat,
     tMinFn c (tConcatenateRev l.dissat r.sat) (tConcatenateRev l.sat r.dissat)⟩
  | .orC l r =>
    let l := tSatDissat c l; let r := tSatDissat c r
    ⟨lockFree Sat.IMPOSSIBLE, tMinFn c l.sat (tConcatenateRev l.dissat r.sat)⟩
  | .orD l r =>
    let l := tSatDissat c l; let r := tSatDissat c r
    ⟨tConcatenateRev l.dissat r.dissat, tMinFn c l.sat (tConcatenateRev l.dissat r.sat)⟩
  | .orI l r =>
    let l := tSatDissat c l; let r := tSatDissat c r
    ⟨tMinFn c (tPush .pushOne l.dissat) (tPush .pushZero r.dissat),
     tMinFn c (tPush .pushOne l.sat) (tPush .pushZero r.sat)⟩
  | .thresh k xs =>
    let sds := tSatDissats c xs
    ⟨tFoldConcat (sds.map (·.dissat)), tThreshSat c k (sds.map (·.dissat)) (sds.map (·.sat))⟩
  | .fls => ⟨lockFree (satDissat c .fls).dissat, lockFree (satDissat c .fls).sat⟩
  | .tru => ⟨lockFree (satDissat c .tru).dissat, lockFree (satDissat c .tru).sat⟩
  | .pkK k => ⟨lockFree (satDissat c (.pkK k)).dissat, lockFree (satDissat c (.pkK k)).sat⟩
  | .pkH k => ⟨lockFree (satDissat c (.pkH k)).dissat, lockFree (satDissat c (.pkH k)).sat⟩
  | .rawPkH h => ⟨lockFree (satDissat c (.rawPkH h)).dissat, lockFree (satDissat c (.rawPkH h)).sat⟩
  | .hash kd h => ⟨lockFree (satDissat c (.hash kd h)).dissat, lockFree (satDissat c (.hash kd h)).sat⟩
  | .multi k ks => ⟨lockFree (satDissat c (.multi k ks)).dissat, lockFree (satDissat c (.multi k ks)).sat⟩
  | .sortedMulti k ks => ⟨lockFree (satDissat c (.sortedMulti k ks)).dissat, lockFree (satDissat c (.sortedMulti k ks)).sat⟩
  | .multiA k ks => ⟨lockFree (satDissat c (.multiA k ks)).dissat, lockFree (satDissat c (.multiA k ks)).sat⟩
  | .sortedMultiA k ks => ⟨lockFree (satDissat c (.sortedMultiA k ks)).dissat, lockFree (satDissat c (.sortedMultiA k ks)).sat⟩
def tSatDissats (c : SatCfg) : MsList → List TSatDissat
  | .nil => []
  | .cons x xs => tSatDissat c x :: tSatDissats c xs
end

/-! ### erasure: the `Sat` components are exactly `satDissat` -/

mutual
theorem tSatDissat_s (c : SatCfg) : (ms : Ms) →
    (tSatDissat c ms).dissat.s = (satDissat c ms).dissat ∧
    (tSatDissat c ms).sat.s = (satDissat c ms).sat
  | .after n => by simp [tSatDissat, lockFree]
  | .older n => by simp [tSatDissat, lockFree]
  | .alt x => by simpa [tSatDissat, satDissat] using tSatDissat_s c x
  | .swap x => by simpa [tSatDissat, satDissat] using tSatDissat_s c x
  | .check x => by simpa [tSatDissat, satDissat] using tSatDissat_s c x
  | .zeroNotEqual x => by simpa [tSatDissat, satDissat] using tSatDissat_s c x
  | .dupIf x => by
    have := tSatDissat_s c x
    simp [tSatDissat, satDissat, lockFree, tPush, this.2]
  | .verify x => by
    have := tSatDissat_s c x
    simp [tSatDissat, satDissat, lockFree, this.2]
  | .nonZero x => by
    have := tSatDissat_s c x
    simp [tSatDissat, satDissat, lockFree, this.2]
  | .andB l r => by
    have hl := tSatDissat_s c l; have hr := tSatDissat_s c r
    simp [tSatDissat, satDissat, hl.1, hl.2, hr.1, hr.2]
  | .andV l r => by
    have hl := tSatDissat_s c l; have hr := tSatDissat_s c r
    simp [tSatDissat, satDissat, hl.1, hl.2, hr.1, hr.2]
  | .andOr a b z => by
    have ha := tSatDissat_s c a; have hb := tSatDissat_s c b; have hz := tSatDissat_s c z
    simp [tSatDissat, satDissat, ha.1, ha.2, hb.1, hb.2, hz.1, hz.2]
  | .orB l r => by
    have hl := tSatDissat_s c l; have hr := tSatDissat_s c r
    simp [tSatDissat, satDissat, hl.1, hl.2, hr.1, hr.2]
  | .orC l r => by
    have hl := tSatDissat_s c l; have hr := tSatDissat_s c r
    simp [tSatDissat, satDissat, lockFree, hl.1, hl.2, hr.1, hr.2]
  | .orD l r => by
    have hl := tSatDissat_s c l; have hr := tSatDissat_s c r
    simp [tSatDissat, satDissat, hl.1, hl.2, hr.1, hr.2]
  | .orI l r => by
    have hl := tSatDissat_s c l; have hr := tSatDissat_s c r
    simp [tSatDissat, satDissat, tPush, hl.1, hl.2, hr.1, hr.2]
  | .thresh k xs => by
    have h := tSatDissats_s c xs
    simp only [tSatDissat, satDissat, tFoldConcat_s, tThreshSat_s, List.map_map, Function.comp_def,
      threshSat, List.length_map]
    rw [h.1, h.2]
    have hlen : (tSatDissats c xs).length = (satDissats c xs).length := by
      have := congrArg List.length h.1
      simpa using this
    simp [hlen]
  | .fls => by simp [tSatDissat, lockFree]
  | .tru => by simp [tSatDissat, lockFree]
  | .pkK k => by simp [tSatDissat, lockFree]
  | .pkH k => by simp [tSatDissat, lockFree]
  | .rawPkH h => by simp [tSatDissat, lockFree]
  | .hash kd h => by simp [tSatDissat, lockFree]
  | .multi k ks => by simp [tSatDissat, lockFree]
  | .sortedMulti k ks => by simp [tSatDissat, lockFree]
  | .multiA k ks => by simp [tSatDissat, lockFree]
  | .sortedMultiA k ks => by simp [tSatDissat, lockFree]
theorem tSatDissats_s (c : SatCfg) : (xs : MsList) →
    (tSatDissats c xs).map (fun t => t.dissat.s) = (satDissats c xs).map (·.dissat) ∧
    (tSatDissats c xs).map (fun t => t.sat.s) = (satDissats c xs).map (·.sat)
  | .nil => by simp [tSatDissats, satDissats]
  | .cons x xs => by
    have hx := tSatDissat_s c x; have hxs := tSatDissats_s c xs
    simp [tSatDissats, satDissats, hx.1, hx.2, hxs.1, hxs.2]
end

/-! ### the invariant -/

theorem multiSD_locks (ctx : Ctx) (a : Assets) (k : Nat) (ks : List Key) :
    (multiSD ctx a k ks).dissat.abs = none ∧ (multiSD ctx a k ks).dissat.rel = none ∧
    (multiSD ctx a k ks).sat.abs = none ∧ (multiSD ctx a k ks).sat.rel = none := by
  unfold multiSD
  simp only
  split <;> simp [Sat.IMPOSSIBLE]

theorem multiASD_locks (ctx : Ctx) (a : Assets) (k : Nat) (ks : List Key) :
    (multiASD ctx a k ks).dissat.abs = none ∧ (multiASD ctx a k ks).dissat.rel = none ∧
    (multiASD ctx a k ks).sat.abs = none ∧ (multiASD ctx a k ks).sat.rel = none := by
  unfold multiASD
  simp only
  split <;> simp [Sat.IMPOSSIBLE]

theorem lockFree_pair_inv (sd : SatDissat)
    (h : sd.dissat.abs = none ∧ sd.dissat.rel = none ∧ sd.sat.abs = none ∧ sd.sat.rel = none) :
    (lockFree sd.dissat).Inv ∧ (lockFree sd.sat).Inv :=
  ⟨lockFree_inv _ h.1 h.2.1, lockFree_inv _ h.2.2.1 h.2.2.2⟩

mutual
theorem tSatDissat_inv (c : SatCfg) : (ms : Ms) →
    (tSatDissat c ms).dissat.Inv ∧ (tSatDissat c ms).sat.Inv
  | .after n => by
    simp only [tSatDissat, satDissat]
    refine ⟨lockFree_inv _ rfl rfl, ?_⟩
    by_cases h : c.assets.checkAfter n = true
    · simp [h, TSat.Inv, AbsInv, RelInv]
    · simp only [h]
      cases c.rootHasSig <;> simp [TSat.Inv, AbsInv, RelInv]
  | .older n => by
    simp only [tSatDissat, satDissat]
    refine ⟨lockFree_inv _ rfl rfl, ?_⟩
    by_cases h : c.assets.checkOlder (relCanon n) = true
    · simp [h, TSat.Inv, AbsInv, RelInv]
    · simp only [h]
      cases c.rootHasSig <;> simp [TSat.Inv, AbsInv, RelInv]
  | .alt x => by simpa [tSatDissat] using tSatDissat_inv c x
  | .swap x => by simpa [tSatDissat] using tSatDissat_inv c x
  | .check x => by simpa [tSatDissat] using tSatDissat_inv c x
  | .zeroNotEqual x => by simpa [tSatDissat] using tSatDissat_inv c x
  | .dupIf x => by
    have := tSatDissat_inv c x
    simp only [tSatDissat]
    exact ⟨lockFree_inv _ rfl rfl, tPush_inv _ _ this.2⟩
  | .verify x => by
    have := tSatDissat_inv c x
    simp only [tSatDissat]
    exact ⟨lockFree_inv _ rfl rfl, this.2⟩
  | .nonZero x => by
    have := tSatDissat_inv c x
    simp only [tSatDissat]
    exact ⟨lockFree_inv _ rfl rfl, this.2⟩
  | .andB l r => by
    have hl := tSatDissat_inv c l; have hr := tSatDissat_inv c r
    simp only [tSatDissat]
    exact ⟨tConcatenateRev_inv _ _ hl.1 hr.1, tConcatenateRev_inv _ _ hl.2 hr.2⟩
  | .andV l r => by
    have hl := tSatDissat_inv c l; have hr := tSatDissat_inv c r
    simp only [tSatDissat]
    exact ⟨tConcatenateRev_inv _ _ hl.2 hr.1, tConcatenateRev_inv _ _ hl.2 hr.2⟩
  | .andOr a b z => by
    have ha := tSatDissat_inv c a; have hb := tSatDissat_inv c b; have hz := tSatDissat_inv c z
    simp only [tSatDissat]
    exact ⟨tConcatenateRev_inv _ _ ha.1 hz.1,
      tMinFn_inv c _ _ (tConcatenateRev_inv _ _ ha.2 hb.2) (tConcatenateRev_inv _ _ ha.1 hz.2)⟩
  | .orB l r => by
    have hl := tSatDissat_inv c l; have hr := tSatDissat_inv c r
    simp only [tSatDissat]
    exact ⟨tConcatenateRev_inv _ _ hl.1 hr.1,
      tMinFn_inv c _ _ (tConcatenateRev_inv _ _ hl.1 hr.2) (tConcatenateRev_inv _ _ hl.2 hr.1)⟩
  | .orC l r => by
    have hl := tSatDissat_inv c l; have hr := tSatDissat_inv c r
    simp only [tSatDissat]
    exact ⟨lockFree_inv _ rfl rfl, tMinFn_inv c _ _ hl.2 (tConcatenateRev_inv _ _ hl.1 hr.2)⟩
  | .orD l r => by
    have hl := tSatDissat_inv c l; have hr := tSatDissat_inv c r
    simp only [tSatDissat]
    exact ⟨tConcatenateRev_inv _ _ hl.1 hr.1, tMinFn_inv c _ _ hl.2 (tConcatenateRev_inv _ _ hl.1 hr.2)⟩
  | .orI l r => by
    have hl := tSatDissat_inv c l; have hr := tSatDissat_inv c r
    simp only [tSatDissat]
    exact ⟨tMinFn_inv c _ _ (tPush_inv _ _ hl.1) (tPush_inv _ _ hr.1),
      tMinFn_inv c _ _ (tPush_inv _ _ hl.2) (tPush_inv _ _ hr.2)⟩
  | .thresh k xs => by
    have h := tSatDissats_inv c xs
    simp only [tSatDissat]
    have hd : ∀ t ∈ (tSatDissats c xs).map (·.dissat), t.Inv := by
      intro t ht; simp only [List.mem_map] at ht; obtain ⟨sd, hsd, rfl⟩ := ht; exact (h sd hsd).1
    have hs : ∀ t ∈ (tSatDissats c xs).map (·.sat), t.Inv := by
      intro t ht; simp only [List.mem_map] at ht; obtain ⟨sd, hsd, rfl⟩ := ht; exact (h sd hsd).2
    exact ⟨tFoldConcat_inv _ hd, tThreshSat_inv c k _ _ hd hs⟩
  | .fls => by simp only [tSatDissat]; exact lockFree_pair_inv _ (by simp [satDissat, Sat.IMPOSSIBLE, Sat.TRIVIAL])
  | .tru => by simp only [tSatDissat]; exact lockFree_pair_inv _ (by simp [satDissat, Sat.IMPOSSIBLE, Sat.TRIVIAL])
  | .pkK k => by simp only [tSatDissat]; exact lockFree_pair_inv _ (by simp [satDissat, Sat.push0])
  | .pkH k => by simp only [tSatDissat]; exact lockFree_pair_inv _ (by simp [satDissat])
  | .rawPkH h => by simp only [tSatDissat]; exact lockFree_pair_inv _ (by simp [satDissat])
  | .hash kd h => by simp only [tSatDissat]; exact lockFree_pair_inv _ (by simp [satDissat])
  | .multi k ks => by simp only [tSatDissat]; exact lockFree_pair_inv _ (by simpa [satDissat] using multiSD_locks _ _ _ _)
  | .sortedMulti k ks => by simp only [tSatDissat]; exact lockFree_pair_inv _ (by simpa [satDissat] using multiSD_locks _ _ _ _)
  | .multiA k ks => by simp only [tSatDissat]; exact lockFree_pair_inv _ (by simpa [satDissat] using multiASD_locks _ _ _ _)
  | .sortedMultiA k ks => by simp only [tSatDissat]; exact lockFree_pair_inv _ (by simpa [satDissat] using multiASD_locks _ _ _ _)
theorem tSatDissats_inv (c : SatCfg) : (xs : MsList) →
    ∀ sd ∈ tSatDissats c xs, sd.dissat.Inv ∧ sd.sat.Inv
  | .nil => by simp [tSatDissats]
  | .cons x xs => by
    intro sd hsd
    simp only [tSatDissats, List.mem_cons] at hsd
    rcases hsd with rfl | hsd
    · exact tSatDissat_inv c x
    · exact tSatDissats_inv c xs sd hsd
end

end MsVerif.PlanLocks

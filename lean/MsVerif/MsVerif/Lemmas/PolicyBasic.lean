/-
Helper lemmas for C18: induction principle for the nested policy types, list forms of the
mutually recursive "…List" functions, counting.
-/
import MsVerif.Model.Concrete

namespace MsVerif.Pol
open Sem

/-! ## Induction over policies -/

mutual
theorem Policy.induct' {P : Policy → Prop} (unsat : P .unsat) (trivial : P .trivial)
    (atom : ∀ a, P (.atom a))
    (thresh : ∀ k subs, (∀ p ∈ subs, P p) → P (.thresh k subs)) : ∀ p, P p
  | .unsat => unsat
  | .trivial => trivial
  | .atom a => atom a
  | .thresh k subs => thresh k subs (Policy.inductList unsat trivial atom thresh subs)
theorem Policy.inductList {P : Policy → Prop} (unsat : P .unsat) (trivial : P .trivial)
    (atom : ∀ a, P (.atom a))
    (thresh : ∀ k subs, (∀ p ∈ subs, P p) → P (.thresh k subs)) : ∀ (l : List Policy), ∀ p ∈ l, P p
  | [] => by simp
  | q :: qs => by
    intro p hp
    rcases List.mem_cons.mp hp with h | h
    · exact h ▸ Policy.induct' unsat trivial atom thresh q
    · exact Policy.inductList unsat trivial atom thresh qs p h
end

mutual
theorem CPolicy.induct' {P : CPolicy → Prop} (unsat : P .unsat) (trivial : P .trivial)
    (atom : ∀ a, P (.atom a))
    (and : ∀ subs, (∀ p ∈ subs, P p) → P (.and subs))
    (or : ∀ subs, (∀ p ∈ subs, P p) → P (.or subs))
    (thresh : ∀ k subs, (∀ p ∈ subs, P p) → P (.thresh k subs)) : ∀ p, P p
  | .unsat => unsat
  | .trivial => trivial
  | .atom a => atom a
  | .and subs => and subs (CPolicy.inductList unsat trivial atom and or thresh subs)
  | .or subs => or subs (CPolicy.inductList unsat trivial atom and or thresh subs)
  | .thresh k subs => thresh k subs (CPolicy.inductList unsat trivial atom and or thresh subs)
theorem CPolicy.inductList {P : CPolicy → Prop} (unsat : P .unsat) (trivial : P .trivial)
    (atom : ∀ a, P (.atom a))
    (and : ∀ subs, (∀ p ∈ subs, P p) → P (.and subs))
    (or : ∀ subs, (∀ p ∈ subs, P p) → P (.or subs))
    (thresh : ∀ k subs, (∀ p ∈ subs, P p) → P (.thresh k subs)) : ∀ (l : List CPolicy), ∀ p ∈ l, P p
  | [] => by simp
  | q :: qs => by
    intro p hp
    rcases List.mem_cons.mp hp with h | h
    · exact h ▸ CPolicy.induct' unsat trivial atom and or thresh q
    · exact CPolicy.inductList unsat trivial atom and or thresh qs p h
end

/-! ## List forms -/

theorem countA_eq (v : Atom → Bool) (l : List Policy) : countA v l = l.countP (holdsA v) := by
  induction l with
  | nil => simp [countA]
  | cons p ps ih => rw [countA, ih, List.countP_cons]; omega

theorem countC_eq (v : Atom → Bool) (l : List CPolicy) : countC v l = l.countP (holdsC v) := by
  induction l with
  | nil => simp [countC]
  | cons p ps ih => rw [countC, ih, List.countP_cons]; omega

theorem holdsA_thresh (v : Atom → Bool) (k : Nat) (subs : List Policy) :
    holdsA v (.thresh k subs) = decide (k ≤ subs.countP (holdsA v)) := by
  rw [holdsA, countA_eq]

theorem normalizedList_eq (l : List Policy) : normalizedList l = l.map normalized := by
  induction l with
  | nil => simp [normalizedList]
  | cons p ps ih => simp [normalizedList, ih]

theorem sortedList_eq (l : List Policy) : sortedList l = l.map sorted := by
  induction l with
  | nil => simp [sortedList]
  | cons p ps ih => simp [sortedList, ih]

theorem atAgeRawList_eq (a : Nat) (l : List Policy) : atAgeRawList a l = l.map (atAgeRaw a) := by
  induction l with
  | nil => simp [atAgeRawList]
  | cons p ps ih => simp [atAgeRawList, ih]

theorem atLockTimeRawList_eq (a : Nat) (l : List Policy) :
    atLockTimeRawList a l = l.map (atLockTimeRaw a) := by
  induction l with
  | nil => simp [atLockTimeRawList]
  | cons p ps ih => simp [atLockTimeRawList, ih]

theorem minimumNKeysList_eq (l : List Policy) : minimumNKeysList l = l.map minimumNKeys := by
  induction l with
  | nil => simp [minimumNKeysList]
  | cons p ps ih => simp [minimumNKeysList, ih]

theorem selsList_eq (l : List Policy) : selsList l = l.map sels := by
  induction l with
  | nil => simp [selsList]
  | cons p ps ih => simp [selsList, ih]

theorem selsCList_eq (u : Bool) (l : List CPolicy) : selsCList u l = l.map (selsC u) := by
  induction l with
  | nil => simp [selsCList]
  | cons p ps ih => simp [selsCList, ih]

theorem atomsOfList_eq (l : List Policy) : atomsOfList l = l.flatMap atomsOf := by
  induction l with
  | nil => simp [atomsOfList]
  | cons p ps ih => simp [atomsOfList, ih]

theorem satisfyConstraintList_eq (w : Policy) (b : Bool) (l : List Policy) :
    satisfyConstraintList w b l = l.map (satisfyConstraint w b) := by
  induction l with
  | nil => simp [satisfyConstraintList]
  | cons p ps ih => simp [satisfyConstraintList, ih]

theorem nTerminalsList_eq (l : List Policy) : nTerminalsList l = (l.map nTerminals).sum := by
  induction l with
  | nil => simp [nTerminalsList]
  | cons p ps ih => simp [nTerminalsList, ih]

theorem liftUncheckedList_eq (l : List CPolicy) :
    Conc.liftUncheckedList l = l.map Conc.liftUnchecked := by
  induction l with
  | nil => simp [Conc.liftUncheckedList]
  | cons p ps ih => simp [Conc.liftUncheckedList, ih]

theorem timelockInfoList_eq (l : List CPolicy) :
    Conc.timelockInfoList l = l.map Conc.timelockInfo := by
  induction l with
  | nil => simp [Conc.timelockInfoList]
  | cons p ps ih => simp [Conc.timelockInfoList, ih]

/-! ## Counting -/

/-- congruence: truth values agree member-wise ⇒ same count -/
theorem countP_map_congr {α β} (f : α → β) (p : α → Bool) (q : β → Bool) (l : List α)
    (h : ∀ x ∈ l, q (f x) = p x) : (l.map f).countP q = l.countP p := by
  induction l with
  | nil => simp
  | cons x xs ih =>
    have hx := h x (by simp)
    have := ih (fun y hy => h y (by simp [hy]))
    simp [List.countP_cons, hx, this]

end MsVerif.Pol

/-
Helper lemmas for C15: `TapTreeBuilder` driven by the pre-order walk of a `{…}` expression
rebuilds exactly the tree's depth list, and rejects exactly the trees deeper than 128.
Simulation of the bitmap builder by the abstract (depth list, `List Bool`) builder, then
induction on the tree at the abstract level.
-/
import MsVerif.Lemmas.TapTreeBits
import MsVerif.Lemmas.TapTreeSpec

set_option linter.unusedSimpArgs false

namespace MsVerif.Tap
open MsVerif.Spec MsVerif.Spec.Tree

variable {α : Type}

theorem bitAt_lt (b : Builder α) (i : Nat) (h : i < 128) :
    b.bitAt i = b.completeHeights.getLsbD i := by
  have : i ≠ 128 := by omega
  simp [Builder.bitAt, this]

/-- a builder state whose level-128 flag is clear and whose bitmap represents `l` -/
theorem RB_of_bits (b : Builder α) (l : List Bool) (hle : l.length ≤ 127)
    (hh : b.currentHeight = l.length) (hr : Rep b.completeHeights.getLsbD 1 l)
    (hc : ∀ i, l.length < i → i ≤ 127 → b.completeHeights.getLsbD i = false)
    (h128 : b.complete128 = false) : RB b l := by
  refine ⟨hh, by omega, ?_, ?_⟩
  · refine Rep.congr ?_ hr
    intro i _ hi
    exact (bitAt_lt b i (by omega)).symm
  · intro i h1 h2
    by_cases e : i = 128
    · simp [Builder.bitAt, e, h128]
    · rw [bitAt_lt b i (by omega)]
      exact hc i h1 (by omega)

theorem pushLeaf_128_false (b : Builder α) (s : α) (c : b.currentHeight = 128)
    (h : b.complete128 = false) :
    b.pushLeaf s = ⟨b.depthsLeaves ++ [(128, s)], b.completeHeights, true, 128⟩ := by
  simp [Builder.pushLeaf, MAXN, c, h]

theorem pushLeaf_128_true (b : Builder α) (s : α) (c : b.currentHeight = 128)
    (h : b.complete128 = true) :
    b.pushLeaf s = ⟨b.depthsLeaves ++ [(128, s)], (Builder.heightLoop b.completeHeights 127).1,
      false, (Builder.heightLoop b.completeHeights 127).2⟩ := by
  simp [Builder.pushLeaf, MAXN, c, h]

theorem pushLeaf_lt (b : Builder α) (s : α) (c : b.currentHeight ≠ 128) :
    b.pushLeaf s = ⟨b.depthsLeaves ++ [(b.currentHeight, s)],
      (Builder.heightLoop b.completeHeights b.currentHeight).1, b.complete128,
      (Builder.heightLoop b.completeHeights b.currentHeight).2⟩ := by
  simp [Builder.pushLeaf, MAXN, c]

theorem pushLeaf_sim {b : Builder α} {st : List (Nat × α) × List Bool} (h : Sim b st) (s : α) :
    Sim (b.pushLeaf s) (st.1 ++ [(st.2.length, s)], unwindL st.2) := by
  obtain ⟨hd, hh, hle, hr, hc⟩ := h
  by_cases c : b.currentHeight = 128
  · -- level 128: the `complete_128` flag
    rcases hl : st.2 with _ | ⟨x, l⟩
    · rw [hl] at hh; simp at hh; omega
    · rw [hl] at hh hle hr hc
      simp only [List.length_cons] at hh hle hc
      have hl127 : l.length = 127 := by omega
      obtain ⟨hx, hr'⟩ := hr
      have hx' : b.complete128 = x := by
        have : l.length + 1 = 128 := by omega
        rw [this] at hx
        simpa [Builder.bitAt] using hx
      cases x with
      | false =>
        rw [pushLeaf_128_false b s c hx']
        refine ⟨by simp [hd, hl127], ?_⟩
        simp only [unwindL]
        refine ⟨by simp [hl127], by simp [hl127], ⟨?_, ?_⟩, ?_⟩
        · simp [Builder.bitAt, hl127]
        · refine Rep.congr ?_ hr'
          intro i _ hi
          have : i ≠ 128 := by omega
          simp [Builder.bitAt, this]
        · intro i h1 h2
          simp at h1; omega
      | true =>
        rw [pushLeaf_128_true b s c hx']
        refine ⟨by simp [hd, hl127], ?_⟩
        simp only [unwindL]
        have hrb : Rep b.completeHeights.getLsbD 1 l := by
          refine Rep.congr ?_ hr'
          intro i _ hi
          exact bitAt_lt b i (by omega)
        have hs := heightLoop_sim l b.completeHeights (by omega) hrb (by intro i h1 h2; omega)
        rw [hl127] at hs
        have hul := unwindL_length_le l
        exact RB_of_bits _ _ (by omega) hs.1 hs.2.1 hs.2.2 rfl
  · -- levels ≤ 127: the bitmap
    have hl127 : st.2.length ≤ 127 := by omega
    rw [pushLeaf_lt b s c]
    refine ⟨by simp [hd, hh], ?_⟩
    have hrb : Rep b.completeHeights.getLsbD 1 st.2 := by
      refine Rep.congr ?_ hr
      intro i _ hi
      exact bitAt_lt b i (by omega)
    have hcb : ∀ i, st.2.length < i → i ≤ 127 → b.completeHeights.getLsbD i = false := by
      intro i h1 h2
      rw [← bitAt_lt b i (by omega)]
      exact hc i h1 (by omega)
    have hs := heightLoop_sim st.2 b.completeHeights hl127 hrb hcb
    rw [← hh] at hs
    have hul := unwindL_length_le st.2
    have h128 : b.complete128 = false := by
      have := hc 128 (by omega) (by omega)
      simpa [Builder.bitAt] using this
    show RB _ (unwindL st.2)
    exact RB_of_bits _ _ (by omega) hs.1 hs.2.1 hs.2.2 h128

/-- the abstract builder run -/
def runL (ops : List (BOp α)) (st : List (Nat × α) × List Bool) :
    Option (List (Nat × α) × List Bool) :=
  ops.foldlM stepL st

theorem run_sim (ops : List (BOp α)) : ∀ (b : Builder α) (st : List (Nat × α) × List Bool),
    Sim b st →
    (Builder.run ops b = none ∧ runL ops st = none) ∨
    ∃ b' st', Builder.run ops b = some b' ∧ runL ops st = some st' ∧ Sim b' st' := by
  induction ops with
  | nil => intro b st h; exact Or.inr ⟨b, st, rfl, rfl, h⟩
  | cons op ops ih =>
    intro b st h
    cases op with
    | inner =>
      rcases pushInner_sim h with ⟨h1, h2⟩ | ⟨b', st', h1, h2, h3⟩
      · left; simp [Builder.run, runL, Builder.step, h1, h2]
      · have := ih b' st' h3
        simpa [Builder.run, runL, Builder.step, h1, h2] using this
    | leaf s =>
      have := ih _ _ (pushLeaf_sim h s)
      simpa [Builder.run, runL, Builder.step, stepL] using this

/-- pre-order walk of the `{l,r}` expression, as `Tr::from_tree` performs it -/
def opsOf : Tree α → List (BOp α)
  | .leaf s => [.leaf s]
  | .node l r => .inner :: (opsOf l ++ opsOf r)

/-- the abstract builder on a subtree: appends its depth list and completes one subtree;
fails exactly when the subtree would reach below level 128 -/
theorem runL_tree (t : Tree α) : ∀ (st : List (Nat × α) × List Bool), st.2.length ≤ 128 →
    runL (opsOf t) st =
      if st.2.length + height t ≤ 128 then some (st.1 ++ depthsFrom st.2.length t, unwindL st.2)
      else none := by
  induction t with
  | leaf s =>
    intro st hst
    simp [runL, opsOf, stepL, height, depthsFrom, hst]
  | node l r ihl ihr =>
    intro st hst
    simp only [opsOf, runL, List.foldlM_cons, stepL]
    by_cases c : st.2.length + 1 > 128
    · have : ¬ (st.2.length + height (l.node r) ≤ 128) := by simp [height]; omega
      simp [c, this]
    · simp only [c, if_false, List.foldlM_append, bind, Option.bind]
      have hl := ihl (st.1, false :: st.2) (by simp; omega)
      simp only [runL, List.length_cons] at hl
      rw [hl]
      by_cases cl : st.2.length + 1 + height l ≤ 128
      · simp only [cl, if_true, unwindL]
        have hr := ihr (st.1 ++ depthsFrom (st.2.length + 1) l, true :: st.2) (by simp; omega)
        simp only [runL, List.length_cons] at hr
        rw [hr]
        by_cases cr : st.2.length + 1 + height r ≤ 128
        · have : st.2.length + height (l.node r) ≤ 128 := by simp [height]; omega
          simp [cr, this, unwindL, depthsFrom, List.append_assoc]
        · have : ¬ (st.2.length + height (l.node r) ≤ 128) := by simp [height]; omega
          simp [cr, this]
      · have : ¬ (st.2.length + height (l.node r) ≤ 128) := by simp [height]; omega
        simp [cl, this]

/-- T3 core: parsing a tree expression with the real (bitmap) builder -/
theorem buildFromOps_tree (t : Tree α) :
    buildFromOps (opsOf t) = if height t ≤ 128 then some (depths t) else none := by
  have hs : Sim (Builder.new : Builder α) ([], []) := ⟨rfl, RB_new⟩
  have ht := runL_tree t ([], []) (by simp)
  simp only [List.length_nil, Nat.zero_add, List.nil_append, unwindL] at ht
  rcases run_sim (opsOf t) _ _ hs with ⟨h1, h2⟩ | ⟨b', st', h1, h2, h3⟩
  · rw [h2] at ht
    by_cases c : height t ≤ 128
    · simp [c] at ht
    · simp [buildFromOps, h1, c]
  · rw [h2] at ht
    by_cases c : height t ≤ 128
    · simp only [c, if_true, Option.some.injEq] at ht
      have hd : b'.depthsLeaves = depthsFrom 0 t := by rw [h3.1, ht]
      have hne := depthsFrom_ne_nil t 0
      simp [buildFromOps, h1, Builder.finalize, hd, hne, c, depths]
    · simp [c] at ht

/-- the builder never leaves the range in which its shifts are meaningful -/
theorem run_height_le (ops : List (BOp α)) (b' : Builder α)
    (h : Builder.run ops (Builder.new : Builder α) = some b') : b'.currentHeight ≤ 128 := by
  rcases run_sim ops _ _ (⟨rfl, RB_new⟩ : Sim (Builder.new : Builder α) ([], []))
    with ⟨h1, _⟩ | ⟨b'', st', h1, _, h3⟩
  · rw [h1] at h; cases h
  · rw [h1] at h; cases h
    have := h3.2.1; have := h3.2.2.1; omega

end MsVerif.Tap

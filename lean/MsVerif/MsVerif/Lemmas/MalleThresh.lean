/-
Helper lemmas for C03: the stable index sort of `Satisfaction::thresh` (`sortIdx`) is a sorted
permutation of `0..n`, and the consequence used by the non-malleable threshold: if more than
`k` children have a signature-less, not-impossible satisfaction, the `(k+1)`-th index in sort
order is one of them, so the threshold refuses.
(Self-contained on purpose; `Lemmas/CompleteSort.lean` has related facts for C02.)
-/
import MsVerif.Model.Satisfy

namespace MsVerif.MalleThresh
open MsVerif

/-! ### the order -/

theorem le_total (a b : SortKey) : a.le b = true ∨ b.le a = true := by
  obtain ⟨ai, as, aw⟩ := a
  obtain ⟨bi, bs, bw⟩ := b
  cases ai <;> cases bi <;> cases as <;> cases bs <;> simp [SortKey.le] <;> omega

theorem le_trans {a b c : SortKey} (h1 : a.le b = true) (h2 : b.le c = true) : a.le c = true := by
  obtain ⟨ai, as, aw⟩ := a
  obtain ⟨bi, bs, bw⟩ := b
  obtain ⟨ci, cs, cw⟩ := c
  cases ai <;> cases bi <;> cases ci <;> cases as <;> cases bs <;> cases cs <;>
    simp [SortKey.le] at h1 h2 ⊢ <;> omega

/-- the best class: not impossible, no signature -/
def best (s : SortKey) : Bool := !s.imp && !s.sig

theorem best_down {a b : SortKey} (h : a.le b = true) (hb : best b = true) : best a = true := by
  obtain ⟨ai, as, aw⟩ := a
  obtain ⟨bi, bs, bw⟩ := b
  cases ai <;> cases bi <;> cases as <;> cases bs <;> simp [SortKey.le, best] at h hb ⊢

/-! ### insertion sort -/

def Sorted (key : Nat → SortKey) (l : List Nat) : Prop :=
  l.Pairwise (fun x y => (key x).le (key y) = true)

theorem insertIdx_perm (key : Nat → SortKey) (i : Nat) (l : List Nat) :
    (insertIdx key i l).Perm (i :: l) := by
  induction l with
  | nil => exact List.Perm.refl _
  | cons j js ih =>
    simp only [insertIdx]
    split
    · exact (List.Perm.cons j ih).trans (List.Perm.swap i j js)
    · exact List.Perm.refl _

theorem insertIdx_sorted (key : Nat → SortKey) (i : Nat) (l : List Nat) (h : Sorted key l) :
    Sorted key (insertIdx key i l) := by
  induction l with
  | nil => simp [insertIdx, Sorted]
  | cons j js ih =>
    simp only [insertIdx]
    have hc := List.pairwise_cons.mp h
    split
    · rename_i hji
      refine List.pairwise_cons.mpr ⟨?_, ih hc.2⟩
      intro y hy
      rcases List.mem_cons.mp ((insertIdx_perm key i js).mem_iff.mp hy) with rfl | hy
      · exact hji
      · exact hc.1 y hy
    · rename_i hji
      have hij : (key i).le (key j) = true := by
        rcases le_total (key i) (key j) with h' | h'
        · exact h'
        · exact absurd h' hji
      refine List.pairwise_cons.mpr ⟨?_, h⟩
      intro y hy
      rcases List.mem_cons.mp hy with rfl | hy
      · exact hij
      · exact le_trans hij (hc.1 y hy)

theorem foldl_insert_spec (key : Nat → SortKey) (xs acc : List Nat) (h : Sorted key acc) :
    Sorted key (xs.foldl (fun acc i => insertIdx key i acc) acc) ∧
    (xs.foldl (fun acc i => insertIdx key i acc) acc).Perm (xs ++ acc) := by
  induction xs generalizing acc with
  | nil => exact ⟨h, List.Perm.refl _⟩
  | cons x xs ih =>
    simp only [List.foldl_cons]
    obtain ⟨h1, h2⟩ := ih (insertIdx key x acc) (insertIdx_sorted key x acc h)
    refine ⟨h1, h2.trans ?_⟩
    have : (xs ++ insertIdx key x acc).Perm (xs ++ x :: acc) :=
      List.Perm.append_left xs (insertIdx_perm key x acc)
    exact this.trans (List.perm_middle)

theorem sortIdx_sorted (key : Nat → SortKey) (n : Nat) : Sorted key (sortIdx key n) :=
  (foldl_insert_spec key (List.range n) [] List.Pairwise.nil).1

theorem sortIdx_perm (key : Nat → SortKey) (n : Nat) : (sortIdx key n).Perm (List.range n) := by
  have := (foldl_insert_spec key (List.range n) [] List.Pairwise.nil).2
  simpa [sortIdx] using this

theorem sortIdx_length (key : Nat → SortKey) (n : Nat) : (sortIdx key n).length = n := by
  rw [(sortIdx_perm key n).length_eq, List.length_range]

theorem sortIdx_nodup (key : Nat → SortKey) (n : Nat) : (sortIdx key n).Nodup :=
  (sortIdx_perm key n).nodup_iff.mpr List.nodup_range

theorem sortIdx_lt (key : Nat → SortKey) (n : Nat) {i : Nat} (h : i ∈ sortIdx key n) : i < n :=
  List.mem_range.mp ((sortIdx_perm key n).mem_iff.mp h)

/-! ### the counting argument -/

/-- if more than `k` indices are in the best class, position `k` of the sorted index list is -/
theorem best_at_k (key : Nat → SortKey) (n k : Nat)
    (hcount : k < (List.range n).countP (fun i => best (key i))) :
    ∃ hk : k < (sortIdx key n).length, best (key (sortIdx key n)[k]) = true := by
  have hlen := sortIdx_length key n
  have hle : (List.range n).countP (fun i => best (key i)) ≤ n := by
    have := @List.countP_le_length _ (fun i => best (key i)) (List.range n)
    simpa using this
  have hk : k < (sortIdx key n).length := by omega
  refine ⟨hk, ?_⟩
  cases hb : best (key (sortIdx key n)[k]) with
  | true => rfl
  | false =>
    exfalso
    -- nothing at or after position k is in the best class
    have hsplit : (sortIdx key n) = (sortIdx key n).take k ++ (sortIdx key n).drop k :=
      (List.take_append_drop k _).symm
    have hdrop : (sortIdx key n).drop k = (sortIdx key n)[k] :: (sortIdx key n).drop (k + 1) :=
      List.drop_eq_getElem_cons hk
    have hs : Sorted key ((sortIdx key n).drop k) := by
      have := sortIdx_sorted key n
      unfold Sorted at this ⊢
      rw [hsplit] at this
      exact (List.pairwise_append.mp this).2.1
    rw [hdrop] at hs
    have hhead := (List.pairwise_cons.mp hs).1
    have hnone : ∀ y ∈ (sortIdx key n).drop k, best (key y) = false := by
      intro y hy
      rw [hdrop] at hy
      rcases List.mem_cons.mp hy with rfl | hy
      · exact hb
      · cases hy' : best (key y) with
        | false => rfl
        | true => rw [best_down (hhead y hy) hy'] at hb; cases hb
    have hc0 : ((sortIdx key n).drop k).countP (fun i => best (key i)) = 0 := by
      rw [List.countP_eq_zero]
      intro y hy; simp [hnone y hy]
    have hc1 : ((sortIdx key n).take k).countP (fun i => best (key i)) ≤ k := by
      have := @List.countP_le_length _ (fun i => best (key i)) ((sortIdx key n).take k)
      have hl : ((sortIdx key n).take k).length ≤ k := by simp [List.length_take]; omega
      omega
    have hperm := (sortIdx_perm key n).countP_eq (fun i => best (key i))
    rw [hsplit, List.countP_append, hc0] at hperm
    omega

theorem not_mem_take_of_nodup {l : List Nat} (h : l.Nodup) (k : Nat) (hk : k < l.length) :
    l[k] ∉ l.take k := by
  intro hmem
  obtain ⟨j, hj, hjeq⟩ := List.getElem_of_mem hmem
  have hjk : j < k := by simp [List.length_take] at hj; omega
  rw [List.getElem_take] at hjeq
  have hp := List.pairwise_iff_getElem.mp h j k (by omega) hk hjk
  exact hp hjeq

/-! ### `Satisfaction::thresh` refuses -/

/-- the sort key used by the non-malleable threshold -/
def nmKey (dissats sats : List Sat) : Nat → SortKey :=
  fun i => ⟨decide (sats[i]!.stack = .impossible), sats[i]!.hasSig, stackWeight sats[i]! dissats[i]!⟩

/-- if more than `k` children have a satisfaction that is not impossible and carries no
signature, the non-malleable threshold does not return a stack -/
theorem threshNonMall_refuses (k : Nat) (dissats sats : List Sat)
    (hcount : k < (List.range dissats.length).countP
      (fun i => !decide (sats[i]!.stack = .impossible) && !sats[i]!.hasSig)) :
    threshNonMall k dissats sats = Sat.IMPOSSIBLE ∨ threshNonMall k dissats sats = Sat.UNAVAILABLE := by
  obtain ⟨hk, hbest⟩ := best_at_k (nmKey dissats sats) dissats.length k (by simpa [best, nmKey] using hcount)
  have hlt := sortIdx_lt _ _ (List.getElem_mem hk)
  have hnot := not_mem_take_of_nodup (sortIdx_nodup (nmKey dissats sats) dissats.length) k hk
  unfold threshNonMall
  simp only
  split
  · exact .inl rfl
  · split
    · exact .inr rfl
    · rename_i hcond
      exfalso
      apply hcond
      -- the (k+1)-th sorted index: its entry in `rest` is the original satisfaction
      have hidx : (sortIdx (nmKey dissats sats) dissats.length)[k]! = (sortIdx (nmKey dissats sats) dissats.length)[k] :=
        getElem!_pos _ k hk
      show (!((swapped k (sortIdx (nmKey dissats sats) dissats.length) dissats sats).2[(sortIdx (nmKey dissats sats) dissats.length)[k]!]!).hasSig &&
        decide (((swapped k (sortIdx (nmKey dissats sats) dissats.length) dissats sats).2[(sortIdx (nmKey dissats sats) dissats.length)[k]!]!).stack ≠ .impossible)) = true
      rw [hidx]
      have hrest : (swapped k (sortIdx (nmKey dissats sats) dissats.length) dissats sats).2[(sortIdx (nmKey dissats sats) dissats.length)[k]]!
          = sats[(sortIdx (nmKey dissats sats) dissats.length)[k]]! := by
        simp only [swapped]
        rw [getElem!_pos _ _ (by simpa using hlt)]
        simp only [List.getElem_map, List.getElem_range]
        have : ((sortIdx (nmKey dissats sats) dissats.length).take k).contains
            (sortIdx (nmKey dissats sats) dissats.length)[k] = false := by
          cases hc : ((sortIdx (nmKey dissats sats) dissats.length).take k).contains
              (sortIdx (nmKey dissats sats) dissats.length)[k] with
          | false => rfl
          | true => exact absurd (List.contains_iff_mem.mp hc) hnot
        rw [this]; rfl
      rw [hrest]
      simp only [best, nmKey, Bool.and_eq_true, Bool.not_eq_true', decide_eq_false_iff_not] at hbest
      obtain ⟨h1, h2⟩ := hbest
      rw [h2]
      simp only [Bool.not_false, Bool.true_and, decide_eq_true_eq]
      exact h1

/-- counting over indices with `l[i]!` = counting over the list -/
theorem countP_range_getElemBang (p : Sat → Bool) (l : List Sat) :
    (List.range l.length).countP (fun i => p l[i]!) = l.countP p := by
  have hl : l = (List.range l.length).map (fun i => l[i]!) := by
    apply List.ext_getElem
    · simp
    · intro i h1 h2
      simp only [List.getElem_map, List.getElem_range]
      exact (getElem!_pos l i h1).symm
  conv => rhs; rw [hl]
  rw [List.countP_map]
  rfl

end MsVerif.MalleThresh

/-
Script numbers: `read_scriptint` (as used by the lexer's `PushBytes` arm) inverts the minimal
encoding `numEncode` that `Builder::push_int` emits, for every value below 2^31.
-/
import MsVerif.Model.Lex

namespace MsVerif
namespace LexL
open Script

theorem u8_ofNat_toNat (n : Nat) : (UInt8.ofNat n).toNat = n % 256 := by
  simp [UInt8.toNat_ofNat']

theorem u8_toNat_lt (b : UInt8) : b.toNat < 256 := by
  have := b.toNat_lt; simpa using this

theorem leValue_leBytes : ∀ (fuel n : Nat), n < 256 ^ fuel → leValue (leBytes fuel n) = n := by
  intro fuel
  induction fuel with
  | zero => intro n h; simp at h; subst h; simp [leBytes, leValue]
  | succ f ih =>
    intro n h
    simp only [leBytes]
    split
    · subst_vars; simp [leValue]
    · simp only [leValue, u8_ofNat_toNat]
      rw [ih (n / 256) (by rw [Nat.pow_succ] at h; omega)]
      omega

theorem leValue_append (a b : Bytes) : leValue (a ++ b) = leValue a + 256 ^ a.length * leValue b := by
  induction a with
  | nil => simp [leValue]
  | cons x a ih =>
    simp only [List.cons_append, leValue, ih, List.length_cons, Nat.pow_succ]
    rw [Nat.mul_add, Nat.mul_comm (256 ^ a.length) 256, Nat.mul_assoc]
    omega

/-- a positive number has a non-empty little-endian form whose last byte is non-zero -/
theorem leBytes_last : ∀ (fuel n : Nat), 0 < n → n < 256 ^ fuel →
    ∃ init last, leBytes fuel n = init ++ [last] ∧ last.toNat ≠ 0 := by
  intro fuel
  induction fuel with
  | zero => intro n h0 h; simp at h; omega
  | succ f ih =>
    intro n h0 h
    simp only [leBytes]
    split
    · omega
    · by_cases hq : n / 256 = 0
      · refine ⟨[], UInt8.ofNat (n % 256), ?_, ?_⟩
        · cases f with
          | zero => simp [leBytes]
          | succ f => simp [leBytes, hq]
        · rw [u8_ofNat_toNat]; omega
      · obtain ⟨init, last, e, hl⟩ := ih (n / 256) (by omega) (by rw [Nat.pow_succ] at h; omega)
        exact ⟨UInt8.ofNat (n % 256) :: init, last, by simp [e], hl⟩

theorem leBytes_length : ∀ (fuel k n : Nat), n < 256 ^ k → (leBytes fuel n).length ≤ k := by
  intro fuel
  induction fuel with
  | zero => intro k n _; simp [leBytes]
  | succ f ih =>
    intro k n h
    simp only [leBytes]
    split
    · simp
    · cases k with
      | zero => simp at h; omega
      | succ k =>
        have := ih k (n / 256) (by rw [Nat.pow_succ] at h; omega)
        simp; omega

theorem and7f : ∀ n, n < 256 → ((UInt8.ofNat n &&& 0x7f) == 0) = (n % 128 == 0) := by decide +kernel

theorem u8_eq_ofNat (b : UInt8) : b = UInt8.ofNat b.toNat := by simp

theorem numEncode_shape {n : Nat} (h0 : 0 < n) (init : Bytes) (last : UInt8)
    (e : leBytes 9 n = init ++ [last]) :
    numEncode (Int.ofNat n) = if last.toNat ≥ 0x80 then init ++ [last] ++ [0] else init ++ [last] := by
  have hne : ¬ ((n : Int) = 0) := by omega
  have hnn : ¬ ((n : Int) < 0) := by omega
  simp only [numEncode, Int.ofNat_eq_natCast, hne, if_false, Int.natAbs_natCast, e,
    List.getLast?_append, List.getLast?_singleton, Option.some_or, hnn]

/-- facts about the minimal encoding of a positive number below 2^31 -/
theorem numEncode_pos {n : Nat} (h0 : 0 < n) (h : n < 2147483648) :
    (numEncode (Int.ofNat n)).length ≤ 4 ∧ 1 ≤ (numEncode (Int.ofNat n)).length ∧
      numMinimal (numEncode (Int.ofNat n)) = true ∧ numDecodeRaw (numEncode (Int.ofNat n)) = Int.ofNat n := by
  obtain ⟨init, last, e, hl⟩ := leBytes_last 9 n h0 (by omega)
  have hv := leValue_leBytes 9 n (by omega)
  have hlen := leBytes_length 9 4 n (by omega)
  rw [e] at hv hlen
  have hlast : last.toNat < 256 := u8_toNat_lt last
  rw [numEncode_shape h0 init last e]
  rw [leValue_append] at hv
  simp only [leValue, List.length_append, List.length_singleton, Nat.mul_zero, Nat.add_zero] at hv hlen
  by_cases hbig : last.toNat ≥ 0x80
  · -- sign byte appended
    have hi : init.length ≤ 2 := by
      rcases Nat.lt_or_ge init.length 3 with h3 | h3
      · omega
      · exfalso
        have h3' : init.length = 3 := by omega
        rw [h3'] at hv
        simp only [Nat.reducePow] at hv
        omega
    simp only [hbig, if_true, List.length_append, List.length_singleton]
    refine ⟨by omega, by omega, ?_, ?_⟩
    · simp only [numMinimal, List.getLast?_append, List.getLast?_singleton, Option.some_or,
        List.dropLast_concat]
      simp; omega
    · simp only [numDecodeRaw, List.getLast?_append, List.getLast?_singleton, Option.some_or]
      simp
      have h2 : leValue [last, 0] = last.toNat := by simp [leValue]
      rw [leValue_append, h2, hv]
  · simp only [hbig, if_false, List.length_append, List.length_singleton]
    refine ⟨by omega, by omega, ?_, ?_⟩
    · simp only [numMinimal, List.getLast?_append, List.getLast?_singleton, Option.some_or]
      have h7 := and7f last.toNat hlast
      rw [← u8_eq_ofNat] at h7
      rw [h7]
      have : (last.toNat % 128 == 0) = false := by simp; omega
      simp [this]
    · simp only [numDecodeRaw, List.getLast?_append, List.getLast?_singleton, Option.some_or]
      have h2 : leValue (init ++ [last]) = n := by
        rw [leValue_append]; simpa [leValue] using hv
      simp [hbig, h2]

/-- the lexer's `PushBytes` arm reads back a pushed number -/
theorem pushToken_numEncode {n : Nat} (h : n < 2147483648) :
    pushToken (numEncode (Int.ofNat n)) = .ok (.num n) := by
  rcases Nat.eq_zero_or_pos n with h0 | h0
  · subst h0; rfl
  · obtain ⟨h1, h2, h3, h4⟩ := numEncode_pos h0 h
    unfold pushToken
    have e20 : (numEncode (Int.ofNat n)).length ≠ 20 := by omega
    have e32 : (numEncode (Int.ofNat n)).length ≠ 32 := by omega
    have e33 : (numEncode (Int.ofNat n)).length ≠ 33 := by omega
    have e65 : (numEncode (Int.ofNat n)).length ≠ 65 := by omega
    have e4 : ¬ (numEncode (Int.ofNat n)).length > 4 := by omega
    simp only [e20, e32, e33, e65, e4, h3, h4, if_false, Bool.not_true, Bool.false_eq_true]
    simp

end LexL
end MsVerif

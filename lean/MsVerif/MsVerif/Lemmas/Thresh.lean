/-
Helper lemmas for C05 (thresholds of arbitrary arity): the Rust folds are characterised by
counters and related to the specification's counting formulation by induction on the child
list.
-/
import MsVerif.Lemmas.TypesEnum

set_option linter.unusedSimpArgs false

namespace MsVerif.Thresh
open MsVerif Spec

/-! ### correctness -/

def okW (s : Corr) : Bool := decide (s.base = .W) && s.unit && s.dissat

def na (l : List Corr) : Nat := (l.map (fun s => Corr.numArgs s.input)).sum

@[simp] theorem numArgs_zero : Corr.numArgs .zero = 0 := rfl
@[simp] theorem numArgs_one : Corr.numArgs .one = 1 := rfl
@[simp] theorem numArgs_onz : Corr.numArgs .oneNonZero = 1 := rfl
@[simp] theorem numArgs_any : Corr.numArgs .any = 2 := rfl
@[simp] theorem numArgs_anz : Corr.numArgs .anyNonZero = 2 := rfl

theorem na_cons (s : Corr) (t : List Corr) : na (s :: t) = Corr.numArgs s.input + na t := by
  simp [na]

theorem loop_tail (i acc : Nat) (rest : List Corr) (hi : i ≠ 0) :
    Corr.threshLoop i acc rest = if rest.all okW then some (acc + na rest) else none := by
  induction rest generalizing i acc with
  | nil => simp [Corr.threshLoop, na]
  | cons s t ih =>
    obtain ⟨b, inp, d, u⟩ := s
    unfold Corr.threshLoop
    simp only [hi, false_and, if_false, ne_eq, not_false_eq_true, true_and]
    rw [ih (i + 1) _ (by omega)]
    cases b <;> cases d <;> cases u <;> simp [okW, na, Nat.add_assoc]

theorem loop_head (x : Corr) (rest : List Corr) :
    Corr.threshLoop 0 0 (x :: rest) =
      if decide (x.base = .B) && x.unit && x.dissat && rest.all okW
      then some (na (x :: rest)) else none := by
  obtain ⟨b, inp, d, u⟩ := x
  unfold Corr.threshLoop
  simp only [true_and, ne_eq, not_true_eq_false, false_and, if_false, Nat.zero_add]
  rw [loop_tail 1 _ rest (by omega)]
  cases b <;> cases d <;> cases u <;> simp [na]

theorem na_eq_zero (l : List Corr) : na l = 0 ↔ (l.map Corr.toSpec).all (·.z) = true := by
  induction l with
  | nil => simp [na]
  | cons s t ih =>
    obtain ⟨b, inp, d, u⟩ := s
    rw [na_cons]
    cases inp <;> simp_all [Corr.toSpec, Input.z]

theorem filter_nil_iff (l : List Corr) :
    ((l.map Corr.toSpec).filter (fun x => !x.z) = []) ↔ na l = 0 := by
  rw [na_eq_zero, List.filter_eq_nil_iff, List.all_eq_true]
  constructor
  · intro hh x hx; simpa using hh x hx
  · intro hh x hx; simpa using hh x hx

theorem threshO_cons_z (x : SCorr) (l : List SCorr) (h : x.z = true) :
    C.threshO (x :: l) = C.threshO l := by
  simp [C.threshO, List.filter_cons, h]

theorem threshO_cons_nz (x : SCorr) (l : List SCorr) (h : x.z = false) :
    C.threshO (x :: l) = (x.o && (l.filter (fun x => !x.z)).isEmpty) := by
  simp only [C.threshO, List.filter_cons, h, Bool.not_false, if_true]
  cases l.filter (fun x => !x.z) <;> simp

theorem na_eq_one (l : List Corr) : na l = 1 ↔ C.threshO (l.map Corr.toSpec) = true := by
  induction l with
  | nil => simp [na, C.threshO]
  | cons s t ih =>
    obtain ⟨b, inp, d, u⟩ := s
    rw [na_cons]
    have hnil := filter_nil_iff t
    cases inp
    · rw [List.map_cons, threshO_cons_z _ _ (by simp [Corr.toSpec, Input.z]), ← ih]; simp
    · rw [List.map_cons, threshO_cons_nz _ _ (by simp [Corr.toSpec, Input.z])]
      simp only [numArgs_one, Corr.toSpec, Input.o, Bool.true_and, List.isEmpty_iff, hnil]
      omega
    · rw [List.map_cons, threshO_cons_nz _ _ (by simp [Corr.toSpec, Input.z])]
      simp [Corr.toSpec, Input.o]; omega
    · rw [List.map_cons, threshO_cons_nz _ _ (by simp [Corr.toSpec, Input.z])]
      simp only [numArgs_onz, Corr.toSpec, Input.o, Bool.true_and, List.isEmpty_iff, hnil]
      omega
    · rw [List.map_cons, threshO_cons_nz _ _ (by simp [Corr.toSpec, Input.z])]
      simp [Corr.toSpec, Input.o]; omega

theorem okW_spec (rest : List Corr) :
    rest.all okW = (rest.map Corr.toSpec).all (fun x => decide (x.base = .W) && x.d && x.u) := by
  induction rest with
  | nil => rfl
  | cons s t ih =>
    obtain ⟨b, inp, d, u⟩ := s
    simp only [List.all_cons, ih, List.map_cons]
    cases b <;> cases d <;> cases u <;> simp [okW, Corr.toSpec, Base.toSpec]

theorem corr_threshold_spec (k : Nat) (xs : List Corr) (hne : xs ≠ []) :
    eqC (Corr.threshold k xs) (C.thresh k (xs.map Corr.toSpec)) = true := by
  cases xs with
  | nil => exact absurd rfl hne
  | cons x rest =>
    unfold Corr.threshold
    rw [loop_head]
    have h0 := na_eq_zero (x :: rest)
    have h1 := na_eq_one (x :: rest)
    have hw := okW_spec rest
    simp only [C.thresh, List.map_cons] at *
    rw [← hw]
    generalize hz : (x.toSpec :: rest.map Corr.toSpec).all (·.z) = zz at *
    generalize ho : C.threshO (x.toSpec :: rest.map Corr.toSpec) = oo at *
    generalize na (x :: rest) = n at *
    obtain ⟨b, inp, d, u⟩ := x
    cases hall : rest.all okW <;> cases b <;> cases d <;> cases u <;>
      simp [eqC, Corr.toSpec, Base.toSpec]
    all_goals
      match n with
      | 0 =>
        have hzz : zz = true := h0.mp rfl
        have hoo : oo = false := by
          cases oo with
          | false => rfl
          | true => exact absurd (h1.mpr rfl) (by omega)
        simp [Input.z, Input.o, Input.n, hzz, hoo]
      | 1 =>
        have hoo : oo = true := h1.mp rfl
        have hzz : zz = false := by
          cases zz with
          | false => rfl
          | true => exact absurd (h0.mpr rfl) (by omega)
        simp [Input.z, Input.o, Input.n, hzz, hoo]
      | n + 2 =>
        have hzz : zz = false := by
          cases zz with
          | false => rfl
          | true => exact absurd (h0.mpr rfl) (by omega)
        have hoo : oo = false := by
          cases oo with
          | false => rfl
          | true => exact absurd (h1.mpr rfl) (by omega)
        simp [Input.z, Input.o, Input.n, hzz, hoo]

/-! ### malleability -/

def cntS (l : List Mall) : Nat := (l.filter (·.signed)).length

theorem fold_gen (l : List Mall) (c : Nat) (u m : Bool) :
    l.foldl (fun (acc : Nat × Bool × Bool) s =>
      (acc.1 + (if s.signed then 1 else 0), acc.2.1 && (s.dissat == .unique),
        acc.2.2 && s.nonMall)) (c, u, m)
    = (c + cntS l, u && l.all (fun s => s.dissat == .unique), m && l.all (·.nonMall)) := by
  induction l generalizing c u m with
  | nil => simp [cntS]
  | cons s t ih =>
    simp only [List.foldl_cons, ih, List.all_cons, cntS]
    cases hs : s.signed <;> simp [hs, Bool.and_assoc] <;> omega

theorem threshFold_eq (l : List Mall) :
    Mall.threshFold l = (cntS l, l.all (fun s => s.dissat == .unique), l.all (·.nonMall)) := by
  unfold Mall.threshFold
  rw [fold_gen]; simp

theorem cntS_add_nonS (l : List Mall) :
    cntS l + ((l.map Mall.toSpec).filter (fun x => !x.s)).length = l.length := by
  induction l with
  | nil => simp [cntS]
  | cons s t ih =>
    unfold cntS at *
    cases hs : s.signed <;> simp [hs, Mall.toSpec, List.filter_cons] <;> omega

theorem cntS_eq_len_iff (l : List Mall) : cntS l = l.length ↔ l.all (·.signed) = true := by
  induction l with
  | nil => simp [cntS]
  | cons s t ih =>
    have hle : cntS t ≤ t.length := by unfold cntS; exact List.length_filter_le _ _
    unfold cntS at *
    cases hs : s.signed <;> simp [hs, List.filter_cons]
    · omega

theorem all_e_s (xs : List Mall) :
    (xs.map Mall.toSpec).all (fun x => x.e && x.s)
      = (xs.all (fun s => s.dissat == .unique) && xs.all (·.signed)) := by
  induction xs with
  | nil => rfl
  | cons s t ih =>
    simp only [List.map_cons, List.all_cons, ih, Mall.toSpec]
    cases (s.dissat == Dissat.unique) <;> cases s.signed <;> simp

theorem all_m_e (xs : List Mall) :
    (xs.map Mall.toSpec).all (fun x => x.m && x.e)
      = (xs.all (·.nonMall) && xs.all (fun s => s.dissat == .unique)) := by
  induction xs with
  | nil => rfl
  | cons s t ih =>
    simp only [List.map_cons, List.all_cons, ih, Mall.toSpec]
    cases (s.dissat == Dissat.unique) <;> cases s.nonMall <;> simp

theorem mall_threshold_spec (k : Nat) (xs : List Mall) (hk : k ≤ xs.length) :
    (Mall.threshold k xs).toSpec = M.thresh k (xs.map Mall.toSpec) := by
  unfold Mall.threshold M.thresh
  rw [threshFold_eq]
  have hsum := cntS_add_nonS xs
  have hall := cntS_eq_len_iff xs
  simp only [all_e_s, all_m_e]
  generalize ((xs.map Mall.toSpec).filter (fun x => !x.s)).length = nonS at *
  generalize cntS xs = sc at *
  generalize xs.all (fun s => s.dissat == .unique) = allU at *
  generalize xs.all (·.nonMall) = allM at *
  generalize hsg : xs.all (·.signed) = allS at *
  generalize xs.length = n at *
  have hS : (sc == n) = allS := by
    cases allS with
    | true => simpa using hall.mpr rfl
    | false =>
      have : ¬ sc = n := fun h => by simpa using hall.mp h
      simpa using this
  have e1 : decide (sc > n - k) = decide (nonS + 1 ≤ k) := by
    apply decide_eq_decide.mpr; omega
  have e2 : decide (sc ≥ n - k) = decide (nonS ≤ k) := by
    apply decide_eq_decide.mpr; omega
  simp only [Mall.toSpec, hS, e1, e2]
  cases allU <;> cases allS <;> cases allM <;> simp

end MsVerif.Thresh

/-
C06 helper lemmas, part 6: the induction over the typing rules for the argument count —
`args_cons`: a well-typed fragment whose type fixes the number of arguments (`z`: 0, `o`: 1)
consumes exactly that many elements on every stack and leaves what its base type promises.
Limits off.  Core Lean only.
-/
import MsVerif.Lemmas.TypeSoundArgsMain

namespace MsVerif.TypeSound
open MsVerif MsVerif.Script

/-! ### well-formedness the library guarantees by construction (`Threshold<T, MAX>`) -/

mutual
/-- every `thresh` has at least one child and every `multi`/`sortedmulti` at most 20 keys
(`Threshold::new` rejects n = 0; `MAX_PUBKEYS_PER_MULTISIG` = 20) -/
def wf : Ms → Bool
  | .thresh _ xs => decide (1 ≤ xs.length) && wfL xs
  | .multi _ ks | .sortedMulti _ ks => decide (ks.length ≤ 20)
  | .alt x | .swap x | .check x | .dupIf x | .verify x | .nonZero x | .zeroNotEqual x => wf x
  | .andV l r | .andB l r | .orB l r | .orD l r | .orC l r | .orI l r => wf l && wf r
  | .andOr a b c => wf a && wf b && wf c
  | _ => true
def wfL : MsList → Bool
  | .nil => true
  | .cons x xs => wf x && wfL xs
end

/-! ### a K-typed fragment is never zero-arg -/

theorem andInput_zero {a b : Input} (h : Corr.andInput a b = .zero) : a = .zero ∧ b = .zero := by
  cases a <;> cases b <;> simp [Corr.andInput] at h ⊢
theorem orIInput_ne_zero (a b : Input) : Corr.orIInput a b ≠ .zero := by
  cases a <;> cases b <;> simp [Corr.orIInput]
theorem andOrInput_zero {a b c : Input} (h : Corr.andOrInput a b c = .zero) : b = .zero := by
  cases a <;> cases b <;> cases c <;> simp [Corr.andOrInput] at h ⊢

theorem K_not_zero : (ms : Ms) → ∀ τ, typeOf ms = some τ → τ.corr.base = .K → τ.corr.input ≠ .zero
  | .tru, τ, h, hb | .fls, τ, h, hb | .after _, τ, h, hb | .older _, τ, h, hb | .hash _ _, τ, h, hb
  | .multi _ _, τ, h, hb | .sortedMulti _ _, τ, h, hb | .multiA _ _, τ, h, hb | .sortedMultiA _ _, τ, h, hb => by
    simp only [typeOf] at h; cases h; cases hb
  | .pkK _, τ, h, _ | .pkH _, τ, h, _ | .rawPkH _, τ, h, _ => by
    simp only [typeOf] at h; cases h; decide
  | .alt x, τ, h, hb => by
    simp only [typeOf] at h
    obtain ⟨a, _, h⟩ := typeOf_un h
    rw [(castAlt_inv (lift1_corr h)).2] at hb; cases hb
  | .swap x, τ, h, hb => by
    simp only [typeOf] at h
    obtain ⟨a, _, h⟩ := typeOf_un h
    rw [(castSwap_inv (lift1_corr h)).2.2] at hb; cases hb
  | .check x, τ, h, hb => by
    simp only [typeOf] at h
    obtain ⟨a, _, h⟩ := typeOf_un h
    rw [(castCheck_inv (lift1_corr h)).2] at hb; cases hb
  | .dupIf x, τ, h, hb => by
    simp only [typeOf] at h
    obtain ⟨a, _, h⟩ := typeOf_un h
    rw [(castDupIf_inv (lift1_corr h)).2.2] at hb; cases hb
  | .verify x, τ, h, hb => by
    simp only [typeOf] at h
    obtain ⟨a, _, h⟩ := typeOf_un h
    rw [(castVerify_inv (lift1_corr h)).2] at hb; cases hb
  | .nonZero x, τ, h, hb => by
    simp only [typeOf] at h
    obtain ⟨a, _, h⟩ := typeOf_un h
    rw [(castNonZero_inv (lift1_corr h)).2.2] at hb; cases hb
  | .zeroNotEqual x, τ, h, hb => by
    simp only [typeOf] at h
    obtain ⟨a, _, h⟩ := typeOf_un h
    rw [(castZeroNotEqual_inv (lift1_corr h)).2] at hb; cases hb
  | .andV l r, τ, h, hb => by
    simp only [typeOf] at h
    obtain ⟨a, b, _, hr, h⟩ := typeOf_bin h
    obtain ⟨_, _, hy⟩ := andV_inv (lift2_corr h)
    rw [hy] at hb ⊢
    intro hz
    exact K_not_zero r b hr hb (andInput_zero hz).2
  | .andB l r, τ, h, hb => by
    simp only [typeOf] at h
    obtain ⟨a, b, _, _, h⟩ := typeOf_bin h
    rw [(andB_inv (lift2_corr h)).2.2] at hb; cases hb
  | .orB l r, τ, h, hb => by
    simp only [typeOf] at h
    obtain ⟨a, b, _, _, h⟩ := typeOf_bin h
    rw [(orB_inv (lift2_corr h)).2.2] at hb; cases hb
  | .orD l r, τ, h, hb => by
    simp only [typeOf] at h
    obtain ⟨a, b, _, _, h⟩ := typeOf_bin h
    rw [(orD_inv (lift2_corr h)).2.2.2.2] at hb; cases hb
  | .orC l r, τ, h, hb => by
    simp only [typeOf] at h
    obtain ⟨a, b, _, _, h⟩ := typeOf_bin h
    rw [(orC_inv (lift2_corr h)).2.2.2.2] at hb; cases hb
  | .orI l r, τ, h, _ => by
    simp only [typeOf] at h
    obtain ⟨a, b, _, _, h⟩ := typeOf_bin h
    rw [(orI_inv (lift2_corr h)).2.2]
    exact orIInput_ne_zero _ _
  | .andOr x y z, τ, h, hb => by
    obtain ⟨a, b, c, _, hy, _, h⟩ := typeOf_andOr h
    obtain ⟨_, _, _, _, _, hyy⟩ := andOr_inv (andOr_corr h)
    rw [hyy] at hb ⊢
    intro hz
    exact K_not_zero y b hy hb (andOrInput_zero hz)
  | .thresh k xs, τ, h, hb => by
    obtain ⟨ts, _, h⟩ := typeOf_thresh h
    obtain ⟨n, _, hy⟩ := threshold_inv (threshold_corr h)
    rw [hy] at hb; cases hb

theorem nargs_numArgs {i : Input} {n : Nat} (h : nargs i = some n) : Corr.numArgs i = n := by
  cases i <;> simp [nargs, Corr.numArgs] at h ⊢ <;> omega


theorem nargs_le {x : Input} {n : Nat} (h : nargs x = some n) : n ≤ 1 := by
  cases x <;> simp [nargs] at h <;> omega

theorem nargs_pos {x : Input} {n : Nat} (h : nargs x = some n) (hz : x ≠ .zero) : n = 1 := by
  cases x <;> simp [nargs] at h hz ⊢ <;> omega

theorem numArgs_nargs {x : Input} {n : Nat} (h : Corr.numArgs x = n) (hn : n ≤ 1) : nargs x = some n := by
  cases x <;> simp [nargs, Corr.numArgs] at h ⊢ <;> omega

theorem arity_hashOpc (k : HashKind) : arity (hashOpc k) = some (1, 1) := by cases k <;> rfl

theorem fragThresh_single (env : Env) (ke : KeyEnv) (ctx : Ctx) (x : Ms) (c : Core) :
    fragThresh env ke ctx true (.cons x .nil) c = frag env ke ctx x c := by
  rw [fragThresh_cons]
  cases frag env ke ctx x c with
  | error e => rfl
  | ok c1 =>
    show fragThresh env ke ctx false .nil c1 = .ok c1
    rw [fragThresh]

theorem cons_small {env : Env} (hlim : env.flags.stackLimits = false) (n : Nat) :
    Cons (pshOp env (.small n)) 0 1 := cons_pushElem hlim _

/-- the final `<k> OP_EQUAL` of `thresh` -/
theorem cons_threshTail {env : Env} (hlim : env.flags.stackLimits = false) (k : Nat) :
    Cons (seqOps env [pushInt k, .code .equal]) 1 1 :=
  (cons_seq_cons (cons_pushInt hlim k) (cons_seq_one (cons_code hlim (o := .equal) rfl))).cast rfl rfl

theorem cons_hash {env : Env} (hlim : env.flags.stackLimits = false) (kind : HashKind) (hv : Bytes) :
    Cons (seqOps env [.code .size, pushInt 32, .code .equalverify, .code (hashOpc kind), .push hv,
      .code .equal]) 1 1 := by
  have e6 := cons_seq_one (cons_code (env := env) hlim (o := .equal) rfl)
  have e5 := (cons_seq_cons (cons_pushData hlim hv) e6).cast (i' := 1) (o' := 1) rfl rfl
  have e4 := (cons_seq_cons (cons_code hlim (arity_hashOpc kind)) e5).cast (i' := 1) (o' := 1) rfl rfl
  have e3 := (cons_seq_cons (cons_code hlim (o := .equalverify) rfl) e4).cast (i' := 3) (o' := 1) rfl rfl
  have e2 := (cons_seq_cons (cons_pushInt hlim 32) e3).cast (i' := 2) (o' := 1) rfl rfl
  exact (cons_seq_cons (cons_code hlim (o := .size) rfl) e2).cast rfl rfl

theorem args_cons {env : Env} (hlim : env.flags.stackLimits = false) (ke : KeyEnv) (ctx : Ctx) :
    (ms : Ms) → wf ms = true → ∀ (τ : Ty) (i : Nat), typeOf ms = some τ → nargs τ.corr.input = some i →
      Cons (frag env ke ctx ms) i (resLen τ.corr.base i)
  | .tru, _, τ, i, h, hi => by
    simp only [typeOf] at h; cases h
    have : i = 0 := by simp [Ty.TRUE, Corr.TRUE, nargs] at hi; omega
    subst this
    exact cons_congr (fun c => by rw [frag]) (cons_small hlim 1)
  | .fls, _, τ, i, h, hi => by
    simp only [typeOf] at h; cases h
    have : i = 0 := by simp [Ty.FALSE, Corr.FALSE, nargs] at hi; omega
    subst this
    exact cons_congr (fun c => by rw [frag]) (cons_small hlim 0)
  | .pkK k, _, τ, i, h, hi => by
    simp only [typeOf] at h; cases h
    have : i = 1 := by simp [Ty.pkK, Corr.pkK, nargs] at hi; omega
    subst this
    exact cons_congr (fun c => by rw [frag]) ((cons_weaken 1 (cons_psh hlim (ke.ser k))).cast rfl rfl)
  | .pkH k, _, τ, i, h, hi | .rawPkH k, _, τ, i, h, hi => by
    simp only [typeOf] at h; cases h
    simp [Ty.pkH, Corr.pkH, nargs] at hi
  | .multi _ _, _, τ, i, h, hi => by
    simp only [typeOf] at h; cases h; simp [Ty.multi, Corr.multi, nargs] at hi
  | .sortedMulti _ _, _, τ, i, h, hi => by
    simp only [typeOf] at h; cases h; simp [Ty.sortedmulti, Corr.sortedmulti, nargs] at hi
  | .multiA _ _, _, τ, i, h, hi => by
    simp only [typeOf] at h; cases h; simp [Ty.multiA, Corr.multiA, nargs] at hi
  | .sortedMultiA _ _, _, τ, i, h, hi => by
    simp only [typeOf] at h; cases h; simp [Ty.sortedmultiA, Corr.sortedmultiA, nargs] at hi
  | .after n, _, τ, i, h, hi => by
    simp only [typeOf] at h; cases h
    have : i = 0 := by simp [Ty.time, Corr.time, nargs] at hi; omega
    subst this
    exact cons_congr (fun c => by rw [frag])
      ((cons_seq_cons (cons_pushInt hlim n) (cons_seq_one (cons_code hlim (o := .cltv) rfl))).cast rfl rfl)
  | .older n, _, τ, i, h, hi => by
    simp only [typeOf] at h; cases h
    have : i = 0 := by simp [Ty.time, Corr.time, nargs] at hi; omega
    subst this
    exact cons_congr (fun c => by rw [frag])
      ((cons_seq_cons (cons_pushInt hlim n) (cons_seq_one (cons_code hlim (o := .csv) rfl))).cast rfl rfl)
  | .hash kind hh, _, τ, i, h, hi => by
    simp only [typeOf] at h; cases h
    have : i = 1 := by simp [Ty.hash, Corr.hash, nargs] at hi; omega
    subst this
    exact cons_congr (fun c => by rw [frag]) (cons_hash hlim kind _)
  | .alt x, _, τ, i, h, hi => by
    simp only [typeOf] at h
    obtain ⟨a, _, h⟩ := typeOf_un h
    rw [(castAlt_inv (lift1_corr h)).2] at hi
    simp [nargs] at hi
  | .swap x, _, τ, i, h, hi => by
    simp only [typeOf] at h
    obtain ⟨a, _, h⟩ := typeOf_un h
    rw [(castSwap_inv (lift1_corr h)).2.2] at hi
    simp [nargs] at hi
  | .check x, hw, τ, i, h, hi => by
    simp only [typeOf] at h
    obtain ⟨a, hx, h⟩ := typeOf_un h
    obtain ⟨hab, hy⟩ := castCheck_inv (lift1_corr h)
    rw [hy] at hi ⊢
    simp only at hi
    have ih := args_cons hlim ke ctx x (by simpa [wf] using hw) a i hx hi
    rw [hab] at ih
    have hi1 : i = 1 := nargs_pos hi (K_not_zero x a hx hab)
    subst hi1
    exact cons_congr (frag_check env ke ctx x)
      ((cons_bind ih (cons_opc hlim (o := .checksig) rfl)).cast rfl rfl)
  | .dupIf x, hw, τ, i, h, hi => by
    simp only [typeOf] at h
    obtain ⟨a, hx, h⟩ := typeOf_un h
    obtain ⟨hab, hai, hy⟩ := castDupIf_inv (lift1_corr h)
    rw [hy] at hi ⊢
    have : i = 1 := by simp [nargs] at hi; omega
    subst this
    have ih := args_cons hlim ke ctx x (by simpa [wf] using hw) a 0 hx (by rw [hai]; rfl)
    rw [hab] at ih
    exact cons_congr (frag_dupIf env ke ctx x)
      ((cons_bind (cons_opc hlim (o := .dup) rfl) (cons_ifThen (i := 0) ih)).cast rfl rfl)
  | .verify x, hw, τ, i, h, hi => by
    simp only [typeOf] at h
    obtain ⟨a, hx, h⟩ := typeOf_un h
    obtain ⟨hab, hy⟩ := castVerify_inv (lift1_corr h)
    rw [hy] at hi ⊢
    simp only at hi
    have ih := args_cons hlim ke ctx x (by simpa [wf] using hw) a i hx hi
    rw [hab] at ih
    exact cons_congr (frag_verify env ke ctx x)
      ((cons_bind ih (cons_verifyTail hlim _)).cast (by simp [resLen]) (by simp [resLen]))
  | .nonZero x, hw, τ, i, h, hi => by
    simp only [typeOf] at h
    obtain ⟨a, hx, h⟩ := typeOf_un h
    obtain ⟨hab, hai, hy⟩ := castNonZero_inv (lift1_corr h)
    rw [hy] at hi ⊢
    simp only at hi
    have hi1 : i = 1 := by
      rcases hai with h1 | h1 <;> rw [h1] at hi <;> simp [nargs] at hi
      omega
    subst hi1
    have ih := args_cons hlim ke ctx x (by simpa [wf] using hw) a 1 hx hi
    rw [hab] at ih
    have t1 := (cons_bind (cons_opc hlim (o := .zeronotequal) rfl) (cons_ifThen (env := env) (nf := false)
      (X := encode ke ctx x) (i := 1) ih)).cast (i' := 2) (o' := 1) rfl rfl
    exact cons_congr (frag_nonZero env ke ctx x)
      ((cons_bind (cons_opc hlim (o := .size) rfl) t1).cast rfl rfl)
  | .zeroNotEqual x, hw, τ, i, h, hi => by
    simp only [typeOf] at h
    obtain ⟨a, hx, h⟩ := typeOf_un h
    obtain ⟨hab, hy⟩ := castZeroNotEqual_inv (lift1_corr h)
    rw [hy] at hi ⊢
    simp only at hi
    have ih := args_cons hlim ke ctx x (by simpa [wf] using hw) a i hx hi
    rw [hab] at ih
    exact cons_congr (frag_zeroNotEqual env ke ctx x)
      ((cons_bind ih (cons_opc hlim (o := .zeronotequal) rfl)).cast (by simp [resLen]) (by simp [resLen]))
  | .andV l r, hw, τ, i, h, hi => by
    simp only [typeOf] at h
    obtain ⟨a, b, hl, hr, h⟩ := typeOf_bin h
    obtain ⟨hab, hbb, hy⟩ := andV_inv (lift2_corr h)
    rw [hy] at hi ⊢
    simp only at hi
    obtain ⟨ia, ib, hia, hib, hsum⟩ := andInput_nargs hi
    simp only [wf, Bool.and_eq_true] at hw
    have ihl := args_cons hlim ke ctx l hw.1 a ia hl hia
    have ihr := args_cons hlim ke ctx r hw.2 b ib hr hib
    rw [hab] at ihl
    have hile := nargs_le hi
    refine cons_congr (frag_andV env ke ctx l r) ((cons_bind ihl ihr).cast (by simp [resLen]; omega) ?_)
    rcases hbb with hb | hb | hb
    · simp [hb, resLen]
    · have : ib = 1 := nargs_pos hib (K_not_zero r b hr hb)
      simp [hb, resLen]; omega
    · simp [hb, resLen]
  | .andB l r, _, τ, i, h, hi => by
    simp only [typeOf] at h
    obtain ⟨a, b, _, hr, h⟩ := typeOf_bin h
    obtain ⟨_, hbb, hy⟩ := andB_inv (lift2_corr h)
    rw [hy, W_any hr hbb] at hi
    simp only [andInput_any] at hi
    cases hi
  | .orB l r, _, τ, i, h, hi => by
    simp only [typeOf] at h
    obtain ⟨a, b, _, hr, h⟩ := typeOf_bin h
    obtain ⟨_, hbb, hy⟩ := orB_inv (lift2_corr h)
    rw [hy, W_any hr hbb] at hi
    simp only [orBInput_any] at hi
    cases hi
  | .orD l r, hw, τ, i, h, hi => by
    simp only [typeOf] at h
    obtain ⟨a, b, hl, hr, h⟩ := typeOf_bin h
    obtain ⟨hab, hbb, _, _, hy⟩ := orD_inv (lift2_corr h)
    rw [hy] at hi ⊢
    simp only at hi
    obtain ⟨hia, hbz⟩ := orDInput_nargs hi
    simp only [wf, Bool.and_eq_true] at hw
    have ihl := args_cons hlim ke ctx l hw.1 a i hl hia
    have ihr := args_cons hlim ke ctx r hw.2 b 0 hr (by rw [hbz]; rfl)
    rw [hab] at ihl
    rw [hbb] at ihr
    exact cons_congr (frag_orD env ke ctx l r)
      ((cons_bind ihl (cons_orDTail hlim (X := encode ke ctx r) ihr)).cast (by simp [resLen]) (by simp [resLen]))
  | .orC l r, hw, τ, i, h, hi => by
    simp only [typeOf] at h
    obtain ⟨a, b, hl, hr, h⟩ := typeOf_bin h
    obtain ⟨hab, hbb, _, _, hy⟩ := orC_inv (lift2_corr h)
    rw [hy] at hi ⊢
    simp only at hi
    obtain ⟨hia, hbz⟩ := orDInput_nargs hi
    simp only [wf, Bool.and_eq_true] at hw
    have ihl := args_cons hlim ke ctx l hw.1 a i hl hia
    have ihr := args_cons hlim ke ctx r hw.2 b 0 hr (by rw [hbz]; rfl)
    rw [hab] at ihl
    rw [hbb] at ihr
    exact cons_congr (frag_orC env ke ctx l r)
      ((cons_bind ihl (cons_ifThen (env := env) (nf := true) (X := encode ke ctx r) (i := 0) ihr)).cast
        (by simp [resLen]) (by simp [resLen]))
  | .orI l r, hw, τ, i, h, hi => by
    simp only [typeOf] at h
    obtain ⟨a, b, hl, hr, h⟩ := typeOf_bin h
    obtain ⟨hab, hbb, hy⟩ := orI_inv (lift2_corr h)
    rw [hy] at hi ⊢
    simp only at hi
    obtain ⟨haz, hbz, hi1⟩ := orIInput_nargs hi
    subst hi1
    simp only [wf, Bool.and_eq_true] at hw
    have ihl := args_cons hlim ke ctx l hw.1 a 0 hl (by rw [haz]; rfl)
    have ihr := args_cons hlim ke ctx r hw.2 b 0 hr (by rw [hbz]; rfl)
    rw [← hab] at ihr
    have hne : a.corr.base ≠ .K := fun hk => K_not_zero l a hl hk haz
    refine cons_congr (frag_orI env ke ctx l r) ((cons_ifElse ihl ihr).cast rfl ?_)
    rcases hbb with hb | hb | hb
    · simp [hb, resLen]
    · simp [hb, resLen]
    · exact absurd hb hne
  | .andOr x y z, hw, τ, i, h, hi => by
    obtain ⟨a, b, c, hx, hy, hz, h⟩ := typeOf_andOr h
    obtain ⟨hab, _, _, hbc, hbb, hyy⟩ := andOr_inv (andOr_corr h)
    rw [hyy] at hi ⊢
    simp only at hi
    obtain ⟨ia, ib, hia, hib, hic, hsum⟩ := andOrInput_nargs hi
    simp only [wf, Bool.and_eq_true] at hw
    have iha := args_cons hlim ke ctx x hw.1.1 a ia hx hia
    have ihb := args_cons hlim ke ctx y hw.1.2 b ib hy hib
    have ihc := args_cons hlim ke ctx z hw.2 c ib hz hic
    rw [hab] at iha
    rw [← hbc] at ihc
    have hile := nargs_le hi
    refine cons_congr (frag_andOr env ke ctx x y z)
      ((cons_bind iha (cons_ifElse (env := env) (nf := true) (X := encode ke ctx z) (Y := encode ke ctx y)
        ihc ihb)).cast (by simp [resLen]; omega) ?_)
    rcases hbb with hb | hb | hb
    · simp [hb, resLen]
    · have : ib = 1 := nargs_pos hib (K_not_zero y b hy hb)
      simp [hb, resLen]; omega
    · simp [hb, resLen]
  | .thresh k .nil, hw, τ, i, h, hi => by
    simp [wf, MsList.length] at hw
  | .thresh k (.cons x .nil), hw, τ, i, h, hi => by
    obtain ⟨ts, hts, h⟩ := typeOf_thresh h
    obtain ⟨t, ts', hx, hxs, rfl⟩ := typesOf_cons hts
    simp only [typesOf, Option.some.injEq] at hxs
    subst hxs
    obtain ⟨n, hloop, hy⟩ := threshold_inv (threshold_corr h)
    simp only [List.map_cons, List.map_nil] at hloop
    obtain ⟨hb0, _, _, _, htail⟩ := threshLoop_cons hloop
    simp only [Corr.threshLoop, Option.some.injEq, Nat.zero_add] at htail
    rw [hy] at hi ⊢
    simp only at hi
    have hni : n = i ∧ i ≤ 1 := by
      match n, hi with
      | 0, hi => simp [nargs] at hi; omega
      | 1, hi => simp [nargs] at hi; omega
      | _ + 2, hi => simp [nargs] at hi
    obtain ⟨rfl, hle⟩ := hni
    have hxi : nargs t.corr.input = some n := numArgs_nargs htail hle
    simp only [wf, wfL, Bool.and_eq_true] at hw
    have ih := args_cons hlim ke ctx x hw.2.1 t n hx hxi
    rw [hb0 rfl] at ih
    refine cons_congr (g := fun c => frag env ke ctx x c >>= seqOps env [pushInt k, .code .equal]) ?_
      ((cons_bind ih (cons_threshTail hlim k)).cast (by simp [resLen]) (by simp [resLen]))
    intro c
    rw [frag_thresh, fragThresh_single]
  | .thresh k (.cons x (.cons y ys)), _, τ, i, h, hi => by
    obtain ⟨ts, hts, h⟩ := typeOf_thresh h
    obtain ⟨t, ts', hx, hxs, rfl⟩ := typesOf_cons hts
    obtain ⟨t2, ts'', hy2, hys, rfl⟩ := typesOf_cons hxs
    obtain ⟨n, hloop, hy⟩ := threshold_inv (threshold_corr h)
    simp only [List.map_cons] at hloop
    obtain ⟨_, _, _, _, htail⟩ := threshLoop_cons hloop
    obtain ⟨_, hw2, _, _, htail2⟩ := threshLoop_cons htail
    have hany := W_any hy2 (hw2 (by omega))
    have hge := threshLoop_ge htail2
    rw [hany] at hge
    simp only [Corr.numArgs] at hge
    rw [hy] at hi
    simp only at hi
    match n, hge, hi with
    | n + 2, _, hi => simp [nargs] at hi

end MsVerif.TypeSound

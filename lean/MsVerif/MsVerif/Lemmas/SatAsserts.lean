/-
The `assert!`s of the satisfier (`src/miniscript/satisfy/sat_dissat.rs`, `Terminal::OrB/OrC/OrD`
arms, and `Satisfaction::thresh` in `src/miniscript/satisfy/mod.rs`), stated over the executable
model `satDissat` (which does not model them as panics).

* `assertsOk c ms` — no assert fires anywhere in the tree;
* `asserts_hold` — for every well-typed script (with the `Threshold` invariant `k ≤ n`), every
  asset set and BOTH modes no assert fires: in malleable mode the asserts are disabled
  (`assertsOk_mall`), in non-malleable mode by the invariant `inv_of_typed`
  (`asserts_hold_nonmall`); `asserts_exB_silent` — the script on which the formerly
  unconditional `or_d` assert fired in malleable mode; `asserts_exA_silent` — the script that made `or_d`'s assert fire before the
  `j:` dissatisfaction was fixed (`Terminal::NonZero` now dissatisfies with one empty push).

Auxiliary definitions and lemmas live in the sub-namespace `MsVerif.SatSpec.Asserts`.
-/
import MsVerif.Model.Satisfy
import MsVerif.Model.TypeCheck

namespace MsVerif.SatSpec
open MsVerif

/-! ### the asserts -/

/-- The assert inside `Satisfaction::thresh` (non-malleable, `k < n`), same `key`, `idx`, `ret`,
`rest` as `threshNonMall`:
```text
if sats[sat_indices[k - 1]].stack == Witness::Impossible { IMPOSSIBLE }
else if !sats[sat_indices[k]].has_sig && sats[sat_indices[k]].stack != Witness::Impossible {
    for sat in &ret_stack { assert!(!sat.has_sig); }
    UNAVAILABLE
} else { fold }
```
`true` unless the UNAVAILABLE branch is taken and some entry of `ret_stack` carries a signature. -/
def threshAssertOk (k : Nat) (dissats sats : List Sat) : Bool :=
  let n := dissats.length
  let key := fun i => (⟨decide (sats[i]!.stack = .impossible), sats[i]!.hasSig,
    stackWeight sats[i]! dissats[i]!⟩ : SortKey)
  let idx := sortIdx key n
  let (ret, rest) := swapped k idx dissats sats
  if rest[idx[k - 1]!]!.stack = .impossible then true
  else if !rest[idx[k]!]!.hasSig && decide (rest[idx[k]!]!.stack ≠ .impossible) then
    ret.all (fun s => !s.hasSig)
  else true

mutual
/-- `true` iff none of the satisfier's `assert!`s fires anywhere in the tree:
* `Terminal::OrB`: `assert!(malleable || !l_dis.has_sig); assert!(malleable || !r_dis.has_sig);`
* `Terminal::OrC`, `Terminal::OrD`: `assert!(malleable || !l_dis.has_sig);`
  (since commit 139fcb34; before it the asserts were unconditional and fired in malleable mode)
* `Terminal::Thresh` with `k ≠ n` in non-malleable mode (`Satisfaction::thresh`):
  `for sat in &ret_stack { assert!(!sat.has_sig); }` in the UNAVAILABLE branch. -/
def assertsOk (c : SatCfg) : Ms → Bool
  | .orB l r =>
    assertsOk c l && assertsOk c r
      && (c.mall || !(satDissat c l).dissat.hasSig) && (c.mall || !(satDissat c r).dissat.hasSig)
  | .orC l r => assertsOk c l && assertsOk c r && (c.mall || !(satDissat c l).dissat.hasSig)
  | .orD l r => assertsOk c l && assertsOk c r && (c.mall || !(satDissat c l).dissat.hasSig)
  | .thresh k xs =>
    let sds := satDissats c xs
    assertsOks c xs
      && (k == sds.length || c.mall
          || threshAssertOk k (sds.map (·.dissat)) (sds.map (·.sat)))
  | .alt x | .swap x | .check x | .dupIf x | .verify x | .nonZero x | .zeroNotEqual x =>
    assertsOk c x
  | .andV l r | .andB l r | .orI l r => assertsOk c l && assertsOk c r
  | .andOr a b z => assertsOk c a && assertsOk c b && assertsOk c z
  | .tru | .fls | .pkK _ | .pkH _ | .rawPkH _ | .after _ | .older _ | .hash _ _
  | .multi _ _ | .sortedMulti _ _ | .multiA _ _ | .sortedMultiA _ _ => true
def assertsOks (c : SatCfg) : MsList → Bool
  | .nil => true
  | .cons x xs => assertsOk c x && assertsOks c xs
end

/-! ### two well-typed counterexamples -/

namespace Asserts

def keToy : KeyEnv :=
  ⟨fun k => [2, UInt8.ofNat k], fun k => [2, UInt8.ofNat k], fun _ => [], fun _ => [], fun _ _ => []⟩

/-- an ECDSA signature for key 2 only; no preimages, no locks satisfied -/
def assetsA : Assets :=
  ⟨fun k => k == 2, fun _ => none, fun _ => none, fun _ => none, fun _ => none,
   fun _ _ => false, fun _ => false, fun _ => false⟩

/-- as `assetsA`, every relative lock satisfied -/
def assetsB : Assets := { assetsA with checkOlder := fun _ => true }

/-- `pk(k)` = `c:pk_k(k)` -/
def pk (k : Key) : Ms := .check (.pkK k)

/-- `or_i(0,and_v(v:older(n),0))`: dissatisfiable, its cheapest dissatisfaction carries `older(n)` -/
def dl (n : Nat) : Ms := .orI .fls (.andV (.verify (.older n)) .fls)

end Asserts
open Asserts

/-- non-malleable mode, segwit v0 -/
def cfgA : SatCfg := ⟨keToy, .segwitv0, false, true, assetsA⟩
/-- malleable mode, segwit v0 -/
def cfgB : SatCfg := ⟨keToy, .segwitv0, true, true, assetsB⟩

/-- `or_d(or_i(j:and_v(v:pk(K0),pk(K1)),and_v(v:pk(K2),0)),pk(K3))`: while `j:` reported its
dissatisfaction as IMPOSSIBLE, `minimum` picked `[sig(K2) 0]` as dissatisfaction of the `or_i`
and the `or_d` assert fired; with `push_0` it no longer does -/
def exA : Ms :=
  .orD (.orI (.nonZero (.andV (.verify (pk 0)) (pk 1))) (.andV (.verify (pk 2)) .fls)) (pk 3)

/-- `or_d(or_i(and_b(dl(1),a:dl(4194305)),and_v(v:pk(K2),0)),pk(K3))`: height/time relative locks
mix in the `and_b` dissatisfaction, which `concatenate_rev` turns into IMPOSSIBLE -/
def exB : Ms :=
  .orD (.orI (.andB (dl 1) (.alt (dl 4194305))) (.andV (.verify (pk 2)) .fls)) (pk 3)

theorem exA_typed : (typeOf exA).isSome = true := by decide
theorem exA_nonMall_signed :
    (typeOf exA).map (fun t => (t.mall.nonMall, t.mall.signed)) = some (true, true) := by decide
theorem exB_typed : (typeOf exB).isSome = true := by decide



namespace Asserts

/-! ### `sortIdx` is a sorted permutation of `0..n` -/

theorem sortKey_le_total (a b : SortKey) : a.le b = false → b.le a = true := by
  rcases a with ⟨ai, as, aw⟩; rcases b with ⟨bi, bs, bw⟩
  cases ai <;> cases bi <;> cases as <;> cases bs <;> simp [SortKey.le] <;> omega

theorem sortKey_le_trans {a b c : SortKey} : a.le b = true → b.le c = true → a.le c = true := by
  rcases a with ⟨ai, as, aw⟩; rcases b with ⟨bi, bs, bw⟩; rcases c with ⟨ci, cs, cw⟩
  cases ai <;> cases bi <;> cases ci <;> cases as <;> cases bs <;> cases cs <;>
    simp [SortKey.le] <;> omega

theorem insertIdx_perm (key : Nat → SortKey) (i : Nat) (l : List Nat) :
    (insertIdx key i l).Perm (i :: l) := by
  induction l with
  | nil => exact .refl _
  | cons j js ih =>
    simp only [insertIdx]
    split
    · exact ((List.perm_cons j).2 ih).trans (List.Perm.swap i j js)
    · exact .refl _

theorem insertIdx_sorted (key : Nat → SortKey) (i : Nat) (l : List Nat)
    (h : l.Pairwise (fun a b => (key a).le (key b) = true)) :
    (insertIdx key i l).Pairwise (fun a b => (key a).le (key b) = true) := by
  induction l with
  | nil => simp [insertIdx]
  | cons j js ih =>
    rw [List.pairwise_cons] at h
    simp only [insertIdx]
    split
    · rename_i hle
      rw [List.pairwise_cons]
      refine ⟨?_, ih h.2⟩
      intro x hx
      rcases List.mem_cons.1 ((insertIdx_perm key i js).mem_iff.1 hx) with rfl | hx
      · exact hle
      · exact h.1 x hx
    · rename_i hle
      have hij : (key i).le (key j) = true := sortKey_le_total _ _ (by simpa using hle)
      rw [List.pairwise_cons]
      refine ⟨?_, List.pairwise_cons.2 h⟩
      intro x hx
      rcases List.mem_cons.1 hx with rfl | hx
      · exact hij
      · exact sortKey_le_trans hij (h.1 x hx)

theorem sortIdx_aux (key : Nat → SortKey) (xs acc : List Nat)
    (h : acc.Pairwise (fun a b => (key a).le (key b) = true)) :
    (xs.foldl (fun acc i => insertIdx key i acc) acc).Pairwise (fun a b => (key a).le (key b) = true)
    ∧ (xs.foldl (fun acc i => insertIdx key i acc) acc).Perm (xs ++ acc) := by
  induction xs generalizing acc with
  | nil => exact ⟨h, .refl _⟩
  | cons x xs ih =>
    simp only [List.foldl_cons]
    have := ih (insertIdx key x acc) (insertIdx_sorted key x acc h)
    refine ⟨this.1, this.2.trans ?_⟩
    exact ((List.perm_append_left_iff xs).2 (insertIdx_perm key x acc)).trans List.perm_middle

theorem sortIdx_sorted (key : Nat → SortKey) (n : Nat) :
    (sortIdx key n).Pairwise (fun a b => (key a).le (key b) = true) :=
  (sortIdx_aux key (List.range n) [] .nil).1

theorem sortIdx_perm (key : Nat → SortKey) (n : Nat) : (sortIdx key n).Perm (List.range n) := by
  have := (sortIdx_aux key (List.range n) [] .nil).2
  rw [List.append_nil] at this
  exact this

theorem range_map_getElem! {α} [Inhabited α] (g : Nat → α) {n m : Nat} (hm : m < n) :
    ((List.range n).map g)[m]! = g m := by
  rw [getElem!_pos _ _ (by simpa using hm)]
  simp

theorem sorted_prefix (R : Nat → Nat → Prop) (idx : List Nat) (n k : Nat)
    (hperm : idx.Perm (List.range n)) (hs : idx.Pairwise R) (hk : k < n) :
    idx[k]! < n ∧ idx[k]! ∉ idx.take k ∧ ∀ i ∈ idx.take k, R i idx[k]! := by
  have hlen : idx.length = n := by simpa using hperm.length_eq
  have hk' : k < idx.length := by omega
  rw [getElem!_pos idx k hk']
  have hnd : idx.Nodup := hperm.nodup_iff.2 List.nodup_range
  refine ⟨?_, ?_, ?_⟩
  · exact List.mem_range.1 (hperm.mem_iff.1 (List.getElem_mem hk'))
  · intro hmem
    obtain ⟨j, hj, hjk⟩ := List.mem_take_iff_getElem.1 hmem
    have hj' : j < k := by omega
    exact (List.pairwise_iff_getElem.1 hnd) j k (by omega) hk' hj' hjk
  · intro i hmem
    obtain ⟨j, hj, hjk⟩ := List.mem_take_iff_getElem.1 hmem
    have hj' : j < k := by omega
    subst hjk
    exact (List.pairwise_iff_getElem.1 hs) j k (by omega) hk' hj'

/-! ### the `thresh` assert -/

theorem sortKey_le_weak {a b : SortKey} (h : a.le b = true) (hi : b.imp = false) (hs : b.sig = false) :
    a.sig = false := by
  rcases a with ⟨ai, as, aw⟩; rcases b with ⟨bi, bs, bw⟩
  simp only at hi hs; subst hi; subst hs
  cases ai <;> cases as <;> simp [SortKey.le] at h ⊢

theorem ite_true_left {c : Prop} [Decidable c] {a : Bool} (h : ¬c → a = true) :
    (if c then true else a) = true := by split <;> simp_all
theorem ite_true_right {c : Prop} [Decidable c] {a : Bool} (h : c → a = true) :
    (if c then a else true) = true := by split <;> simp_all

theorem threshAssertOk_true (k : Nat) (dissats sats : List Sat)
    (hk : k < dissats.length) (hd : ∀ s ∈ dissats, s.hasSig = false) :
    threshAssertOk k dissats sats = true := by
  unfold threshAssertOk
  simp only [swapped]
  generalize hkey : (fun (i : Nat) => (⟨decide (sats[i]!.stack = .impossible), sats[i]!.hasSig,
    stackWeight sats[i]! dissats[i]!⟩ : SortKey)) = key
  have hP := sorted_prefix (fun a b => (key a).le (key b) = true) (sortIdx key dissats.length)
    dissats.length k (sortIdx_perm key _) (sortIdx_sorted key _) hk
  generalize sortIdx key dissats.length = idx at hP
  obtain ⟨hlt, hnot, hle⟩ := hP
  refine ite_true_left (fun _ => ite_true_right (fun h => ?_))
  simp only [range_map_getElem! _ hlt] at h
  have hnc : (List.take k idx).contains idx[k]! = false := by
    simpa using hnot
  simp only [hnc, Bool.false_eq_true, if_false] at h
  simp only [Bool.and_eq_true, Bool.not_eq_true', decide_eq_true_eq] at h
  rw [List.all_eq_true]
  intro s hs
  obtain ⟨i, hi, rfl⟩ := List.mem_map.1 hs
  have hi' : i < dissats.length := List.mem_range.1 hi
  by_cases hc : (List.take k idx).contains i = true
  · simp only [hc, if_true]
    have hmem : i ∈ List.take k idx := by simpa using hc
    have := sortKey_le_weak (hle i hmem) (by subst hkey; simpa using h.2) (by subst hkey; simpa using h.1)
    subst hkey
    simpa using this
  · simp only [hc]
    rw [getElem!_pos dissats i hi']
    simpa using hd _ (List.getElem_mem hi')

/-! ### clean dissatisfactions -/

def Clean (s : Sat) : Prop :=
  s.hasSig = false ∧ s.stack ≠ .impossible ∧ s.abs = none ∧ s.rel = none

theorem combine_ne_impossible {a b : Wit} (ha : a ≠ .impossible) (hb : b ≠ .impossible) :
    Wit.combine a b ≠ .impossible := by
  cases a <;> cases b <;> simp_all [Wit.combine]

theorem Clean.concat {a b : Sat} (ha : Clean a) (hb : Clean b) : Clean (a.concatenateRev b) := by
  obtain ⟨a1, a2, a3, a4⟩ := ha
  obtain ⟨b1, b2, b3, b4⟩ := hb
  simp only [Sat.concatenateRev, a2, b2, a3, a4, b3, b4, or_self, if_false, a1, b1]
  exact ⟨rfl, combine_ne_impossible b2 a2, rfl, rfl⟩

theorem Clean.minLeft {a : Sat} (b : Sat) (ha : Clean a) : Clean (Sat.minimum a b) := by
  obtain ⟨a1, a2, a3, a4⟩ := ha
  unfold Sat.minimum
  rw [if_neg a2]
  split
  · exact ⟨a1, a2, a3, a4⟩
  · rw [a1]
    cases b.hasSig
    · exact ⟨rfl, by simp [Sat.UNAVAILABLE], rfl, rfl⟩
    · exact ⟨rfl, a2, a3, a4⟩

theorem Clean.minRight (a : Sat) {b : Sat} (hb : Clean b) : Clean (Sat.minimum a b) := by
  obtain ⟨b1, b2, b3, b4⟩ := hb
  unfold Sat.minimum
  split
  · exact ⟨b1, b2, b3, b4⟩
  · rw [b1]
    cases a.hasSig
    · exact ⟨rfl, by simp [Sat.UNAVAILABLE], rfl, rfl⟩
    · exact ⟨rfl, b2, b3, b4⟩

theorem Clean.push {s : Sat} (l : List Ph) (h : Clean s) :
    Clean { s with stack := Wit.combine s.stack (.stack l) } :=
  ⟨h.1, combine_ne_impossible h.2.1 (by simp), h.2.2.1, h.2.2.2⟩

theorem Clean.foldConcat {l : List Sat} (h : ∀ s ∈ l, Clean s) : Clean (foldConcat l) := by
  have : ∀ (l : List Sat) (init : Sat), Clean init → (∀ s ∈ l, Clean s) →
      Clean (l.foldl Sat.concatenateRev init) := by
    intro l
    induction l with
    | nil => intro init hi _; exact hi
    | cons x xs ih =>
      intro init hi hl
      exact ih _ (hi.concat (hl x (by simp))) (fun s hs => hl s (by simp [hs]))
  exact this l _ ⟨rfl, by simp [Sat.empty], rfl, rfl⟩ h

/-! ### typing facts -/

theorem lift1_inv {fc : Corr → Option Corr} {fm : Mall → Mall} {t τ : Ty}
    (h : Ty.lift1 fc fm t = some τ) : fc t.corr = some τ.corr := by
  unfold Ty.lift1 at h
  split at h
  · rename_i c hc; cases h; exact hc
  · cases h

theorem lift2_inv {fc : Corr → Corr → Option Corr} {fm : Mall → Mall → Mall} {a b τ : Ty}
    (h : Ty.lift2 fc fm a b = some τ) : fc a.corr b.corr = some τ.corr := by
  unfold Ty.lift2 at h
  split at h
  · rename_i c hc; cases h; exact hc
  · cases h

theorem andOr_inv {a b z τ : Ty} (h : Ty.andOr a b z = some τ) :
    Corr.andOr a.corr b.corr z.corr = some τ.corr := by
  unfold Ty.andOr at h
  split at h
  · rename_i c hc; cases h; exact hc
  · cases h

theorem threshold_inv {k : Nat} {ts : List Ty} {τ : Ty} (h : Ty.threshold k ts = some τ) :
    Corr.threshold k (ts.map (·.corr)) = some τ.corr := by
  unfold Ty.threshold at h
  split at h
  · rename_i c hc; cases h; exact hc
  · cases h

theorem corr_castAlt_dissat {s t : Corr} (h : Corr.castAlt s = some t) : t.dissat = s.dissat := by
  rcases s with ⟨sb, si, sd, su⟩
  cases sb <;> simp [Corr.castAlt] at h <;> subst h <;> rfl

theorem corr_castSwap_dissat {s t : Corr} (h : Corr.castSwap s = some t) : t.dissat = s.dissat := by
  rcases s with ⟨sb, si, sd, su⟩
  cases sb <;> cases si <;> simp [Corr.castSwap] at h <;> subst h <;> rfl

theorem corr_castCheck_dissat {s t : Corr} (h : Corr.castCheck s = some t) : t.dissat = s.dissat := by
  rcases s with ⟨sb, si, sd, su⟩
  cases sb <;> simp [Corr.castCheck] at h <;> subst h <;> rfl

theorem corr_castZeroNotEqual_dissat {s t : Corr} (h : Corr.castZeroNotEqual s = some t) :
    t.dissat = s.dissat := by
  rcases s with ⟨sb, si, sd, su⟩
  cases sb <;> simp [Corr.castZeroNotEqual] at h <;> subst h <;> rfl

theorem corr_castVerify_dissat {s t : Corr} (h : Corr.castVerify s = some t) : t.dissat = false := by
  rcases s with ⟨sb, si, sd, su⟩
  cases sb <;> simp [Corr.castVerify] at h <;> subst h <;> rfl

theorem corr_andB_dissat {l r t : Corr} (h : Corr.andB l r = some t) :
    t.dissat = (l.dissat && r.dissat) := by
  rcases l with ⟨lb, li, ld, lu⟩; rcases r with ⟨rb, ri, rd, ru⟩
  cases lb <;> cases rb <;> simp [Corr.andB] at h <;> subst h <;> rfl

theorem corr_andV_dissat {l r t : Corr} (h : Corr.andV l r = some t) : t.dissat = false := by
  rcases l with ⟨lb, li, ld, lu⟩; rcases r with ⟨rb, ri, rd, ru⟩
  cases lb <;> cases rb <;> simp [Corr.andV] at h <;> subst h <;> rfl

theorem corr_orB_dissat {l r t : Corr} (h : Corr.orB l r = some t) :
    l.dissat = true ∧ r.dissat = true := by
  rcases l with ⟨lb, li, ld, lu⟩; rcases r with ⟨rb, ri, rd, ru⟩
  cases ld <;> cases rd <;> simp [Corr.orB] at h ⊢

theorem corr_orD_dissat {l r t : Corr} (h : Corr.orD l r = some t) :
    l.dissat = true ∧ t.dissat = r.dissat := by
  rcases l with ⟨lb, li, ld, lu⟩; rcases r with ⟨rb, ri, rd, ru⟩
  cases ld <;> cases lu <;> cases lb <;> cases rb <;> simp [Corr.orD] at h ⊢ <;> subst h <;> rfl

theorem corr_orC_dissat {l r t : Corr} (h : Corr.orC l r = some t) :
    l.dissat = true ∧ t.dissat = false := by
  rcases l with ⟨lb, li, ld, lu⟩; rcases r with ⟨rb, ri, rd, ru⟩
  cases ld <;> cases lu <;> cases lb <;> cases rb <;> simp [Corr.orC] at h ⊢ <;> subst h <;> rfl

theorem corr_orI_dissat {l r t : Corr} (h : Corr.orI l r = some t) :
    t.dissat = (l.dissat || r.dissat) := by
  rcases l with ⟨lb, li, ld, lu⟩; rcases r with ⟨rb, ri, rd, ru⟩
  cases lb <;> cases rb <;> simp [Corr.orI] at h <;> subst h <;> rfl

theorem corr_andOr_dissat {a b z t : Corr} (h : Corr.andOr a b z = some t) :
    a.dissat = true ∧ t.dissat = z.dissat := by
  rcases a with ⟨ab, ai, ad, au⟩; rcases b with ⟨bb, bi, bd, bu⟩; rcases z with ⟨zb, zi, zd, zu⟩
  cases ad <;> cases au <;> cases ab <;> cases bb <;> cases zb <;>
    simp [Corr.andOr] at h ⊢ <;> subst h <;> rfl

theorem corr_threshLoop_dissat (cs : List Corr) : ∀ (i acc n : Nat),
    Corr.threshLoop i acc cs = some n → ∀ s ∈ cs, s.dissat = true := by
  induction cs with
  | nil => intro _ _ _ _ s hs; cases hs
  | cons x xs ih =>
    intro i acc n h s hs
    simp only [Corr.threshLoop] at h
    split at h; · cases h
    split at h; · cases h
    split at h; · cases h
    split at h; · cases h
    rename_i hd
    rcases List.mem_cons.1 hs with rfl | hs
    · simpa using hd
    · exact ih _ _ _ h s hs

theorem corr_threshold_dissat {k : Nat} {cs : List Corr} {t : Corr}
    (h : Corr.threshold k cs = some t) : ∀ s ∈ cs, s.dissat = true := by
  unfold Corr.threshold at h
  split at h
  · cases h
  · rename_i n hn; exact corr_threshLoop_dissat cs _ _ _ hn

/-! ### the invariant -/

/-- the asserts hold below `ms`, and if `ms` has the `d` property, its computed dissatisfaction is
sig-free, lock-free and not IMPOSSIBLE -/
def Inv (c : SatCfg) (ms : Ms) (τ : Ty) : Prop :=
  assertsOk c ms = true ∧ (τ.corr.dissat = true → Clean (satDissat c ms).dissat)

theorem Inv.wrap {c : SatCfg} {x y : Ms} {t τ : Ty} (hI : Inv c x t)
    (ha : assertsOk c y = assertsOk c x) (hd : (satDissat c y).dissat = (satDissat c x).dissat)
    (ht : τ.corr.dissat = t.corr.dissat) : Inv c y τ :=
  ⟨ha ▸ hI.1, fun h => hd ▸ hI.2 (ht ▸ h)⟩

theorem Inv.ofNoDissat {c : SatCfg} {y : Ms} {τ : Ty} (ha : assertsOk c y = true)
    (ht : τ.corr.dissat = false) : Inv c y τ :=
  ⟨ha, fun h => by rw [ht] at h; cases h⟩

theorem multiSD_dissat (ctx : Ctx) (a : Assets) (k : Nat) (ks : List Key) :
    Clean (multiSD ctx a k ks).dissat := by
  unfold multiSD
  simp only []
  split <;> exact ⟨rfl, by simp, rfl, rfl⟩

theorem multiASD_dissat (ctx : Ctx) (a : Assets) (k : Nat) (ks : List Key) :
    Clean (multiASD ctx a k ks).dissat := by
  unfold multiASD
  simp only []
  split <;> exact ⟨rfl, by simp, rfl, rfl⟩

theorem satDissats_length (c : SatCfg) : (xs : MsList) → (satDissats c xs).length = xs.length
  | .nil => rfl
  | .cons _ xs => by simp [satDissats, MsList.length, satDissats_length c xs]

end Asserts
open Asserts

mutual
/-- the `Threshold<T, MAX>` invariant `k ≤ n` at every `thresh` (the Rust type guarantees
`1 ≤ k ≤ n`; `typeOf` does not look at `k`) -/
def threshKOk : Ms → Bool
  | .thresh k xs => decide (k ≤ xs.length) && threshKOks xs
  | .alt x | .swap x | .check x | .dupIf x | .verify x | .nonZero x | .zeroNotEqual x => threshKOk x
  | .andV l r | .andB l r | .orB l r | .orC l r | .orD l r | .orI l r => threshKOk l && threshKOk r
  | .andOr a b z => threshKOk a && threshKOk b && threshKOk z
  | .tru | .fls | .pkK _ | .pkH _ | .rawPkH _ | .after _ | .older _ | .hash _ _
  | .multi _ _ | .sortedMulti _ _ | .multiA _ _ | .sortedMultiA _ _ => true
def threshKOks : MsList → Bool
  | .nil => true
  | .cons x xs => threshKOk x && threshKOks xs
end

namespace Asserts

theorem minFn_nonMall (c : SatCfg) (hm : c.mall = false) : c.minFn = Sat.minimum := by
  simp [SatCfg.minFn, hm]

/-! ### the invariant holds for well-typed scripts in non-malleable mode -/

mutual
theorem inv_of_typed (c : SatCfg) (hm : c.mall = false) :
    (ms : Ms) → (τ : Ty) → typeOf ms = some τ → threshKOk ms = true →
      Inv c ms τ
  | .tru, τ, h, _ => by
    simp only [typeOf, Option.some.injEq] at h; subst h
    exact Inv.ofNoDissat (by simp only [assertsOk]) rfl
  | .fls, τ, h, _ =>
    ⟨by simp only [assertsOk], fun _ => by simp [satDissat, Clean, Sat.TRIVIAL]⟩
  | .pkK k, τ, h, _ =>
    ⟨by simp only [assertsOk], fun _ => by simp [satDissat, Clean, Sat.push0]⟩
  | .pkH k, τ, h, _ =>
    ⟨by simp only [assertsOk], fun _ => by simp [satDissat, Clean, Wit.combine]⟩
  | .rawPkH k, τ, h, _ => by
    refine ⟨by simp only [assertsOk], fun _ => ?_⟩
    simp only [satDissat]
    cases c.assets.rawPkhPk k <;> simp [Clean, Wit.combine]
  | .after n, τ, h, _ => by
    simp only [typeOf, Option.some.injEq] at h; subst h
    exact Inv.ofNoDissat (by simp only [assertsOk]) rfl
  | .older n, τ, h, _ => by
    simp only [typeOf, Option.some.injEq] at h; subst h
    exact Inv.ofNoDissat (by simp only [assertsOk]) rfl
  | .hash kind v, τ, h, _ =>
    ⟨by simp only [assertsOk], fun _ => by simp [satDissat, Clean]⟩
  | .multi k ks, τ, h, _ =>
    ⟨by simp only [assertsOk], fun _ => by simp only [satDissat]; exact multiSD_dissat ..⟩
  | .sortedMulti k ks, τ, h, _ =>
    ⟨by simp only [assertsOk], fun _ => by simp only [satDissat]; exact multiSD_dissat ..⟩
  | .multiA k ks, τ, h, _ =>
    ⟨by simp only [assertsOk], fun _ => by simp only [satDissat]; exact multiASD_dissat ..⟩
  | .sortedMultiA k ks, τ, h, _ =>
    ⟨by simp only [assertsOk], fun _ => by simp only [satDissat]; exact multiASD_dissat ..⟩
  | .alt x, τ, h, hk => by
    simp only [typeOf, Option.bind_eq_some_iff] at h
    obtain ⟨t, ht, hc⟩ := h
    simp only [threshKOk] at hk
    exact (inv_of_typed c hm x t ht hk).wrap (by simp only [assertsOk])
      (by simp only [satDissat]) (corr_castAlt_dissat (lift1_inv hc))
  | .swap x, τ, h, hk => by
    simp only [typeOf, Option.bind_eq_some_iff] at h
    obtain ⟨t, ht, hc⟩ := h
    simp only [threshKOk] at hk
    exact (inv_of_typed c hm x t ht hk).wrap (by simp only [assertsOk])
      (by simp only [satDissat]) (corr_castSwap_dissat (lift1_inv hc))
  | .check x, τ, h, hk => by
    simp only [typeOf, Option.bind_eq_some_iff] at h
    obtain ⟨t, ht, hc⟩ := h
    simp only [threshKOk] at hk
    exact (inv_of_typed c hm x t ht hk).wrap (by simp only [assertsOk])
      (by simp only [satDissat]) (corr_castCheck_dissat (lift1_inv hc))
  | .zeroNotEqual x, τ, h, hk => by
    simp only [typeOf, Option.bind_eq_some_iff] at h
    obtain ⟨t, ht, hc⟩ := h
    simp only [threshKOk] at hk
    exact (inv_of_typed c hm x t ht hk).wrap (by simp only [assertsOk])
      (by simp only [satDissat]) (corr_castZeroNotEqual_dissat (lift1_inv hc))
  | .dupIf x, τ, h, hk => by
    simp only [typeOf, Option.bind_eq_some_iff] at h
    obtain ⟨t, ht, hc⟩ := h
    simp only [threshKOk] at hk
    have I := inv_of_typed c hm x t ht hk
    exact ⟨by simp only [assertsOk]; exact I.1, fun _ => by simp [satDissat, Clean, Sat.push0]⟩
  | .verify x, τ, h, hk => by
    simp only [typeOf, Option.bind_eq_some_iff] at h
    obtain ⟨t, ht, hc⟩ := h
    simp only [threshKOk] at hk
    have I := inv_of_typed c hm x t ht hk
    exact Inv.ofNoDissat (by simp only [assertsOk]; exact I.1)
      (corr_castVerify_dissat (lift1_inv hc))
  | .nonZero x, τ, h, hk => by
    simp only [typeOf, Option.bind_eq_some_iff] at h
    obtain ⟨t, ht, hc⟩ := h
    simp only [threshKOk] at hk
    have I := inv_of_typed c hm x t ht hk
    exact ⟨by simp only [assertsOk]; exact I.1, fun _ => by simp [satDissat, Clean, Sat.push0]⟩
  | .andB l r, τ, h, hk => by
    simp only [typeOf] at h
    cases hl : typeOf l <;> cases hr : typeOf r <;> simp only [hl, hr] at h <;>
      try (cases h; done)
    rename_i tl tr
    simp only [threshKOk, Bool.and_eq_true] at hk
    have Il := inv_of_typed c hm l tl hl hk.1
    have Ir := inv_of_typed c hm r tr hr hk.2
    have hd := corr_andB_dissat (lift2_inv h)
    refine ⟨by simp only [assertsOk, Il.1, Ir.1, Bool.and_self], fun hτ => ?_⟩
    rw [hd, Bool.and_eq_true] at hτ
    simp only [satDissat]
    exact (Il.2 hτ.1).concat (Ir.2 hτ.2)
  | .andV l r, τ, h, hk => by
    simp only [typeOf] at h
    cases hl : typeOf l <;> cases hr : typeOf r <;> simp only [hl, hr] at h <;>
      try (cases h; done)
    rename_i tl tr
    simp only [threshKOk, Bool.and_eq_true] at hk
    have Il := inv_of_typed c hm l tl hl hk.1
    have Ir := inv_of_typed c hm r tr hr hk.2
    exact Inv.ofNoDissat (by simp only [assertsOk, Il.1, Ir.1, Bool.and_self])
      (corr_andV_dissat (lift2_inv h))
  | .orB l r, τ, h, hk => by
    simp only [typeOf] at h
    cases hl : typeOf l <;> cases hr : typeOf r <;> simp only [hl, hr] at h <;>
      try (cases h; done)
    rename_i tl tr
    simp only [threshKOk, Bool.and_eq_true] at hk
    have Il := inv_of_typed c hm l tl hl hk.1
    have Ir := inv_of_typed c hm r tr hr hk.2
    obtain ⟨hdl, hdr⟩ := corr_orB_dissat (lift2_inv h)
    have Cl := Il.2 hdl
    have Cr := Ir.2 hdr
    refine ⟨by simp [assertsOk, Il.1, Ir.1, Cl.1, Cr.1], fun _ => ?_⟩
    simp only [satDissat]
    exact Cl.concat Cr
  | .orC l r, τ, h, hk => by
    simp only [typeOf] at h
    cases hl : typeOf l <;> cases hr : typeOf r <;> simp only [hl, hr] at h <;>
      try (cases h; done)
    rename_i tl tr
    simp only [threshKOk, Bool.and_eq_true] at hk
    have Il := inv_of_typed c hm l tl hl hk.1
    have Ir := inv_of_typed c hm r tr hr hk.2
    obtain ⟨hdl, hτ⟩ := corr_orC_dissat (lift2_inv h)
    exact Inv.ofNoDissat (by simp [assertsOk, Il.1, Ir.1, (Il.2 hdl).1]) hτ
  | .orD l r, τ, h, hk => by
    simp only [typeOf] at h
    cases hl : typeOf l <;> cases hr : typeOf r <;> simp only [hl, hr] at h <;>
      try (cases h; done)
    rename_i tl tr
    simp only [threshKOk, Bool.and_eq_true] at hk
    have Il := inv_of_typed c hm l tl hl hk.1
    have Ir := inv_of_typed c hm r tr hr hk.2
    obtain ⟨hdl, hτ⟩ := corr_orD_dissat (lift2_inv h)
    refine ⟨by simp [assertsOk, Il.1, Ir.1, (Il.2 hdl).1], fun hτ' => ?_⟩
    rw [hτ] at hτ'
    simp only [satDissat]
    exact (Il.2 hdl).concat (Ir.2 hτ')
  | .orI l r, τ, h, hk => by
    simp only [typeOf] at h
    cases hl : typeOf l <;> cases hr : typeOf r <;> simp only [hl, hr] at h <;>
      try (cases h; done)
    rename_i tl tr
    simp only [threshKOk, Bool.and_eq_true] at hk
    have Il := inv_of_typed c hm l tl hl hk.1
    have Ir := inv_of_typed c hm r tr hr hk.2
    have hd := corr_orI_dissat (lift2_inv h)
    refine ⟨by simp only [assertsOk, Il.1, Ir.1, Bool.and_self], fun hτ => ?_⟩
    rw [hd, Bool.or_eq_true] at hτ
    simp only [satDissat]
    rw [minFn_nonMall c hm]
    rcases hτ with h1 | h2
    · exact Clean.minLeft _ ((Il.2 h1).push _)
    · exact Clean.minRight _ ((Ir.2 h2).push _)
  | .andOr a b z, τ, h, hk => by
    simp only [typeOf] at h
    cases ha : typeOf a <;> cases hb : typeOf b <;> cases hz : typeOf z <;>
      simp only [ha, hb, hz] at h <;> try (cases h; done)
    rename_i ta tb tz
    simp only [threshKOk, Bool.and_eq_true] at hk
    have Ia := inv_of_typed c hm a ta ha hk.1.1
    have Ib := inv_of_typed c hm b tb hb hk.1.2
    have Iz := inv_of_typed c hm z tz hz hk.2
    obtain ⟨hda, hτ⟩ := corr_andOr_dissat (andOr_inv h)
    refine ⟨by simp only [assertsOk, Ia.1, Ib.1, Iz.1, Bool.and_self], fun hτ' => ?_⟩
    rw [hτ] at hτ'
    simp only [satDissat]
    exact (Ia.2 hda).concat (Iz.2 hτ')
  | .thresh k xs, τ, h, hk => by
    simp only [typeOf, Option.bind_eq_some_iff] at h
    obtain ⟨ts, hts, hth⟩ := h
    simp only [threshKOk, Bool.and_eq_true, decide_eq_true_eq] at hk
    have hds := corr_threshold_dissat (threshold_inv hth)
    have I := invs_of_typed c hm xs ts hts hk.2
    have hC : ∀ sd ∈ satDissats c xs, Clean sd.dissat :=
      I.2 (fun t ht => hds _ (List.mem_map_of_mem ht))
    refine ⟨?_, fun _ => ?_⟩
    · simp only [assertsOk, I.1, Bool.true_and, Bool.or_eq_true, beq_iff_eq, hm]
      by_cases hkn : k = (satDissats c xs).length
      · exact .inl (.inl hkn)
      · refine .inr (threshAssertOk_true _ _ _ ?_ ?_)
        · rw [List.length_map]
          have := satDissats_length c xs
          omega
        · intro s hs
          obtain ⟨sd, hsd, rfl⟩ := List.mem_map.1 hs
          exact (hC sd hsd).1
    · simp only [satDissat]
      apply Clean.foldConcat
      intro s hs
      obtain ⟨sd, hsd, rfl⟩ := List.mem_map.1 hs
      exact hC sd hsd
theorem invs_of_typed (c : SatCfg) (hm : c.mall = false) :
    (xs : MsList) → (ts : List Ty) → typesOf xs = some ts →
      threshKOks xs = true →
      assertsOks c xs = true ∧
        ((∀ t ∈ ts, t.corr.dissat = true) → ∀ sd ∈ satDissats c xs, Clean sd.dissat)
  | .nil, ts, h, _ =>
    ⟨by simp only [assertsOks], fun _ sd hsd => by simp [satDissats] at hsd⟩
  | .cons x xs, ts, h, hk => by
    simp only [typesOf] at h
    cases hx : typeOf x <;> cases hxs : typesOf xs <;> simp only [hx, hxs] at h <;>
      try (cases h; done)
    rename_i t ts'
    simp only [Option.some.injEq] at h; subst h
    simp only [threshKOks, Bool.and_eq_true] at hk
    have Ix := inv_of_typed c hm x t hx hk.1
    have Ixs := invs_of_typed c hm xs ts' hxs hk.2
    refine ⟨by simp only [assertsOks, Ix.1, Ixs.1, Bool.and_self], fun hall sd hsd => ?_⟩
    simp only [satDissats, List.mem_cons] at hsd
    rcases hsd with rfl | hsd
    · exact Ix.2 (hall t (by simp))
    · exact Ixs.2 (fun t' ht' => hall t' (by simp [ht'])) sd hsd
end

end Asserts
open Asserts

/-! ### main statements -/

/-- **Positive part.**  Non-malleable mode, any well-typed script (with the `Threshold` invariant
`k ≤ n`, which the Rust type `Threshold<T, MAX>` guarantees but `typeOf` does not check): none of
the satisfier's `assert!`s fires, whatever the assets are. -/
theorem asserts_hold_nonmall (c : SatCfg) (hm : c.mall = false) (ms : Ms) (τ : Ty)
    (hty : typeOf ms = some τ) (hk : threshKOk ms = true) :
    assertsOk c ms = true :=
  (inv_of_typed c hm ms τ hty hk).1

/-- by-product of the invariant: under the same hypotheses a `d`-typed script has a computed
dissatisfaction that is sig-free, lock-free and not IMPOSSIBLE -/
theorem dissat_clean_nonmall (c : SatCfg) (hm : c.mall = false) (ms : Ms) (τ : Ty)
    (hty : typeOf ms = some τ) (hk : threshKOk ms = true)
    (hd : τ.corr.dissat = true) :
    (satDissat c ms).dissat.hasSig = false ∧ (satDissat c ms).dissat.stack ≠ .impossible ∧
      (satDissat c ms).dissat.abs = none ∧ (satDissat c ms).dissat.rel = none :=
  (inv_of_typed c hm ms τ hty hk).2 hd

/-- the former counterexample (fixed with `j:`'s dissatisfaction = one empty push) is silent -/
theorem asserts_exA_silent : assertsOk cfgA exA = true := by decide

/-- the same without the `k ≤ n` side condition -/
def asserts_hold_full : Prop :=
  ∀ (c : SatCfg) (ms : Ms) (τ : Ty), typeOf ms = some τ → assertsOk c ms = true

/-- `thresh(2, pk(K0))` (`k > n`, not constructible in Rust): `typeOf` ignores `k`, and the model
of `Satisfaction::thresh` reads `sat_indices[k]` out of range -/
def exK : Ms := .thresh 2 (.cons (pk 0) .nil)

theorem exK_facts :
    (typeOf exK).isSome = true ∧ threshKOk exK = false ∧ assertsOk cfgA exK = false := by decide

/-- the side condition `threshKOk` cannot be dropped (model artefact: `k > n` is
unrepresentable in the library) -/
theorem asserts_hold_full_false : ¬ asserts_hold_full := by
  intro h
  have hty : typeOf exK = some ((typeOf exK).get (by decide)) := by simp
  have := h cfgA exK _ hty
  rw [exK_facts.2.2] at this
  cases this

mutual
/-- malleable mode: every assert is disabled (`malleable || …`; `thresh_mall` has none) -/
theorem assertsOk_mall (c : SatCfg) (hm : c.mall = true) : (ms : Ms) → assertsOk c ms = true
  | .orB l r => by simp [assertsOk, hm, assertsOk_mall c hm l, assertsOk_mall c hm r]
  | .orC l r => by simp [assertsOk, hm, assertsOk_mall c hm l, assertsOk_mall c hm r]
  | .orD l r => by simp [assertsOk, hm, assertsOk_mall c hm l, assertsOk_mall c hm r]
  | .thresh k xs => by simp [assertsOk, hm, assertsOks_mall c hm xs]
  | .alt x | .swap x | .check x | .dupIf x | .verify x | .nonZero x | .zeroNotEqual x => by
    simp only [assertsOk]; exact assertsOk_mall c hm x
  | .andV l r | .andB l r | .orI l r => by
    simp [assertsOk, assertsOk_mall c hm l, assertsOk_mall c hm r]
  | .andOr a b z => by
    simp [assertsOk, assertsOk_mall c hm a, assertsOk_mall c hm b, assertsOk_mall c hm z]
  | .tru | .fls | .pkK _ | .pkH _ | .rawPkH _ | .after _ | .older _ | .hash _ _
  | .multi _ _ | .sortedMulti _ _ | .multiA _ _ | .sortedMultiA _ _ => by simp [assertsOk]
theorem assertsOks_mall (c : SatCfg) (hm : c.mall = true) : (xs : MsList) → assertsOks c xs = true
  | .nil => by simp [assertsOks]
  | .cons x xs => by simp [assertsOks, assertsOk_mall c hm x, assertsOks_mall c hm xs]
end

/-- **No assert of the satisfier can fire**: every well-typed script (with `k ≤ n` at every
`thresh`, which `Threshold::new` guarantees), every asset set, BOTH modes. -/
theorem asserts_hold (c : SatCfg) (ms : Ms) (τ : Ty) (hty : typeOf ms = some τ)
    (hk : threshKOk ms = true) : assertsOk c ms = true := by
  cases hm : c.mall
  · exact asserts_hold_nonmall c hm ms τ hty hk
  · exact assertsOk_mall c hm ms

/-- the script on which the formerly unconditional `Terminal::OrD` assert fired in malleable
mode (mixed relative-lock units make the `and_b` dissatisfaction IMPOSSIBLE, `minimum_mall`
then hands `or_d` a dissatisfaction carrying a signature) is silent now -/
theorem asserts_exB_silent :
    assertsOk cfgB exB = true ∧ (satDissat cfgB (.orI (.andB (dl 1) (.alt (dl 4194305)))
      (.andV (.verify (pk 2)) .fls))).dissat.hasSig = true := by decide

end MsVerif.SatSpec

/-
C10: three class-preserving substitutions in the body (each changes exactly one 5-bit symbol)
are detected — the engines stay twins (`Tw`), the residue difference is
`L^a e₁ + L^b e₂ + L^c e₃`, which `triple_free` shows non-zero.
-/
import MsVerif.Lemmas.ChecksumTriple

namespace MsVerif.Checksum

/-- class (group of 32 in INPUT_CHARSET order) of a valid character: 0, 1 or 2 -/
def classOf (c : Char) : Option Nat := (charMap? c.toNat).map (· / 32)

/-- a class-preserving substitution on twins -/
theorem Tw_diff {a b : Engine} {δ : W} (h : Tw a b δ) {p q : Nat} (hp : p < 95) (hq : q < 95)
    (hcls : p / 32 = q / 32) :
    Tw (next a p) (next b q)
      (Lpow (stepSyms a.clscount) δ
        ^^^ Lpow (stepSyms a.clscount - 1) (BitVec.ofNat 40 (p % 32 ^^^ q % 32))) := by
  have hlo : p % 32 < 32 := Nat.mod_lt _ (by decide)
  have hlo' : q % 32 < 32 := Nat.mod_lt _ (by decide)
  have ca := cls_bound27 h.wa hp
  have hx := xor_inputFe2 a.residue b.residue _ _ hlo hlo'
  rw [h.res] at hx
  refine ⟨?_, ?_, WF_next h.wa hp, WF_next h.wb hq, ?_⟩
  · rw [next_clscount, next_clscount, h.cnt]
  · unfold next; rw [h.cnt, h.cls, hcls]; by_cases h3 : b.clscount + 1 = 3 <;> simp [h3]
  · unfold stepSyms
    by_cases h3 : a.clscount + 1 = 3
    · have h3b : b.clscount + 1 = 3 := by rw [← h.cnt]; exact h3
      rw [next_emit h3, next_emit h3b]
      simp only [h3, if_true]
      show inputFe _ _ ^^^ inputFe _ _ = _
      rw [← h.cls, ← hcls, xor_inputFe _ _ _ (by omega), hx, L_xor]
      rfl
    · have h3b : ¬ b.clscount + 1 = 3 := by rw [← h.cnt]; exact h3
      rw [next_noemit h3, next_noemit h3b]
      simp only [h3, if_false]
      exact hx

theorem Tw_list {a b : Engine} {δ : W} (h : Tw a b δ) {s : List Char} (hs : AllValid s) :
    ∃ a' b', a.inputUnchecked s = some a' ∧ b.inputUnchecked s = some b' ∧
      Tw a' b' (Lpow (s.length + (a.clscount + s.length) / 3) δ) := by
  induction s generalizing a b δ with
  | nil =>
    refine ⟨a, b, rfl, rfl, ?_⟩
    have : a.clscount < 3 := h.wa.1
    have : (a.clscount + 0) / 3 = 0 := by omega
    simp only [List.length_nil, this]; exact h
  | cons c cs ih =>
    obtain ⟨hc, hcs⟩ := hs.of_cons
    obtain ⟨p, hp, hlt⟩ := pos_of_valid c hc
    simp only [Engine.inputUnchecked, inputByte_eq h.wa hp hlt, inputByte_eq h.wb hp hlt]
    obtain ⟨a', b', ha, hb, ht⟩ := ih (Tw_next h hlt) hcs
    refine ⟨a', b', ha, hb, ?_⟩
    rw [← Lpow_add] at ht
    have hcnt : a.clscount < 3 := h.wa.1
    have e : cs.length + ((next a p).clscount + cs.length) / 3 + stepSyms a.clscount
        = (c :: cs).length + (a.clscount + (c :: cs).length) / 3 := by
      rw [next_clscount]; unfold stepSyms
      simp only [List.length_cons]
      by_cases h3 : a.clscount + 1 = 3
      · simp only [h3, if_true]; omega
      · simp only [h3, if_false]; omega
    rw [e] at ht; exact ht

theorem classOf_pos {c : Char} {p : Nat} (h : charMap? c.toNat = some p) : classOf c = some (p / 32) := by
  unfold classOf; rw [h]; rfl

/-- the core: three class-preserving substitutions change the checksum -/
theorem checksum_differs_three {pre m1 m2 post : List Char} {x x' y y' z z' : Char}
    (hpre : AllValid pre) (hm1 : AllValid m1) (hm2 : AllValid m2) (hpost : AllValid post)
    (hx : validChar x = true) (hx' : validChar x' = true) (hy : validChar y = true)
    (hy' : validChar y' = true) (hz : validChar z = true) (hz' : validChar z' = true)
    (hnx : x ≠ x') (hny : y ≠ y') (hnz : z ≠ z')
    (hcx : classOf x = classOf x') (hcy : classOf y = classOf y') (hcz : classOf z = classOf z')
    (hlen : m1.length + m2.length ≤ 770) :
    ∃ c1 c2, checksumOf (pre ++ x :: (m1 ++ y :: (m2 ++ z :: post))) = some c1 ∧
      checksumOf (pre ++ x' :: (m1 ++ y' :: (m2 ++ z' :: post))) = some c2 ∧ c1 ≠ c2 := by
  obtain ⟨en, he, w⟩ := inputUnchecked_valid WF_new hpre
  obtain ⟨p, hp, hpl⟩ := pos_of_valid x hx
  obtain ⟨p', hp', hpl'⟩ := pos_of_valid x' hx'
  obtain ⟨q, hq, hql⟩ := pos_of_valid y hy
  obtain ⟨q', hq', hql'⟩ := pos_of_valid y' hy'
  obtain ⟨r, hr, hrl⟩ := pos_of_valid z hz
  obtain ⟨r', hr', hrl'⟩ := pos_of_valid z' hz'
  have hpp : p ≠ p' := by intro e; apply hnx; apply pos_inj hx hx'; rw [hp, hp', e]
  have hqq : q ≠ q' := by intro e; apply hny; apply pos_inj hy hy'; rw [hq, hq', e]
  have hrr : r ≠ r' := by intro e; apply hnz; apply pos_inj hz hz'; rw [hr, hr', e]
  have hcp : p / 32 = p' / 32 := by
    rw [classOf_pos hp, classOf_pos hp'] at hcx; exact Option.some.inj hcx
  have hcq : q / 32 = q' / 32 := by
    rw [classOf_pos hq, classOf_pos hq'] at hcy; exact Option.some.inj hcy
  have hcr : r / 32 = r' / 32 := by
    rw [classOf_pos hr, classOf_pos hr'] at hcz; exact Option.some.inj hcz
  -- symbols
  have l1 : p % 32 ^^^ p' % 32 < 32 := xor_lt32 (Nat.mod_lt _ (by decide)) (Nat.mod_lt _ (by decide))
  have l2 : q % 32 ^^^ q' % 32 < 32 := xor_lt32 (Nat.mod_lt _ (by decide)) (Nat.mod_lt _ (by decide))
  have l3 : r % 32 ^^^ r' % 32 < 32 := xor_lt32 (Nat.mod_lt _ (by decide)) (Nat.mod_lt _ (by decide))
  have n1 : p % 32 ^^^ p' % 32 ≠ 0 := xor_ne_zero (by omega)
  have n2 : q % 32 ^^^ q' % 32 ≠ 0 := xor_ne_zero (by omega)
  -- the run
  have t1 := Tw_diff (Tw_refl w) hpl hpl' hcp
  rw [Lpow_zero', BitVec.zero_xor] at t1
  obtain ⟨a1, b1, ha1, hb1, t2⟩ := Tw_list t1 hm1
  rw [← Lpow_add] at t2
  have t3 := Tw_diff t2 hql hql' hcq
  rw [← Lpow_add] at t3
  obtain ⟨a2, b2, ha2, hb2, t4⟩ := Tw_list t3 hm2
  rw [Lpow_xor, ← Lpow_add, ← Lpow_add] at t4
  have t5 := Tw_diff t4 hrl hrl' hcr
  rw [Lpow_xor, ← Lpow_add, ← Lpow_add] at t5
  -- exponents
  have c1 : (next en p).clscount < 3 := (WF_next w hpl).1
  have c2 : (next a1 q).clscount < 3 := (WF_next t2.wa hql).1
  have s1 : stepSyms en.clscount - 1 ≤ 1 := by unfold stepSyms; split <;> omega
  have s2a : 1 ≤ stepSyms a1.clscount := by unfold stepSyms; split <;> omega
  have s2b : stepSyms a1.clscount ≤ 2 := by unfold stepSyms; split <;> omega
  have s3a : 1 ≤ stepSyms a2.clscount := by unfold stepSyms; split <;> omega
  obtain ⟨A, hA⟩ : ∃ A, A = stepSyms a2.clscount - 1 := ⟨_, rfl⟩
  obtain ⟨K2, hK2⟩ : ∃ K2, K2 = m2.length + ((next a1 q).clscount + m2.length) / 3 := ⟨_, rfl⟩
  obtain ⟨K1, hK1⟩ : ∃ K1, K1 = m1.length + ((next en p).clscount + m1.length) / 3 := ⟨_, rfl⟩
  rw [← hK1, ← hK2] at t5
  -- factor `L^A` out of the three terms
  have e1 : stepSyms a2.clscount + (K2 + (stepSyms a1.clscount + (K1 + (stepSyms en.clscount - 1))))
      = A + (1 + K2 + stepSyms a1.clscount + K1 + (stepSyms en.clscount - 1)) := by omega
  have e2 : stepSyms a2.clscount + (K2 + (stepSyms a1.clscount - 1))
      = A + (K2 + stepSyms a1.clscount) := by omega
  rw [e1, e2, ← hA, Lpow_add A, Lpow_add A, ← Lpow_xor, ← Lpow_xor] at t5
  have hne : Lpow A (Lpow (1 + K2 + stepSyms a1.clscount + K1 + (stepSyms en.clscount - 1))
        (BitVec.ofNat 40 (p % 32 ^^^ p' % 32))
      ^^^ Lpow (K2 + stepSyms a1.clscount) (BitVec.ofNat 40 (q % 32 ^^^ q' % 32))
      ^^^ BitVec.ofNat 40 (r % 32 ^^^ r' % 32)) ≠ 0#40 := by
    intro e0
    have := Lpow_eq_zero A e0
    have := BitVec.xor_eq_zero_iff.mp this
    refine triple_free (by omega) (by omega) ?_ l1 l2 l3 n1 n2 this
    have : K1 ≤ m1.length + (m1.length + 2) / 3 := by rw [hK1]; omega
    have : K2 ≤ m2.length + (m2.length + 2) / 3 := by rw [hK2]; omega
    omega
  have sep := Sep_of_Tw_ne t5 hne
  obtain ⟨a', b', ha, hb, sep'⟩ := Sep_inputUnchecked sep hpost
  obtain ⟨ra, rb, hra, hrb, hrne⟩ := Sep_final sep'
  have v1 : AllValid (pre ++ x :: (m1 ++ y :: (m2 ++ z :: post))) :=
    hpre.append (AllValid.cons hx (hm1.append (AllValid.cons hy (hm2.append (AllValid.cons hz hpost)))))
  have v2 : AllValid (pre ++ x' :: (m1 ++ y' :: (m2 ++ z' :: post))) :=
    hpre.append (AllValid.cons hx' (hm1.append (AllValid.cons hy' (hm2.append (AllValid.cons hz' hpost)))))
  have r1 : Engine.new.inputUnchecked (pre ++ x :: (m1 ++ y :: (m2 ++ z :: post))) = some a' := by
    rw [inputUnchecked_append, he]
    simp only [Option.bind, Engine.inputUnchecked, inputByte_eq w hp hpl]
    rw [inputUnchecked_append, ha1]
    simp only [Option.bind, Engine.inputUnchecked, inputByte_eq t2.wa hq hql]
    rw [inputUnchecked_append, ha2]
    simp only [Option.bind, Engine.inputUnchecked, inputByte_eq t4.wa hr hrl]; exact ha
  have r2 : Engine.new.inputUnchecked (pre ++ x' :: (m1 ++ y' :: (m2 ++ z' :: post))) = some b' := by
    rw [inputUnchecked_append, he]
    simp only [Option.bind, Engine.inputUnchecked, inputByte_eq w hp' hpl']
    rw [inputUnchecked_append, hb1]
    simp only [Option.bind, Engine.inputUnchecked, inputByte_eq t2.wb hq' hql']
    rw [inputUnchecked_append, hb2]
    simp only [Option.bind, Engine.inputUnchecked, inputByte_eq t4.wb hr' hrl']; exact hb
  exact ⟨_, _, checksumOf_of_run v1 r1 hra, checksumOf_of_run v2 r2 hrb,
    fun e => hrne (residueChars_inj e)⟩

end MsVerif.Checksum

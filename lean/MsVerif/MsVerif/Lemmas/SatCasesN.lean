/-
Soundness of the satisfier model for the n-ary fragments `multi`, `sortedmulti`, `multi_a`,
`sortedmulti_a` and `thresh`.
-/
import MsVerif.Lemmas.SatCases
import MsVerif.Lemmas.SatMulti

namespace MsVerif.SatSpec
open MsVerif Script

variable {env : Env} {σ : Ph → Bytes} {cfg : SatCfg}

/-! ### multi -/

theorem stk_replicate_zero (hz : σ .pushZero = []) (n : Nat) :
    stk σ (List.replicate n .pushZero) = List.replicate n [] := by
  simp [stk, hz]

theorem multi_core (h : EnvOk env cfg.ctx) (hag : Agrees env cfg.env cfg.assets σ)
    (k : Nat) (ks : List Key) (hctx : cfg.ctx ≠ .tap) (hk1 : 1 ≤ k) (hkn : k ≤ ks.length)
    (hn : ks.length ≤ 20) (ms : Ms)
    (hfrag : ∀ (sigs : List Bytes) (rest : List Bytes) (b : Bool), sigs.length = k →
      multisigLoop env sigs (ks.map cfg.env.ser).reverse = .ok b →
      (b = true ∨ sigs.all (·.isEmpty) = true) →
      Runs (frag env cfg.env cfg.ctx ms) (sigs ++ [] :: rest) (boolBytes b :: rest)) :
    Sound env cfg.env cfg.ctx σ Corr.multi ms (multiSD cfg.ctx cfg.assets k ks) where
  sat := fun w hw => by
    obtain ⟨ss, hss, hlen, hav, rfl⟩ := multiSD_sat hctx cfg.assets k ks hw.1
    rw [satRuns_B (by rfl)]
    intro rest
    refine ⟨[1], ?_, trueVal_one, fun _ => rfl⟩
    have hloop := multisigLoop_sublist (env := env) cfg.env.ser (fun x => σ (.ecdsaSig x))
      hag.keyShape ks.reverse ss.reverse hss.reverse
      (fun x hx => hag.ecdsa x (hav x (by simpa using hx)))
    have := hfrag (ss.reverse.map (fun x => σ (.ecdsaSig x))) rest true (by simp [hlen])
      (by simpa [List.map_reverse] using hloop) (.inl rfl)
    simpa [stk, hag.pushZero, List.map_reverse, boolBytes, Function.comp_def] using this
  dis := fun w hw => by
    rw [multiSD_dis] at hw
    have : w = List.replicate (k + 1) .pushZero := by
      have := hw.1; simp at this; first | exact this | exact this.symm
    subst this
    rw [disRuns_B (by rfl)]
    intro rest
    obtain ⟨m, rfl⟩ : ∃ m, k = m + 1 := ⟨k - 1, by omega⟩
    have hloop := multisigLoop_empty (env := env) m (ks.map cfg.env.ser).reverse
      (by intro key hkey; simp at hkey; obtain ⟨x, _, rfl⟩ := hkey; exact hag.keyShape x)
    have := hfrag (List.replicate (m + 1) []) rest false (by simp) hloop (.inr (by simp))
    rw [stk_replicate_zero hag.pushZero, List.replicate_succ' (n := m + 1)]
    simpa [boolBytes] using this

theorem tap_false (h : EnvOk env cfg.ctx) (hctx : cfg.ctx ≠ .tap) : env.flags.tapscript = false := by
  rw [h.tap]; simp [hctx]

theorem tap_true (h : EnvOk env cfg.ctx) (hctx : cfg.ctx = .tap) : env.flags.tapscript = true := by
  rw [h.tap]; simp [hctx]

theorem multi_case (h : EnvOk env cfg.ctx) (hag : Agrees env cfg.env cfg.assets σ)
    (k : Nat) (ks : List Key) (hwf : WF cfg.ctx (.multi k ks)) :
    Sound env cfg.env cfg.ctx σ Corr.multi (.multi k ks) (satDissat cfg (.multi k ks)) := by
  simp only [WF] at hwf
  obtain ⟨hctx, hk1, hkn, hn⟩ := hwf
  simp only [satDissat]
  exact multi_core h hag k ks hctx hk1 hkn hn _
    (fun sigs rest b hl hloop hnf =>
      frag_multi h (tap_false h hctx) k ks hn hkn sigs hl rest hloop hnf)

theorem sortedMulti_case (h : EnvOk env cfg.ctx) (hag : Agrees env cfg.env cfg.assets σ)
    (k : Nat) (ks : List Key) (hwf : WF cfg.ctx (.sortedMulti k ks)) :
    Sound env cfg.env cfg.ctx σ Corr.sortedmulti (.sortedMulti k ks)
      (satDissat cfg (.sortedMulti k ks)) := by
  simp only [WF] at hwf
  obtain ⟨hctx, hk1, hkn, hn⟩ := hwf
  simp only [satDissat, sortKeys'_eq]
  have hl := sortKeys_length (ke := cfg.env) ks
  exact multi_core h hag k (sortKeys cfg.env ks) hctx hk1 (by omega) (by omega) _
    (fun sigs rest b hl' hloop hnf =>
      frag_sortedMulti h (tap_false h hctx) k ks hn hkn sigs hl' rest hloop hnf)

/-! ### multi_a -/

/-- slots in key order ↦ (key, stack element, outcome of CHECKSIG) triples -/
theorem slots_triples (hag : Agrees env cfg.env cfg.assets σ) {ks : List Key} {rs : List (List Ph)}
    (h : All2 (SlotOk cfg.assets) ks rs) :
    ∃ ps : List (Key × Bytes × Bool), ps.map (·.1) = ks ∧ ps.map (·.2.1) = rs.flatten.map σ ∧
      (∀ p ∈ ps, checkSig env p.2.1 (cfg.env.ser p.1) = .ok p.2.2) ∧
      (ps.filter (·.2.2)).length = sigSlots rs := by
  induction h with
  | nil => exact ⟨[], rfl, rfl, by simp, rfl⟩
  | @cons pk s ks rs hr _ ih =>
    obtain ⟨ps, h1, h2, h3, h4⟩ := ih
    rcases hr with rfl | ⟨sz, hsz, rfl⟩
    · refine ⟨(pk, [], false) :: ps, by simp [h1], by simp [h2, hag.pushZero], ?_, ?_⟩
      · intro p hp
        rcases List.mem_cons.mp hp with rfl | hp
        · exact checkSig_empty (hag.keyShape pk)
        · exact h3 p hp
      · simp [sigSlots_cons_zero, h4]
    · have hs := hag.schnorr pk sz hsz
      refine ⟨(pk, σ (.schnorrSig pk sz), true) :: ps, by simp [h1], by simp [h2], ?_, ?_⟩
      · intro p hp
        rcases List.mem_cons.mp hp with rfl | hp
        · exact checkSig_ok (hag.keyShape pk) hs.1 hs.2
        · exact h3 p hp
      · simp [sigSlots_cons_sig, h4]

theorem slots_singletons {a : Assets} {ks : List Key} {rs : List (List Ph)}
    (h : All2 (SlotOk a) ks rs) : rs.map List.reverse = rs := by
  induction h with
  | nil => rfl
  | cons hr _ ih =>
    rcases hr with rfl | ⟨sz, _, rfl⟩ <;> simp [ih]

theorem sigSlots_reverse (l : List (List Ph)) : sigSlots l.reverse = sigSlots l := by
  simp [sigSlots, List.filter_reverse]

theorem multiA_core (h : EnvOk env cfg.ctx) (hag : Agrees env cfg.env cfg.assets σ)
    (k : Nat) (ks : List Key) (hctx : cfg.ctx = .tap) (hk1 : 1 ≤ k) (hkn : k ≤ ks.length)
    (hnum : ∀ j, j ≤ ks.length → NumOk j) (ms : Ms)
    (hfrag : ∀ (ps : List (Key × Bytes × Bool)) (rest : List Bytes), ps.map (·.1) = ks →
      (∀ p ∈ ps, checkSig env p.2.1 (cfg.env.ser p.1) = .ok p.2.2) →
      Runs (frag env cfg.env cfg.ctx ms) (ps.map (·.2.1) ++ rest)
        (boolBytes ((k : Int) == (((ps.filter (·.2.2)).length : Nat) : Int)) :: rest)) :
    Sound env cfg.env cfg.ctx σ Corr.multiA ms (multiASD cfg.ctx cfg.assets k ks) where
  sat := fun w hw => by
    rw [hctx] at hw
    obtain ⟨sigs', hall, hcnt, rfl⟩ := multiASD_sat cfg.assets k ks hk1 hw.1
    rw [satRuns_B (by rfl)]
    intro rest
    refine ⟨[1], ?_, trueVal_one, fun _ => rfl⟩
    have hall' := hall.reverse
    rw [List.reverse_reverse] at hall'
    obtain ⟨ps, h1, h2, h3, h4⟩ := slots_triples hag hall'
    have := hfrag ps rest h1 h3
    rw [h4, sigSlots_reverse, hcnt, h2] at this
    have hst : stk σ sigs'.flatten = sigs'.reverse.flatten.map σ := by
      have := slots_singletons hall
      simp only [stk, ← List.map_reverse, List.reverse_flatten, this]
    rw [hst]
    simpa [boolBytes] using this
  dis := fun w hw => by
    rw [multiASD_dis] at hw
    have : w = List.replicate ks.length .pushZero := by
      have := hw.1; simp at this; first | exact this | exact this.symm
    subst this
    rw [disRuns_B (by rfl)]
    intro rest
    have hps : ∀ p ∈ ks.map (fun x => (x, ([] : Bytes), false)),
        checkSig env p.2.1 (cfg.env.ser p.1) = .ok p.2.2 := by
      intro p hp
      simp only [List.mem_map] at hp
      obtain ⟨x, _, rfl⟩ := hp
      exact checkSig_empty (hag.keyShape x)
    have := hfrag (ks.map (fun x => (x, ([] : Bytes), false))) rest (by simp [Function.comp_def]) hps
    rw [stk_replicate_zero hag.pushZero]
    have hk0 : ¬ (k = 0) := by omega
    have hf : (List.filter (fun x : Key × Bytes × Bool => x.2.2)
        (ks.map (fun x => (x, ([] : Bytes), false)))).length = 0 := by
      simp [List.filter_map, Function.comp_def]
    rw [hf] at this
    simpa [Function.comp_def, boolBytes, hk0, List.map_const'] using this

theorem multiA_case (h : EnvOk env cfg.ctx) (hag : Agrees env cfg.env cfg.assets σ)
    (k : Nat) (ks : List Key) (hwf : WF cfg.ctx (.multiA k ks)) :
    Sound env cfg.env cfg.ctx σ Corr.multiA (.multiA k ks) (satDissat cfg (.multiA k ks)) := by
  simp only [WF] at hwf
  obtain ⟨hctx, hk1, hkn, hlt⟩ := hwf
  have hnum : ∀ j, j ≤ ks.length → NumOk j := fun j hj => numOk_of_lt j (by omega)
  simp only [satDissat]
  refine multiA_core h hag k ks hctx hk1 hkn hnum _ ?_
  intro ps rest h1 h3
  have hlen : ps.length = ks.length := by rw [← h1]; simp
  have hne : ps ≠ [] := by intro e; rw [e] at hlen; simp at hlen; omega
  have := frag_multiA (ke := cfg.env) h (tap_true h hctx) k ps hne h3 (by rw [hlen]; exact hnum)
    (by omega) rest
  rwa [h1] at this

theorem sortedMultiA_case (h : EnvOk env cfg.ctx) (hag : Agrees env cfg.env cfg.assets σ)
    (k : Nat) (ks : List Key) (hwf : WF cfg.ctx (.sortedMultiA k ks)) :
    Sound env cfg.env cfg.ctx σ Corr.sortedmultiA (.sortedMultiA k ks)
      (satDissat cfg (.sortedMultiA k ks)) := by
  simp only [WF] at hwf
  obtain ⟨hctx, hk1, hkn, hlt⟩ := hwf
  have hnum : ∀ j, j ≤ ks.length → NumOk j := fun j hj => numOk_of_lt j (by omega)
  simp only [satDissat, sortKeys'_eq]
  have hl := sortKeys_length (ke := cfg.env) ks
  refine multiA_core h hag k (sortKeys cfg.env ks) hctx hk1 (by omega) (by rw [hl]; exact hnum) _ ?_
  intro ps rest h1 h3
  have hlen : ps.length = ks.length := by rw [← hl, ← h1]; simp
  have hne : ps ≠ [] := by intro e; rw [e] at hlen; simp at hlen; omega
  exact frag_sortedMultiA (ke := cfg.env) h (tap_true h hctx) k ks ps h1.symm hne h3
    (by rw [hlen]; exact hnum) (by omega) rest

end MsVerif.SatSpec

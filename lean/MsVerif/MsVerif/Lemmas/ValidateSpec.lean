/-
Helper lemmas for C12: the traversals / counters of the validator model agree with the
specification's own definitions in `Spec/CtxRules.lean`.
-/
import MsVerif.Lemmas.ValidateSwitch
import MsVerif.Spec.CtxRules

namespace MsVerif
open Spec

/-! ### traversals -/

mutual
theorem everyNode_eq (q : Ms → Bool) : (ms : Ms) → everyNode q ms = ms.preorder.all q
  | .tru | .fls | .pkK _ | .pkH _ | .rawPkH _ | .after _ | .older _ | .hash _ _
  | .multi _ _ | .sortedMulti _ _ | .multiA _ _ | .sortedMultiA _ _ => by
    simp [everyNode, Ms.preorder]
  | .alt x | .swap x | .check x | .dupIf x | .verify x | .nonZero x | .zeroNotEqual x => by
    simp [everyNode, Ms.preorder, everyNode_eq q x]
  | .andV l r | .andB l r | .orB l r | .orC l r | .orD l r | .orI l r => by
    simp [everyNode, Ms.preorder, everyNode_eq q l, everyNode_eq q r, Bool.and_assoc]
  | .andOr a b c => by
    simp [everyNode, Ms.preorder, everyNode_eq q a, everyNode_eq q b, everyNode_eq q c,
      Bool.and_assoc]
  | .thresh k xs => by simp [everyNode, Ms.preorder, everyNodeL_eq q xs]
theorem everyNodeL_eq (q : Ms → Bool) : (xs : MsList) → everyNodeL q xs = xs.preorder.all q
  | .nil => by simp [everyNodeL, MsList.preorder]
  | .cons x xs => by simp [everyNodeL, MsList.preorder, everyNode_eq q x, everyNodeL_eq q xs]
end

theorem someNode_eq (q : Ms → Bool) (ms : Ms) : someNode q ms = ms.preorder.any q := by
  simp only [someNode, everyNode_eq, all_not_eq_not_any, Bool.not_not]

theorem keysAt_eq (m : Ms) : keysAt m = m.nodeKeys := by cases m <;> rfl

mutual
theorem allKeys_eq : (ms : Ms) → allKeys ms = ms.iterPk
  | .tru | .fls | .pkK _ | .pkH _ | .rawPkH _ | .after _ | .older _ | .hash _ _
  | .multi _ _ | .sortedMulti _ _ | .multiA _ _ | .sortedMultiA _ _ => by
    simp [allKeys, Ms.iterPk, Ms.preorder, keysAt, Ms.nodeKeys]
  | .alt x | .swap x | .check x | .dupIf x | .verify x | .nonZero x | .zeroNotEqual x => by
    have := allKeys_eq x
    simp only [Ms.iterPk] at this
    simp [allKeys, Ms.iterPk, Ms.preorder, Ms.nodeKeys, this]
  | .andV l r | .andB l r | .orB l r | .orC l r | .orD l r | .orI l r => by
    have h1 := allKeys_eq l
    have h2 := allKeys_eq r
    simp only [Ms.iterPk] at h1 h2
    simp [allKeys, Ms.iterPk, Ms.preorder, Ms.nodeKeys, h1, h2]
  | .andOr a b c => by
    have h1 := allKeys_eq a
    have h2 := allKeys_eq b
    have h3 := allKeys_eq c
    simp only [Ms.iterPk] at h1 h2 h3
    simp [allKeys, Ms.iterPk, Ms.preorder, Ms.nodeKeys, h1, h2, h3]
  | .thresh k xs => by
    have := allKeysL_eq xs
    simp [allKeys, Ms.iterPk, Ms.preorder, Ms.nodeKeys, this]
theorem allKeysL_eq : (xs : MsList) → allKeysL xs = xs.preorder.flatMap Ms.nodeKeys
  | .nil => by simp [allKeysL, MsList.preorder]
  | .cons x xs => by
    have h1 := allKeys_eq x
    simp only [Ms.iterPk] at h1
    simp [allKeysL, MsList.preorder, h1, allKeysL_eq xs]
end

/-! ### duplicate keys -/

theorem distinctCount_le (l : List Key) : distinctCount l ≤ l.length := by
  induction l with
  | nil => simp [distinctCount]
  | cons k ks ih => simp only [distinctCount, List.length_cons]; split <;> omega

theorem distinctCount_eq_iff (l : List Key) : distinctCount l = l.length ↔ nodupB l = true := by
  induction l with
  | nil => simp [distinctCount, nodupB]
  | cons k ks ih =>
    have hle := distinctCount_le ks
    simp only [distinctCount, List.length_cons, nodupB, Bool.and_eq_true, Bool.not_eq_true']
    cases hc : ks.contains k with
    | true => simp; omega
    | false => simp only [Bool.false_eq_true, if_false, true_and, ← ih]; omega

theorem hasRepeatedKeys_eq (ms : Ms) : hasRepeatedKeys ms = hasDefect_duplicateKeys ms := by
  unfold hasRepeatedKeys hasDefect_duplicateKeys
  rw [allKeys_eq]
  have := distinctCount_eq_iff ms.iterPk
  cases h : nodupB ms.iterPk with
  | true => simp [this.2 h]
  | false =>
    have : distinctCount ms.iterPk ≠ ms.iterPk.length := fun e => by
      have := this.1 e; simp [h] at this
    simp [this]

/-! ### multipath keys -/

/-- all later multipath lengths equal the first one -/
theorem mpRun_some_iff (x : Nat) (l : List Nat) :
    (mpRun (some x) l).isSome = (l.filter (fun n => decide (2 ≤ n))).all (· == x) := by
  induction l with
  | nil => rfl
  | cons n ns ih =>
    simp only [mpRun, List.filter_cons]
    by_cases h01 : n = 0 ∨ n = 1
    · have : decide (2 ≤ n) = false := by simp; omega
      simp [h01, this, ih]
    · have h2 : decide (2 ≤ n) = true := by simp; omega
      simp only [h01, if_false, h2, if_true, List.all_cons]
      by_cases hx : x = n
      · subst hx; simp only [if_true, beq_self_eq_true, Bool.true_and]; exact ih
      · have : (n == x) = false := by simp; omega
        simp [hx, this]

theorem mpRun_none_iff (l : List Nat) :
    (mpRun none l).isNone =
      (match l.filter (fun n => decide (2 ≤ n)) with
       | [] => false
       | n :: rest => !rest.all (· == n)) := by
  induction l with
  | nil => rfl
  | cons n ns ih =>
    simp only [mpRun, List.filter_cons]
    by_cases h01 : n = 0 ∨ n = 1
    · have : decide (2 ≤ n) = false := by simp; omega
      simp [h01, this, ih]
    · have h2 : decide (2 ≤ n) = true := by simp; omega
      simp only [h01, if_false, h2, if_true]
      rw [← mpRun_some_iff]
      cases mpRun (some n) ns <;> rfl

/-! ### depth -/

theorem foldl_max_treeHeight (l : List ExtData) (m : Nat) :
    l.foldl (fun m s => max m s.treeHeight) m = max m ((l.map (·.treeHeight)).foldr max 0) := by
  induction l generalizing m with
  | nil => simp
  | cons e es ih => simp only [List.foldl_cons, ih, List.map_cons, List.foldr_cons]; omega

mutual
theorem treeHeight_eq (env : KeyEnv) (ctx : Ctx) :
    (ms : Ms) → (extOf env ctx ms).treeHeight = depth ms
  | .tru | .fls | .pkK _ | .pkH _ | .rawPkH _ | .after _ | .older _
  | .multi _ _ | .sortedMulti _ _ | .multiA _ _ | .sortedMultiA _ _ => by
    simp [extOf, depth, ExtData.TRUE, ExtData.FALSE, ExtData.pkK, ExtData.pkH, ExtData.after,
      ExtData.older, ExtData.multi, ExtData.multiA]
  | .hash k _ => by cases k <;> simp [extOf, depth, ExtData.hash32, ExtData.hash20]
  | .alt x | .swap x | .check x | .dupIf x | .verify x | .nonZero x | .zeroNotEqual x => by
    simp [extOf, depth, ExtData.castAlt, ExtData.castSwap, ExtData.castCheck, ExtData.castDupIf,
      ExtData.castVerify, ExtData.castNonZero, ExtData.castZeroNotEqual, treeHeight_eq env ctx x]
  | .andV l r | .andB l r | .orB l r | .orC l r | .orD l r | .orI l r => by
    simp [extOf, depth, ExtData.andV, ExtData.andB, ExtData.orB, ExtData.orC, ExtData.orD,
      ExtData.orI, treeHeight_eq env ctx l, treeHeight_eq env ctx r]; omega
  | .andOr a b c => by
    simp [extOf, depth, ExtData.andOr, treeHeight_eq env ctx a, treeHeight_eq env ctx b,
      treeHeight_eq env ctx c]; omega
  | .thresh k xs => by
    simp only [extOf, depth, ExtData.threshold, foldl_max_treeHeight, treeHeightL_eq env ctx xs]
    omega
theorem treeHeightL_eq (env : KeyEnv) (ctx : Ctx) :
    (xs : MsList) → ((extsOf env ctx xs).map (·.treeHeight)).foldr max 0 = depthL xs
  | .nil => by simp [extsOf, depthL]
  | .cons x xs => by
    simp [extsOf, depthL, treeHeight_eq env ctx x, treeHeightL_eq env ctx xs]
end

end MsVerif

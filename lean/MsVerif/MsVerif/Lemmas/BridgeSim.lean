/-
Bridge theorem, part 5: the simulation relation `Sim env ops f` ("on every executing state
within the stack limit, the flat interpreter on `ops` does what `f` does on the core state and
leaves the condition stack alone") and its combinators: append, straight-line code,
`IF X ENDIF`, `IF X ELSE Y ENDIF`, `push_verify`.

Core Lean only.
-/
import MsVerif.Lemmas.BridgeSkip
import MsVerif.Lemmas.BridgeVerify

namespace MsVerif.Bridge
open MsVerif MsVerif.Script

def Sim (env : Env) (ops : List Op) (f : Core → Except Err Core) : Prop :=
  ∀ c cs, cs.all id = true → StkOk env c → run env ops ⟨c, cs⟩ = lift cs (f c)

theorem lift_eq_ok {cs cs' : List Bool} {x : Except Err Core} {c : Core}
    (h : lift cs x = .ok ⟨c, cs'⟩) : x = .ok c ∧ cs = cs' := by
  cases x with
  | error e => cases h
  | ok c1 => simp only [lift_ok, Except.ok.injEq, State.mk.injEq] at h; exact ⟨by rw [h.1], h.2⟩

theorem lift_eq_error {cs : List Bool} {x : Except Err Core} {e : Err}
    (h : lift cs x = .error e) : x = .error e := by
  cases x with
  | error e' => simp only [lift_error, Except.error.injEq] at h; rw [h]
  | ok c1 => cases h

/-- the invariant travels along any successful run -/
theorem stk_of_run {env : Env} {ops : List Op} {c c' : Core} {cs cs' : List Bool}
    {x : Except Err Core} (hr : run env ops ⟨c, cs⟩ = lift cs' x) (hx : x = .ok c')
    (h : StkOk env c) : StkOk env c' := by
  subst hx
  exact run_stkOk env ops ⟨c, cs⟩ ⟨c', cs'⟩ h hr

theorem Sim.congr {env : Env} {ops : List Op} {f g : Core → Except Err Core}
    (h : Sim env ops f) (hfg : ∀ c, f c = g c) : Sim env ops g := by
  intro c cs hcs hstk; rw [← hfg]; exact h c cs hcs hstk

theorem Sim.stk {env : Env} {ops : List Op} {f : Core → Except Err Core} (h : Sim env ops f)
    {c c' : Core} (hstk : StkOk env c) (hf : f c = .ok c') : StkOk env c' :=
  stk_of_run (h c [] rfl hstk) hf hstk

theorem Sim.nil (env : Env) : Sim env [] (fun c => .ok c) := by
  intro c cs _ _; rfl

theorem Sim.straight (env : Env) (ops : List Op) (h : straight ops = true) :
    Sim env ops (seqOps env ops) := by
  intro c cs hcs _; exact run_straight env ops h c cs hcs

theorem Sim.code1 (env : Env) (o : Opc) (h : Opc.plain o = true) : Sim env [.code o] (opc env o) := by
  intro c cs hcs _; exact run_opc env o h c cs hcs

theorem Sim.append {env : Env} {xs ys : List Op} {f g : Core → Except Err Core}
    (hx : Sim env xs f) (hy : Sim env ys g) : Sim env (xs ++ ys) (fun c => f c >>= g) := by
  intro c cs hcs hstk
  rw [run_append, hx c cs hcs hstk]
  show _ = lift cs (f c >>= g)
  cases hf : f c with
  | error e => rfl
  | ok c1 => exact hy c1 cs hcs (hx.stk hstk hf)

theorem Sim.cons_opc {env : Env} {ys : List Op} {g : Core → Except Err Core} (o : Opc)
    (h : Opc.plain o = true) (hy : Sim env ys g) :
    Sim env (.code o :: ys) (fun c => opc env o c >>= g) :=
  Sim.append (Sim.code1 env o h) hy

theorem Sim.snoc_opc {env : Env} {xs : List Op} {f : Core → Except Err Core} (o : Opc)
    (h : Opc.plain o = true) (hx : Sim env xs f) :
    Sim env (xs ++ [.code o]) (fun c => f c >>= opc env o) :=
  Sim.append hx (Sim.code1 env o h)

/-! ### conditionals -/

theorem condPop_ops (env : Env) (nf v : Bool) (c c' : Core) (hp : condPop env nf c = .ok (v, c')) :
    c'.ops = c.ops := by
  unfold condPop at hp
  split at hp
  · split at hp
    · cases hp
    · cases hp; rfl
  · cases hp

theorem cnd_ok (env : Env) (nf v : Bool) (c c1 : Core) (hstk : StkOk env c)
    (h : cnd env nf c = .ok (v, c1)) : StkOk env c1 ∧ CntOk env c1 := by
  unfold cnd at h
  cases hc : countOp env c 1 with
  | error e => rw [hc] at h; cases h
  | ok c0 =>
    rw [hc] at h
    refine ⟨condPop_stkOk env nf v c0 c1 (good_countOp env c 1 hstk c0 hc) h, ?_⟩
    intro hl
    rw [condPop_ops env nf v c0 c1 h]
    exact countOp_cntOk env c c0 1 hc hl

theorem step_cond (env : Env) (nf : Bool) (c : Core) (cs : List Bool) (hcs : cs.all id = true) :
    step env ⟨c, cs⟩ (.code (condOpc nf)) =
      (match cnd env nf c with
       | .error e => .error e
       | .ok (v, c1) => .ok ⟨c1, v :: cs⟩) := by
  cases nf
  · exact step_if env c cs hcs
  · exact step_notif env c cs hcs

/-- `frag`'s reading of `IF X ENDIF` (`nf = false`) / `NOTIF X ENDIF` (`nf = true`) -/
def ifThenF (env : Env) (nf : Bool) (X : List Op) (f : Core → Except Err Core) (c : Core) :
    Except Err Core :=
  cnd env nf c >>= fun p =>
  (if p.1 = true then f p.2 else skipCount env X p.2) >>= fun c =>
  countOp env c 1

/-- `frag`'s reading of `IF X ELSE Y ENDIF` / `NOTIF X ELSE Y ENDIF` -/
def ifElseF (env : Env) (nf : Bool) (X Y : List Op) (f g : Core → Except Err Core) (c : Core) :
    Except Err Core :=
  cnd env nf c >>= fun p =>
  (if p.1 = true then f p.2 else skipCount env X p.2) >>= fun c =>
  countOp env c 1 >>= fun c =>
  (if p.1 = true then skipCount env Y c else g c) >>= fun c =>
  countOp env c 1

/-- the body of a conditional, in either mode -/
theorem run_branch {env : Env} {X : List Op} {f : Core → Except Err Core} (hX : Sim env X f)
    (hb : balanced X = true) (hk : SkipHyp env X) (v : Bool) (c : Core) (cs : List Bool)
    (hcs : cs.all id = true) (hstk : StkOk env c) (hcnt : CntOk env c) :
    run env X ⟨c, v :: cs⟩ = lift (v :: cs) (if v = true then f c else skipCount env X c) := by
  cases v with
  | true => exact hX c (true :: cs) (by simp [hcs]) hstk
  | false =>
    rw [run_skip env X hb c cs, skipRun_eq_skipCount env X c hk hcnt]
    rfl

theorem Sim.ifThen {env : Env} (nf : Bool) {X : List Op} {f : Core → Except Err Core}
    (hX : Sim env X f) (hb : balanced X = true) (hk : SkipHyp env X) :
    Sim env (.code (condOpc nf) :: (X ++ [.code .endif])) (ifThenF env nf X f) := by
  intro c cs hcs hstk
  rw [run_cons, step_cond env nf c cs hcs]
  unfold ifThenF
  cases hc : cnd env nf c with
  | error e => rfl
  | ok p =>
    obtain ⟨v, c1⟩ := p
    obtain ⟨hs1, hk1⟩ := cnd_ok env nf v c c1 hstk hc
    simp only [bind_ok]
    rw [run_append, run_branch hX hb hk v c1 cs hcs hs1 hk1]
    cases hf : (if v = true then f c1 else skipCount env X c1) with
    | error e => rfl
    | ok c2 =>
      simp only [lift_ok, bind_ok]
      rw [run_single, step_endif]

theorem Sim.ifElse {env : Env} (nf : Bool) {X Y : List Op} {f g : Core → Except Err Core}
    (hX : Sim env X f) (hY : Sim env Y g) (hbX : balanced X = true) (hbY : balanced Y = true)
    (hkX : SkipHyp env X) (hkY : SkipHyp env Y) :
    Sim env (.code (condOpc nf) :: (X ++ .code .else_ :: (Y ++ [.code .endif])))
      (ifElseF env nf X Y f g) := by
  intro c cs hcs hstk
  rw [run_cons, step_cond env nf c cs hcs]
  unfold ifElseF
  cases hc : cnd env nf c with
  | error e => rfl
  | ok p =>
    obtain ⟨v, c1⟩ := p
    obtain ⟨hs1, hk1⟩ := cnd_ok env nf v c c1 hstk hc
    simp only [bind_ok]
    have hrX := run_branch hX hbX hkX v c1 cs hcs hs1 hk1
    rw [run_append, hrX]
    cases hf : (if v = true then f c1 else skipCount env X c1) with
    | error e => rfl
    | ok c2 =>
      have hs2 : StkOk env c2 := stk_of_run hrX hf hs1
      simp only [lift_ok, bind_ok]
      rw [run_cons, step_else]
      cases h3 : countOp env c2 1 with
      | error e => rfl
      | ok c3 =>
        have hs3 : StkOk env c3 := good_countOp env c2 1 hs2 c3 h3
        have hk3 : CntOk env c3 := countOp_cntOk env c2 c3 1 h3
        simp only [lift_ok, bind_ok]
        have hrY := run_branch hY hbY hkY (!v) c3 cs hcs hs3 hk3
        rw [run_append, hrY]
        have hsw : (if (!v) = true then g c3 else skipCount env Y c3)
            = (if v = true then skipCount env Y c3 else g c3) := by cases v <;> rfl
        rw [hsw]
        cases hg : (if v = true then skipCount env Y c3 else g c3) with
        | error e => rfl
        | ok c4 =>
          simp only [lift_ok, bind_ok]
          rw [run_single, step_endif]

/-! ### `push_verify` -/

theorem step_code_plain_dead (env : Env) (o : Opc) (h : Opc.plain o = true) (c : Core) (cs : List Bool)
    (hcs : cs.all id = false) :
    step env ⟨c, cs⟩ (.code o) = lift cs (countOp env c 1) := by
  unfold step
  cases hc : countOp env c 1 with
  | error e => rfl
  | ok c1 =>
    cases o <;> first | (simp [Opc.plain] at h; done) | simp [State.executing, hcs, lift]

/-- what `frag` does after the child of `v:` -/
def verifyF (env : Env) (E : List Op) (c : Core) : Except Err Core :=
  if endsFusable E then vfy c else opc env .verify c

theorem Sim.pushVerify {env : Env} {E : List Op} {f : Core → Except Err Core} (hE : Sim env E f) :
    Sim env (pushVerify E) (fun c => f c >>= verifyF env E) := by
  rcases pushVerify_cases E with ⟨pre, o, ov, hf, hEq, hpv, hfus⟩ | ⟨hpv, hfus⟩
  · -- fused
    intro c cs hcs hstk
    have hrun := hE c cs hcs hstk
    rw [hpv, run_append]
    rw [hEq, run_append] at hrun
    have hv : verifyF env E = vfy := by funext c; simp [verifyF, hfus]
    rw [hv]
    show _ = lift cs (f c >>= vfy)
    cases hp : run env pre ⟨c, cs⟩ with
    | error e =>
      rw [hp] at hrun
      rw [lift_eq_error hrun.symm]; rfl
    | ok s1 =>
      obtain ⟨c1, cs1⟩ := s1
      have hs1 : StkOk env c1 := run_stkOk env pre ⟨c, cs⟩ ⟨c1, cs1⟩ hstk hp
      rw [hp] at hrun
      simp only [bind_ok, run_single] at hrun ⊢
      cases hex : cs1.all id with
      | true =>
        rw [step_code_plain env o hf.plain.1 c1 cs1 hex] at hrun
        rw [step_code_plain env ov hf.plain.2 c1 cs1 hex, fuse_opc env o ov hf c1 hs1]
        cases ho : opc env o c1 with
        | error e =>
          rw [ho] at hrun
          rw [lift_eq_error hrun.symm]; rfl
        | ok c2 =>
          rw [ho] at hrun
          obtain ⟨hfc, hcs'⟩ := lift_eq_ok hrun.symm
          rw [hfc, hcs']
      | false =>
        rw [step_code_plain_dead env o hf.plain.1 c1 cs1 hex] at hrun
        rw [step_code_plain_dead env ov hf.plain.2 c1 cs1 hex]
        cases ho : countOp env c1 1 with
        | error e =>
          rw [ho] at hrun
          rw [lift_eq_error hrun.symm]; rfl
        | ok c2 =>
          rw [ho] at hrun
          obtain ⟨_, hcs'⟩ := lift_eq_ok hrun.symm
          rw [hcs'] at hcs
          rw [hcs] at hex
          cases hex
  · -- OP_VERIFY appended
    rw [hpv]
    have hv : verifyF env E = opc env .verify := by funext c; simp [verifyF, hfus]
    rw [hv]
    exact Sim.snoc_opc .verify rfl hE

end MsVerif.Bridge

/-
`minimum_n_keys` = fewest signatures over all selections.

Route: costs of `chooseK` have minimum `minK` (skip-or-take recursion on the children's minima);
`minK` is the minimum of `sum` over the length-`k` sublists of the defined children's minima;
for a sorted list that minimum is the sum of the first `k`.
-/
import MsVerif.Lemmas.PolicyBasic

set_option linter.unusedSimpArgs false
namespace MsVerif.Pol
open Sem

/-! ## minima of lists of naturals -/

/-- `r` is the minimum of `l` (`none` for the empty list) -/
def MinOf (l : List Nat) : Option Nat → Prop
  | none => l = []
  | some m => m ∈ l ∧ ∀ x ∈ l, m ≤ x

theorem minOf_iff (l : List Nat) (r : Option Nat) : MinOf l r ↔ l.min? = r := by
  cases r with
  | none => simp [MinOf]
  | some m => simp [MinOf, List.min?_eq_some_iff]

def optMin : Option Nat → Option Nat → Option Nat
  | none, x => x
  | x, none => x
  | some a, some b => some (min a b)

def optAdd : Option Nat → Option Nat → Option Nat
  | some a, some b => some (a + b)
  | _, _ => none

theorem minOf_append {l1 l2 : List Nat} {r1 r2 : Option Nat} (h1 : MinOf l1 r1) (h2 : MinOf l2 r2) :
    MinOf (l1 ++ l2) (optMin r1 r2) := by
  cases r1 with
  | none =>
    simp only [MinOf] at h1; subst h1
    cases r2 <;> simpa [optMin] using h2
  | some a =>
    cases r2 with
    | none =>
      simp only [MinOf] at h2; subst h2
      simpa [optMin] using h1
    | some b =>
      obtain ⟨ha, ha'⟩ := h1
      obtain ⟨hb, hb'⟩ := h2
      simp only [optMin, MinOf, List.mem_append]
      constructor
      · rcases Nat.le_total a b with h | h
        · left; rw [Nat.min_eq_left h]; exact ha
        · right; rw [Nat.min_eq_right h]; exact hb
      · intro x hx
        rcases hx with hx | hx
        · exact Nat.le_trans (Nat.min_le_left a b) (ha' x hx)
        · exact Nat.le_trans (Nat.min_le_right a b) (hb' x hx)

theorem nSigs_append (a b : List Atom) : nSigs (a ++ b) = nSigs a + nSigs b := by
  simp [nSigs, List.countP_append]

/-- minimum over all concatenations = sum of the minima -/
theorem minOf_product {A B : List (List Atom)} {r1 r2 : Option Nat}
    (h1 : MinOf (A.map nSigs) r1) (h2 : MinOf (B.map nSigs) r2) :
    MinOf ((A.flatMap (fun a => B.map (a ++ ·))).map nSigs) (optAdd r1 r2) := by
  cases r1 with
  | none =>
    have : A = [] := by simpa [MinOf] using h1
    subst this; simp [optAdd, MinOf]
  | some a =>
    cases r2 with
    | none =>
      have : B = [] := by simpa [MinOf] using h2
      subst this; simp [optAdd, MinOf]
    | some b =>
      obtain ⟨ha, ha'⟩ := h1
      obtain ⟨hb, hb'⟩ := h2
      obtain ⟨sa, hsa, rfl⟩ := List.mem_map.mp ha
      obtain ⟨sb, hsb, rfl⟩ := List.mem_map.mp hb
      simp only [optAdd, MinOf]
      constructor
      · apply List.mem_map.mpr
        refine ⟨sa ++ sb, ?_, nSigs_append _ _⟩
        exact List.mem_flatMap.mpr ⟨sa, hsa, List.mem_map.mpr ⟨sb, hsb, rfl⟩⟩
      · intro x hx
        obtain ⟨s, hs, rfl⟩ := List.mem_map.mp hx
        obtain ⟨s1, hs1, hs'⟩ := List.mem_flatMap.mp hs
        obtain ⟨s2, hs2, rfl⟩ := List.mem_map.mp hs'
        rw [nSigs_append]
        have := ha' _ (List.mem_map.mpr ⟨s1, hs1, rfl⟩)
        have := hb' _ (List.mem_map.mpr ⟨s2, hs2, rfl⟩)
        omega

/-! ## the skip-or-take recursion -/

/-- minimum total of exactly `k` members, each member available at its (optional) price -/
def minK : List (Option Nat) → Nat → Option Nat
  | _, 0 => some 0
  | [], _ + 1 => none
  | c :: cs, k + 1 => optMin (minK cs (k + 1)) (optAdd c (minK cs k))

theorem chooseK_zero (alts : List (List (List Atom))) : chooseK alts 0 = [[]] := by
  cases alts <;> rfl

theorem minK_zero (cs : List (Option Nat)) : minK cs 0 = some 0 := by
  cases cs <;> rfl

theorem minOf_chooseK (alts : List (List (List Atom))) :
    ∀ k, MinOf ((chooseK alts k).map nSigs) (minK (alts.map (fun al => (al.map nSigs).min?)) k) := by
  induction alts with
  | nil =>
    intro k
    cases k with
    | zero => simp [chooseK, minK, MinOf, nSigs]
    | succ k => simp [chooseK, minK, MinOf]
  | cons al rest ih =>
    intro k
    cases k with
    | zero => simp [chooseK_zero, minK_zero, MinOf, nSigs]
    | succ k =>
      simp only [chooseK, List.map_cons, minK, List.map_append]
      apply minOf_append (ih (k + 1))
      exact minOf_product ((minOf_iff _ _).mpr rfl) (ih k)

/-! ## sublists of fixed length -/

def minK' : List Nat → Nat → Option Nat
  | _, 0 => some 0
  | [], _ + 1 => none
  | c :: cs, k + 1 => optMin (minK' cs (k + 1)) (optAdd (some c) (minK' cs k))

theorem minK'_zero (cs : List Nat) : minK' cs 0 = some 0 := by
  cases cs <;> rfl

theorem minK_filterMap (cs : List (Option Nat)) : ∀ k, minK cs k = minK' (cs.filterMap id) k := by
  induction cs with
  | nil => intro k; cases k <;> rfl
  | cons c cs ih =>
    intro k
    cases k with
    | zero => simp [minK_zero, minK'_zero]
    | succ k =>
      cases c with
      | none =>
        simp only [minK, List.filterMap_cons, id, ih]
        cases minK' (cs.filterMap id) (k + 1) <;> simp [optAdd, optMin]
      | some c => simp only [minK, List.filterMap_cons, id, ih, minK']

/-- `r` is the least `sum` over the sublists of length `k` (`none`: there is none) -/
def SubMin (xs : List Nat) (k : Nat) : Option Nat → Prop
  | none => xs.length < k
  | some m => (∃ s : List Nat, s.Sublist xs ∧ s.length = k ∧ s.sum = m)
      ∧ ∀ s : List Nat, s.Sublist xs → s.length = k → m ≤ s.sum

theorem subMin_unique {xs : List Nat} {k : Nat} {r r' : Option Nat}
    (h : SubMin xs k r) (h' : SubMin xs k r') : r = r' := by
  cases r with
  | none =>
    cases r' with
    | none => rfl
    | some m' =>
      obtain ⟨⟨s, hs, hl, _⟩, _⟩ := h'
      have := hs.length_le
      simp only [SubMin] at h; omega
  | some m =>
    cases r' with
    | none =>
      obtain ⟨⟨s, hs, hl, _⟩, _⟩ := h
      have := hs.length_le
      simp only [SubMin] at h'; omega
    | some m' =>
      obtain ⟨⟨s, hs, hl, hsum⟩, hmin⟩ := h
      obtain ⟨⟨s', hs', hl', hsum'⟩, hmin'⟩ := h'
      have h1 := hmin s' hs' hl'
      have h2 := hmin' s hs hl
      congr 1; omega

theorem subMin_minK' (xs : List Nat) : ∀ k, SubMin xs k (minK' xs k) := by
  induction xs with
  | nil =>
    intro k
    cases k with
    | zero =>
      refine ⟨⟨[], List.Sublist.refl _, rfl, rfl⟩, ?_⟩
      intro s _ hl
      simp
    | succ k => simp [minK', SubMin]
  | cons x xs ih =>
    intro k
    cases k with
    | zero =>
      rw [minK'_zero]
      refine ⟨⟨[], List.nil_sublist _, rfl, rfl⟩, ?_⟩
      intro s _ hl
      simp
    | succ k =>
      simp only [minK']
      have ih1 := ih (k + 1)
      have ih2 := ih k
      -- every sublist of `x :: xs` of length k+1 skips or takes `x`
      have hsplit : ∀ s : List Nat, s.Sublist (x :: xs) → s.length = k + 1 →
          (s.Sublist xs) ∨ ∃ s', s = x :: s' ∧ s'.Sublist xs ∧ s'.length = k := by
        intro s hs hl
        cases hs with
        | cons _ h => exact Or.inl h
        | cons_cons _ h =>
          rename_i s'
          exact Or.inr ⟨s', rfl, h, by simpa using hl⟩
      cases h2 : minK' xs k with
      | none =>
        rw [h2] at ih2
        simp only [SubMin] at ih2
        cases h1 : minK' xs (k + 1) with
        | none =>
          simp only [optAdd, optMin, SubMin, List.length_cons]; omega
        | some m1 =>
          rw [h1] at ih1
          obtain ⟨⟨s, hs, hl, _⟩, _⟩ := ih1
          have := hs.length_le
          omega
      | some m2 =>
        rw [h2] at ih2
        obtain ⟨⟨s2, hs2, hl2, hsum2⟩, hmin2⟩ := ih2
        cases h1 : minK' xs (k + 1) with
        | none =>
          rw [h1] at ih1
          simp only [SubMin] at ih1
          simp only [optAdd, optMin, SubMin]
          refine ⟨⟨x :: s2, hs2.cons_cons x, by simp [hl2], by simp [hsum2]⟩, ?_⟩
          intro s hs hl
          rcases hsplit s hs hl with h | ⟨s', rfl, hs', hl'⟩
          · have := h.length_le; omega
          · have := hmin2 s' hs' hl'
            simp; omega
        | some m1 =>
          rw [h1] at ih1
          obtain ⟨⟨s1, hs1, hl1, hsum1⟩, hmin1⟩ := ih1
          simp only [optAdd, optMin, SubMin]
          constructor
          · rcases Nat.le_total m1 (x + m2) with h | h
            · rw [Nat.min_eq_left h]
              exact ⟨s1, hs1.cons x, hl1, hsum1⟩
            · rw [Nat.min_eq_right h]
              exact ⟨x :: s2, hs2.cons_cons x, by simp [hl2], by simp [hsum2]⟩
          · intro s hs hl
            rcases hsplit s hs hl with h | ⟨s', rfl, hs', hl'⟩
            · exact Nat.le_trans (Nat.min_le_left _ _) (hmin1 s h hl)
            · have := hmin2 s' hs' hl'
              have := Nat.min_le_right m1 (x + m2)
              simp; omega

/-- in an ascending list the first `k` members are the cheapest `k` -/
theorem sorted_take_sum_le : ∀ (l : List Nat), l.Pairwise (· ≤ ·) →
    ∀ s : List Nat, s.Sublist l → (l.take s.length).sum ≤ s.sum := by
  intro l
  induction l with
  | nil => intro _ s hs; simp
  | cons a l ih =>
    intro hp s hs
    obtain ⟨ha, hp'⟩ := List.pairwise_cons.mp hp
    cases s with
    | nil => simp
    | cons b s' =>
      have hb : a ≤ b ∧ s'.Sublist l := by
        cases hs with
        | cons _ h =>
          exact ⟨ha b (h.subset (by simp)), (List.sublist_cons_self b s').trans h⟩
        | cons_cons _ h => exact ⟨Nat.le_refl _, h⟩
      have := ih hp' s' hb.2
      simp only [List.length_cons, List.take_succ_cons, List.sum_cons]
      omega

theorem subMin_sorted (xs : List Nat) (k : Nat) :
    SubMin xs k (if xs.length < k then none
      else some ((xs.mergeSort (fun a b => decide (a ≤ b))).take k).sum) := by
  split
  · assumption
  · rename_i hk
    have hperm := List.mergeSort_perm xs (fun a b => decide (a ≤ b))
    have hsorted : (xs.mergeSort (fun a b => decide (a ≤ b))).Pairwise (· ≤ ·) := by
      have := List.pairwise_mergeSort (le := fun (a b : Nat) => decide (a ≤ b))
        (by intro a b c; simp; omega) (by intro a b; simp; omega) xs
      simpa using this
    generalize xs.mergeSort (fun a b => decide (a ≤ b)) = l at hperm hsorted
    have hlen : l.length = xs.length := hperm.length_eq
    constructor
    · obtain ⟨s', hs'p, hs's⟩ := List.exists_perm_sublist (List.take_sublist k l) hperm
      refine ⟨s', hs's, ?_, hs'p.sum_nat⟩
      rw [hs'p.length_eq, List.length_take]; omega
    · intro s hs hl
      obtain ⟨s', hs'p, hs's⟩ := List.exists_perm_sublist hs hperm.symm
      have := sorted_take_sum_le l hsorted s' hs's
      rw [hs'p.length_eq, hl] at this
      rw [← hs'p.sum_nat]; exact this

theorem minKeysThresh_eq_minK (k : Nat) (cs : List (Option Nat)) :
    minKeysThresh k cs = minK cs k := by
  rw [minK_filterMap]
  exact subMin_unique (subMin_sorted _ _) (subMin_minK' _ _)

/-! ## the theorem -/

theorem minimumNKeys_eq_min : ∀ p, minimumNKeys p = ((sels p).map nSigs).min? := by
  intro p
  induction p using Policy.induct' with
  | unsat => simp [minimumNKeys, sels]
  | trivial => simp [minimumNKeys, sels, nSigs]
  | atom a => cases a <;> simp [minimumNKeys, sels, nSigs, Atom.isKey]
  | thresh k subs ih =>
    rw [minimumNKeys, minimumNKeysList_eq, minKeysThresh_eq_minK, sels, selsList_eq]
    have := minOf_chooseK (subs.map sels) k
    rw [List.map_map] at this
    rw [(minOf_iff _ _).mp this]
    congr 1
    apply List.map_congr_left
    intro p hp
    exact ih p hp

end MsVerif.Pol

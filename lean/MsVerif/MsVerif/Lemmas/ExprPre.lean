/-
Lemmas about pass 1 of the expression parser (`parse_pre_check`): what a successful step
establishes, and the monotone quantities that bound the builder pass.
-/
import MsVerif.Model.Expr

namespace MsVerif.Expr

def isOpen (ch : Char) : Prop := ch = '(' ∨ ch = '{'
def isClose (ch : Char) : Prop := ch = ')' ∨ ch = '}'
instance (ch : Char) : Decidable (isOpen ch) := by unfold isOpen; exact inferInstance
instance (ch : Char) : Decidable (isClose ch) := by unfold isClose; exact inferInstance

/-- the characters allowed after a close-paren that is not the last one -/
def isSep (ch : Char) : Prop := ch = ',' ∨ ch = ')' ∨ ch = '}'

theorem isSep_not_open {ch : Char} (h : isSep ch) : ¬ isOpen ch := by
  unfold isSep at h; unfold isOpen
  rcases h with h | h | h <;> rw [h] <;> decide

theorem open_not_close {ch : Char} (h : isOpen ch) : ¬ isClose ch := by
  unfold isOpen at h; unfold isClose
  rcases h with h | h <;> rw [h] <;> decide

theorem preStep_open {len : Nat} {st st' : PreSt} {pos : Nat} {ch : Char} {tail : List Char}
    (hc : isOpen ch) (h : preStep len st pos ch tail = .ok st') :
    st' = { st with stack := (ch, pos) :: st.stack
                    maxDepth := if st.maxDepth < st.stack.length + 1 then st.stack.length + 1
                                else st.maxDepth } := by
  unfold preStep at h
  unfold isOpen at hc
  simp only [hc, if_true, pure, Except.pure, List.length_cons] at h
  cases h; rfl

theorem preStep_close {len : Nat} {st st' : PreSt} {pos : Nat} {ch : Char} {tail : List Char}
    (hc : isClose ch) (h : preStep len st pos ch tail = .ok st') :
    ∃ o rest, st.stack = o :: rest ∧ st' = { st with stack := rest, nNodes := st.nNodes + 1 } ∧
      (rest ≠ [] → ∃ nb, tail.head? = some nb ∧ isSep nb) ∧
      (rest = [] → ¬ pos < len - 1) := by
  unfold preStep at h
  have hno : ¬ (ch = '(' ∨ ch = '{') := fun ho => open_not_close ho hc
  unfold isClose at hc
  simp only [hno, if_false, hc, if_true] at h
  cases hs : st.stack with
  | nil => rw [hs] at h; simp [throw, throwThe, MonadExceptOf.throw] at h
  | cons o rest =>
    rw [hs] at h
    obtain ⟨oc, op⟩ := o
    simp only at h
    split at h
    · simp [throw, throwThe, MonadExceptOf.throw] at h
    · cases hac : afterClose len pos tail rest with
      | error e => rw [hac] at h; simp [throw, throwThe, MonadExceptOf.throw] at h
      | ok u =>
        rw [hac] at h
        simp only [pure, Except.pure] at h
        cases h
        refine ⟨(oc, op), rest, rfl, rfl, ?_, ?_⟩
        · intro hne
          unfold afterClose at hac
          cases rest with
          | nil => exact absurd rfl hne
          | cons r rs =>
            obtain ⟨rc, rp⟩ := r
            simp only at hac
            split at hac
            · simp [throw, throwThe, MonadExceptOf.throw] at hac
            · cases hh : tail.head? with
              | none => rw [hh] at hac; simp [throw, throwThe, MonadExceptOf.throw] at hac
              | some nb =>
                rw [hh] at hac
                simp only at hac
                split at hac
                · simp [throw, throwThe, MonadExceptOf.throw] at hac
                · rename_i hnb
                  refine ⟨nb, rfl, ?_⟩
                  unfold isSep
                  by_cases h1 : nb = ','
                  · exact Or.inl h1
                  · by_cases h2 : nb = ')'
                    · exact Or.inr (Or.inl h2)
                    · by_cases h3 : nb = '}'
                      · exact Or.inr (Or.inr h3)
                      · exact absurd ⟨h2, h3, h1⟩ hnb
        · intro he
          subst he
          unfold afterClose at hac
          simp only at hac
          split at hac
          · cases hh : tail.head? with
            | none => rw [hh] at hac; simp [throw, throwThe, MonadExceptOf.throw] at hac
            | some nb => rw [hh] at hac; simp [throw, throwThe, MonadExceptOf.throw] at hac
          · assumption

theorem preStep_comma {len : Nat} {st st' : PreSt} {pos : Nat} {tail : List Char}
    (h : preStep len st pos ',' tail = .ok st') :
    st.stack ≠ [] ∧ st' = { st with nNodes := st.nNodes + 1 } := by
  unfold preStep at h
  have h1 : ¬ (',' = '(' ∨ ',' = '{') := by decide
  have h2 : ¬ (',' = ')' ∨ ',' = '}') := by decide
  simp only [h1, h2, if_false, if_true] at h
  split at h
  · simp [throw, throwThe, MonadExceptOf.throw] at h
  · rename_i hne
    simp only [pure, Except.pure] at h
    cases h
    refine ⟨?_, rfl⟩
    intro e; rw [e] at hne; exact hne rfl

theorem preStep_other {len : Nat} {st st' : PreSt} {pos : Nat} {ch : Char} {tail : List Char}
    (h1 : ¬ isOpen ch) (h2 : ¬ isClose ch) (h3 : ch ≠ ',')
    (h : preStep len st pos ch tail = .ok st') : st' = st := by
  unfold preStep at h
  unfold isOpen at h1; unfold isClose at h2
  simp only [h1, h2, h3, if_false, pure, Except.pure] at h
  cases h; rfl

/-- potential that never decreases: nodes counted so far + parens still open -/
def PreSt.phi (st : PreSt) : Nat := st.nNodes + st.stack.length

theorem preStep_mono {len : Nat} {st st' : PreSt} {pos : Nat} {ch : Char} {tail : List Char}
    (h : preStep len st pos ch tail = .ok st') (hd : st.stack.length ≤ st.maxDepth) :
    st.phi ≤ st'.phi ∧ st.maxDepth ≤ st'.maxDepth ∧ st'.stack.length ≤ st'.maxDepth := by
  by_cases ho : isOpen ch
  · rw [preStep_open ho h]
    simp only [PreSt.phi, List.length_cons]
    split <;> omega
  · by_cases hc : isClose ch
    · obtain ⟨o, rest, hs, he, _, _⟩ := preStep_close hc h
      rw [he]; simp only [PreSt.phi]; rw [hs] at hd ⊢
      simp only [List.length_cons] at hd ⊢; omega
    · by_cases hcm : ch = ','
      · subst hcm
        obtain ⟨_, he⟩ := preStep_comma h
        rw [he]; simp only [PreSt.phi]; omega
      · rw [preStep_other ho hc hcm h]; exact ⟨Nat.le_refl _, Nat.le_refl _, hd⟩

theorem preLoop_mono {len : Nat} {rest : List Char} {pos : Nat} {st stF : PreSt}
    (h : preLoop len pos rest st = .ok stF) (hd : st.stack.length ≤ st.maxDepth) :
    st.phi ≤ stF.phi ∧ st.maxDepth ≤ stF.maxDepth ∧ stF.stack.length ≤ stF.maxDepth := by
  induction rest generalizing pos st with
  | nil => simp only [preLoop, pure, Except.pure] at h; cases h; exact ⟨Nat.le_refl _, Nat.le_refl _, hd⟩
  | cons ch tail ih =>
    unfold preLoop at h
    cases hs : preStep len st pos ch tail with
    | error e => rw [hs] at h; simp [throw, throwThe, MonadExceptOf.throw] at h
    | ok st' =>
      rw [hs] at h
      obtain ⟨a, b, c⟩ := preStep_mono hs hd
      obtain ⟨a', b', c'⟩ := ih h c
      exact ⟨Nat.le_trans a a', Nat.le_trans b b', c'⟩

/-! ## linear bounds (allocation sizes) -/

theorem preStep_linear {len : Nat} {st st' : PreSt} {pos : Nat} {ch : Char} {tail : List Char}
    (h : preStep len st pos ch tail = .ok st') (h1 : st.nNodes ≤ 1 + pos) (h2 : st.maxDepth ≤ pos)
    (h3 : st.stack.length ≤ pos) :
    st'.nNodes ≤ 1 + (pos + 1) ∧ st'.maxDepth ≤ pos + 1 ∧ st'.stack.length ≤ pos + 1 := by
  by_cases ho : isOpen ch
  · rw [preStep_open ho h]
    simp only [List.length_cons]
    split <;> omega
  · by_cases hc : isClose ch
    · obtain ⟨o, rest, hs, he, _, _⟩ := preStep_close hc h
      rw [he]; rw [hs] at h3
      simp only [List.length_cons] at h3 ⊢; omega
    · by_cases hcm : ch = ','
      · subst hcm
        obtain ⟨_, he⟩ := preStep_comma h
        rw [he]; simp only; omega
      · rw [preStep_other ho hc hcm h]; omega

theorem preLoop_linear {len : Nat} {rest : List Char} {pos : Nat} {st stF : PreSt}
    (h : preLoop len pos rest st = .ok stF) (h1 : st.nNodes ≤ 1 + pos) (h2 : st.maxDepth ≤ pos)
    (h3 : st.stack.length ≤ pos) :
    stF.nNodes ≤ 1 + (pos + rest.length) ∧ stF.maxDepth ≤ pos + rest.length := by
  induction rest generalizing pos st with
  | nil =>
    simp only [preLoop, pure, Except.pure] at h; cases h
    simp only [List.length_nil, Nat.add_zero]; exact ⟨h1, h2⟩
  | cons ch tail ih =>
    unfold preLoop at h
    cases hs : preStep len st pos ch tail with
    | error e => rw [hs] at h; simp [throw, throwThe, MonadExceptOf.throw] at h
    | ok st' =>
      rw [hs] at h
      obtain ⟨a, b, c⟩ := preStep_linear hs h1 h2 h3
      have := ih h a b c
      simp only [List.length_cons]
      omega

/-- the error of an outcome, for stating concrete examples decidably -/
def err? {ε α : Type} : Except ε α → Option ε
  | .error e => some e
  | .ok _ => none

/-! ## pass 1 cannot panic -/

theorem afterClose_ne_panic {len pos : Nat} {tail : List Char} (rest : List (Char × Nat))
    (hlen : len = pos + 1 + tail.length) : afterClose len pos tail rest ≠ .error .panic := by
  unfold afterClose
  cases rest with
  | nil =>
    simp only
    split
    · rename_i h
      cases tail with
      | nil => simp only [List.length_nil] at hlen; omega
      | cons c cs => simp [throw, throwThe, MonadExceptOf.throw]
    · simp [pure, Except.pure]
  | cons r rs =>
    obtain ⟨rc, rp⟩ := r
    simp only
    split
    · simp [throw, throwThe, MonadExceptOf.throw]
    · rename_i h
      cases tail with
      | nil => simp only [List.length_nil] at hlen; omega
      | cons c cs =>
        simp only [List.head?_cons]
        split <;> simp [throw, throwThe, MonadExceptOf.throw, pure, Except.pure]

theorem preStep_ne_panic {len : Nat} {st : PreSt} {pos : Nat} {ch : Char} {tail : List Char}
    (hlen : len = pos + 1 + tail.length) : preStep len st pos ch tail ≠ .error .panic := by
  unfold preStep
  split
  · simp [pure, Except.pure]
  · split
    · cases st.stack with
      | nil => simp [throw, throwThe, MonadExceptOf.throw]
      | cons o rest =>
        obtain ⟨oc, op⟩ := o
        simp only
        split
        · simp [throw, throwThe, MonadExceptOf.throw]
        · have := afterClose_ne_panic (len := len) (pos := pos) (tail := tail) rest hlen
          cases hac : afterClose len pos tail rest with
          | error e =>
            rw [hac] at this
            simp only [throw, throwThe, MonadExceptOf.throw, ne_eq, Except.error.injEq]
            intro e'; exact this (by rw [e'])
          | ok u => simp [pure, Except.pure]
    · split
      · split <;> simp [throw, throwThe, MonadExceptOf.throw, pure, Except.pure]
      · simp [pure, Except.pure]

theorem preLoop_ne_panic {len : Nat} (rest : List Char) (pos : Nat) (st : PreSt)
    (hlen : len = pos + rest.length) : preLoop len pos rest st ≠ .error .panic := by
  induction rest generalizing pos st with
  | nil => simp [preLoop, pure, Except.pure]
  | cons ch tail ih =>
    unfold preLoop
    have hl : len = pos + 1 + tail.length := by simp only [List.length_cons] at hlen; omega
    cases hs : preStep len st pos ch tail with
    | error e =>
      have := preStep_ne_panic (st := st) (ch := ch) hl
      rw [hs] at this
      simp only [throw, throwThe, MonadExceptOf.throw, ne_eq, Except.error.injEq]
      intro e'; exact this (by rw [e'])
    | ok st' => exact ih (pos + 1) st' hl

end MsVerif.Expr

/-
Lemmas for C16 (addresses): Base58 / Base58Check decoding inverts encoding, for every byte
string.  Generic part: positional notation in a base `b ≥ 2`.
-/
import MsVerif.Spec.Base58

namespace MsVerif.Base58

/-! ### positional notation -/

theorem ofDigits_digits (b : Nat) (hb : 2 ≤ b) : ∀ fuel n, n ≤ fuel →
    ofDigitsLE b (digitsLE b fuel n) = n
  | 0, n, h => by
    have : n = 0 := by omega
    subst this; rfl
  | fuel + 1, n, h => by
    simp only [digitsLE]
    split
    · rename_i h0; subst h0; rfl
    · rename_i h0
      have hlt : n / b < n := Nat.div_lt_self (by omega) (by omega)
      simp only [ofDigitsLE, ofDigits_digits b hb fuel (n / b) (by omega)]
      exact Nat.mod_add_div n b

theorem digits_lt (b : Nat) (hb : 2 ≤ b) : ∀ fuel n, ∀ d ∈ digitsLE b fuel n, d < b
  | 0, _, d, h => by simp [digitsLE] at h
  | fuel + 1, n, d, h => by
    simp only [digitsLE] at h
    split at h
    · simp at h
    · rcases List.mem_cons.mp h with rfl | h
      · exact Nat.mod_lt _ (by omega)
      · exact digits_lt b hb fuel _ d h

/-- the most significant digit is not zero -/
theorem digits_getLast (b : Nat) (hb : 2 ≤ b) : ∀ fuel n, n ≤ fuel →
    (digitsLE b fuel n).getLast? ≠ some 0
  | 0, n, _ => by simp [digitsLE]
  | fuel + 1, n, h => by
    simp only [digitsLE]
    split
    · simp
    · rename_i h0
      have hlt : n / b < n := Nat.div_lt_self (by omega) (by omega)
      have ih := digits_getLast b hb fuel (n / b) (by omega)
      by_cases hq : n / b = 0
      · have : digitsLE b fuel (n / b) = [] := by
          rw [hq]; cases fuel <;> simp [digitsLE]
        rw [this]
        simp only [List.getLast?_singleton, ne_eq, Option.some.injEq]
        intro hm
        have := Nat.mod_add_div n b
        rw [hm, hq] at this
        omega
      · have hne : digitsLE b fuel (n / b) ≠ [] := by
          cases fuel with
          | zero =>
            have h1 : n = 1 := by omega
            exact absurd (by rw [h1]; exact Nat.div_eq_of_lt (by omega)) hq
          | succ f => simp [digitsLE, hq]
        rw [List.getLast?_cons_of_ne_nil hne]
        exact ih

theorem digits_ofDigits (b : Nat) (hb : 2 ≤ b) : ∀ (l : List Nat) fuel,
    (∀ d ∈ l, d < b) → l.getLast? ≠ some 0 → ofDigitsLE b l ≤ fuel →
    digitsLE b fuel (ofDigitsLE b l) = l
  | [], fuel, _, _, _ => by cases fuel <;> simp [digitsLE, ofDigitsLE]
  | d :: ds, fuel, hlt, hlast, hfuel => by
    have hd : d < b := hlt d (by simp)
    have hds : ∀ x ∈ ds, x < b := fun x hx => hlt x (by simp [hx])
    have hpos : ofDigitsLE b (d :: ds) ≠ 0 := by
      intro h0
      simp only [ofDigitsLE] at h0
      have h1 : d = 0 := by omega
      have h2 : b * ofDigitsLE b ds = 0 := by omega
      have h3 : ofDigitsLE b ds = 0 := by
        rcases Nat.mul_eq_zero.mp h2 with h | h
        · omega
        · exact h
      cases ds with
      | nil => subst h1; simp at hlast
      | cons e es =>
        have hl' : (e :: es).getLast? ≠ some 0 := by
          rwa [List.getLast?_cons_of_ne_nil (by simp)] at hlast
        have := digits_ofDigits b hb (e :: es) (ofDigitsLE b (e :: es)) hds hl' (Nat.le_refl _)
        rw [h3] at this
        simp [digitsLE] at this
    cases fuel with
    | zero => omega
    | succ fuel =>
      simp only [digitsLE, hpos, if_false]
      have hmod : ofDigitsLE b (d :: ds) % b = d := by
        simp only [ofDigitsLE]
        rw [Nat.add_mul_mod_self_left]
        exact Nat.mod_eq_of_lt hd
      have hdiv : ofDigitsLE b (d :: ds) / b = ofDigitsLE b ds := by
        simp only [ofDigitsLE]
        rw [Nat.add_mul_div_left _ _ (by omega : 0 < b), Nat.div_eq_of_lt hd, Nat.zero_add]
      rw [hmod, hdiv]
      have hlast' : ds.getLast? ≠ some 0 := by
        cases ds with
        | nil => simp
        | cons e es => rwa [List.getLast?_cons_of_ne_nil (by simp)] at hlast
      have hle : ofDigitsLE b ds ≤ fuel := by
        have : ofDigitsLE b ds < ofDigitsLE b (d :: ds) := by
          rw [← hdiv]
          exact Nat.div_lt_self (by omega) (by omega)
        omega
      rw [digits_ofDigits b hb ds fuel hds hlast' hle]


/-! ### bytes, characters, leading zeros -/

theorem bytesOfNat_natOfBytes (rest : List UInt8) (h : rest.head? ≠ some 0) :
    bytesOfNat (natOfBytes rest) = rest := by
  unfold bytesOfNat natOfBytes
  have hl : ∀ d ∈ rest.reverse.map UInt8.toNat, d < 256 := by
    intro d hd
    obtain ⟨x, _, rfl⟩ := List.mem_map.mp hd
    exact UInt8.toNat_lt x
  have hlast : (rest.reverse.map UInt8.toNat).getLast? ≠ some 0 := by
    rw [List.getLast?_map, List.getLast?_reverse]
    cases rest with
    | nil => simp
    | cons x xs =>
      simp only [List.head?_cons, Option.map_some, ne_eq, Option.some.injEq] at h ⊢
      intro hx
      exact h (UInt8.toNat_inj.mp (by simpa using hx))
  rw [digits_ofDigits 256 (by omega) _ _ hl hlast (Nat.le_refl _)]
  simp [List.map_reverse, List.map_map, Function.comp_def]

theorem digitOfChar_charOfDigit : ∀ d, d < 58 → digitOfChar (charOfDigit d) = some d := by
  decide

theorem charOfDigit_ne_one : ∀ d, d < 58 → d ≠ 0 → charOfDigit d ≠ '1' := by
  decide

theorem mapM_digitOfChar (ds : List Nat) (h : ∀ d ∈ ds, d < 58) :
    (ds.map charOfDigit).mapM digitOfChar = some ds := by
  induction ds with
  | nil => rfl
  | cons d ds ih =>
    have hd := digitOfChar_charOfDigit d (h d (by simp))
    have := ih (fun x hx => h x (by simp [hx]))
    simp [List.mapM_cons, hd, this]

theorem leading_replicate_append {α : Type} [BEq α] [LawfulBEq α] (z : α) (n : Nat) (l : List α)
    (h : l.head? ≠ some z) :
    leading z (List.replicate n z ++ l) = n ∧ (List.replicate n z ++ l).drop n = l := by
  induction n with
  | zero =>
    simp only [List.replicate_zero, List.nil_append, List.drop_zero, and_true]
    cases l with
    | nil => rfl
    | cons x xs =>
      have : (x == z) = false := by
        simp only [List.head?_cons, ne_eq, Option.some.injEq] at h
        simpa using h
      simp [leading, this]
  | succ n ih =>
    simp only [List.replicate_succ, List.cons_append, List.drop_succ_cons]
    refine ⟨?_, ih.2⟩
    have := ih.1
    simp only [leading] at this ⊢
    rw [List.takeWhile_cons_of_pos (p := fun x => x == z) (by simp), List.length_cons, this]

theorem split_leading {α : Type} [BEq α] [LawfulBEq α] (z : α) : ∀ l : List α,
    l = List.replicate (leading z l) z ++ l.drop (leading z l) ∧
      (l.drop (leading z l)).head? ≠ some z
  | [] => by simp [leading]
  | x :: xs => by
    by_cases hx : (x == z) = true
    · have hxz : x = z := by simpa using hx
      have ih := split_leading z xs
      have hl : leading z (x :: xs) = leading z xs + 1 := by
        simp [leading, hx]
      rw [hl]
      simp only [List.replicate_succ, List.cons_append, List.drop_succ_cons, List.cons.injEq]
      exact ⟨⟨hxz, ih.1⟩, ih.2⟩
    · have hl : leading z (x :: xs) = 0 := by
        simp [leading, hx]
      rw [hl]
      simp only [List.replicate_zero, List.nil_append, List.drop_zero, List.head?_cons, ne_eq,
        Option.some.injEq, true_and]
      intro h
      exact hx (by simp [h])

/-! ### round trips -/

/-- Base58 decoding inverts encoding, for every byte string -/
theorem decode_encode (bs : List UInt8) : decode (encode bs) = some bs := by
  obtain ⟨hsplit, hhead⟩ := split_leading (0 : UInt8) bs
  unfold encode decode
  simp only
  have hds : ∀ d ∈ (digitsLE 58 (natOfBytes (bs.drop (leading 0 bs))) (natOfBytes (bs.drop (leading 0 bs)))).reverse,
      d < 58 := fun d hd => digits_lt 58 (by omega) _ _ d (List.mem_reverse.mp hd)
  have hfirst : (((digitsLE 58 (natOfBytes (bs.drop (leading 0 bs)))
      (natOfBytes (bs.drop (leading 0 bs)))).reverse).map charOfDigit).head? ≠ some '1' := by
    rw [List.head?_map, List.head?_reverse]
    have hl := digits_getLast 58 (by omega) _ _ (Nat.le_refl (natOfBytes (bs.drop (leading 0 bs))))
    cases hg : (digitsLE 58 (natOfBytes (bs.drop (leading 0 bs)))
        (natOfBytes (bs.drop (leading 0 bs)))).getLast? with
    | none => simp
    | some d =>
      have hmem := List.mem_of_getLast? hg
      have hlt := digits_lt 58 (by omega) _ _ d hmem
      rw [hg] at hl
      simp only [Option.map_some, ne_eq, Option.some.injEq]
      exact charOfDigit_ne_one d hlt (fun h0 => hl (by rw [h0]))
  obtain ⟨hlead, hdrop⟩ := leading_replicate_append '1' (leading 0 bs) _ hfirst
  rw [hlead, hdrop, mapM_digitOfChar _ hds]
  simp only [Option.map_some, List.reverse_reverse, Option.some.injEq]
  rw [ofDigits_digits 58 (by omega) _ _ (Nat.le_refl _), bytesOfNat_natOfBytes _ hhead]
  exact hsplit.symm

/-- Base58Check decoding inverts encoding (in particular: the checksum of an encoded payload
verifies), for every payload -/
theorem decodeCheck_encodeCheck (payload : List UInt8) (hlen : (Hash.hash256 payload).length ≥ 4) :
    decodeCheck (encodeCheck payload) = some payload := by
  unfold decodeCheck encodeCheck
  rw [decode_encode]
  have hc : (checksum payload).length = 4 := by
    simp only [checksum, List.length_take]; omega
  simp only [Option.bind_some, List.length_append, hc]
  have h1 : ¬ payload.length + 4 < 4 := by omega
  simp only [h1, if_false, Nat.add_sub_cancel]
  simp [List.take_left', List.drop_left']

end MsVerif.Base58

/-
Lemmas for C19 (equality / hashing / clone): the zip of two pre-order traversals compared node
by node is a prefix test on LABEL sequences; the label of `thresh` carries k and the arity, so
the prefix code lemma gives structural equality.
-/
import MsVerif.Lemmas.TreeWalk

-- many `simp` calls below close several constructor cases at once; an argument unused in one case is used in another
set_option linter.unusedSimpArgs false

namespace MsVerif.CmpEq
open MsVerif MsVerif.TreeWalk

/-! ### labels: a node with its children erased -/

/-- the node with every child replaced by `0`; `thresh` keeps k and arity -/
def labF : Ms → Ms
  | .alt _ => .alt .fls | .swap _ => .swap .fls | .check _ => .check .fls | .dupIf _ => .dupIf .fls
  | .verify _ => .verify .fls | .nonZero _ => .nonZero .fls | .zeroNotEqual _ => .zeroNotEqual .fls
  | .andV _ _ => .andV .fls .fls | .andB _ _ => .andB .fls .fls | .orB _ _ => .orB .fls .fls
  | .orD _ _ => .orD .fls .fls | .orC _ _ => .orC .fls .fls | .orI _ _ => .orI .fls .fls
  | .andOr _ _ _ => .andOr .fls .fls .fls
  | .thresh k xs => .thresh k (MsList.ofList (List.replicate xs.length .fls))
  | t => t

theorem MsList.toList_inj : (xs ys : MsList) → xs.toList = ys.toList → xs = ys
  | .nil, .nil, _ => rfl
  | .nil, .cons _ _, h => by simp [MsList.toList] at h
  | .cons _ _, .nil, h => by simp [MsList.toList] at h
  | .cons x xs, .cons y ys, h => by
    simp only [MsList.toList, List.cons.injEq] at h
    rw [h.1, MsList.toList_inj xs ys h.2]

theorem MsList.ofList_toList : (xs : MsList) → MsList.ofList xs.toList = xs
  | .nil => rfl
  | .cons x xs => by simp [MsList.toList, MsList.ofList, MsList.ofList_toList xs]

theorem MsList.ofList_length (l : List Ms) : (MsList.ofList l).length = l.length := by
  rw [← MsList.length_toList, MsList.toList_ofList]

theorem ofList_replicate_inj (a b : Nat)
    (h : MsList.ofList (List.replicate a Ms.fls) = MsList.ofList (List.replicate b Ms.fls)) : a = b := by
  have := congrArg MsList.length h
  simpa [MsList.ofList_length] using this

theorem idx_inj (a b : HashKind) (h : a.idx = b.idx) : a = b := by
  cases a <;> cases b <;> simp [HashKind.idx] at h <;> rfl

theorem idx_lt (a : HashKind) : a.idx < 4 := by cases a <;> simp [HashKind.idx]

/-- the loop body of `eq` compares exactly the labels -/
theorem nodeDiffers_iff (x y : Ms) : nodeDiffers x y = false ↔ labF x = labF y := by
  cases x <;> cases y <;> simp [nodeDiffers, armGuard, Ms.disc, labF] <;>
    try (have := idx_lt ‹HashKind›; omega)
  case hash.hash k1 h1 k2 h2 =>
    by_cases hk : k1 = k2
    · subst hk; simp
    · simp [hk]; intro h; exact absurd (idx_inj _ _ h) hk
  case thresh.thresh k1 xs1 k2 xs2 =>
    rintro rfl
    exact ⟨fun h => by rw [h], ofList_replicate_inj _ _⟩

/-! ### the zip -/

/-- `eqZip` succeeds iff the label sequences agree on the common prefix -/
theorem eqZip_iff {L : Type} (d : Ms → Ms → Bool) (lab : Ms → L)
    (hd : ∀ x y, d x y = false ↔ lab x = lab y) :
    ∀ (la lb : List Ms), eqZip d la lb = true ↔
      (la.map lab <+: lb.map lab ∨ lb.map lab <+: la.map lab)
  | [], lb => by simp [eqZip]
  | _ :: _, [] => by simp [eqZip]
  | x :: la, y :: lb => by
    simp only [eqZip, List.map_cons, List.cons_prefix_cons]
    by_cases h : d x y = false
    · have hl := (hd x y).1 h
      simp [h, hl, eqZip_iff d lab hd la lb]
    · have hne : lab x ≠ lab y := fun e => h ((hd x y).2 e)
      have hne' : lab y ≠ lab x := fun e => hne e.symm
      simp [h, hne, hne']

/-! ### the prefix code on `Ms` -/

theorem labF_arity (x y : Ms) (h : labF x = labF y) :
    x.asNode.children.length = y.asNode.children.length := by
  cases x <;> cases y <;> simp [labF] at h <;> simp [Ms.asNode, Tree.children]
  obtain ⟨_, h⟩ := h
  exact ofList_replicate_inj _ _ h

theorem labF_inj (x y : Ms) (h : labF x = labF y)
    (hc : x.asNode.children = y.asNode.children) : x = y := by
  cases x <;> cases y <;> simp [labF] at h <;> simp [Ms.asNode, Tree.children] at hc <;>
    simp_all
  exact MsList.toList_inj _ _ hc

/-- equal-length stacks whose pre-order label sequences are prefix-related are equal -/
theorem pre_prefix_code (sa sb : List Ms) (hl : sa.length = sb.length)
    (hp : (sa.flatMap Ms.pre).map labF <+: (sb.flatMap Ms.pre).map labF) : sa = sb :=
  prefix_code (fun x => x.asNode.children) Ms.pre labF Ms.nodes Ms.pre_eq Ms.nodes_eq
    labF_arity labF_inj _ sa sb (Nat.le_refl _) hl hp

/-- `==` is structural identity -/
theorem msEq_iff (a b : Ms) : msEq a b = true ↔ a = b := by
  unfold msEq
  rw [preOrder_eq_pre, preOrder_eq_pre, eqZip_iff nodeDiffers labF nodeDiffers_iff]
  constructor
  · rintro (h | h)
    · have := pre_prefix_code [a] [b] rfl (by simpa using h)
      simpa using this
    · have := pre_prefix_code [b] [a] rfl (by simpa using h)
      simpa using this.symm
  · rintro rfl; exact Or.inl (List.prefix_refl _)

/-! ### clone -/

theorem popEach_append {β : Type} : ∀ (cs : List β) (ys st : List Ms), cs.length = ys.length →
    popEach cs (ys ++ st) = some (ys, st)
  | [], [], st, _ => rfl
  | [], _ :: _, _, h => by simp at h
  | _ :: _, [], _, h => by simp at h
  | _ :: cs, y :: ys, st, h => by
    simp only [List.length_cons, Nat.add_right_cancel_iff] at h
    simp [popEach, pop?, popEach_append cs ys st h]

mutual
theorem cloneLoop_ms : (ms : Ms) → ∀ (rest st : List Ms),
    cloneLoop (ms.rtlPost ++ rest) st = cloneLoop rest (ms :: st)
  | .tru, _, _ | .fls, _, _ | .pkK _, _, _ | .pkH _, _, _ | .rawPkH _, _, _ | .after _, _, _
  | .older _, _, _ | .hash _ _, _, _ | .multi _ _, _, _ | .sortedMulti _ _, _, _
  | .multiA _ _, _, _ | .sortedMultiA _ _, _, _ => by simp [Ms.rtlPost, cloneLoop, cloneStep]
  | .alt x, rest, st | .swap x, rest, st | .check x, rest, st | .dupIf x, rest, st
  | .verify x, rest, st | .nonZero x, rest, st | .zeroNotEqual x, rest, st => by
    simp [Ms.rtlPost, List.append_assoc, cloneLoop_ms x, cloneLoop, cloneStep, pop?]
  | .andV l r, rest, st | .andB l r, rest, st | .orB l r, rest, st | .orD l r, rest, st
  | .orC l r, rest, st | .orI l r, rest, st => by
    simp [Ms.rtlPost, List.append_assoc, cloneLoop_ms l, cloneLoop_ms r, cloneLoop, cloneStep, pop?]
  | .andOr a b c, rest, st => by
    simp [Ms.rtlPost, List.append_assoc, cloneLoop_ms a, cloneLoop_ms b, cloneLoop_ms c,
      cloneLoop, cloneStep, pop?]
  | .thresh k xs, rest, st => by
    simp [Ms.rtlPost, List.append_assoc, cloneLoop_list xs, cloneLoop, cloneStep,
      popEach_append, MsList.ofList_toList]
theorem cloneLoop_list : (xs : MsList) → ∀ (rest st : List Ms),
    cloneLoop (xs.rtlPost ++ rest) st = cloneLoop rest (xs.toList ++ st)
  | .nil, _, _ => by simp [MsList.rtlPost, MsList.toList]
  | .cons x xs, rest, st => by
    simp [MsList.rtlPost, List.append_assoc, cloneLoop_list xs, cloneLoop_ms x, MsList.toList]
end

theorem msClone_eq (ms : Ms) : msClone ms = .ok ms := by
  unfold msClone
  rw [rtlPostOrder_eq]
  have := cloneLoop_ms ms [] []
  simp only [List.append_nil] at this
  rw [this]
  simp [cloneLoop]

end MsVerif.CmpEq

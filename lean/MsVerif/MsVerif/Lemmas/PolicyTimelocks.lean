/-
`check_timelocks` / `TimelockInfo`: the fold of `combine_threshold` against the selections.
-/
import MsVerif.Lemmas.PolicyBasic

set_option linter.unusedSimpArgs false
namespace MsVerif.Pol
open Conc

/-! ## the fold -/

/-- two members at different positions are related -/
def PairEx {α} (R : α → α → Prop) : List α → Prop
  | [] => False
  | x :: xs => (∃ y ∈ xs, R x y) ∨ PairEx R xs

def conf (a b : TimelockInfo) : Bool :=
  (a.csvWithHeight && b.csvWithTime) || (a.csvWithTime && b.csvWithHeight)
    || (a.cltvWithTime && b.cltvWithHeight) || (a.cltvWithHeight && b.cltvWithTime)

theorem foldl_step_field (k : Nat) (g : TimelockInfo → Bool)
    (hg : ∀ acc t, g (TimelockInfo.step k acc t) = (g acc || g t)) (acc : TimelockInfo)
    (ts : List TimelockInfo) : g (ts.foldl (TimelockInfo.step k) acc) = (g acc || ts.any g) := by
  induction ts generalizing acc with
  | nil => simp
  | cons t ts ih => rw [List.foldl_cons, ih, hg, List.any_cons, Bool.or_assoc]

theorem step_comb (k : Nat) (acc t : TimelockInfo) :
    (TimelockInfo.step k acc t).containsCombination = true ↔
      acc.containsCombination = true ∨ (1 < k ∧ conf acc t = true) ∨ t.containsCombination = true := by
  by_cases hk : 1 < k <;> simp [TimelockInfo.step, conf, hk] <;> grind

theorem conf_step (k : Nat) (acc t x : TimelockInfo) :
    conf (TimelockInfo.step k acc t) x = true ↔ (conf acc x = true ∨ conf t x = true) := by
  simp only [conf, TimelockInfo.step, Bool.or_eq_true, Bool.and_eq_true]
  grind

theorem foldl_step_comb (k : Nat) (acc : TimelockInfo) (ts : List TimelockInfo) :
    (ts.foldl (TimelockInfo.step k) acc).containsCombination = true ↔
      acc.containsCombination = true ∨ (∃ t ∈ ts, t.containsCombination = true)
      ∨ (1 < k ∧ ((∃ t ∈ ts, conf acc t = true) ∨ PairEx (fun a b => conf a b = true) ts)) := by
  induction ts generalizing acc with
  | nil => simp [PairEx]
  | cons t ts ih =>
    rw [List.foldl_cons, ih, step_comb]
    simp only [conf_step, List.mem_cons, exists_eq_or_imp, PairEx]
    grind


theorem combineThreshold_field (k : Nat) (g : TimelockInfo → Bool)
    (hg : ∀ acc t, g (TimelockInfo.step k acc t) = (g acc || g t)) (hd : g {} = false)
    (ts : List TimelockInfo) : g (TimelockInfo.combineThreshold k ts) = ts.any g := by
  rw [TimelockInfo.combineThreshold, foldl_step_field k g hg, hd, Bool.false_or]

theorem combineThreshold_comb (k : Nat) (ts : List TimelockInfo) :
    (TimelockInfo.combineThreshold k ts).containsCombination = true ↔
      (∃ t ∈ ts, t.containsCombination = true)
      ∨ (1 < k ∧ PairEx (fun a b => conf a b = true) ts) := by
  rw [TimelockInfo.combineThreshold, foldl_step_comb]
  have : ∀ t, conf {} t = false := by intro t; simp [conf]
  simp [this]

/-! ## selections -/

/-- which kinds of lock a selection contains -/
def selInfo (s : List Atom) : TimelockInfo :=
  { csvWithHeight := s.any Atom.isOlderHeight
    csvWithTime := s.any Atom.isOlderTime
    cltvWithHeight := s.any Atom.isAfterHeight
    cltvWithTime := s.any Atom.isAfterTime
    containsCombination := mixedLocks s }

theorem mixed_append (a r : List Atom) :
    mixedLocks (a ++ r) = true ↔
      mixedLocks a = true ∨ mixedLocks r = true ∨ conf (selInfo a) (selInfo r) = true := by
  simp only [mixedLocks, conf, selInfo, List.any_append, Bool.or_eq_true, Bool.and_eq_true]
  grind

theorem mem_chooseK_zero (alts : List (List (List Atom))) (s : List Atom) :
    s ∈ chooseK alts 0 ↔ s = [] := by
  cases alts <;> simp [chooseK]

theorem mem_chooseK_cons (al : List (List Atom)) (rest : List (List (List Atom))) (k : Nat)
    (s : List Atom) :
    s ∈ chooseK (al :: rest) (k + 1) ↔
      s ∈ chooseK rest (k + 1) ∨ ∃ a ∈ al, ∃ r ∈ chooseK rest k, s = a ++ r := by
  simp only [chooseK, List.mem_append, List.mem_flatMap, List.mem_map]
  grind

/-- a lock-kind test of a selection: additive over concatenation -/
structure Additive (g : List Atom → Bool) : Prop where
  nil : g [] = false
  append : ∀ a r, g (a ++ r) = (g a || g r)

theorem additive_any (f : Atom → Bool) : Additive (fun s => s.any f) :=
  ⟨by simp, by intro a r; simp [List.any_append]⟩

theorem chooseK_field_sound {g : List Atom → Bool} (hg : Additive g) :
    ∀ (alts : List (List (List Atom))) (k : Nat) (s : List Atom), s ∈ chooseK alts k → g s = true →
      ∃ al ∈ alts, ∃ s' ∈ al, g s' = true := by
  intro alts
  induction alts with
  | nil =>
    intro k s hs hgs
    cases k with
    | zero => rw [mem_chooseK_zero] at hs; subst hs; rw [hg.nil] at hgs; simp at hgs
    | succ k => simp [chooseK] at hs
  | cons al rest ih =>
    intro k s hs hgs
    cases k with
    | zero => rw [mem_chooseK_zero] at hs; subst hs; rw [hg.nil] at hgs; simp at hgs
    | succ k =>
      rcases (mem_chooseK_cons al rest k s).mp hs with h | ⟨a, ha, r, hr, rfl⟩
      · obtain ⟨al', hal', s', hs', h'⟩ := ih _ _ h hgs
        exact ⟨al', by simp [hal'], s', hs', h'⟩
      · rw [hg.append, Bool.or_eq_true] at hgs
        rcases hgs with h | h
        · exact ⟨al, by simp, a, ha, h⟩
        · obtain ⟨al', hal', s', hs', h'⟩ := ih _ _ hr h
          exact ⟨al', by simp [hal'], s', hs', h'⟩

theorem chooseK_nonempty :
    ∀ (alts : List (List (List Atom))) (k : Nat), (∀ al ∈ alts, al ≠ []) → k ≤ alts.length →
      ∃ s, s ∈ chooseK alts k := by
  intro alts
  induction alts with
  | nil =>
    intro k _ hk
    have : k = 0 := by simpa using hk
    subst this; exact ⟨[], by simp [chooseK]⟩
  | cons al rest ih =>
    intro k hne hk
    cases k with
    | zero => exact ⟨[], by simp [chooseK]⟩
    | succ k =>
      obtain ⟨r, hr⟩ := ih k (fun al' h => hne al' (by simp [h])) (by simpa using hk)
      obtain ⟨a, ha⟩ := List.exists_mem_of_ne_nil al (hne al (by simp))
      exact ⟨a ++ r, (mem_chooseK_cons al rest k _).mpr (Or.inr ⟨a, ha, r, hr, rfl⟩)⟩

/-- monotone under concatenation -/
structure Mono (g : List Atom → Bool) : Prop where
  left : ∀ a r, g a = true → g (a ++ r) = true
  right : ∀ a r, g r = true → g (a ++ r) = true

theorem Additive.mono {g : List Atom → Bool} (hg : Additive g) : Mono g :=
  ⟨by intro a r h; rw [hg.append, h]; rfl, by intro a r h; rw [hg.append, h]; simp⟩

theorem mono_mixed : Mono mixedLocks :=
  ⟨by intro a r h; exact (mixed_append a r).mpr (Or.inl h),
   by intro a r h; exact (mixed_append a r).mpr (Or.inr (Or.inl h))⟩

theorem chooseK_field_complete {g : List Atom → Bool} (hg : Mono g) :
    ∀ (alts : List (List (List Atom))) (k : Nat), (∀ al ∈ alts, al ≠ []) → 1 ≤ k → k ≤ alts.length →
      (∃ al ∈ alts, ∃ s' ∈ al, g s' = true) → ∃ s ∈ chooseK alts k, g s = true := by
  intro alts
  induction alts with
  | nil => intro k _ _ _ h; simp at h
  | cons al rest ih =>
    intro k hne hk1 hkn ⟨al', hal', s', hs', hgs'⟩
    cases k with
    | zero => omega
    | succ k =>
      have hne' : ∀ al ∈ rest, al ≠ [] := fun al' h => hne al' (by simp [h])
      have hkn' : k ≤ rest.length := by simpa using hkn
      rcases List.mem_cons.mp hal' with h | h
      · -- the witness is in the head: take it, fill up arbitrarily
        subst h
        obtain ⟨r, hr⟩ := chooseK_nonempty rest k hne' hkn'
        exact ⟨s' ++ r, (mem_chooseK_cons _ rest k _).mpr (Or.inr ⟨s', hs', r, hr, rfl⟩),
          hg.left _ _ hgs'⟩
      · by_cases hk : k + 1 ≤ rest.length
        · -- skip the head
          obtain ⟨s, hs, h'⟩ := ih (k + 1) hne' (by omega) hk ⟨al', h, s', hs', hgs'⟩
          exact ⟨s, (mem_chooseK_cons al rest k _).mpr (Or.inl hs), h'⟩
        · -- every member has to be taken
          have hk0 : 1 ≤ k := by
            cases rest with
            | nil => simp at h
            | cons _ _ => simp at hk hkn'; omega
          obtain ⟨r, hr, h'⟩ := ih k hne' hk0 hkn' ⟨al', h, s', hs', hgs'⟩
          obtain ⟨a, ha⟩ := List.exists_mem_of_ne_nil al (hne al (by simp))
          exact ⟨a ++ r, (mem_chooseK_cons al rest k _).mpr (Or.inr ⟨a, ha, r, hr, rfl⟩),
            hg.right _ _ h'⟩

/-! ## the four lock kinds, uniformly -/

inductive Fld | oH | oT | aH | aT
  deriving DecidableEq

def Fld.info : Fld → TimelockInfo → Bool
  | .oH, t => t.csvWithHeight
  | .oT, t => t.csvWithTime
  | .aH, t => t.cltvWithHeight
  | .aT, t => t.cltvWithTime

def Fld.sel : Fld → List Atom → Bool
  | .oH, s => s.any Atom.isOlderHeight
  | .oT, s => s.any Atom.isOlderTime
  | .aH, s => s.any Atom.isAfterHeight
  | .aT, s => s.any Atom.isAfterTime

theorem Fld.info_selInfo (f : Fld) (s : List Atom) : f.info (selInfo s) = f.sel s := by
  cases f <;> rfl

theorem Fld.additive (f : Fld) : Additive f.sel := by
  cases f <;> exact additive_any _

theorem Fld.info_step (f : Fld) (k : Nat) (acc t : TimelockInfo) :
    f.info (TimelockInfo.step k acc t) = (f.info acc || f.info t) := by
  cases f <;> rfl

theorem Fld.info_combineThreshold (f : Fld) (k : Nat) (ts : List TimelockInfo) :
    f.info (TimelockInfo.combineThreshold k ts) = ts.any f.info :=
  combineThreshold_field k f.info (f.info_step k) (by cases f <;> rfl) ts

/-- the conflicting pairs of lock kinds -/
def confPairs : List (Fld × Fld) := [(.oH, .oT), (.oT, .oH), (.aT, .aH), (.aH, .aT)]

theorem conf_iff (a b : TimelockInfo) :
    conf a b = true ↔ ∃ p ∈ confPairs, p.1.info a = true ∧ p.2.info b = true := by
  simp only [conf, confPairs, Fld.info, Bool.or_eq_true, Bool.and_eq_true, List.mem_cons,
    List.not_mem_nil, or_false, exists_eq_or_imp]
  grind

/-- two alternatives-lists contain conflicting selections -/
def RA (al1 al2 : List (List Atom)) : Prop :=
  ∃ s1 ∈ al1, ∃ s2 ∈ al2, conf (selInfo s1) (selInfo s2) = true

theorem pairEx_length {α} {R : α → α → Prop} : ∀ {l : List α}, PairEx R l → 2 ≤ l.length
  | [], h => by simp [PairEx] at h
  | [_], h => by simp [PairEx] at h
  | _ :: _ :: _, _ => by simp

theorem chooseK_comb_sound :
    ∀ (alts : List (List (List Atom))) (k : Nat) (s : List Atom), s ∈ chooseK alts k →
      mixedLocks s = true →
      (∃ al ∈ alts, ∃ s' ∈ al, mixedLocks s' = true) ∨ (1 < k ∧ PairEx RA alts) := by
  intro alts
  induction alts with
  | nil =>
    intro k s hs hm
    cases k with
    | zero => rw [mem_chooseK_zero] at hs; subst hs; simp [mixedLocks] at hm
    | succ k => simp [chooseK] at hs
  | cons al rest ih =>
    intro k s hs hm
    cases k with
    | zero => rw [mem_chooseK_zero] at hs; subst hs; simp [mixedLocks] at hm
    | succ k =>
      rcases (mem_chooseK_cons al rest k s).mp hs with h | ⟨a, ha, r, hr, rfl⟩
      · rcases ih _ _ h hm with ⟨al', hal', s', hs', h'⟩ | ⟨hk, hp⟩
        · exact Or.inl ⟨al', by simp [hal'], s', hs', h'⟩
        · exact Or.inr ⟨hk, Or.inr hp⟩
      · rcases (mixed_append a r).mp hm with h | h | h
        · exact Or.inl ⟨al, by simp, a, ha, h⟩
        · rcases ih _ _ hr h with ⟨al', hal', s', hs', h'⟩ | ⟨hk, hp⟩
          · exact Or.inl ⟨al', by simp [hal'], s', hs', h'⟩
          · exact Or.inr ⟨by omega, Or.inr hp⟩
        · -- the conflict is between the head's alternative and the rest
          obtain ⟨p, hp, h1, h2⟩ := (conf_iff _ _).mp h
          rw [Fld.info_selInfo] at h1 h2
          have hk : 1 ≤ k := by
            cases k with
            | zero =>
              rw [mem_chooseK_zero] at hr; subst hr
              rw [(Fld.additive p.2).nil] at h2; simp at h2
            | succ k => omega
          obtain ⟨al2, hal2, s2, hs2, h2'⟩ := chooseK_field_sound (Fld.additive p.2) _ _ _ hr h2
          refine Or.inr ⟨by omega, Or.inl ⟨al2, hal2, a, ha, s2, hs2, ?_⟩⟩
          exact (conf_iff _ _).mpr ⟨p, hp, by rw [Fld.info_selInfo]; exact h1,
            by rw [Fld.info_selInfo]; exact h2'⟩

theorem chooseK_comb_complete :
    ∀ (alts : List (List (List Atom))) (k : Nat), (∀ al ∈ alts, al ≠ []) → k ≤ alts.length →
      1 < k → PairEx RA alts → ∃ s ∈ chooseK alts k, mixedLocks s = true := by
  intro alts
  induction alts with
  | nil => intro k _ _ _ h; simp [PairEx] at h
  | cons al rest ih =>
    intro k hne hkn hk1 hp
    cases k with
    | zero => omega
    | succ k =>
      have hne' : ∀ al ∈ rest, al ≠ [] := fun al' h => hne al' (by simp [h])
      have hkn' : k ≤ rest.length := by simpa using hkn
      rcases hp with ⟨al2, hal2, s1, hs1, s2, hs2, hc⟩ | hp
      · obtain ⟨p, hp, h1, h2⟩ := (conf_iff _ _).mp hc
        rw [Fld.info_selInfo] at h2
        obtain ⟨r, hr, h2'⟩ := chooseK_field_complete (Fld.additive p.2).mono rest k hne'
          (by omega) hkn' ⟨al2, hal2, s2, hs2, h2⟩
        refine ⟨s1 ++ r, (mem_chooseK_cons al rest k _).mpr (Or.inr ⟨s1, hs1, r, hr, rfl⟩), ?_⟩
        refine (mixed_append _ _).mpr (Or.inr (Or.inr ?_))
        exact (conf_iff _ _).mpr ⟨p, hp, h1, by rw [Fld.info_selInfo]; exact h2'⟩
      · by_cases hk : k + 1 ≤ rest.length
        · obtain ⟨s, hs, h'⟩ := ih (k + 1) hne' hk hk1 hp
          exact ⟨s, (mem_chooseK_cons al rest k _).mpr (Or.inl hs), h'⟩
        · have := pairEx_length hp
          obtain ⟨r, hr, h'⟩ := ih k hne' hkn' (by omega) hp
          obtain ⟨a, ha⟩ := List.exists_mem_of_ne_nil al (hne al (by simp))
          exact ⟨a ++ r, (mem_chooseK_cons al rest k _).mpr (Or.inr ⟨a, ha, r, hr, rfl⟩),
            mono_mixed.right _ _ h'⟩

/-! ## concrete policies -/

theorem WFC_go_iff (l : List CPolicy) : WFC.go l = true ↔ ∀ c ∈ l, WFC c = true := by
  induction l with
  | nil => simp [WFC.go]
  | cons p ps ih => simp [WFC.go, ih]

theorem unsatFree_go_iff (l : List CPolicy) :
    unsatFree.go l = true ↔ ∀ c ∈ l, unsatFree c = true := by
  induction l with
  | nil => simp [unsatFree.go]
  | cons p ps ih => simp [unsatFree.go, ih]

theorem threshKPos_go_iff (l : List CPolicy) :
    threshKPos.go l = true ↔ ∀ c ∈ l, threshKPos c = true := by
  induction l with
  | nil => simp [threshKPos.go]
  | cons p ps ih => simp [threshKPos.go, ih]

theorem pairEx_map_imp {α β γ} {R : β → β → Prop} {R' : γ → γ → Prop} (f : α → β) (g : α → γ) :
    ∀ (l : List α), (∀ x ∈ l, ∀ y ∈ l, R (f x) (f y) → R' (g x) (g y)) →
      PairEx R (l.map f) → PairEx R' (l.map g)
  | [], _, h => by simp [PairEx] at h
  | x :: xs, hR, h => by
    simp only [List.map_cons, PairEx, List.mem_map] at h ⊢
    rcases h with ⟨_, ⟨y, hy, rfl⟩, hxy⟩ | h
    · exact Or.inl ⟨_, ⟨y, hy, rfl⟩, hR x (by simp) y (by simp [hy]) hxy⟩
    · exact Or.inr (pairEx_map_imp f g xs
        (fun a ha b hb => hR a (by simp [ha]) b (by simp [hb])) h)

theorem mixed_single (a : Atom) : mixedLocks [a] = false := by
  cases a <;> simp [mixedLocks, Atom.isOlderHeight, Atom.isOlderTime, Atom.isAfterHeight,
    Atom.isAfterTime, relIsHeight, absIsTime, absIsHeight]


/-! ### children without a selection do not take part -/

theorem chooseK_zero' (alts : List (List (List Atom))) : chooseK alts 0 = [[]] := by
  cases alts <;> rfl

theorem chooseK_nil_head (rest : List (List (List Atom))) (k : Nat) :
    chooseK ([] :: rest) k = chooseK rest k := by
  cases k with
  | zero => simp [chooseK_zero']
  | succ k => simp [chooseK]

theorem chooseK_filter (alts : List (List (List Atom))) :
    ∀ k, chooseK alts k = chooseK (alts.filter (fun al => !al.isEmpty)) k := by
  induction alts with
  | nil => intro k; rfl
  | cons al rest ih =>
    intro k
    cases al with
    | nil => rw [chooseK_nil_head, ih]; simp
    | cons x xs =>
      simp only [List.filter_cons, List.isEmpty_cons, Bool.not_false, if_true]
      cases k with
      | zero => simp [chooseK_zero']
      | succ k => simp only [chooseK, ih]

theorem chooseK_short (alts : List (List (List Atom))) :
    ∀ k, alts.length < k → chooseK alts k = [] := by
  induction alts with
  | nil => intro k hk; cases k with
    | zero => omega
    | succ k => rfl
  | cons al rest ih =>
    intro k hk
    cases k with
    | zero => simp at hk
    | succ k =>
      simp only [List.length_cons] at hk
      simp [chooseK, ih (k + 1) (by omega), ih k (by omega)]

/-! ### one node -/

/-- the info records every lock kind / combination of the selections -/
def SoundAt (ti : TimelockInfo) (sl : List (List Atom)) : Prop :=
  ∀ s ∈ sl, (∀ f : Fld, f.sel s = true → f.info ti = true)
    ∧ (mixedLocks s = true → ti.containsCombination = true)

/-- everything the info records is witnessed by a selection -/
def CompleteAt (ti : TimelockInfo) (sl : List (List Atom)) : Prop :=
  (∀ f : Fld, f.info ti = true → ∃ s ∈ sl, f.sel s = true)
    ∧ (ti.containsCombination = true → ∃ s ∈ sl, mixedLocks s = true)

theorem sound_node (k : Nat) (subs : List CPolicy) (ti : CPolicy → TimelockInfo)
    (S : CPolicy → List (List Atom)) (ih : ∀ c ∈ subs, SoundAt (ti c) (S c)) :
    SoundAt (TimelockInfo.combineThreshold k (subs.map ti)) (chooseK (subs.map S) k) := by
  intro s hs
  constructor
  · intro f hf
    obtain ⟨al, hal, s', hs', h'⟩ := chooseK_field_sound f.additive _ _ _ hs hf
    obtain ⟨c, hc, rfl⟩ := List.mem_map.mp hal
    rw [Fld.info_combineThreshold, List.any_eq_true]
    exact ⟨_, List.mem_map.mpr ⟨c, hc, rfl⟩, (ih c hc s' hs').1 f h'⟩
  · intro hm
    rw [combineThreshold_comb]
    rcases chooseK_comb_sound _ _ _ hs hm with ⟨al, hal, s', hs', h'⟩ | ⟨hk, hp⟩
    · obtain ⟨c, hc, rfl⟩ := List.mem_map.mp hal
      exact Or.inl ⟨_, List.mem_map.mpr ⟨c, hc, rfl⟩, (ih c hc s' hs').2 h'⟩
    · refine Or.inr ⟨hk, pairEx_map_imp S ti subs ?_ hp⟩
      intro x hx y hy ⟨s1, hs1, s2, hs2, hc⟩
      obtain ⟨p, hp, h1, h2⟩ := (conf_iff _ _).mp hc
      rw [Fld.info_selInfo] at h1 h2
      exact (conf_iff _ _).mpr ⟨p, hp, (ih x hx s1 hs1).1 _ h1, (ih y hy s2 hs2).1 _ h2⟩

theorem complete_node (k : Nat) (subs : List CPolicy) (ti : CPolicy → TimelockInfo)
    (S : CPolicy → List (List Atom)) (hne : ∀ c ∈ subs, S c ≠ [])
    (ih : ∀ c ∈ subs, CompleteAt (ti c) (S c))
    (hk : (1 ≤ k ∧ k ≤ subs.length) ∨ (k = 0 ∧ subs = [])) :
    CompleteAt (TimelockInfo.combineThreshold k (subs.map ti)) (chooseK (subs.map S) k) := by
  rcases hk with ⟨hk1, hkn⟩ | ⟨rfl, rfl⟩
  · have hne' : ∀ al ∈ subs.map S, al ≠ [] := by
      intro al hal
      obtain ⟨c, hc, rfl⟩ := List.mem_map.mp hal
      exact hne c hc
    have hkn' : k ≤ (subs.map S).length := by simpa using hkn
    refine ⟨?_, ?_⟩
    · intro f hf
      rw [Fld.info_combineThreshold, List.any_eq_true] at hf
      obtain ⟨t, ht, hft⟩ := hf
      obtain ⟨c, hc, rfl⟩ := List.mem_map.mp ht
      obtain ⟨s', hs', h'⟩ := (ih c hc).1 f hft
      exact chooseK_field_complete f.additive.mono _ k hne' hk1 hkn'
        ⟨_, List.mem_map.mpr ⟨c, hc, rfl⟩, s', hs', h'⟩
    · intro hcomb
      rcases (combineThreshold_comb _ _).mp hcomb with ⟨t, ht, hct⟩ | ⟨hk2, hp⟩
      · obtain ⟨c, hc, rfl⟩ := List.mem_map.mp ht
        obtain ⟨s', hs', h'⟩ := (ih c hc).2 hct
        exact chooseK_field_complete mono_mixed _ k hne' hk1 hkn'
          ⟨_, List.mem_map.mpr ⟨c, hc, rfl⟩, s', hs', h'⟩
      · apply chooseK_comb_complete _ k hne' hkn' hk2
        refine pairEx_map_imp ti S subs ?_ hp
        intro x hx y hy hc
        obtain ⟨p, hp, h1, h2⟩ := (conf_iff _ _).mp hc
        obtain ⟨s1, hs1, h1'⟩ := (ih x hx).1 _ h1
        obtain ⟨s2, hs2, h2'⟩ := (ih y hy).1 _ h2
        exact ⟨s1, hs1, s2, hs2, (conf_iff _ _).mpr ⟨p, hp,
          by rw [Fld.info_selInfo]; exact h1', by rw [Fld.info_selInfo]; exact h2'⟩⟩
  · refine ⟨?_, ?_⟩
    · intro f hf
      cases f <;> simp [TimelockInfo.combineThreshold, Fld.info] at hf
    · intro h
      simp [TimelockInfo.combineThreshold] at h

/-- the satisfiable children -/
def satSubs (subs : List CPolicy) : List CPolicy :=
  subs.filter (fun c => (timelockInfo c).isSome)

def infoD (c : CPolicy) : TimelockInfo := (timelockInfo c).getD {}

theorem filterMap_infos (subs : List CPolicy) :
    (subs.map timelockInfo).filterMap id = (satSubs subs).map infoD := by
  induction subs with
  | nil => rfl
  | cons c cs ih =>
    cases h : timelockInfo c <;>
      simp [satSubs, List.filter_cons, h, infoD] at ih ⊢ <;> exact ih

theorem filter_sels (subs : List CPolicy)
    (hA : ∀ c ∈ subs, timelockInfo c = none ↔ selsC false c = []) :
    (subs.map (selsC false)).filter (fun al => !al.isEmpty) = (satSubs subs).map (selsC false) := by
  induction subs with
  | nil => rfl
  | cons c cs ih =>
    have ih' := ih (fun c' hc' => hA c' (by simp [hc']))
    have hc := hA c (by simp)
    cases h : timelockInfo c with
    | none =>
      have : selsC false c = [] := hc.mp h
      simp [satSubs, List.filter_cons, h, this] at ih' ⊢
      exact ih'
    | some x =>
      have : selsC false c ≠ [] := fun hh => by rw [hc.mpr hh] at h; simp at h
      have hne : (selsC false c).isEmpty = false := by
        cases hs : selsC false c with
        | nil => exact absurd hs this
        | cons _ _ => rfl
      simp [satSubs, List.filter_cons, h, hne] at ih' ⊢
      exact ih'

/-- the three facts about one policy: no info ⇔ no selection; the info is sound; and (for
`k ≥ 1` thresholds) complete -/
def Claim (c : CPolicy) : Prop :=
  (timelockInfo c = none ↔ selsC false c = [])
  ∧ (∀ info, timelockInfo c = some info → SoundAt info (selsC false c))
  ∧ (threshKPos c = true → ∀ info, timelockInfo c = some info → CompleteAt info (selsC false c))

theorem claim_node (k : Nat) (subs : List CPolicy) (ih : ∀ c ∈ subs, Claim c) :
    (combineOpt k (subs.map timelockInfo) = none ↔ chooseK (subs.map (selsC false)) k = [])
    ∧ (∀ info, combineOpt k (subs.map timelockInfo) = some info →
        SoundAt info (chooseK (subs.map (selsC false)) k))
    ∧ ((∀ c ∈ subs, threshKPos c = true) → (1 ≤ k ∨ (k = 0 ∧ subs = [])) →
        ∀ info, combineOpt k (subs.map timelockInfo) = some info →
          CompleteAt info (chooseK (subs.map (selsC false)) k)) := by
  have hA : ∀ c ∈ subs, timelockInfo c = none ↔ selsC false c = [] := fun c hc => (ih c hc).1
  have hsel : chooseK (subs.map (selsC false)) k = chooseK ((satSubs subs).map (selsC false)) k := by
    rw [chooseK_filter, filter_sels subs hA]
  have hmem : ∀ c ∈ satSubs subs, c ∈ subs ∧ timelockInfo c = some (infoD c) := by
    intro c hc
    simp only [satSubs, List.mem_filter] at hc
    refine ⟨hc.1, ?_⟩
    cases h : timelockInfo c with
    | none => rw [h] at hc; simp at hc
    | some x => simp [infoD, h]
  have hne : ∀ c ∈ satSubs subs, selsC false c ≠ [] := by
    intro c hc hh
    obtain ⟨hc1, hc2⟩ := hmem c hc
    rw [(hA c hc1).mpr hh] at hc2; simp at hc2
  rw [hsel]
  unfold combineOpt
  simp only [filterMap_infos, List.length_map]
  by_cases hlen : (satSubs subs).length < k
  · simp only [hlen, if_true, true_iff]
    refine ⟨chooseK_short _ _ (by simpa using hlen), by simp, by simp⟩
  · simp only [hlen, if_false, Option.some.injEq]
    have hkn : k ≤ (satSubs subs).length := by omega
    refine ⟨?_, ?_, ?_⟩
    · simp only [reduceCtorEq, false_iff]
      obtain ⟨s, hs⟩ := chooseK_nonempty ((satSubs subs).map (selsC false)) k
        (by intro al hal; obtain ⟨c, hc, rfl⟩ := List.mem_map.mp hal; exact hne c hc)
        (by simpa using hkn)
      exact List.ne_nil_of_mem hs
    · intro info hinfo
      subst hinfo
      exact sound_node k _ infoD (selsC false)
        (fun c hc => (ih c (hmem c hc).1).2.1 _ (hmem c hc).2)
    · intro hkp hk info hinfo
      subst hinfo
      refine complete_node k _ infoD (selsC false) hne
        (fun c hc => (ih c (hmem c hc).1).2.2 (hkp c (hmem c hc).1) _ (hmem c hc).2) ?_
      rcases hk with hk | ⟨rfl, rfl⟩
      · exact Or.inl ⟨hk, hkn⟩
      · exact Or.inr ⟨rfl, rfl⟩

theorem claim_all : ∀ c, Claim c := by
  intro c
  induction c using CPolicy.induct' with
  | unsat =>
    refine ⟨by simp [timelockInfo, selsC], ?_, ?_⟩
    · intro info h; simp [timelockInfo] at h
    · intro _ info h; simp [timelockInfo] at h
  | trivial =>
    refine ⟨by simp [timelockInfo, selsC], ?_, ?_⟩
    · intro info h s hs
      simp [timelockInfo] at h; subst h
      simp [selsC] at hs; subst hs
      exact ⟨by intro f; cases f <;> simp [Fld.sel], by simp [mixedLocks]⟩
    · intro _ info h
      simp [timelockInfo] at h; subst h
      exact ⟨by intro f hf; cases f <;> simp [Fld.info] at hf, by simp⟩
  | atom a =>
    refine ⟨by cases a <;> simp [timelockInfo, selsC], ?_, ?_⟩
    · intro info h s hs
      simp [selsC] at hs; subst hs
      refine ⟨?_, by simp [mixed_single]⟩
      intro f
      cases a <;> simp [timelockInfo] at h <;> subst h <;> cases f <;>
        simp [Fld.sel, Fld.info, Atom.isOlderHeight, Atom.isOlderTime,
          Atom.isAfterHeight, Atom.isAfterTime]
    · intro _ info h
      refine ⟨?_, ?_⟩
      · intro f hf
        refine ⟨[a], by simp [selsC], ?_⟩
        cases a <;> simp [timelockInfo] at h <;> subst h <;> cases f <;>
          simp_all [Fld.sel, Fld.info, Atom.isOlderHeight, Atom.isOlderTime,
            Atom.isAfterHeight, Atom.isAfterTime]
      · intro hc
        cases a <;> simp [timelockInfo] at h <;> subst h <;> simp at hc
  | and subs ih =>
    have := claim_node subs.length subs ih
    rw [Claim, timelockInfo, timelockInfoList_eq, selsC, selsCList_eq]
    refine ⟨this.1, this.2.1, ?_⟩
    intro hkp
    simp only [threshKPos, threshKPos_go_iff] at hkp
    apply this.2.2 hkp
    cases subs with
    | nil => exact Or.inr ⟨rfl, rfl⟩
    | cons _ _ => exact Or.inl (by simp)
  | or subs ih =>
    have := claim_node 1 subs ih
    rw [Claim, timelockInfo, timelockInfoList_eq, selsC, selsCList_eq]
    refine ⟨this.1, this.2.1, ?_⟩
    intro hkp
    simp only [threshKPos, threshKPos_go_iff] at hkp
    exact this.2.2 hkp (Or.inl (Nat.le_refl _))
  | thresh k subs ih =>
    have := claim_node k subs ih
    rw [Claim, timelockInfo, timelockInfoList_eq, selsC, selsCList_eq]
    refine ⟨this.1, this.2.1, ?_⟩
    intro hkp
    simp only [threshKPos, Bool.and_eq_true, decide_eq_true_eq, threshKPos_go_iff] at hkp
    exact this.2.2 hkp.2 (Or.inl hkp.1)

/-- sound, every policy -/
theorem checkTimelocks_sound (c : CPolicy) (h : hasMixedPath c = true) :
    checkTimelocks c = false := by
  obtain ⟨s, hs, hm⟩ := List.any_eq_true.mp h
  obtain ⟨hA, hS, _⟩ := claim_all c
  cases hi : timelockInfo c with
  | none => rw [hA.mp hi] at hs; simp at hs
  | some info =>
    have := (hS info hi s hs).2 hm
    simp [checkTimelocks, TimelockInfo.accepts, hi, this]

/-- exact, every policy whose thresholds have `k ≥ 1` -/
theorem checkTimelocks_exact (c : CPolicy) (hk : threshKPos c = true) :
    checkTimelocks c = false ↔ hasMixedPath c = true := by
  refine ⟨?_, checkTimelocks_sound c⟩
  intro h
  obtain ⟨_, _, hC⟩ := claim_all c
  cases hi : timelockInfo c with
  | none => simp [checkTimelocks, TimelockInfo.accepts, hi] at h
  | some info =>
    have hc : info.containsCombination = true := by simpa [checkTimelocks, TimelockInfo.accepts, hi] using h
    obtain ⟨s, hs, hm⟩ := (hC hk info hi).2 hc
    exact List.any_eq_true.mpr ⟨s, hs, hm⟩

theorem WFC_threshKPos : ∀ c, WFC c = true → threshKPos c = true := by
  intro c
  induction c using CPolicy.induct' with
  | unsat => intro _; rfl
  | trivial => intro _; rfl
  | atom a => intro _; rfl
  | and subs ih =>
    intro h
    simp only [WFC, WFC_go_iff] at h
    simp only [threshKPos, threshKPos_go_iff]
    exact fun c hc => ih c hc (h c hc)
  | or subs ih =>
    intro h
    simp only [WFC, Bool.and_eq_true, WFC_go_iff] at h
    simp only [threshKPos, threshKPos_go_iff]
    exact fun c hc => ih c hc (h.2 c hc)
  | thresh k subs ih =>
    intro h
    simp only [WFC, Bool.and_eq_true, decide_eq_true_eq, WFC_go_iff] at h
    simp only [threshKPos, Bool.and_eq_true, decide_eq_true_eq, threshKPos_go_iff]
    exact ⟨h.1.1, fun c hc => ih c hc (h.2 c hc)⟩

end MsVerif.Pol

/-
`check_timelocks` / `TimelockInfo`: the fold of `combine_threshold` against the selections.
-/
import MsVerif.Lemmas.PolicyBasic

set_option linter.unusedSimpArgs false
namespace MsVerif.Pol
open Conc

/-! ## the fold -/

/-- two members at different positions are related -/
def PairEx {α} (R : α → α → Prop) : List α → Prop
  | [] => False
  | x :: xs => (∃ y ∈ xs, R x y) ∨ PairEx R xs

def conf (a b : TimelockInfo) : Bool :=
  (a.csvWithHeight && b.csvWithTime) || (a.csvWithTime && b.csvWithHeight)
    || (a.cltvWithTime && b.cltvWithHeight) || (a.cltvWithHeight && b.cltvWithTime)

theorem foldl_step_field (k : Nat) (g : TimelockInfo → Bool)
    (hg : ∀ acc t, g (TimelockInfo.step k acc t) = (g acc || g t)) (acc : TimelockInfo)
    (ts : List TimelockInfo) : g (ts.foldl (TimelockInfo.step k) acc) = (g acc || ts.any g) := by
  induction ts generalizing acc with
  | nil => simp
  | cons t ts ih => rw [List.foldl_cons, ih, hg, List.any_cons, Bool.or_assoc]

theorem step_comb (k : Nat) (acc t : TimelockInfo) :
    (TimelockInfo.step k acc t).containsCombination = true ↔
      acc.containsCombination = true ∨ (1 < k ∧ conf acc t = true) ∨ t.containsCombination = true := by
  by_cases hk : 1 < k <;> simp [TimelockInfo.step, conf, hk] <;> grind

theorem conf_step (k : Nat) (acc t x : TimelockInfo) :
    conf (TimelockInfo.step k acc t) x = true ↔ (conf acc x = true ∨ conf t x = true) := by
  simp only [conf, TimelockInfo.step, Bool.or_eq_true, Bool.and_eq_true]
  grind

theorem foldl_step_comb (k : Nat) (acc : TimelockInfo) (ts : List TimelockInfo) :
    (ts.foldl (TimelockInfo.step k) acc).containsCombination = true ↔
      acc.containsCombination = true ∨ (∃ t ∈ ts, t.containsCombination = true)
      ∨ (1 < k ∧ ((∃ t ∈ ts, conf acc t = true) ∨ PairEx (fun a b => conf a b = true) ts)) := by
  induction ts generalizing acc with
  | nil => simp [PairEx]
  | cons t ts ih =>
    rw [List.foldl_cons, ih, step_comb]
    simp only [conf_step, List.mem_cons, exists_eq_or_imp, PairEx]
    grind


theorem combineThreshold_field (k : Nat) (g : TimelockInfo → Bool)
    (hg : ∀ acc t, g (TimelockInfo.step k acc t) = (g acc || g t)) (hd : g {} = false)
    (ts : List TimelockInfo) : g (TimelockInfo.combineThreshold k ts) = ts.any g := by
  rw [TimelockInfo.combineThreshold, foldl_step_field k g hg, hd, Bool.false_or]

theorem combineThreshold_comb (k : Nat) (ts : List TimelockInfo) :
    (TimelockInfo.combineThreshold k ts).containsCombination = true ↔
      (∃ t ∈ ts, t.containsCombination = true)
      ∨ (1 < k ∧ PairEx (fun a b => conf a b = true) ts) := by
  rw [TimelockInfo.combineThreshold, foldl_step_comb]
  have : ∀ t, conf {} t = false := by intro t; simp [conf]
  simp [this]

/-! ## selections -/

/-- which kinds of lock a selection contains -/
def selInfo (s : List Atom) : TimelockInfo :=
  { csvWithHeight := s.any Atom.isOlderHeight
    csvWithTime := s.any Atom.isOlderTime
    cltvWithHeight := s.any Atom.isAfterHeight
    cltvWithTime := s.any Atom.isAfterTime
    containsCombination := mixedLocks s }

theorem mixed_append (a r : List Atom) :
    mixedLocks (a ++ r) = true ↔
      mixedLocks a = true ∨ mixedLocks r = true ∨ conf (selInfo a) (selInfo r) = true := by
  simp only [mixedLocks, conf, selInfo, List.any_append, Bool.or_eq_true, Bool.and_eq_true]
  grind

theorem mem_chooseK_zero (alts : List (List (List Atom))) (s : List Atom) :
    s ∈ chooseK alts 0 ↔ s = [] := by
  cases alts <;> simp [chooseK]

theorem mem_chooseK_cons (al : List (List Atom)) (rest : List (List (List Atom))) (k : Nat)
    (s : List Atom) :
    s ∈ chooseK (al :: rest) (k + 1) ↔
      s ∈ chooseK rest (k + 1) ∨ ∃ a ∈ al, ∃ r ∈ chooseK rest k, s = a ++ r := by
  simp only [chooseK, List.mem_append, List.mem_flatMap, List.mem_map]
  grind

/-- a lock-kind test of a selection: additive over concatenation -/
structure Additive (g : List Atom → Bool) : Prop where
  nil : g [] = false
  append : ∀ a r, g (a ++ r) = (g a || g r)

theorem additive_any (f : Atom → Bool) : Additive (fun s => s.any f) :=
  ⟨by simp, by intro a r; simp [List.any_append]⟩

theorem chooseK_field_sound {g : List Atom → Bool} (hg : Additive g) :
    ∀ (alts : List (List (List Atom))) (k : Nat) (s : List Atom), s ∈ chooseK alts k → g s = true →
      ∃ al ∈ alts, ∃ s' ∈ al, g s' = true := by
  intro alts
  induction alts with
  | nil =>
    intro k s hs hgs
    cases k with
    | zero => rw [mem_chooseK_zero] at hs; subst hs; rw [hg.nil] at hgs; simp at hgs
    | succ k => simp [chooseK] at hs
  | cons al rest ih =>
    intro k s hs hgs
    cases k with
    | zero => rw [mem_chooseK_zero] at hs; subst hs; rw [hg.nil] at hgs; simp at hgs
    | succ k =>
      rcases (mem_chooseK_cons al rest k s).mp hs with h | ⟨a, ha, r, hr, rfl⟩
      · obtain ⟨al', hal', s', hs', h'⟩ := ih _ _ h hgs
        exact ⟨al', by simp [hal'], s', hs', h'⟩
      · rw [hg.append, Bool.or_eq_true] at hgs
        rcases hgs with h | h
        · exact ⟨al, by simp, a, ha, h⟩
        · obtain ⟨al', hal', s', hs', h'⟩ := ih _ _ hr h
          exact ⟨al', by simp [hal'], s', hs', h'⟩

theorem chooseK_nonempty :
    ∀ (alts : List (List (List Atom))) (k : Nat), (∀ al ∈ alts, al ≠ []) → k ≤ alts.length →
      ∃ s, s ∈ chooseK alts k := by
  intro alts
  induction alts with
  | nil =>
    intro k _ hk
    have : k = 0 := by simpa using hk
    subst this; exact ⟨[], by simp [chooseK]⟩
  | cons al rest ih =>
    intro k hne hk
    cases k with
    | zero => exact ⟨[], by simp [chooseK]⟩
    | succ k =>
      obtain ⟨r, hr⟩ := ih k (fun al' h => hne al' (by simp [h])) (by simpa using hk)
      obtain ⟨a, ha⟩ := List.exists_mem_of_ne_nil al (hne al (by simp))
      exact ⟨a ++ r, (mem_chooseK_cons al rest k _).mpr (Or.inr ⟨a, ha, r, hr, rfl⟩)⟩

/-- monotone under concatenation -/
structure Mono (g : List Atom → Bool) : Prop where
  left : ∀ a r, g a = true → g (a ++ r) = true
  right : ∀ a r, g r = true → g (a ++ r) = true

theorem Additive.mono {g : List Atom → Bool} (hg : Additive g) : Mono g :=
  ⟨by intro a r h; rw [hg.append, h]; rfl, by intro a r h; rw [hg.append, h]; simp⟩

theorem mono_mixed : Mono mixedLocks :=
  ⟨by intro a r h; exact (mixed_append a r).mpr (Or.inl h),
   by intro a r h; exact (mixed_append a r).mpr (Or.inr (Or.inl h))⟩

theorem chooseK_field_complete {g : List Atom → Bool} (hg : Mono g) :
    ∀ (alts : List (List (List Atom))) (k : Nat), (∀ al ∈ alts, al ≠ []) → 1 ≤ k → k ≤ alts.length →
      (∃ al ∈ alts, ∃ s' ∈ al, g s' = true) → ∃ s ∈ chooseK alts k, g s = true := by
  intro alts
  induction alts with
  | nil => intro k _ _ _ h; simp at h
  | cons al rest ih =>
    intro k hne hk1 hkn ⟨al', hal', s', hs', hgs'⟩
    cases k with
    | zero => omega
    | succ k =>
      have hne' : ∀ al ∈ rest, al ≠ [] := fun al' h => hne al' (by simp [h])
      have hkn' : k ≤ rest.length := by simpa using hkn
      rcases List.mem_cons.mp hal' with h | h
      · -- the witness is in the head: take it, fill up arbitrarily
        subst h
        obtain ⟨r, hr⟩ := chooseK_nonempty rest k hne' hkn'
        exact ⟨s' ++ r, (mem_chooseK_cons _ rest k _).mpr (Or.inr ⟨s', hs', r, hr, rfl⟩),
          hg.left _ _ hgs'⟩
      · by_cases hk : k + 1 ≤ rest.length
        · -- skip the head
          obtain ⟨s, hs, h'⟩ := ih (k + 1) hne' (by omega) hk ⟨al', h, s', hs', hgs'⟩
          exact ⟨s, (mem_chooseK_cons al rest k _).mpr (Or.inl hs), h'⟩
        · -- every member has to be taken
          have hk0 : 1 ≤ k := by
            cases rest with
            | nil => simp at h
            | cons _ _ => simp at hk hkn'; omega
          obtain ⟨r, hr, h'⟩ := ih k hne' hk0 hkn' ⟨al', h, s', hs', hgs'⟩
          obtain ⟨a, ha⟩ := List.exists_mem_of_ne_nil al (hne al (by simp))
          exact ⟨a ++ r, (mem_chooseK_cons al rest k _).mpr (Or.inr ⟨a, ha, r, hr, rfl⟩),
            hg.right _ _ h'⟩

/-! ## the four lock kinds, uniformly -/

inductive Fld | oH | oT | aH | aT
  deriving DecidableEq

def Fld.info : Fld → TimelockInfo → Bool
  | .oH, t => t.csvWithHeight
  | .oT, t => t.csvWithTime
  | .aH, t => t.cltvWithHeight
  | .aT, t => t.cltvWithTime

def Fld.sel : Fld → List Atom → Bool
  | .oH, s => s.any Atom.isOlderHeight
  | .oT, s => s.any Atom.isOlderTime
  | .aH, s => s.any Atom.isAfterHeight
  | .aT, s => s.any Atom.isAfterTime

theorem Fld.info_selInfo (f : Fld) (s : List Atom) : f.info (selInfo s) = f.sel s := by
  cases f <;> rfl

theorem Fld.additive (f : Fld) : Additive f.sel := by
  cases f <;> exact additive_any _

theorem Fld.info_step (f : Fld) (k : Nat) (acc t : TimelockInfo) :
    f.info (TimelockInfo.step k acc t) = (f.info acc || f.info t) := by
  cases f <;> rfl

theorem Fld.info_combineThreshold (f : Fld) (k : Nat) (ts : List TimelockInfo) :
    f.info (TimelockInfo.combineThreshold k ts) = ts.any f.info :=
  combineThreshold_field k f.info (f.info_step k) (by cases f <;> rfl) ts

/-- the conflicting pairs of lock kinds -/
def confPairs : List (Fld × Fld) := [(.oH, .oT), (.oT, .oH), (.aT, .aH), (.aH, .aT)]

theorem conf_iff (a b : TimelockInfo) :
    conf a b = true ↔ ∃ p ∈ confPairs, p.1.info a = true ∧ p.2.info b = true := by
  simp only [conf, confPairs, Fld.info, Bool.or_eq_true, Bool.and_eq_true, List.mem_cons,
    List.not_mem_nil, or_false, exists_eq_or_imp]
  grind

/-- two alternatives-lists contain conflicting selections -/
def RA (al1 al2 : List (List Atom)) : Prop :=
  ∃ s1 ∈ al1, ∃ s2 ∈ al2, conf (selInfo s1) (selInfo s2) = true

theorem pairEx_length {α} {R : α → α → Prop} : ∀ {l : List α}, PairEx R l → 2 ≤ l.length
  | [], h => by simp [PairEx] at h
  | [_], h => by simp [PairEx] at h
  | _ :: _ :: _, _ => by simp

theorem chooseK_comb_sound :
    ∀ (alts : List (List (List Atom))) (k : Nat) (s : List Atom), s ∈ chooseK alts k →
      mixedLocks s = true →
      (∃ al ∈ alts, ∃ s' ∈ al, mixedLocks s' = true) ∨ (1 < k ∧ PairEx RA alts) := by
  intro alts
  induction alts with
  | nil =>
    intro k s hs hm
    cases k with
    | zero => rw [mem_chooseK_zero] at hs; subst hs; simp [mixedLocks] at hm
    | succ k => simp [chooseK] at hs
  | cons al rest ih =>
    intro k s hs hm
    cases k with
    | zero => rw [mem_chooseK_zero] at hs; subst hs; simp [mixedLocks] at hm
    | succ k =>
      rcases (mem_chooseK_cons al rest k s).mp hs with h | ⟨a, ha, r, hr, rfl⟩
      · rcases ih _ _ h hm with ⟨al', hal', s', hs', h'⟩ | ⟨hk, hp⟩
        · exact Or.inl ⟨al', by simp [hal'], s', hs', h'⟩
        · exact Or.inr ⟨hk, Or.inr hp⟩
      · rcases (mixed_append a r).mp hm with h | h | h
        · exact Or.inl ⟨al, by simp, a, ha, h⟩
        · rcases ih _ _ hr h with ⟨al', hal', s', hs', h'⟩ | ⟨hk, hp⟩
          · exact Or.inl ⟨al', by simp [hal'], s', hs', h'⟩
          · exact Or.inr ⟨by omega, Or.inr hp⟩
        · -- the conflict is between the head's alternative and the rest
          obtain ⟨p, hp, h1, h2⟩ := (conf_iff _ _).mp h
          rw [Fld.info_selInfo] at h1 h2
          have hk : 1 ≤ k := by
            cases k with
            | zero =>
              rw [mem_chooseK_zero] at hr; subst hr
              rw [(Fld.additive p.2).nil] at h2; simp at h2
            | succ k => omega
          obtain ⟨al2, hal2, s2, hs2, h2'⟩ := chooseK_field_sound (Fld.additive p.2) _ _ _ hr h2
          refine Or.inr ⟨by omega, Or.inl ⟨al2, hal2, a, ha, s2, hs2, ?_⟩⟩
          exact (conf_iff _ _).mpr ⟨p, hp, by rw [Fld.info_selInfo]; exact h1,
            by rw [Fld.info_selInfo]; exact h2'⟩

theorem chooseK_comb_complete :
    ∀ (alts : List (List (List Atom))) (k : Nat), (∀ al ∈ alts, al ≠ []) → k ≤ alts.length →
      1 < k → PairEx RA alts → ∃ s ∈ chooseK alts k, mixedLocks s = true := by
  intro alts
  induction alts with
  | nil => intro k _ _ _ h; simp [PairEx] at h
  | cons al rest ih =>
    intro k hne hkn hk1 hp
    cases k with
    | zero => omega
    | succ k =>
      have hne' : ∀ al ∈ rest, al ≠ [] := fun al' h => hne al' (by simp [h])
      have hkn' : k ≤ rest.length := by simpa using hkn
      rcases hp with ⟨al2, hal2, s1, hs1, s2, hs2, hc⟩ | hp
      · obtain ⟨p, hp, h1, h2⟩ := (conf_iff _ _).mp hc
        rw [Fld.info_selInfo] at h2
        obtain ⟨r, hr, h2'⟩ := chooseK_field_complete (Fld.additive p.2).mono rest k hne'
          (by omega) hkn' ⟨al2, hal2, s2, hs2, h2⟩
        refine ⟨s1 ++ r, (mem_chooseK_cons al rest k _).mpr (Or.inr ⟨s1, hs1, r, hr, rfl⟩), ?_⟩
        refine (mixed_append _ _).mpr (Or.inr (Or.inr ?_))
        exact (conf_iff _ _).mpr ⟨p, hp, h1, by rw [Fld.info_selInfo]; exact h2'⟩
      · by_cases hk : k + 1 ≤ rest.length
        · obtain ⟨s, hs, h'⟩ := ih (k + 1) hne' hk hk1 hp
          exact ⟨s, (mem_chooseK_cons al rest k _).mpr (Or.inl hs), h'⟩
        · have := pairEx_length hp
          obtain ⟨r, hr, h'⟩ := ih k hne' hkn' (by omega) hp
          obtain ⟨a, ha⟩ := List.exists_mem_of_ne_nil al (hne al (by simp))
          exact ⟨a ++ r, (mem_chooseK_cons al rest k _).mpr (Or.inr ⟨a, ha, r, hr, rfl⟩),
            mono_mixed.right _ _ h'⟩

/-! ## concrete policies -/

theorem WFC_go_iff (l : List CPolicy) : WFC.go l = true ↔ ∀ c ∈ l, WFC c = true := by
  induction l with
  | nil => simp [WFC.go]
  | cons p ps ih => simp [WFC.go, ih]

theorem unsatFree_go_iff (l : List CPolicy) :
    unsatFree.go l = true ↔ ∀ c ∈ l, unsatFree c = true := by
  induction l with
  | nil => simp [unsatFree.go]
  | cons p ps ih => simp [unsatFree.go, ih]

theorem pairEx_map_imp {α β γ} {R : β → β → Prop} {R' : γ → γ → Prop} (f : α → β) (g : α → γ) :
    ∀ (l : List α), (∀ x ∈ l, ∀ y ∈ l, R (f x) (f y) → R' (g x) (g y)) →
      PairEx R (l.map f) → PairEx R' (l.map g)
  | [], _, h => by simp [PairEx] at h
  | x :: xs, hR, h => by
    simp only [List.map_cons, PairEx, List.mem_map] at h ⊢
    rcases h with ⟨_, ⟨y, hy, rfl⟩, hxy⟩ | h
    · exact Or.inl ⟨_, ⟨y, hy, rfl⟩, hR x (by simp) y (by simp [hy]) hxy⟩
    · exact Or.inr (pairEx_map_imp f g xs
        (fun a ha b hb => hR a (by simp [ha]) b (by simp [hb])) h)

/-- soundness at one child: the selection's locks are recorded in the info -/
def SoundAt (u : Bool) (c : CPolicy) : Prop :=
  ∀ s ∈ selsC u c, (∀ f : Fld, f.sel s = true → f.info (timelockInfo c) = true)
    ∧ (mixedLocks s = true → (timelockInfo c).containsCombination = true)

theorem sound_node (u : Bool) (k : Nat) (subs : List CPolicy)
    (ih : ∀ c ∈ subs, SoundAt u c) :
    ∀ s ∈ chooseK (subs.map (selsC u)) k,
      (∀ f : Fld, f.sel s = true →
        f.info (TimelockInfo.combineThreshold k (subs.map timelockInfo)) = true)
      ∧ (mixedLocks s = true →
        (TimelockInfo.combineThreshold k (subs.map timelockInfo)).containsCombination = true) := by
  intro s hs
  constructor
  · intro f hf
    obtain ⟨al, hal, s', hs', h'⟩ := chooseK_field_sound f.additive _ _ _ hs hf
    obtain ⟨c, hc, rfl⟩ := List.mem_map.mp hal
    rw [Fld.info_combineThreshold, List.any_eq_true]
    exact ⟨_, List.mem_map.mpr ⟨c, hc, rfl⟩, (ih c hc s' hs').1 f h'⟩
  · intro hm
    rw [combineThreshold_comb]
    rcases chooseK_comb_sound _ _ _ hs hm with ⟨al, hal, s', hs', h'⟩ | ⟨hk, hp⟩
    · obtain ⟨c, hc, rfl⟩ := List.mem_map.mp hal
      exact Or.inl ⟨_, List.mem_map.mpr ⟨c, hc, rfl⟩, (ih c hc s' hs').2 h'⟩
    · refine Or.inr ⟨hk, pairEx_map_imp (selsC u) timelockInfo subs ?_ hp⟩
      intro x hx y hy ⟨s1, hs1, s2, hs2, hc⟩
      obtain ⟨p, hp, h1, h2⟩ := (conf_iff _ _).mp hc
      rw [Fld.info_selInfo] at h1 h2
      exact (conf_iff _ _).mpr ⟨p, hp, (ih x hx s1 hs1).1 _ h1, (ih y hy s2 hs2).1 _ h2⟩

theorem mixed_single (a : Atom) : mixedLocks [a] = false := by
  cases a <;> simp [mixedLocks, Atom.isOlderHeight, Atom.isOlderTime, Atom.isAfterHeight,
    Atom.isAfterTime, relIsHeight, absIsTime, absIsHeight]

theorem timelockInfo_sound (u : Bool) : ∀ c, SoundAt u c := by
  intro c
  induction c using CPolicy.induct' with
  | unsat =>
    intro s hs
    cases u <;> simp [selsC] at hs
    subst hs
    exact ⟨by intro f; cases f <;> simp [Fld.sel], by simp [mixedLocks]⟩
  | trivial =>
    intro s hs
    simp [selsC] at hs
    subst hs
    exact ⟨by intro f; cases f <;> simp [Fld.sel], by simp [mixedLocks]⟩
  | atom a =>
    intro s hs
    simp [selsC] at hs
    subst hs
    refine ⟨?_, by simp [mixed_single]⟩
    intro f
    cases a <;> cases f <;>
      simp [Fld.sel, Fld.info, timelockInfo, Atom.isOlderHeight, Atom.isOlderTime,
        Atom.isAfterHeight, Atom.isAfterTime]
  | and subs ih =>
    intro s hs
    rw [selsC, selsCList_eq] at hs
    rw [timelockInfo, timelockInfoList_eq]
    exact sound_node u _ subs ih s hs
  | or subs ih =>
    intro s hs
    rw [selsC, selsCList_eq] at hs
    rw [timelockInfo, timelockInfoList_eq]
    exact sound_node u _ subs ih s hs
  | thresh k subs ih =>
    intro s hs
    rw [selsC, selsCList_eq] at hs
    rw [timelockInfo, timelockInfoList_eq]
    exact sound_node u _ subs ih s hs

/-- exactness at one child (structural selections) -/
def ExactAt (c : CPolicy) : Prop :=
  selsC true c ≠ []
    ∧ (∀ f : Fld, f.info (timelockInfo c) = true → ∃ s ∈ selsC true c, f.sel s = true)
    ∧ ((timelockInfo c).containsCombination = true → ∃ s ∈ selsC true c, mixedLocks s = true)

theorem exact_node (k : Nat) (subs : List CPolicy) (ih : ∀ c ∈ subs, ExactAt c)
    (hk : (1 ≤ k ∧ k ≤ subs.length) ∨ (k = 0 ∧ subs = [])) :
    chooseK (subs.map (selsC true)) k ≠ []
    ∧ (∀ f : Fld, f.info (TimelockInfo.combineThreshold k (subs.map timelockInfo)) = true →
        ∃ s ∈ chooseK (subs.map (selsC true)) k, f.sel s = true)
    ∧ ((TimelockInfo.combineThreshold k (subs.map timelockInfo)).containsCombination = true →
        ∃ s ∈ chooseK (subs.map (selsC true)) k, mixedLocks s = true) := by
  rcases hk with ⟨hk1, hkn⟩ | ⟨rfl, rfl⟩
  · have hne : ∀ al ∈ subs.map (selsC true), al ≠ [] := by
      intro al hal
      obtain ⟨c, hc, rfl⟩ := List.mem_map.mp hal
      exact (ih c hc).1
    have hkn' : k ≤ (subs.map (selsC true)).length := by simpa using hkn
    refine ⟨?_, ?_, ?_⟩
    · obtain ⟨s, hs⟩ := chooseK_nonempty _ k hne hkn'
      exact List.ne_nil_of_mem hs
    · intro f hf
      rw [Fld.info_combineThreshold, List.any_eq_true] at hf
      obtain ⟨t, ht, hft⟩ := hf
      obtain ⟨c, hc, rfl⟩ := List.mem_map.mp ht
      obtain ⟨s', hs', h'⟩ := (ih c hc).2.1 f hft
      exact chooseK_field_complete f.additive.mono _ k hne hk1 hkn'
        ⟨_, List.mem_map.mpr ⟨c, hc, rfl⟩, s', hs', h'⟩
    · intro hcomb
      rcases (combineThreshold_comb _ _).mp hcomb with ⟨t, ht, hct⟩ | ⟨hk2, hp⟩
      · obtain ⟨c, hc, rfl⟩ := List.mem_map.mp ht
        obtain ⟨s', hs', h'⟩ := (ih c hc).2.2 hct
        exact chooseK_field_complete mono_mixed _ k hne hk1 hkn'
          ⟨_, List.mem_map.mpr ⟨c, hc, rfl⟩, s', hs', h'⟩
      · apply chooseK_comb_complete _ k hne hkn' hk2
        refine pairEx_map_imp timelockInfo (selsC true) subs ?_ hp
        intro x hx y hy hc
        obtain ⟨p, hp, h1, h2⟩ := (conf_iff _ _).mp hc
        obtain ⟨s1, hs1, h1'⟩ := (ih x hx).2.1 _ h1
        obtain ⟨s2, hs2, h2'⟩ := (ih y hy).2.1 _ h2
        exact ⟨s1, hs1, s2, hs2, (conf_iff _ _).mpr ⟨p, hp,
          by rw [Fld.info_selInfo]; exact h1', by rw [Fld.info_selInfo]; exact h2'⟩⟩
  · refine ⟨by simp [chooseK], ?_, ?_⟩
    · intro f hf
      cases f <;> simp [TimelockInfo.combineThreshold, Fld.info] at hf
    · intro h
      simp [TimelockInfo.combineThreshold] at h

theorem timelockInfo_exact : ∀ c, WFC c = true → ExactAt c := by
  intro c
  induction c using CPolicy.induct' with
  | unsat =>
    intro _
    refine ⟨by simp [selsC], ?_, ?_⟩
    · intro f hf; cases f <;> simp [timelockInfo, Fld.info] at hf
    · intro h; simp [timelockInfo] at h
  | trivial =>
    intro _
    refine ⟨by simp [selsC], ?_, ?_⟩
    · intro f hf; cases f <;> simp [timelockInfo, Fld.info] at hf
    · intro h; simp [timelockInfo] at h
  | atom a =>
    intro _
    refine ⟨by simp [selsC], ?_, ?_⟩
    · intro f hf
      refine ⟨[a], by simp [selsC], ?_⟩
      cases a <;> cases f <;>
        simp_all [Fld.sel, Fld.info, timelockInfo, Atom.isOlderHeight, Atom.isOlderTime,
          Atom.isAfterHeight, Atom.isAfterTime]
    · intro h
      cases a <;> simp [timelockInfo] at h
  | and subs ih =>
    intro hwf
    simp only [WFC, WFC_go_iff] at hwf
    rw [ExactAt, selsC, selsCList_eq, timelockInfo, timelockInfoList_eq]
    apply exact_node _ subs (fun c hc => ih c hc (hwf c hc))
    cases subs with
    | nil => exact Or.inr ⟨rfl, rfl⟩
    | cons x xs => exact Or.inl ⟨by simp, Nat.le_refl _⟩
  | or subs ih =>
    intro hwf
    simp only [WFC, Bool.and_eq_true, decide_eq_true_eq, WFC_go_iff] at hwf
    rw [ExactAt, selsC, selsCList_eq, timelockInfo, timelockInfoList_eq]
    exact exact_node _ subs (fun c hc => ih c hc (hwf.2 c hc)) (Or.inl ⟨Nat.le_refl _, hwf.1⟩)
  | thresh k subs ih =>
    intro hwf
    simp only [WFC, Bool.and_eq_true, decide_eq_true_eq, WFC_go_iff] at hwf
    rw [ExactAt, selsC, selsCList_eq, timelockInfo, timelockInfoList_eq]
    exact exact_node _ subs (fun c hc => ih c hc (hwf.2 c hc)) (Or.inl hwf.1)

theorem selsC_unsatFree : ∀ c, unsatFree c = true → selsC false c = selsC true c := by
  intro c
  induction c using CPolicy.induct' with
  | unsat => intro h; simp [unsatFree] at h
  | trivial => intro _; rfl
  | atom a => intro _; rfl
  | and subs ih =>
    intro h
    simp only [unsatFree, unsatFree_go_iff] at h
    rw [selsC, selsC, selsCList_eq, selsCList_eq]
    congr 1
    exact List.map_congr_left (fun c hc => ih c hc (h c hc))
  | or subs ih =>
    intro h
    simp only [unsatFree, unsatFree_go_iff] at h
    rw [selsC, selsC, selsCList_eq, selsCList_eq]
    congr 1
    exact List.map_congr_left (fun c hc => ih c hc (h c hc))
  | thresh k subs ih =>
    intro h
    simp only [unsatFree, unsatFree_go_iff] at h
    rw [selsC, selsC, selsCList_eq, selsCList_eq]
    congr 1
    exact List.map_congr_left (fun c hc => ih c hc (h c hc))

end MsVerif.Pol

/-
Helper lemmas for C07's execution-level theorems (`Thm/C07.lean`, `lift_exact_forward`):

  A. the locks a (dis)satisfaction REPORTS come from lock fragments the asset provider accepted
     (`check_after` / `check_older` answered true): an invariant of the tracked satisfier
     `tSatDissat` of Lemmas/PlanLocks.lean (C17), whose lists `A` / `R` are only ever
     appended / selected / dropped;
  B. the assets a world offers (`assetsOfWorld`): one transaction ⇒ no mixed lock units.
-/
import MsVerif.Lemmas.PlanLocks
import MsVerif.Lemmas.CompleteFixed
import MsVerif.Spec.MsSem

namespace MsVerif.LiftExec
open MsVerif MsVerif.Sat MsVerif.PlanLocks

/-! ## A. reported locks were accepted by the asset provider -/

/-- every tracked `after` value satisfies `P`, every tracked `older` value `Q` -/
def Src (P Q : Nat → Prop) (t : TSat) : Prop := (∀ n ∈ t.A, P n) ∧ (∀ n ∈ t.R, Q n)

variable {P Q : Nat → Prop}

theorem src_nil (s : Sat) : Src P Q ⟨s, [], []⟩ := ⟨by simp, by simp⟩

theorem src_lockFree (s : Sat) : Src P Q (lockFree s) := src_nil s

theorem src_concat (a b : TSat) (ha : Src P Q a) (hb : Src P Q b) :
    Src P Q (tConcatenateRev a b) := by
  unfold tConcatenateRev
  simp only
  split
  · exact src_nil _
  · constructor
    · intro n hn
      rcases List.mem_append.mp hn with h | h
      · exact hb.1 n h
      · exact ha.1 n h
    · intro n hn
      rcases List.mem_append.mp hn with h | h
      · exact hb.2 n h
      · exact ha.2 n h

theorem src_minimum (a b : TSat) (ha : Src P Q a) (hb : Src P Q b) : Src P Q (tMinimum a b) := by
  unfold tMinimum
  simp only
  split
  · exact hb
  · split
    · exact ha
    · split
      · exact src_nil _
      · exact ha
      · exact hb
      · split
        · exact ha
        · exact hb

theorem src_minimumMall (a b : TSat) (ha : Src P Q a) (hb : Src P Q b) :
    Src P Q (tMinimumMall a b) := by
  unfold tMinimumMall
  simp only
  split
  · exact hb
  · split
    · exact ha
    · split
      · exact ha
      · exact hb

theorem src_minFn (c : SatCfg) (a b : TSat) (ha : Src P Q a) (hb : Src P Q b) :
    Src P Q (tMinFn c a b) := by
  unfold tMinFn
  cases c.mall
  · exact src_minimum a b ha hb
  · exact src_minimumMall a b ha hb

theorem src_push (p : Ph) (t : TSat) (h : Src P Q t) : Src P Q (tPush p t) := h

theorem src_foldl (l : List TSat) : ∀ (acc : TSat), Src P Q acc → (∀ t ∈ l, Src P Q t) →
    Src P Q (l.foldl tConcatenateRev acc) := by
  induction l with
  | nil => intro acc h _; exact h
  | cons x xs ih =>
    intro acc hacc hl
    simp only [List.foldl_cons]
    exact ih _ (src_concat _ _ hacc (hl x (by simp))) (fun t ht => hl t (by simp [ht]))

theorem src_foldConcat (l : List TSat) (hl : ∀ t ∈ l, Src P Q t) : Src P Q (tFoldConcat l) :=
  src_foldl l _ (src_nil _) hl

theorem src_getElem! (l : List TSat) (hl : ∀ t ∈ l, Src P Q t) (i : Nat) : Src P Q (l[i]!) := by
  simp only [List.getElem!_eq_getElem?_getD]
  cases h : l[i]? with
  | none => exact src_nil _
  | some t => exact hl t (List.mem_of_getElem? h)

theorem src_threshCand (c : SatCfg) (k : Nat) (td ts : List TSat)
    (hd : ∀ t ∈ td, Src P Q t) (hs : ∀ t ∈ ts, Src P Q t) : Src P Q (tThreshCand c k td ts) := by
  unfold tThreshCand
  split
  · exact src_foldConcat ts hs
  · apply src_foldConcat
    intro t ht
    simp only [List.mem_map, List.mem_range] at ht
    obtain ⟨i, _, rfl⟩ := ht
    split
    · exact src_getElem! ts hs i
    · exact src_getElem! td hd i

theorem src_threshSat (c : SatCfg) (k : Nat) (td ts : List TSat)
    (hd : ∀ t ∈ td, Src P Q t) (hs : ∀ t ∈ ts, Src P Q t) : Src P Q (tThreshSat c k td ts) := by
  unfold tThreshSat
  simp only
  split
  · exact src_threshCand c k td ts hd hs
  · exact src_nil _

mutual
theorem tSatDissat_src (c : SatCfg) : (ms : Ms) →
    Src (fun n => c.assets.checkAfter n = true) (fun n => c.assets.checkOlder (relCanon n) = true)
        (tSatDissat c ms).dissat ∧
    Src (fun n => c.assets.checkAfter n = true) (fun n => c.assets.checkOlder (relCanon n) = true)
        (tSatDissat c ms).sat
  | .after n => by
    simp only [tSatDissat]
    refine ⟨src_lockFree _, ?_, by simp⟩
    intro m hm
    by_cases h : c.assets.checkAfter n = true
    · simp only [h, if_true, List.mem_singleton] at hm; subst hm; exact h
    · simp [h] at hm
  | .older n => by
    simp only [tSatDissat]
    refine ⟨src_lockFree _, by simp, ?_⟩
    intro m hm
    by_cases h : c.assets.checkOlder (relCanon n) = true
    · simp only [h, if_true, List.mem_singleton] at hm; subst hm; exact h
    · simp [h] at hm
  | .alt x => by simpa [tSatDissat] using tSatDissat_src c x
  | .swap x => by simpa [tSatDissat] using tSatDissat_src c x
  | .check x => by simpa [tSatDissat] using tSatDissat_src c x
  | .zeroNotEqual x => by simpa [tSatDissat] using tSatDissat_src c x
  | .dupIf x => by
    have := tSatDissat_src c x
    simp only [tSatDissat]
    exact ⟨src_lockFree _, src_push _ _ this.2⟩
  | .verify x => by
    have := tSatDissat_src c x
    simp only [tSatDissat]
    exact ⟨src_lockFree _, this.2⟩
  | .nonZero x => by
    have := tSatDissat_src c x
    simp only [tSatDissat]
    exact ⟨src_lockFree _, this.2⟩
  | .andB l r => by
    have hl := tSatDissat_src c l; have hr := tSatDissat_src c r
    simp only [tSatDissat]
    exact ⟨src_concat _ _ hl.1 hr.1, src_concat _ _ hl.2 hr.2⟩
  | .andV l r => by
    have hl := tSatDissat_src c l; have hr := tSatDissat_src c r
    simp only [tSatDissat]
    exact ⟨src_concat _ _ hl.2 hr.1, src_concat _ _ hl.2 hr.2⟩
  | .andOr a b z => by
    have ha := tSatDissat_src c a; have hb := tSatDissat_src c b; have hz := tSatDissat_src c z
    simp only [tSatDissat]
    exact ⟨src_concat _ _ ha.1 hz.1,
      src_minFn c _ _ (src_concat _ _ ha.2 hb.2) (src_concat _ _ ha.1 hz.2)⟩
  | .orB l r => by
    have hl := tSatDissat_src c l; have hr := tSatDissat_src c r
    simp only [tSatDissat]
    exact ⟨src_concat _ _ hl.1 hr.1,
      src_minFn c _ _ (src_concat _ _ hl.1 hr.2) (src_concat _ _ hl.2 hr.1)⟩
  | .orC l r => by
    have hl := tSatDissat_src c l; have hr := tSatDissat_src c r
    simp only [tSatDissat]
    exact ⟨src_lockFree _, src_minFn c _ _ hl.2 (src_concat _ _ hl.1 hr.2)⟩
  | .orD l r => by
    have hl := tSatDissat_src c l; have hr := tSatDissat_src c r
    simp only [tSatDissat]
    exact ⟨src_concat _ _ hl.1 hr.1, src_minFn c _ _ hl.2 (src_concat _ _ hl.1 hr.2)⟩
  | .orI l r => by
    have hl := tSatDissat_src c l; have hr := tSatDissat_src c r
    simp only [tSatDissat]
    exact ⟨src_minFn c _ _ (src_push _ _ hl.1) (src_push _ _ hr.1),
      src_minFn c _ _ (src_push _ _ hl.2) (src_push _ _ hr.2)⟩
  | .thresh k xs => by
    have h := tSatDissats_src c xs
    simp only [tSatDissat]
    have hd : ∀ t ∈ (tSatDissats c xs).map (·.dissat),
        Src (fun n => c.assets.checkAfter n = true)
          (fun n => c.assets.checkOlder (relCanon n) = true) t := by
      intro t ht; simp only [List.mem_map] at ht; obtain ⟨sd, hsd, rfl⟩ := ht; exact (h sd hsd).1
    have hs : ∀ t ∈ (tSatDissats c xs).map (·.sat),
        Src (fun n => c.assets.checkAfter n = true)
          (fun n => c.assets.checkOlder (relCanon n) = true) t := by
      intro t ht; simp only [List.mem_map] at ht; obtain ⟨sd, hsd, rfl⟩ := ht; exact (h sd hsd).2
    exact ⟨src_foldConcat _ hd, src_threshSat c k _ _ hd hs⟩
  | .fls => by simp only [tSatDissat]; exact ⟨src_lockFree _, src_lockFree _⟩
  | .tru => by simp only [tSatDissat]; exact ⟨src_lockFree _, src_lockFree _⟩
  | .pkK k => by simp only [tSatDissat]; exact ⟨src_lockFree _, src_lockFree _⟩
  | .pkH k => by simp only [tSatDissat]; exact ⟨src_lockFree _, src_lockFree _⟩
  | .rawPkH h => by simp only [tSatDissat]; exact ⟨src_lockFree _, src_lockFree _⟩
  | .hash kd h => by simp only [tSatDissat]; exact ⟨src_lockFree _, src_lockFree _⟩
  | .multi k ks => by simp only [tSatDissat]; exact ⟨src_lockFree _, src_lockFree _⟩
  | .sortedMulti k ks => by simp only [tSatDissat]; exact ⟨src_lockFree _, src_lockFree _⟩
  | .multiA k ks => by simp only [tSatDissat]; exact ⟨src_lockFree _, src_lockFree _⟩
  | .sortedMultiA k ks => by simp only [tSatDissat]; exact ⟨src_lockFree _, src_lockFree _⟩
theorem tSatDissats_src (c : SatCfg) : (xs : MsList) →
    ∀ sd ∈ tSatDissats c xs,
      Src (fun n => c.assets.checkAfter n = true)
          (fun n => c.assets.checkOlder (relCanon n) = true) sd.dissat ∧
      Src (fun n => c.assets.checkAfter n = true)
          (fun n => c.assets.checkOlder (relCanon n) = true) sd.sat
  | .nil => by simp [tSatDissats]
  | .cons x xs => by
    intro sd hsd
    simp only [tSatDissats, List.mem_cons] at hsd
    rcases hsd with rfl | hsd
    · exact tSatDissat_src c x
    · exact tSatDissats_src c xs sd hsd
end

/-- the absolute lock a satisfaction reports was accepted by `check_after`, the relative one by
`check_older` -/
theorem reported_locks_accepted (c : SatCfg) (ms : Ms) :
    (∀ m, (satDissat c ms).sat.abs = some m → c.assets.checkAfter m = true) ∧
    (∀ m, (satDissat c ms).sat.rel = some m → c.assets.checkOlder (relCanon m) = true) := by
  have hs := (tSatDissat_s c ms).2
  have hi := (tSatDissat_inv c ms).2
  have hsrc := (tSatDissat_src c ms).2
  rw [← hs]
  constructor
  · intro m hm
    have h := hi.1
    simp only [hm, AbsInv] at h
    exact hsrc.1 m h.1
  · intro m hm
    have h := hi.2
    simp only [hm, RelInv] at h
    exact hsrc.2 m h.1

/-! ## B. the assets of a world -/

open MsVerif.Pol MsVerif.MsSem

/-- what a spender in world `W` hands to the satisfier: a signature (ECDSA, resp. a 64-byte
Schnorr one) for every key the world can sign for, the preimages it knows, lock answers from
the transaction's nLockTime / nSequence by the consensus rules; nothing for raw key hashes -/
def assetsOfWorld (W : World) : Assets where
  ecdsaSig := W.canSign
  schnorrSig k := if W.canSign k then some 64 else none
  rawPkhPk _ := none
  rawPkhEcdsa _ := none
  rawPkhSchnorr _ := none
  preimage kind h := W.preimage (polHash kind) h
  checkOlder n := csvOk W.nSequence n
  checkAfter n := cltvOk W.nLockTime n

theorem relIsTime_relCanon (n : Nat) : Pol.relIsTime (relCanon n) = Pol.relIsTime n := by
  unfold relCanon Pol.relIsTime Sat.relIsTime Sat.relVal
  by_cases h : n / 4194304 % 2 = 1
  · have h1 : (4194304 + n % 65536) / 4194304 % 2 = 1 := by omega
    simp only [h, beq_self_eq_true, if_true, h1]
  · have h0 : n / 4194304 % 2 = 0 := by omega
    have h1 : (0 + n % 65536) / 4194304 % 2 = 0 := by omega
    have hne : ((0 : Nat) == 1) = false := by decide
    simp only [h0, hne, Bool.false_eq_true, if_false, h1]

theorem relValue_relCanon (n : Nat) : Pol.relValue (relCanon n) = Pol.relValue n := by
  unfold relCanon Pol.relValue Sat.relIsTime Sat.relVal
  split <;> omega

/-- CHECKSEQUENCEVERIFY only looks at the type flag and the 16 value bits of its argument -/
theorem csvOk_relCanon (sq n : Nat) : csvOk sq (relCanon n) = csvOk sq n := by
  unfold csvOk
  rw [relIsTime_relCanon, relValue_relCanon]

/-- one transaction: the locks it satisfies have one unit per kind -/
theorem lockCompat_world (W : World) (s t : Ms) :
    Complete.lockCompat (assetsOfWorld W) s t = true := by
  cases s <;> cases t <;> simp only [Complete.lockCompat]
  · rename_i x y
    simp only [assetsOfWorld, cltvOk, Complete.absUnit, absIsHeight, LOCKTIME_THRESHOLD]
    by_cases hx : x < 500000000 <;> by_cases hy : y < 500000000 <;>
      by_cases hl : W.nLockTime < 500000000 <;> simp [hx, hy, hl]
  · rename_i x y
    simp only [assetsOfWorld, csvOk_relCanon]
    simp only [csvOk]
    have e : ∀ n, Sat.relIsTime n = Pol.relIsTime n := fun n => rfl
    rw [e x, e y]
    cases Pol.relIsTime x <;> cases Pol.relIsTime y <;> cases Pol.relIsTime W.nSequence <;> simp

/-- the policy semantics' BIP112 rule implies the Script semantics' CHECKSEQUENCEVERIFY -/
theorem checkSequence_of_csvOk (env : Script.Env) (n : Nat) (hv : env.txVersion ≥ 2)
    (h : csvOk env.nSequence n = true) : Script.checkSequence env n = true := by
  simp only [csvOk, seqDisabled, Pol.relIsTime, relValue, Bool.and_eq_true, Bool.not_eq_true',
    decide_eq_false_iff_not, Nat.not_le, beq_iff_eq, decide_eq_true_eq, Bool.not_not] at h
  obtain ⟨⟨hdis, hty⟩, hval⟩ := h
  have hty' : (n / 4194304 % 2 = 1) ↔ (env.nSequence / 4194304 % 2 = 1) := by
    rw [Bool.eq_iff_iff] at hty
    simpa using hty
  have hm : ∀ x, Script.seqMasked x = x / 4194304 % 2 * 4194304 + x % 65536 := fun x => rfl
  have hval' : n % 65536 ≤ env.nSequence % 65536 := of_decide_eq_true hval
  have ha2 : n / 4194304 % 2 < 2 := Nat.mod_lt _ (by decide)
  have hb2 : env.nSequence / 4194304 % 2 < 2 := Nat.mod_lt _ (by decide)
  have hvn : n % 65536 < 65536 := Nat.mod_lt _ (by decide)
  have hvs : env.nSequence % 65536 < 65536 := Nat.mod_lt _ (by decide)
  have hd : env.nSequence / Script.SEQ_DISABLE % 2 = 0 := by
    simp only [Script.SEQ_DISABLE]; omega
  have hle : Script.seqMasked n ≤ Script.seqMasked env.nSequence := by
    rw [hm n, hm env.nSequence]
    generalize n / 4194304 % 2 = a at *
    generalize env.nSequence / 4194304 % 2 = b at *
    omega
  have hcase : (Script.seqMasked env.nSequence < Script.SEQ_TYPE ∧ Script.seqMasked n < Script.SEQ_TYPE)
      ∨ (Script.seqMasked env.nSequence ≥ Script.SEQ_TYPE ∧ Script.seqMasked n ≥ Script.SEQ_TYPE) := by
    rw [hm n, hm env.nSequence]
    simp only [Script.SEQ_TYPE]
    generalize n / 4194304 % 2 = a at *
    generalize env.nSequence / 4194304 % 2 = b at *
    omega
  simp only [Script.checkSequence, Bool.and_eq_true, Bool.or_eq_true, decide_eq_true_eq,
    beq_iff_eq]
  exact ⟨⟨hv, hd⟩, hcase, hle⟩

/-- … and BIP65's rule CHECKLOCKTIMEVERIFY, for a non-final input -/
theorem checkLockTime_of_cltvOk (env : Script.Env) (n : Nat)
    (hnf : env.nSequence ≠ Script.SEQ_FINAL) (h : cltvOk env.nLockTime n = true) :
    Script.checkLockTime env n = true := by
  simp only [cltvOk, absIsHeight, LOCKTIME_THRESHOLD, Bool.and_eq_true, beq_iff_eq,
    decide_eq_true_eq] at h
  simp only [Script.checkLockTime, Script.LOCKTIME_THRESHOLD, Bool.and_eq_true,
    Bool.or_eq_true, decide_eq_true_eq, bne_iff_ne, ne_eq]
  refine ⟨⟨?_, h.2⟩, hnf⟩
  have h1 := h.1
  by_cases hx : n < 500000000 <;> by_cases hl : env.nLockTime < 500000000 <;>
    simp [hx, hl] at h1 ⊢ <;> omega

/-- converse: what CHECKLOCKTIMEVERIFY accepts satisfies BIP65's rule of the policy semantics -/
theorem cltvOk_of_checkLockTime (env : Script.Env) (n : Nat)
    (h : Script.checkLockTime env n = true) : cltvOk env.nLockTime n = true := by
  simp only [Script.checkLockTime, Script.LOCKTIME_THRESHOLD, Bool.and_eq_true,
    Bool.or_eq_true, decide_eq_true_eq, bne_iff_ne, ne_eq] at h
  obtain ⟨⟨hu, hle⟩, _⟩ := h
  simp only [cltvOk, absIsHeight, LOCKTIME_THRESHOLD, Bool.and_eq_true, beq_iff_eq,
    decide_eq_true_eq]
  refine ⟨?_, hle⟩
  by_cases hx : n < 500000000 <;> by_cases hl : env.nLockTime < 500000000 <;>
    simp [hx, hl] at hu ⊢ <;> omega

/-- converse for CHECKSEQUENCEVERIFY, for an nSequence that is a `u32` -/
theorem csvOk_of_checkSequence (env : Script.Env) (n : Nat) (hu : env.nSequence < 4294967296)
    (h : Script.checkSequence env n = true) : csvOk env.nSequence n = true := by
  have hm : ∀ x, Script.seqMasked x = x / 4194304 % 2 * 4194304 + x % 65536 := fun x => rfl
  simp only [Script.checkSequence, Bool.and_eq_true, Bool.or_eq_true, decide_eq_true_eq,
    beq_iff_eq] at h
  obtain ⟨⟨_, hd⟩, hcase, hle⟩ := h
  rw [hm n, hm env.nSequence] at hle hcase
  simp only [Script.SEQ_TYPE] at hcase
  simp only [Script.SEQ_DISABLE] at hd
  have ha2 : n / 4194304 % 2 < 2 := Nat.mod_lt _ (by decide)
  have hb2 : env.nSequence / 4194304 % 2 < 2 := Nat.mod_lt _ (by decide)
  have hvn : n % 65536 < 65536 := Nat.mod_lt _ (by decide)
  have hvs : env.nSequence % 65536 < 65536 := Nat.mod_lt _ (by decide)
  have hdis : env.nSequence < 2147483648 := by omega
  have hty : (n / 4194304 % 2 = 1) ↔ (env.nSequence / 4194304 % 2 = 1) := by
    generalize n / 4194304 % 2 = a at *
    generalize env.nSequence / 4194304 % 2 = b at *
    omega
  have hval : n % 65536 ≤ env.nSequence % 65536 := by
    generalize n / 4194304 % 2 = a at *
    generalize env.nSequence / 4194304 % 2 = b at *
    omega
  have e1 : seqDisabled env.nSequence = false := by simp [seqDisabled, hdis]
  have e2 : Pol.relIsTime n = Pol.relIsTime env.nSequence := by
    unfold Pol.relIsTime
    rw [Bool.eq_iff_iff]
    simpa using hty
  have e3 : decide (relValue n ≤ relValue env.nSequence) = true := decide_eq_true hval
  simp only [csvOk, e1, e2, e3, Bool.not_false, Bool.and_self, beq_self_eq_true]

end MsVerif.LiftExec

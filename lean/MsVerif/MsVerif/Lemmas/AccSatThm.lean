/-
C02 T2, the induction: if a typed fragment (no raw pkh) runs to completion and is SATISFIED
(B/W: leaves a true value, V: completes, K: the following CHECKSIG verifies), in an environment
that accepts only what the caller's assets allow (`EnvOK`), then the specification's table has a
satisfaction from those assets (`satEx`).  Limits off.  Core Lean only.
-/
import MsVerif.Lemmas.AccSatOps

set_option linter.unusedVariables false

namespace MsVerif.AccSat
open MsVerif MsVerif.Script MsVerif.TypeSound MsVerif.SatTable MsVerif.Complete

/-- "satisfied ⇒ P" for a completed run from stack `s` to core `c'` -/
def SatS (env : Env) (P : Prop) (base : Base) (s : List Bytes) (c' : Core) : Prop :=
  match base with
  | .B => ∀ v r, c'.stack = v :: r → castToBool v = true → P
  | .V => P
  | .K => ∀ pk sg r, c'.stack = pk :: sg :: r → env.sigOk pk sg = true → P
  | .W => ∀ x tl, s = x :: tl →
      ∃ v r, (c'.stack = x :: v :: r ∨ c'.stack = v :: x :: r) ∧ (castToBool v = true → P)

section
variable {env : Env} {P Q : Prop} {b : Base} {s s' : List Bytes} {c' c'' : Core}

theorem SatS.B (hb : b = .B) : SatS env P b s c' ↔ ∀ v r, c'.stack = v :: r → castToBool v = true → P := by
  subst hb; rfl
theorem SatS.V (hb : b = .V) : SatS env P b s c' ↔ P := by subst hb; rfl
theorem SatS.K (hb : b = .K) :
    SatS env P b s c' ↔ ∀ pk sg r, c'.stack = pk :: sg :: r → env.sigOk pk sg = true → P := by
  subst hb; rfl
theorem SatS.W (hb : b = .W) : SatS env P b s c' ↔ ∀ x tl, s = x :: tl →
    ∃ v r, (c'.stack = x :: v :: r ∨ c'.stack = v :: x :: r) ∧ (castToBool v = true → P) := by
  subst hb; rfl

theorem SatS.mono (h : SatS env P b s c') (hpq : P → Q) : SatS env Q b s c' := by
  cases b with
  | B => exact fun v r hv ht => hpq (h v r hv ht)
  | V => exact hpq h
  | K => exact fun pk sg r hs ho => hpq (h pk sg r hs ho)
  | W =>
    intro x tl hx
    obtain ⟨v, r, hv, hp⟩ := h x tl hx
    exact ⟨v, r, hv, fun ht => hpq (hp ht)⟩

/-- for B, V, K only the final stack matters -/
theorem SatS.move {b' : Base} (h : SatS env P b s c') (hb : b' = b) (hw : b ≠ .W)
    (hst : c''.stack = c'.stack) : SatS env P b' s' c'' := by
  subst hb
  cases b' with
  | B => exact fun v r hv ht => h v r (by rw [← hst]; exact hv) ht
  | V => exact h
  | K => exact fun pk sg r hs ho => h pk sg r (by rw [← hst]; exact hs) ho
  | W => exact absurd rfl hw

end

mutual
/-- multi-family thresholds are at most the number of keys (`Threshold::new`), below 2³¹ -/
def wfM : Ms → Bool
  | .multi k ks | .sortedMulti k ks | .multiA k ks | .sortedMultiA k ks =>
    decide (k ≤ ks.length) && decide (ks.length < 2 ^ 31)
  | .thresh _ xs => wfML xs
  | .alt x | .swap x | .check x | .dupIf x | .verify x | .nonZero x | .zeroNotEqual x => wfM x
  | .andV l r | .andB l r | .orB l r | .orD l r | .orC l r | .orI l r => wfM l && wfM r
  | .andOr a b c => wfM a && wfM b && wfM c
  | _ => true
def wfML : MsList → Bool
  | .nil => true
  | .cons x xs => wfM x && wfML xs
end

/-- all side conditions: the invariants of the library's `Threshold` / lock-time types that the
typing model does not re-check, and "no raw pkh" -/
structure WF (ms : Ms) : Prop where
  w : wf ms = true
  s : wfS ms = true
  t : wfT ms = true
  m : wfM ms = true
  r : allNodes isNotRawPkH ms = true

structure WFL (xs : MsList) : Prop where
  w : wfL xs = true
  s : wfSL xs = true
  t : wfTL xs = true
  m : wfML xs = true
  r : allNodesL isNotRawPkH xs = true

theorem WF.un {f : Ms → Ms} {x : Ms} (h : WF (f x))
    (hf : f = .alt ∨ f = .swap ∨ f = .check ∨ f = .dupIf ∨ f = .verify ∨ f = .nonZero ∨ f = .zeroNotEqual) :
    WF x := by
  obtain ⟨h1, h2, h3, h4, h5⟩ := h
  rcases hf with rfl | rfl | rfl | rfl | rfl | rfl | rfl <;>
  · simp only [allNodes, subterms, List.all_cons, Bool.and_eq_true] at h5
    exact ⟨by simpa [wf] using h1, by simpa [wfS] using h2, by simpa [wfT] using h3,
      by simpa [wfM] using h4, h5.2⟩

theorem WF.bin {f : Ms → Ms → Ms} {l r : Ms} (h : WF (f l r))
    (hf : f = .andV ∨ f = .andB ∨ f = .orB ∨ f = .orD ∨ f = .orC ∨ f = .orI) : WF l ∧ WF r := by
  obtain ⟨h1, h2, h3, h4, h5⟩ := h
  rcases hf with rfl | rfl | rfl | rfl | rfl | rfl <;>
  · simp only [allNodes, subterms, List.all_cons, List.all_append, Bool.and_eq_true] at h5
    simp only [wf, Bool.and_eq_true] at h1
    simp only [wfS, Bool.and_eq_true] at h2
    simp only [wfT, Bool.and_eq_true] at h3
    simp only [wfM, Bool.and_eq_true] at h4
    exact ⟨⟨h1.1, h2.1, h3.1, h4.1, h5.2.1⟩, ⟨h1.2, h2.2, h3.2, h4.2, h5.2.2⟩⟩

theorem WF.andOr {x y z : Ms} (h : WF (.andOr x y z)) : WF x ∧ WF y ∧ WF z := by
  obtain ⟨h1, h2, h3, h4, h5⟩ := h
  simp only [allNodes, subterms, List.all_cons, List.all_append, Bool.and_eq_true] at h5
  simp only [wf, Bool.and_eq_true] at h1
  simp only [wfS, Bool.and_eq_true] at h2
  simp only [wfT, Bool.and_eq_true] at h3
  simp only [wfM, Bool.and_eq_true] at h4
  exact ⟨⟨h1.1.1, h2.1.1, h3.1.1, h4.1.1, h5.2.1.1⟩, ⟨h1.1.2, h2.1.2, h3.1.2, h4.1.2, h5.2.1.2⟩,
    ⟨h1.2, h2.2, h3.2, h4.2, h5.2.2⟩⟩

theorem WF.thresh {k : Nat} {xs : MsList} (h : WF (.thresh k xs)) :
    WFL xs ∧ 1 ≤ xs.length ∧ k ≤ xs.length ∧ xs.length < 2 ^ 31 := by
  obtain ⟨h1, h2, h3, h4, h5⟩ := h
  simp only [allNodes, subterms, List.all_cons, Bool.and_eq_true] at h5
  simp only [wf, Bool.and_eq_true, decide_eq_true_eq] at h1
  simp only [wfS, Bool.and_eq_true, decide_eq_true_eq] at h2
  simp only [wfT] at h3
  simp only [wfM] at h4
  exact ⟨⟨h1.2, h2.2, h3, h4, h5.2⟩, h1.1, h2.1.1, h2.1.2⟩

theorem WFL.cons {x : Ms} {xs : MsList} (h : WFL (.cons x xs)) : WF x ∧ WFL xs := by
  obtain ⟨h1, h2, h3, h4, h5⟩ := h
  rw [allNodesL_cons, Bool.and_eq_true] at h5
  simp only [wfL, Bool.and_eq_true] at h1
  simp only [wfSL, Bool.and_eq_true] at h2
  simp only [wfTL, Bool.and_eq_true] at h3
  simp only [wfML, Bool.and_eq_true] at h4
  exact ⟨⟨h1.1, h2.1, h3.1, h4.1, h5.1⟩, ⟨h1.2, h2.2, h3.2, h4.2, h5.2⟩⟩

/-- no child is dead or satisfiable-only when every child has a table dissatisfaction -/
theorem counts_of_allDsat (av : Avail) (xs : MsList) (h : allDsatEx av xs = true) :
    countDead av xs = 0 ∧ countOnlySat av xs = 0 := by
  rw [allDsatEx_eq, List.all_eq_true] at h
  rw [countDead_eq, countOnlySat_eq, List.countP_eq_zero, List.countP_eq_zero]
  exact ⟨fun x hx => by simp [h x hx], fun x hx => by simp [h x hx]⟩

theorem truthy_ne_zero {env : Env} {v : Bytes} {x : Int} (hx : num4 env v = .ok x) (hne : x ≠ 0) :
    castToBool v = true := by
  cases hv : castToBool v with
  | true => rfl
  | false => exact absurd (falsy_decodes_zero hv (num4_ok hx)) hne

/-- the value of the two candidates for "the result next to `x`" coincide -/
theorem w_unique {x w v : Bytes} {a b : List Bytes} {st : List Bytes}
    (e1 : st = x :: w :: a ∨ st = w :: x :: a) (e2 : st = x :: v :: b ∨ st = v :: x :: b) : w = v := by
  rcases e1 with e1 | e1 <;> rcases e2 with e2 | e2 <;> rw [e1] at e2 <;>
    simp only [List.cons.injEq] at e2
  · exact e2.2.1
  · rw [e2.2.1, ← e2.1]
  · rw [e2.1, e2.2.1]
  · exact e2.1

section
variable {env : Env} {ke : KeyEnv} {av : Avail}

mutual
theorem sound (hlim : env.flags.stackLimits = false) (henv : EnvOK env ke av) (ctx : Ctx) :
    (ms : Ms) → WF ms → ∀ (τ : Ty), typeOf ms = some τ →
      ∀ (c c' : Core), frag env ke ctx ms c = .ok c' →
        SatS env (satEx av ms = true) τ.corr.base c.stack c'
  | .tru, _, τ, h, _, _, _ => by
    simp only [typeOf] at h; cases h
    exact fun _ _ _ _ => by simp only [satEx]
  | .fls, _, τ, h, c, c', hr => by
    simp only [typeOf] at h; cases h
    rw [frag] at hr
    have e := (pushElem_ok hr).1
    intro v r hv ht
    rw [e] at hv
    simp only [List.cons.injEq] at hv
    rw [← hv.1] at ht
    simp [castToBool] at ht
  | .pkK k, _, τ, h, c, c', hr => by
    simp only [typeOf] at h; cases h
    rw [frag] at hr
    obtain ⟨hs, _⟩ := psh_ok hr
    intro pk sg r hst hok
    rw [hs] at hst
    simp only [List.cons.injEq] at hst
    rw [← hst.1] at hok
    simp only [satEx]
    exact henv.sigK k sg hok
  | .pkH k, _, τ, h, c, c', hr => by
    simp only [typeOf] at h; cases h
    rw [frag] at hr
    obtain ⟨c1, h1, hr⟩ := seqOps_cons_ok hr
    obtain ⟨c2, h2, hr⟩ := seqOps_cons_ok hr
    obtain ⟨c3, h3, hr⟩ := seqOps_cons_ok hr
    obtain ⟨c4, h4, hr⟩ := seqOps_cons_ok hr
    cases seqOps_nil_ok hr
    obtain ⟨a, r, e1, e1', _⟩ := dup_ok h1
    obtain ⟨a2, r2, e2, e2', _⟩ := hash160_ok h2
    obtain ⟨e3, _⟩ := pushData_ok h3
    obtain ⟨x, y, e4, hxy, _⟩ := equalverify_ok h4
    rw [e1'] at e2
    simp only [List.cons.injEq] at e2
    obtain ⟨rfl, rfl⟩ := e2
    rw [e3, e2'] at e4
    simp only [List.cons.injEq] at e4
    obtain ⟨rfl, rfl, e4⟩ := e4
    intro pk sg r' hst hok
    rw [← e4] at hst
    simp only [List.cons.injEq] at hst
    rw [← hst.1] at hok
    simp only [satEx]
    exact henv.sigH k a sg hxy.symm hok
  | .rawPkH _, hw, _, _, _, _, _ => by
    have := hw.r
    simp [allNodes, subterms, isNotRawPkH] at this
  | .after n, hw, τ, h, c, c', hr => by
    simp only [typeOf] at h; cases h
    have ht := hw.t
    simp only [wfT, Bool.and_eq_true, decide_eq_true_eq] at ht
    rw [frag] at hr
    obtain ⟨c1, h1, hr⟩ := seqOps_cons_ok hr
    obtain ⟨c2, h2, hr⟩ := seqOps_cons_ok hr
    cases seqOps_nil_ok hr
    obtain ⟨e1, _⟩ := pushInt_ok h1
    have := cltv_true ht.2 e1 h2
    intro _ _ _ _
    simp only [satEx]
    exact henv.after n this
  | .older n, hw, τ, h, c, c', hr => by
    simp only [typeOf] at h; cases h
    have ht := hw.t
    simp only [wfT, Bool.and_eq_true, decide_eq_true_eq] at ht
    rw [frag] at hr
    obtain ⟨c1, h1, hr⟩ := seqOps_cons_ok hr
    obtain ⟨c2, h2, hr⟩ := seqOps_cons_ok hr
    cases seqOps_nil_ok hr
    obtain ⟨e1, _⟩ := pushInt_ok h1
    have := csv_true ht.2 e1 h2
    intro _ _ _ _
    simp only [satEx]
    exact henv.older n this
  | .hash kind hh, _, τ, h, c, c', hr => by
    simp only [typeOf] at h; cases h
    rw [frag] at hr
    obtain ⟨c1, h1, hr⟩ := seqOps_cons_ok hr
    obtain ⟨c2, h2, hr⟩ := seqOps_cons_ok hr
    obtain ⟨c3, h3, hr⟩ := seqOps_cons_ok hr
    obtain ⟨c4, h4, hr⟩ := seqOps_cons_ok hr
    obtain ⟨c5, h5, hr⟩ := seqOps_cons_ok hr
    obtain ⟨c6, h6, hr⟩ := seqOps_cons_ok hr
    cases seqOps_nil_ok hr
    obtain ⟨a, r, e1, e1', _⟩ := size_ok h1
    obtain ⟨e2, _⟩ := pushInt_ok h2
    obtain ⟨x, y, e3, hxy, _⟩ := equalverify_ok h3
    obtain ⟨a4, r4, e4, e4'⟩ := hashop_val h4
    obtain ⟨e5, _⟩ := pushData_ok h5
    rw [e2, e1'] at e3
    simp only [List.cons.injEq] at e3
    obtain ⟨rfl, rfl, e3⟩ := e3
    rw [← e3] at e4
    simp only [List.cons.injEq] at e4
    obtain ⟨rfl, rfl⟩ := e4
    -- the element is 32 bytes long
    have hlen : a.length = 32 := numEncode_eq32 hxy.symm
    intro v r' hst ht
    obtain ⟨b, r'', f1⟩ := equal_true h6 hst ht
    rw [e5, e4'] at f1
    simp only [List.cons.injEq] at f1
    simp only [satEx]
    exact henv.pre kind hh a hlen (by rw [f1.2.1, f1.1])
  | .multi k ks, hw, τ, h, c, c', hr => by
    simp only [typeOf] at h; cases h
    rw [frag] at hr
    have h1 := hw.w; have h4 := hw.m
    simp only [wf, decide_eq_true_eq] at h1
    simp only [wfM, Bool.and_eq_true, decide_eq_true_eq] at h4
    intro v r hst ht
    have := multi_true henv k (by omega) ks h1 hr hst ht
    simp only [satEx, decide_eq_true_eq]
    exact this
  | .sortedMulti k ks, hw, τ, h, c, c', hr => by
    simp only [typeOf] at h; cases h
    rw [frag] at hr
    have h1 := hw.w; have h4 := hw.m
    simp only [wf, decide_eq_true_eq] at h1
    simp only [wfM, Bool.and_eq_true, decide_eq_true_eq] at h4
    rw [← sortKeys_length ke ks] at hr h1
    intro v r hst ht
    have := multi_true henv k (by omega) (sortKeys ke ks) h1 hr hst ht
    simp only [satEx, decide_eq_true_eq]
    rw [← sortKeys_filter ke ks av.sig]
    exact this
  | .multiA k ks, hw, τ, h, c, c', hr => by
    simp only [typeOf] at h; cases h
    rw [frag] at hr
    have h2 := hw.s; have h4 := hw.m
    simp only [wfS, Bool.and_eq_true, decide_eq_true_eq] at h2
    simp only [wfM, Bool.and_eq_true, decide_eq_true_eq] at h4
    intro v r hst ht
    have := multiA_true henv k (by omega) ks h2.2 hr hst ht
    simp only [satEx, decide_eq_true_eq]
    exact this
  | .sortedMultiA k ks, hw, τ, h, c, c', hr => by
    simp only [typeOf] at h; cases h
    rw [frag] at hr
    have h2 := hw.s; have h4 := hw.m
    simp only [wfS, Bool.and_eq_true, decide_eq_true_eq] at h2
    simp only [wfM, Bool.and_eq_true, decide_eq_true_eq] at h4
    intro v r hst ht
    have := multiA_true henv k (by omega) (sortKeys ke ks) (by rw [sortKeys_length]; exact h2.2) hr hst ht
    simp only [satEx, decide_eq_true_eq]
    rw [← sortKeys_filter ke ks av.sig]
    exact this
  | .alt x, hw, τ, h, c, c', hr => by
    simp only [typeOf] at h
    obtain ⟨a, hx, h⟩ := typeOf_un h
    obtain ⟨hab, hy⟩ := castAlt_inv (lift1_corr h)
    rw [hy]
    have hwx := hw.un (f := .alt) (by simp)
    rw [frag_alt] at hr
    obtain ⟨c1, h1, hr⟩ := bind_ok hr
    obtain ⟨c2, h2, h3⟩ := bind_ok hr
    obtain ⟨e, e1, a1⟩ := toalt_ok h1
    have ih := sound hlim henv ctx x hwx a hx c1 c2 h2
    obtain ⟨ih1, ih2⟩ := shape hlim ke ctx x hwx.w a hx c1 c2 h2
    obtain ⟨v, n, e2, _⟩ := (Post.B hab).1 ih2
    obtain ⟨e', a3, e3⟩ := fromalt_ok h3
    rw [ih1, a1] at a3
    simp only [List.cons.injEq] at a3
    obtain ⟨rfl, _⟩ := a3
    refine (SatS.W rfl).2 ?_
    intro x0 tl hx0
    rw [e1] at hx0
    simp only [List.cons.injEq] at hx0
    obtain ⟨rfl, _⟩ := hx0
    exact ⟨v, _, Or.inl (by rw [e3, e2]), fun ht => by
      simp only [satEx]; exact (SatS.B hab).1 ih v _ e2 ht⟩
  | .swap x, hw, τ, h, c, c', hr => by
    simp only [typeOf] at h
    obtain ⟨a, hx, h⟩ := typeOf_un h
    obtain ⟨hab, hai, hy⟩ := castSwap_inv (lift1_corr h)
    rw [hy]
    have hwx := hw.un (f := .swap) (by simp)
    rw [frag_swap] at hr
    obtain ⟨c1, h1, h2⟩ := bind_ok hr
    obtain ⟨p, q, r, e1, e1', _⟩ := swap_ok h1
    have ih := sound hlim henv ctx x hwx a hx c1 c' h2
    have hna : nargs a.corr.input = some 1 := by rcases hai with h1 | h1 <;> rw [h1] <;> rfl
    have hc := args_cons hlim ke ctx x hwx.w a 1 hx hna
    rw [hab] at hc
    obtain ⟨out, ho, hs'⟩ := (hc.at c1 [q] (p :: r) (by rw [e1']; rfl) rfl).2 c' h2
    obtain ⟨w, rfl⟩ := len1 ho
    refine (SatS.W rfl).2 ?_
    intro x0 tl hx0
    rw [e1] at hx0
    simp only [List.cons.injEq] at hx0
    obtain ⟨rfl, _⟩ := hx0
    exact ⟨w, r, Or.inr (by rw [hs']; rfl), fun ht => by
      simp only [satEx]; exact (SatS.B hab).1 ih w _ (by rw [hs']; rfl) ht⟩
  | .check x, hw, τ, h, c, c', hr => by
    simp only [typeOf] at h
    obtain ⟨a, hx, h⟩ := typeOf_un h
    obtain ⟨hab, hy⟩ := castCheck_inv (lift1_corr h)
    rw [hy]
    have hwx := hw.un (f := .check) (by simp)
    rw [frag_check] at hr
    obtain ⟨c1, h1, h2⟩ := bind_ok hr
    have ih := sound hlim henv ctx x hwx a hx c c1 h1
    intro v r hst ht
    obtain ⟨pk, sg, r', e1, hok⟩ := checksig_true h2 hst ht
    simp only [satEx]
    exact (SatS.K hab).1 ih pk sg r' e1 hok
  | .dupIf x, hw, τ, h, c, c', hr => by
    simp only [typeOf] at h
    obtain ⟨a, hx, h⟩ := typeOf_un h
    obtain ⟨hab, _, hy⟩ := castDupIf_inv (lift1_corr h)
    rw [hy]
    have hwx := hw.un (f := .dupIf) (by simp)
    rw [frag_dupIf] at hr
    obtain ⟨c1, h1, h2⟩ := bind_ok hr
    obtain ⟨p, r, e1, e1', _⟩ := dup_ok h1
    obtain ⟨a0, c2, e2, _, hcase⟩ := ifThen_ok h2
    rw [e1'] at e2
    simp only [List.cons.injEq] at e2
    obtain ⟨rfl, e2⟩ := e2
    rcases hcase with ⟨_, c3, h3, _, _⟩ | ⟨hf, e3, _⟩
    · have ih := sound hlim henv ctx x hwx a hx c2 c3 h3
      intro _ _ _ _
      simp only [satEx]
      exact (SatS.V hab).1 ih
    · intro v r' hst ht
      have := falsy_head (c' := c') (by rw [e3, ← e2]) (by simpa [condFlag] using hf) v r' hst
      rw [this] at ht; cases ht
  | .verify x, hw, τ, h, c, c', hr => by
    simp only [typeOf] at h
    obtain ⟨a, hx, h⟩ := typeOf_un h
    obtain ⟨hab, hy⟩ := castVerify_inv (lift1_corr h)
    rw [hy]
    have hwx := hw.un (f := .verify) (by simp)
    rw [frag_verify] at hr
    obtain ⟨c1, h1, h2⟩ := bind_ok hr
    have ih := sound hlim henv ctx x hwx a hx c c1 h1
    obtain ⟨a0, e2, hv, _⟩ := verifyTail_ok h2
    refine (SatS.V rfl).2 ?_
    simp only [satEx]
    exact (SatS.B hab).1 ih a0 _ e2 hv
  | .nonZero x, hw, τ, h, c, c', hr => by
    simp only [typeOf] at h
    obtain ⟨a, hx, h⟩ := typeOf_un h
    obtain ⟨hab, _, hy⟩ := castNonZero_inv (lift1_corr h)
    rw [hy]
    have hwx := hw.un (f := .nonZero) (by simp)
    rw [frag_nonZero] at hr
    obtain ⟨c1, h1, hr⟩ := bind_ok hr
    obtain ⟨c2, h2, h3⟩ := bind_ok hr
    obtain ⟨p, r, b, e1, e2, _, hb⟩ := size_zne_ok h1 h2
    obtain ⟨a0, c3, e3, _, hcase⟩ := ifThen_ok h3
    rw [e2] at e3
    simp only [List.cons.injEq] at e3
    obtain ⟨rfl, e3⟩ := e3
    rcases hcase with ⟨_, c4, h4, e4, _⟩ | ⟨hf, e4, _⟩
    · have ih := sound hlim henv ctx x hwx a hx c3 c4 h4
      intro v r' hv ht
      rw [e4] at hv
      simp only [satEx]
      exact (SatS.B hab).1 ih v r' hv ht
    · have hbf : b = false := by
        cases b
        · rfl
        · simp [condFlag, boolBytes, castToBool] at hf
      have hp := hb hbf
      subst hp
      intro v r' hst ht
      have := nil_head (c' := c') (by rw [e4, ← e3]) v r' hst
      rw [this] at ht; cases ht
  | .zeroNotEqual x, hw, τ, h, c, c', hr => by
    simp only [typeOf] at h
    obtain ⟨a, hx, h⟩ := typeOf_un h
    obtain ⟨hab, hy⟩ := castZeroNotEqual_inv (lift1_corr h)
    rw [hy]
    have hwx := hw.un (f := .zeroNotEqual) (by simp)
    rw [frag_zeroNotEqual] at hr
    obtain ⟨c1, h1, h2⟩ := bind_ok hr
    have ih := sound hlim henv ctx x hwx a hx c c1 h1
    obtain ⟨a0, r0, x0, e2, hx0, e2', _⟩ := zeronotequal_ok' h2
    intro v r' hst ht
    rw [e2'] at hst
    simp only [List.cons.injEq] at hst
    have hne : x0 ≠ 0 := by
      intro h0
      subst h0
      rw [← hst.1] at ht
      simp [boolBytes, castToBool] at ht
    simp only [satEx]
    exact (SatS.B hab).1 ih a0 r0 e2 (truthy_ne_zero hx0 hne)
  | .andV l r, hw, τ, h, c, c', hr => by
    simp only [typeOf] at h
    obtain ⟨a, b, hl, hrr, h⟩ := typeOf_bin h
    obtain ⟨hab, hbb, hy⟩ := andV_inv (lift2_corr h)
    rw [hy]
    obtain ⟨hwl, hwr⟩ := hw.bin (f := .andV) (by simp)
    rw [frag_andV] at hr
    obtain ⟨c1, h1, h2⟩ := bind_ok hr
    have ihl := (SatS.V hab).1 (sound hlim henv ctx l hwl a hl c c1 h1)
    have ihr := sound hlim henv ctx r hwr b hrr c1 c' h2
    exact (ihr.mono (fun hr' => by simp only [satEx, ihl, hr', Bool.and_self])).move rfl
      (by rcases hbb with hb | hb | hb <;> rw [hb] <;> simp) rfl
  | .andB l r, hw, τ, h, c, c', hr => by
    simp only [typeOf] at h
    obtain ⟨a, b, hl, hrr, h⟩ := typeOf_bin h
    obtain ⟨hab, hbb, hy⟩ := andB_inv (lift2_corr h)
    rw [hy]
    obtain ⟨hwl, hwr⟩ := hw.bin (f := .andB) (by simp)
    rw [frag_andB] at hr
    obtain ⟨c1, h1, hr⟩ := bind_ok hr
    obtain ⟨c2, h2, h3⟩ := bind_ok hr
    obtain ⟨_, ih2⟩ := shape hlim ke ctx l hwl.w a hl c c1 h1
    obtain ⟨v, n, e1, _⟩ := (Post.B hab).1 ih2
    obtain ⟨_, jh2⟩ := shape hlim ke ctx r hwr.w b hrr c1 c2 h2
    obtain ⟨x, tl, w, m, e2, e3, _⟩ := (Post.W hbb).1 jh2
    have ihl := sound hlim henv ctx l hwl a hl c c1 h1
    have ihr := sound hlim henv ctx r hwr b hrr c1 c2 h2
    obtain ⟨w', r'', e5, hwP⟩ := (SatS.W hbb).1 ihr x tl e2
    have hww : w = w' := w_unique e3 e5
    subst hww
    obtain ⟨p, q, r', xp, xq, e4, hp, hq, e4', _⟩ := booland_ok' h3
    intro v0 r0 hst ht
    rw [e4'] at hst
    simp only [List.cons.injEq] at hst
    have hboth : xp ≠ 0 ∧ xq ≠ 0 := by
      by_cases h1 : xp = 0
      · subst h1; rw [← hst.1] at ht; simp [boolBytes, castToBool] at ht
      · by_cases h2 : xq = 0
        · subst h2; rw [← hst.1] at ht; simp [boolBytes, castToBool] at ht
        · exact ⟨h1, h2⟩
    have hxT : castToBool x = true ∧ castToBool w = true := by
      rcases e3 with e3 | e3 <;> rw [e3] at e4 <;> simp only [List.cons.injEq] at e4 <;>
        obtain ⟨rfl, rfl, _⟩ := e4
      · exact ⟨truthy_ne_zero hp hboth.1, truthy_ne_zero hq hboth.2⟩
      · exact ⟨truthy_ne_zero hq hboth.2, truthy_ne_zero hp hboth.1⟩
    have hsl := (SatS.B hab).1 ihl x tl e2 hxT.1
    have hsr := hwP hxT.2
    simp only [satEx, hsl, hsr, Bool.and_self]
  | .orB l r, hw, τ, h, c, c', hr => by
    simp only [typeOf] at h
    obtain ⟨a, b, hl, hrr, h⟩ := typeOf_bin h
    obtain ⟨hab, hbb, hy⟩ := orB_inv (lift2_corr h)
    obtain ⟨da, db⟩ := orB_d (lift2_corr h)
    rw [hy]
    obtain ⟨hwl, hwr⟩ := hw.bin (f := .orB) (by simp)
    rw [frag_orB] at hr
    obtain ⟨c1, h1, hr⟩ := bind_ok hr
    obtain ⟨c2, h2, h3⟩ := bind_ok hr
    obtain ⟨_, ih2⟩ := shape hlim ke ctx l hwl.w a hl c c1 h1
    obtain ⟨v, n, e1, _⟩ := (Post.B hab).1 ih2
    have ihl := sound hlim henv ctx l hwl a hl c c1 h1
    have ihr := sound hlim henv ctx r hwr b hrr c1 c2 h2
    obtain ⟨w', r'', e5, hwP⟩ := (SatS.W hbb).1 ihr v _ e1
    obtain ⟨p, q, r', xp, xq, e4, hp, hq, e4', _⟩ := boolor_ok' h3
    have ddl := dsat_of_d av l a hl da hwl.r
    have ddr := dsat_of_d av r b hrr db hwr.r
    intro v0 r0 hst ht
    rw [e4'] at hst
    simp only [List.cons.injEq] at hst
    have hone : xp ≠ 0 ∨ xq ≠ 0 := by
      by_cases h1 : xp = 0
      · by_cases h2 : xq = 0
        · subst h1; subst h2; rw [← hst.1] at ht; simp [boolBytes, castToBool] at ht
        · exact .inr h2
      · exact .inl h1
    have hT : castToBool v = true ∨ castToBool w' = true := by
      rcases e5 with e5 | e5 <;> rw [e5] at e4 <;> simp only [List.cons.injEq] at e4 <;>
        obtain ⟨rfl, rfl, _⟩ := e4
      · rcases hone with h | h
        · exact .inl (truthy_ne_zero hp h)
        · exact .inr (truthy_ne_zero hq h)
      · rcases hone with h | h
        · exact .inr (truthy_ne_zero hp h)
        · exact .inl (truthy_ne_zero hq h)
    simp only [satEx, ddl, ddr, Bool.and_true, Bool.true_and, Bool.or_eq_true]
    rcases hT with hT | hT
    · exact .inl ((SatS.B hab).1 ihl v _ e1 hT)
    · exact .inr (hwP hT)
  | .orD l r, hw, τ, h, c, c', hr => by
    simp only [typeOf] at h
    obtain ⟨a, b, hl, hrr, h⟩ := typeOf_bin h
    obtain ⟨hab, hbb, _, da, hy⟩ := orD_inv (lift2_corr h)
    rw [hy]
    obtain ⟨hwl, hwr⟩ := hw.bin (f := .orD) (by simp)
    rw [frag_orD] at hr
    obtain ⟨c1, h1, hr⟩ := bind_ok hr
    obtain ⟨c2, h2, h3⟩ := bind_ok hr
    have ihl := sound hlim henv ctx l hwl a hl c c1 h1
    have ddl := dsat_of_d av l a hl da hwl.r
    obtain ⟨a0, r0, e2, _, e2'⟩ := ifdup_ok h2
    obtain ⟨a1, c3, e3, _, hcase⟩ := ifThen_ok h3
    cases hv : castToBool a0 with
    | true =>
      have hsl := (SatS.B hab).1 ihl a0 r0 e2 hv
      intro _ _ _ _
      simp only [satEx, hsl, Bool.true_or]
    | false =>
      simp only [hv, Bool.false_eq_true, if_false] at e2'
      rw [e2'] at e3
      simp only [List.cons.injEq] at e3
      obtain ⟨rfl, e3⟩ := e3
      rcases hcase with ⟨_, c4, h4, e4, _⟩ | ⟨hf, _⟩
      · have ihr := sound hlim henv ctx r hwr b hrr c3 c4 h4
        intro v r' hst ht
        rw [e4] at hst
        have := (SatS.B hbb).1 ihr v r' hst ht
        simp only [satEx, ddl, this, Bool.and_self, Bool.or_true]
      · simp [condFlag, hv] at hf
  | .orC l r, hw, τ, h, c, c', hr => by
    simp only [typeOf] at h
    obtain ⟨a, b, hl, hrr, h⟩ := typeOf_bin h
    obtain ⟨hab, hbb, _, da, hy⟩ := orC_inv (lift2_corr h)
    rw [hy]
    obtain ⟨hwl, hwr⟩ := hw.bin (f := .orC) (by simp)
    rw [frag_orC] at hr
    obtain ⟨c1, h1, h2⟩ := bind_ok hr
    have ihl := sound hlim henv ctx l hwl a hl c c1 h1
    have ddl := dsat_of_d av l a hl da hwl.r
    obtain ⟨a1, c3, e3, _, hcase⟩ := ifThen_ok h2
    refine (SatS.V rfl).2 ?_
    rcases hcase with ⟨_, c4, h4, _, _⟩ | ⟨hf, _⟩
    · have ihr := (SatS.V hbb).1 (sound hlim henv ctx r hwr b hrr c3 c4 h4)
      simp only [satEx, ddl, ihr, Bool.and_self, Bool.or_true]
    · have hv : castToBool a1 = true := by simpa [condFlag] using hf
      have hsl := (SatS.B hab).1 ihl a1 _ e3 hv
      simp only [satEx, hsl, Bool.true_or]
  | .orI l r, hw, τ, h, c, c', hr => by
    simp only [typeOf] at h
    obtain ⟨a, b, hl, hrr, h⟩ := typeOf_bin h
    obtain ⟨hab, hbb, hy⟩ := orI_inv (lift2_corr h)
    rw [hy]
    obtain ⟨hwl, hwr⟩ := hw.bin (f := .orI) (by simp)
    rw [frag_orI] at hr
    obtain ⟨a0, c2, c4, _, _, e4, _, hcase⟩ := ifElse_ok hr
    have hnw : a.corr.base ≠ .W := by rcases hbb with hb | hb | hb <;> rw [hb] <;> simp
    rcases hcase with ⟨_, h3⟩ | ⟨_, c2', _, _, h3⟩
    · have ih := sound hlim henv ctx l hwl a hl c2 c4 h3
      exact (ih.mono (fun hs => by simp only [satEx, hs, Bool.true_or])).move rfl hnw e4
    · have ih := sound hlim henv ctx r hwr b hrr c2' c4 h3
      rw [← hab] at ih
      exact (ih.mono (fun hs => by simp only [satEx, hs, Bool.or_true])).move rfl hnw e4
  | .andOr x y z, hw, τ, h, c, c', hr => by
    obtain ⟨a, b, cc, hx, hy', hz, h'⟩ := typeOf_andOr h
    obtain ⟨hab, _, da, hbc, hbb, hy⟩ := andOr_inv (andOr_corr h')
    rw [hy]
    obtain ⟨hwx, hwy, hwz⟩ := hw.andOr
    rw [frag_andOr] at hr
    obtain ⟨c1, h1, h2⟩ := bind_ok hr
    obtain ⟨a0, c2, c4, e2, _, e4, _, hcase⟩ := ifElse_ok h2
    have hnw : b.corr.base ≠ .W := by rcases hbb with hb | hb | hb <;> rw [hb] <;> simp
    have iha := sound hlim henv ctx x hwx a hx c c1 h1
    have ddx := dsat_of_d av x a hx da hwx.r
    rcases hcase with ⟨_, h3⟩ | ⟨hf, c2', _, _, h3⟩
    · have ih := sound hlim henv ctx z hwz cc hz c2 c4 h3
      rw [← hbc] at ih
      exact (ih.mono (fun hs => by simp only [satEx, ddx, hs, Bool.and_self, Bool.or_true])).move rfl hnw e4
    · have hv : castToBool a0 = true := by simpa [condFlag] using hf
      have hsx := (SatS.B hab).1 iha a0 _ e2 hv
      have ih := sound hlim henv ctx y hwy b hy' c2' c4 h3
      exact (ih.mono (fun hs => by simp only [satEx, hsx, hs, Bool.and_self, Bool.true_or])).move rfl hnw e4
  | .thresh k .nil, hw, _, _, _, _, _ => by
    have := hw.thresh.2.1
    simp [MsList.length] at this
  | .thresh k (.cons x xs'), hw, τ, h, c, c', hr => by
    obtain ⟨ts, hts, h'⟩ := typeOf_thresh h
    obtain ⟨t0, ts', hx, hxs, rfl⟩ := typesOf_cons hts
    obtain ⟨nargs', hloop, hy⟩ := threshold_inv (threshold_corr h')
    have hallD := dsat_of_dL av (.cons x xs') _ hts 0 0 nargs' hloop hw.thresh.1.r
    simp only [List.map_cons] at hloop
    obtain ⟨hB, _, hu0, _, htail⟩ := threshLoop_cons hloop
    obtain ⟨hwL, _, hkn, hn31⟩ := hw.thresh
    obtain ⟨hwx, hwxs⟩ := hwL.cons
    simp only [MsList.length] at hkn hn31
    rw [hy]
    rw [frag_thresh] at hr
    obtain ⟨cT, hT, hfin⟩ := bind_ok hr
    rw [fragThresh_cons] at hT
    obtain ⟨c1, h1, hT⟩ := bind_ok hT
    obtain ⟨c1', h1', hT⟩ := bind_ok hT
    simp only [if_true] at h1'
    cases h1'
    obtain ⟨_, ih2⟩ := shape hlim ke ctx x hwx.w t0 hx c c1 h1
    obtain ⟨v1, n1, e1, hunit⟩ := (Post.B (hB rfl)).1 ih2
    have hunit' := hunit hu0
    have ihx := sound hlim henv ctx x hwx t0 hx c c1 h1
    have hsx : castToBool v1 = true → satEx av x = true := (SatS.B (hB rfl)).1 ihx v1 _ e1
    have hpos : ∀ y, num4 env v1 = .ok y → 0 ≤ y := by
      intro y hy0
      rcases (unit_decode hunit' hy0).1 with h0 | h0 <;> omega
    have htl := soundTail hlim henv ctx xs' hwxs ts' hxs 1 _ nargs' (by omega) htail c1 cT v1 _ hT e1 hpos
    obtain ⟨c4, h4, h5⟩ := seqOps_cons_ok hfin
    obtain ⟨c5, h6, h7⟩ := seqOps_cons_ok h5
    cases seqOps_nil_ok h7
    obtain ⟨e4, _⟩ := pushInt_ok h4
    intro v0 r0 hst ht
    obtain ⟨p, rr, e6⟩ := equal_true h6 hst ht
    obtain ⟨hdead, honly⟩ := counts_of_allDsat av _ hallD
    have hk31 : k < 2 ^ 31 := by omega
    -- the number of satisfied children is k
    have hk : k ≤ countCanSat av (.cons x xs') := by
      simp only [countCanSat]
      rcases htl with ⟨hnil, hc⟩ | ⟨y, t, r', hy0, ht0, ht1, eT⟩
      · subst hnil; subst hc
        rw [e4, e1] at e6
        simp only [List.cons.injEq] at e6
        obtain ⟨rfl, e6, _⟩ := e6
        simp only [countCanSat, Nat.add_zero]
        cases hv1 : castToBool v1 with
        | true =>
          have hone := hunit' hv1
          have hr1 := raw_intBytes (n := k) hk31
          rw [← e6, hone] at hr1
          have : numDecodeRaw [1] = 1 := by decide
          rw [this] at hr1
          simp only [hsx hv1, if_true]
          omega
        | false =>
          have hr1 := raw_intBytes (n := k) hk31
          rw [← e6, falsy_raw_zero hv1] at hr1
          omega
      · rw [e4, eT] at e6
        simp only [List.cons.injEq] at e6
        obtain ⟨rfl, e6, _⟩ := e6
        obtain ⟨hy01, hyf⟩ := unit_decode hunit' hy0
        have hyle : y ≤ ((if satEx av x then 1 else 0 : Nat) : Int) := by
          cases hsat : satEx av x
          · cases hv1 : castToBool v1 with
            | true => rw [hsx hv1] at hsat; cases hsat
            | false => have := hyf hv1; simp [this]
          · rcases hy01 with h0 | h0 <;> simp [h0]
        have hT0 : 0 ≤ y + t := by have := hpos y hy0; omega
        rw [intBytes_eq_numEncode] at e6
        have hcast : y + t = ((y + t).toNat : Int) := by omega
        rw [hcast] at e6
        have hcs : countCanSat av xs' ≤ xs'.length := countCanSat_le av xs'
        have := numEncode_inj (by omega) (by omega) e6
        omega
    simp only [satEx, threshEx, hdead, honly, beq_self_eq_true, Bool.true_and, Bool.and_eq_true,
      decide_eq_true_eq]
    exact ⟨by omega, hk⟩
theorem soundTail (hlim : env.flags.stackLimits = false) (henv : EnvOK env ke av) (ctx : Ctx) :
    (xs : MsList) → WFL xs → ∀ (ts : List Ty), typesOf xs = some ts →
      ∀ (i acc n : Nat), i ≠ 0 → Corr.threshLoop i acc (ts.map (·.corr)) = some n →
        ∀ (c c' : Core) (a : Bytes) (tl : List Bytes), fragThresh env ke ctx false xs c = .ok c' →
          c.stack = a :: tl → (∀ y, num4 env a = .ok y → 0 ≤ y) →
          (xs = .nil ∧ c' = c) ∨
          (∃ (y t : Int) (r : List Bytes), num4 env a = .ok y ∧ 0 ≤ t ∧ t ≤ (countCanSat av xs : Int) ∧
            c'.stack = numEncode (y + t) :: r)
  | .nil, _, ts, _, i, acc, n, _, _, c, c', a, tl, hr, _, _ => by
    rw [fragThresh] at hr
    cases hr
    exact Or.inl ⟨rfl, rfl⟩
  | .cons x xs', hw, ts, hts, i, acc, n, hi, hloop, c, c', a, tl, hr, hst, ha => by
    obtain ⟨t0, ts', hx, hxs, rfl⟩ := typesOf_cons hts
    simp only [List.map_cons] at hloop
    obtain ⟨_, hW, hu0, _, htail⟩ := threshLoop_cons hloop
    have hbW := hW hi
    obtain ⟨hwx, hwxs⟩ := hw.cons
    rw [fragThresh_cons] at hr
    obtain ⟨c1, h1, hr⟩ := bind_ok hr
    obtain ⟨c2, h2, h3⟩ := bind_ok hr
    simp only [Bool.false_eq_true, if_false] at h2
    obtain ⟨_, ih2⟩ := shape hlim ke ctx x hwx.w t0 hx c c1 h1
    obtain ⟨x0, tl0, w, m, e0, e1, hunit⟩ := (Post.W hbW).1 ih2
    rw [hst] at e0
    simp only [List.cons.injEq] at e0
    obtain ⟨rfl, rfl⟩ := e0
    have hunit' := hunit hu0
    -- a satisfied child is table-satisfiable
    have hsw : castToBool w = true → satEx av x = true := by
      intro hwt
      have ih := sound hlim henv ctx x hwx t0 hx c c1 h1
      obtain ⟨v, r, e2, hvP⟩ := (SatS.W hbW).1 ih a tl hst
      have : w = v := w_unique e1 e2
      subst this
      exact hvP hwt
    obtain ⟨p, q, r', xp, xq, e3, hp, hq, e3', _⟩ := add_ok' h2
    have hops : ∃ y d, num4 env a = .ok y ∧ num4 env w = .ok d ∧ xq + xp = y + d := by
      rcases e1 with e1 | e1 <;> rw [e1] at e3 <;> simp only [List.cons.injEq] at e3 <;>
        obtain ⟨rfl, rfl, _⟩ := e3
      · exact ⟨xp, xq, hp, hq, by omega⟩
      · exact ⟨xq, xp, hq, hp, rfl⟩
    obtain ⟨y, d, hy0, hd0, hsum⟩ := hops
    rw [hsum] at e3'
    obtain ⟨hd01, hdf⟩ := unit_decode hunit' hd0
    have hy_nn := ha y hy0
    have hd_nn : 0 ≤ d := by rcases hd01 with h0 | h0 <;> omega
    have hdle : d ≤ ((if satEx av x then 1 else 0 : Nat) : Int) := by
      cases hsat : satEx av x
      · cases hv1 : castToBool w with
        | true => rw [hsw hv1] at hsat; cases hsat
        | false => have := hdf hv1; simp [this]
      · rcases hd01 with h0 | h0 <;> simp [h0]
    have hcast : y + d = ((y + d).toNat : Int) := by omega
    have ha' : ∀ y', num4 env (numEncode (y + d)) = .ok y' → 0 ≤ y' := by
      intro y' hy'
      rw [hcast] at hy'
      have := decode_encode_nat (num4_ok hy')
      omega
    have ih := soundTail hlim henv ctx xs' hwxs ts' hxs (i + 1) _ n (by omega) htail c2 c' _ r' h3 e3' ha'
    right
    simp only [countCanSat]
    rcases ih with ⟨_, hc⟩ | ⟨y', t', r'', hy', ht0, ht1, eT⟩
    · subst hc
      exact ⟨y, d, r', hy0, hd_nn, by push_cast; omega, e3'⟩
    · have hyy : y' = y + d := by
        rw [hcast] at hy'
        have := decode_encode_nat (num4_ok hy')
        omega
      subst hyy
      exact ⟨y, d + t', r'', hy0, by omega, by push_cast; omega, by rw [eT, Int.add_assoc]⟩
end

end

end MsVerif.AccSat


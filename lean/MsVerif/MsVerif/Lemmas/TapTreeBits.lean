/-
Helper lemmas for C15: the two `u128` bitmaps (`BitStack128` in spend_info.rs, and
`complete_heights` + `complete_128` in `TapTreeBuilder`) refine plain lists of booleans as long
as the height stays ≤ 128.  Both lists are "is the current subtree a right child?" per open
ancestor, and both are advanced by the same `unwindL` when a subtree is completed.
-/
import MsVerif.Model.TapTree

set_option linter.unusedSimpArgs false

namespace MsVerif.Tap
open MsVerif.Spec

/-! ### bit-level facts about `BitVec 128` -/

theorem oneShl_getLsbD (h i : Nat) (hh : h < 128) :
    (1#128 <<< h).getLsbD i = decide (i = h) := by
  simp only [BitVec.getLsbD_shiftLeft, BitVec.getLsbD_one]
  by_cases e : i = h
  · subst e; simp [hh]
  · simp only [e, decide_false]
    by_cases c : i < h
    · simp [c]
    · have : i - h ≠ 0 := by omega
      simp [this]

theorem bit_test_eq (x : BitVec 128) (h : Nat) (hh : h < 128) :
    ((x &&& (1#128 <<< h)) == 0#128) = !x.getLsbD h := by
  cases hx : x.getLsbD h
  · have : x &&& (1#128 <<< h) = 0#128 := by
      apply BitVec.eq_of_getLsbD_eq
      intro i hi
      simp only [BitVec.getLsbD_and, oneShl_getLsbD h i hh, BitVec.getLsbD_zero]
      by_cases e : i = h
      · subst e; simp [hx]
      · simp [e]
    simp [this]
  · have : x &&& (1#128 <<< h) ≠ 0#128 := by
      intro heq
      have := congrArg (fun v => v.getLsbD h) heq
      simp [oneShl_getLsbD h h hh, hx] at this
    simp [this]

theorem bit_test_ne (x : BitVec 128) (h : Nat) (hh : h < 128) :
    ((x &&& (1#128 <<< h)) != 0#128) = x.getLsbD h := by
  simp [bne, bit_test_eq x h hh]

theorem getLsbD_setBit (x : BitVec 128) (h i : Nat) (hh : h < 128) :
    (x ||| (1#128 <<< h)).getLsbD i = (x.getLsbD i || decide (i = h)) := by
  simp [BitVec.getLsbD_or, oneShl_getLsbD h i hh]

theorem getLsbD_clearBit (x : BitVec 128) (h i : Nat) (hh : h < 128) :
    (x &&& ~~~(1#128 <<< h)).getLsbD i = (x.getLsbD i && !decide (i = h)) := by
  simp only [BitVec.getLsbD_and, BitVec.getLsbD_not, oneShl_getLsbD h i hh]
  by_cases c : i < 128
  · simp [c]
  · have : x.getLsbD i = false := BitVec.getLsbD_of_ge x i (by omega)
    simp [this]

/-! ### the abstract stack -/

/-- a subtree has been completed: if it was a left child we are now in the right sibling;
if it was a right child the parent is completed too -/
def unwindL : List Bool → List Bool
  | [] => []
  | false :: l => true :: l
  | true :: l => unwindL l

theorem unwindL_length_le (l : List Bool) : (unwindL l).length ≤ l.length := by
  induction l with
  | nil => simp [unwindL]
  | cons x l ih => cases x <;> simp [unwindL]; omega

/-- the pops of the merkle stack that accompany `unwindL` in the iterator -/
def unwindMs {ν : Type} : List Bool → List ν → List ν
  | [], ms => ms
  | false :: _, ms => ms
  | true :: l, ms => unwindMs l ms.tail

/-- `f k` is the `k`-th entry of the stack counted from the bottom, shifted by `off` -/
def Rep (f : Nat → Bool) (off : Nat) : List Bool → Prop
  | [] => True
  | x :: l => f (l.length + off) = x ∧ Rep f off l

theorem Rep.congr {f g : Nat → Bool} {off : Nat} : ∀ {l : List Bool},
    (∀ i, off ≤ i → i < l.length + off → f i = g i) → Rep f off l → Rep g off l := by
  intro l
  induction l with
  | nil => intro _ _; trivial
  | cons x l ih =>
    intro h hr
    refine ⟨?_, ih (fun i h1 h2 => h i h1 (by simp; omega)) hr.2⟩
    rw [← h _ (by omega) (by simp)]
    exact hr.1

/-! ### `BitStack128` refines `List Bool` -/

/-- refinement relation for `BitStack128` (T3 `bitstack128_refines_list`) -/
def RS (s : BitStack128) (l : List Bool) : Prop :=
  s.height = l.length ∧ l.length ≤ 128 ∧ Rep s.inner.getLsbD 0 l

theorem RS_default : RS BitStack128.default [] := ⟨rfl, by simp, trivial⟩

theorem RS.push_some {s : BitStack128} {l : List Bool} (h : RS s l) (hl : l.length < 128)
    (b : Bool) : ∃ s', s.push b = some s' ∧ RS s' (b :: l) := by
  obtain ⟨hh, _, hr⟩ := h
  have hlt : s.height < 128 := by omega
  have hge : ¬ s.height ≥ 128 := by omega
  refine ⟨_, by simp only [BitStack128.push, hge, if_false]; rfl, ?_, ?_, ?_, ?_⟩
  · simp [hh]
  · simp; omega
  · simp only [Nat.add_zero, ← hh]
    cases b
    · simp [getLsbD_clearBit _ _ _ hlt]
    · simp [getLsbD_setBit _ _ _ hlt]
  · refine Rep.congr ?_ hr
    intro i _ hi
    have : i ≠ s.height := by omega
    cases b
    · simp [getLsbD_clearBit _ _ _ hlt, this]
    · simp [getLsbD_setBit _ _ _ hlt, this]

theorem RS.push_none {s : BitStack128} {l : List Bool} (h : RS s l) (hl : ¬ l.length < 128)
    (b : Bool) : s.push b = none := by
  have : s.height ≥ 128 := by have := h.1; omega
  simp [BitStack128.push, this]

theorem RS.pop_cons {s : BitStack128} {x : Bool} {l : List Bool} (h : RS s (x :: l)) :
    ∃ s', s.pop = some (x, s') ∧ RS s' l := by
  obtain ⟨hh, hle, hx, hr⟩ := h
  simp only [List.length_cons] at hh hle
  have hpos : s.height > 0 := by omega
  have hlt : s.height - 1 < 128 := by omega
  refine ⟨⟨s.inner, s.height - 1⟩, ?_, ?_, ?_, hr⟩
  · simp only [BitStack128.pop, hpos, if_true, bit_test_ne _ _ hlt]
    have : s.height - 1 = l.length + 0 := by omega
    rw [this, hx]
  · simp; omega
  · omega

theorem RS.pop_nil {s : BitStack128} (h : RS s []) : s.pop = none := by
  have : ¬ s.height > 0 := by have := h.1; simp at this; omega
  simp [BitStack128.pop, this]

/-- the iterator's inner loop on the bit stack is `unwindL` / `unwindMs` on the list -/
theorem iterUnwind_sim {ν : Type} : ∀ (l : List Bool) (fuel : Nat) (ms : List ν) (dl : BitStack128),
    RS dl l → l.length < fuel →
    ∃ dl', iterUnwind fuel ms dl = some (unwindMs l ms, dl') ∧ RS dl' (unwindL l) := by
  intro l
  induction l with
  | nil =>
    intro fuel ms dl h hf
    cases fuel with
    | zero => simp at hf
    | succ fuel => exact ⟨dl, by simp [iterUnwind, h.pop_nil, unwindMs], h⟩
  | cons x l ih =>
    intro fuel ms dl h hf
    cases fuel with
    | zero => simp at hf
    | succ fuel =>
      obtain ⟨dl1, hp, h1⟩ := h.pop_cons
      cases x with
      | false =>
        have hl : l.length < 128 := by have := h.2.1; simp at this; omega
        obtain ⟨dl2, hp2, h2⟩ := h1.push_some hl true
        exact ⟨dl2, by simp [iterUnwind, hp, hp2, unwindMs], h2⟩
      | true =>
        obtain ⟨dl2, he, h2⟩ := ih fuel ms.tail dl1 h1 (by simp at hf; omega)
        exact ⟨dl2, by simp [iterUnwind, hp, he, unwindMs], h2⟩

/-! ### `TapTreeBuilder` refines (depth list, `List Bool`) -/

/-- level `i` (1 ≤ i ≤ 128) of the builder's completeness map -/
def Builder.bitAt {α : Type} (b : Builder α) (i : Nat) : Bool :=
  if i = 128 then b.complete128 else b.completeHeights.getLsbD i

/-- refinement relation for the builder: `l` has one entry per level `1..current_height`
(top first); all levels above are clear -/
def RB {α : Type} (b : Builder α) (l : List Bool) : Prop :=
  b.currentHeight = l.length ∧ l.length ≤ 128 ∧ Rep b.bitAt 1 l ∧
  ∀ i, l.length < i → i ≤ 128 → b.bitAt i = false

theorem RB_new {α : Type} : RB (Builder.new : Builder α) [] := by
  refine ⟨rfl, by simp, trivial, ?_⟩
  intro i _ _
  simp [Builder.bitAt, Builder.new]

/-- the abstract builder -/
def stepL {α : Type} (st : List (Nat × α) × List Bool) : BOp α → Option (List (Nat × α) × List Bool)
  | .inner => if st.2.length + 1 > 128 then none else some (st.1, false :: st.2)
  | .leaf s => some (st.1 ++ [(st.2.length, s)], unwindL st.2)

def Sim {α : Type} (b : Builder α) (st : List (Nat × α) × List Bool) : Prop :=
  b.depthsLeaves = st.1 ∧ RB b st.2

theorem pushInner_sim {α : Type} {b : Builder α} {st : List (Nat × α) × List Bool} (h : Sim b st) :
    (b.pushInnerNode = none ∧ stepL st .inner = none) ∨
    ∃ b' st', b.pushInnerNode = some b' ∧ stepL st .inner = some st' ∧ Sim b' st' := by
  obtain ⟨hd, hh, hle, hr, hc⟩ := h
  by_cases c : st.2.length + 1 > 128
  · left
    simp [Builder.pushInnerNode, stepL, c, hh, MAXN]
  · right
    refine ⟨{ b with currentHeight := b.currentHeight + 1 }, (st.1, false :: st.2), ?_, ?_, hd, ?_⟩
    · simp [Builder.pushInnerNode, hh, MAXN]; omega
    · simp [stepL, c]
    · refine ⟨by simp [hh], by simp; omega, ⟨?_, hr⟩, ?_⟩
      · exact hc _ (by omega) (by omega)
      · intro i h1 h2
        exact hc i (by simp at h1; omega) h2

/-- the `while` loop of `push_leaf` on levels ≤ 127 -/
theorem heightLoop_sim (l : List Bool) : ∀ (bits : BitVec 128),
    l.length ≤ 127 → Rep bits.getLsbD 1 l →
    (∀ i, l.length < i → i ≤ 127 → bits.getLsbD i = false) →
    (Builder.heightLoop bits l.length).2 = (unwindL l).length ∧
    Rep (Builder.heightLoop bits l.length).1.getLsbD 1 (unwindL l) ∧
    (∀ i, (unwindL l).length < i → i ≤ 127 → (Builder.heightLoop bits l.length).1.getLsbD i = false) := by
  induction l with
  | nil => intro bits _ hr hc; exact ⟨rfl, trivial, hc⟩
  | cons x l ih =>
    intro bits hle hr hc
    simp only [List.length_cons] at hle
    have hlt : l.length + 1 < 128 := by omega
    obtain ⟨hx, hr'⟩ := hr
    cases x with
    | false =>
      have ht : (bits &&& (1#128 <<< (l.length + 1)) == 0#128) = true := by
        rw [bit_test_eq _ _ hlt, hx]; rfl
      simp only [List.length_cons, Builder.heightLoop, ht, if_true, unwindL]
      refine ⟨trivial, ⟨by simp [getLsbD_setBit _ _ _ hlt], ?_⟩, ?_⟩
      · refine Rep.congr ?_ hr'
        intro i _ hi
        have : i ≠ l.length + 1 := by omega
        simp [getLsbD_setBit _ _ _ hlt, this]
      · intro i h1 h2
        have : i ≠ l.length + 1 := by omega
        simp [getLsbD_setBit _ _ _ hlt, this]
        exact hc i (by simp; omega) h2
    | true =>
      have ht : (bits &&& (1#128 <<< (l.length + 1)) == 0#128) = false := by
        rw [bit_test_eq _ _ hlt, hx]; rfl
      simp only [List.length_cons, Builder.heightLoop, ht, unwindL]
      apply ih
      · omega
      · refine Rep.congr ?_ hr'
        intro i _ hi
        have : i ≠ l.length + 1 := by omega
        simp [getLsbD_clearBit _ _ _ hlt, this]
      · intro i h1 h2
        by_cases e : i = l.length + 1
        · simp [getLsbD_clearBit _ _ _ hlt, e]
        · simp [getLsbD_clearBit _ _ _ hlt, e]
          exact hc i (by simp; omega) h2

end MsVerif.Tap

/-
C09 helper lemmas, part 2: what the literal fold of `ExtData::threshold` computes.

The Rust code sorts the children by `sat - dissat` of one field (children lacking one of the two
figures first), walks the vector from the back and takes the SATISFACTION figure of the first
`k + 1` children (`i <= k`) and the dissatisfaction figure of the rest.  `thresh_field_bound`:
for any choice of at most `k` children to satisfy (the others dissatisfied), the sum of the
chosen figures is at most that result — PROVIDED none of the first `k + 1` differences is
negative (`hcut`).  Without that proviso the statement is false (see `Thm/C09.lean`).
-/
import MsVerif.Lemmas.BoundsBasic

namespace MsVerif.C09
open MsVerif ExtData

/-- a child's pair of figures together with the satisfier's choice (`true` = satisfied) -/
abbrev ZE := ExtData.SD × Bool

variable (proj : SatData → Nat)

def insertZ (x : ZE) : List ZE → List ZE
  | [] => [x]
  | y :: ys => if keyLe (sortKey proj y.1) (sortKey proj x.1) then y :: insertZ x ys
               else x :: y :: ys

def sortZ (v : List ZE) : List ZE := v.foldl (fun acc x => insertZ proj x acc) []

theorem insertZ_map_fst (x : ZE) (l : List ZE) :
    (insertZ proj x l).map Prod.fst = insertSD proj x.1 (l.map Prod.fst) := by
  induction l with
  | nil => rfl
  | cons y ys ih =>
    simp only [insertZ, List.map_cons, insertSD]
    split <;> simp [ih]

theorem foldl_insertZ_map_fst (v : List ZE) : ∀ acc : List ZE,
    (v.foldl (fun acc x => insertZ proj x acc) acc).map Prod.fst
      = (v.map Prod.fst).foldl (fun acc x => insertSD proj x acc) (acc.map Prod.fst) := by
  induction v with
  | nil => intro acc; rfl
  | cons x xs ih => intro acc; simp only [List.foldl_cons, List.map_cons]; rw [ih, insertZ_map_fst]

theorem sortZ_map_fst (v : List ZE) : (sortZ proj v).map Prod.fst = sortSD proj (v.map Prod.fst) := by
  simpa [sortZ, sortSD] using foldl_insertZ_map_fst proj v []

theorem insertZ_perm (x : ZE) (l : List ZE) : (insertZ proj x l).Perm (x :: l) := by
  induction l with
  | nil => exact List.Perm.refl _
  | cons y ys ih =>
    simp only [insertZ]
    split
    · exact ((List.perm_cons y).2 ih).trans (List.Perm.swap x y ys)
    · exact List.Perm.refl _

theorem foldl_insertZ_perm (v : List ZE) : ∀ acc : List ZE,
    (v.foldl (fun acc x => insertZ proj x acc) acc).Perm (v ++ acc) := by
  induction v with
  | nil => intro acc; exact List.Perm.refl _
  | cons x xs ih =>
    intro acc
    simp only [List.foldl_cons]
    refine (ih _).trans ?_
    refine (List.Perm.append_left xs (insertZ_perm proj x acc)).trans ?_
    simpa using (List.perm_middle (a := x) (l₁ := xs) (l₂ := acc))

theorem sortZ_perm (v : List ZE) : (sortZ proj v).Perm v := by
  simpa [sortZ] using foldl_insertZ_perm proj v []

/-! ### sortedness -/

theorem keyLe_total (a b : Option Int) : keyLe a b = true ∨ keyLe b a = true := by
  cases a <;> cases b <;> simp [keyLe]; omega

theorem keyLe_trans {a b c : Option Int} (h1 : keyLe a b = true) (h2 : keyLe b c = true) :
    keyLe a c = true := by
  cases a <;> cases b <;> cases c <;> simp_all [keyLe]; omega

def Asc (l : List ZE) : Prop :=
  l.Pairwise (fun a b => keyLe (sortKey proj a.1) (sortKey proj b.1) = true)

theorem insertZ_asc (x : ZE) (l : List ZE) (h : Asc proj l) : Asc proj (insertZ proj x l) := by
  induction l with
  | nil => simp [insertZ, Asc]
  | cons y ys ih =>
    simp only [Asc, List.pairwise_cons] at h
    simp only [insertZ]
    split
    · rename_i hle
      simp only [Asc, List.pairwise_cons]
      refine ⟨?_, ih h.2⟩
      intro z hz
      have := (insertZ_perm proj x ys).mem_iff.1 hz
      rcases List.mem_cons.1 this with rfl | hz'
      · exact hle
      · exact h.1 z hz'
    · rename_i hnle
      have hxy : keyLe (sortKey proj x.1) (sortKey proj y.1) = true := by
        rcases keyLe_total (sortKey proj x.1) (sortKey proj y.1) with h' | h'
        · exact h'
        · exact absurd h' hnle
      simp only [Asc, List.pairwise_cons]
      refine ⟨?_, h.1, h.2⟩
      intro z hz
      rcases List.mem_cons.1 hz with rfl | hz'
      · exact hxy
      · exact keyLe_trans hxy (h.1 z hz')

theorem foldl_insertZ_asc (v : List ZE) : ∀ acc : List ZE, Asc proj acc →
    Asc proj (v.foldl (fun acc x => insertZ proj x acc) acc) := by
  induction v with
  | nil => intro acc h; exact h
  | cons x xs ih => intro acc h; exact ih _ (insertZ_asc proj x acc h)

theorem sortZ_asc (v : List ZE) : Asc proj (sortZ proj v) :=
  foldl_insertZ_asc proj v [] List.Pairwise.nil

/-! ### the fold -/

def satV (x : SD) : Nat := proj (x.1.getD default)
def disV (x : SD) : Nat := proj (x.2.getD default)
/-- the figure of the alternative the satisfier chose -/
def val (z : ZE) : Nat := if z.2 then satV proj z.1 else disV proj z.1
/-- the chosen alternative has a figure -/
def Valid (z : ZE) : Prop := if z.2 then z.1.1.isSome = true else z.1.2.isSome = true

theorem threshFold_some (k : Nat) : ∀ (l : List SD) (i acc total : Nat),
    threshFold k proj (fun a b => a + b) i acc l = some total →
    (∀ x ∈ l.take (k + 1 - i), x.1.isSome = true) ∧ (∀ x ∈ l.drop (k + 1 - i), x.2.isSome = true) ∧
    total = acc + ((l.take (k + 1 - i)).map (satV proj)).sum + ((l.drop (k + 1 - i)).map (disV proj)).sum := by
  intro l
  induction l with
  | nil => intro i acc total h; simp [threshFold] at h; simp [h]
  | cons x rest ih =>
    intro i acc total h
    obtain ⟨sat, dissat⟩ := x
    simp only [threshFold] at h
    split at h
    · rename_i hik
      have hk : k + 1 - i = (k + 1 - (i + 1)) + 1 := by omega
      cases sat with
      | none => simp at h
      | some s =>
        simp only at h
        obtain ⟨h1, h2, h3⟩ := ih _ _ _ h
        rw [hk]
        simp only [List.take_succ_cons, List.drop_succ_cons, List.mem_cons, List.map_cons, List.sum_cons]
        refine ⟨?_, h2, ?_⟩
        · rintro y (rfl | hy)
          · rfl
          · exact h1 y hy
        · simp only [satV, Option.getD_some]; omega
    · rename_i hik
      have hk : k + 1 - i = 0 := by omega
      have hk' : k + 1 - (i + 1) = 0 := by omega
      cases dissat with
      | none => simp at h
      | some d =>
        simp only at h
        obtain ⟨_, h2, h3⟩ := ih _ _ _ h
        rw [hk] ; rw [hk'] at h2 h3
        simp only [List.take_zero, List.drop_zero, List.mem_cons, List.map_cons, List.sum_cons,
          List.map_nil, List.sum_nil, List.not_mem_nil] at h2 h3 ⊢
        refine ⟨fun _ h => h.elim, ?_, ?_⟩
        · rintro y (rfl | hy)
          · rfl
          · exact h2 y hy
        · simp only [disV, Option.getD_some]; omega

theorem sum_val_le_sat (t : Nat) : ∀ l : List ZE,
    (∀ z ∈ l, z.2 = false → disV proj z.1 + t ≤ satV proj z.1) →
    (l.map (val proj)).sum + t * l.countP (fun z => !z.2) ≤ (l.map (fun z => satV proj z.1)).sum := by
  intro l
  induction l with
  | nil => intro _; simp
  | cons z zs ih =>
    intro h
    have ih' := ih (fun y hy => h y (List.mem_cons_of_mem _ hy))
    have hz := h z (List.mem_cons_self ..)
    simp only [List.map_cons, List.sum_cons, List.countP_cons]
    cases hb : z.2
    · have := hz hb
      simp only [val, hb, Bool.not_false, if_true, Bool.false_eq_true, if_false]
      rw [Nat.mul_add, Nat.mul_one]; omega
    · simp only [val, hb, Bool.not_true, if_true, Bool.false_eq_true, if_false, Nat.add_zero]
      omega

theorem sum_val_le_dis (t : Nat) : ∀ l : List ZE,
    (∀ z ∈ l, z.2 = true → satV proj z.1 ≤ disV proj z.1 + t) →
    (l.map (val proj)).sum ≤ (l.map (fun z => disV proj z.1)).sum + t * l.countP (fun z => z.2) := by
  intro l
  induction l with
  | nil => intro _; simp
  | cons z zs ih =>
    intro h
    have ih' := ih (fun y hy => h y (List.mem_cons_of_mem _ hy))
    have hz := h z (List.mem_cons_self ..)
    simp only [List.map_cons, List.sum_cons, List.countP_cons]
    cases hb : z.2
    · simp only [val, hb, Bool.false_eq_true, if_false, Nat.add_zero]; omega
    · have := hz hb
      simp only [val, hb, if_true]
      rw [Nat.mul_add, Nat.mul_one]; omega

theorem exists_min {α : Type} (g : α → Nat) : ∀ l : List α, l ≠ [] → ∃ x ∈ l, ∀ y ∈ l, g x ≤ g y := by
  intro l
  induction l with
  | nil => intro h; exact absurd rfl h
  | cons a as ih =>
    intro _
    by_cases has : as = []
    · subst has; exact ⟨a, List.mem_cons_self .., fun y hy => by simp at hy; subst hy; exact Nat.le_refl _⟩
    · obtain ⟨m, hm, hmin⟩ := ih has
      by_cases h : g a ≤ g m
      · refine ⟨a, List.mem_cons_self .., ?_⟩
        intro y hy
        rcases List.mem_cons.1 hy with rfl | hy
        · exact Nat.le_refl _
        · exact Nat.le_trans h (hmin y hy)
      · refine ⟨m, List.mem_cons_of_mem _ hm, ?_⟩
        intro y hy
        rcases List.mem_cons.1 hy with rfl | hy
        · omega
        · exact hmin y hy

theorem sortKey_full {x : SD} (h1 : x.1.isSome = true) (h2 : x.2.isSome = true) :
    sortKey proj x = some (Int.ofNat (satV proj x) - Int.ofNat (disV proj x)) := by
  obtain ⟨a, b⟩ := x
  cases a <;> cases b <;> simp_all [sortKey, satV, disV]

/-- a threshold `t` separating the differences of the dissatisfied children among the first
`k+1` from those of the satisfied children among the rest -/
theorem exists_threshold (hd tl : List ZE)
    (hs : ∀ x ∈ hd, x.1.1.isSome = true) (hvh : ∀ x ∈ hd, Valid x)
    (hvt : ∀ x ∈ tl, Valid x) (htl : ∀ y ∈ tl, y.1.2.isSome = true)
    (hcut : ∀ x ∈ hd, x.1.1.isSome = true → x.1.2.isSome = true → disV proj x.1 ≤ satV proj x.1)
    (hord : ∀ x ∈ hd, ∀ y ∈ tl, keyLe (sortKey proj y.1) (sortKey proj x.1) = true) :
    ∃ t, (∀ z ∈ hd, z.2 = false → disV proj z.1 + t ≤ satV proj z.1) ∧
      (hd.countP (fun z => !z.2) = 0 ∨ ∀ z ∈ tl, z.2 = true → satV proj z.1 ≤ disV proj z.1 + t) := by
  by_cases hF : hd.filter (fun z => !z.2) = []
  · refine ⟨0, ?_, .inl ?_⟩
    · intro z hz hb
      have : z ∈ hd.filter (fun z => !z.2) := List.mem_filter.2 ⟨hz, by simp [hb]⟩
      rw [hF] at this; exact absurd this List.not_mem_nil
    · rw [List.countP_eq_length_filter, hF]; rfl
  · obtain ⟨m, hm, hmin⟩ := exists_min (fun z : ZE => satV proj z.1 - disV proj z.1) _ hF
    obtain ⟨hmhd, hmb⟩ := List.mem_filter.1 hm
    have hmb' : m.2 = false := by simpa using hmb
    have hm2 : m.1.2.isSome = true := by have := hvh m hmhd; simpa [Valid, hmb'] using this
    have hmle := hcut m hmhd (hs m hmhd) hm2
    refine ⟨satV proj m.1 - disV proj m.1, ?_, .inr ?_⟩
    · intro z hz hb
      have hzf : z ∈ hd.filter (fun z => !z.2) := List.mem_filter.2 ⟨hz, by simp [hb]⟩
      have h1 := hmin z hzf
      have hz2 : z.1.2.isSome = true := by have := hvh z hz; simpa [Valid, hb] using this
      have := hcut z hz (hs z hz) hz2
      omega
    · intro y hy hb
      have hy1 : y.1.1.isSome = true := by have := hvt y hy; simpa [Valid, hb] using this
      have hy2 := htl y hy
      have hk := hord m hmhd y hy
      rw [sortKey_full proj hy1 hy2, sortKey_full proj (hs m hmhd) hm2] at hk
      simp only [keyLe, decide_eq_true_eq, Int.ofNat_eq_natCast] at hk
      omega

/-- THE bound for one field of `ExtData::threshold` -/
theorem thresh_field_bound (k : Nat) (z : List ZE) (total : Nat)
    (hfold : threshFold k proj (fun a b => a + b) 0 0 (sortSD proj (z.map Prod.fst)).reverse = some total)
    (hvalid : ∀ x ∈ z, Valid x) (hcount : z.countP (fun x => x.2) ≤ k)
    (hcut : ∀ x ∈ ((sortSD proj (z.map Prod.fst)).reverse).take (k + 1),
      x.1.isSome = true → x.2.isSome = true → disV proj x ≤ satV proj x) :
    (z.map (val proj)).sum ≤ total := by
  -- the sorted vector, carrying the choices along
  let r := (sortZ proj z).reverse
  have hrfst : r.map Prod.fst = (sortSD proj (z.map Prod.fst)).reverse := by
    simp only [r, List.map_reverse, sortZ_map_fst]
  have hperm : r.Perm z := (List.reverse_perm _).trans (sortZ_perm proj z)
  have hdesc : r.Pairwise (fun a b => keyLe (sortKey proj b.1) (sortKey proj a.1) = true) := by
    simp only [r]; exact List.pairwise_reverse.2 (sortZ_asc proj z)
  rw [← hrfst] at hfold hcut
  obtain ⟨f1, f2, f3⟩ := threshFold_some proj k _ _ _ _ hfold
  simp only [Nat.sub_zero, Nat.zero_add] at f1 f2 f3
  -- split at k+1
  have hsplit : r.take (k + 1) ++ r.drop (k + 1) = r := List.take_append_drop _ _
  have hs : ∀ x ∈ r.take (k + 1), x.1.1.isSome = true := by
    intro x hx; apply f1; rw [← List.map_take]; exact List.mem_map_of_mem hx
  have htl : ∀ x ∈ r.drop (k + 1), x.1.2.isSome = true := by
    intro x hx; apply f2; rw [← List.map_drop]; exact List.mem_map_of_mem hx
  have hvr : ∀ x ∈ r, Valid x := fun x hx => hvalid x (hperm.mem_iff.1 hx)
  have hcut' : ∀ x ∈ r.take (k + 1), x.1.1.isSome = true → x.1.2.isSome = true →
      disV proj x.1 ≤ satV proj x.1 := by
    intro x hx; apply hcut; rw [← List.map_take]; exact List.mem_map_of_mem hx
  have hord : ∀ x ∈ r.take (k + 1), ∀ y ∈ r.drop (k + 1),
      keyLe (sortKey proj y.1) (sortKey proj x.1) = true := by
    rw [← hsplit] at hdesc
    exact (List.pairwise_append.1 hdesc).2.2
  obtain ⟨t, ht1, ht2⟩ := exists_threshold proj (r.take (k + 1)) (r.drop (k + 1)) hs
    (fun x hx => hvr x (List.mem_of_mem_take hx)) (fun x hx => hvr x (List.mem_of_mem_drop hx))
    htl hcut' hord
  -- counting
  have hcnt : (r.take (k + 1)).countP (fun x => x.2) + (r.drop (k + 1)).countP (fun x => x.2) ≤ k := by
    rw [← List.countP_append, hsplit, hperm.countP_eq]; exact hcount
  have hlen := List.length_eq_countP_add_countP (fun x : ZE => x.2) (l := r.take (k + 1))
  have hslack : (r.drop (k + 1)).countP (fun x => x.2) ≤ (r.take (k + 1)).countP (fun x => !x.2) := by
    by_cases hl : r.length ≤ k + 1
    · rw [List.drop_of_length_le hl]; simp
    · have : (r.take (k + 1)).length = k + 1 := by rw [List.length_take]; omega
      have e : (r.take (k + 1)).countP (fun x => !x.2) = (r.take (k + 1)).countP (fun a => ¬(a.2 = true)) := by
        congr 1; funext a; cases a.2 <;> simp
      rw [e]; omega
  -- the two halves
  have hA := sum_val_le_sat proj t (r.take (k + 1)) ht1
  have hB : ((r.drop (k + 1)).map (val proj)).sum
      ≤ ((r.drop (k + 1)).map (fun z => disV proj z.1)).sum + t * (r.drop (k + 1)).countP (fun z => z.2) := by
    rcases ht2 with h0 | h
    · have hz : (r.drop (k + 1)).countP (fun x => x.2) = 0 := by omega
      apply sum_val_le_dis
      intro y hy hb
      have := List.countP_eq_zero.1 hz y hy
      simp [hb] at this
    · exact sum_val_le_dis proj t _ h
  have hmul := Nat.mul_le_mul_left t hslack
  have hsum : (z.map (val proj)).sum
      = ((r.take (k + 1)).map (val proj)).sum + ((r.drop (k + 1)).map (val proj)).sum := by
    rw [← List.sum_append, ← List.map_append, hsplit]
    exact ((hperm.map (val proj)).sum_nat).symm
  have e1 : ((r.map Prod.fst).take (k + 1)).map (satV proj) = (r.take (k + 1)).map (fun z => satV proj z.1) := by
    rw [← List.map_take, List.map_map]; rfl
  have e2 : ((r.map Prod.fst).drop (k + 1)).map (disV proj) = (r.drop (k + 1)).map (fun z => disV proj z.1) := by
    rw [← List.map_drop, List.map_map]; rfl
  rw [e1, e2] at f3
  omega

end MsVerif.C09

/-
C09 helper lemmas, part 2: what the literal fold of `ExtData::threshold` computes.

The Rust code sorts the children by `sat - dissat` of one field (children lacking one of the two
figures first), walks the vector from the back and takes the SATISFACTION figure of the first
`k` children (`i < k`) and the dissatisfaction figure of the rest.  `thresh_field_bound`: for any
choice of exactly `min k n` children to satisfy (the others dissatisfied), the sum of the chosen
figures is at most that result (differences may be negative: an exchange argument with an
integer threshold).  `thresh_fold_defined`: the fold is defined whenever such a choice exists
and every child has a dissatisfaction figure.
-/
import MsVerif.Lemmas.BoundsBasic

namespace MsVerif.C09
open MsVerif ExtData

/-- a child's pair of figures together with the satisfier's choice (`true` = satisfied) -/
abbrev ZE := ExtData.SD × Bool

variable (proj : SatData → Nat)

def insertZ (x : ZE) : List ZE → List ZE
  | [] => [x]
  | y :: ys => if keyLe (sortKey proj y.1) (sortKey proj x.1) then y :: insertZ x ys
               else x :: y :: ys

def sortZ (v : List ZE) : List ZE := v.foldl (fun acc x => insertZ proj x acc) []

theorem insertZ_map_fst (x : ZE) (l : List ZE) :
    (insertZ proj x l).map Prod.fst = insertSD proj x.1 (l.map Prod.fst) := by
  induction l with
  | nil => rfl
  | cons y ys ih =>
    simp only [insertZ, List.map_cons, insertSD]
    split <;> simp [ih]

theorem foldl_insertZ_map_fst (v : List ZE) : ∀ acc : List ZE,
    (v.foldl (fun acc x => insertZ proj x acc) acc).map Prod.fst
      = (v.map Prod.fst).foldl (fun acc x => insertSD proj x acc) (acc.map Prod.fst) := by
  induction v with
  | nil => intro acc; rfl
  | cons x xs ih => intro acc; simp only [List.foldl_cons, List.map_cons]; rw [ih, insertZ_map_fst]

theorem sortZ_map_fst (v : List ZE) : (sortZ proj v).map Prod.fst = sortSD proj (v.map Prod.fst) := by
  simpa [sortZ, sortSD] using foldl_insertZ_map_fst proj v []

theorem insertZ_perm (x : ZE) (l : List ZE) : (insertZ proj x l).Perm (x :: l) := by
  induction l with
  | nil => exact List.Perm.refl _
  | cons y ys ih =>
    simp only [insertZ]
    split
    · exact ((List.perm_cons y).2 ih).trans (List.Perm.swap x y ys)
    · exact List.Perm.refl _

theorem foldl_insertZ_perm (v : List ZE) : ∀ acc : List ZE,
    (v.foldl (fun acc x => insertZ proj x acc) acc).Perm (v ++ acc) := by
  induction v with
  | nil => intro acc; exact List.Perm.refl _
  | cons x xs ih =>
    intro acc
    simp only [List.foldl_cons]
    refine (ih _).trans ?_
    refine (List.Perm.append_left xs (insertZ_perm proj x acc)).trans ?_
    simpa using (List.perm_middle (a := x) (l₁ := xs) (l₂ := acc))

theorem sortZ_perm (v : List ZE) : (sortZ proj v).Perm v := by
  simpa [sortZ] using foldl_insertZ_perm proj v []

/-! ### sortedness -/

theorem keyLe_total (a b : Option Int) : keyLe a b = true ∨ keyLe b a = true := by
  cases a <;> cases b <;> simp [keyLe]; omega

theorem keyLe_trans {a b c : Option Int} (h1 : keyLe a b = true) (h2 : keyLe b c = true) :
    keyLe a c = true := by
  cases a <;> cases b <;> cases c <;> simp_all [keyLe]; omega

def Asc (l : List ZE) : Prop :=
  l.Pairwise (fun a b => keyLe (sortKey proj a.1) (sortKey proj b.1) = true)

theorem insertZ_asc (x : ZE) (l : List ZE) (h : Asc proj l) : Asc proj (insertZ proj x l) := by
  induction l with
  | nil => simp [insertZ, Asc]
  | cons y ys ih =>
    simp only [Asc, List.pairwise_cons] at h
    simp only [insertZ]
    split
    · rename_i hle
      simp only [Asc, List.pairwise_cons]
      refine ⟨?_, ih h.2⟩
      intro z hz
      have := (insertZ_perm proj x ys).mem_iff.1 hz
      rcases List.mem_cons.1 this with rfl | hz'
      · exact hle
      · exact h.1 z hz'
    · rename_i hnle
      have hxy : keyLe (sortKey proj x.1) (sortKey proj y.1) = true := by
        rcases keyLe_total (sortKey proj x.1) (sortKey proj y.1) with h' | h'
        · exact h'
        · exact absurd h' hnle
      simp only [Asc, List.pairwise_cons]
      refine ⟨?_, h.1, h.2⟩
      intro z hz
      rcases List.mem_cons.1 hz with rfl | hz'
      · exact hxy
      · exact keyLe_trans hxy (h.1 z hz')

theorem foldl_insertZ_asc (v : List ZE) : ∀ acc : List ZE, Asc proj acc →
    Asc proj (v.foldl (fun acc x => insertZ proj x acc) acc) := by
  induction v with
  | nil => intro acc h; exact h
  | cons x xs ih => intro acc h; exact ih _ (insertZ_asc proj x acc h)

theorem sortZ_asc (v : List ZE) : Asc proj (sortZ proj v) :=
  foldl_insertZ_asc proj v [] List.Pairwise.nil

/-! ### the fold -/

def satV (x : SD) : Nat := proj (x.1.getD default)
def disV (x : SD) : Nat := proj (x.2.getD default)
/-- the figure of the alternative the satisfier chose -/
def val (z : ZE) : Nat := if z.2 then satV proj z.1 else disV proj z.1
/-- the chosen alternative has a figure -/
def Valid (z : ZE) : Prop := if z.2 then z.1.1.isSome = true else z.1.2.isSome = true

theorem threshFold_some (k : Nat) : ∀ (l : List SD) (i acc total : Nat),
    threshFold k proj (fun a b => a + b) i acc l = some total →
    (∀ x ∈ l.take (k - i), x.1.isSome = true) ∧ (∀ x ∈ l.drop (k - i), x.2.isSome = true) ∧
    total = acc + ((l.take (k - i)).map (satV proj)).sum + ((l.drop (k - i)).map (disV proj)).sum := by
  intro l
  induction l with
  | nil => intro i acc total h; simp [threshFold] at h; simp [h]
  | cons x rest ih =>
    intro i acc total h
    obtain ⟨sat, dissat⟩ := x
    simp only [threshFold] at h
    split at h
    · rename_i hik
      have hk : k - i = (k - (i + 1)) + 1 := by omega
      cases sat with
      | none => simp at h
      | some s =>
        simp only at h
        obtain ⟨h1, h2, h3⟩ := ih _ _ _ h
        rw [hk]
        simp only [List.take_succ_cons, List.drop_succ_cons, List.mem_cons, List.map_cons, List.sum_cons]
        refine ⟨?_, h2, ?_⟩
        · rintro y (rfl | hy)
          · rfl
          · exact h1 y hy
        · simp only [satV, Option.getD_some]; omega
    · rename_i hik
      have hk : k - i = 0 := by omega
      have hk' : k - (i + 1) = 0 := by omega
      cases dissat with
      | none => simp at h
      | some d =>
        simp only at h
        obtain ⟨_, h2, h3⟩ := ih _ _ _ h
        rw [hk] ; rw [hk'] at h2 h3
        simp only [List.take_zero, List.drop_zero, List.mem_cons, List.map_cons, List.sum_cons,
          List.map_nil, List.sum_nil, List.not_mem_nil] at h2 h3 ⊢
        refine ⟨fun _ h => h.elim, ?_, ?_⟩
        · rintro y (rfl | hy)
          · rfl
          · exact h2 y hy
        · simp only [disV, Option.getD_some]; omega

/-- the fold is defined as soon as the first `k` entries have a satisfaction figure and the rest
a dissatisfaction figure (any combining function) -/
theorem threshFold_isSome (cmb : Nat → Nat → Nat) (k : Nat) : ∀ (l : List SD) (i acc : Nat),
    (∀ x ∈ l.take (k - i), x.1.isSome = true) → (∀ x ∈ l.drop (k - i), x.2.isSome = true) →
    (threshFold k proj cmb i acc l).isSome = true := by
  intro l
  induction l with
  | nil => intro i acc _ _; rfl
  | cons x rest ih =>
    intro i acc h1 h2
    obtain ⟨sat, dissat⟩ := x
    simp only [threshFold]
    split
    · rename_i hik
      have hk : k - i = (k - (i + 1)) + 1 := by omega
      rw [hk] at h1 h2
      simp only [List.take_succ_cons, List.drop_succ_cons, List.mem_cons] at h1 h2
      have hs := h1 (sat, dissat) (.inl rfl)
      cases sat with
      | none => simp at hs
      | some s => exact ih _ _ (fun y hy => h1 y (.inr hy)) h2
    · rename_i hik
      have hk : k - i = 0 := by omega
      have hk' : k - (i + 1) = 0 := by omega
      rw [hk] at h2
      simp only [List.drop_zero, List.mem_cons] at h2
      have hd := h2 (sat, dissat) (.inl rfl)
      cases dissat with
      | none => simp at hd
      | some d =>
        apply ih
        · rw [hk']; simp
        · rw [hk']; simpa using fun y hy => h2 y (.inr hy)

theorem natCast_sum {α : Type} (f : α → Nat) (l : List α) :
    (((l.map f).sum : Nat) : Int) = (l.map (fun x => (f x : Int))).sum := by
  induction l with
  | nil => rfl
  | cons a as ih => simp only [List.map_cons, List.sum_cons, Int.natCast_add, ih]

theorem sum_val_le_sat (t : Int) : ∀ l : List ZE,
    (∀ z ∈ l, z.2 = false → (disV proj z.1 : Int) + t ≤ satV proj z.1) →
    (l.map (fun z => (val proj z : Int))).sum + t * (l.countP (fun z => !z.2) : Nat)
      ≤ (l.map (fun z => (satV proj z.1 : Int))).sum := by
  intro l
  induction l with
  | nil => intro _; simp
  | cons z zs ih =>
    intro h
    have ih' := ih (fun y hy => h y (List.mem_cons_of_mem _ hy))
    have hz := h z (List.mem_cons_self ..)
    simp only [List.map_cons, List.sum_cons, List.countP_cons]
    cases hb : z.2
    · have := hz hb
      have hv : val proj z = disV proj z.1 := by simp [val, hb]
      simp only [hv, Bool.not_false, if_true, Int.natCast_add, Int.natCast_one, Int.mul_add, Int.mul_one]
      omega
    · have hv : val proj z = satV proj z.1 := by simp [val, hb]
      simp only [hv, Bool.not_true, Bool.false_eq_true, if_false, Nat.add_zero]
      omega

theorem sum_val_le_dis (t : Int) : ∀ l : List ZE,
    (∀ z ∈ l, z.2 = true → (satV proj z.1 : Int) ≤ disV proj z.1 + t) →
    (l.map (fun z => (val proj z : Int))).sum
      ≤ (l.map (fun z => (disV proj z.1 : Int))).sum + t * (l.countP (fun z => z.2) : Nat) := by
  intro l
  induction l with
  | nil => intro _; simp
  | cons z zs ih =>
    intro h
    have ih' := ih (fun y hy => h y (List.mem_cons_of_mem _ hy))
    have hz := h z (List.mem_cons_self ..)
    simp only [List.map_cons, List.sum_cons, List.countP_cons]
    cases hb : z.2
    · have hv : val proj z = disV proj z.1 := by simp [val, hb]
      simp only [hv, Bool.false_eq_true, if_false, Nat.add_zero]; omega
    · have := hz hb
      have hv : val proj z = satV proj z.1 := by simp [val, hb]
      simp only [hv, if_true, Int.natCast_add, Int.natCast_one, Int.mul_add, Int.mul_one]
      omega

theorem exists_min {α : Type} (g : α → Int) : ∀ l : List α, l ≠ [] → ∃ x ∈ l, ∀ y ∈ l, g x ≤ g y := by
  intro l
  induction l with
  | nil => intro h; exact absurd rfl h
  | cons a as ih =>
    intro _
    by_cases has : as = []
    · subst has; exact ⟨a, List.mem_cons_self .., fun y hy => by simp at hy; subst hy; exact Int.le_refl _⟩
    · obtain ⟨m, hm, hmin⟩ := ih has
      by_cases h : g a ≤ g m
      · refine ⟨a, List.mem_cons_self .., ?_⟩
        intro y hy
        rcases List.mem_cons.1 hy with rfl | hy
        · exact Int.le_refl _
        · exact Int.le_trans h (hmin y hy)
      · refine ⟨m, List.mem_cons_of_mem _ hm, ?_⟩
        intro y hy
        rcases List.mem_cons.1 hy with rfl | hy
        · omega
        · exact hmin y hy

theorem sortKey_full {x : SD} (h1 : x.1.isSome = true) (h2 : x.2.isSome = true) :
    sortKey proj x = some (Int.ofNat (satV proj x) - Int.ofNat (disV proj x)) := by
  obtain ⟨a, b⟩ := x
  cases a <;> cases b <;> simp_all [sortKey, satV, disV]

/-- an integer threshold `t` separating the differences of the dissatisfied children among the
first `k` from those of the satisfied children among the rest -/
theorem exists_threshold (hd tl : List ZE)
    (hs : ∀ x ∈ hd, x.1.1.isSome = true) (hvh : ∀ x ∈ hd, Valid x)
    (hvt : ∀ x ∈ tl, Valid x) (htl : ∀ y ∈ tl, y.1.2.isSome = true)
    (hord : ∀ x ∈ hd, ∀ y ∈ tl, keyLe (sortKey proj y.1) (sortKey proj x.1) = true) :
    ∃ t : Int, (∀ z ∈ hd, z.2 = false → (disV proj z.1 : Int) + t ≤ satV proj z.1) ∧
      (hd.countP (fun z => !z.2) = 0 ∨ ∀ z ∈ tl, z.2 = true → (satV proj z.1 : Int) ≤ disV proj z.1 + t) := by
  by_cases hF : hd.filter (fun z => !z.2) = []
  · refine ⟨0, ?_, .inl ?_⟩
    · intro z hz hb
      have : z ∈ hd.filter (fun z => !z.2) := List.mem_filter.2 ⟨hz, by simp [hb]⟩
      rw [hF] at this; exact absurd this List.not_mem_nil
    · rw [List.countP_eq_length_filter, hF]; rfl
  · obtain ⟨m, hm, hmin⟩ := exists_min (fun z : ZE => (satV proj z.1 : Int) - disV proj z.1) _ hF
    obtain ⟨hmhd, hmb⟩ := List.mem_filter.1 hm
    have hmb' : m.2 = false := by simpa using hmb
    have hm2 : m.1.2.isSome = true := by have := hvh m hmhd; simpa [Valid, hmb'] using this
    refine ⟨(satV proj m.1 : Int) - disV proj m.1, ?_, .inr ?_⟩
    · intro z hz hb
      have hzf : z ∈ hd.filter (fun z => !z.2) := List.mem_filter.2 ⟨hz, by simp [hb]⟩
      have h1 := hmin z hzf
      omega
    · intro y hy hb
      have hy1 : y.1.1.isSome = true := by have := hvt y hy; simpa [Valid, hb] using this
      have hy2 := htl y hy
      have hk := hord m hmhd y hy
      rw [sortKey_full proj hy1 hy2, sortKey_full proj (hs m hmhd) hm2] at hk
      simp only [keyLe, decide_eq_true_eq, Int.ofNat_eq_natCast] at hk
      omega

/-- the sorted vector (largest difference first), carrying the choices along -/
def sortedRev (z : List ZE) : List ZE := (sortZ proj z).reverse

theorem sortedRev_fst (z : List ZE) :
    (sortedRev proj z).map Prod.fst = (sortSD proj (z.map Prod.fst)).reverse := by
  simp only [sortedRev, List.map_reverse, sortZ_map_fst]

theorem sortedRev_perm (z : List ZE) : (sortedRev proj z).Perm z :=
  (List.reverse_perm _).trans (sortZ_perm proj z)

theorem sortedRev_desc (z : List ZE) :
    (sortedRev proj z).Pairwise (fun a b => keyLe (sortKey proj b.1) (sortKey proj a.1) = true) := by
  simp only [sortedRev]; exact List.pairwise_reverse.2 (sortZ_asc proj z)

/-- THE bound for one field of `ExtData::threshold` -/
theorem thresh_field_bound (k : Nat) (z : List ZE) (total : Nat)
    (hfold : threshFold k proj (fun a b => a + b) 0 0 (sortSD proj (z.map Prod.fst)).reverse = some total)
    (hvalid : ∀ x ∈ z, Valid x) (hcount : z.countP (fun x => x.2) = min k z.length) :
    (z.map (val proj)).sum ≤ total := by
  have hrfst := sortedRev_fst proj z
  have hperm := sortedRev_perm proj z
  have hdesc := sortedRev_desc proj z
  generalize sortedRev proj z = r at hrfst hperm hdesc
  rw [← hrfst] at hfold
  obtain ⟨f1, f2, f3⟩ := threshFold_some proj k _ _ _ _ hfold
  simp only [Nat.sub_zero, Nat.zero_add] at f1 f2 f3
  have hsplit : r.take k ++ r.drop k = r := List.take_append_drop _ _
  have hs : ∀ x ∈ r.take k, x.1.1.isSome = true := by
    intro x hx; apply f1; rw [← List.map_take]; exact List.mem_map_of_mem hx
  have htl : ∀ x ∈ r.drop k, x.1.2.isSome = true := by
    intro x hx; apply f2; rw [← List.map_drop]; exact List.mem_map_of_mem hx
  have hvr : ∀ x ∈ r, Valid x := fun x hx => hvalid x (hperm.mem_iff.1 hx)
  have hord : ∀ x ∈ r.take k, ∀ y ∈ r.drop k,
      keyLe (sortKey proj y.1) (sortKey proj x.1) = true := by
    rw [← hsplit] at hdesc
    exact (List.pairwise_append.1 hdesc).2.2
  obtain ⟨t, ht1, ht2⟩ := exists_threshold proj (r.take k) (r.drop k) hs
    (fun x hx => hvr x (List.mem_of_mem_take hx)) (fun x hx => hvr x (List.mem_of_mem_drop hx))
    htl hord
  -- counting: as many dissatisfied among the first k as satisfied among the rest
  have hcnt : (r.take k).countP (fun x => x.2) + (r.drop k).countP (fun x => x.2) = min k r.length := by
    rw [← List.countP_append, hsplit, hperm.countP_eq, hperm.length_eq]; exact hcount
  have hlen := List.length_eq_countP_add_countP (fun x : ZE => x.2) (l := r.take k)
  have e : (r.take k).countP (fun x => !x.2) = (r.take k).countP (fun a => ¬(a.2 = true)) := by
    congr 1; funext a; cases a.2 <;> simp
  have hslack : (r.take k).countP (fun x => !x.2) = (r.drop k).countP (fun x => x.2) := by
    have hl : (r.take k).length = min k r.length := List.length_take
    have hd : (r.drop k).countP (fun x => x.2) ≤ (r.drop k).length := List.countP_le_length
    have : (r.drop k).length = r.length - k := List.length_drop
    rw [e]; omega
  have hA := sum_val_le_sat proj t (r.take k) ht1
  have hB : ((r.drop k).map (fun z => (val proj z : Int))).sum
      ≤ ((r.drop k).map (fun z => (disV proj z.1 : Int))).sum + t * ((r.drop k).countP (fun z => z.2) : Nat) := by
    rcases ht2 with h0 | h
    · have hz : (r.drop k).countP (fun x => x.2) = 0 := by omega
      apply sum_val_le_dis
      intro y hy hb
      have := List.countP_eq_zero.1 hz y hy
      simp [hb] at this
    · exact sum_val_le_dis proj t _ h
  rw [hslack] at hA
  have hsum : (z.map (val proj)).sum
      = ((r.take k).map (val proj)).sum + ((r.drop k).map (val proj)).sum := by
    rw [← List.sum_append, ← List.map_append, hsplit]
    exact ((hperm.map (val proj)).sum_nat).symm
  have e1 : ((r.map Prod.fst).take k).map (satV proj) = (r.take k).map (fun z => satV proj z.1) := by
    rw [← List.map_take, List.map_map]; rfl
  have e2 : ((r.map Prod.fst).drop k).map (disV proj) = (r.drop k).map (fun z => disV proj z.1) := by
    rw [← List.map_drop, List.map_map]; rfl
  rw [e1, e2] at f3
  have c1 := natCast_sum (val proj) (r.take k)
  have c2 := natCast_sum (val proj) (r.drop k)
  have c3 := natCast_sum (fun z : ZE => satV proj z.1) (r.take k)
  have c4 := natCast_sum (fun z : ZE => disV proj z.1) (r.drop k)
  omega

/-- the fold is DEFINED whenever a valid choice of `min k n` satisfied children exists and every
child has a dissatisfaction figure -/
theorem thresh_fold_defined (cmb : Nat → Nat → Nat) (k : Nat) (z : List ZE)
    (hvalid : ∀ x ∈ z, Valid x) (hcount : z.countP (fun x => x.2) = min k z.length)
    (hdis : ∀ x ∈ z, x.1.2.isSome = true) :
    (threshFold k proj cmb 0 0 (sortSD proj (z.map Prod.fst)).reverse).isSome = true := by
  have hrfst := sortedRev_fst proj z
  have hperm := sortedRev_perm proj z
  have hdesc := sortedRev_desc proj z
  generalize sortedRev proj z = r at hrfst hperm hdesc
  rw [← hrfst]
  apply threshFold_isSome
  · simp only [Nat.sub_zero]
    intro x hx
    rw [← List.map_take] at hx
    obtain ⟨y, hy, rfl⟩ := List.mem_map.1 hx
    -- y is among the first k; suppose it has no satisfaction figure
    cases hsat : y.1.1.isSome with
    | true => rfl
    | false =>
      exfalso
      obtain ⟨a, b, hab⟩ := List.append_of_mem hy
      have hr : r = a ++ y :: (b ++ r.drop k) :=
        calc r = r.take k ++ r.drop k := (List.take_append_drop k r).symm
          _ = a ++ y :: (b ++ r.drop k) := by rw [hab]; simp
      have hn : y.1.1 = none := by
        cases h : y.1.1 with
        | none => rfl
        | some v => rw [h] at hsat; simp at hsat
      have hky : sortKey proj y.1 = none := by simp [sortKey, hn]
      -- everything after y has no satisfaction figure either, hence is dissatisfied
      have hafter : ∀ w ∈ b ++ r.drop k, w.2 = false := by
        intro w hw
        rw [hr] at hdesc
        have h1 := (List.pairwise_append.1 hdesc).2.1
        have h2 := (List.pairwise_cons.1 h1).1 w hw
        rw [hky] at h2
        have hkw : sortKey proj w.1 = none := by
          cases hq : sortKey proj w.1 with
          | none => rfl
          | some v => rw [hq] at h2; simp [keyLe] at h2
        have hwr : w ∈ r := by rw [hr]; simp; rcases List.mem_append.1 hw with h | h <;> simp [h]
        have hwd := hdis w (hperm.mem_iff.1 hwr)
        have hws : w.1.1.isSome = false := by
          cases hs : w.1.1.isSome with
          | false => rfl
          | true => rw [sortKey_full proj hs hwd] at hkw; cases hkw
        have hv := hvalid w (hperm.mem_iff.1 hwr)
        cases hb : w.2 with
        | false => rfl
        | true => simp [Valid, hb, hws] at hv
      have hyf : y.2 = false := by
        have hv := hvalid y (hperm.mem_iff.1 (List.mem_of_mem_take hy))
        cases hb : y.2 with
        | false => rfl
        | true => simp [Valid, hb, hsat] at hv
      have hc0 : (b ++ r.drop k).countP (fun x => x.2) = 0 :=
        List.countP_eq_zero.2 (fun w hw => by simp [hafter w hw])
      have hcnt : r.countP (fun x => x.2) = a.countP (fun x => x.2) := by
        rw [hr, List.countP_append, List.countP_cons, hc0, hyf]; simp
      have hle : a.countP (fun x => x.2) ≤ a.length := List.countP_le_length
      have hlen : (r.take k).length = a.length + 1 + b.length := by rw [hab]; simp; omega
      have hl2 : (r.take k).length = min k r.length := List.length_take
      rw [← hperm.countP_eq, ← hperm.length_eq] at hcount
      omega
  · intro x hx
    simp only [Nat.sub_zero] at hx
    rw [← List.map_drop] at hx
    obtain ⟨y, hy, rfl⟩ := List.mem_map.1 hx
    exact hdis y (hperm.mem_iff.1 (List.mem_of_mem_drop hy))

end MsVerif.C09

/-
Decoding a pre-order depth list back into the script tree it describes — SPEC-level inverse of
`Tree.depths` (BIP 371 stores a tap tree as exactly this list).  Proved inverse below, so a
judge may decode an implementation's depth list and compare trees / Merkle roots.
-/
import MsVerif.Lemmas.TapTreeSpec

namespace MsVerif.Spec.Tree
variable {α : Type}

/-- parse one subtree whose root is at depth `d`; `fuel` bounds the nesting -/
def parseAt : Nat → Nat → List (Nat × α) → Option (Tree α × List (Nat × α))
  | 0, _, _ => none
  | _ + 1, _, [] => none
  | fuel + 1, d, (k, s) :: rest =>
    if k = d then some (leaf s, rest)
    else if k < d then none
    else
      match parseAt fuel (d + 1) ((k, s) :: rest) with
      | none => none
      | some (l, rest1) =>
        match parseAt fuel (d + 1) rest1 with
        | none => none
        | some (r, rest2) => some (node l r, rest2)

/-- largest depth in the list -/
def maxDepthIn (l : List (Nat × α)) : Nat := l.foldl (fun m p => max m p.1) 0

/-- the tree a depth list describes, if it is the pre-order code of one -/
def ofDepths (l : List (Nat × α)) : Option (Tree α) :=
  match parseAt (maxDepthIn l + 2) 0 l with
  | some (t, []) => some t
  | _ => none

theorem parseAt_depthsFrom (t : Tree α) : ∀ (fuel d : Nat) (rest : List (Nat × α)),
    height t < fuel → parseAt fuel d (depthsFrom d t ++ rest) = some (t, rest) := by
  induction t with
  | leaf s =>
    intro fuel d rest h
    cases fuel with
    | zero => simp [height] at h
    | succ fuel => simp [depthsFrom, parseAt]
  | node l r ihl ihr =>
    intro fuel d rest h
    cases fuel with
    | zero => simp at h
    | succ fuel =>
      simp only [height] at h
      simp only [depthsFrom, List.append_assoc]
      rcases hl : depthsFrom (d + 1) l with _ | ⟨⟨k, s⟩, tl⟩
      · exact absurd hl (depthsFrom_ne_nil l (d + 1))
      · have hk : d + 1 ≤ k := depthsFrom_ge l (d + 1) (k, s) (by simp [hl])
        have h1 : ¬ k = d := by omega
        have h2 : ¬ k < d := by omega
        simp only [List.cons_append, parseAt, h1, h2, if_false]
        have e : (k, s) :: (tl ++ (depthsFrom (d + 1) r ++ rest)) =
            depthsFrom (d + 1) l ++ (depthsFrom (d + 1) r ++ rest) := by simp [hl]
        rw [e, ihl fuel (d + 1) _ (by omega)]
        simp only []
        rw [ihr fuel (d + 1) _ (by omega)]

theorem maxDepthIn_ge (l : List (Nat × α)) : ∀ (m : Nat) p, p ∈ l → p.1 ≤ l.foldl (fun m p => max m p.1) m := by
  induction l with
  | nil => intro m p h; simp at h
  | cons q l ih =>
    intro m p h
    simp only [List.foldl_cons]
    rcases List.mem_cons.mp h with rfl | h
    · have : ∀ (l : List (Nat × α)) (m : Nat), m ≤ l.foldl (fun m p => max m p.1) m := by
        intro l
        induction l with
        | nil => intro m; simp
        | cons q l ih2 => intro m; simp only [List.foldl_cons]; exact Nat.le_trans (Nat.le_max_left _ _) (ih2 _)
      exact Nat.le_trans (Nat.le_max_right _ _) (this l _)
    · exact ih _ p h

/-- `ofDepths` inverts `depths` -/
theorem ofDepths_depths (t : Tree α) : ofDepths (depths t) = some t := by
  obtain ⟨p, hp, he⟩ := depthsFrom_max t 0
  have hge := maxDepthIn_ge (depths t) 0 p hp
  have hfuel : height t < maxDepthIn (depths t) + 2 := by
    simp only [maxDepthIn]; omega
  have := parseAt_depthsFrom t (maxDepthIn (depths t) + 2) 0 [] hfuel
  simp only [List.append_nil] at this
  simp [ofDepths, depths, this] at *

end MsVerif.Spec.Tree

/-
Lemmas for C16 (taproot link to C15): the `(depth, leaf script)` list of a descriptor whose tap
tree is `t` is the depth list of the tree of encoded leaf scripts.
-/
import MsVerif.Model.Descriptor
import MsVerif.Spec.Merkle

namespace MsVerif.Desc
open MsVerif MsVerif.Spec MsVerif.Spec.Tree

/-- apply `f` to every leaf -/
def treeMap {α β : Type} (f : α → β) : Tree α → Tree β
  | .leaf s => .leaf (f s)
  | .node l r => .node (treeMap f l) (treeMap f r)

theorem depthsFrom_treeMap {α β : Type} (f : α → β) (t : Tree α) (d : Nat) :
    depthsFrom d (treeMap f t) = (depthsFrom d t).map (fun p => (p.1, f p.2)) := by
  induction t generalizing d with
  | leaf s => rfl
  | node l r ihl ihr => simp [treeMap, depthsFrom, ihl, ihr]

theorem height_treeMap {α β : Type} (f : α → β) (t : Tree α) : height (treeMap f t) = height t := by
  induction t with
  | leaf s => rfl
  | node l r ihl ihr => simp [treeMap, height, ihl, ihr]

theorem depthsFrom_ne_nil {α : Type} (t : Tree α) (d : Nat) : depthsFrom d t ≠ [] := by
  induction t generalizing d with
  | leaf s => simp [depthsFrom]
  | node l r ihl _ => simp [depthsFrom, ihl]

/-- the leaf-script list of `tr(ik, t)` is the depth list of the tree of leaf scripts -/
theorem trLeafScripts_depths (P : Params) (t : Tree Ms) :
    trLeafScripts P (depths t) = depths (treeMap (encodeBytes P.env .tap) t) := by
  simp [trLeafScripts, depths, depthsFrom_treeMap]

theorem depths_isEmpty {α : Type} (t : Tree α) : (depths t).isEmpty = false := by
  have := depthsFrom_ne_nil t 0
  cases h : depths t with
  | nil => exact absurd h this
  | cons _ _ => rfl

end MsVerif.Desc

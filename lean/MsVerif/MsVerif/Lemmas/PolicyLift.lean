/-
`Liftable for Concrete`: the lifted abstract policy has the truth table of the concrete one;
`lift` refuses exactly when `check_timelocks` does.
-/
import MsVerif.Lemmas.PolicyNorm
import MsVerif.Lemmas.PolicyTimelocks

set_option linter.unusedSimpArgs false
namespace MsVerif.Pol
open Sem Conc

theorem andOrNonEmpty_go_iff (l : List CPolicy) :
    andOrNonEmpty.go l = true ↔ ∀ c ∈ l, andOrNonEmpty c = true := by
  induction l with
  | nil => simp [andOrNonEmpty.go]
  | cons p ps ih => simp [andOrNonEmpty.go, ih]

theorem collectLift_ok {rs : List LiftRes} {k : List Policy → LiftRes} {s : Policy}
    (h : collectLift rs k = .ok s) : ∃ ps, rs = ps.map LiftRes.ok ∧ k ps = .ok s := by
  induction rs generalizing k with
  | nil => exact ⟨[], rfl, h⟩
  | cons r rs ih =>
    cases r with
    | ok p =>
      obtain ⟨ps, hps, hk⟩ := ih (k := fun ps => k (p :: ps)) h
      exact ⟨p :: ps, by simp [hps], hk⟩
    | err => simp [collectLift] at h
    | errThreshold => simp [collectLift] at h

theorem collectLift_all_ok (ps : List Policy) (k : List Policy → LiftRes) :
    collectLift (ps.map LiftRes.ok) k = k ps := by
  induction ps generalizing k with
  | nil => rfl
  | cons p ps ih => simp only [List.map_cons, collectLift]; exact ih _

/-- children lifted one by one with the same truth values ⇒ same count, same length -/
theorem lifted_children (v : Atom → Bool) :
    ∀ (subs : List CPolicy) (ps : List Policy),
      (∀ c ∈ subs, ∀ s, liftUnchecked c = .ok s → holdsA v s = holdsC v c) →
      subs.map liftUnchecked = ps.map LiftRes.ok →
      ps.countP (holdsA v) = subs.countP (holdsC v) ∧ ps.length = subs.length := by
  intro subs
  induction subs with
  | nil =>
    intro ps _ h
    cases ps with
    | nil => simp
    | cons _ _ => simp at h
  | cons c cs ih =>
    intro ps hc h
    cases ps with
    | nil => simp at h
    | cons p ps =>
      simp only [List.map_cons, List.cons.injEq] at h
      obtain ⟨h1, h2⟩ := h
      have := hc c (by simp) p h1
      obtain ⟨i1, i2⟩ := ih ps (fun c' hc' => hc c' (by simp [hc'])) h2
      simp [List.countP_cons, this, i1, i2]

theorem liftUnchecked_holdsA (v : Atom → Bool) :
    ∀ c, ∀ s, liftUnchecked c = .ok s → holdsA v s = holdsC v c := by
  intro c
  induction c using CPolicy.induct' with
  | unsat => intro s h; simp [liftUnchecked] at h; subst h; rfl
  | trivial => intro s h; simp [liftUnchecked] at h; subst h; rfl
  | atom a => intro s h; simp [liftUnchecked] at h; subst h; rfl
  | and subs ih =>
    intro s h
    rw [liftUnchecked] at h
    obtain ⟨ps, hps, hk⟩ := collectLift_ok h
    rw [liftUncheckedList_eq] at hps
    obtain ⟨hc, hl⟩ := lifted_children v subs ps ih hps
    split at hk
    · simp only [LiftRes.ok.injEq] at hk
      subst hk
      rw [normalized_holdsA, holdsA_thresh, holdsC, countC_eq, hc, hl]
    · simp at hk
  | or subs ih =>
    intro s h
    rw [liftUnchecked] at h
    obtain ⟨ps, hps, hk⟩ := collectLift_ok h
    rw [liftUncheckedList_eq] at hps
    obtain ⟨hc, hl⟩ := lifted_children v subs ps ih hps
    split at hk
    · simp only [LiftRes.ok.injEq] at hk
      subst hk
      rw [normalized_holdsA, holdsA_thresh, holdsC, countC_eq, hc]
    · simp at hk
  | thresh k subs ih =>
    intro s h
    rw [liftUnchecked] at h
    obtain ⟨ps, hps, hk⟩ := collectLift_ok h
    rw [liftUncheckedList_eq] at hps
    obtain ⟨hc, hl⟩ := lifted_children v subs ps ih hps
    simp only [LiftRes.ok.injEq] at hk
    subst hk
    rw [normalized_holdsA, holdsA_thresh, holdsC, countC_eq, hc]

theorem lift_ok_iff (c : CPolicy) (s : Policy) :
    lift c = .ok s ↔ checkTimelocks c = true ∧ liftUnchecked c = .ok s := by
  unfold lift
  cases checkTimelocks c <;> simp

theorem lift_holdsA (v : Atom → Bool) (c : CPolicy) (s : Policy) (h : lift c = .ok s) :
    holdsA v s = holdsC v c :=
  liftUnchecked_holdsA v c s ((lift_ok_iff c s).mp h).2

theorem liftUnchecked_NF : ∀ c s, liftUnchecked c = .ok s → NF s = true := by
  intro c s h
  cases c with
  | unsat => simp [liftUnchecked] at h; subst h; rfl
  | trivial => simp [liftUnchecked] at h; subst h; rfl
  | atom a => simp [liftUnchecked] at h; subst h; rfl
  | and subs =>
    rw [liftUnchecked] at h
    obtain ⟨ps, _, hk⟩ := collectLift_ok h
    split at hk
    · simp only [LiftRes.ok.injEq] at hk; subst hk; exact normalized_NF _
    · simp at hk
  | or subs =>
    rw [liftUnchecked] at h
    obtain ⟨ps, _, hk⟩ := collectLift_ok h
    split at hk
    · simp only [LiftRes.ok.injEq] at hk; subst hk; exact normalized_NF _
    · simp at hk
  | thresh k subs =>
    rw [liftUnchecked] at h
    obtain ⟨ps, _, hk⟩ := collectLift_ok h
    simp only [LiftRes.ok.injEq] at hk; subst hk; exact normalized_NF _

/-! ## `lift_unchecked` succeeds on every policy without an empty `and` / `or` -/

theorem exists_ok_list : ∀ (subs : List CPolicy), (∀ c ∈ subs, ∃ s, liftUnchecked c = .ok s) →
    ∃ ps : List Policy, subs.map liftUnchecked = ps.map LiftRes.ok ∧ ps.length = subs.length
  | [], _ => ⟨[], rfl, rfl⟩
  | c :: cs, h => by
    obtain ⟨s, hs⟩ := h c (by simp)
    obtain ⟨ps, hps, hl⟩ := exists_ok_list cs (fun c' hc' => h c' (by simp [hc']))
    exact ⟨s :: ps, by simp [hs, hps], by simp [hl]⟩

theorem liftUnchecked_total : ∀ c, andOrNonEmpty c = true → ∃ s, liftUnchecked c = .ok s := by
  intro c
  induction c using CPolicy.induct' with
  | unsat => intro _; exact ⟨_, rfl⟩
  | trivial => intro _; exact ⟨_, rfl⟩
  | atom a => intro _; exact ⟨_, rfl⟩
  | and subs ih =>
    intro hb
    simp only [andOrNonEmpty, Bool.and_eq_true, decide_eq_true_eq, andOrNonEmpty_go_iff] at hb
    obtain ⟨ps, hps, hl⟩ := exists_ok_list subs (fun c hc => ih c hc (hb.2 c hc))
    rw [liftUnchecked, liftUncheckedList_eq, hps, collectLift_all_ok]
    have : 1 ≤ ps.length := by omega
    simp [this]
  | or subs ih =>
    intro hb
    simp only [andOrNonEmpty, Bool.and_eq_true, decide_eq_true_eq, andOrNonEmpty_go_iff] at hb
    obtain ⟨ps, hps, hl⟩ := exists_ok_list subs (fun c hc => ih c hc (hb.2 c hc))
    rw [liftUnchecked, liftUncheckedList_eq, hps, collectLift_all_ok]
    have : 1 ≤ ps.length := by omega
    simp [this]
  | thresh k subs ih =>
    intro hb
    simp only [andOrNonEmpty, andOrNonEmpty_go_iff] at hb
    obtain ⟨ps, hps, hl⟩ := exists_ok_list subs (fun c hc => ih c hc (hb c hc))
    rw [liftUnchecked, liftUncheckedList_eq, hps, collectLift_all_ok]
    exact ⟨_, rfl⟩

/-- `lift` refuses with the timelock error exactly when `check_timelocks` does -/
theorem lift_total (c : CPolicy) (hn : andOrNonEmpty c = true) :
    (checkTimelocks c = false ∧ lift c = .err) ∨ (checkTimelocks c = true ∧ ∃ s, lift c = .ok s) := by
  unfold lift
  cases checkTimelocks c
  · left; simp
  · right; simpa using liftUnchecked_total c hn

end MsVerif.Pol

/-
Resource limits transfer for `Script.run`.

A run of the flat interpreter that succeeds with the opcode-count limit (201) and the stack
limits (1000 elements, 520-byte elements) switched OFF also succeeds, with the same final
state, under any setting of the two limit flags (`run_withLimits`, `run_limitsOn`), provided the
script has no oversized push, hash outputs and initial elements are ≤ 520 bytes, the initial
depth plus the number of growing script elements is ≤ 1000 and (outside tapscript) the final
opcode counter is ≤ 201.  `run_ops_le` bounds the final opcode counter syntactically.

Method: `Post` (counter / depth / element-size bounds on every successful outcome) and `Trans`
(a successful outcome that respects the limits is also the outcome under changed limit flags)
are proved compositionally for `pushElem`, `countOp`, `multisig`, `execOpc`, `step`, `run`.

Core Lean only.
-/
import MsVerif.Lemmas.BridgeExtra

namespace MsVerif.SatSpec
open MsVerif Script Bridge

/-- script elements that can make `stack + altstack` grow (by one): pushes, DUP, IFDUP, SIZE -/
def grows : Op → Bool
  | .small _ | .push _ => true
  | .code .dup | .code .ifdup | .code .size => true
  | _ => false

def growCount (s : List Op) : Nat := (s.filter grows).length

/-- CHECKMULTISIG(VERIFY) opcodes: each adds its number of keys (≤ 20) to the opcode counter -/
def isMs : Op → Bool
  | .code .checkmultisig | .code .checkmultisigverify => true
  | _ => false

def msCount (s : List Op) : Nat := (s.filter isMs).length

/-- the same environment with the opcode-count limit set to `o` and the stack limits to `t` -/
def withLimits (env : Env) (o t : Bool) : Env :=
  { env with flags := { env.flags with opLimit := o, stackLimits := t } }

/-- the same environment with the opcode-count limit (201) and the stack limits (1000 elements,
520-byte elements) switched ON -/
def limitsOn (env : Env) : Env := withLimits env true true

@[simp] theorem withLimits_tapscript (env : Env) (o t : Bool) : (withLimits env o t).flags.tapscript = env.flags.tapscript := rfl
@[simp] theorem withLimits_minimalIf (env : Env) (o t : Bool) : (withLimits env o t).flags.minimalIf = env.flags.minimalIf := rfl
@[simp] theorem withLimits_nullFail (env : Env) (o t : Bool) : (withLimits env o t).flags.nullFail = env.flags.nullFail := rfl
@[simp] theorem withLimits_nullDummy (env : Env) (o t : Bool) : (withLimits env o t).flags.nullDummy = env.flags.nullDummy := rfl
@[simp] theorem withLimits_minimalNum (env : Env) (o t : Bool) : (withLimits env o t).flags.minimalNum = env.flags.minimalNum := rfl
@[simp] theorem withLimits_opLimit (env : Env) (o t : Bool) : (withLimits env o t).flags.opLimit = o := rfl
@[simp] theorem withLimits_stackLimits (env : Env) (o t : Bool) : (withLimits env o t).flags.stackLimits = t := rfl
@[simp] theorem withLimits_sigOk (env : Env) (o t : Bool) : (withLimits env o t).sigOk = env.sigOk := rfl
@[simp] theorem withLimits_hash (env : Env) (o t : Bool) : (withLimits env o t).hash = env.hash := rfl
@[simp] theorem withLimits_nLockTime (env : Env) (o t : Bool) : (withLimits env o t).nLockTime = env.nLockTime := rfl
@[simp] theorem withLimits_nSequence (env : Env) (o t : Bool) : (withLimits env o t).nSequence = env.nSequence := rfl
@[simp] theorem withLimits_txVersion (env : Env) (o t : Bool) : (withLimits env o t).txVersion = env.txVersion := rfl

@[simp] theorem num4_withLimits (env : Env) (o t : Bool) : num4 (withLimits env o t) = num4 env := rfl
@[simp] theorem pubkeyOk_withLimits (env : Env) (o t : Bool) : pubkeyOk (withLimits env o t) = pubkeyOk env := rfl
@[simp] theorem checkSig_withLimits (env : Env) (o t : Bool) : checkSig (withLimits env o t) = checkSig env := rfl
@[simp] theorem checkLockTime_withLimits (env : Env) (o t : Bool) : checkLockTime (withLimits env o t) = checkLockTime env := rfl
@[simp] theorem checkSequence_withLimits (env : Env) (o t : Bool) : checkSequence (withLimits env o t) = checkSequence env := rfl
@[simp] theorem condPop_withLimits (env : Env) (o t : Bool) : condPop (withLimits env o t) = condPop env := rfl

@[simp] theorem multisigLoop_withLimits (env : Env) (o t : Bool) :
    multisigLoop (withLimits env o t) = multisigLoop env := by
  funext sigs keys
  induction keys generalizing sigs with
  | nil => cases sigs <;> simp only [multisigLoop]
  | cons key keys ih =>
    cases sigs with
    | nil => simp only [multisigLoop]
    | cons sig sigs => simp only [multisigLoop, pubkeyOk_withLimits, withLimits_sigOk, ih]


/-! ### size / depth invariants -/

/-- all elements of a list are at most 520 bytes -/
def small (l : List Bytes) : Prop := ∀ x, x ∈ l → x.length ≤ 520

@[simp] theorem small_nil : small [] := by intro x h; cases h

@[simp] theorem small_cons (a : Bytes) (l : List Bytes) : small (a :: l) ↔ a.length ≤ 520 ∧ small l := by
  unfold small
  constructor
  · intro h; exact ⟨h a (List.mem_cons_self ..), fun x hx => h x (List.mem_cons_of_mem _ hx)⟩
  · intro h x hx
    cases hx with
    | head => exact h.1
    | tail _ hx => exact h.2 x hx

theorem small_append (l₁ l₂ : List Bytes) : small (l₁ ++ l₂) ↔ small l₁ ∧ small l₂ := by
  unfold small
  constructor
  · intro h
    exact ⟨fun x hx => h x (List.mem_append_left _ hx), fun x hx => h x (List.mem_append_right _ hx)⟩
  · intro h x hx
    cases List.mem_append.mp hx with
    | inl hx => exact h.1 x hx
    | inr hx => exact h.2 x hx

theorem small_drop (n : Nat) (l : List Bytes) (h : small l) : small (l.drop n) :=
  fun x hx => h x (List.mem_of_mem_drop hx)

/-- all elements of both stacks are at most 520 bytes -/
def Small (c : Core) : Prop := small c.stack ∧ small c.alt

/-- `stack + altstack` -/
def depth (c : Core) : Nat := c.stack.length + c.alt.length

theorem numEncode_small (v : Int) : (numEncode v).length ≤ 520 := by
  have := numEncode_length v; omega

theorem boolBytes_small (b : Bool) : (boolBytes b).length ≤ 520 := by
  cases b <;> decide

theorem lim_pushElem_ok (env : Env) (s : Core) (b : Bytes) (c' : Core) (h : pushElem env s b = .ok c') :
    c' = { s with stack := b :: s.stack } := by
  unfold pushElem at h
  dsimp only at h
  split at h
  · cases h
  · split at h
    · cases h
    · cases h; rfl

theorem lim_countOp_ok (env : Env) (s : Core) (n : Nat) (c' : Core) (h : countOp env s n = .ok c') :
    c' = { s with ops := s.ops + n } := by
  unfold countOp at h
  dsimp only at h
  split at h
  · cases h
  · cases h; rfl

/-- what the limit hypotheses say about the final state of a step -/
def OK (env : Env) (c : Core) : Prop :=
  Small c ∧ depth c ≤ 1000 ∧ (env.flags.tapscript = true ∨ c.ops ≤ 201)

theorem pushElem_withLimits (env : Env) (o t : Bool) (s : Core) (b : Bytes) (c' : Core)
    (h : pushElem env s b = .ok c') (hok : OK env c') : pushElem (withLimits env o t) s b = .ok c' := by
  have e := lim_pushElem_ok env s b c' h
  subst e
  obtain ⟨⟨hs, _⟩, hd, _⟩ := hok
  simp only [small_cons] at hs
  simp only [depth, List.length_cons] at hd
  unfold pushElem
  simp only [withLimits_stackLimits, List.length_cons]
  have h1 : ¬ b.length > 520 := by omega
  have h2 : ¬ s.stack.length + 1 + s.alt.length > 1000 := by omega
  simp [h1, h2]

theorem countOp_withLimits (env : Env) (o t : Bool) (s : Core) (n : Nat) (c' : Core)
    (h : countOp env s n = .ok c') (hok : env.flags.tapscript = true ∨ c'.ops ≤ 201) :
    countOp (withLimits env o t) s n = .ok c' := by
  have e := lim_countOp_ok env s n c' h
  subst e
  unfold countOp
  simp only [withLimits_opLimit, withLimits_tapscript]
  cases hok with
  | inl ht => simp [ht]
  | inr hl =>
    have h1 : ¬ s.ops + n > 201 := by simp only at hl; omega
    simp [h1]


/-! ### outcomes of one opcode -/

/-- every successful outcome of `x`, started from `c`: the counter moved by at most `k`, the
depth grew by at most `g`, element sizes are preserved (given small hash outputs) -/
def Post (env : Env) (c : Core) (k g : Nat) (x : Except Err Core) : Prop :=
  ∀ c', x = .ok c' →
    (c.ops ≤ c'.ops ∧ c'.ops ≤ c.ops + k) ∧ depth c' ≤ depth c + g ∧
    ((∀ op b, (env.hash op b).length ≤ 520) → Small c → Small c')

theorem post_error (env : Env) (c : Core) (k g : Nat) (e : Err) : Post env c k g (.error e) := by
  intro c' h; cases h

theorem post_ok (env : Env) (c : Core) (k g : Nat) (c1 : Core)
    (h1 : c.ops ≤ c1.ops ∧ c1.ops ≤ c.ops + k) (h2 : depth c1 ≤ depth c + g)
    (h3 : (∀ op b, (env.hash op b).length ≤ 520) → Small c → Small c1) : Post env c k g (.ok c1) := by
  intro c' h; cases h; exact ⟨h1, h2, h3⟩

theorem post_pushElem (env : Env) (c : Core) (k g : Nat) (s : Core) (b : Bytes)
    (h1 : c.ops ≤ s.ops ∧ s.ops ≤ c.ops + k) (h2 : depth s + 1 ≤ depth c + g)
    (h3 : (∀ op b, (env.hash op b).length ≤ 520) → Small c → Small s ∧ b.length ≤ 520) :
    Post env c k g (pushElem env s b) := by
  intro c' h
  have e := lim_pushElem_ok env s b c' h
  subst e
  refine ⟨h1, ?_, ?_⟩
  · simp only [depth, List.length_cons] at h2 ⊢; omega
  · intro hh hs
    obtain ⟨⟨h4, h5⟩, h6⟩ := h3 hh hs
    exact ⟨(small_cons _ _).mpr ⟨h6, h4⟩, h5⟩

theorem post_bind {α} (env : Env) (c : Core) (k g : Nat) (x : Except Err α) (f : α → Except Err Core)
    (h : ∀ a, Post env c k g (f a)) : Post env c k g (x >>= f) := by
  cases x with
  | error e => exact post_error env c k g e
  | ok a => exact h a

theorem post_ite (env : Env) (c : Core) (k g : Nat) (p : Prop) [Decidable p] (x y : Except Err Core)
    (hx : Post env c k g x) (hy : Post env c k g y) : Post env c k g (if p then x else y) := by
  split <;> assumption

/-- side conditions of `post_ok` / `post_pushElem` on concrete stack shapes -/
macro "post_side" : tactic => `(tactic| first
  | exact ⟨Nat.le_refl _, Nat.le_refl _⟩
  | (simp only [depth, List.length_cons]; omega)
  | (intro hh hs; simp only [Small, small_cons] at hs ⊢
     simp [hs, hh, numEncode_small, boolBytes_small]))

theorem post_execOpc (env : Env) (o : Opc) (c : Core) (hms : isMs (.code o) = false) :
    Post env c 0 (grows (.code o)).toNat (execOpc env o c) := by
  obtain ⟨stk, alt, n⟩ := c
  cases o <;> first | (simp [isMs] at hms; done) | skip
  all_goals
    rcases stk with _ | ⟨a, _ | ⟨b, _ | ⟨d, r⟩⟩⟩ <;>
    simp only [execOpc, grows, Bool.toNat_true, Bool.toNat_false] <;>
    (repeat' first
        | exact post_error _ _ _ _ _
        | (apply post_pushElem <;> post_side)
        | (apply post_ok <;> post_side)
        | (apply post_bind; intro _)
        | split)


/-! ### transfer of one opcode -/

/-- a successful outcome of `x` (limits as in `env`) whose final state respects the limits is
also the outcome of `y` (limits changed) -/
def Trans (env : Env) (x y : Except Err Core) : Prop := ∀ c', x = .ok c' → OK env c' → y = .ok c'

theorem trans_refl (env : Env) (x : Except Err Core) : Trans env x x := fun _ h _ => h

theorem trans_error (env : Env) (e : Err) (y : Except Err Core) : Trans env (.error e) y := by
  intro c' h; cases h

theorem trans_pushElem (env : Env) (o t : Bool) (s : Core) (b : Bytes) :
    Trans env (pushElem env s b) (pushElem (withLimits env o t) s b) :=
  fun c' h hok => pushElem_withLimits env o t s b c' h hok

theorem trans_bind {α} (env : Env) (x : Except Err α) (f g : α → Except Err Core)
    (h : ∀ a, Trans env (f a) (g a)) : Trans env (x >>= f) (x >>= g) := by
  cases x with
  | error e => exact trans_error env e _
  | ok a => exact h a

theorem trans_ite (env : Env) (p : Prop) [Decidable p] (x y x' y' : Except Err Core)
    (hx : Trans env x x') (hy : Trans env y y') :
    Trans env (if p then x else y) (if p then x' else y') := by
  split <;> assumption

theorem trans_execOpc (env : Env) (o t : Bool) (op : Opc) (c : Core) (hms : isMs (.code op) = false) :
    Trans env (execOpc env op c) (execOpc (withLimits env o t) op c) := by
  obtain ⟨stk, alt, n⟩ := c
  cases op <;> first | (simp [isMs] at hms; done) | skip
  all_goals
    rcases stk with _ | ⟨a, _ | ⟨b, _ | ⟨d, r⟩⟩⟩ <;>
    simp only [execOpc, num4_withLimits, checkSig_withLimits, checkLockTime_withLimits,
      checkSequence_withLimits, withLimits_tapscript, withLimits_minimalNum, withLimits_hash] <;>
    (repeat' first
        | exact trans_refl _ _
        | exact trans_pushElem _ _ _ _ _
        | (apply trans_bind; intro _)
        | apply trans_ite
        | split)


/-! ### CHECKMULTISIG -/

theorem post_multisig (env : Env) (c : Core) (v : Bool) : Post env c 20 0 (multisig env c v) := by
  unfold multisig
  dsimp only
  split
  · exact post_error _ _ _ _ _
  · split
    · rename_i nB r hstk
      split
      · exact post_error _ _ _ _ _
      · rename_i nI hnI
        split
        · exact post_error _ _ _ _ _
        · rename_i hrange
          split
          · exact post_error _ _ _ _ _
          · rename_i s hcnt
            have hs := lim_countOp_ok env c _ s hcnt
            subst hs
            split
            · exact post_error _ _ _ _ _
            · split
              · rename_i mB r1 hr1
                split
                · exact post_error _ _ _ _ _
                · split
                  · exact post_error _ _ _ _ _
                  · split
                    · exact post_error _ _ _ _ _
                    · split
                      · rename_i mI _ _ _ _ dummy r2 hr2
                        have l1 := congrArg List.length hr1
                        have l2 := congrArg List.length hr2
                        simp only [List.length_drop, List.length_cons] at l1 l2
                        have hsm : Small c → small r2 ∧ small c.alt := by
                          intro hc
                          have h1 := small_drop nI.toNat r (by
                            have := hc.1; rw [hstk] at this; exact ((small_cons _ _).mp this).2)
                          rw [hr1] at h1
                          have h2 := small_drop mI.toNat r1 ((small_cons _ _).mp h1).2
                          rw [hr2] at h2
                          exact ⟨((small_cons _ _).mp h2).2, hc.2⟩
                        split
                        · exact post_error _ _ _ _ _
                        · split
                          · exact post_error _ _ _ _ _
                          · split
                            · exact post_error _ _ _ _ _
                            · split
                              · split
                                · apply post_ok
                                  · show c.ops ≤ c.ops + nI.toNat ∧ c.ops + nI.toNat ≤ c.ops + 20
                                    omega
                                  · show r2.length + c.alt.length ≤ c.stack.length + c.alt.length + 0
                                    rw [hstk]; simp only [List.length_cons]; omega
                                  · intro _ hc; exact hsm hc
                                · exact post_error _ _ _ _ _
                              · apply post_pushElem
                                · show c.ops ≤ c.ops + nI.toNat ∧ c.ops + nI.toNat ≤ c.ops + 20
                                  omega
                                · show r2.length + c.alt.length + 1 ≤ c.stack.length + c.alt.length + 0
                                  rw [hstk]; simp only [List.length_cons]; omega
                                · intro _ hc; exact ⟨hsm hc, boolBytes_small _⟩
                      · exact post_error _ _ _ _ _
              · exact post_error _ _ _ _ _
    · exact post_error _ _ _ _ _


theorem trans_multisig (env : Env) (o t : Bool) (c : Core) (v : Bool) :
    Trans env (multisig env c v) (multisig (withLimits env o t) c v) := by
  intro c' h hok
  obtain ⟨stk, alt, n⟩ := c
  unfold multisig at h ⊢
  dsimp only at h ⊢
  simp only [withLimits_tapscript, withLimits_minimalNum, withLimits_nullFail,
    withLimits_nullDummy, multisigLoop_withLimits]
  split at h
  · cases h
  · rename_i htap
    rw [if_neg htap]
    split at h
    · rename_i nB r
      split at h
      · cases h
      · rename_i nI hnI
        split at h
        · cases h
        · rename_i hrange
          split at h
          · cases h
          · rename_i s hcnt
            have hs := lim_countOp_ok env _ _ s hcnt
            subst hs
            split at h
            · cases h
            · rename_i hlen1
              split at h
              · rename_i mB r1 hr1
                split at h
                · cases h
                · rename_i mI hmI
                  split at h
                  · cases h
                  · rename_i hrange2
                    split at h
                    · cases h
                    · rename_i hlen2
                      split at h
                      · rename_i dummy r2 hr2
                        split at h
                        · cases h
                        · rename_i ok hloop
                          rw [if_neg hrange]
                          dsimp only at h hcnt
                          split at h
                          · cases h
                          · rename_i hnf
                            split at h
                            · cases h
                            · rename_i hnd
                              have hc' : c'.ops = n + nI.toNat := by
                                split at h
                                · split at h
                                  · cases h; rfl
                                  · cases h
                                · rw [lim_pushElem_ok _ _ _ _ h]
                              have hcnt' := countOp_withLimits env o t _ _ _ hcnt (by
                                cases hok.2.2 with
                                | inl h => exact Or.inl h
                                | inr h => right; show n + nI.toNat ≤ 201; omega)
                              rw [hcnt']
                              dsimp only
                              simp only [hlen1, hrange2, hlen2, hnf, hnd, if_false]
                              split at h
                              · rename_i hv; simp only [hv, if_true]; exact h
                              · rename_i hv; simp only [hv]
                                exact pushElem_withLimits env o t _ _ _ h hok
                      · cases h
              · cases h
    · cases h


theorem post_execOpc_all (env : Env) (o : Opc) (c : Core) :
    Post env c (20 * (isMs (.code o)).toNat) (grows (.code o)).toNat (execOpc env o c) := by
  cases hm : isMs (.code o) with
  | false => exact post_execOpc env o c hm
  | true =>
    cases o <;> first
      | (simp [isMs] at hm; done)
      | (simp only [execOpc, grows, Bool.toNat_true, Bool.toNat_false]; exact post_multisig env c _)

theorem trans_execOpc_all (env : Env) (o t : Bool) (op : Opc) (c : Core) :
    Trans env (execOpc env op c) (execOpc (withLimits env o t) op c) := by
  cases hm : isMs (.code op) with
  | false => exact trans_execOpc env o t op c hm
  | true =>
    cases op <;> first
      | (simp [isMs] at hm; done)
      | (simp only [execOpc]; exact trans_multisig env o t c _)

/-! ### one script element -/

/-- `Post` for results carrying a condition stack -/
def PostS (env : Env) (c : Core) (k g : Nat) (x : Except Err State) : Prop :=
  ∀ s1, x = .ok s1 →
    (c.ops ≤ s1.core.ops ∧ s1.core.ops ≤ c.ops + k) ∧ depth s1.core ≤ depth c + g ∧
    ((∀ op b, (env.hash op b).length ≤ 520) → Small c → Small s1.core)

/-- `Trans` for results carrying a condition stack -/
def TransS (env : Env) (x y : Except Err State) : Prop :=
  ∀ s1, x = .ok s1 → OK env s1.core → y = .ok s1

theorem postS_error (env : Env) (c : Core) (k g : Nat) (e : Err) : PostS env c k g (.error e) := by
  intro c' h; cases h

theorem postS_ok (env : Env) (c : Core) (k g : Nat) (s1 : State)
    (h1 : c.ops ≤ s1.core.ops ∧ s1.core.ops ≤ c.ops + k) (h2 : depth s1.core ≤ depth c + g)
    (h3 : (∀ op b, (env.hash op b).length ≤ 520) → Small c → Small s1.core) :
    PostS env c k g (.ok s1) := by
  intro c' h; cases h; exact ⟨h1, h2, h3⟩

theorem postS_map (env : Env) (c : Core) (k g : Nat) (x : Except Err Core) (cs : List Bool)
    (h : Post env c k g x) : PostS env c k g (x.map (⟨·, cs⟩)) := by
  cases x with
  | error e => exact postS_error env c k g e
  | ok c1 => intro s1 hs; cases hs; exact h c1 rfl

theorem transS_refl (env : Env) (x : Except Err State) : TransS env x x := fun _ h _ => h

theorem transS_error (env : Env) (e : Err) (y : Except Err State) : TransS env (.error e) y := by
  intro c' h; cases h

theorem transS_map (env : Env) (x y : Except Err Core) (cs : List Bool) (h : Trans env x y) :
    TransS env (x.map (⟨·, cs⟩)) (y.map (⟨·, cs⟩)) := by
  cases x with
  | error e => exact transS_error env e _
  | ok c1 => intro s1 hs hok; cases hs; rw [h c1 rfl hok]; rfl

theorem transS_ite (env : Env) (p : Prop) [Decidable p] (x y x' y' : Except Err State)
    (hx : TransS env x x') (hy : TransS env y y') :
    TransS env (if p then x else y) (if p then x' else y') := by
  split <;> assumption

/-- the part of `step` on an opcode after the opcode has been counted -/
def afterCount (env : Env) (s : State) (o : Opc) (c : Core) : Except Err State :=
  match o with
  | .if_ | .notif =>
    if s.executing then
      match condPop env (o == .notif) c with
      | .ok (v, c) => .ok ⟨c, v :: s.conds⟩
      | .error e => .error e
    else .ok ⟨c, false :: s.conds⟩
  | .else_ =>
    match s.conds with
    | b :: cs => .ok ⟨c, (!b) :: cs⟩
    | [] => .error .unbalancedConditional
  | .endif =>
    match s.conds with
    | _ :: cs => .ok ⟨c, cs⟩
    | [] => .error .unbalancedConditional
  | o => if s.executing then (execOpc env o c).map (⟨·, s.conds⟩) else .ok ⟨c, s.conds⟩

theorem step_code (env : Env) (s : State) (o : Opc) :
    step env s (.code o) =
      match countOp env s.core 1 with
      | .error e => .error e
      | .ok c => afterCount env s o c := by
  unfold step afterCount
  cases countOp env s.core 1 with
  | error e => rfl
  | ok c => cases o <;> rfl

theorem condPop_ok (env : Env) (nf : Bool) (c : Core) (v : Bool) (c' : Core)
    (h : condPop env nf c = .ok (v, c')) : ∃ a, c.stack = a :: c'.stack ∧ c'.alt = c.alt ∧ c'.ops = c.ops := by
  unfold condPop at h
  split at h
  · rename_i a r hstk
    split at h
    · cases h
    · cases h; exact ⟨a, hstk, rfl, rfl⟩
  · cases h

theorem postS_afterCount (env : Env) (s : State) (o : Opc) (c : Core) :
    PostS env c (20 * (isMs (.code o)).toNat) (grows (.code o)).toNat (afterCount env s o c) := by
  have hself : ∀ k g cs, PostS env c k g (.ok ⟨c, cs⟩) := fun k g cs =>
    postS_ok env c k g _ ⟨Nat.le_refl _, Nat.le_add_right _ _⟩ (Nat.le_add_right _ _) (fun _ h => h)
  have hcond : ∀ nf k g, PostS env c k g (match condPop env nf c with
        | .ok (v, c) => .ok ⟨c, v :: s.conds⟩
        | .error e => .error e) := by
    intro nf k g
    cases hp : condPop env nf c with
    | error e => exact postS_error _ _ _ _ _
    | ok p =>
      obtain ⟨v, c2⟩ := p
      obtain ⟨a, h1, h2, h3⟩ := condPop_ok env nf c v c2 hp
      apply postS_ok
      · show c.ops ≤ c2.ops ∧ c2.ops ≤ c.ops + k
        omega
      · show c2.stack.length + c2.alt.length ≤ c.stack.length + c.alt.length + g
        rw [h1, h2]; simp only [List.length_cons]; omega
      · intro _ hc
        have := hc.1
        rw [h1] at this
        exact ⟨((small_cons _ _).mp this).2, by show small c2.alt; rw [h2]; exact hc.2⟩
  cases o
  case if_ => unfold afterCount; dsimp only; split; exact hcond _ _ _; exact hself _ _ _
  case notif => unfold afterCount; dsimp only; split; exact hcond _ _ _; exact hself _ _ _
  case else_ => unfold afterCount; dsimp only; split; exact hself _ _ _; exact postS_error _ _ _ _ _
  case endif => unfold afterCount; dsimp only; split; exact hself _ _ _; exact postS_error _ _ _ _ _
  all_goals
    unfold afterCount; dsimp only; split
    · exact postS_map _ _ _ _ _ _ (post_execOpc_all env _ c)
    · exact hself _ _ _

theorem transS_afterCount (env : Env) (o t : Bool) (s : State) (op : Opc) (c : Core) :
    TransS env (afterCount env s op c) (afterCount (withLimits env o t) s op c) := by
  cases op
  case if_ => exact transS_refl _ _
  case notif => exact transS_refl _ _
  case else_ => exact transS_refl _ _
  case endif => exact transS_refl _ _
  all_goals
    unfold afterCount; dsimp only
    apply transS_ite
    · exact transS_map _ _ _ _ (trans_execOpc_all env o t _ c)
    · exact transS_refl _ _


theorem filter_length_cons {α} (p : α → Bool) (a : α) (l : List α) :
    ((a :: l).filter p).length = ([a].filter p).length + (l.filter p).length := by
  simp only [List.filter_cons, List.filter_nil]
  cases p a <;> simp <;> omega

theorem codeCount_cons (op : Op) (rest : List Op) : codeCount (op :: rest) = codeCount [op] + codeCount rest :=
  filter_length_cons _ op rest

theorem growCount_cons (op : Op) (rest : List Op) : growCount (op :: rest) = growCount [op] + growCount rest :=
  filter_length_cons _ op rest

theorem msCount_cons (op : Op) (rest : List Op) : msCount (op :: rest) = msCount [op] + msCount rest :=
  filter_length_cons _ op rest

theorem growCount_single (op : Op) : growCount [op] = (grows op).toNat := by
  simp only [growCount, List.filter_cons, List.filter_nil]
  cases grows op <;> rfl

theorem msCount_single (op : Op) : msCount [op] = (isMs op).toNat := by
  simp only [msCount, List.filter_cons, List.filter_nil]
  cases isMs op <;> rfl

theorem small_pushed (n : Nat) : (if n = 0 then ([] : Bytes) else [UInt8.ofNat n]).length ≤ 520 := by
  split <;> simp

theorem map_pushElem_ok (env : Env) (c : Core) (b : Bytes) (cs : List Bool) (s1 : State)
    (h : (pushElem env c b).map (⟨·, cs⟩) = .ok s1) :
    s1.core = { c with stack := b :: c.stack } := by
  cases hp : pushElem env c b with
  | error e => rw [hp] at h; cases h
  | ok c1 => rw [hp] at h; cases h; exact lim_pushElem_ok env c b c1 hp

theorem step_post (env : Env) (s s1 : State) (op : Op) (h : step env s op = .ok s1) :
    (s.core.ops ≤ s1.core.ops ∧ s1.core.ops ≤ s.core.ops + codeCount [op] + 20 * msCount [op]) ∧
    depth s1.core ≤ depth s.core + growCount [op] ∧
    ((∀ op b, (env.hash op b).length ≤ 520) → bigPush [op] = false → Small s.core → Small s1.core) := by
  have hpush : ∀ b, (b.length ≤ 520) → s1.core = { s.core with stack := b :: s.core.stack } →
      (s.core.ops ≤ s1.core.ops ∧ s1.core.ops ≤ s.core.ops + 0 + 0) ∧
      depth s1.core ≤ depth s.core + 1 ∧ (Small s.core → Small s1.core) := by
    intro b hb e
    rw [e]
    refine ⟨⟨Nat.le_refl _, Nat.le_refl _⟩, ?_, fun hs => ⟨(small_cons _ _).mpr ⟨hb, hs.1⟩, hs.2⟩⟩
    simp only [depth, List.length_cons]; omega
  cases op with
  | bad b =>
    unfold step at h
    dsimp only at h
    split at h
    · cases h
    · cases h; exact ⟨⟨Nat.le_refl _, by omega⟩, Nat.le_add_right _ _, fun _ _ hs => hs⟩
  | small n =>
    unfold step at h
    dsimp only at h
    split at h
    · obtain ⟨h1, h2, h3⟩ := hpush _ (small_pushed n) (map_pushElem_ok env _ _ _ s1 h)
      exact ⟨h1, h2, fun _ _ hs => h3 hs⟩
    · cases h; exact ⟨⟨Nat.le_refl _, by omega⟩, Nat.le_add_right _ _, fun _ _ hs => hs⟩
  | push bs =>
    unfold step at h
    dsimp only at h
    split at h
    · cases h
    · split at h
      · have e := map_pushElem_ok env _ _ _ s1 h
        rw [e]
        refine ⟨⟨Nat.le_refl _, Nat.le_trans (Nat.le_add_right _ _) (Nat.le_add_right _ _)⟩, ?_,
          fun _ hb hs => ?_⟩
        · simp only [depth, List.length_cons, growCount_single, grows, Bool.toNat_true]; omega
        · simp only [bigPush_cons, bigPush_nil, Bool.or_false, decide_eq_false_iff_not] at hb
          exact ⟨(small_cons _ _).mpr ⟨by omega, hs.1⟩, hs.2⟩
      · cases h; exact ⟨⟨Nat.le_refl _, by omega⟩, Nat.le_add_right _ _, fun _ _ hs => hs⟩
  | code o =>
    rw [step_code] at h
    cases hc : countOp env s.core 1 with
    | error e => rw [hc] at h; cases h
    | ok c =>
      rw [hc] at h
      have hc' := lim_countOp_ok env _ _ c hc
      obtain ⟨h1, h2, h3⟩ := postS_afterCount env s o c s1 h
      subst hc'
      have e1 : codeCount [Op.code o] = 1 := rfl
      rw [e1, msCount_single, growCount_single]
      refine ⟨?_, h2, fun hh _ hs => h3 hh hs⟩
      simp only at h1
      omega


theorem step_trans (env : Env) (o t : Bool) (s s1 : State) (op : Op) (h : step env s op = .ok s1)
    (hok : OK env s1.core) (hbig : bigPush [op] = false) :
    step (withLimits env o t) s op = .ok s1 := by
  cases op with
  | bad b => exact h
  | small n =>
    unfold step at h ⊢
    dsimp only at h ⊢
    exact transS_ite env _ _ _ _ _ (transS_map env _ _ _ (trans_pushElem env o t _ _)) (transS_refl _ _)
      s1 h hok
  | push bs =>
    have hb : ¬ bs.length > 520 := by
      simp only [bigPush_cons, bigPush_nil, Bool.or_false, decide_eq_false_iff_not] at hbig
      exact hbig
    unfold step at h ⊢
    dsimp only at h ⊢
    split at h
    · cases h
    · have e : (((withLimits env o t).flags.stackLimits && decide (bs.length > 520)) = true) = False := by
        simp [hb]
      simp only [e, if_false]
      exact transS_ite env _ _ _ _ _ (transS_map env _ _ _ (trans_pushElem env o t _ _)) (transS_refl _ _)
        s1 h hok
  | code op =>
    rw [step_code] at h ⊢
    cases hc : countOp env s.core 1 with
    | error e => rw [hc] at h; cases h
    | ok c =>
      rw [hc] at h
      obtain ⟨h1, _, _⟩ := postS_afterCount env s op c s1 h
      have hc2 := countOp_withLimits env o t _ _ c hc (by
        cases hok.2.2 with
        | inl ht => exact Or.inl ht
        | inr hl => right; omega)
      rw [hc2]
      exact transS_afterCount env o t s op c s1 h hok

/-! ### whole scripts -/

theorem run_post (env : Env) (script : List Op) (s s' : State) (h : run env script s = .ok s') :
    (s.core.ops ≤ s'.core.ops ∧ s'.core.ops ≤ s.core.ops + codeCount script + 20 * msCount script) ∧
    depth s'.core ≤ depth s.core + growCount script ∧
    ((∀ op b, (env.hash op b).length ≤ 520) → bigPush script = false → Small s.core → Small s'.core) := by
  induction script generalizing s with
  | nil =>
    cases h
    exact ⟨⟨Nat.le_refl _, Nat.le_refl _⟩, Nat.le_refl _, fun _ _ hs => hs⟩
  | cons op rest ih =>
    rw [run_cons] at h
    cases hs : step env s op with
    | error e => rw [hs] at h; cases h
    | ok s1 =>
      rw [hs] at h
      obtain ⟨a1, a2, a3⟩ := step_post env s s1 op hs
      obtain ⟨b1, b2, b3⟩ := ih s1 h
      rw [codeCount_cons, growCount_cons, msCount_cons]
      refine ⟨⟨by omega, by omega⟩, by omega, ?_⟩
      intro hh hb hsm
      rw [bigPush_cons, Bool.or_eq_false_iff] at hb
      refine b3 hh hb.2 (a3 hh ?_ hsm)
      rw [bigPush_cons, bigPush_nil, Bool.or_false]
      exact hb.1

/-- executed-opcode counter after a successful run: every non-push opcode counts once
(executed or not), every CHECKMULTISIG at most 20 more -/
theorem run_ops_le (env : Env) (script : List Op) (s s' : State)
    (hrun : run env script s = .ok s') :
    s.core.ops ≤ s'.core.ops ∧ s'.core.ops ≤ s.core.ops + codeCount script + 20 * msCount script :=
  (run_post env script s s' hrun).1

theorem run_trans (env : Env) (o t : Bool) (hhash : ∀ op b, (env.hash op b).length ≤ 520)
    (script : List Op) (hbig : bigPush script = false)
    (s s' : State) (hrun : run env script s = .ok s')
    (helem : Small s.core) (hdepth : depth s.core + growCount script ≤ 1000)
    (hops : env.flags.tapscript = true ∨ s'.core.ops ≤ 201) :
    run (withLimits env o t) script s = .ok s' := by
  induction script generalizing s with
  | nil => exact hrun
  | cons op rest ih =>
    rw [run_cons] at hrun ⊢
    cases hs : step env s op with
    | error e => rw [hs] at hrun; cases hrun
    | ok s1 =>
      rw [hs] at hrun
      rw [bigPush_cons, Bool.or_eq_false_iff] at hbig
      have hb1 : bigPush [op] = false := by
        rw [bigPush_cons, bigPush_nil, Bool.or_false]; exact hbig.1
      rw [growCount_cons] at hdepth
      obtain ⟨_, a2, a3⟩ := step_post env s s1 op hs
      obtain ⟨b1, _, _⟩ := run_post env rest s1 s' hrun
      have hok : OK env s1.core := by
        refine ⟨a3 hhash hb1 helem, by omega, ?_⟩
        cases hops with
        | inl ht => exact Or.inl ht
        | inr hl => right; omega
      rw [step_trans env o t s s1 op hs hok hb1]
      exact ih hbig.2 s1 hrun hok.1 (by omega)

set_option linter.unusedVariables false in
/-- **Transfer**, for an arbitrary setting `o t` of the two limit flags (`run_trans` in the
vocabulary of the spec).  `hop` / `hst` document the intended use (limits OFF → limits `o t`);
the proof does not need them. -/
theorem run_withLimits (env : Env) (o t : Bool)
    (hop : env.flags.opLimit = false) (hst : env.flags.stackLimits = false)
    (hhash : ∀ op b, (env.hash op b).length ≤ 520)
    (script : List Op) (hbig : bigPush script = false)
    (s s' : State) (hrun : run env script s = .ok s')
    (helem : ∀ x, x ∈ s.core.stack ++ s.core.alt → x.length ≤ 520)
    (hdepth : s.core.stack.length + s.core.alt.length + growCount script ≤ 1000)
    (hops : env.flags.tapscript = true ∨ s'.core.ops ≤ 201) :
    run (withLimits env o t) script s = .ok s' :=
  run_trans env o t hhash script hbig s s' hrun ((small_append _ _).mp helem) hdepth hops

/-- **Transfer.**  A run that succeeds with the limits OFF also succeeds, with the same final
state, with the limits ON, provided: no push in the script exceeds 520 bytes, hash outputs are
≤ 520 bytes, the initial elements are ≤ 520 bytes, the initial depth plus the number of growing
script elements is ≤ 1000, and (outside tapscript) the final opcode counter is ≤ 201. -/
theorem run_limitsOn (env : Env) (hop : env.flags.opLimit = false) (hst : env.flags.stackLimits = false)
    (hhash : ∀ op b, (env.hash op b).length ≤ 520)
    (script : List Op) (hbig : bigPush script = false)
    (s s' : State) (hrun : run env script s = .ok s')
    (helem : ∀ x, x ∈ s.core.stack ++ s.core.alt → x.length ≤ 520)
    (hdepth : s.core.stack.length + s.core.alt.length + growCount script ≤ 1000)
    (hops : env.flags.tapscript = true ∨ s'.core.ops ≤ 201) :
    run (limitsOn env) script s = .ok s' :=
  run_withLimits env true true hop hst hhash script hbig s s' hrun helem hdepth hops

end MsVerif.SatSpec

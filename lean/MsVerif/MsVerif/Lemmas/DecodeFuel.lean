/-
Termination of the decoder loop: a measure that strictly decreases with every iteration of
`decode`'s `loop`, hence `decodeFuel` (20·|tokens| + 6) is never exhausted.

No static weight per nonterminal works (`AndV` re-pushes itself plus `MaybeAndV` without
consuming a token when `is_and_v` holds); the measure therefore carries a bonus of 4 while an
`AndV` is on top and the next token allows an `and_v`.
-/
import MsVerif.Lemmas.DecodeBasic

namespace MsVerif
namespace DecodeL

def wt : NonTerm → Nat
  | .expression => 1 | .maybeAndV => 3 | .andV => 1 | .wExpression => 10
  | .threshW _ _ => 7 | .endIfNotIf => 7 | .endIfElse => 1 | .endIf => 1
  | _ => 5

def wsum : List NonTerm → Nat
  | [] => 0
  | x :: l => wt x + wsum l

def bonus (toks : List Token) : List NonTerm → Nat
  | .andV :: _ => if isAndV toks then 4 else 0
  | _ => 0

def measure (s : DState) : Nat := 20 * s.toks.length + wsum s.nt + bonus s.toks s.nt

theorem bonus_le (toks : List Token) (nt : List NonTerm) : bonus toks nt ≤ 4 := by
  unfold bonus; split
  · split <;> omega
  · omega

theorem bonus_of_not {toks : List Token} (h : isAndV toks = false) (nt : List NonTerm) :
    bonus toks nt = 0 := by
  unfold bonus; split
  · simp [h]
  · rfl

theorem wsum_append (a b : List NonTerm) : wsum (a ++ b) = wsum a + wsum b := by
  induction a with
  | nil => simp [wsum]
  | cons x a ih => simp [wsum, ih]; omega

theorem reduce1_eq {env : KeyEnv} {ctx : Ctx} {f : Ms → Ms} {s s' : DState}
    (h : reduce1 env ctx f s = .ok s') : s'.toks = s.toks ∧ s'.nt = s.nt := by
  unfold reduce1 at h
  repeat' split at h
  all_goals (cases h)
  exact ⟨rfl, rfl⟩

theorem reduce2_eq {env : KeyEnv} {ctx : Ctx} {f : Ms → Ms → Ms} {s s' : DState}
    (h : reduce2 env ctx f s = .ok s') : s'.toks = s.toks ∧ s'.nt = s.nt := by
  unfold reduce2 at h
  repeat' split at h
  all_goals (cases h)
  exact ⟨rfl, rfl⟩

/-- weight of what an `Expression` arm pushes, plus the bonus that may appear, is paid by the
token it consumes -/
theorem exprShape_wsum {p : List NonTerm} {q : Nat} (h : exprShapeOk p q = true) : wsum p ≤ 16 := by
  unfold exprShapeOk at h
  split at h <;> simp_all [wsum, wt]

@[simp] theorem bonus_andV (toks : List Token) (l : List NonTerm) :
    bonus toks (.andV :: l) = if isAndV toks then 4 else 0 := rfl
theorem bonus_cons_ne {top : NonTerm} (h : top ≠ .andV) (toks : List Token) (l : List NonTerm) :
    bonus toks (top :: l) = 0 := by
  cases top <;> first | rfl | exact absurd rfl h

@[simp] theorem bonus_expression (toks : List Token) (l : List NonTerm) : bonus toks (.expression :: l) = 0 := rfl
@[simp] theorem bonus_wExpression (toks : List Token) (l : List NonTerm) : bonus toks (.wExpression :: l) = 0 := rfl
@[simp] theorem bonus_swap (toks : List Token) (l : List NonTerm) : bonus toks (.swap :: l) = 0 := rfl
@[simp] theorem bonus_maybeAndV (toks : List Token) (l : List NonTerm) : bonus toks (.maybeAndV :: l) = 0 := rfl
@[simp] theorem bonus_alt (toks : List Token) (l : List NonTerm) : bonus toks (.alt :: l) = 0 := rfl
@[simp] theorem bonus_check (toks : List Token) (l : List NonTerm) : bonus toks (.check :: l) = 0 := rfl
@[simp] theorem bonus_dupIf (toks : List Token) (l : List NonTerm) : bonus toks (.dupIf :: l) = 0 := rfl
@[simp] theorem bonus_verify (toks : List Token) (l : List NonTerm) : bonus toks (.verify :: l) = 0 := rfl
@[simp] theorem bonus_nonZero (toks : List Token) (l : List NonTerm) : bonus toks (.nonZero :: l) = 0 := rfl
@[simp] theorem bonus_zeroNotEqual (toks : List Token) (l : List NonTerm) : bonus toks (.zeroNotEqual :: l) = 0 := rfl
@[simp] theorem bonus_andB (toks : List Token) (l : List NonTerm) : bonus toks (.andB :: l) = 0 := rfl
@[simp] theorem bonus_tern (toks : List Token) (l : List NonTerm) : bonus toks (.tern :: l) = 0 := rfl
@[simp] theorem bonus_orB (toks : List Token) (l : List NonTerm) : bonus toks (.orB :: l) = 0 := rfl
@[simp] theorem bonus_orD (toks : List Token) (l : List NonTerm) : bonus toks (.orD :: l) = 0 := rfl
@[simp] theorem bonus_orC (toks : List Token) (l : List NonTerm) : bonus toks (.orC :: l) = 0 := rfl
@[simp] theorem bonus_endIf (toks : List Token) (l : List NonTerm) : bonus toks (.endIf :: l) = 0 := rfl
@[simp] theorem bonus_endIfNotIf (toks : List Token) (l : List NonTerm) : bonus toks (.endIfNotIf :: l) = 0 := rfl
@[simp] theorem bonus_endIfElse (toks : List Token) (l : List NonTerm) : bonus toks (.endIfElse :: l) = 0 := rfl
@[simp] theorem bonus_threshW (toks : List Token) (k n : Nat) (l : List NonTerm) : bonus toks (.threshW k n :: l) = 0 := rfl
@[simp] theorem bonus_threshE (toks : List Token) (k n : Nat) (l : List NonTerm) : bonus toks (.threshE k n :: l) = 0 := rfl

theorem stepNT_measure {dec : AtomDec} {env : KeyEnv} {ctx : Ctx} {top : NonTerm}
    {toks : List Token} {nt : List NonTerm} {term : List Ms} {s' : DState}
    (h : stepNT dec env ctx top ⟨toks, nt, term⟩ = .ok s') :
    measure s' < measure ⟨toks, top :: nt, term⟩ := by
  have hb := bonus_le
  cases top
  case expression =>
    simp only [stepNT] at h
    split at h
    · cases h
    · rename_i o ho
      cases h
      have ⟨h1, h2⟩ := stepExpr_shape ho
      have := exprShape_wsum h1
      have := hb o.toks (o.pushNt ++ nt)
      simp only [measure, wsum_append, wsum, wt, bonus_expression]
      omega
  case maybeAndV =>
    simp only [stepNT] at h
    split at h
    · cases h
      simp only [measure, wsum, wt, bonus_expression, bonus_maybeAndV]
      omega
    · rename_i hf
      cases h
      have := bonus_of_not (toks := toks) (by simpa using hf) nt
      simp only [measure, wsum, wt, this, bonus_maybeAndV]
      omega
  case andV =>
    simp only [stepNT] at h
    split at h
    · rename_i ht
      cases h
      simp only [measure, wsum, wt, bonus_andV, ht, bonus_maybeAndV]
      simp only [if_true]
      omega
    · rename_i hf
      have ⟨e1, e2⟩ := reduce2_eq h
      simp only at e1 e2
      have := bonus_of_not (toks := toks) (by simpa using hf) nt
      simp only [measure, e1, e2, this, wsum, wt]
      omega
  -- plain reductions
  case check | dupIf | verify | nonZero | zeroNotEqual =>
    simp only [stepNT] at h
    have ⟨e1, e2⟩ := reduce1_eq h
    simp only at e1 e2
    have := hb toks nt
    simp only [measure, e1, e2, wsum, wt, bonus_check, bonus_dupIf, bonus_verify, bonus_nonZero, bonus_zeroNotEqual]
    omega
  case andB | orB | orC | orD =>
    simp only [stepNT] at h
    have ⟨e1, e2⟩ := reduce2_eq h
    simp only at e1 e2
    have := hb toks nt
    simp only [measure, e1, e2, wsum, wt, bonus_andB, bonus_orB, bonus_orC, bonus_orD]
    omega
  case tern =>
    simp only [stepNT] at h
    repeat' split at h
    all_goals (cases h)
    have := hb toks nt
    simp only [measure, wsum, wt, bonus_tern]
    omega
  case threshE k n =>
    simp only [stepNT] at h
    repeat' split at h
    all_goals (cases h)
    have := hb toks nt
    simp only [measure, wsum, wt, bonus_threshE]
    omega
  case swap | alt =>
    simp only [stepNT] at h
    split at h
    · cases h
    · rename_i ts
      have ⟨e1, e2⟩ := reduce1_eq h
      simp only at e1 e2
      have := hb ts nt
      simp only [measure, e1, e2, wsum, wt, bonus_swap, bonus_alt, List.length_cons]
      omega
    · cases h
  case threshW k n =>
    simp only [stepNT] at h
    split at h <;> cases h <;>
      simp only [measure, wsum, wt, bonus_threshW, bonus_wExpression, bonus_expression, List.length_cons] <;> omega
  case endIf =>
    simp only [stepNT] at h
    repeat' split at h
    all_goals (cases h)
    all_goals
      simp only [measure, wsum, wt, bonus_endIf, bonus_expression, bonus_dupIf, bonus_nonZero,
        bonus_endIfNotIf, List.length_cons]
      omega
  case endIfNotIf =>
    simp only [stepNT] at h
    split at h <;> cases h <;>
      simp only [measure, wsum, wt, bonus_endIfNotIf, bonus_expression, List.length_cons] <;> omega
  case endIfElse =>
    simp only [stepNT] at h
    split at h
    · cases h
    · rename_i ts
      have ⟨e1, e2⟩ := reduce2_eq h
      simp only at e1 e2
      have := hb ts nt
      simp only [measure, e1, e2, wsum, wt, bonus_endIfElse, List.length_cons]
      omega
    · cases h
      simp only [measure, wsum, wt, bonus_endIfElse, bonus_expression, List.length_cons]
      omega
    · cases h
  case wExpression =>
    simp only [stepNT] at h
    split at h <;> cases h <;>
      simp only [measure, wsum, wt, bonus_wExpression, bonus_expression, List.length_cons] <;> omega

/-- the loop never runs out of fuel when started above the measure -/
theorem decodeLoop_fuel {dec : AtomDec} {env : KeyEnv} {ctx : Ctx} :
    ∀ (fuel : Nat) (s : DState), measure s < fuel → decodeLoop dec env ctx fuel s ≠ none := by
  intro fuel
  induction fuel with
  | zero => intro s h; omega
  | succ f ih =>
    intro s h
    obtain ⟨toks, nt, term⟩ := s
    cases nt with
    | nil =>
      simp only [decodeLoop]
      split <;> simp
    | cons top nt =>
      simp only [decodeLoop]
      split
      · simp
      · rename_i s' hs
        have := stepNT_measure hs
        exact ih s' (by omega)

theorem measure_init (toks : List Token) : measure (initState toks) = 20 * toks.length + 4 := by
  simp [measure, initState, wsum, wt]

end DecodeL
end MsVerif

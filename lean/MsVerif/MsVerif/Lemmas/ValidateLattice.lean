/-
Helper lemmas for C12/T3: `ValidationParams` ordered by `entails` is a meet-semilattice with
meet `intersect`; component-wise characterisation of `eq` and `entails`.
-/
import MsVerif.Lemmas.ValidateChar

namespace MsVerif
namespace ValidationParams

theorem eq_iff (a b : ValidationParams) : a.eq b = true ↔ a = b := by
  constructor
  · intro h
    simp only [ValidationParams.eq, Bool.and_eq_true, beq_iff_eq] at h
    obtain ⟨⟨⟨⟨⟨⟨⟨⟨⟨⟨⟨⟨⟨⟨⟨⟨⟨⟨⟨h1, h2⟩, h3⟩, h4⟩, h5⟩, h6⟩, h7⟩, h8⟩, h9⟩, h10⟩, h11⟩, h12⟩, h13⟩,
      h14⟩, h15⟩, h16⟩, h17⟩, h18⟩, h19⟩, h20⟩ := h
    cases a; cases b; simp_all
  · rintro rfl
    simp [ValidationParams.eq]

theorem and_eq_left_iff (x y : Bool) : ((x && y) == x) = imp x y := by cases x <;> cases y <;> rfl

theorem minU_eq_left_iff (a b : Nat) : (minU a b == a) = decide (a ≤ b) := by
  unfold minU
  by_cases h : a < b
  · simp [h]; omega
  · simp only [h, if_false]
    by_cases h2 : a ≤ b
    · have : b = a := by omega
      simp [this]
    · simp [h2]; omega

theorem entails_eq_le (a b : ValidationParams) : a.entails b = a.le b := by
  simp only [entails, intersect, ValidationParams.eq, and_eq_left_iff, minU_eq_left_iff, le]

theorem le_iff (a b : ValidationParams) : a.le b = true ↔
    ((a.allowCompressedKeys = true → b.allowCompressedKeys = true)
    ∧ (a.allowDuplicateKeys = true → b.allowDuplicateKeys = true)
    ∧ (a.allowDupIf = true → b.allowDupIf = true)
    ∧ (a.allowMalleability = true → b.allowMalleability = true)
    ∧ (a.allowMixedTimeLocks = true → b.allowMixedTimeLocks = true)
    ∧ (a.allowMulti = true → b.allowMulti = true)
    ∧ (a.allowMultiA = true → b.allowMultiA = true)
    ∧ (a.allowOrI = true → b.allowOrI = true)
    ∧ (a.allowRawPkh = true → b.allowRawPkh = true)
    ∧ (a.allowSiglessBranch = true → b.allowSiglessBranch = true)
    ∧ (a.allowNonB = true → b.allowNonB = true)
    ∧ (a.allowUncompressedKeys = true → b.allowUncompressedKeys = true)
    ∧ (a.allowUnsatisfiable = true → b.allowUnsatisfiable = true)
    ∧ (a.allowXOnlyKeys = true → b.allowXOnlyKeys = true)
    ∧ (a.allowInconsistentMultipathKeys = true → b.allowInconsistentMultipathKeys = true))
    ∧ a.maxOpcodeCount ≤ b.maxOpcodeCount
    ∧ a.maxScriptSize ≤ b.maxScriptSize
    ∧ a.maxWitnessItems ≤ b.maxWitnessItems
    ∧ a.maxExecStackSize ≤ b.maxExecStackSize
    ∧ a.maxRecursiveDepth ≤ b.maxRecursiveDepth := by
  have himp : ∀ x y : Bool, imp x y = true ↔ (x = true → y = true) := by
    intro x y; cases x <;> cases y <;> simp [imp]
  simp only [le, Bool.and_eq_true, himp, decide_eq_true_eq]
  constructor
  · rintro ⟨⟨⟨⟨⟨⟨⟨⟨⟨⟨⟨⟨⟨⟨⟨⟨⟨⟨⟨h1, h2⟩, h3⟩, h4⟩, h5⟩, h6⟩, h7⟩, h8⟩, h9⟩, h10⟩, h11⟩, h12⟩, h13⟩,
      h14⟩, h15⟩, h16⟩, h17⟩, h18⟩, h19⟩, h20⟩
    exact ⟨⟨h1, h2, h3, h4, h5, h6, h7, h8, h9, h10, h11, h12, h13, h14, h15⟩, h16, h17, h18, h19,
      h20⟩
  · rintro ⟨⟨h1, h2, h3, h4, h5, h6, h7, h8, h9, h10, h11, h12, h13, h14, h15⟩, h16, h17, h18, h19,
      h20⟩
    exact ⟨⟨⟨⟨⟨⟨⟨⟨⟨⟨⟨⟨⟨⟨⟨⟨⟨⟨⟨h1, h2⟩, h3⟩, h4⟩, h5⟩, h6⟩, h7⟩, h8⟩, h9⟩, h10⟩, h11⟩, h12⟩, h13⟩,
      h14⟩, h15⟩, h16⟩, h17⟩, h18⟩, h19⟩, h20⟩

theorem entails_iff (a b : ValidationParams) : a.entails b = true ↔ a.le b = true := by
  rw [entails_eq_le]

theorem minU_le_left (a b : Nat) : minU a b ≤ a := by unfold minU; split <;> omega
theorem minU_le_right (a b : Nat) : minU a b ≤ b := by unfold minU; split <;> omega
theorem le_minU {c a b : Nat} (h1 : c ≤ a) (h2 : c ≤ b) : c ≤ minU a b := by
  unfold minU; split <;> omega
theorem minU_comm (a b : Nat) : minU a b = minU b a := by unfold minU; split <;> split <;> omega

end ValidationParams
end MsVerif

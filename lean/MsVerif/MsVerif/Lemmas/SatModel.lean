/-
Facts about the satisfier's combinators (`Witness::combine`, `concatenate_rev`, `minimum`,
`minimum_mall`, the `fold` of `thresh`): a result that is an available stack whose reported
locks are met by the transaction decomposes into such results of the parts.
-/
import MsVerif.Spec.SatSpec

namespace MsVerif.SatSpec
open MsVerif Script

variable {env : Env}

/-- pointwise relation of two lists (core Lean has no `Forall₂`) -/
inductive All2 {α β : Type} (R : α → β → Prop) : List α → List β → Prop
  | nil : All2 R [] []
  | cons {a b l m} : R a b → All2 R l m → All2 R (a :: l) (b :: m)

/-- an available (dis)satisfaction with stack `w` whose reported locks the transaction meets -/
def Good (env : Env) (s : Sat) (w : List Ph) : Prop := s.stack = .stack w ∧ LocksMet env s

theorem combine_stack {a b : Wit} {w : List Ph} (h : Wit.combine a b = .stack w) :
    ∃ wa wb, a = .stack wa ∧ b = .stack wb ∧ w = wa ++ wb := by
  cases a <;> cases b <;> simp [Wit.combine] at h
  exact ⟨_, _, rfl, rfl, h.symm⟩

theorem absMax_locks {a b m : Nat} (hm : Sat.absMax a b = some m) (hc : checkLockTime env m = true) :
    checkLockTime env a = true ∧ checkLockTime env b = true := by
  unfold Sat.absMax at hm
  split at hm
  · rename_i hu
    simp only [Option.some.injEq] at hm
    have hT : LOCKTIME_THRESHOLD = 500000000 := rfl
    simp [checkLockTime] at hc hu ⊢
    split at hm <;> subst hm <;> refine ⟨⟨⟨?_, ?_⟩, hc.2⟩, ⟨⟨?_, ?_⟩, hc.2⟩⟩ <;> omega
  · simp at hm

theorem relMax_locks {a b m : Nat} (hm : Sat.relMax a b = some m) (hc : checkSequence env m = true) :
    checkSequence env a = true ∧ checkSequence env b = true := by
  unfold Sat.relMax at hm
  split at hm
  · rename_i hu
    simp only [Option.some.injEq] at hm
    have hT : SEQ_TYPE = 4194304 := rfl
    have hM : SEQ_MASK = 65535 := rfl
    simp [checkSequence, seqMasked, Sat.relIsTime, Sat.relVal] at hc hu hm ⊢
    simp only [hT, hM] at hc ⊢
    simp only [decide_eq_true_eq] at hc ⊢
    have hu' : (a / 4194304 % 2 = 1 ↔ b / 4194304 % 2 = 1) := by
      constructor
      · intro h; have : (a / 4194304 % 2 == 1) = true := by rw [h]; rfl
        rw [hu] at this; exact beq_iff_eq.mp this
      · intro h; have : (b / 4194304 % 2 == 1) = true := by rw [h]; rfl
        rw [← hu] at this; exact beq_iff_eq.mp this
    split at hm <;> subst hm <;> refine ⟨⟨hc.1, ⟨?_, ?_⟩⟩, ⟨hc.1, ⟨?_, ?_⟩⟩⟩ <;> omega
  · simp at hm

/-- the lock-merging pattern of `concatenate_rev` -/
def mergeOpt (mx : Nat → Nat → Option Nat) : Option Nat → Option Nat → Option (Option Nat)
  | none, x => some x
  | x, none => some x
  | some a, some b => (mx a b).map some

theorem concatenateRev_eq (a b : Sat) :
    a.concatenateRev b =
      if a.stack = .impossible ∨ b.stack = .impossible then Sat.IMPOSSIBLE else
      match mergeOpt Sat.relMax a.rel b.rel with
      | none => Sat.IMPOSSIBLE
      | some rel =>
        match mergeOpt Sat.absMax a.abs b.abs with
        | none => Sat.IMPOSSIBLE
        | some abs => ⟨Wit.combine b.stack a.stack, a.hasSig || b.hasSig, abs, rel⟩ := by
  unfold Sat.concatenateRev mergeOpt
  cases a.rel <;> cases b.rel <;> cases a.abs <;> cases b.abs <;> rfl

theorem mergeOpt_locks {mx : Nat → Nat → Option Nat} {P : Nat → Prop}
    (hmx : ∀ a b m, mx a b = some m → P m → P a ∧ P b)
    {x y r : Option Nat} (hm : mergeOpt mx x y = some r) (hr : ∀ n, r = some n → P n) :
    (∀ n, x = some n → P n) ∧ (∀ n, y = some n → P n) := by
  cases x <;> cases y <;> simp [mergeOpt] at hm
  · subst hm; simp
  · subst hm; simpa using hr
  · subst hm; simpa using hr
  · obtain ⟨m, hm, rfl⟩ := hm
    have := hmx _ _ _ hm (hr m rfl)
    simpa using this

/-- `concatenate_rev`: the parts are available, their locks are met, `other`'s stack first -/
theorem concat_good {a b : Sat} {w : List Ph} (h : Good env (a.concatenateRev b) w) :
    ∃ wa wb, Good env a wa ∧ Good env b wb ∧ w = wb ++ wa := by
  obtain ⟨hs, hl⟩ := h
  rw [concatenateRev_eq] at hs hl
  split at hs
  · simp [Sat.IMPOSSIBLE] at hs
  · rename_i hni
    simp only [hni, if_false] at hl
    cases hr : mergeOpt Sat.relMax a.rel b.rel with
    | none => simp [hr, Sat.IMPOSSIBLE] at hs
    | some rel =>
      cases ha : mergeOpt Sat.absMax a.abs b.abs with
      | none => simp [hr, ha, Sat.IMPOSSIBLE] at hs
      | some abs =>
        simp only [hr, ha] at hs hl
        obtain ⟨wb, wa, eb, ea, rfl⟩ := combine_stack hs
        have hA := mergeOpt_locks (P := fun n => checkLockTime env n = true)
          (fun _ _ _ => absMax_locks) ha hl.1
        have hR := mergeOpt_locks (P := fun n => checkSequence env n = true)
          (fun _ _ _ => relMax_locks) hr hl.2
        exact ⟨wa, wb, ⟨ea, hA.1, hR.1⟩, ⟨eb, hA.2, hR.2⟩, rfl⟩

theorem minimum_good {a b : Sat} {w : List Ph} (h : Good env (Sat.minimum a b) w) :
    Good env a w ∨ Good env b w := by
  unfold Sat.minimum at h
  split at h
  · exact .inr h
  · split at h
    · exact .inl h
    · split at h
      · simp [Good, Sat.UNAVAILABLE] at h
      · exact .inl h
      · exact .inr h
      · split at h
        · exact .inl h
        · exact .inr h

theorem minimumMall_good {a b : Sat} {w : List Ph} (h : Good env (Sat.minimumMall a b) w) :
    Good env a w ∨ Good env b w := by
  unfold Sat.minimumMall at h
  split at h
  · exact .inr h
  · split at h
    · exact .inl h
    · simp only at h
      split at h
      · exact .inl h
      · exact .inr h

theorem minFn_good {c : SatCfg} {a b : Sat} {w : List Ph} (h : Good env (c.minFn a b) w) :
    Good env a w ∨ Good env b w := by
  unfold SatCfg.minFn at h
  split at h
  · exact minimumMall_good h
  · exact minimum_good h

/-- `Self { stack: Witness::combine(s.stack, push), ..s }` -/
theorem withPush_good {s : Sat} {p : Ph} {w : List Ph}
    (h : Good env { s with stack := Wit.combine s.stack (.stack [p]) } w) :
    ∃ w0, Good env s w0 ∧ w = w0 ++ [p] := by
  obtain ⟨hs, hl⟩ := h
  obtain ⟨w0, wb, e0, eb, rfl⟩ := combine_stack hs
  simp only [Wit.stack.injEq] at eb
  subst eb
  exact ⟨w0, ⟨e0, hl⟩, rfl⟩

theorem good_empty : Good env Sat.empty [] := by
  simp [Good, Sat.empty, LocksMet]

/-- the `fold(Self::empty(), Self::concatenate_rev)` of `thresh`: every part is available with
its locks met, and the stacks are concatenated last-child-first -/
theorem foldl_concat_good (l : List Sat) : ∀ (acc : Sat) (w : List Ph),
    Good env (l.foldl Sat.concatenateRev acc) w →
    ∃ wacc ws, Good env acc wacc ∧ All2 (Good env) l ws ∧ w = ws.reverse.flatten ++ wacc := by
  induction l with
  | nil => intro acc w h; exact ⟨w, [], h, .nil, by simp⟩
  | cons x xs ih =>
    intro acc w h
    rw [List.foldl_cons] at h
    obtain ⟨w1, ws, h1, hxs, rfl⟩ := ih _ _ h
    obtain ⟨wacc, wx, hacc, hx, rfl⟩ := concat_good h1
    exact ⟨wacc, wx :: ws, hacc, .cons hx hxs, by simp⟩

theorem foldConcat_good {l : List Sat} {w : List Ph} (h : Good env (foldConcat l) w) :
    ∃ ws, All2 (Good env) l ws ∧ w = ws.reverse.flatten := by
  obtain ⟨wacc, ws, hacc, hl, rfl⟩ := foldl_concat_good l _ _ h
  have : wacc = [] := by
    have := hacc.1
    simp [Sat.empty] at this
    exact this
  subst this
  exact ⟨ws, hl, by simp⟩

end MsVerif.SatSpec

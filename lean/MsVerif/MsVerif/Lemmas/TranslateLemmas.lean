/-
Lemmas for C20: the stack-based rebuild of `translate_pk_ctx` over `rtl_post_order_iter` equals
the structural translation with the same order of effects (`Ms.trRtl`); `for_each_key` and the
path-stack iterator `Miniscript::iter` visit the pre-order.
-/
import MsVerif.Lemmas.CmpEq
import MsVerif.Model.Translate

-- many `simp` calls below close several constructor cases at once; an argument unused in one case is used in another
set_option linter.unusedSimpArgs false

namespace MsVerif.TranslateLemmas
open MsVerif MsVerif.TreeWalk MsVerif.CmpEq

variable {σ ε : Type}

@[simp] theorem throw_bind {α β : Type} (e : TrErr ε) (f : α → TrM σ ε β) :
    (throw e : TrM σ ε α) >>= f = throw e := by
  apply StateT.ext; intro s
  simp [StateT.run_bind]
  rfl

@[simp] theorem map_throw {α β : Type} (e : TrErr ε) (f : α → β) :
    f <$> (throw e : TrM σ ε α) = throw e := by
  rw [← bind_pure_comp]; exact throw_bind e _

theorem pushChecked_bind {β : Type} (chk : Ms → Bool) (n : Ms) (st : List Ms)
    (f : List Ms → TrM σ ε β) :
    (pushChecked chk n st >>= f) = (retChecked chk n >>= fun m => f (m :: st)) := by
  unfold pushChecked retChecked
  split <;> simp

theorem translateLoop_append (t : Translator σ ε) (chk : Ms → Bool) :
    ∀ (xs ys st : List Ms), translateLoop t chk (xs ++ ys) st
      = (translateLoop t chk xs st >>= fun st' => translateLoop t chk ys st')
  | [], ys, st => by simp [translateLoop]
  | x :: xs, ys, st => by
    simp only [List.cons_append, translateLoop, bind_assoc]
    congr 1; funext st'
    exact translateLoop_append t chk xs ys st'

theorem loop_one (t : Translator σ ε) (chk : Ms → Bool) (x : Ms) (rest st : List Ms) :
    translateLoop t chk (x :: rest) st
      = (translateStep t chk st x >>= fun st' => translateLoop t chk rest st') := by
  simp [translateLoop]

theorem popEachM_append (cs ys st : List Ms) (h : cs.length = ys.length) :
    (popEachM cs (ys ++ st) : TrM σ ε (List Ms × List Ms)) = pure (ys, st) := by
  simp [popEachM, popEach_append cs ys st h]

/-- continuations after `xs.trRtl` only matter on lists of the same length -/
theorem trRtl_list_congr {β : Type} (t : Translator σ ε) (chk : Ms → Bool) :
    (xs : MsList) → ∀ (f g : MsList → TrM σ ε β), (∀ ys, ys.length = xs.length → f ys = g ys) →
      (xs.trRtl t chk >>= f) = (xs.trRtl t chk >>= g)
  | .nil, f, g, h => by simp [MsList.trRtl, h .nil rfl]
  | .cons x xs, f, g, h => by
    simp only [MsList.trRtl, bind_assoc, pure_bind]
    apply trRtl_list_congr t chk xs
    intro ys hy
    congr 1; funext x'
    exact h _ (by simp [MsList.length, hy])

mutual
theorem trLoop_ms (t : Translator σ ε) (chk : Ms → Bool) : (ms : Ms) → ∀ (rest st : List Ms),
    translateLoop t chk (ms.rtlPost ++ rest) st
      = (ms.trRtl t chk >>= fun ms' => translateLoop t chk rest (ms' :: st))
  | .tru, rest, st | .fls, rest, st | .rawPkH _, rest, st | .after _, rest, st | .older _, rest, st => by
    simp [Ms.rtlPost, loop_one, translateStep, Ms.trRtl, pushChecked_bind]
  | .pkK _, rest, st | .pkH _, rest, st | .hash _ _, rest, st => by
    simp [Ms.rtlPost, loop_one, translateStep, Ms.trRtl, pushChecked_bind]
  | .multi _ _, rest, st | .sortedMulti _ _, rest, st | .multiA _ _, rest, st
  | .sortedMultiA _ _, rest, st => by
    simp [Ms.rtlPost, loop_one, translateStep, Ms.trRtl, pushChecked_bind]
  | .alt x, rest, st | .swap x, rest, st | .check x, rest, st | .dupIf x, rest, st
  | .verify x, rest, st | .nonZero x, rest, st | .zeroNotEqual x, rest, st => by
    simp [Ms.rtlPost, List.append_assoc, trLoop_ms t chk x, loop_one, translateStep, Ms.trRtl,
      pushChecked_bind, popM, pop?]
  | .andV l r, rest, st | .andB l r, rest, st | .orB l r, rest, st | .orD l r, rest, st
  | .orC l r, rest, st | .orI l r, rest, st => by
    simp [Ms.rtlPost, List.append_assoc, trLoop_ms t chk l, trLoop_ms t chk r, loop_one,
      translateStep, Ms.trRtl, pushChecked_bind, popM, pop?]
  | .andOr a b c, rest, st => by
    simp [Ms.rtlPost, List.append_assoc, trLoop_ms t chk a, trLoop_ms t chk b, trLoop_ms t chk c,
      loop_one, translateStep, Ms.trRtl, pushChecked_bind, popM, pop?]
  | .thresh k xs, rest, st => by
    simp only [Ms.rtlPost, List.append_assoc, trLoop_list t chk xs, Ms.trRtl, bind_assoc]
    apply trRtl_list_congr t chk xs
    intro ys hy
    have hl : xs.toList.length = ys.toList.length := by simp [MsList.length_toList, hy]
    simp [loop_one, translateStep, popEachM_append _ _ _ hl, pushChecked_bind, MsList.ofList_toList]
theorem trLoop_list (t : Translator σ ε) (chk : Ms → Bool) : (xs : MsList) → ∀ (rest st : List Ms),
    translateLoop t chk (xs.rtlPost ++ rest) st
      = (xs.trRtl t chk >>= fun ys => translateLoop t chk rest (ys.toList ++ st))
  | .nil, rest, st => by simp [MsList.rtlPost, MsList.trRtl, MsList.toList]
  | .cons x xs, rest, st => by
    simp [MsList.rtlPost, List.append_assoc, trLoop_list t chk xs, trLoop_ms t chk x,
      MsList.trRtl, MsList.toList]
end

/-- T1: the stack machine is the structural translation -/
theorem translatePk_eq (t : Translator σ ε) (chk : Ms → Bool) (ms : Ms) :
    translatePk t chk ms = ms.trRtl t chk := by
  unfold translatePk
  rw [rtlPostOrder_eq]
  have := trLoop_ms t chk ms [] []
  simp only [List.append_nil] at this
  rw [this]
  simp [translateLoop, popM, pop?]

/-! ### unfolding `atomsRtl` / `keys` along the constructors -/

theorem MsList.atoms_eq : (xs : MsList) →
    xs.rtlPost.flatMap Ms.nodeAtoms = xs.toList.reverse.flatMap Ms.atomsRtl
  | .nil => rfl
  | .cons x xs => by
    simp [MsList.rtlPost, MsList.toList, List.flatMap_append, MsList.atoms_eq xs, Ms.atomsRtl]

/-! ### (a) a pure, total translator: success iff every rebuilt node passes `from_ast` -/

def pureT (f : Key → Key) (g : HashKind → Nat → Nat) : Translator σ ε :=
  ⟨fun k => pure (f k), fun kind h => pure (g kind h)⟩

/-- `pure v` if `ok`, else `OuterError` -/
def outC {α : Type} (ok : Bool) (v : α) : TrM σ ε α := if ok then pure v else throw .outerError

theorem outC_bind {α β : Type} (a : Bool) (b : α → Bool) (v : α) (k : α → β) :
    ((outC a v : TrM σ ε α) >>= fun x => outC (b x) (k x)) = outC (a && b v) (k v) := by
  cases a <;> cases h : b v <;> simp [outC, h]

theorem outC_bind_pure {α β : Type} (a : Bool) (v : α) (k : α → β) :
    ((outC a v : TrM σ ε α) >>= fun x => pure (k x)) = outC a (k v) := by
  cases a <;> simp [outC]

theorem retChecked_outC (chk : Ms → Bool) (n : Ms) : (retChecked chk n : TrM σ ε Ms) = outC (chk n) n := rfl

theorem translateKeys_pure (f : Key → Key) (g : HashKind → Nat → Nat) (ks : List Key) :
    translateKeys (pureT (σ := σ) (ε := ε) f g) ks = pure (ks.map f) := by
  induction ks with
  | nil => rfl
  | cons k ks ih =>
    simp only [translateKeys, ih]
    simp [pureT]

/-- every node of the tree passes `chk` -/
def allNodes (chk : Ms → Bool) (ms : Ms) : Bool := ms.pre.all chk
def allNodesL (chk : Ms → Bool) (xs : MsList) : Bool := xs.pre.all chk

theorem outC_congr {α : Type} (a b : Bool) (v : α) (h : a = b) : (outC a v : TrM σ ε α) = outC b v := by
  rw [h]

mutual
theorem trRtl_pure (f : Key → Key) (g : HashKind → Nat → Nat) (chk : Ms → Bool) : (ms : Ms) →
    ms.trRtl (pureT (σ := σ) (ε := ε) f g) chk
      = outC (allNodes chk (ms.mapKeys f g)) (ms.mapKeys f g)
  | .tru | .fls | .rawPkH _ | .after _ | .older _ => by
    simp [Ms.trRtl, Ms.mapKeys, retChecked_outC, allNodes, Ms.pre]
  | .pkK _ | .pkH _ | .hash _ _ => by
    simp [Ms.trRtl, Ms.mapKeys, retChecked_outC, allNodes, Ms.pre, pureT]
  | .multi _ _ | .sortedMulti _ _ | .multiA _ _ | .sortedMultiA _ _ => by
    simp [Ms.trRtl, Ms.mapKeys, retChecked_outC, allNodes, Ms.pre, translateKeys_pure]
  | .alt x | .swap x | .check x | .dupIf x | .verify x | .nonZero x | .zeroNotEqual x => by
    simp only [Ms.trRtl, trRtl_pure f g chk x, retChecked_outC, outC_bind, Ms.mapKeys]
    apply outC_congr
    simp [allNodes, Ms.pre, Bool.and_comm]
  | .andV l r | .andB l r | .orB l r | .orD l r | .orC l r | .orI l r => by
    simp only [Ms.trRtl, trRtl_pure f g chk l, trRtl_pure f g chk r, retChecked_outC, outC_bind,
      Ms.mapKeys]
    apply outC_congr
    simp [allNodes, Ms.pre, List.all_append, Bool.and_comm, Bool.and_left_comm, Bool.and_assoc]
  | .andOr a b c => by
    simp only [Ms.trRtl, trRtl_pure f g chk a, trRtl_pure f g chk b, trRtl_pure f g chk c,
      retChecked_outC, outC_bind, Ms.mapKeys]
    apply outC_congr
    simp [allNodes, Ms.pre, List.all_append, Bool.and_comm, Bool.and_left_comm, Bool.and_assoc]
  | .thresh k xs => by
    simp only [Ms.trRtl, trRtl_pure_list f g chk xs, retChecked_outC, outC_bind, Ms.mapKeys]
    apply outC_congr
    simp [allNodes, allNodesL, Ms.pre, Bool.and_comm]
theorem trRtl_pure_list (f : Key → Key) (g : HashKind → Nat → Nat) (chk : Ms → Bool) : (xs : MsList) →
    xs.trRtl (pureT (σ := σ) (ε := ε) f g) chk
      = outC (allNodesL chk (xs.mapKeys f g)) (xs.mapKeys f g)
  | .nil => by simp [MsList.trRtl, MsList.mapKeys, allNodesL, MsList.pre, outC]
  | .cons x xs => by
    simp only [MsList.trRtl, trRtl_pure_list f g chk xs, trRtl_pure f g chk x, MsList.mapKeys]
    rw [show (fun xs' => (outC (allNodes chk (Ms.mapKeys f g x)) (Ms.mapKeys f g x) : TrM σ ε Ms) >>=
          fun x' => pure (MsList.cons x' xs'))
        = fun xs' => outC (allNodes chk (Ms.mapKeys f g x)) (MsList.cons (Ms.mapKeys f g x) xs') from
          funext fun xs' => outC_bind_pure _ _ _]
    rw [outC_bind]
    apply outC_congr
    simp [allNodes, allNodesL, MsList.pre, List.all_append, Bool.and_comm]
end

/-! ### (b) a stateless fallible translator, no context re-check: the FIRST failing atom in
translator-call order (right-to-left post-order) decides -/

def liftE {α : Type} : Except ε α → TrM σ ε α
  | .ok a => pure a
  | .error e => throw (.translatorErr e)

def statelessT (f : Key → Except ε Key) (g : HashKind → Nat → Except ε Nat) : Translator σ ε :=
  ⟨fun k => liftE (f k), fun kind h => liftE (g kind h)⟩

def firstErr {α : Type} : List (Except ε α) → Option ε
  | [] => none
  | .error e :: _ => some e
  | .ok _ :: l => firstErr l

theorem firstErr_append {α : Type} (a b : List (Except ε α)) :
    firstErr (a ++ b) = (firstErr a).orElse (fun _ => firstErr b) := by
  induction a with
  | nil => simp [firstErr]
  | cons x xs ih => cases x <;> simp [firstErr, ih]

/-- the translator's answer on one atom -/
def atomRes (f : Key → Except ε Key) (g : HashKind → Nat → Except ε Nat) : Atom → Except ε Unit
  | .key k => (f k).map (fun _ => ())
  | .hash kind h => (g kind h).map (fun _ => ())

def valOr {α : Type} (x : Except ε α) (d : α) : α := match x with | .ok a => a | .error _ => d

/-- fail with the first error among the answers on `as`, else return `v` -/
def outE {α : Type} (f : Key → Except ε Key) (g : HashKind → Nat → Except ε Nat)
    (as : List Atom) (v : α) : TrM σ ε α :=
  match firstErr (as.map (atomRes f g)) with
  | some e => throw (.translatorErr e)
  | none => pure v

theorem outE_bind {α β : Type} (f : Key → Except ε Key) (g : HashKind → Nat → Except ε Nat)
    (a b : List Atom) (v : α) (k : α → β) :
    ((outE f g a v : TrM σ ε α) >>= fun x => outE f g b (k x)) = outE f g (a ++ b) (k v) := by
  simp only [outE, List.map_append, firstErr_append]
  cases firstErr (a.map (atomRes f g)) <;> simp [Option.orElse]

theorem outE_bind_pure {α β : Type} (f : Key → Except ε Key) (g : HashKind → Nat → Except ε Nat)
    (a : List Atom) (v : α) (k : α → β) :
    ((outE f g a v : TrM σ ε α) >>= fun x => pure (k x)) = outE f g a (k v) := by
  simp only [outE]
  cases firstErr (a.map (atomRes f g)) <;> simp

theorem outE_nil {α : Type} (f : Key → Except ε Key) (g : HashKind → Nat → Except ε Nat) (v : α) :
    (outE f g [] v : TrM σ ε α) = pure v := rfl

theorem liftE_key (f : Key → Except ε Key) (g : HashKind → Nat → Except ε Nat) (k : Key)
    {β : Type} (c : Key → β) :
    ((liftE (f k) : TrM σ ε Key) >>= fun k' => pure (c k')) = outE f g [.key k] (c (valOr (f k) k)) := by
  cases h : f k <;> simp [liftE, outE, firstErr, atomRes, h, valOr, Except.map]

theorem liftE_hash (f : Key → Except ε Key) (g : HashKind → Nat → Except ε Nat) (kind : HashKind) (x : Nat)
    {β : Type} (c : Nat → β) :
    ((liftE (g kind x) : TrM σ ε Nat) >>= fun x' => pure (c x'))
      = outE f g [.hash kind x] (c (valOr (g kind x) x)) := by
  cases h : g kind x <;> simp [liftE, outE, firstErr, atomRes, h, valOr, Except.map]

theorem translateKeys_stateless (f : Key → Except ε Key) (g : HashKind → Nat → Except ε Nat) (ks : List Key) :
    translateKeys (statelessT (σ := σ) f g) ks
      = outE f g (ks.map .key) (ks.map (fun k => valOr (f k) k)) := by
  induction ks with
  | nil => rfl
  | cons k ks ih =>
    rw [translateKeys, ih]
    have h1 : ∀ k', ((outE f g (ks.map .key) (ks.map fun k => valOr (f k) k) : TrM σ ε (List Key)) >>=
        fun ks' => pure (k' :: ks')) = outE f g (ks.map .key) (k' :: ks.map fun k => valOr (f k) k) :=
      fun k' => outE_bind_pure f g _ _ _
    simp only [h1, statelessT, List.map_cons]
    cases h : f k <;> simp [liftE, outE, firstErr, atomRes, h, valOr, Except.map]

theorem retChecked_true (n : Ms) : (retChecked (fun _ => true) n : TrM σ ε Ms) = pure n := rfl

/-- the pure part of a fallible stateless mapping -/
abbrev fOr (f : Key → Except ε Key) : Key → Key := fun k => valOr (f k) k
abbrev gOr (g : HashKind → Nat → Except ε Nat) : HashKind → Nat → Nat := fun kind h => valOr (g kind h) h

mutual
theorem trRtl_stateless (f : Key → Except ε Key) (g : HashKind → Nat → Except ε Nat) : (ms : Ms) →
    ms.trRtl (statelessT (σ := σ) f g) (fun _ => true)
      = outE f g ms.atomsRtl (ms.mapKeys (fOr f) (gOr g))
  | .tru | .fls | .rawPkH _ | .after _ | .older _ => by
    simp [Ms.trRtl, retChecked_true, Ms.atomsRtl, Ms.rtlPost, Ms.nodeAtoms, outE_nil, Ms.mapKeys]
  | .pkK k | .pkH k => by
    simp only [Ms.trRtl, retChecked_true, statelessT, liftE_key f g]
    simp [Ms.atomsRtl, Ms.rtlPost, Ms.nodeAtoms, Ms.mapKeys]
  | .hash kind x => by
    simp only [Ms.trRtl, retChecked_true, statelessT, liftE_hash f g]
    simp [Ms.atomsRtl, Ms.rtlPost, Ms.nodeAtoms, Ms.mapKeys]
  | .multi _ _ | .sortedMulti _ _ | .multiA _ _ | .sortedMultiA _ _ => by
    simp only [Ms.trRtl, retChecked_true, translateKeys_stateless, outE_bind_pure]
    simp [Ms.atomsRtl, Ms.rtlPost, Ms.nodeAtoms, Ms.mapKeys]
  | .alt x | .swap x | .check x | .dupIf x | .verify x | .nonZero x | .zeroNotEqual x => by
    simp only [Ms.trRtl, retChecked_true, trRtl_stateless f g x, outE_bind_pure]
    simp [Ms.atomsRtl, Ms.rtlPost, Ms.nodeAtoms, Ms.mapKeys, List.flatMap_append]
  | .andV l r | .andB l r | .orB l r | .orD l r | .orC l r | .orI l r => by
    simp only [Ms.trRtl, retChecked_true, trRtl_stateless f g l, trRtl_stateless f g r, outE_bind_pure,
      outE_bind]
    simp [Ms.atomsRtl, Ms.rtlPost, Ms.nodeAtoms, Ms.mapKeys, List.flatMap_append]
  | .andOr a b c => by
    simp only [Ms.trRtl, retChecked_true, trRtl_stateless f g a, trRtl_stateless f g b,
      trRtl_stateless f g c, outE_bind_pure, outE_bind]
    simp [Ms.atomsRtl, Ms.rtlPost, Ms.nodeAtoms, Ms.mapKeys, List.flatMap_append]
  | .thresh k xs => by
    simp only [Ms.trRtl, retChecked_true, trRtl_stateless_list f g xs, outE_bind_pure]
    simp [Ms.atomsRtl, Ms.rtlPost, Ms.nodeAtoms, Ms.mapKeys, List.flatMap_append]
theorem trRtl_stateless_list (f : Key → Except ε Key) (g : HashKind → Nat → Except ε Nat) : (xs : MsList) →
    xs.trRtl (statelessT (σ := σ) f g) (fun _ => true)
      = outE f g (xs.rtlPost.flatMap Ms.nodeAtoms) (xs.mapKeys (fOr f) (gOr g))
  | .nil => by simp [MsList.trRtl, MsList.rtlPost, outE_nil, MsList.mapKeys]
  | .cons x xs => by
    simp only [MsList.trRtl, trRtl_stateless_list f g xs, trRtl_stateless f g x, outE_bind_pure,
      outE_bind]
    simp [MsList.rtlPost, MsList.mapKeys, List.flatMap_append, Ms.atomsRtl]
end

/-! ### functor laws of the structural map -/

mutual
theorem mapKeys_id : (ms : Ms) → ms.mapKeys id (fun _ h => h) = ms
  | .tru | .fls | .pkK _ | .pkH _ | .rawPkH _ | .after _ | .older _ | .hash _ _ => by simp [Ms.mapKeys]
  | .multi _ _ | .sortedMulti _ _ | .multiA _ _ | .sortedMultiA _ _ => by simp [Ms.mapKeys]
  | .alt x | .swap x | .check x | .dupIf x | .verify x | .nonZero x | .zeroNotEqual x => by
    simp [Ms.mapKeys, mapKeys_id x]
  | .andV l r | .andB l r | .orB l r | .orD l r | .orC l r | .orI l r => by
    simp [Ms.mapKeys, mapKeys_id l, mapKeys_id r]
  | .andOr a b c => by simp [Ms.mapKeys, mapKeys_id a, mapKeys_id b, mapKeys_id c]
  | .thresh _ xs => by simp [Ms.mapKeys, mapKeys_id_list xs]
theorem mapKeys_id_list : (xs : MsList) → xs.mapKeys id (fun _ h => h) = xs
  | .nil => rfl
  | .cons x xs => by simp [MsList.mapKeys, mapKeys_id x, mapKeys_id_list xs]
end

mutual
theorem mapKeys_comp (f f' : Key → Key) (g g' : HashKind → Nat → Nat) : (ms : Ms) →
    (ms.mapKeys f g).mapKeys f' g' = ms.mapKeys (f' ∘ f) (fun kind h => g' kind (g kind h))
  | .tru | .fls | .pkK _ | .pkH _ | .rawPkH _ | .after _ | .older _ | .hash _ _ => by simp [Ms.mapKeys]
  | .multi _ _ | .sortedMulti _ _ | .multiA _ _ | .sortedMultiA _ _ => by simp [Ms.mapKeys]
  | .alt x | .swap x | .check x | .dupIf x | .verify x | .nonZero x | .zeroNotEqual x => by
    simp [Ms.mapKeys, mapKeys_comp f f' g g' x]
  | .andV l r | .andB l r | .orB l r | .orD l r | .orC l r | .orI l r => by
    simp [Ms.mapKeys, mapKeys_comp f f' g g' l, mapKeys_comp f f' g g' r]
  | .andOr a b c => by
    simp [Ms.mapKeys, mapKeys_comp f f' g g' a, mapKeys_comp f f' g g' b, mapKeys_comp f f' g g' c]
  | .thresh _ xs => by simp [Ms.mapKeys, mapKeys_comp_list f f' g g' xs]
theorem mapKeys_comp_list (f f' : Key → Key) (g g' : HashKind → Nat → Nat) : (xs : MsList) →
    (xs.mapKeys f g).mapKeys f' g' = xs.mapKeys (f' ∘ f) (fun kind h => g' kind (g kind h))
  | .nil => rfl
  | .cons x xs => by simp [MsList.mapKeys, mapKeys_comp f f' g g' x, mapKeys_comp_list f f' g g' xs]
end

/-! ### `substitute_raw_pkh` -/

theorem MsList.substRaw_length (pkMap : Nat → Option Key) : (xs : MsList) →
    (xs.substRaw pkMap).toList.length = xs.toList.length
  | .nil => rfl
  | .cons x xs => by simp [MsList.substRaw, MsList.toList, MsList.substRaw_length pkMap xs]

mutual
theorem substLoop_ms (pkMap : Nat → Option Key) : (ms : Ms) → ∀ (rest st : List Ms),
    substLoop pkMap (ms.rtlPost ++ rest) st = substLoop pkMap rest (ms.substRaw pkMap :: st)
  | .tru, _, _ | .fls, _, _ | .pkK _, _, _ | .pkH _, _, _ | .after _, _, _
  | .older _, _, _ | .hash _ _, _, _ | .multi _ _, _, _ | .sortedMulti _ _, _, _
  | .multiA _ _, _, _ | .sortedMultiA _ _, _, _ => by
    simp [Ms.rtlPost, substLoop, substStep, cloneStep, Ms.substRaw]
  | .rawPkH h, _, _ => by
    cases hm : pkMap h <;> simp [Ms.rtlPost, substLoop, substStep, Ms.substRaw, hm]
  | .alt x, rest, st | .swap x, rest, st | .check x, rest, st | .dupIf x, rest, st
  | .verify x, rest, st | .nonZero x, rest, st | .zeroNotEqual x, rest, st => by
    simp [Ms.rtlPost, List.append_assoc, substLoop_ms pkMap x, substLoop, substStep, cloneStep, pop?,
      Ms.substRaw]
  | .andV l r, rest, st | .andB l r, rest, st | .orB l r, rest, st | .orD l r, rest, st
  | .orC l r, rest, st | .orI l r, rest, st => by
    simp [Ms.rtlPost, List.append_assoc, substLoop_ms pkMap l, substLoop_ms pkMap r, substLoop,
      substStep, cloneStep, pop?, Ms.substRaw]
  | .andOr a b c, rest, st => by
    simp [Ms.rtlPost, List.append_assoc, substLoop_ms pkMap a, substLoop_ms pkMap b,
      substLoop_ms pkMap c, substLoop, substStep, cloneStep, pop?, Ms.substRaw]
  | .thresh k xs, rest, st => by
    simp [Ms.rtlPost, List.append_assoc, substLoop_list pkMap xs, substLoop, substStep, cloneStep,
      popEach_append _ _ _ (MsList.substRaw_length pkMap xs).symm, MsList.ofList_toList, Ms.substRaw]
theorem substLoop_list (pkMap : Nat → Option Key) : (xs : MsList) → ∀ (rest st : List Ms),
    substLoop pkMap (xs.rtlPost ++ rest) st = substLoop pkMap rest ((xs.substRaw pkMap).toList ++ st)
  | .nil, _, _ => by simp [MsList.rtlPost, MsList.toList, MsList.substRaw]
  | .cons x xs, rest, st => by
    simp [MsList.rtlPost, List.append_assoc, substLoop_list pkMap xs, substLoop_ms pkMap x,
      MsList.toList, MsList.substRaw]
end

theorem substituteRawPkh_eq (pkMap : Nat → Option Key) (ms : Ms) :
    substituteRawPkh pkMap ms = .ok (ms.substRaw pkMap) := by
  unfold substituteRawPkh
  rw [rtlPostOrder_eq]
  have := substLoop_ms pkMap ms [] []
  simp only [List.append_nil] at this
  rw [this]
  simp [substLoop]

end MsVerif.TranslateLemmas

/-
C10: the model of the Rust checksum engine computes, for EVERY input, exactly what the BIP-380
reference code (`Spec/Bch.lean`: descsum_expand / descsum_polymod / descsum_create) computes.
-/
import MsVerif.Lemmas.ChecksumString
import MsVerif.Lemmas.ChecksumLpow
import MsVerif.Spec.Bch

namespace MsVerif.Checksum
open MsVerif.Spec

/-! ## characters -/

theorem charset_table : ∀ n, n < 95 →
    Bch.INPUT_CHARSET.idxOf (Char.ofNat (n + 32)) < 95 ∧
    CHAR_MAP[n]? = some (Bch.INPUT_CHARSET.idxOf (Char.ofNat (n + 32))) := by decide +kernel

theorem charset_valid : ∀ c ∈ Bch.INPUT_CHARSET, validChar c = true := by decide +kernel

theorem charset_length : Bch.INPUT_CHARSET.length = 95 := by decide +kernel

theorem inputFind_eq (c : Char) :
    Bch.inputFind c = if validChar c = true then charMap? c.toNat else none := by
  by_cases hv : validChar c = true
  · simp only [hv, if_true]
    have hb := (validChar_iff c).mp hv
    unfold validByte at hb
    obtain ⟨n, hn⟩ : ∃ n, c.toNat = n + 32 := ⟨c.toNat - 32, by omega⟩
    have hc : c = Char.ofNat (n + 32) := by rw [← hn, Char.ofNat_toNat]
    obtain ⟨h1, h2⟩ := charset_table n (by omega)
    unfold Bch.inputFind charMap?
    rw [hn]
    have : ¬ n + 32 < 32 := by omega
    simp only [this, Nat.add_sub_cancel, h2, charset_length]
    rw [← hc] at h1 ⊢
    simp [h1]
  · simp only [hv]
    have hnm : c ∉ Bch.INPUT_CHARSET := fun h => hv (charset_valid c h)
    unfold Bch.inputFind
    rw [List.idxOf_eq_length hnm]
    simp

/-! ## one polymod round -/

theorem range5 : List.range 5 = [0, 1, 2, 3, 4] := by decide

theorem bit_cond (t i : Nat) : ((t >>> i) &&& 1 = 1) ↔ t.testBit i = true := by
  unfold Nat.testBit
  rw [Nat.and_comm]
  have h : (1 &&& (t >>> i)) = 0 ∨ (1 &&& (t >>> i)) = 1 := by
    have : 1 &&& (t >>> i) ≤ 1 := Nat.and_le_left
    omega
  rcases h with h | h <;> simp [h]

theorem ite_sel (c : Prop) [Decidable c] (b : Bool) (h : c ↔ b = true) (x g : Nat) :
    (if c then x ^^^ g else x) = x ^^^ selN b g := by
  cases b
  · have : ¬ c := fun hc => by simpa using h.mp hc
    simp [this, selN]
  · have : c := h.mpr rfl
    simp [this, selN]

theorem polymodStep_eq (c e : Nat) : Bch.polymodStep c e = LN c ^^^ e := by
  unfold Bch.polymodStep LN
  simp only [range5, List.foldl, Bch.GENERATOR, List.getD_cons_zero, List.getD_cons_succ]
  rw [ite_sel _ _ (bit_cond _ 0), ite_sel _ _ (bit_cond _ 1), ite_sel _ _ (bit_cond _ 2),
    ite_sel _ _ (bit_cond _ 3), ite_sel _ _ (bit_cond _ 4)]
  ac_rfl

theorem inputFe_toNat (r : W) (e : Nat) (he : e < 32) :
    (inputFe r e).toNat = Bch.polymodStep r.toNat e := by
  rw [inputFe_eq r e he, polymodStep_eq, BitVec.toNat_xor, L_toNat, BitVec.toNat_ofNat,
    Nat.mod_eq_of_lt (by omega)]

/-! ## the symbol stream -/

def val3 (gs : List Nat) : Nat := gs.foldl (fun a g => a * 3 + g) 0

/-- the engine's class accumulator holds the pending group of `descsum_expand` -/
structure Rg (en : Engine) (groups : List Nat) : Prop where
  cnt : en.clscount = groups.length
  le2 : groups.length ≤ 2
  cls : en.cls = val3 groups

/-- residue after the pending class symbol (what `checksum_chars` does first) -/
def preTail (en : Engine) : W :=
  if en.clscount > 0 then inputFe en.residue en.cls else en.residue

theorem shr5 (v : Nat) : v >>> 5 = v / 32 := by rw [Nat.shiftRight_eq_div_pow]
theorem and31 (v : Nat) : v &&& 31 = v % 32 := Nat.and_two_pow_sub_one_eq_mod v 5

theorem expand_fold : ∀ (ps : List Nat) (en : Engine) (groups : List Nat),
    (∀ p ∈ ps, p < 95) → WF en → Rg en groups →
    (Bch.expandPos ps groups).foldl Bch.polymodStep en.residue.toNat
      = (preTail (ps.foldl next en)).toNat := by
  intro ps
  induction ps with
  | nil =>
    intro en groups _ w r
    have hc := WF_cls_lt w
    simp only [List.foldl, Bch.expandPos]
    match groups, r with
    | [], r =>
      have : ¬ en.clscount > 0 := by rw [r.cnt]; simp
      simp [Bch.groupTail, preTail, this]
    | [g0], r =>
      have : en.clscount > 0 := by rw [r.cnt]; simp
      have hcl : en.cls = g0 := by rw [r.cls]; simp [val3]
      simp only [Bch.groupTail, preTail, this, if_true, List.foldl]
      rw [inputFe_toNat _ _ hc, hcl]
    | [g0, g1], r =>
      have : en.clscount > 0 := by rw [r.cnt]; simp
      have hcl : en.cls = g0 * 3 + g1 := by rw [r.cls]; simp [val3]
      simp only [Bch.groupTail, preTail, this, if_true, List.foldl]
      rw [inputFe_toNat _ _ hc, hcl]
    | _ :: _ :: _ :: _, r => exact absurd r.le2 (by simp)
  | cons v vs ih =>
    intro en groups hps w r
    have hv : v < 95 := hps v List.mem_cons_self
    have hvs : ∀ p ∈ vs, p < 95 := fun p hp => hps p (List.mem_cons_of_mem _ hp)
    have hlo : v % 32 < 32 := Nat.mod_lt _ (by decide)
    have w' := WF_next w hv
    have hcb := cls_bound27 w hv
    simp only [List.foldl_cons]
    match groups, r with
    | [], r =>
      have h3 : ¬ en.clscount + 1 = 3 := by rw [r.cnt]; simp
      have hcl : en.cls = 0 := by rw [r.cls]; rfl
      simp only [Bch.expandPos, List.nil_append, List.foldl_cons]
      rw [and31, ← inputFe_toNat _ _ hlo]
      have hn : next en v = ⟨inputFe en.residue (v % 32), en.cls * 3 + v / 32, en.clscount + 1⟩ := by
        unfold next; simp [h3]
      have := ih (next en v) [v >>> 5] hvs w'
        ⟨by rw [hn]; show en.clscount + 1 = 1; rw [r.cnt]; rfl, by simp,
         by rw [hn]; show en.cls * 3 + v / 32 = _; rw [hcl, shr5]; simp [val3]⟩
      rw [hn] at this ⊢
      exact this
    | [g0], r =>
      have h3 : ¬ en.clscount + 1 = 3 := by rw [r.cnt]; simp
      have hcl : en.cls = g0 := by rw [r.cls]; simp [val3]
      simp only [Bch.expandPos, List.cons_append, List.nil_append, List.foldl_cons]
      rw [and31, ← inputFe_toNat _ _ hlo]
      have hn : next en v = ⟨inputFe en.residue (v % 32), en.cls * 3 + v / 32, en.clscount + 1⟩ := by
        unfold next; simp [h3]
      have := ih (next en v) [g0, v >>> 5] hvs w'
        ⟨by rw [hn]; show en.clscount + 1 = 2; rw [r.cnt]; rfl, by simp,
         by rw [hn]; show en.cls * 3 + v / 32 = _; rw [hcl, shr5]; simp [val3]⟩
      rw [hn] at this ⊢
      exact this
    | [g0, g1], r =>
      have h3 : en.clscount + 1 = 3 := by rw [r.cnt]; rfl
      have hcl : en.cls = g0 * 3 + g1 := by rw [r.cls]; simp [val3]
      simp only [Bch.expandPos, List.cons_append, List.nil_append, List.foldl_cons]
      have hn : next en v
          = ⟨inputFe (inputFe en.residue (v % 32)) (en.cls * 3 + v / 32), 0, 0⟩ := by
        unfold next; simp [h3]
      have e2 : g0 * 9 + g1 * 3 + v >>> 5 = en.cls * 3 + v / 32 := by rw [hcl, shr5]; omega
      rw [and31, ← inputFe_toNat _ _ hlo, e2, ← inputFe_toNat _ _ (by omega)]
      have := ih (next en v) [] hvs w' ⟨by rw [hn]; rfl, by simp, by rw [hn]; rfl⟩
      rw [hn] at this ⊢
      exact this
    | _ :: _ :: _ :: _, r => exact absurd r.le2 (by simp)

/-! ## whole strings -/

theorem mapM_inputFind_valid : ∀ (s : List Char) (en : Engine), AllValid s → WF en →
    ∃ ps, s.mapM Bch.inputFind = some ps ∧ (∀ p ∈ ps, p < 95) ∧
      en.inputUnchecked s = some (ps.foldl next en) := by
  intro s
  induction s with
  | nil => intro en _ _; exact ⟨[], rfl, fun p hp => absurd hp List.not_mem_nil, rfl⟩
  | cons c cs ih =>
    intro en hs w
    obtain ⟨hc, hcs⟩ := hs.of_cons
    obtain ⟨p, hp, hlt⟩ := pos_of_valid c hc
    obtain ⟨ps, h1, h2, h3⟩ := ih (next en p) hcs (WF_next w hlt)
    refine ⟨p :: ps, ?_, ?_, ?_⟩
    · rw [List.mapM_cons, inputFind_eq, h1]
      simp [hc, hp]
    · intro q hq
      rcases List.mem_cons.mp hq with e | e
      · rw [e]; exact hlt
      · exact h2 q e
    · simp only [Engine.inputUnchecked, inputByte_eq w hp hlt, List.foldl_cons]
      exact h3

theorem mapM_inputFind_invalid : ∀ (s : List Char), ¬ AllValid s → s.mapM Bch.inputFind = none := by
  intro s
  induction s with
  | nil => intro h; exact absurd (fun c hc => by cases hc) h
  | cons c cs ih =>
    intro h
    rw [List.mapM_cons, inputFind_eq]
    by_cases hc : validChar c = true
    · have : ¬ AllValid cs := fun hcs => h (AllValid.cons hc hcs)
      rw [ih this]
      obtain ⟨p, hp, _⟩ := pos_of_valid c hc
      simp [hc, hp]
    · simp [hc]

/-! ## the final eight symbols and the output characters -/

theorem tail8_toNat (r : W) :
    (tail8 r).toNat = ([0, 0, 0, 0, 0, 0, 0, 0].foldl Bch.polymodStep r.toNat) ^^^ 1 := by
  unfold tail8
  simp only [List.foldl]
  have h0 : (0 : Nat) < 32 := by decide
  have h1 : (1 : Nat) < 32 := by decide
  rw [inputFe_toNat _ _ h1, inputFe_toNat _ _ h0, inputFe_toNat _ _ h0, inputFe_toNat _ _ h0,
    inputFe_toNat _ _ h0, inputFe_toNat _ _ h0, inputFe_toNat _ _ h0, inputFe_toNat _ _ h0]
  have e : ∀ c, Bch.polymodStep c 1 = Bch.polymodStep c 0 ^^^ 1 := by
    intro c; rw [polymodStep_eq, polymodStep_eq, Nat.xor_zero]
  rw [e]

theorem charset_out : ∀ i, i < 32 →
    CHARS_LOWER.getD i 'q' = Bch.CHECKSUM_CHARSET.getD i 'q' := by decide +kernel

theorem residueChars_spec (r : W) :
    residueChars r = (List.range 8).map fun i =>
      Bch.CHECKSUM_CHARSET.getD ((r.toNat >>> (5 * (7 - i))) &&& 31) 'q' := by
  have r8 : List.range 8 = [0, 1, 2, 3, 4, 5, 6, 7] := by decide
  have hu : ∀ n, unpack r n = (r.toNat >>> (5 * n)) &&& 31 := by
    intro n; unfold unpack; rw [BitVec.toNat_ushiftRight, and31, Nat.mul_comm]
  have hc : ∀ n, CHARS_LOWER.getD (unpack r n) 'q'
      = Bch.CHECKSUM_CHARSET.getD ((r.toNat >>> (5 * n)) &&& 31) 'q' := by
    intro n; rw [charset_out _ (unpack_lt r n), hu]
  unfold residueChars
  rw [r8]
  simp only [List.map, hc]

/-- **the model is the BIP-380 reference, for every input string** (valid or not, any length) -/
theorem checksumOf_eq_create (s : List Char) : checksumOf s = Bch.create s := by
  unfold Bch.create Bch.expand
  by_cases hs : AllValid s
  · obtain ⟨ps, h1, h2, h3⟩ := mapM_inputFind_valid s Engine.new hs WF_new
    obtain ⟨en, r, he, w, hr, hc⟩ := checksumOf_valid hs
    rw [hc, h1]
    simp only [Option.map]
    congr 1
    rw [residueChars_spec]
    have hen : en = ps.foldl next Engine.new := by rw [he] at h3; exact Option.some.inj h3
    have hfold := expand_fold ps Engine.new [] h2 WF_new ⟨rfl, by simp, rfl⟩
    have hr' : r = tail8 (preTail en) := by
      unfold Engine.finalResidue at hr
      unfold preTail
      by_cases h0 : en.clscount > 0
      · simp only [h0, if_true, inputFeChecked, WF_cls_lt w] at hr ⊢
        exact (Option.some.inj hr).symm
      · simp only [h0, if_false] at hr ⊢
        exact (Option.some.inj hr).symm
    have hN : r.toNat = Bch.polymod (Bch.expandPos ps [] ++ [0, 0, 0, 0, 0, 0, 0, 0]) ^^^ 1 := by
      rw [hr', tail8_toNat, hen, ← hfold]
      unfold Bch.polymod
      rw [List.foldl_append]
      rfl
    rw [hN]
  · rw [checksumOf_invalid hs, mapM_inputFind_invalid s hs]
    rfl

end MsVerif.Checksum

/-
Execution lemmas for the structured fragment semantics `frag` with limits disabled: one lemma
per fragment and scenario, independent of the satisfier.  `Runs f s s'` = "`f` turns main
stack `s` into `s'`, restores the alt stack, for any opcode counter".
-/
import MsVerif.Lemmas.SatNum

namespace MsVerif.SatSpec
open MsVerif Script

variable {env : Env} {ke : KeyEnv} {ctx : Ctx}

/-! ### basics -/

theorem countOp_ok (h : EnvOk env ctx) (c : Core) (n : Nat) :
    countOp env c n = .ok { c with ops := c.ops + n } := by
  simp [countOp, h.opLimit]

theorem pushElem_ok (h : EnvOk env ctx) (c : Core) (b : Bytes) :
    pushElem env c b = .ok { c with stack := b :: c.stack } := by
  simp [pushElem, h.stackLimits]

theorem psh_ok (h : EnvOk env ctx) (c : Core) (b : Bytes) :
    psh env b c = .ok { c with stack := b :: c.stack } := by
  simp [psh, h.stackLimits, pushElem]

theorem skipCount_ok (h : EnvOk env ctx) (s : List Op) (c : Core) :
    skipCount env s c = .ok { c with ops := c.ops + codeCount s } := by
  simp [skipCount, h.stackLimits, countOp, h.opLimit]

theorem opc_eq (h : EnvOk env ctx) (o : Opc) (c : Core) :
    opc env o c = execOpc env o { c with ops := c.ops + 1 } := by
  simp [opc, countOp, h.opLimit]

theorem cnd_eq (h : EnvOk env ctx) (notif : Bool) (c : Core) :
    cnd env notif c = condPop env notif { c with ops := c.ops + 1 } := by
  simp [cnd, countOp, h.opLimit]

theorem Runs.bind {f g : Core → Except Err Core} {s s' s'' : List Bytes}
    (hf : Runs f s s') (hg : Runs g s' s'') : Runs (fun c => f c >>= g) s s'' := by
  intro alt ops
  obtain ⟨c1, h1, h1s, h1a⟩ := hf alt ops
  obtain ⟨c2, h2, h3, h4⟩ := hg alt c1.ops
  refine ⟨c2, ?_, h3, h4⟩
  have : c1 = ⟨s', alt, c1.ops⟩ := by cases c1; simp_all
  rw [this] at h1
  show f _ >>= g = _
  rw [h1]; exact h2

/-- Skolemised form, convenient as a rewrite rule -/
theorem Runs.sk {f : Core → Except Err Core} {s s' : List Bytes} (h : Runs f s s') :
    ∃ g : List Bytes → Nat → Nat, ∀ alt ops, f ⟨s, alt, ops⟩ = .ok ⟨s', alt, g alt ops⟩ := by
  have : ∀ p : List Bytes × Nat, ∃ o : Nat, f ⟨s, p.1, p.2⟩ = .ok ⟨s', p.1, o⟩ := by
    intro p
    obtain ⟨c1, h1, h1s, h1a⟩ := h p.1 p.2
    refine ⟨c1.ops, ?_⟩
    rw [h1]; cases c1; simp_all
  obtain ⟨g, hg⟩ := Classical.axiomOfChoice this
  exact ⟨fun a o => g (a, o), fun a o => hg (a, o)⟩

theorem Runs.of_eq {f : Core → Except Err Core} {s s' : List Bytes}
    (h : ∀ alt ops, ∃ o, f ⟨s, alt, ops⟩ = .ok ⟨s', alt, o⟩) : Runs f s s' := by
  intro alt ops
  obtain ⟨o, e⟩ := h alt ops
  exact ⟨_, e, rfl, rfl⟩

/-! ### leaves -/

theorem frag_pkK (h : EnvOk env ctx) (k : Key) (s : List Bytes) :
    Runs (frag env ke ctx (.pkK k)) s (ke.ser k :: s) := by
  intro alt ops
  simp [frag, psh_ok h]

theorem frag_pkH (h : EnvOk env ctx) (k : Key) (pk : Bytes) (s : List Bytes)
    (hh : env.hash .hash160 pk = ke.pkh k) :
    Runs (frag env ke ctx (.pkH k)) (pk :: s) (pk :: s) := by
  intro alt ops
  simp [frag, seqOps, List.foldlM, pshOp, opc_eq h, execOpc, pushElem_ok h, psh_ok h, hh, bind, Except.bind, pure, Except.pure]

theorem frag_rawPkH (h : EnvOk env ctx) (a : Nat) (pk : Bytes) (s : List Bytes)
    (hh : env.hash .hash160 pk = ke.rawPkh a) :
    Runs (frag env ke ctx (.rawPkH a)) (pk :: s) (pk :: s) := by
  intro alt ops
  simp [frag, seqOps, List.foldlM, pshOp, opc_eq h, execOpc, pushElem_ok h, psh_ok h, hh, bind, Except.bind, pure, Except.pure]

theorem frag_tru (h : EnvOk env ctx) (s : List Bytes) :
    Runs (frag env ke ctx .tru) s ([1] :: s) := by
  intro alt ops
  simp [frag, pshOp, pushElem_ok h]

theorem frag_fls (h : EnvOk env ctx) (s : List Bytes) :
    Runs (frag env ke ctx .fls) s ([] :: s) := by
  intro alt ops
  simp [frag, pshOp, pushElem_ok h]

/-! ### wrappers -/

theorem frag_alt (h : EnvOk env ctx) {x : Ms} {t : Bytes} {s s' : List Bytes}
    (hx : Runs (frag env ke ctx x) s s') : Runs (frag env ke ctx (.alt x)) (t :: s) (t :: s') := by
  obtain ⟨g, e⟩ := hx.sk
  intro alt ops
  simp [frag, opc_eq h, execOpc, e, pushElem_ok h, bind, Except.bind]

theorem frag_swap (h : EnvOk env ctx) {x : Ms} {a t : Bytes} {s s' : List Bytes}
    (hx : Runs (frag env ke ctx x) (a :: t :: s) s') :
    Runs (frag env ke ctx (.swap x)) (t :: a :: s) s' := by
  obtain ⟨g, e⟩ := hx.sk
  intro alt ops
  simp [frag, opc_eq h, execOpc, e, bind, Except.bind]

theorem frag_check (h : EnvOk env ctx) {x : Ms} {pk sig : Bytes} {b : Bool} {s s' : List Bytes}
    (hx : Runs (frag env ke ctx x) s (pk :: sig :: s')) (hc : checkSig env sig pk = .ok b) :
    Runs (frag env ke ctx (.check x)) s (boolBytes b :: s') := by
  obtain ⟨g, e⟩ := hx.sk
  intro alt ops
  simp [frag, opc_eq h, execOpc, e, hc, pushElem_ok h, bind, Except.bind]

theorem frag_verify (h : EnvOk env ctx) {x : Ms} {v : Bytes} {s s' : List Bytes}
    (hx : Runs (frag env ke ctx x) s (v :: s')) (hv : castToBool v = true) :
    Runs (frag env ke ctx (.verify x)) s s' := by
  obtain ⟨g, e⟩ := hx.sk
  intro alt ops
  by_cases hf : endsFusable (encode ke ctx x) = true <;>
    simp [frag, opc_eq h, execOpc, e, hv, hf, bind, Except.bind]

theorem frag_zeroNotEqual (h : EnvOk env ctx) {x : Ms} {v : Bytes} {n : Int} {s s' : List Bytes}
    (hx : Runs (frag env ke ctx x) s (v :: s')) (hv : num4 env v = .ok n) :
    Runs (frag env ke ctx (.zeroNotEqual x)) s (boolBytes (n != 0) :: s') := by
  obtain ⟨g, e⟩ := hx.sk
  intro alt ops
  simp [frag, opc_eq h, execOpc, e, hv, pushElem_ok h, bind, Except.bind]

theorem frag_dupIf_true (h : EnvOk env ctx) {x : Ms} {s s' : List Bytes}
    (hx : Runs (frag env ke ctx x) ([1] :: s) s') :
    Runs (frag env ke ctx (.dupIf x)) ([1] :: s) s' := by
  obtain ⟨g, e⟩ := hx.sk
  intro alt ops
  simp [frag, opc_eq h, cnd_eq h, execOpc, condPop, castToBool, e, pushElem_ok h, countOp_ok h, bind, Except.bind]

theorem frag_dupIf_false (h : EnvOk env ctx) (x : Ms) (s : List Bytes) :
    Runs (frag env ke ctx (.dupIf x)) ([] :: s) ([] :: s) := by
  intro alt ops
  simp [frag, opc_eq h, cnd_eq h, execOpc, condPop, castToBool, pushElem_ok h, countOp_ok h, skipCount_ok h, bind, Except.bind]

/-! ### numbers -/

theorem small_enc : ∀ n, n ≤ 16 →
    (if n = 0 then ([] : Bytes) else [UInt8.ofNat n]) = numEncode (n : Int) := by decide

theorem pshOp_pushInt (h : EnvOk env ctx) (n : Nat) (c : Core) :
    pshOp env (pushInt n) c = .ok { c with stack := numEncode (n : Int) :: c.stack } := by
  unfold pushInt
  split
  · rename_i hn
    simp [pshOp, pushElem_ok h, small_enc n hn]
  · simp [pshOp, psh_ok h]

theorem numDecode_5_of_4 {min : Bool} {bs : Bytes} {v : Int} (h4 : numDecode min 4 bs = some v) :
    numDecode min 5 bs = some v := by
  unfold numDecode at *
  split at h4
  · simp at h4
  · rename_i hl
    have : ¬ bs.length > 5 := by omega
    simp only [this, if_false]
    exact h4

theorem NumOk.num4 {n : Nat} (hn : NumOk n) (env : Env) :
    num4 env (numEncode (n : Int)) = .ok (n : Int) := by
  simp [Script.num4, hn.1]

theorem num4_one (env : Env) : num4 env [1] = .ok 1 := by
  have : ∀ m, numDecode m 4 [1] = some 1 := by decide
  simp [Script.num4, this]

theorem num4_nil (env : Env) : num4 env [] = .ok 0 := by
  have : ∀ m, numDecode m 4 [] = some 0 := by decide
  simp [Script.num4, this]

theorem frag_after (h : EnvOk env ctx) {n : Nat} (hn : NumOk n) (hl : checkLockTime env n = true)
    (s : List Bytes) :
    Runs (frag env ke ctx (.after n)) s (numEncode (n : Int) :: s) := by
  intro alt ops
  have h5 := numDecode_5_of_4 (hn.1 env.flags.minimalNum)
  have hneg : ¬ ((n : Int) < 0) := by omega
  simp only [frag, seqOps, List.foldlM, pshOp_pushInt h, bind, Except.bind]
  simp [pshOp, opc_eq h, execOpc, h5, hl, hneg, pure, Except.pure]

theorem frag_older (h : EnvOk env ctx) {n : Nat} (hn : NumOk n) (hl : checkSequence env n = true)
    (s : List Bytes) :
    Runs (frag env ke ctx (.older n)) s (numEncode (n : Int) :: s) := by
  intro alt ops
  have h5 := numDecode_5_of_4 (hn.1 env.flags.minimalNum)
  have hneg : ¬ ((n : Int) < 0) := by omega
  simp only [frag, seqOps, List.foldlM, pshOp_pushInt h, bind, Except.bind]
  by_cases hd : (n / SEQ_DISABLE) % 2 == 1 <;>
  simp [pshOp, opc_eq h, execOpc, h5, hl, hd, hneg, pure, Except.pure]

theorem frag_hash_sat (h : EnvOk env ctx) (kind : HashKind) (a : Nat) (x : Bytes) (s : List Bytes)
    (hlen : x.length = 32) (hh : env.hash (hashOpOf kind) x = ke.hashVal kind a) :
    Runs (frag env ke ctx (.hash kind a)) (x :: s) ([1] :: s) := by
  intro alt ops
  simp only [frag, seqOps, List.foldlM, pshOp_pushInt h, bind, Except.bind]
  cases kind <;>
  simp [pshOp, opc_eq h, execOpc, pushElem_ok h,
    psh_ok h, hlen, hashOpc, hashOpOf, boolBytes, pure, Except.pure] at hh ⊢ <;>
  simp [hh]

theorem frag_hash_dis (h : EnvOk env ctx) (kind : HashKind) (a : Nat) (x : Bytes) (s : List Bytes)
    (hlen : x.length = 32) (hh : env.hash (hashOpOf kind) x ≠ ke.hashVal kind a) :
    Runs (frag env ke ctx (.hash kind a)) (x :: s) ([] :: s) := by
  intro alt ops
  have hh' : ¬ ke.hashVal kind a = env.hash (hashOpOf kind) x := fun e => hh e.symm
  simp only [frag, seqOps, List.foldlM, pshOp_pushInt h, bind, Except.bind]
  cases kind <;>
  simp [pshOp, opc_eq h, execOpc, pushElem_ok h,
    psh_ok h, hlen, hashOpc, hashOpOf, boolBytes, pure, Except.pure] at hh hh' ⊢ <;>
  simp [hh, hh']

/-! ### `j:` -/

theorem frag_nonZero_sat (h : EnvOk env ctx) {x : Ms} {a : Bytes} {s s' : List Bytes}
    (ha : a ≠ []) (hn : NumOk a.length)
    (hx : Runs (frag env ke ctx x) (a :: s) s') :
    Runs (frag env ke ctx (.nonZero x)) (a :: s) s' := by
  obtain ⟨g, e⟩ := hx.sk
  intro alt ops
  have hl : a.length ≠ 0 := by simpa using ha
  have hne : ((a.length : Nat) : Int) ≠ 0 := by omega
  simp [frag, opc_eq h, cnd_eq h, execOpc, condPop, castToBool, e, pushElem_ok h, countOp_ok h,
    hn.num4 env, boolBytes, hne, ha, bind, Except.bind]

theorem frag_nonZero_dis (h : EnvOk env ctx) (x : Ms) (s : List Bytes) :
    Runs (frag env ke ctx (.nonZero x)) ([] :: s) ([] :: s) := by
  intro alt ops
  have e0 : numEncode 0 = [] := by decide
  simp [frag, opc_eq h, cnd_eq h, execOpc, condPop, castToBool, pushElem_ok h, countOp_ok h,
    skipCount_ok h, e0, num4_nil env, boolBytes, bind, Except.bind]

/-! ### binary fragments -/

theorem frag_andV (_h : EnvOk env ctx) {l r : Ms} {s s1 s2 : List Bytes}
    (hl : Runs (frag env ke ctx l) s s1) (hr : Runs (frag env ke ctx r) s1 s2) :
    Runs (frag env ke ctx (.andV l r)) s s2 := by
  obtain ⟨g1, e1⟩ := hl.sk
  obtain ⟨g2, e2⟩ := hr.sk
  intro alt ops
  simp [frag, e1, e2, bind, Except.bind]

theorem frag_andB (h : EnvOk env ctx) {l r : Ms} {a b : Bytes} {x y : Int} {s s1 s2 : List Bytes}
    (hl : Runs (frag env ke ctx l) s s1) (hr : Runs (frag env ke ctx r) s1 (a :: b :: s2))
    (ha : num4 env a = .ok x) (hb : num4 env b = .ok y) :
    Runs (frag env ke ctx (.andB l r)) s (boolBytes (x != 0 && y != 0) :: s2) := by
  obtain ⟨g1, e1⟩ := hl.sk
  obtain ⟨g2, e2⟩ := hr.sk
  intro alt ops
  simp [frag, e1, e2, opc_eq h, execOpc, ha, hb, pushElem_ok h, bind, Except.bind]

theorem frag_orB (h : EnvOk env ctx) {l r : Ms} {a b : Bytes} {x y : Int} {s s1 s2 : List Bytes}
    (hl : Runs (frag env ke ctx l) s s1) (hr : Runs (frag env ke ctx r) s1 (a :: b :: s2))
    (ha : num4 env a = .ok x) (hb : num4 env b = .ok y) :
    Runs (frag env ke ctx (.orB l r)) s (boolBytes (x != 0 || y != 0) :: s2) := by
  obtain ⟨g1, e1⟩ := hl.sk
  obtain ⟨g2, e2⟩ := hr.sk
  intro alt ops
  simp [frag, e1, e2, opc_eq h, execOpc, ha, hb, pushElem_ok h, bind, Except.bind]

theorem frag_andOr_true (h : EnvOk env ctx) {a b c : Ms} {s s1 s2 : List Bytes}
    (ha : Runs (frag env ke ctx a) s ([1] :: s1)) (hb : Runs (frag env ke ctx b) s1 s2) :
    Runs (frag env ke ctx (.andOr a b c)) s s2 := by
  obtain ⟨g1, e1⟩ := ha.sk
  obtain ⟨g2, e2⟩ := hb.sk
  intro alt ops
  simp [frag, e1, e2, cnd_eq h, condPop, castToBool, countOp_ok h, skipCount_ok h, bind, Except.bind]

theorem frag_andOr_false (h : EnvOk env ctx) {a b c : Ms} {s s1 s2 : List Bytes}
    (ha : Runs (frag env ke ctx a) s ([] :: s1)) (hc : Runs (frag env ke ctx c) s1 s2) :
    Runs (frag env ke ctx (.andOr a b c)) s s2 := by
  obtain ⟨g1, e1⟩ := ha.sk
  obtain ⟨g2, e2⟩ := hc.sk
  intro alt ops
  simp [frag, e1, e2, cnd_eq h, condPop, castToBool, countOp_ok h, skipCount_ok h, bind, Except.bind]

theorem frag_orD_left (h : EnvOk env ctx) {l r : Ms} {s s1 : List Bytes}
    (hl : Runs (frag env ke ctx l) s ([1] :: s1)) :
    Runs (frag env ke ctx (.orD l r)) s ([1] :: s1) := by
  obtain ⟨g1, e1⟩ := hl.sk
  intro alt ops
  simp [frag, e1, opc_eq h, execOpc, pushElem_ok h, cnd_eq h, condPop, castToBool, countOp_ok h,
    skipCount_ok h, bind, Except.bind]

theorem frag_orD_right (h : EnvOk env ctx) {l r : Ms} {s s1 s2 : List Bytes}
    (hl : Runs (frag env ke ctx l) s ([] :: s1)) (hr : Runs (frag env ke ctx r) s1 s2) :
    Runs (frag env ke ctx (.orD l r)) s s2 := by
  obtain ⟨g1, e1⟩ := hl.sk
  obtain ⟨g2, e2⟩ := hr.sk
  intro alt ops
  simp [frag, e1, e2, opc_eq h, execOpc, pushElem_ok h, cnd_eq h, condPop, castToBool, countOp_ok h,
    skipCount_ok h, bind, Except.bind]

theorem frag_orC_left (h : EnvOk env ctx) {l r : Ms} {s s1 : List Bytes}
    (hl : Runs (frag env ke ctx l) s ([1] :: s1)) :
    Runs (frag env ke ctx (.orC l r)) s s1 := by
  obtain ⟨g1, e1⟩ := hl.sk
  intro alt ops
  simp [frag, e1, cnd_eq h, condPop, castToBool, countOp_ok h, skipCount_ok h, bind, Except.bind]

theorem frag_orC_right (h : EnvOk env ctx) {l r : Ms} {s s1 s2 : List Bytes}
    (hl : Runs (frag env ke ctx l) s ([] :: s1)) (hr : Runs (frag env ke ctx r) s1 s2) :
    Runs (frag env ke ctx (.orC l r)) s s2 := by
  obtain ⟨g1, e1⟩ := hl.sk
  obtain ⟨g2, e2⟩ := hr.sk
  intro alt ops
  simp [frag, e1, e2, cnd_eq h, condPop, castToBool, countOp_ok h, skipCount_ok h, bind, Except.bind]

theorem frag_orI_left (h : EnvOk env ctx) {l r : Ms} {s s1 : List Bytes}
    (hl : Runs (frag env ke ctx l) s s1) :
    Runs (frag env ke ctx (.orI l r)) ([1] :: s) s1 := by
  obtain ⟨g1, e1⟩ := hl.sk
  intro alt ops
  simp [frag, e1, cnd_eq h, condPop, castToBool, countOp_ok h, skipCount_ok h, bind, Except.bind]

theorem frag_orI_right (h : EnvOk env ctx) {l r : Ms} {s s1 : List Bytes}
    (hr : Runs (frag env ke ctx r) s s1) :
    Runs (frag env ke ctx (.orI l r)) ([] :: s) s1 := by
  obtain ⟨g1, e1⟩ := hr.sk
  intro alt ops
  simp [frag, e1, cnd_eq h, condPop, castToBool, countOp_ok h, skipCount_ok h, bind, Except.bind]

end MsVerif.SatSpec

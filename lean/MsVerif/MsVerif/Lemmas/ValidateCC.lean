/-
C08 keeps its own executable mirror of `Miniscript::validate(&Ctx::SANE)`
(`CC.validateSane`, Model/CompileCheck.lean).  This file proves that it IS C12's model
(`validate … ctx.SANE`, Model/Validate.lean) — so the two are no longer tied only by the run-time
comparison `saneByC12` of Driver/OpsCompile.lean.

Hypothesis `FitsUsize`: the three satisfaction figures are below `usize::MAX` (in Rust they are
`usize` values, so this holds by construction; on `Nat` it has to be said, because C12's model
compares with the constant `usize::MAX` where C08's mirror has "no limit").
Key table: kinds from the serialisation lengths, no multipath keys (the compiler's keys).
-/
import MsVerif.Model.CompileCheck
import MsVerif.Lemmas.ValidateSpec

namespace MsVerif
open Spec

/-- the satisfaction figures `validate` compares with its limits fit a `usize` -/
def FitsUsize (env : KeyEnv) (ctx : Ctx) (m : Ms) : Prop :=
  ∀ d, (extOf env ctx m).satData = some d →
    d.wCount + 1 ≤ USIZE_MAX ∧ (extOf env ctx m).staticOps + d.execOps ≤ USIZE_MAX
      ∧ d.wCount + d.execStack ≤ USIZE_MAX

/-- the key table C08 uses: kinds by serialisation length, no multipath keys -/
def ccKeys (env : KeyEnv) : KeyInfo := ⟨keyKindOf env, fun _ => 0⟩

mutual
theorem subterms_eq_preorder : (m : Ms) → CC.subterms m = m.preorder
  | .tru | .fls | .pkK _ | .pkH _ | .rawPkH _ | .after _ | .older _ | .hash _ _
  | .multi _ _ | .sortedMulti _ _ | .multiA _ _ | .sortedMultiA _ _ => by
    simp [CC.subterms, Ms.preorder]
  | .alt x | .swap x | .check x | .dupIf x | .verify x | .nonZero x | .zeroNotEqual x => by
    simp [CC.subterms, Ms.preorder, subterms_eq_preorder x]
  | .andV l r | .andB l r | .orB l r | .orC l r | .orD l r | .orI l r => by
    simp [CC.subterms, Ms.preorder, subterms_eq_preorder l, subterms_eq_preorder r]
  | .andOr a b c => by
    simp [CC.subterms, Ms.preorder, subterms_eq_preorder a, subterms_eq_preorder b,
      subterms_eq_preorder c]
  | .thresh k xs => by simp [CC.subterms, Ms.preorder, subtermsL_eq_preorder xs]
theorem subtermsL_eq_preorder : (xs : MsList) → CC.subtermsL xs = xs.preorder
  | .nil => by simp [CC.subtermsL, MsList.preorder]
  | .cons x xs => by
    simp [CC.subtermsL, MsList.preorder, subterms_eq_preorder x, subtermsL_eq_preorder xs]
end

theorem cc_nodeKeys_eq (m : Ms) : CC.nodeKeys m = m.nodeKeys := by cases m <;> rfl

theorem msKeys_eq_iterPk (m : Ms) : CC.msKeys m = m.iterPk := by
  simp only [CC.msKeys, Ms.iterPk, subterms_eq_preorder]
  first
    | rfl
    | (congr 1; funext x; exact cc_nodeKeys_eq x)

theorem hasDup_eq (l : List Key) : CC.hasDup l = !nodupB l := by
  induction l with
  | nil => rfl
  | cons k ks ih => simp only [CC.hasDup, nodupB, ih]; cases ks.contains k <;> simp

theorem hasDup_eq_repeated (m : Ms) : CC.hasDup (CC.msKeys m) = hasRepeatedKeys m := by
  rw [hasRepeatedKeys_eq, hasDefect_duplicateKeys, allKeys_eq, hasDup_eq, msKeys_eq_iterPk]

/-- C08's parameter record is the projection of `Ctx::SANE` -/
theorem sane_fields (c : Ctx) :
    c.SANE.allowCompressedKeys = (CC.saneParams c).allowCompressed
      ∧ c.SANE.allowUncompressedKeys = (CC.saneParams c).allowUncompressed
      ∧ c.SANE.allowXOnlyKeys = (CC.saneParams c).allowXOnly
      ∧ c.SANE.allowDupIf = (CC.saneParams c).allowDupIf
      ∧ c.SANE.allowOrI = (CC.saneParams c).allowOrI
      ∧ c.SANE.allowMulti = (CC.saneParams c).allowMulti
      ∧ c.SANE.allowMultiA = (CC.saneParams c).allowMultiA
      ∧ c.SANE.allowRawPkh = false
      ∧ c.SANE.maxOpcodeCount = (CC.saneParams c).maxOpcodeCount.getD USIZE_MAX
      ∧ c.SANE.maxScriptSize = (CC.saneParams c).maxScriptSize.getD USIZE_MAX
      ∧ c.SANE.maxWitnessItems = (CC.saneParams c).maxWitnessItems.getD USIZE_MAX
      ∧ c.SANE.maxExecStackSize = (CC.saneParams c).maxExecStackSize.getD USIZE_MAX
      ∧ ((CC.saneParams c).maxScriptSize = none ∨ ∃ v, (CC.saneParams c).maxScriptSize = some v ∧ v < USIZE_MAX) := by
  cases c
  · refine ⟨rfl, rfl, rfl, rfl, rfl, rfl, rfl, rfl, rfl, rfl, rfl, rfl, Or.inr ⟨10000, rfl, by decide⟩⟩
  · refine ⟨rfl, rfl, rfl, rfl, rfl, rfl, rfl, rfl, rfl, rfl, rfl, rfl, Or.inr ⟨520, rfl, by decide⟩⟩
  · refine ⟨rfl, rfl, rfl, rfl, rfl, rfl, rfl, rfl, rfl, rfl, rfl, rfl, Or.inr ⟨3600, rfl, by decide⟩⟩
  · exact ⟨rfl, rfl, rfl, rfl, rfl, rfl, rfl, rfl, rfl, rfl, rfl, rfl, Or.inl rfl⟩

theorem cc_pkOk_eq (env : KeyEnv) (ctx : Ctx) (k : Key) :
    CC.pkOk env (CC.saneParams ctx) k = pkOK ctx.SANE (keyKindOf env k) := by
  obtain ⟨h1, h2, h3, _⟩ := sane_fields ctx
  unfold CC.pkOk pkOK keyKindOf CC.isXOnly isUnc
  rw [h1, h2, h3]
  generalize (CC.saneParams ctx).allowCompressed = a
  generalize (CC.saneParams ctx).allowUncompressed = b
  generalize (CC.saneParams ctx).allowXOnly = c
  by_cases h65 : (env.ser k).length = 65
  · simp only [h65, if_true, beq_self_eq_true]
    cases a <;> cases b <;> cases c <;> decide
  · by_cases h32 : (env.ser k).length = 32
    · have : ((env.ser k).length == 65) = false := by simp [h65]
      simp only [h65, h32, if_false, if_true, this, beq_self_eq_true]
      cases a <;> cases b <;> cases c <;> decide
    · have e65 : ((env.ser k).length == 65) = false := by simp [h65]
      have e32 : ((env.ser k).length == 32) = false := by simp [h32]
      simp only [h65, h32, if_false, e65, e32]
      cases a <;> cases b <;> cases c <;> decide

/-- per node: C08's two node predicates are C12's switch test plus the key test -/
theorem cc_node_eq (env : KeyEnv) (ctx : Ctx) (m : Ms) :
    (CC.nodeOk env (CC.saneParams ctx) m && CC.nodeIfOk (CC.saneParams ctx) m)
      = (flagOK ctx.SANE m && m.nodeKeys.all fun k => pkOK ctx.SANE (keyKindOf env k)) := by
  have hk : ∀ ks : List Key, ks.all (CC.pkOk env (CC.saneParams ctx))
      = ks.all fun k => pkOK ctx.SANE (keyKindOf env k) := by
    intro ks; congr 1; funext k; exact cc_pkOk_eq env ctx k
  obtain ⟨_, _, _, h4, h5, h6, h7, h8, _⟩ := sane_fields ctx
  cases m <;> simp only [CC.nodeOk, CC.nodeIfOk, flagOK, Ms.nodeKeys, List.all_nil, List.all_cons,
    Bool.and_true, Bool.true_and, hk, cc_pkOk_eq, h4, h5, h6, h7, h8, Bool.false_and]

theorem all_and' {α} (l : List α) (f g : α → Bool) :
    (l.all f && l.all g) = l.all (fun a => f a && g a) := by
  induction l with
  | nil => rfl
  | cons a l ih => simp only [List.all_cons, ← ih]; cases f a <;> cases g a <;> simp

theorem leOpt_getD (x : Nat) (o : Option Nat) (hx : x ≤ USIZE_MAX) :
    CC.leOpt x o = decide (x ≤ o.getD USIZE_MAX) := by
  cases o with
  | none => simp [CC.leOpt, hx]
  | some v => rfl

theorem leOpt_size (x : Nat) (o : Option Nat) (ho : o = none ∨ ∃ v, o = some v ∧ v < USIZE_MAX) :
    CC.leOpt x o = (decide (USIZE_MAX ≤ o.getD USIZE_MAX) || decide (x ≤ o.getD USIZE_MAX)) := by
  rcases ho with rfl | ⟨v, rfl, hv⟩
  · simp [CC.leOpt]
  · have : decide (USIZE_MAX ≤ v) = false := by simp; omega
    simp [CC.leOpt, this]

/-- C08's mirror of `validate(&Ctx::SANE)` is C12's model -/
theorem validateSane_eq_validate (env : KeyEnv) (ctx : Ctx) (m : Ms) (hfit : FitsUsize env ctx m) :
    CC.validateSane env ctx m = isOk (validate env (ccKeys env) ctx ctx.SANE m) := by
  rw [validate_isOk]
  unfold CC.validateSane CC.validateRest CC.fragsIfOk validOK
  cases hty : typeOf m with
  | none => simp
  | some ty =>
    simp only
    obtain ⟨_, _, _, _, _, _, _, _, s9, s10, s11, s12, s13⟩ := sane_fields ctx
    -- the node loop
    have hnodes : ((CC.subterms m).all (CC.nodeOk env (CC.saneParams ctx))
        && (CC.subterms m).all (CC.nodeIfOk (CC.saneParams ctx))) = nodesOK ctx.SANE (ccKeys env) m := by
      rw [all_and', subterms_eq_preorder]
      have : (fun a => CC.nodeOk env (CC.saneParams ctx) a && CC.nodeIfOk (CC.saneParams ctx) a)
          = fun a => flagOK ctx.SANE a && a.nodeKeys.all fun k => pkOK ctx.SANE (keyKindOf env k) :=
        funext (cc_node_eq env ctx)
      rw [this, ← all_and']
      simp only [nodesOK, Ms.iterPk, List.all_flatMap, ccKeys]
      have hmp : (mpRun none (List.map (fun _ => 0) (List.flatMap Ms.nodeKeys m.preorder))).isSome
          = true := by
        generalize List.flatMap Ms.nodeKeys m.preorder = l
        induction l with
        | nil => rfl
        | cons _ _ ih => simpa [mpRun] using ih
      rw [hmp, Bool.or_true, Bool.and_true]
    -- resources
    have hres : (CC.leOpt (scriptSize env ctx m) (CC.saneParams ctx).maxScriptSize
        && (match (extOf env ctx m).satData with
            | none => true
            | some d =>
              CC.leOpt (d.wCount + 1) (CC.saneParams ctx).maxWitnessItems
                && CC.leOpt ((extOf env ctx m).staticOps + d.execOps) (CC.saneParams ctx).maxOpcodeCount
                && CC.leOpt (d.wCount + d.execStack) (CC.saneParams ctx).maxExecStackSize))
        = resourceOK ctx.SANE (scriptSize env ctx m) (extOf env ctx m) := by
      unfold resourceOK
      rw [s9, s10, s11, s12, leOpt_size _ _ s13]
      cases hs : (extOf env ctx m).satData with
      | none => rfl
      | some d =>
        obtain ⟨f1, f2, f3⟩ := hfit d hs
        simp only [witnessItems, opCount, execStack, leOpt_getD _ _ f1, leOpt_getD _ _ f2,
          leOpt_getD _ _ f3]
        rfl
    have hdepth : (ctx.SANE).maxRecursiveDepth = 402 := by cases ctx <;> rfl
    have hflags : (ctx.SANE).allowDuplicateKeys = false ∧ (ctx.SANE).allowMixedTimeLocks = false
        ∧ (ctx.SANE).allowMalleability = false ∧ (ctx.SANE).allowNonB = false
        ∧ (ctx.SANE).allowSiglessBranch = false ∧ (ctx.SANE).allowUnsatisfiable = true := by
      cases ctx <;> decide
    obtain ⟨g1, g2, g3, g4, g5, g6⟩ := hflags
    simp only [nonTopOK, topOK, hdepth, g1, g2, g3, g4, g5, g6, Bool.false_or, Bool.true_or,
      Bool.and_true, ← hnodes, ← hres, hasDup_eq_repeated, hasMixedTimelocks]
    -- both sides are the same conjunction, differently bracketed
    rw [Bool.eq_iff_iff]
    simp only [Bool.and_eq_true]
    constructor
    · rintro ⟨⟨⟨⟨⟨⟨⟨⟨⟨a1, a2⟩, a3⟩, a4⟩, a5⟩, a6⟩, a7⟩, a8⟩, a9⟩, a10⟩
      exact ⟨⟨⟨⟨⟨a1, a2⟩, a3⟩, a4, a10⟩, a5, a6⟩, ⟨a7, a8⟩, a9⟩
    · rintro ⟨⟨⟨⟨⟨a1, a2⟩, a3⟩, a4, a10⟩, a5, a6⟩, ⟨a7, a8⟩, a9⟩
      exact ⟨⟨⟨⟨⟨⟨⟨⟨⟨a1, a2⟩, a3⟩, a4⟩, a5⟩, a6⟩, a7⟩, a8⟩, a9⟩, a10⟩

/-- non-vacuity: the hypothesis holds for an ordinary script -/
example : FitsUsize ⟨fun _ => List.replicate 33 0, fun _ => [], fun _ => [], fun _ => [], fun _ _ => []⟩
    .segwitv0 (.check (.pkK 0)) := by
  intro d h
  simp only [extOf, ExtData.castCheck, ExtData.pkK, ExtData.keySig, Ctx.sigType, isUnc] at h
  cases h
  decide

end MsVerif

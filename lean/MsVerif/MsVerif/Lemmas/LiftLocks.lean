/-
C07, timelock refusal: the model's `has_mixed_timelocks` (the `contains_combination` flag that
`ExtData` folds bottom-up, Model/Ext.lean) is exactly the specification's "some structural
spending path mixes height and time" (`Spec/MsSem.lean`: `hasMixedPath true`).

Method: every node's `TimelockInfo` REPRESENTS the node's set of path signatures (`Rep`): the
four unit flags say which lock kinds occur on some path, `containsCombination` says some path is
mixed, and the set is non-empty.  `and` / `or` are direct; for `thresh` the specification's table
(entry j = signatures reachable by choosing exactly j of the children seen so far) is related to
the state of `combine_threshold`'s fold by an invariant with two ghost bits (some child mixed;
some two children contribute a height and a time lock of one kind).
-/
import MsVerif.Model.Lift
import MsVerif.Spec.MsSem

namespace MsVerif.LiftLocks
open MsVerif MsVerif.MsSem MsVerif.Lift

/-! ## signature sets -/

theorem mem_all (x : LockSig) : x ∈ LockSig.all := by
  cases x with
  | mk a b c d => cases a <;> cases b <;> cases c <;> cases d <;> decide

theorem mem_norm {l : List LockSig} {x : LockSig} : x ∈ normSigs l ↔ x ∈ l := by
  simp [normSigs, mem_all]

theorem mem_cross {a b : List LockSig} {z : LockSig} :
    z ∈ crossSigs a b ↔ ∃ x ∈ a, ∃ y ∈ b, z = x.or y := by
  simp only [crossSigs, mem_norm, List.mem_flatMap, List.mem_map]
  constructor
  · rintro ⟨x, hx, y, hy, rfl⟩; exact ⟨x, hx, y, hy, rfl⟩
  · rintro ⟨x, hx, y, hy, rfl⟩; exact ⟨x, hx, y, hy, rfl⟩

theorem mem_union {a b : List LockSig} {z : LockSig} : z ∈ unionSigs a b ↔ z ∈ a ∨ z ∈ b := by
  simp [unionSigs, mem_norm]

/-- some path of the set has property `f` -/
def Has (f : LockSig → Bool) (S : List LockSig) : Prop := ∃ x ∈ S, f x = true
/-- the set has a path -/
def NE (S : List LockSig) : Prop := ∃ x, x ∈ S

theorem has_union (f : LockSig → Bool) (a b : List LockSig) :
    Has f (unionSigs a b) ↔ Has f a ∨ Has f b := by
  unfold Has
  constructor
  · rintro ⟨x, hx, hf⟩
    rcases mem_union.mp hx with h | h
    · exact Or.inl ⟨x, h, hf⟩
    · exact Or.inr ⟨x, h, hf⟩
  · rintro (⟨x, h, hf⟩ | ⟨x, h, hf⟩)
    · exact ⟨x, mem_union.mpr (Or.inl h), hf⟩
    · exact ⟨x, mem_union.mpr (Or.inr h), hf⟩

theorem ne_union (a b : List LockSig) : NE (unionSigs a b) ↔ NE a ∨ NE b := by
  unfold NE
  constructor
  · rintro ⟨x, hx⟩
    rcases mem_union.mp hx with h | h
    · exact Or.inl ⟨x, h⟩
    · exact Or.inr ⟨x, h⟩
  · rintro (⟨x, h⟩ | ⟨x, h⟩)
    · exact ⟨x, mem_union.mpr (Or.inl h)⟩
    · exact ⟨x, mem_union.mpr (Or.inr h)⟩

theorem ne_cross (a b : List LockSig) : NE (crossSigs a b) ↔ NE a ∧ NE b := by
  unfold NE
  constructor
  · rintro ⟨z, hz⟩
    obtain ⟨x, hx, y, hy, _⟩ := mem_cross.mp hz
    exact ⟨⟨x, hx⟩, ⟨y, hy⟩⟩
  · rintro ⟨⟨x, hx⟩, ⟨y, hy⟩⟩
    exact ⟨x.or y, mem_cross.mpr ⟨x, hx, y, hy, rfl⟩⟩

/-- a unit flag of a combined path -/
theorem has_cross_bit (f : LockSig → Bool) (hf : ∀ x y, f (x.or y) = (f x || f y))
    (a b : List LockSig) :
    Has f (crossSigs a b) ↔ (Has f a ∧ NE b) ∨ (Has f b ∧ NE a) := by
  unfold Has NE
  constructor
  · rintro ⟨z, hz, hfz⟩
    obtain ⟨x, hx, y, hy, rfl⟩ := mem_cross.mp hz
    rw [hf, Bool.or_eq_true] at hfz
    rcases hfz with h | h
    · exact Or.inl ⟨⟨x, hx, h⟩, ⟨y, hy⟩⟩
    · exact Or.inr ⟨⟨y, hy, h⟩, ⟨x, hx⟩⟩
  · rintro (⟨⟨x, hx, h⟩, ⟨y, hy⟩⟩ | ⟨⟨y, hy, h⟩, ⟨x, hx⟩⟩)
    · exact ⟨x.or y, mem_cross.mpr ⟨x, hx, y, hy, rfl⟩, by rw [hf, h]; rfl⟩
    · exact ⟨x.or y, mem_cross.mpr ⟨x, hx, y, hy, rfl⟩, by rw [hf, h]; simp⟩

def fOH : LockSig → Bool := (·.olderHeight)
def fOT : LockSig → Bool := (·.olderTime)
def fAH : LockSig → Bool := (·.afterHeight)
def fAT : LockSig → Bool := (·.afterTime)

theorem fOH_or (x y : LockSig) : fOH (x.or y) = (fOH x || fOH y) := rfl
theorem fOT_or (x y : LockSig) : fOT (x.or y) = (fOT x || fOT y) := rfl
theorem fAH_or (x y : LockSig) : fAH (x.or y) = (fAH x || fAH y) := rfl
theorem fAT_or (x y : LockSig) : fAT (x.or y) = (fAT x || fAT y) := rfl

/-- the pieces contribute a height and a time lock of the same kind -/
def HatS (a b : List LockSig) : Prop :=
  (Has fOH a ∧ Has fOT b) ∨ (Has fOT a ∧ Has fOH b) ∨ (Has fAT a ∧ Has fAH b)
    ∨ (Has fAH a ∧ Has fAT b)

theorem mixed_or (x y : LockSig) :
    (x.or y).mixed = (x.mixed || y.mixed || (fOH x && fOT y) || (fOT x && fOH y)
      || (fAT x && fAH y) || (fAH x && fAT y)) := by
  cases x with
  | mk a b c d =>
    cases y with
    | mk e f g h =>
      cases a <;> cases b <;> cases c <;> cases d <;> cases e <;> cases f <;> cases g <;> cases h <;> rfl

theorem has_cross_mixed (a b : List LockSig) :
    Has LockSig.mixed (crossSigs a b) ↔
      (Has LockSig.mixed a ∧ NE b) ∨ (Has LockSig.mixed b ∧ NE a) ∨ HatS a b := by
  unfold HatS Has NE
  constructor
  · rintro ⟨z, hz, hm⟩
    obtain ⟨x, hx, y, hy, rfl⟩ := mem_cross.mp hz
    rw [mixed_or] at hm
    simp only [Bool.or_eq_true, Bool.and_eq_true] at hm
    rcases hm with ((((h | h) | h) | h) | h) | h
    · exact Or.inl ⟨⟨x, hx, h⟩, ⟨y, hy⟩⟩
    · exact Or.inr (Or.inl ⟨⟨y, hy, h⟩, ⟨x, hx⟩⟩)
    · exact Or.inr (Or.inr (Or.inl ⟨⟨x, hx, h.1⟩, ⟨y, hy, h.2⟩⟩))
    · exact Or.inr (Or.inr (Or.inr (Or.inl ⟨⟨x, hx, h.1⟩, ⟨y, hy, h.2⟩⟩)))
    · exact Or.inr (Or.inr (Or.inr (Or.inr (Or.inl ⟨⟨x, hx, h.1⟩, ⟨y, hy, h.2⟩⟩))))
    · exact Or.inr (Or.inr (Or.inr (Or.inr (Or.inr ⟨⟨x, hx, h.1⟩, ⟨y, hy, h.2⟩⟩))))
  · have mk : ∀ x ∈ a, ∀ y ∈ b, (x.or y).mixed = true →
        ∃ z, z ∈ crossSigs a b ∧ z.mixed = true :=
      fun x hx y hy h => ⟨x.or y, mem_cross.mpr ⟨x, hx, y, hy, rfl⟩, h⟩
    rintro (⟨⟨x, hx, h⟩, ⟨y, hy⟩⟩ | ⟨⟨y, hy, h⟩, ⟨x, hx⟩⟩ |
      ⟨⟨x, hx, h1⟩, ⟨y, hy, h2⟩⟩ | ⟨⟨x, hx, h1⟩, ⟨y, hy, h2⟩⟩ | ⟨⟨x, hx, h1⟩, ⟨y, hy, h2⟩⟩ |
      ⟨⟨x, hx, h1⟩, ⟨y, hy, h2⟩⟩)
    all_goals apply mk x hx y hy
    all_goals rw [mixed_or]
    all_goals simp [*]

/-! ## `TimelockInfo` represents a signature set -/

structure Rep (t : TimelockInfo) (S : List LockSig) : Prop where
  ne : NE S
  oH : t.csvWithHeight = true ↔ Has fOH S
  oT : t.csvWithTime = true ↔ Has fOT S
  aH : t.cltvWithHeight = true ↔ Has fAH S
  aT : t.cltvWithTime = true ↔ Has fAT S
  mx : t.containsCombination = true ↔ Has LockSig.mixed S

theorem has_singleton (f : LockSig → Bool) (x : LockSig) : Has f [x] ↔ f x = true := by
  simp [Has]

theorem rep_empty : Rep {} [{}] where
  ne := ⟨{}, by simp⟩
  oH := by simp [has_singleton, fOH]
  oT := by simp [has_singleton, fOT]
  aH := by simp [has_singleton, fAH]
  aT := by simp [has_singleton, fAT]
  mx := by simp [has_singleton, LockSig.mixed]

/-- the boolean that `combine_threshold` computes for a new child against the accumulator -/
def hat (a t : TimelockInfo) : Bool :=
  (a.csvWithHeight && t.csvWithTime) || (a.csvWithTime && t.csvWithHeight)
    || (a.cltvWithTime && t.cltvWithHeight) || (a.cltvWithHeight && t.cltvWithTime)

/-- one iteration of the fold in `TimelockInfo::combine_threshold` -/
def step (k : Nat) (acc t : TimelockInfo) : TimelockInfo :=
  { csvWithHeight := acc.csvWithHeight || t.csvWithHeight
    csvWithTime := acc.csvWithTime || t.csvWithTime
    cltvWithHeight := acc.cltvWithHeight || t.cltvWithHeight
    cltvWithTime := acc.cltvWithTime || t.cltvWithTime
    containsCombination :=
      (acc.containsCombination || (decide (k > 1) && hat acc t)) || t.containsCombination }

theorem combineThreshold_eq (k : Nat) (ts : List TimelockInfo) :
    TimelockInfo.combineThreshold k ts = ts.foldl (step k) {} := rfl

theorem hat_iff {a t : TimelockInfo} {Sa St : List LockSig} (ha : Rep a Sa) (ht : Rep t St) :
    hat a t = true ↔ HatS Sa St := by
  unfold hat HatS
  simp only [Bool.or_eq_true, Bool.and_eq_true, ha.oH, ha.oT, ha.aH, ha.aT, ht.oH, ht.oT, ht.aH,
    ht.aT]
  constructor
  · rintro (((h | h) | h) | h)
    · exact Or.inl h
    · exact Or.inr (Or.inl h)
    · exact Or.inr (Or.inr (Or.inl h))
    · exact Or.inr (Or.inr (Or.inr h))
  · rintro (h | h | h | h)
    · exact Or.inl (Or.inl (Or.inl h))
    · exact Or.inl (Or.inl (Or.inr h))
    · exact Or.inl (Or.inr h)
    · exact Or.inr h

theorem rep_and {a b : TimelockInfo} {Sa Sb : List LockSig} (ha : Rep a Sa) (hb : Rep b Sb) :
    Rep (TimelockInfo.combineAnd a b) (crossSigs Sa Sb) := by
  have e : TimelockInfo.combineAnd a b = step 2 (step 2 {} a) b := rfl
  rw [e]
  have hh := hat_iff ha hb
  constructor
  · exact (ne_cross _ _).mpr ⟨ha.ne, hb.ne⟩
  · rw [has_cross_bit fOH fOH_or]; simp [step, ← ha.oH, ← hb.oH, ha.ne, hb.ne]
  · rw [has_cross_bit fOT fOT_or]; simp [step, ← ha.oT, ← hb.oT, ha.ne, hb.ne]
  · rw [has_cross_bit fAH fAH_or]; simp [step, ← ha.aH, ← hb.aH, ha.ne, hb.ne]
  · rw [has_cross_bit fAT fAT_or]; simp [step, ← ha.aT, ← hb.aT, ha.ne, hb.ne]
  · rw [has_cross_mixed, ← hh, ← ha.mx, ← hb.mx]
    simp only [ha.ne, hb.ne, and_true]
    simp only [step, hat, Bool.false_and, Bool.or_false, Bool.false_or, Bool.and_false,
      Bool.or_eq_true, Bool.and_eq_true, decide_eq_true_eq]
    constructor
    · rintro ((h | h) | h)
      · exact Or.inl h
      · exact Or.inr (Or.inr (by simpa [hat] using h.2))
      · exact Or.inr (Or.inl h)
    · rintro (h | h | h)
      · exact Or.inl (Or.inl h)
      · exact Or.inr h
      · exact Or.inl (Or.inr ⟨by omega, by simpa [hat] using h⟩)

theorem rep_or {a b : TimelockInfo} {Sa Sb : List LockSig} (ha : Rep a Sa) (hb : Rep b Sb) :
    Rep (TimelockInfo.combineOr a b) (unionSigs Sa Sb) := by
  have e : TimelockInfo.combineOr a b = step 1 (step 1 {} a) b := rfl
  rw [e]
  constructor
  · exact (ne_union _ _).mpr (Or.inl ha.ne)
  · rw [has_union]; simp [step, ← ha.oH, ← hb.oH]
  · rw [has_union]; simp [step, ← ha.oT, ← hb.oT]
  · rw [has_union]; simp [step, ← ha.aH, ← hb.aH]
  · rw [has_union]; simp [step, ← ha.aT, ← hb.aT]
  · rw [has_union]; simp [step, ← ha.mx, ← hb.mx]

/-! ## the threshold table -/

theorem chooseStep_length (s : List LockSig) :
    ∀ (tb : List (List LockSig)) (prev : List LockSig), (chooseStep s prev tb).length = tb.length
  | [], _ => rfl
  | _ :: rest, _ => by simp [chooseStep, chooseStep_length s rest]

theorem chooseStep_zero (s prev : List LockSig) (tb : List (List LockSig)) :
    (chooseStep s prev tb)[0]? = tb[0]?.map (fun cur => unionSigs cur (crossSigs prev s)) := by
  cases tb <;> simp [chooseStep]

theorem chooseStep_succ (s : List LockSig) :
    ∀ (tb : List (List LockSig)) (prev : List LockSig) (j : Nat) (p cur : List LockSig),
      tb[j]? = some p → tb[j + 1]? = some cur →
      (chooseStep s prev tb)[j + 1]? = some (unionSigs cur (crossSigs p s))
  | [], _, _, _, _, h, _ => by simp at h
  | t :: rest, prev, 0, p, cur, hp, hc => by
    simp only [List.getElem?_cons_zero, Option.some.injEq] at hp
    subst hp
    simp only [List.getElem?_cons_succ] at hc
    simp only [chooseStep, List.getElem?_cons_succ, chooseStep_zero, hc, Option.map_some]
  | t :: rest, prev, j + 1, p, cur, hp, hc => by
    simp only [List.getElem?_cons_succ] at hp hc
    simp only [chooseStep, List.getElem?_cons_succ]
    exact chooseStep_succ s rest t j p cur hp hc

theorem chooseChild_length (s : List LockSig) (tb : List (List LockSig)) :
    (chooseChild s tb).length = tb.length := by
  cases tb <;> simp [chooseChild, chooseStep_length]

theorem chooseChild_zero (s : List LockSig) (tb : List (List LockSig)) :
    (chooseChild s tb)[0]? = tb[0]? := by
  cases tb <;> simp [chooseChild]

theorem chooseChild_succ (s : List LockSig) (tb : List (List LockSig)) (j : Nat)
    (p cur : List LockSig) (hp : tb[j]? = some p) (hc : tb[j + 1]? = some cur) :
    (chooseChild s tb)[j + 1]? = some (unionSigs cur (crossSigs p s)) := by
  cases tb with
  | nil => simp at hp
  | cons t0 rest =>
    simp only [chooseChild, List.getElem?_cons_succ]
    simp only [List.getElem?_cons_succ] at hc
    cases j with
    | zero =>
      simp only [List.getElem?_cons_zero, Option.some.injEq] at hp
      subst hp
      rw [chooseStep_zero, hc]; rfl
    | succ j =>
      simp only [List.getElem?_cons_succ] at hp
      exact chooseStep_succ s rest t0 j p cur hp hc

/-- The invariant tying the fold state `acc` of `combine_threshold` after `i` children to the
specification's table.  Ghost bits: `C` = some child has a mixed path, `Pr` = two different
children contribute a height and a time lock of one kind. -/
structure TInv (k i : Nat) (acc : TimelockInfo) (C Pr : Bool) (table : List (List LockSig)) :
    Prop where
  len : table.length = k + 1
  comb : acc.containsCombination = (C || (decide (k > 1) && Pr))
  cPos : C = true → 1 ≤ i
  prPos : Pr = true → 2 ≤ i
  oHPos : acc.csvWithHeight = true → 1 ≤ i
  oTPos : acc.csvWithTime = true → 1 ≤ i
  aHPos : acc.cltvWithHeight = true → 1 ≤ i
  aTPos : acc.cltvWithTime = true → 1 ≤ i
  ne : ∀ j T, table[j]? = some T → (NE T ↔ j ≤ i)
  oH : ∀ j T, table[j]? = some T → (Has fOH T ↔ 1 ≤ j ∧ j ≤ i ∧ acc.csvWithHeight = true)
  oT : ∀ j T, table[j]? = some T → (Has fOT T ↔ 1 ≤ j ∧ j ≤ i ∧ acc.csvWithTime = true)
  aH : ∀ j T, table[j]? = some T → (Has fAH T ↔ 1 ≤ j ∧ j ≤ i ∧ acc.cltvWithHeight = true)
  aT : ∀ j T, table[j]? = some T → (Has fAT T ↔ 1 ≤ j ∧ j ≤ i ∧ acc.cltvWithTime = true)
  mx : ∀ j T, table[j]? = some T →
    (Has LockSig.mixed T ↔ (1 ≤ j ∧ j ≤ i ∧ C = true) ∨ (2 ≤ j ∧ j ≤ i ∧ Pr = true))

theorem getElem?_init (k j : Nat) (T : List LockSig)
    (h : (([{}] : List LockSig) :: List.replicate k [])[j]? = some T) :
    (j = 0 ∧ T = [{}]) ∨ (1 ≤ j ∧ T = []) := by
  cases j with
  | zero => simp at h; exact Or.inl ⟨rfl, h.symm⟩
  | succ j =>
    simp only [List.getElem?_cons_succ] at h
    have := List.mem_of_getElem? h
    simp only [List.mem_replicate] at this
    exact Or.inr ⟨by omega, this.2⟩

theorem has_nil (f : LockSig → Bool) : ¬ Has f [] := by simp [Has]
theorem ne_nil : ¬ NE [] := by simp [NE]

theorem tinv_init (k : Nat) : TInv k 0 {} false false ([{}] :: List.replicate k []) where
  len := by simp
  comb := by simp
  cPos := by simp
  prPos := by simp
  oHPos := by simp
  oTPos := by simp
  aHPos := by simp
  aTPos := by simp
  ne := by
    intro j T h
    rcases getElem?_init k j T h with ⟨rfl, rfl⟩ | ⟨hj, rfl⟩
    · simp [NE]
    · simp only [ne_nil, false_iff]; omega
  oH := by
    intro j T h
    rcases getElem?_init k j T h with ⟨rfl, rfl⟩ | ⟨hj, rfl⟩
    · simp [has_singleton, fOH]
    · simp [has_nil]
  oT := by
    intro j T h
    rcases getElem?_init k j T h with ⟨rfl, rfl⟩ | ⟨hj, rfl⟩
    · simp [has_singleton, fOT]
    · simp [has_nil]
  aH := by
    intro j T h
    rcases getElem?_init k j T h with ⟨rfl, rfl⟩ | ⟨hj, rfl⟩
    · simp [has_singleton, fAH]
    · simp [has_nil]
  aT := by
    intro j T h
    rcases getElem?_init k j T h with ⟨rfl, rfl⟩ | ⟨hj, rfl⟩
    · simp [has_singleton, fAT]
    · simp [has_nil]
  mx := by
    intro j T h
    rcases getElem?_init k j T h with ⟨rfl, rfl⟩ | ⟨hj, rfl⟩
    · simp [has_singleton, LockSig.mixed]
    · simp [has_nil]

/-- entries of the new table: every index present before is present after, with the recurrence -/
theorem table_step (s : List LockSig) (tb : List (List LockSig)) (j : Nat) (T' : List LockSig)
    (h : (chooseChild s tb)[j]? = some T') :
    (j = 0 ∧ tb[0]? = some T') ∨
    (∃ j' p cur, j = j' + 1 ∧ tb[j']? = some p ∧ tb[j' + 1]? = some cur
      ∧ T' = unionSigs cur (crossSigs p s)) := by
  cases j with
  | zero => rw [chooseChild_zero] at h; exact Or.inl ⟨rfl, h⟩
  | succ j =>
    right
    have hlt : j + 1 < tb.length := by
      have := (List.getElem?_eq_some_iff.mp h).1
      rwa [chooseChild_length] at this
    have hp : tb[j]? = some tb[j] := List.getElem?_eq_getElem (by omega)
    have hc : tb[j + 1]? = some tb[j + 1] := List.getElem?_eq_getElem hlt
    have := chooseChild_succ s tb j _ _ hp hc
    rw [this] at h
    exact ⟨j, _, _, rfl, hp, hc, (Option.some.inj h).symm⟩

/-- a unit flag through one table step (pure arithmetic + propositional part) -/
theorem bit_step {i j : Nat} {F tf : Bool} {hasNew hasCur hasP hasS neS neP : Prop}
    (hpos : F = true → 1 ≤ i)
    (hnew : hasNew ↔ hasCur ∨ ((hasP ∧ neS) ∨ (hasS ∧ neP)))
    (hcur : hasCur ↔ 1 ≤ j + 1 ∧ j + 1 ≤ i ∧ F = true)
    (hp : hasP ↔ 1 ≤ j ∧ j ≤ i ∧ F = true)
    (hs : tf = true ↔ hasS) (hneS : neS) (hneP : neP ↔ j ≤ i) :
    hasNew ↔ 1 ≤ j + 1 ∧ j + 1 ≤ i + 1 ∧ (F || tf) = true := by
  rw [hnew, hcur, hp, ← hs, hneP]
  simp only [hneS, and_true, Bool.or_eq_true]
  constructor
  · rintro (⟨_, h2, h3⟩ | ⟨_, h2, h3⟩ | ⟨h1, h2⟩)
    · exact ⟨by omega, by omega, Or.inl h3⟩
    · exact ⟨by omega, by omega, Or.inl h3⟩
    · exact ⟨by omega, by omega, Or.inr h1⟩
  · rintro ⟨_, h2, h3 | h3⟩
    · have := hpos h3
      by_cases hj : 1 ≤ j
      · exact Or.inr (Or.inl ⟨hj, by omega, h3⟩)
      · exact Or.inl ⟨by omega, by omega, h3⟩
    · exact Or.inr (Or.inr ⟨h3, by omega⟩)

theorem tinv_step {k i : Nat} {acc t : TimelockInfo} {C Pr : Bool} {table : List (List LockSig)}
    {s : List LockSig} (inv : TInv k i acc C Pr table) (ht : Rep t s) :
    TInv k (i + 1) (step k acc t) (C || t.containsCombination) (Pr || hat acc t)
      (chooseChild s table) where
  len := by rw [chooseChild_length, inv.len]
  comb := by
    simp only [step, inv.comb]
    cases C <;> cases Pr <;> cases t.containsCombination <;> cases hat acc t <;>
      cases decide (k > 1) <;> rfl
  cPos := fun _ => by omega
  prPos := by
    intro h
    rw [Bool.or_eq_true] at h
    rcases h with h | h
    · have := inv.prPos h; omega
    · have : 1 ≤ i := by
        unfold hat at h
        simp only [Bool.or_eq_true, Bool.and_eq_true] at h
        rcases h with ((h | h) | h) | h
        · exact inv.oHPos h.1
        · exact inv.oTPos h.1
        · exact inv.aTPos h.1
        · exact inv.aHPos h.1
      omega
  oHPos := fun _ => by omega
  oTPos := fun _ => by omega
  aHPos := fun _ => by omega
  aTPos := fun _ => by omega
  ne := by
    intro j T' h
    rcases table_step s table j T' h with ⟨rfl, h0⟩ | ⟨j', p, cur, rfl, hp, hc, rfl⟩
    · have := inv.ne 0 T' h0; simp only [Nat.zero_le, iff_true] at this ⊢; exact this
    · rw [ne_union, ne_cross, inv.ne _ _ hc, inv.ne _ _ hp]
      simp only [ht.ne, and_true]; omega
  oH := by
    intro j T' h
    rcases table_step s table j T' h with ⟨rfl, h0⟩ | ⟨j', p, cur, rfl, hp, hc, rfl⟩
    · have := inv.oH 0 T' h0; simp at this ⊢; exact this
    · exact bit_step inv.oHPos
        (by rw [has_union, has_cross_bit fOH fOH_or]) (inv.oH _ _ hc) (inv.oH _ _ hp) ht.oH ht.ne
        (inv.ne _ _ hp)
  oT := by
    intro j T' h
    rcases table_step s table j T' h with ⟨rfl, h0⟩ | ⟨j', p, cur, rfl, hp, hc, rfl⟩
    · have := inv.oT 0 T' h0; simp at this ⊢; exact this
    · exact bit_step inv.oTPos
        (by rw [has_union, has_cross_bit fOT fOT_or]) (inv.oT _ _ hc) (inv.oT _ _ hp) ht.oT ht.ne
        (inv.ne _ _ hp)
  aH := by
    intro j T' h
    rcases table_step s table j T' h with ⟨rfl, h0⟩ | ⟨j', p, cur, rfl, hp, hc, rfl⟩
    · have := inv.aH 0 T' h0; simp at this ⊢; exact this
    · exact bit_step inv.aHPos
        (by rw [has_union, has_cross_bit fAH fAH_or]) (inv.aH _ _ hc) (inv.aH _ _ hp) ht.aH ht.ne
        (inv.ne _ _ hp)
  aT := by
    intro j T' h
    rcases table_step s table j T' h with ⟨rfl, h0⟩ | ⟨j', p, cur, rfl, hp, hc, rfl⟩
    · have := inv.aT 0 T' h0; simp at this ⊢; exact this
    · exact bit_step inv.aTPos
        (by rw [has_union, has_cross_bit fAT fAT_or]) (inv.aT _ _ hc) (inv.aT _ _ hp) ht.aT ht.ne
        (inv.ne _ _ hp)
  mx := by
    intro j T' h
    rcases table_step s table j T' h with ⟨rfl, h0⟩ | ⟨j', p, cur, rfl, hp, hc, rfl⟩
    · have := inv.mx 0 T' h0; simp at this ⊢; exact this
    · -- the accumulated flags represent entry j' as far as `hat` is concerned
      have hhat : HatS p s ↔ (1 ≤ j' ∧ j' ≤ i ∧ hat acc t = true) := by
        unfold HatS hat
        simp only [inv.oH _ _ hp, inv.oT _ _ hp, inv.aH _ _ hp, inv.aT _ _ hp, ← ht.oH, ← ht.oT,
          ← ht.aH, ← ht.aT, Bool.or_eq_true, Bool.and_eq_true]
        constructor
        · rintro (⟨⟨a, b, c⟩, d⟩ | ⟨⟨a, b, c⟩, d⟩ | ⟨⟨a, b, c⟩, d⟩ | ⟨⟨a, b, c⟩, d⟩)
          · exact ⟨a, b, Or.inl (Or.inl (Or.inl ⟨c, d⟩))⟩
          · exact ⟨a, b, Or.inl (Or.inl (Or.inr ⟨c, d⟩))⟩
          · exact ⟨a, b, Or.inl (Or.inr ⟨c, d⟩)⟩
          · exact ⟨a, b, Or.inr ⟨c, d⟩⟩
        · rintro ⟨a, b, ((h | h) | h) | h⟩
          · exact Or.inl ⟨⟨a, b, h.1⟩, h.2⟩
          · exact Or.inr (Or.inl ⟨⟨a, b, h.1⟩, h.2⟩)
          · exact Or.inr (Or.inr (Or.inl ⟨⟨a, b, h.1⟩, h.2⟩))
          · exact Or.inr (Or.inr (Or.inr ⟨⟨a, b, h.1⟩, h.2⟩))
      rw [has_union, has_cross_mixed, inv.mx _ _ hc, inv.mx _ _ hp, inv.ne _ _ hp, hhat, ← ht.mx]
      simp only [ht.ne, and_true, Bool.or_eq_true]
      have cP := inv.cPos
      have pP := inv.prPos
      constructor
      · rintro ((⟨_, b, c⟩ | ⟨a, b, c⟩) | ((⟨_, b, c⟩ | ⟨a, b, c⟩) | ⟨a, b⟩ | ⟨a, b, c⟩))
        · exact Or.inl ⟨by omega, by omega, Or.inl c⟩
        · exact Or.inr ⟨by omega, by omega, Or.inl c⟩
        · exact Or.inl ⟨by omega, by omega, Or.inl c⟩
        · exact Or.inr ⟨by omega, by omega, Or.inl c⟩
        · exact Or.inl ⟨by omega, by omega, Or.inr a⟩
        · exact Or.inr ⟨by omega, by omega, Or.inr c⟩
      · rintro (⟨_, b, c | c⟩ | ⟨a, b, c | c⟩)
        · have := cP c
          by_cases hj : 1 ≤ j'
          · exact Or.inr (Or.inl (Or.inl ⟨hj, by omega, c⟩))
          · exact Or.inl (Or.inl ⟨by omega, by omega, c⟩)
        · exact Or.inr (Or.inr (Or.inl ⟨c, by omega⟩))
        · have := pP c
          by_cases hj : 2 ≤ j'
          · exact Or.inr (Or.inl (Or.inr ⟨hj, by omega, c⟩))
          · exact Or.inl (Or.inr ⟨by omega, by omega, c⟩)
        · exact Or.inr (Or.inr (Or.inr ⟨by omega, by omega, c⟩))

/-- at the end (`n` children, `1 ≤ k ≤ n`) entry `k` is represented by the fold's result -/
theorem rep_of_tinv {k n : Nat} {acc : TimelockInfo} {C Pr : Bool} {table : List (List LockSig)}
    (inv : TInv k n acc C Pr table) (hk1 : 1 ≤ k) (hkn : k ≤ n) :
    Rep acc ((table.getLast?).getD []) := by
  have hlast : table.getLast? = table[k]? := by
    rw [List.getLast?_eq_getElem?, inv.len]; rfl
  have hlt : k < table.length := by rw [inv.len]; omega
  have hk : table[k]? = some (table[k]'hlt) := List.getElem?_eq_getElem hlt
  rw [hlast, hk]
  simp only [Option.getD_some]
  constructor
  · exact (inv.ne _ _ hk).mpr hkn
  · rw [inv.oH _ _ hk]; simp [hk1, hkn]
  · rw [inv.oT _ _ hk]; simp [hk1, hkn]
  · rw [inv.aH _ _ hk]; simp [hk1, hkn]
  · rw [inv.aT _ _ hk]; simp [hk1, hkn]
  · rw [inv.mx _ _ hk, inv.comb]
    simp only [Bool.or_eq_true, Bool.and_eq_true, decide_eq_true_eq]
    constructor
    · rintro (h | ⟨h1, h2⟩)
      · exact Or.inl ⟨hk1, hkn, h⟩
      · exact Or.inr ⟨by omega, hkn, h2⟩
    · rintro (⟨_, _, h⟩ | ⟨h1, _, h⟩)
      · exact Or.inl h
      · exact Or.inr ⟨by omega, h⟩

/-! ## the whole script -/

mutual
/-- `k ≤ n` (and `1 ≤ k` for `thresh`) at every threshold — guaranteed by `Threshold::new` -/
def kBounds : Ms → Bool
  | .alt x | .swap x | .check x | .dupIf x | .verify x | .nonZero x | .zeroNotEqual x => kBounds x
  | .andV l r | .andB l r | .orB l r | .orD l r | .orC l r | .orI l r => kBounds l && kBounds r
  | .andOr a b c => kBounds a && kBounds b && kBounds c
  | .thresh k xs => decide (1 ≤ k) && decide (k ≤ xs.length) && kBoundsL xs
  | .multi k ks | .sortedMulti k ks | .multiA k ks | .sortedMultiA k ks => decide (k ≤ ks.length)
  | _ => true
def kBoundsL : MsList → Bool
  | .nil => true
  | .cons x xs => kBounds x && kBoundsL xs
end

theorem extsOf_length (env : KeyEnv) (ctx : Ctx) : ∀ xs : MsList, (extsOf env ctx xs).length = xs.length
  | .nil => rfl
  | .cons x xs => by simp [extsOf, MsList.length, extsOf_length env ctx xs]

theorem rep_lock {t : TimelockInfo} {x : LockSig}
    (h1 : t.csvWithHeight = x.olderHeight) (h2 : t.csvWithTime = x.olderTime)
    (h3 : t.cltvWithHeight = x.afterHeight) (h4 : t.cltvWithTime = x.afterTime)
    (h5 : t.containsCombination = x.mixed) : Rep t [x] where
  ne := ⟨x, by simp⟩
  oH := by rw [has_singleton, h1]; rfl
  oT := by rw [has_singleton, h2]; rfl
  aH := by rw [has_singleton, h3]; rfl
  aT := by rw [has_singleton, h4]; rfl
  mx := by rw [has_singleton, h5]

mutual
theorem rep_ms (env : KeyEnv) (ctx : Ctx) : ∀ ms : Ms, kBounds ms = true →
    Rep (extOf env ctx ms).timelockInfo (lockSigs true ms)
  | .tru, _ => by simp only [extOf, lockSigs]; exact rep_empty
  | .fls, _ => by simp only [extOf, lockSigs, if_true]; exact rep_empty
  | .pkK k, _ => by
    simp only [extOf, lockSigs, ExtData.pkK]; exact rep_empty
  | .pkH k, _ => by
    simp only [extOf, lockSigs, ExtData.pkH]; exact rep_empty
  | .rawPkH _, _ => by
    simp only [extOf, lockSigs, ExtData.pkH]; exact rep_empty
  | .hash kind h, _ => by
    cases kind <;> simp only [extOf, lockSigs] <;> exact rep_empty
  | .after n, _ => by
    simp only [extOf, lockSigs, ExtData.after, Pol.absIsHeight, Pol.LOCKTIME_THRESHOLD]
    by_cases h : n < 500000000
    · have h' : ¬ n ≥ 500000000 := by omega
      simp only [h, h', decide_true, decide_false, if_true]
      exact rep_lock rfl rfl rfl rfl rfl
    · have h' : n ≥ 500000000 := by omega
      simp only [h, h', decide_true, decide_false, Bool.false_eq_true, if_false]
      exact rep_lock rfl rfl rfl rfl rfl
  | .older n, _ => by
    simp only [extOf, lockSigs, ExtData.older, Pol.relIsTime]
    by_cases h : (n / 4194304 % 2 == 1) = true
    · simp only [h, Bool.not_true, if_true]
      exact rep_lock rfl rfl rfl rfl rfl
    · have h' : (n / 4194304 % 2 == 1) = false := by simpa using h
      simp only [h', Bool.not_false, Bool.false_eq_true, if_false]
      exact rep_lock rfl rfl rfl rfl rfl
  | .multi k ks, hk | .sortedMulti k ks, hk => by
    simp only [kBounds, decide_eq_true_eq] at hk
    simp only [extOf, lockSigs, ExtData.multi, hk, if_true]; exact rep_empty
  | .multiA k ks, hk | .sortedMultiA k ks, hk => by
    simp only [kBounds, decide_eq_true_eq] at hk
    simp only [extOf, lockSigs, ExtData.multiA, hk, if_true]; exact rep_empty
  | .alt x, hk => by
    simp only [kBounds] at hk
    simpa only [extOf, lockSigs, ExtData.castAlt] using rep_ms env ctx x hk
  | .swap x, hk => by
    simp only [kBounds] at hk
    simpa only [extOf, lockSigs, ExtData.castSwap] using rep_ms env ctx x hk
  | .check x, hk => by
    simp only [kBounds] at hk
    simpa only [extOf, lockSigs, ExtData.castCheck] using rep_ms env ctx x hk
  | .dupIf x, hk => by
    simp only [kBounds] at hk
    simpa only [extOf, lockSigs, ExtData.castDupIf] using rep_ms env ctx x hk
  | .verify x, hk => by
    simp only [kBounds] at hk
    simpa only [extOf, lockSigs, ExtData.castVerify] using rep_ms env ctx x hk
  | .nonZero x, hk => by
    simp only [kBounds] at hk
    simpa only [extOf, lockSigs, ExtData.castNonZero] using rep_ms env ctx x hk
  | .zeroNotEqual x, hk => by
    simp only [kBounds] at hk
    simpa only [extOf, lockSigs, ExtData.castZeroNotEqual] using rep_ms env ctx x hk
  | .andB l r, hk => by
    simp only [kBounds, Bool.and_eq_true] at hk
    simp only [extOf, lockSigs, ExtData.andB]
    exact rep_and (rep_ms env ctx l hk.1) (rep_ms env ctx r hk.2)
  | .andV l r, hk => by
    simp only [kBounds, Bool.and_eq_true] at hk
    simp only [extOf, lockSigs, ExtData.andV]
    exact rep_and (rep_ms env ctx l hk.1) (rep_ms env ctx r hk.2)
  | .orB l r, hk => by
    simp only [kBounds, Bool.and_eq_true] at hk
    simp only [extOf, lockSigs, ExtData.orB]
    exact rep_or (rep_ms env ctx l hk.1) (rep_ms env ctx r hk.2)
  | .orD l r, hk => by
    simp only [kBounds, Bool.and_eq_true] at hk
    simp only [extOf, lockSigs, ExtData.orD]
    exact rep_or (rep_ms env ctx l hk.1) (rep_ms env ctx r hk.2)
  | .orC l r, hk => by
    simp only [kBounds, Bool.and_eq_true] at hk
    simp only [extOf, lockSigs, ExtData.orC]
    exact rep_or (rep_ms env ctx l hk.1) (rep_ms env ctx r hk.2)
  | .orI l r, hk => by
    simp only [kBounds, Bool.and_eq_true] at hk
    simp only [extOf, lockSigs, ExtData.orI]
    exact rep_or (rep_ms env ctx l hk.1) (rep_ms env ctx r hk.2)
  | .andOr a b c, hk => by
    simp only [kBounds, Bool.and_eq_true] at hk
    simp only [extOf, lockSigs, ExtData.andOr]
    exact rep_or (rep_and (rep_ms env ctx a hk.1.1) (rep_ms env ctx b hk.1.2))
      (rep_ms env ctx c hk.2)
  | .thresh k xs, hk => by
    simp only [kBounds, Bool.and_eq_true, decide_eq_true_eq] at hk
    simp only [extOf, lockSigs, ExtData.threshold, combineThreshold_eq]
    obtain ⟨C', Pr', inv⟩ := tinv_list env ctx xs hk.2 k 0 {} _ _ _ (tinv_init k)
    rw [List.foldl_map]
    rw [Nat.zero_add] at inv
    exact rep_of_tinv inv hk.1.1 hk.1.2
theorem tinv_list (env : KeyEnv) (ctx : Ctx) : ∀ xs : MsList, kBoundsL xs = true →
    ∀ (k i : Nat) (acc : TimelockInfo) (C Pr : Bool) (table : List (List LockSig)),
      TInv k i acc C Pr table →
      ∃ C' Pr', TInv k (i + xs.length)
        ((extsOf env ctx xs).foldl (fun a e => step k a e.timelockInfo) acc) C' Pr'
        (chooseSigs true xs table)
  | .nil, _, k, i, acc, C, Pr, table, inv =>
    ⟨C, Pr, by simpa [extsOf, chooseSigs, MsList.length] using inv⟩
  | .cons x xs, hk, k, i, acc, C, Pr, table, inv => by
    simp only [kBoundsL, Bool.and_eq_true] at hk
    have hx := rep_ms env ctx x hk.1
    have inv' := tinv_step inv hx
    obtain ⟨C', Pr', this⟩ := tinv_list env ctx xs hk.2 k (i + 1) _ _ _ _ inv'
    refine ⟨C', Pr', ?_⟩
    simp only [extsOf, chooseSigs, MsList.length, List.foldl_cons]
    have e : i + (xs.length + 1) = i + 1 + xs.length := by omega
    rw [e]
    exact this
end

/-- **`has_mixed_timelocks` is exact** w.r.t. structural spending paths -/
theorem hasMixedTimelocks_eq (env : KeyEnv) (ctx : Ctx) (ms : Ms) (hk : kBounds ms = true) :
    Lift.hasMixedTimelocks env ctx ms = hasMixedPath true ms := by
  have r := rep_ms env ctx ms hk
  unfold Lift.hasMixedTimelocks hasMixedPath
  rw [Bool.eq_iff_iff, r.mx, List.any_eq_true]
  rfl

/-! ## satisfiable paths are structural paths -/

def Sub (a b : List LockSig) : Prop := ∀ x ∈ a, x ∈ b

theorem sub_cross {a a' b b' : List LockSig} (h1 : Sub a a') (h2 : Sub b b') :
    Sub (crossSigs a b) (crossSigs a' b') := by
  intro z hz
  obtain ⟨x, hx, y, hy, rfl⟩ := mem_cross.mp hz
  exact mem_cross.mpr ⟨x, h1 x hx, y, h2 y hy, rfl⟩

theorem sub_union {a a' b b' : List LockSig} (h1 : Sub a a') (h2 : Sub b b') :
    Sub (unionSigs a b) (unionSigs a' b') := by
  intro z hz
  rcases mem_union.mp hz with h | h
  · exact mem_union.mpr (Or.inl (h1 z h))
  · exact mem_union.mpr (Or.inr (h2 z h))

/-- pointwise inclusion of two tables of the same length -/
def TSub (t1 t2 : List (List LockSig)) : Prop :=
  t1.length = t2.length ∧ ∀ (j : Nat) a b, t1[j]? = some a → t2[j]? = some b → Sub a b

theorem tsub_child {s1 s2 : List LockSig} {t1 t2 : List (List LockSig)} (hs : Sub s1 s2)
    (ht : TSub t1 t2) : TSub (chooseChild s1 t1) (chooseChild s2 t2) := by
  refine ⟨by rw [chooseChild_length, chooseChild_length, ht.1], ?_⟩
  intro j a b ha hb
  rcases table_step s1 t1 j a ha with ⟨rfl, h0⟩ | ⟨j1, p1, c1, rfl, hp1, hc1, rfl⟩
  · rw [chooseChild_zero] at hb
    exact ht.2 0 a b h0 hb
  · have hb'' : ∃ j' p cur, j1 + 1 = j' + 1 ∧ t2[j']? = some p ∧ t2[j' + 1]? = some cur
        ∧ b = unionSigs cur (crossSigs p s2) := by
      rcases table_step s2 t2 (j1 + 1) b hb with h | h
      · exact absurd h.1 (by omega)
      · exact h
    obtain ⟨j2, p2, c2, hj, hp2, hc2, rfl⟩ := hb''
    have : j2 = j1 := by omega
    subst this
    exact sub_union (ht.2 _ _ _ hc1 hc2) (sub_cross (ht.2 _ _ _ hp1 hp2) hs)

theorem tsub_last {t1 t2 : List (List LockSig)} (h : TSub t1 t2) :
    Sub ((t1.getLast?).getD []) ((t2.getLast?).getD []) := by
  rw [List.getLast?_eq_getElem?, List.getLast?_eq_getElem?, h.1]
  show Sub ((t1[t2.length - 1]?).getD []) ((t2[t2.length - 1]?).getD [])
  cases h1 : t1[t2.length - 1]? with
  | none => intro x hx; simp at hx
  | some a =>
    cases h2 : t2[t2.length - 1]? with
    | none =>
      have := (List.getElem?_eq_some_iff.mp h1).1
      rw [h.1] at this
      have := List.getElem?_eq_none_iff.mp h2
      omega
    | some b => exact h.2 _ a b h1 h2

theorem tsub_refl (t : List (List LockSig)) : TSub t t :=
  ⟨rfl, fun j a b ha hb => by rw [ha] at hb; cases hb; exact fun x hx => hx⟩

mutual
theorem lockSigs_mono : ∀ ms : Ms, Sub (lockSigs false ms) (lockSigs true ms)
  | .tru | .pkK _ | .pkH _ | .rawPkH _ | .hash _ _ | .after _ | .older _
  | .multi _ _ | .sortedMulti _ _ | .multiA _ _ | .sortedMultiA _ _ => by
    simp only [lockSigs]; exact fun x hx => hx
  | .fls => by simp [lockSigs, Sub]
  | .alt x | .swap x | .check x | .dupIf x | .verify x | .nonZero x | .zeroNotEqual x => by
    simp only [lockSigs]; exact lockSigs_mono x
  | .andV l r | .andB l r => by
    simp only [lockSigs]; exact sub_cross (lockSigs_mono l) (lockSigs_mono r)
  | .orB l r | .orD l r | .orC l r | .orI l r => by
    simp only [lockSigs]; exact sub_union (lockSigs_mono l) (lockSigs_mono r)
  | .andOr a b c => by
    simp only [lockSigs]
    exact sub_union (sub_cross (lockSigs_mono a) (lockSigs_mono b)) (lockSigs_mono c)
  | .thresh k xs => by
    simp only [lockSigs]
    exact tsub_last (chooseSigs_mono xs _ _ (tsub_refl _))
theorem chooseSigs_mono : ∀ (xs : MsList) (t1 t2 : List (List LockSig)), TSub t1 t2 →
    TSub (chooseSigs false xs t1) (chooseSigs true xs t2)
  | .nil, _, _, h => by simpa [chooseSigs] using h
  | .cons x xs, t1, t2, h => by
    simp only [chooseSigs]
    exact chooseSigs_mono xs _ _ (tsub_child (lockSigs_mono x) h)
end

theorem hasMixedPath_mono (ms : Ms) (h : hasMixedPath false ms = true) :
    hasMixedPath true ms = true := by
  unfold hasMixedPath at *
  rw [List.any_eq_true] at *
  obtain ⟨x, hx, hm⟩ := h
  exact ⟨x, lockSigs_mono ms x hx, hm⟩

end MsVerif.LiftLocks

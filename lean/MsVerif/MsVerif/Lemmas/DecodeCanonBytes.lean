/-
T4 on bytes: lexer outputs are well-formed tokens (`lex_wf`), well-formed tokens of an encoding
mean well-sized atoms (`atomsOk_of_wf`), hence a script that `decode_with_validation_params`
accepts is byte for byte the encoding of the miniscript it returns.
-/
import MsVerif.Lemmas.DecodeCanon
import MsVerif.Lemmas.LexCanon
import MsVerif.Lemmas.LexEncode

namespace MsVerif
namespace DecodeL
open Script LexL

/-! ### the lexer produces well-formed tokens -/

theorem leValue_lt : ∀ (l : Bytes), leValue l < 256 ^ l.length
  | [] => by simp [leValue]
  | b :: l => by
    have := leValue_lt l
    have hb := u8_toNat_lt b
    simp only [leValue, List.length_cons, Nat.pow_succ]
    omega

theorem pushToken_wf {bs : Bytes} {t : Token} (h : pushToken bs = .ok t) : Token.wf t = true := by
  unfold pushToken at h
  repeat' (first | split at h | (dsimp only at h))
  all_goals first
    | (cases h; done)
    | (cases h; simp [Token.wf, *]; done)
    | skip
  -- a number of at most 4 bytes
  rename_i h20 h32 h33 h65 h4 hmin hnn
  cases h
  simp only [Token.wf, decide_eq_true_eq]
  have hlen : bs.length ≤ 4 := by omega
  cases hg : bs.getLast? with
  | none =>
    have : bs = [] := by simpa using hg
    subst this; simp [numDecodeRaw]
  | some last =>
    have hs := eq_dropLast_append' bs last hg
    have hlt := u8_toNat_lt last
    by_cases hbig : last.toNat ≥ 0x80
    · have : numDecodeRaw bs ≤ 0 := by
        simp only [numDecodeRaw, hg, hbig, if_true]
        have : (0 : Int) ≤ Int.ofNat (leValue (bs.dropLast ++ [last &&& 0x7f])) := Int.natCast_nonneg _
        simp only [Int.ofNat_eq_natCast] at this ⊢
        omega
      omega
    · have hv : numDecodeRaw bs = Int.ofNat (leValue bs) := by simp [numDecodeRaw, hg, hbig]
      have hlv : leValue bs = leValue bs.dropLast + 256 ^ bs.dropLast.length * last.toNat := by
        conv => lhs; rw [hs]
        rw [leValue_append]; simp [leValue]
      have hd := leValue_lt bs.dropLast
      have hdl : bs.dropLast.length ≤ 3 := by simp; omega
      have hp : 256 ^ bs.dropLast.length ≤ 256 ^ 3 := Nat.pow_le_pow_right (by omega) hdl
      have hmul : 256 ^ bs.dropLast.length * last.toNat ≤ 256 ^ bs.dropLast.length * 127 :=
        Nat.mul_le_mul_left _ (by omega)
      have h3 : 256 ^ bs.dropLast.length * 128 ≤ 256 ^ 3 * 128 := Nat.mul_le_mul_right _ hp
      rw [hv]
      simp only [Int.ofNat_eq_natCast, Int.toNat_natCast]
      rw [hlv]
      have : 256 ^ bs.dropLast.length * 128 = 256 ^ bs.dropLast.length * 127 + 256 ^ bs.dropLast.length := by
        rw [show 128 = 127 + 1 from rfl, Nat.mul_add, Nat.mul_one]
      simp only [Nat.reducePow] at h3
      omega

set_option hygiene false in
local macro "op_wf" lit:term : tactic => `(tactic|
  (by_cases hb : b = $lit
   · subst hb; rw [if_pos (by rfl)] at h; cases h; intro t ht; simp at ht
     rcases ht with rfl | rfl <;> rfl
   rw [if_neg (by simpa using hb)] at h))

theorem opTokens_wf {s : Bool} {prev : Option Token} {b : UInt8} {toks : List Token}
    (h : opTokens s prev b = .ok toks) : WfAll toks := by
  unfold opTokens at h
  op_wf 0x9a
  op_wf 0x9b
  op_wf 0x87
  op_wf 0x88
  op_wf 0x9c
  op_wf 0x9d
  op_wf 0xac
  op_wf 0xad
  op_wf 0xba
  op_wf 0xae
  op_wf 0xaf
  op_wf 0xb2
  op_wf 0xb1
  op_wf 0x6c
  op_wf 0x6b
  op_wf 0x75
  op_wf 0x76
  op_wf 0x93
  op_wf 0x63
  op_wf 0x73
  op_wf 0x64
  op_wf 0x67
  op_wf 0x68
  op_wf 0x92
  op_wf 0x82
  op_wf 0x7c
  by_cases hb : b = 0x69
  · subst hb
    rw [if_pos (by rfl)] at h
    repeat' split at h
    all_goals first
      | (cases h; done)
      | (cases h; intro t ht; simp at ht; subst ht; rfl)
  rw [if_neg (by simpa using hb)] at h
  op_wf 0xa6
  op_wf 0xa9
  op_wf 0xa8
  op_wf 0xaa
  split at h
  · rename_i hr
    cases h
    simp only [Bool.and_eq_true, decide_eq_true_eq] at hr
    intro t ht
    simp at ht; subst ht
    have := u8_toNat_lt b
    simp [Token.wf]; omega
  · cases h

theorem instrTokens_wf {s : Bool} {prev : Option Token} {ins : Instr} {toks : List Token}
    (h : instrTokens s prev ins = .ok toks) : WfAll toks := by
  cases ins with
  | push bs =>
    simp only [instrTokens] at h
    cases hp : pushToken bs with
    | error e => simp [hp, Except.map] at h
    | ok t =>
      simp only [hp, Except.map, Except.ok.injEq] at h
      subst h
      intro x hx; simp at hx; subst hx; exact pushToken_wf hp
  | op b => exact opTokens_wf h

theorem lexB_wf (s : Bool) : ∀ (n : Nat) (bs : Bytes) (prev : Option Token) (ts : List Token),
    bs.length ≤ n → lexB s prev bs = .ok ts → WfAll ts := by
  intro n
  induction n with
  | zero =>
    intro bs prev ts hl h
    have : bs = [] := by simpa using hl
    subst this; rw [lexB_nil] at h; cases h; intro t ht; cases ht
  | succ n ih =>
    intro bs prev ts hl h
    cases bs with
    | nil => rw [lexB_nil] at h; cases h; intro t ht; cases ht
    | cons b rest =>
      rw [lexB_cons] at h
      cases hn : nextInstr b rest with
      | error e => simp [hn] at h
      | ok p =>
        obtain ⟨ins, rest'⟩ := p
        simp only [hn] at h
        have hlen := nextInstr_len hn
        cases ht : instrTokens s prev ins with
        | error e => simp [ht] at h
        | ok toks =>
          simp only [ht] at h
          cases hr : lexB s (toks.getLast?.or prev) rest' with
          | error e => simp [hr] at h
          | ok ts' =>
            simp only [hr, Except.ok.injEq] at h
            subst h
            have h1 := instrTokens_wf ht
            have h2 := ih rest' _ ts' (by simp at hl; omega) hr
            intro t htm
            rcases List.mem_append.mp htm with hm | hm
            · exact h1 t hm
            · exact h2 t hm

/-- every token the lexer returns is well-formed -/
theorem lex_wf {bs : Bytes} {ts : List Token} (h : lex bs = .ok ts) : WfAll ts :=
  lexB_wf true bs.length bs none ts (Nat.le_refl _) h

/-! ### well-formed tokens of an encoding: well-sized atoms -/

theorem keyLenOk_of_wf {env : KeyEnv} {k : Key} (h : Token.wf (keyTok (env.ser k)) = true) :
    keyLenOk env k := by
  unfold keyTok at h
  unfold keyLenOk
  split at h
  · right; left; assumption
  · split at h
    · right; right; assumption
    · left; simpa [Token.wf] using h

theorem mem_insertByKey' (env : KeyEnv) (k : Key) (l : List Key) :
    k ∈ insertByKey env k l ∧ ∀ x ∈ l, x ∈ insertByKey env k l := by
  induction l with
  | nil => simp [insertByKey]
  | cons y l ih =>
    simp only [insertByKey]
    split
    · exact ⟨by simp [ih.1], fun x hx => by
        rcases List.mem_cons.mp hx with rfl | hx
        · simp
        · simp [ih.2 x hx]⟩
    · exact ⟨by simp, fun x hx => by simp [List.mem_cons.mp hx]⟩

theorem mem_foldl_insert (env : KeyEnv) (x : Key) : ∀ (ks acc : List Key), (x ∈ acc ∨ x ∈ ks) →
    x ∈ ks.foldl (fun acc k => insertByKey env k acc) acc := by
  intro ks
  induction ks with
  | nil => intro acc h; simpa using h
  | cons k ks ih =>
    intro acc h
    simp only [List.foldl_cons]
    apply ih
    rcases h with h | h
    · exact Or.inl ((mem_insertByKey' env k acc).2 x h)
    · rcases List.mem_cons.mp h with rfl | h
      · exact Or.inl (mem_insertByKey' env x acc).1
      · exact Or.inr h

theorem mem_sortKeys' (env : KeyEnv) (ks : List Key) (x : Key) (h : x ∈ ks) : x ∈ sortKeys env ks :=
  mem_foldl_insert env x ks [] (Or.inr h)

theorem multiA_mem (env : KeyEnv) (ks : List Key) (x : Key) (h : x ∈ ks) :
    keyTok (env.ser x) ∈ multiATokens env ks := by
  cases ks with
  | nil => cases h
  | cons k ks =>
    simp only [multiATokens, List.mem_append, List.mem_cons, List.mem_flatMap]
    rcases List.mem_cons.mp h with rfl | h
    · exact .inl (.inl rfl)
    · exact .inr ⟨x, h, .inl rfl⟩

mutual
theorem atomsOk_of_wf (env : KeyEnv) (ctx : Ctx) : (ms : Ms) → WfAll (tokens env ctx ms) → AtomsOk env ms
  | .tru, _ => trivial
  | .fls, _ => trivial
  | .pkK k, h => keyLenOk_of_wf (h _ (by simp [tokens]))
  | .pkH k, h => by
    have := h (.hash20 (env.pkh k)) (by simp [tokens])
    simpa [Token.wf, AtomsOk] using this
  | .rawPkH k, h => by
    have := h (.hash20 (env.rawPkh k)) (by simp [tokens])
    simpa [Token.wf, AtomsOk] using this
  | .after n, h => by
    have := h (.num n) (by simp [tokens]); simpa [Token.wf, AtomsOk] using this
  | .older n, h => by
    have := h (.num n) (by simp [tokens]); simpa [Token.wf, AtomsOk] using this
  | .hash kind hh, h => by
    have := h (hashValTok kind (env.hashVal kind hh)) (by simp [tokens])
    cases kind <;> simpa [Token.wf, AtomsOk, hashValTok, hashLen] using this
  | .alt x, h => atomsOk_of_wf env ctx x (fun t ht => h t (by simp [tokens, ht]))
  | .swap x, h => atomsOk_of_wf env ctx x (fun t ht => h t (by simp [tokens, ht]))
  | .check x, h => atomsOk_of_wf env ctx x (fun t ht => h t (by simp [tokens, ht]))
  | .dupIf x, h => atomsOk_of_wf env ctx x (fun t ht => h t (by simp [tokens, ht]))
  | .verify x, h => atomsOk_of_wf env ctx x (fun t ht => h t (by simp [tokens, ht]))
  | .nonZero x, h => atomsOk_of_wf env ctx x (fun t ht => h t (by simp [tokens, ht]))
  | .zeroNotEqual x, h => atomsOk_of_wf env ctx x (fun t ht => h t (by simp [tokens, ht]))
  | .andV l r, h => ⟨atomsOk_of_wf env ctx l (fun t ht => h t (by simp [tokens, ht])),
      atomsOk_of_wf env ctx r (fun t ht => h t (by simp [tokens, ht]))⟩
  | .andB l r, h => ⟨atomsOk_of_wf env ctx l (fun t ht => h t (by simp [tokens, ht])),
      atomsOk_of_wf env ctx r (fun t ht => h t (by simp [tokens, ht]))⟩
  | .orB l r, h => ⟨atomsOk_of_wf env ctx l (fun t ht => h t (by simp [tokens, ht])),
      atomsOk_of_wf env ctx r (fun t ht => h t (by simp [tokens, ht]))⟩
  | .orD l r, h => ⟨atomsOk_of_wf env ctx l (fun t ht => h t (by simp [tokens, ht])),
      atomsOk_of_wf env ctx r (fun t ht => h t (by simp [tokens, ht]))⟩
  | .orC l r, h => ⟨atomsOk_of_wf env ctx l (fun t ht => h t (by simp [tokens, ht])),
      atomsOk_of_wf env ctx r (fun t ht => h t (by simp [tokens, ht]))⟩
  | .orI l r, h => ⟨atomsOk_of_wf env ctx l (fun t ht => h t (by simp [tokens, ht])),
      atomsOk_of_wf env ctx r (fun t ht => h t (by simp [tokens, ht]))⟩
  | .andOr a b c, h => ⟨atomsOk_of_wf env ctx a (fun t ht => h t (by simp [tokens, ht])),
      atomsOk_of_wf env ctx b (fun t ht => h t (by simp [tokens, ht])),
      atomsOk_of_wf env ctx c (fun t ht => h t (by simp [tokens, ht]))⟩
  | .thresh k xs, h => by
    refine ⟨?_, atomsOkL_of_wf env ctx true xs (fun t ht => h t (by simp [tokens, ht]))⟩
    have := h (.num k) (by simp [tokens]); simpa [Token.wf] using this
  | .multi k ks, h => by
    refine ⟨?_, ?_, fun x hx => keyLenOk_of_wf (h _ (by simp [tokens]; exact .inr (.inl ⟨x, hx, rfl⟩)))⟩
    · have := h (.num k) (by simp [tokens]); simpa [Token.wf] using this
    · have := h (.num ks.length) (by simp [tokens]); simpa [Token.wf] using this
  | .sortedMulti k ks, h => by
    refine ⟨?_, ?_, fun x hx => keyLenOk_of_wf (h _ (by
      simp [tokens]; exact .inr (.inl ⟨x, mem_sortKeys' env ks x hx, rfl⟩)))⟩
    · have := h (.num k) (by simp [tokens]); simpa [Token.wf] using this
    · have := h (.num ks.length) (by simp [tokens]); simpa [Token.wf] using this
  | .multiA k ks, h => by
    have hk := h (.num k) (by simp [tokens])
    exact ⟨by simpa [Token.wf] using hk, fun x hx => keyLenOk_of_wf (h _ (by
      simp only [tokens, List.mem_append]; exact .inl (multiA_mem env ks x hx)))⟩
  | .sortedMultiA k ks, h => by
    have hk := h (.num k) (by simp [tokens])
    exact ⟨by simpa [Token.wf] using hk, fun x hx => keyLenOk_of_wf (h _ (by
      simp only [tokens, List.mem_append]
      exact .inl (multiA_mem env _ x (mem_sortKeys' env ks x hx))))⟩
theorem atomsOkL_of_wf (env : KeyEnv) (ctx : Ctx) (first : Bool) : (xs : MsList) →
    WfAll (threshTokens env ctx first xs) → AtomsOkL env xs
  | .nil, _ => trivial
  | .cons x xs, h => ⟨atomsOk_of_wf env ctx x (fun t ht => h t (by simp [threshTokens, ht])),
      atomsOkL_of_wf env ctx false xs (fun t ht => h t (by simp [threshTokens, ht]))⟩
end

/-! ### on bytes -/

theorem decodeScriptP_inv {p : DecParams} {dec : AtomDec} {env : KeyEnv} {ctx : Ctx} {bs : Bytes} {ms : Ms}
    (h : decodeScriptP p dec env ctx bs = .ok ms) :
    ∃ toks, lex bs = .ok toks ∧ decodeToks dec env ctx toks = .ok (ms, []) := by
  unfold decodeScriptP at h
  cases hl : lex bs with
  | error e => simp [hl] at h
  | ok toks =>
    simp only [hl] at h
    cases hd : decodeToks dec env ctx toks with
    | error e => simp [hd] at h
    | ok r =>
      obtain ⟨top, rest⟩ := r
      simp only [hd] at h
      repeat' split at h
      all_goals first
        | (cases h; done)
        | skip
      cases h
      have : rest = [] := by
        cases rest with
        | nil => rfl
        | cons a r =>
          have : ¬ (!(a :: r).isEmpty) = true := by assumption
          simp at this
      subst this
      exact ⟨toks, rfl, hd⟩

/-- T4: an accepted script is the encoding of the miniscript returned for it -/
theorem decodeScriptP_canonical {p : DecParams} {dec : AtomDec} {env : KeyEnv} {ctx : Ctx}
    (hs : DecSound dec env ctx) {bs : Bytes} {ms : Ms} (h : decodeScriptP p dec env ctx bs = .ok ms) :
    serialize (encode env ctx ms) = bs := by
  obtain ⟨toks, hl, hd⟩ := decodeScriptP_inv h
  have hw := lex_wf hl
  have hc := decodeToks_canonical hs hw hd
  have ht : tokens env ctx ms = toks := by
    have := congrArg List.reverse hc
    simpa [rt] using this.symm
  have hat : AtomsOk env ms := atomsOk_of_wf env ctx ms (by rw [ht]; exact hw)
  have hl2 : lex (serialize (encode env ctx ms)) = .ok toks := by
    rw [← ht]; exact lexG_encode env ctx true ms hat
  have e1 := lexStrict_canonical bs toks hl
  have e2 := lexStrict_canonical _ toks hl2
  rw [← e1, e2]

end DecodeL
end MsVerif
